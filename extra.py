"""Property-specific supporting checks run by ./check (never the deciding method)."""
import os, re, subprocess, json


def c10_strace(ROOT, REPO, BUILD, LEAN, GOENV, tier, seed, sh):
    """Run the built-in-heavy stream of C10 in one worker process under strace and look for
    file creation/modification, network and process system calls."""
    harness = os.path.join(BUILD, "harness")
    trace = os.path.join(BUILD, "c10.strace")
    env = dict(os.environ, TZ="UTC", VERIF_FIXED="fixed-value")
    cmd = ["strace", "-f", "-qq", "-o", trace, "-e", "trace=%file,%network,%process",
           harness, "worker", "-prop", "C10", "-tier", "quick", "-seed", str(seed), "-shard", "0", "-shards", "1"]
    try:
        p = subprocess.run(cmd, stdout=subprocess.PIPE, stderr=subprocess.PIPE, env=env, timeout=1200)
    except Exception as e:
        return {"notes": ["strace unavailable: %s" % e]}
    if p.returncode != 0 and not os.path.exists(trace):
        return {"notes": ["strace failed: " + p.stderr.decode()[-200:]]}
    ncases = p.stdout.count(b"\n")
    bad, n = [], 0
    allowed_read = ("/proc/", "/sys/", "/usr/share/zoneinfo", "/etc/localtime", "/dev/shm/verif-cap", "/tmp/verif-cap",
                    "/usr/lib/go", "/usr/local/go", "/etc/zoneinfo", "/usr/share/lib/zoneinfo", "/usr/lib/locale/TZ", "/dev/urandom")
    first_exec = True
    for line in open(trace, errors="replace"):
        n += 1
        m = re.match(r"\d+\s+(\w+)\((.*)", line)
        if not m:
            continue
        call, rest = m.group(1), m.group(2)
        if call in ("execve", "execveat"):
            if first_exec:
                first_exec = False
                continue
            bad.append(line.strip())
        elif call in ("fork", "vfork"):
            bad.append(line.strip())
        elif call in ("clone", "clone3"):
            if "CLONE_THREAD" not in rest:
                bad.append(line.strip())
        elif call in ("socket", "connect", "bind", "listen", "accept", "accept4", "sendto", "sendmsg", "recvfrom", "recvmsg", "socketpair"):
            bad.append(line.strip())
        elif call in ("open", "openat", "creat"):
            pm = re.search(r'"([^"]*)"', rest)
            path = pm.group(1) if pm else ""
            writes = any(f in rest for f in ("O_WRONLY", "O_RDWR", "O_CREAT", "O_TRUNC", "O_APPEND")) or call == "creat"
            mine = path.startswith("/dev/shm/verif-cap") or path.startswith("/tmp/verif-cap")
            if writes and not mine:
                bad.append(line.strip())
            elif not writes and not path.startswith(allowed_read) and not mine and path != harness:
                bad.append(line.strip())
        elif call in ("unlink", "unlinkat", "rename", "renameat", "renameat2", "mkdir", "mkdirat", "rmdir", "link", "linkat",
                      "symlink", "symlinkat", "truncate", "chmod", "fchmodat", "chown", "fchownat", "mknod", "mknodat"):
            if "verif-cap" not in rest:
                bad.append(line.strip())
    try:
        os.remove(trace)
    except OSError:
        pass
    out = {"notes": ["strace: %d cases in one worker, %d traced file/network/process system calls, %d forbidden" % (ncases, n, len(bad))]}
    if bad:
        out["violations"] = [{"name": "strace", "property": "C10", "oracle": "forbidden system call while running scripts with only the built-ins",
                              "syscalls": bad[:20], "replay": " ".join(cmd)}]
    return out
