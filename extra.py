"""Property-specific supporting checks run by ./check (never the deciding method)."""
import os, re, subprocess, json


def c10_strace(ROOT, REPO, BUILD, LEAN, GOENV, tier, seed, sh):
    """Run the built-in-heavy stream of C10 in one worker process under strace and look for
    file creation/modification, network and process system calls."""
    harness = os.path.join(BUILD, "harness")
    trace = os.path.join(BUILD, "c10.strace")
    env = dict(os.environ, TZ="UTC", VERIF_FIXED="fixed-value")
    cmd = ["strace", "-f", "-qq", "-o", trace, "-e", "trace=%file,%network,%process",
           harness, "worker", "-prop", "C10", "-tier", "quick", "-seed", str(seed), "-shard", "0", "-shards", "1"]
    try:
        p = subprocess.run(cmd, stdout=subprocess.PIPE, stderr=subprocess.PIPE, env=env, timeout=1200)
    except Exception as e:
        return {"notes": ["strace unavailable: %s" % e]}
    if p.returncode != 0 and not os.path.exists(trace):
        return {"notes": ["strace failed: " + p.stderr.decode()[-200:]]}
    ncases = p.stdout.count(b"\n")
    bad, n = [], 0
    allowed_read = ("/proc/", "/sys/", "/usr/share/zoneinfo", "/etc/localtime", "/dev/shm/verif-cap", "/tmp/verif-cap",
                    "/usr/lib/go", "/usr/local/go", "/etc/zoneinfo", "/usr/share/lib/zoneinfo", "/usr/lib/locale/TZ", "/dev/urandom")
    first_exec = True
    for line in open(trace, errors="replace"):
        n += 1
        m = re.match(r"\d+\s+(\w+)\((.*)", line)
        if not m:
            continue
        call, rest = m.group(1), m.group(2)
        if call in ("execve", "execveat"):
            if first_exec:
                first_exec = False
                continue
            bad.append(line.strip())
        elif call in ("fork", "vfork"):
            bad.append(line.strip())
        elif call in ("clone", "clone3"):
            if "CLONE_THREAD" not in rest:
                bad.append(line.strip())
        elif call in ("socket", "connect", "bind", "listen", "accept", "accept4", "sendto", "sendmsg", "recvfrom", "recvmsg", "socketpair"):
            bad.append(line.strip())
        elif call in ("open", "openat", "creat"):
            pm = re.search(r'"([^"]*)"', rest)
            path = pm.group(1) if pm else ""
            writes = any(f in rest for f in ("O_WRONLY", "O_RDWR", "O_CREAT", "O_TRUNC", "O_APPEND")) or call == "creat"
            mine = path.startswith("/dev/shm/verif-cap") or path.startswith("/tmp/verif-cap")
            if writes and not mine:
                bad.append(line.strip())
            elif not writes and not path.startswith(allowed_read) and not mine and path != harness:
                bad.append(line.strip())
        elif call in ("unlink", "unlinkat", "rename", "renameat", "renameat2", "mkdir", "mkdirat", "rmdir", "link", "linkat",
                      "symlink", "symlinkat", "truncate", "chmod", "fchmodat", "chown", "fchownat", "mknod", "mknodat"):
            if "verif-cap" not in rest:
                bad.append(line.strip())
    try:
        os.remove(trace)
    except OSError:
        pass
    out = {"notes": ["strace: %d cases in one worker, %d traced file/network/process system calls, %d forbidden" % (ncases, n, len(bad))]}
    if bad:
        out["violations"] = [{"name": "strace", "property": "C10", "oracle": "forbidden system call while running scripts with only the built-ins",
                              "syscalls": bad[:20], "replay": " ".join(cmd)}]
    return out


def c11_race(ROOT, REPO, BUILD, LEAN, GOENV, tier, seed, sh):
    """Build the harness with the Go race detector and run goroutines on shared and separate evaluators."""
    env = dict(GOENV, CGO_ENABLED="1")
    binp = os.path.join(BUILD, "harness-race")
    rc, out = sh(["go", "build", "-race", "-tags", "verif", "-o", binp, "."], cwd=os.path.join(ROOT, "harness"), env=env)
    if rc != 0:
        return {"notes": ["race build unavailable: " + out[-300:]]}
    g, rounds = (16, 50) if tier == "quick" else (64, 500)
    cmd = [binp, "race", "-goroutines", str(g), "-rounds", str(rounds), "-seed", str(seed)]
    try:
        p = subprocess.run(cmd, stdout=subprocess.PIPE, stderr=subprocess.STDOUT, text=True, timeout=3000,
                           env=dict(os.environ, GORACE="halt_on_error=0", TZ="UTC"))
    except Exception as e:
        return {"notes": ["race run failed: %s" % e]}
    res = {"notes": ["race detector: %d goroutines x %d rounds x 4 scripts on a shared evaluator + as many private evaluators: exit %d" % (g, rounds, p.returncode)]}
    if p.returncode != 0 or "DATA RACE" in p.stdout or "RACE-RESULT" in p.stdout or "fatal error" in p.stdout:
        res["violations"] = [{"name": "race", "property": "C11", "oracle": "data race / non-serializable result / crash under concurrent use",
                              "output": p.stdout[-3000:], "replay": " ".join(cmd)}]
    return res


def c08_deep(ROOT, REPO, BUILD, LEAN, GOENV, tier, seed, sh):
    """Pathologically long and deeply nested scripts, each in its own child process."""
    harness = os.path.join(BUILD, "harness")
    depths = [1000, 20000] if tier == "quick" else [1000, 20000, 200000]
    notes, viol = [], []
    for shape in ["paren", "array", "block", "unary", "long", "longexpr"]:
        for d in depths:
            cmd = [harness, "deep", "-shape", shape, "-n", str(d)]
            try:
                p = subprocess.run(cmd, stdout=subprocess.PIPE, stderr=subprocess.STDOUT, text=True, timeout=300,
                                   env=dict(os.environ, GOMEMLIMIT="3GiB"))
                rc, out = p.returncode, p.stdout
            except subprocess.TimeoutExpired:
                rc, out = -9, "timeout"
            if rc != 0:
                viol.append({"name": "deep-%s-%d" % (shape, d), "property": "C08", "oracle": "process-crashed",
                             "detail": "exit %s: %s" % (rc, out[-500:]), "replay": " ".join(cmd)})
            notes.append("deep %s n=%d: exit %s %s" % (shape, d, rc, out.strip()[-80:]))
    res = {"notes": notes}
    if viol:
        res["violations"] = viol
    return res


def c09_wallclock(ROOT, REPO, BUILD, LEAN, GOENV, tier, seed, sh):
    """Real deadlines on real loops: Run must return within a generous bound after the deadline."""
    harness = os.path.join(BUILD, "harness")
    cmd = [harness, "wallclock"]
    try:
        p = subprocess.run(cmd, stdout=subprocess.PIPE, stderr=subprocess.STDOUT, text=True, timeout=600)
    except Exception as e:
        return {"notes": ["wallclock run failed: %s" % e]}
    res = {"notes": ["wall-clock: " + p.stdout.strip()[-300:]]}
    if p.returncode != 0:
        res["violations"] = [{"name": "wallclock", "property": "C09", "oracle": "deadline not honoured within the bound",
                              "output": p.stdout[-2000:], "replay": " ".join(cmd)}]
    return res


def c20_cli(ROOT, REPO, BUILD, LEAN, GOENV, tier, seed, sh):
    """The real evalfilter binary: `run` agrees with the library; all four sub-commands terminate normally."""
    binp = os.path.join(BUILD, "evalfilter-cli")
    rc, out = sh(["go", "build", "-o", binp, "./cmd/evalfilter"], cwd=REPO, env=GOENV)
    if rc != 0:
        return {"broken": ["cmd/evalfilter does not build: " + out[-300:]]}
    harness = os.path.join(BUILD, "harness")
    n = 60 if tier == "quick" else 600
    cmd = [harness, "cli", "-bin", binp, "-n", str(n), "-seed", str(seed), "-tmp", BUILD]
    try:
        p = subprocess.run(cmd, stdout=subprocess.PIPE, stderr=subprocess.STDOUT, text=True, timeout=1800)
    except Exception as e:
        return {"notes": ["cli run failed: %s" % e]}
    res = {"notes": ["cli: " + p.stdout.strip().split("\n")[-1][-300:]]}
    if p.returncode != 0:
        res["violations"] = [{"name": "cli", "property": "C20", "oracle": "command-line driver disagrees with the library / did not terminate normally",
                              "output": p.stdout[-3000:], "replay": " ".join(cmd)}]
    return res
