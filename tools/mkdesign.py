#!/usr/bin/env python3
# rebuilds section 11 ("As built") of DESIGN.md from tools/asbuilt.tmpl.md + levels.json + known_findings.json + seeded/
import json, os
R = os.path.dirname(os.path.dirname(os.path.abspath(__file__)))
l = json.load(open(os.path.join(R, "tools/levels.json")))
k = json.load(open(os.path.join(R, "known_findings.json")))
res = json.load(open(os.path.join(R, "seeded/RESULTS.json")))
rows = "\n".join("| %s | %s | %s |" % (p, l[p]["text"], l[p].get("note", "")) for p in sorted(l))
fixed = "\n".join("| %s | %s | `%s` | %s |" % (f["id"], f["property"], f["commit"], f["what"]) for f in k["findings"] if f["status"] == "fixed")
opn = "\n".join("| %s | %s | %s | %s |" % (f["id"], f["property"], f["what"], f["reproducer"]) for f in k["findings"] if f["status"] == "open")
srows = []
for sid in sorted(res):
    m = json.load(open(os.path.join(R, "seeded", sid, "meta.json")))
    r = res[sid]
    kinds = ", ".join(x.replace(m["property"] + "-", "").replace(".json", "") for x in r.get("kinds", []))
    srows.append("| %s | %s | %s | %s (%s) |" % (sid, m["summary"], m["needs"], r["outcome"], kinds))
stab = "| seed | change | needs | `./check` of its property |\n|---|---|---|---|\n" + "\n".join(srows)
sec = open(os.path.join(R, "tools/asbuilt.tmpl.md")).read()
sec = sec.replace("LEVELROWS", rows).replace("FIXEDROWS", fixed).replace("OPENROWS", opn).replace("SEEDTABLE", stab)
d = open(os.path.join(R, "DESIGN.md")).read()
marker = "\n\n---------------------------------------------------------------------------\n\n## 11. As built"
if marker in d:
    d = d[:d.index(marker)]
open(os.path.join(R, "DESIGN.md"), "w").write(d.rstrip("\n") + sec)
print("DESIGN.md section 11 rebuilt:", len(sec), "chars,", len(srows), "seeds")
