#!/usr/bin/env python3
"""Rebuild MANIFEST.json from props.json (claimed properties) and tools/levels.json (texts)."""
import json, os
ROOT = os.path.dirname(os.path.dirname(os.path.abspath(__file__)))
props = json.load(open(os.path.join(ROOT, "props.json")))
levels = json.load(open(os.path.join(ROOT, "tools", "levels.json")))
allp = [json.loads(l)["id"] for l in open(os.path.join(ROOT, "properties.jsonl"))]
checks, na = [], []
for pid in allp:
    lv = levels.get(pid, {})
    if pid in props:
        checks.append({
            "property_id": pid,
            "quick_cmd": "./check %s --tier quick" % pid,
            "thorough_cmd": "./check %s --tier thorough" % pid,
            "evidence_file": "evidence/%s.json" % pid,
            "replay_cmd_template": "./check replay {path}",
            "engine": "lean-model+correspondence",
            "level_claimed": {"category": "proof", "text": lv.get("text", ""), "design_ref": "DESIGN.md section 6, " + pid},
            "level_note": lv.get("note", ""),
            "technique": lv.get("technique", "Lean 4 theorems about an executable model + differential correspondence check against the Go code"),
        })
    else:
        na.append({"property_id": pid, "reason": lv.get("na", "not yet claimed: check under construction (see DESIGN.md section 10)")})
m = {
    "version": 1,
    "setup_cmd": "./setup.sh",
    "hooks": {"guard": "verif", "enable": "go build -tags verif (the harness is built with the tag against /repo via a replace directive)",
              "baseline_off_cmd": "cd /repo && go test -mod=mod -vet=off -count=1 ./...",
              "source_commits": ["38bb8e4"], "add_only": True},
    "engines": [{"name": "lean-model+correspondence", "path": "check", "serves_properties": sorted(props.keys()),
                 "kind_free_text": "Lean 4 executable model of lexer, parser, compiler, optimizer, VM, reflection glue and built-ins; kernel-checked theorems per property; tied to /repo on every run by tables regenerated from the Go source (verif/extract) and by a differential correspondence harness (verif/harness, Go, in-process with -tags verif) that also runs IMPL-only direct oracles"}],
    "checks": checks,
    "not_applicable": na,
    "notes": "See DESIGN.md. ./check <ID> regenerates the tables from /repo, rebuilds the harness against /repo, rebuilds and audits the property's Lean theorems, runs the property's streams and writes evidence/<ID>.json.",
}
json.dump(m, open(os.path.join(ROOT, "MANIFEST.json"), "w"), indent=1)
print("claimed:", " ".join(c["property_id"] for c in checks))
