#!/usr/bin/env python3
# usage: tools/seedmatrix.py [ids...]   apply every seeded change to /repo in turn, run its property's quick check, record what was reported
import json, os, subprocess, sys, re
ROOT = os.path.dirname(os.path.dirname(os.path.abspath(__file__)))
ids = sys.argv[1:] or sorted(os.listdir(os.path.join(ROOT, "seeded")))
ids = [i for i in ids if os.path.isdir(os.path.join(ROOT, "seeded", i))]
resp = os.path.join(ROOT, "seeded", "RESULTS.json" if not os.environ.get("SEEDMATRIX_SEED") else "RESULTS-seed%s.json" % os.environ["SEEDMATRIX_SEED"])
res = json.load(open(resp)) if os.path.exists(resp) else {}
import shutil, tempfile
evid = os.path.join(ROOT, "evidence")
bak = tempfile.mkdtemp(prefix="evidence.bak.")
shutil.copytree(evid, os.path.join(bak, "evidence"))
import atexit
def restore():
    shutil.rmtree(evid, ignore_errors=True)
    shutil.copytree(os.path.join(bak, "evidence"), evid)
    shutil.rmtree(bak, ignore_errors=True)
atexit.register(restore)
for sid in ids:
    d = os.path.join(ROOT, "seeded", sid)
    prop = json.load(open(os.path.join(d, "meta.json")))["property"]
    patch = os.path.join(d, "patch.diff")
    if subprocess.run(["git", "-C", "/repo", "apply", "--check", patch]).returncode != 0:
        res[sid] = {"property": prop, "outcome": "patch does not apply to the current tree"}
        continue
    subprocess.run(["git", "-C", "/repo", "apply", patch], check=True)
    try:
        p = subprocess.run([os.path.join(ROOT, "check"), prop] + (["--seed", os.environ["SEEDMATRIX_SEED"]] if os.environ.get("SEEDMATRIX_SEED") else []), capture_output=True, text=True, timeout=3600)
        out = p.stdout + p.stderr
    finally:
        subprocess.run(["git", "-C", "/repo", "checkout", "--", "."], check=True)
    viol = [l for l in out.splitlines() if l.startswith("VIOLATION")]
    kinds = sorted({re.sub(r"-\d+\.json.*", "", l.split("replay=")[1].split("/")[-1]) + (" (no-failing-input-found)" if l.endswith("no-failing-input-found") else "") for l in viol})
    res[sid] = {"property": prop, "exit": p.returncode, "violations": len(viol), "kinds": kinds,
                "outcome": ("caught, with failing input" if any("no-failing-input-found" not in l for l in viol) else
                            "caught, no failing input found" if viol else "MISSED")}
    print(sid, res[sid]["outcome"], kinds, flush=True)
    json.dump(res, open(resp, "w"), indent=1)
