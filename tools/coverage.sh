#!/bin/sh
# usage: tools/coverage.sh [tier]   statement coverage of the library under the correspondence streams of every
# property (what the generators reach); builds the harness with -cover into a scratch directory and removes it
T="${1:-quick}"
export GOFLAGS=-mod=mod GOPROXY=off GOSUMDB=off GOTOOLCHAIN=local
D=$(mktemp -d /tmp/verifcov.XXXXXX)
(cd /verif/harness && go build -tags verif -cover -coverpkg=all -o "$D/harness" .) || exit 2
mkdir "$D/data"
for p in C01 C02 C03 C04 C05 C06 C07 C08 C09 C12 C13 C14 C15 C16 C17 C18 C19 C20; do
  GOCOVERDIR="$D/data" "$D/harness" run -prop $p -tier "$T" -seed 1 -out "$D/out.json" -driver /verif/lean/.lake/build/bin/driver -known /verif/known_findings.json >/dev/null 2>&1
done
(cd /verif/harness && go tool covdata percent -i="$D/data" | grep skx/evalfilter)
rm -rf "$D"
