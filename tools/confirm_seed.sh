#!/bin/sh
# usage: tools/confirm_seed.sh <worktree dir> <seed id>
# confirms: builds, existing tests pass with the change, demo fails with and passes without it; then files it.
set -u
W="$1"; ID="$2"
export GOFLAGS=-mod=mod GOPROXY=off GOSUMDB=off GOTOOLCHAIN=local
cd "$W" || exit 2
git checkout -q -- . 2>/dev/null
git apply patch.diff || { echo "patch does not apply to a clean tree"; exit 2; }
mv zz_demo_test.go /tmp/zz_demo_$$.go
go build ./... || { echo "BUILD FAILS"; exit 1; }
T=$(go test -count=1 ./... 2>&1 | grep -v "^ok\|no test files" | head -5)
mv /tmp/zz_demo_$$.go zz_demo_test.go
[ -z "$T" ] && echo "suite: pass with change" || { echo "SUITE FAILS with change: $T"; }
go test -count=1 -run TestDemo . >/tmp/demo_with_$$.txt 2>&1 && echo "DEMO PASSES WITH CHANGE (bad)" || echo "demo: fails with change"
git apply -R patch.diff
go test -count=1 -run TestDemo . >/tmp/demo_without_$$.txt 2>&1 && echo "demo: passes without change" || { echo "DEMO FAILS WITHOUT CHANGE (bad)"; tail -5 /tmp/demo_without_$$.txt; }
mkdir -p /verif/seeded/$ID
cp patch.diff /verif/seeded/$ID/patch.diff
cp zz_demo_test.go /verif/seeded/$ID/zz_demo_test.go
grep -h "^\s*---\|FAIL\|got\|want\|expected" /tmp/demo_with_$$.txt | head -6 > /verif/seeded/$ID/demo_failure.txt
rm -f /tmp/demo_with_$$.txt /tmp/demo_without_$$.txt
