#!/bin/sh
# usage: tools/seedtest.sh <patch.diff> <Cxx> [<Cyy> ...]   apply a seeded change to /repo, run the checks, undo it
P="$1"; shift
rm -rf /tmp/evidence.bak.$$; cp -r /verif/evidence /tmp/evidence.bak.$$
git -C /repo apply "$P" || { echo "patch does not apply"; exit 2; }
for id in "$@"; do
  echo "=== $id"
  ./check "$id" 2>&1 | grep -v "^harness\|^\[check\]" | cut -c1-300 | head -8
  echo "exit=$?"
done
git -C /repo checkout -- .
rm -rf /verif/evidence; mv /tmp/evidence.bak.$$ /verif/evidence
git -C /repo status --short | head -3
