#!/bin/sh
# usage: tools/runall.sh [quick|thorough] [seed]   every check on the current tree; prints one line per property
T="${1:-quick}"; S="${2:-1}"
for i in 01 02 03 04 05 06 07 08 09 10 11 12 13 14 15 16 17 18 19 20; do
  out=$(./check C$i --tier "$T" --seed "$S" 2>&1); rc=$?
  echo "C$i exit=$rc $(echo "$out" | grep -c '^VIOLATION') violations; $(echo "$out" | grep -c '^KNOWN-FINDING') known; $(echo "$out" | grep '^\[check\]' | tail -1)"
  echo "$out" | grep '^VIOLATION' | head -3
done
