#!/bin/sh
# Build everything the checks need from files on disk only (offline).
set -e
cd "$(dirname "$0")"
exec ./check setup
