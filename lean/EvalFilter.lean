import EvalFilter.Model.Api
import EvalFilter.Spec.Oracle
