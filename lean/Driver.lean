import Driver.Main
