/-
  Executable SPEC-side oracles reachable from the driver (`(oracle NAME args…)`).
  Filled in per property.
-/
import EvalFilter.Model.Api

namespace EvalFilter.Spec.Oracle

def run (args : List String) : String :=
  match args with
  | _ => "? unknown-oracle"

end EvalFilter.Spec.Oracle
