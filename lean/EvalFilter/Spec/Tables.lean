/-
  SPEC-side tables: the hand-written expectations for everything in the Go source
  that is a table.  `Props/Tables.lean` proves (kernel `decide`) that

    * the table regenerated from /repo's current source equals the one below, and
    * the model's functions (`Parser.precedence`, `Op.toNat`, `Lexer.slashDivAfter`,
      `lookupIdentifier`, …) agree with the table below on every token / opcode.

  A changed table entry in Go therefore breaks a proof obligation on the next run.
-/
namespace EvalFilter.Spec.Tables

/-- (name, number, length) of every opcode (code/code.go) -/
def opcodes : List (String × Nat × Nat) := [
  ("OpConstant", 0, 3),
  ("OpJump", 1, 3),
  ("OpJumpIfFalse", 2, 3),
  ("OpCall", 3, 3),
  ("OpLookup", 4, 3),
  ("OpPush", 5, 3),
  ("OpArray", 6, 3),
  ("OpHash", 7, 3),
  ("OpNop", 8, 1),
  ("OpPlaceholder", 9, 1),
  ("OpSet", 10, 1),
  ("OpLocal", 11, 1),
  ("OpTrue", 12, 1),
  ("OpFalse", 13, 1),
  ("OpVoid", 14, 1),
  ("OpCase", 15, 1),
  ("OpAdd", 16, 1),
  ("OpSub", 17, 1),
  ("OpMul", 18, 1),
  ("OpDiv", 19, 1),
  ("OpMod", 20, 1),
  ("OpPower", 21, 1),
  ("OpInc", 22, 3),
  ("OpDec", 23, 3),
  ("OpReturn", 24, 1),
  ("OpMinus", 25, 1),
  ("OpBang", 26, 1),
  ("OpSquareRoot", 27, 1),
  ("OpLess", 28, 1),
  ("OpLessEqual", 29, 1),
  ("OpGreater", 30, 1),
  ("OpGreaterEqual", 31, 1),
  ("OpEqual", 32, 1),
  ("OpNotEqual", 33, 1),
  ("OpMatches", 34, 1),
  ("OpNotMatches", 35, 1),
  ("OpAnd", 36, 1),
  ("OpOr", 37, 1),
  ("OpIndex", 38, 1),
  ("OpArrayIn", 39, 1),
  ("OpIterationReset", 40, 1),
  ("OpIterationNext", 41, 1),
  ("OpRange", 42, 1)
]

/-- token type constants and their string values (token/token.go) -/
def tokenTypes : List (String × String) := [
  ("AND", "&&"),
  ("ASSIGN", "="),
  ("ASTERISK", "*"),
  ("ASTERISKEQUALS", "*="),
  ("BANG", "!"),
  ("CASE", "case"),
  ("COLON", ":"),
  ("COMMA", ","),
  ("CONTAINS", "~="),
  ("DEFAULT", "DEFAULT"),
  ("DOTDOT", ".."),
  ("ELSE", "ELSE"),
  ("EOF", "EOF"),
  ("EQ", "=="),
  ("FALSE", "FALSE"),
  ("FLOAT", "FLOAT"),
  ("FOR", "FOR"),
  ("FOREACH", "FOREACH"),
  ("FUNCTION", "FUNCTION"),
  ("GT", ">"),
  ("GTEQUALS", ">="),
  ("IDENT", "IDENT"),
  ("IF", "IF"),
  ("ILLEGAL", "ILLEGAL"),
  ("IN", "IN"),
  ("INT", "INT"),
  ("LBRACE", "{"),
  ("LOCAL", "LOCAL"),
  ("LPAREN", "("),
  ("LSQUARE", "["),
  ("LT", "<"),
  ("LTEQUALS", "<="),
  ("MINUS", "-"),
  ("MINUSEQUALS", "-="),
  ("MINUSMINUS", "--"),
  ("MISSING", "!~"),
  ("MOD", "%"),
  ("NOTEQ", "!="),
  ("OR", "||"),
  ("PERIOD", "."),
  ("PLUS", "+"),
  ("PLUSEQUALS", "+="),
  ("PLUSPLUS", "++"),
  ("POW", "**"),
  ("QUESTION", "?"),
  ("RBRACE", "}"),
  ("REGEXP", "REGEXP"),
  ("RETURN", "RETURN"),
  ("RPAREN", ")"),
  ("RSQUARE", "]"),
  ("SEMICOLON", ";"),
  ("SLASH", "/"),
  ("SLASHEQUALS", "/="),
  ("SQRT", "√"),
  ("STRING", "STRING"),
  ("SWITCH", "switch"),
  ("TRUE", "TRUE"),
  ("WHILE", "WHILE")
]

/-- reserved words (token/token.go) -/
def keywords : List (String × String) := [
  ("case", "CASE"),
  ("default", "DEFAULT"),
  ("else", "ELSE"),
  ("false", "FALSE"),
  ("for", "FOR"),
  ("foreach", "FOREACH"),
  ("function", "FUNCTION"),
  ("if", "IF"),
  ("in", "IN"),
  ("local", "LOCAL"),
  ("return", "RETURN"),
  ("switch", "SWITCH"),
  ("true", "TRUE"),
  ("while", "WHILE")
]

/-- token types after which `/` divides (lexer/lexer.go) -/
def slashDivAfter : List String := ["FLOAT", "IDENT", "INT", "RPAREN", "RSQUARE"]

/-- precedence levels, lowest first; documented order: ternary < assignment/range < && || < == != < comparisons/~=/!~/in < + - < * / < ** < % < prefix < call < index -/
def precedenceLevels : List String := ["_", "LOWEST", "TERNARY", "ASSIGN", "COND", "EQUALS", "CMP", "LESSGREATER", "SUM", "PRODUCT", "POWER", "MOD", "PREFIX", "CALL", "INDEX"]

/-- token → level (parser/parser.go) -/
def precedences : List (String × String) := [
  ("AND", "COND"),
  ("ASSIGN", "ASSIGN"),
  ("ASTERISK", "PRODUCT"),
  ("ASTERISKEQUALS", "ASSIGN"),
  ("CONTAINS", "LESSGREATER"),
  ("DOTDOT", "ASSIGN"),
  ("EQ", "EQUALS"),
  ("GT", "LESSGREATER"),
  ("GTEQUALS", "LESSGREATER"),
  ("IN", "LESSGREATER"),
  ("LPAREN", "CALL"),
  ("LSQUARE", "INDEX"),
  ("LT", "LESSGREATER"),
  ("LTEQUALS", "LESSGREATER"),
  ("MINUS", "SUM"),
  ("MINUSEQUALS", "ASSIGN"),
  ("MISSING", "LESSGREATER"),
  ("MOD", "MOD"),
  ("NOTEQ", "EQUALS"),
  ("OR", "COND"),
  ("PERIOD", "INDEX"),
  ("PLUS", "SUM"),
  ("PLUSEQUALS", "ASSIGN"),
  ("POW", "POWER"),
  ("QUESTION", "TERNARY"),
  ("SLASH", "PRODUCT"),
  ("SLASHEQUALS", "ASSIGN")
]

/-- parselet registrations -/
def parselets : List (String × String × String) := [
  ("Infix", "AND", "parseInfixExpression"),
  ("Infix", "ASSIGN", "parseAssignExpression"),
  ("Infix", "ASTERISK", "parseInfixExpression"),
  ("Infix", "ASTERISKEQUALS", "parseInfixExpression"),
  ("Infix", "CONTAINS", "parseInfixExpression"),
  ("Infix", "DOTDOT", "parseInfixExpression"),
  ("Infix", "EQ", "parseInfixExpression"),
  ("Infix", "GT", "parseInfixExpression"),
  ("Infix", "GTEQUALS", "parseInfixExpression"),
  ("Infix", "IN", "parseInfixExpression"),
  ("Infix", "LPAREN", "parseCallExpression"),
  ("Infix", "LSQUARE", "parseIndexExpression"),
  ("Infix", "LT", "parseInfixExpression"),
  ("Infix", "LTEQUALS", "parseInfixExpression"),
  ("Infix", "MINUS", "parseInfixExpression"),
  ("Infix", "MINUSEQUALS", "parseInfixExpression"),
  ("Infix", "MISSING", "parseInfixExpression"),
  ("Infix", "MOD", "parseInfixExpression"),
  ("Infix", "NOTEQ", "parseInfixExpression"),
  ("Infix", "OR", "parseInfixExpression"),
  ("Infix", "PERIOD", "parseInfixExpression"),
  ("Infix", "PLUS", "parseInfixExpression"),
  ("Infix", "PLUSEQUALS", "parseInfixExpression"),
  ("Infix", "POW", "parseInfixExpression"),
  ("Infix", "QUESTION", "parseTernaryExpression"),
  ("Infix", "SLASH", "parseInfixExpression"),
  ("Infix", "SLASHEQUALS", "parseInfixExpression"),
  ("Postfix", "MINUSMINUS", "parsePostfixExpression"),
  ("Postfix", "PLUSPLUS", "parsePostfixExpression"),
  ("Prefix", "BANG", "parsePrefixExpression"),
  ("Prefix", "EOF", "parseEOF"),
  ("Prefix", "FALSE", "parseBooleanLiteral"),
  ("Prefix", "FLOAT", "parseFloatLiteral"),
  ("Prefix", "FOR", "parseWhileStatement"),
  ("Prefix", "FOREACH", "parseForEach"),
  ("Prefix", "FUNCTION", "parseFunctionDefinition"),
  ("Prefix", "IDENT", "parseIdentifier"),
  ("Prefix", "IF", "parseIfExpression"),
  ("Prefix", "ILLEGAL", "parseIllegal"),
  ("Prefix", "INT", "parseIntegerLiteral"),
  ("Prefix", "LBRACE", "parseHashLiteral"),
  ("Prefix", "LOCAL", "parseLocalVariable"),
  ("Prefix", "LPAREN", "parseGroupedExpression"),
  ("Prefix", "LSQUARE", "parseArrayLiteral"),
  ("Prefix", "MINUS", "parsePrefixExpression"),
  ("Prefix", "REGEXP", "parseRegexpLiteral"),
  ("Prefix", "SQRT", "parsePrefixExpression"),
  ("Prefix", "STRING", "parseStringLiteral"),
  ("Prefix", "SWITCH", "parseSwitchStatement"),
  ("Prefix", "TRUE", "parseBooleanLiteral"),
  ("Prefix", "WHILE", "parseWhileStatement")
]

/-- the precedence every parselet passes to parseExpression -/
def parseExpressionCalls : List (String × String) := [
  ("parseAssignExpression", "LOWEST"),
  ("parseBracketExpression", "LOWEST"),
  ("parseExpressionList", "LOWEST"),
  ("parseExpressionList", "LOWEST"),
  ("parseExpressionStatement", "LOWEST"),
  ("parseForEach", "LOWEST"),
  ("parseGroupedExpression", "LOWEST"),
  ("parseHashLiteral", "LOWEST"),
  ("parseHashLiteral", "LOWEST"),
  ("parseIndexExpression", "LOWEST"),
  ("parseInfixExpression", "precedence"),
  ("parsePrefixExpression", "PREFIX"),
  ("parseReturnStatement", "LOWEST"),
  ("parseSwitchStatement", "LOWEST"),
  ("parseSwitchStatement", "LOWEST"),
  ("parseTernaryExpression", "precedence"),
  ("parseTernaryExpression", "precedence"),
  ("parseWhileStatement", "LOWEST")
]

/-- infix operator → opcodes emitted -/
def compileInfixOps : List (String × String) := [
  ("!=", "OpNotEqual"),
  ("!~", "OpNotMatches"),
  ("%", "OpMod"),
  ("&&", "OpAnd"),
  ("*", "OpMul"),
  ("**", "OpPower"),
  ("*=", "OpMul"),
  ("*=", "OpSet"),
  ("+", "OpAdd"),
  ("+=", "OpAdd"),
  ("+=", "OpSet"),
  ("-", "OpSub"),
  ("-=", "OpSet"),
  ("-=", "OpSub"),
  (".", "OpIndex"),
  ("..", "OpRange"),
  ("/", "OpDiv"),
  ("/=", "OpDiv"),
  ("/=", "OpSet"),
  ("<", "OpLess"),
  ("<=", "OpLessEqual"),
  ("==", "OpEqual"),
  (">", "OpGreater"),
  (">=", "OpGreaterEqual"),
  ("in", "OpArrayIn"),
  ("||", "OpOr"),
  ("~=", "OpMatches")
]

/-- prefix operator → opcode -/
def compilePrefixOps : List (String × String) := [
  ("!", "OpBang"),
  ("-", "OpMinus"),
  ("√", "OpSquareRoot")
]

/-- bounds of the integers pushed inline with OpPush -/
def inlineIntBounds : List String := ["0", "65534"]

/-- built-in registry (environment/environment.go) -/
def builtins : List (String × String) := [
  ("between", "fnBetween"),
  ("float", "fnFloat"),
  ("getenv", "fnGetenv"),
  ("int", "fnInt"),
  ("join", "fnJoin"),
  ("keys", "fnKeys"),
  ("len", "fnLen"),
  ("lower", "fnLower"),
  ("match", "fnMatch"),
  ("max", "fnMax"),
  ("min", "fnMin"),
  ("now", "fnNow"),
  ("panic", "fnPanic"),
  ("print", "fnPrint"),
  ("printf", "fnPrintf"),
  ("replace", "fnReplace"),
  ("reverse", "fnReverse"),
  ("sort", "fnSort"),
  ("split", "fnSplit"),
  ("sprintf", "fnSprintf"),
  ("string", "fnString"),
  ("time", "fnNow"),
  ("trim", "fnTrim"),
  ("type", "fnType"),
  ("upper", "fnUpper"),
  ("hour", "fnHour"),
  ("minute", "fnMinute"),
  ("seconds", "fnSeconds"),
  ("day", "fnDay"),
  ("month", "fnMonth"),
  ("year", "fnYear"),
  ("weekday", "fnWeekday")
]

/-- the only places that write to an object in place: the iteration offsets (private to a loop since the copy at OpIterationReset) and Increase/Decrease (called on a fresh copy by OpInc/OpDec) -/
def mutationSites : List String := [
  "object:*Array.Next write Array.offset",
  "object:*Array.Reset write Array.offset",
  "object:*Float.Decrease write Float.Value",
  "object:*Float.Increase write Float.Value",
  "object:*Hash.Next write Hash.offset",
  "object:*Hash.Reset write Hash.offset",
  "object:*Integer.Decrease write Integer.Value",
  "object:*Integer.Increase write Integer.Value",
  "object:*String.Next write String.offset",
  "object:*String.Reset write String.offset",
  "vm:*VM.Run call Decrease",
  "vm:*VM.Run call Increase",
  "vm:*VM.Run call Next",
  "vm:*VM.Run call Reset"
]

/-- Run = Lock; Execute; Unlock; …  and Prepare holds the lock throughout -/
def apiShapes : List String := [
  "Prepare/0: e.mutex.Lock()",
  "Prepare/1: defer e.mutex.Unlock()",
  "Run/0: e.mutex.Lock()",
  "Run/1: out, err := e.Execute(obj)",
  "Run/2: e.mutex.Unlock()",
  "Run/3: if err != nil {…}",
  "Run/4: return out.True(), nil"
]

/-- package-level variables -/
def packageVars : List String := [
  "code.OpCodeNames",
  "environment.regCache",
  "environment.regCacheLock",
  "parser.precedences",
  "token.keywords",
  "vm.False",
  "vm.Null",
  "vm.True",
  "vm.Void"
]

def maxProgramSize : Nat := 65536
def defaultOpLength : Nat := 1

/-! ### C10: what the library may reference outside itself -/

/-- packages that only compute (no file, network or process access through them) -/
def purePackages : List String :=
  ["bytes", "context", "encoding/binary", "errors", "hash", "hash/fnv", "math", "reflect", "regexp",
   "sort", "strconv", "strings", "sync", "unicode", "unicode/utf8"]

/-- individually allowed symbols of packages that can reach the outside world:
    formatting and writing to standard output (fmt), reading the environment (os.Getenv),
    the clock and the time-zone database (time), and the `Write` of an in-memory hash (io.Writer) -/
def allowedSymbols : List (String × String) :=
  [("fmt", "Sprintf"), ("fmt", "Errorf"), ("fmt", "Printf"), ("fmt", "Print"), ("fmt", "Println"), ("fmt", "Sprint"),
   ("os", "Getenv"),
   ("time", "Now"), ("time", "LoadLocation"), ("time", "Unix"), ("time", "Time"), ("time", "Time.Clock"),
   ("time", "Time.Date"), ("time", "Time.In"), ("time", "Time.Unix"), ("time", "Time.Weekday"),
   ("time", "Weekday.String"), ("time", "Weekday"), ("time", "Month"), ("time", "Location"),
   ("io", "Writer.Write")]

def refAllowed (r : String × String × String) : Bool :=
  purePackages.contains r.2.1 || allowedSymbols.contains (r.2.1, r.2.2)

/-- imports: the standard-library packages above, plus the module's own packages -/
def importAllowed (r : String × String) : Bool :=
  purePackages.contains r.2 || ["fmt", "os", "time", "io"].contains r.2 ||
  r.2.startsWith "github.com/skx/evalfilter/v2/"

/-! ### C11: package-level variables are read-only after init, or guarded by one mutex -/

/-- variables that are written after package initialisation, with the mutex that guards them -/
def guardedVars : List (String × String) := [("environment.regCache", "regCacheLock")]

/-- one entry of `packageVarAccesses`: (variable, function, read|write, mutex held, init|other).
    A variable that is written after initialisation must always be accessed under its mutex;
    any other variable may only be read outside `init`. -/
def accessOk (a : String × String × String × String × String) : Bool :=
  match guardedVars.lookup a.1 with
  | some l => a.2.2.2.1 == l || a.2.2.2.2 == "init"
  | none => a.2.2.1 == "read" || a.2.2.2.2 == "init"

end EvalFilter.Spec.Tables
