/-
  Soundness of the stack-depth certificate with respect to the VM model: in a program whose bodies
  carry a valid certificate, no run ends in a stack underflow - provided no call returns the
  value-less result (the proviso of property C18).
-/
import EvalFilter.Proofs.WFCheck
set_option linter.unusedSimpArgs false
set_option linter.unusedVariables false
namespace EvalFilter.WF
open EvalFilter EvalFilter.VM

/-- the stack holds at least `d` values - or, right after an OpIterationNext that found the iteration
    exhausted, one fewer with `false` on top (the iterator is gone; the conditional jump that follows
    takes its jump) -/
def Depth (a : Bool) (d : Nat) (stack : List Value) : Prop :=
  d ≤ stack.length ∨ (a = true ∧ stack.head? = some (.bool false) ∧ d ≤ stack.length + 1)

theorem popN_spec {n : Nat} {s a rest : List Value} (h : popN n s = some (a, rest)) :
    n ≤ s.length ∧ rest.length = s.length - n := by
  unfold popN at h
  split at h
  · cases h
  · cases h; simp; omega

theorem popN_none {n : Nat} {s : List Value} (h : popN n s = none) : s.length < n := by
  unfold popN at h
  split at h
  · assumption
  · cases h

/-- no built-in or host function returns the value-less result -/
def NoVoidFns (M : Machine) : Prop :=
  ∀ name f args, lookupFn M name = some f → (callImpl name f args).res ≠ .val .void

def StackStep (i : Instr) (next : Nat) (a : Bool) (d : Nat) : StepOut → Prop
  | .halt r _ => r ≠ err "underflow"
  | .cont ip' stack' _ => ∃ t x, (t, x) ∈ succs i next a (d - pops i + pushes i) ∧ ip' = t ∧
      Depth (i.op == .iterationNext) x stack'

set_option hygiene false in
macro "stk_close" : tactic => `(tactic| (
  first
    | (simp; done)
    | (have := binop_clean (by assumption); simp_all [CleanErr]; done)
    | (have := lookup_clean (by assumption); simp_all [CleanErr]; done)
    | (have := sqrtOp_clean (by assumption); simp_all [CleanErr]; done)
    | (have := minusOp_clean (by assumption); simp_all [CleanErr]; done)
    | (have := rangeOp_clean (by assumption); simp_all [CleanErr]; done)
    | (have := indexOp_clean (by assumption); simp_all [CleanErr]; done)
    | (have := callMatch_clean (by assumption); simp_all [CleanErr]; done)
    | (have := buildHash_clean _ _ _ _ (by assumption); simp_all [CleanErr]; done)
    | (exfalso; simp [pops, hop] at hp; simp at hd'; omega)
    | (exfalso; have hpn := popN_none (by assumption); simp [pops, hop] at hp; simp at hd' hpn; omega)
    | (refine ⟨_, _, List.mem_cons_self .., rfl, ?_⟩; simp [Depth, pops, pushes, hop] at *; done)
    | (refine ⟨_, _, List.mem_cons_self .., rfl, ?_⟩; simp [Depth, pops, pushes, hop] at *; omega)
    | (refine ⟨_, _, List.mem_cons_self .., rfl, ?_⟩; have hpn := popN_spec (by assumption); simp [Depth, pops, pushes, hop] at *; omega)
    | (refine ⟨_, _, List.mem_cons_self .., rfl, ?_⟩; simp_all [Depth, pops, pushes]; done)
    | (refine ⟨_, _, List.mem_cons_self .., rfl, ?_⟩; simp_all [Depth, pops, pushes]; omega)
    | trace_state))

set_option maxHeartbeats 4000000 in
theorem step_stack_plain (M : Machine) (obj : HostVal) (codeLen : Nat) (runBody : Bytes → RunSt → Res × RunSt)
    (i : Instr) (next : Nat) (stack : List Value) (st : RunSt) (a : Bool) (d : Nat)
    (hne : i.op ≠ .jumpIfFalse) (hne2 : i.op ≠ .iterationNext) (hne3 : i.op ≠ .call)
    (hd' : d ≤ stack.length) (hp : pops i ≤ d) :
    StackStep i next a d (step M obj codeLen runBody i.op.toNat i.arg next stack st) := by
  unfold step
  simp only [Op.ofNat_toNat]
  cases hop : i.op <;> (try (exact absurd hop hne)) <;> (try (exact absurd hop hne2)) <;> (try (exact absurd hop hne3)) <;>
    simp only [isBinary, Bool.false_eq_true, ↓reduceIte] <;>
    rcases stack with _ | ⟨x, _ | ⟨y, _ | ⟨z, rest⟩⟩⟩ <;>
    (repeat' split) <;> (try simp only [StackStep, err, succs, hop]) <;> stk_close

theorem step_stack_jif (M : Machine) (obj : HostVal) (codeLen : Nat) (runBody : Bytes → RunSt → Res × RunSt)
    (i : Instr) (next : Nat) (stack : List Value) (st : RunSt) (a : Bool) (d : Nat)
    (hop : i.op = .jumpIfFalse) (hd : Depth a d stack) (hp : pops i ≤ d) :
    StackStep i next a d (step M obj codeLen runBody i.op.toNat i.arg next stack st) := by
  unfold step
  simp only [Op.ofNat_toNat, hop, isBinary, Bool.false_eq_true, ↓reduceIte]
  simp only [pops, hop] at hp
  cases stack with
  | nil =>
    exfalso
    rcases hd with h | ⟨_, h, _⟩
    · simp at h; omega
    · simp at h
  | cons c rest =>
    simp only
    by_cases hc : c.truthy = true
    · simp only [hc, ↓reduceIte, StackStep, succs, hop, pushes, pops]
      refine ⟨_, _, List.mem_cons_self .., rfl, ?_⟩
      left
      rcases hd with h | ⟨_, h, _⟩
      · simp at h; omega
      · simp at h; subst h; simp [Value.truthy] at hc
    · simp only [hc, Bool.false_eq_true, ↓reduceIte]
      by_cases hlen : i.arg ≥ codeLen
      · simp [hlen, StackStep, err]
      · simp only [hlen, ↓reduceIte, StackStep, succs, hop, pushes, pops]
        refine ⟨_, _, List.mem_cons_of_mem _ (List.mem_cons_self ..), rfl, ?_⟩
        left
        rcases hd with h | ⟨ha, _, h⟩
        · simp at h; split <;> omega
        · simp at h; simp [ha]; omega

theorem step_stack_iter (M : Machine) (obj : HostVal) (codeLen : Nat) (runBody : Bytes → RunSt → Res × RunSt)
    (i : Instr) (next : Nat) (stack : List Value) (st : RunSt) (a : Bool) (d : Nat)
    (hop : i.op = .iterationNext) (hd' : d ≤ stack.length) (hp : pops i ≤ d) :
    StackStep i next a d (step M obj codeLen runBody i.op.toNat i.arg next stack st) := by
  unfold step
  simp only [Op.ofNat_toNat, hop, isBinary, Bool.false_eq_true, ↓reduceIte]
  simp only [pops, hop] at hp
  rcases stack with _ | ⟨x, _ | ⟨y, _ | ⟨z, rest⟩⟩⟩
  · simp at hd'; omega
  · simp at hd'; omega
  · simp at hd'; omega
  · simp only [List.length_cons] at hd'
    dsimp only
    repeat' split
    all_goals simp only [StackStep, succs, hop, pushes, pops]
    all_goals first
      | (simp [err]; done)
      | (refine ⟨_, _, List.mem_cons_self .., rfl, ?_⟩; left; simp; omega)
      | (refine ⟨_, _, List.mem_cons_self .., rfl, ?_⟩; right; simp; omega)

theorem invoke_cases (runBody : Bytes → RunSt → Res × RunSt) (uf : UserFn) (args : List Value) (st : RunSt) :
    (invoke runBody uf args st).1 = err "callDepth" ∨ (invoke runBody uf args st).1 = err "argCount" ∨
    (invoke runBody uf args st).1 = err "emptyProgram" ∨ ∃ s, (invoke runBody uf args st).1 = (runBody uf.code s).1 := by
  unfold invoke
  repeat' split
  all_goals first
    | (left; rfl)
    | (right; left; rfl)
    | (right; right; left; rfl)
    | (right; right; right; exact ⟨_, rfl⟩)

set_option maxHeartbeats 1000000 in
theorem step_stack_call (M : Machine) (obj : HostVal) (codeLen : Nat) (runBody : Bytes → RunSt → Res × RunSt)
    (i : Instr) (next : Nat) (stack : List Value) (st : RunSt) (a : Bool) (d : Nat)
    (hop : i.op = .call) (hd' : d ≤ stack.length) (hp : pops i ≤ d)
    (hnv : NoVoidFns M)
    (hrunV : ∀ uf, uf ∈ M.funcs → ∀ s v, (runBody uf.code s).1 = .ok v → v.isType .VOID = false)
    (hrunU : ∀ uf, uf ∈ M.funcs → ∀ s, (runBody uf.code s).1 ≠ err "underflow") :
    StackStep i next a d (step M obj codeLen runBody i.op.toNat i.arg next stack st) := by
  unfold step
  simp only [Op.ofNat_toNat, hop, isBinary, Bool.false_eq_true, ↓reduceIte]
  simp only [pops, hop] at hp
  cases stack with
  | nil => simp at hd'; omega
  | cons fname rest0 =>
    simp only [List.length_cons] at hd'
    simp only
    cases hpn : popN i.arg rest0 with
    | none => have := popN_none hpn; omega
    | some p =>
      obtain ⟨args, rest⟩ := p
      have hps := popN_spec hpn
      simp only
      cases hf : lookupFn M fname.inspect with
      | some f =>
        simp only
        have hv := hnv fname.inspect f args hf
        cases hres : (callImpl fname.inspect f args).res with
        | panic => simp [StackStep, err]
        | unsupported => simp [StackStep, err]
        | val v =>
          cases v <;> first
            | (simp [StackStep, err]; done)
            | (exact absurd hres hv)
            | (simp only [StackStep, succs, hop, pushes, pops]
               refine ⟨_, _, List.mem_cons_self .., rfl, ?_⟩; left; simp; omega)
      | none =>
        simp only
        cases hu : lookupUser M fname.inspect with
        | none => simp [StackStep, err]
        | some uf =>
          simp only
          have hmem := lookupUser_mem hu
          have hcases := invoke_cases runBody uf args st
          cases hinv : invoke runBody uf args st with
          | mk r st' =>
            rw [hinv] at hcases
            simp only at hcases
            cases r with
            | error e =>
              simp only [StackStep]
              rcases hcases with h | h | h | ⟨s, h⟩
              · simp [err] at h ⊢; subst h; simp
              · simp [err] at h ⊢; subst h; simp
              · simp [err] at h ⊢; subst h; simp
              · have := hrunU uf hmem s; rw [← h] at this; exact this
            | ok out =>
              have hnvoid : out.isType .VOID = false := by
                rcases hcases with h | h | h | ⟨s, h⟩
                · simp [err] at h
                · simp [err] at h
                · simp [err] at h
                · exact hrunV uf hmem s out h.symm
              simp only [hnvoid, Bool.false_eq_true, ↓reduceIte]
              split
              · simp [StackStep, err]
              · simp only [StackStep, succs, hop, pushes, pops]
                refine ⟨_, _, List.mem_cons_self .., rfl, ?_⟩; left; simp; omega


/-- one instruction, all opcodes -/
theorem step_stack (M : Machine) (obj : HostVal) (codeLen : Nat) (runBody : Bytes → RunSt → Res × RunSt)
    (i : Instr) (next : Nat) (stack : List Value) (st : RunSt) (a : Bool) (d : Nat)
    (ha : a = true → i.op = .jumpIfFalse) (hd : Depth a d stack) (hp : pops i ≤ d)
    (hnv : NoVoidFns M)
    (hrunV : ∀ uf, uf ∈ M.funcs → ∀ s v, (runBody uf.code s).1 = .ok v → v.isType .VOID = false)
    (hrunU : ∀ uf, uf ∈ M.funcs → ∀ s, (runBody uf.code s).1 ≠ err "underflow") :
    StackStep i next a d (step M obj codeLen runBody i.op.toNat i.arg next stack st) := by
  by_cases hj : i.op = .jumpIfFalse
  · exact step_stack_jif M obj codeLen runBody i next stack st a d hj hd hp
  · have hd' : d ≤ stack.length := by
      rcases hd with h | ⟨ha', _, _⟩
      · exact h
      · exact absurd (ha ha') hj
    by_cases hi : i.op = .iterationNext
    · exact step_stack_iter M obj codeLen runBody i next stack st a d hi hd' hp
    · by_cases hc : i.op = .call
      · exact step_stack_call M obj codeLen runBody i next stack st a d hc hd' hp hnv hrunV hrunU
      · exact step_stack_plain M obj codeLen runBody i next stack st a d hj hi hc hd' hp

end EvalFilter.WF
