import EvalFilter.Proofs.OptSim4
set_option linter.unusedSimpArgs false
set_option linter.unusedVariables false
namespace EvalFilter.OptSim
open EvalFilter EvalFilter.VM

theorem Steps.zero_eq {M : Machine} {obj : HostVal} {c : Bytes} {x z : Cfg} (h : Steps M obj c 0 x z) : x = z := by
  cases h; rfl

theorem StEq.symm' {s s' : RunSt} (h : StEq false s s') : StEq false s' s := h.symm

/-- the instruction-level relation, from the second machine's side: if its instruction does not run out
    of fuel, the first machine's (with enough fuel) gives a related outcome -/
theorem step_rel_of_ih_back {M M' : Machine} {obj : HostVal} (hM : MRel (BRel M M' obj) M M') (n : Nat)
    (ih : ∀ m, m ≤ n → ∀ (c c' : Bytes) (R : Nat → Nat → Prop), BodySim M M' obj c c' R →
      ∀ ip ip', R ip ip' → ∀ (stack : List Value) (st st' : RunSt), StEq false st st' →
      (loop M' obj c' m ip' stack st').1 ≠ .error .outOfFuel →
      ∃ f, OutEq false (loop M obj c f ip stack st) (loop M' obj c' m ip' stack st'))
    (op : Op) (hop : op ≠ .jump ∧ op ≠ .jumpIfFalse) (arg len len' : Nat) (stack : List Value) (st st' : RunSt)
    (hst : StEq false st st') (nx nx' : Nat)
    (hno : ¬ StepOut.oof (step M' obj len' (fun c s => loop M' obj c n 0 [] s) op.toNat arg nx' stack st')) :
    ∃ f2, StepRel false nx nx' (step M obj len (fun c s => loop M obj c f2 0 [] s) op.toNat arg nx stack st)
        (step M' obj len' (fun c s => loop M' obj c n 0 [] s) op.toNat arg nx' stack st') ∧
      ∀ F, f2 ≤ F → step M obj len (fun c s => loop M obj c F 0 [] s) op.toNat arg nx stack st =
        step M obj len (fun c s => loop M obj c f2 0 [] s) op.toNat arg nx stack st := by
  rcases calleeOf_rel hM op arg stack hst with ⟨h1, h2⟩ | ⟨c2, s2, c2', s2', h1, h2, hB, hs2⟩
  · refine ⟨0, ?_, fun F _ => ?_⟩
    · by_cases hcall : op = .call
      · subst hcall
        apply step_congr_call false hM obj len len' _ _ arg nx nx' stack st st' hst
        intro c s c' s' hc; rw [h1] at hc; cases hc
      · exact step_congr_plain false hM obj len len' _ _ op ⟨hcall, hop.1, hop.2⟩ arg nx nx' stack st st' hst
    · apply step_rb_congr
      intro c s hc; rw [h1] at hc; cases hc
  · have hcall : op = .call := by
      by_cases h : op = .call
      · exact h
      · simp [calleeOf, h] at h1
    subst hcall
    have hr2 : (loop M' obj c2' n 0 [] s2').1 ≠ .error .outOfFuel := by
      intro ho
      obtain ⟨st'', hs⟩ := step_callee_oof M' obj len' (fun c s => loop M' obj c n 0 [] s) .call arg nx' stack st' h2 ho
      rw [hs] at hno
      exact hno rfl
    obtain ⟨R2, hB2⟩ := hB
    obtain ⟨f2, ho⟩ := ih n (Nat.le_refl n) c2 c2' R2 hB2 0 0 hB2.start [] s2 s2' hs2 hr2
    have hne : (loop M obj c2 f2 0 [] s2).1 ≠ .error .outOfFuel := by rw [ho.1]; exact hr2
    refine ⟨f2, ?_, fun F hF => ?_⟩
    · apply step_congr_call false hM obj len len' _ _ arg nx nx' stack st st' hst
      intro c s c' s' hc hc'
      rw [h1] at hc; rw [h2] at hc'
      cases hc; cases hc'
      exact ho
    · apply step_rb_congr
      intro c s hc
      rw [h1] at hc; cases hc
      exact loop_mono M obj f2 c2 0 [] s2 hne F hF

/-- **The converse simulation.**  A run of the second machine that ends is matched by a run of the first
    that ends with the same result, output and variables. -/
theorem sim_back {M M' : Machine} {obj : HostVal} (hM : MRel (BRel M M' obj) M M') (hnd : NeverDone M) :
    ∀ (f' : Nat) (c c' : Bytes) (R : Nat → Nat → Prop), BodySim M M' obj c c' R →
      ∀ (d : Nat) ip ip', c.length - ip = d → R ip ip' → ∀ (stack : List Value) (st st' : RunSt), StEq false st st' →
      (loop M' obj c' f' ip' stack st').1 ≠ .error .outOfFuel →
      ∃ f, OutEq false (loop M obj c f ip stack st) (loop M' obj c' f' ip' stack st') := by
  intro f'
  induction f' using Nat.strongRecOn with
  | ind f' ih =>
    intro c c' R hB d
    induction d using Nat.strongRecOn with
    | ind d ihd =>
      intro ip ip' hd hR stack st st' hst hno
      cases f' with
      | zero => simp [loop] at hno
      | succ n =>
        have hnd' : NeverDone M' := fun k => by rw [hM.done]; exact hnd k
        have ihn : ∀ m, m ≤ n → ∀ (c c' : Bytes) (R : Nat → Nat → Prop), BodySim M M' obj c c' R →
            ∀ ip ip', R ip ip' → ∀ (stack : List Value) (st st' : RunSt), StEq false st st' →
            (loop M' obj c' m ip' stack st').1 ≠ .error .outOfFuel →
            ∃ f, OutEq false (loop M obj c f ip stack st) (loop M' obj c' m ip' stack st') :=
          fun m hm c c' R hB ip ip' hR stack st st' hst hno => ih m (by omega) c c' R hB _ ip ip' rfl hR stack st st' hst hno
        rcases hB.pt ip ip' hR with ⟨h1, h2⟩ | ⟨i, i', hf, hf', hop, hcase⟩ | hw
        · refine ⟨1, ?_⟩
          rw [loop, loop]
          simp only [ge_iff_le, h1, h2, ↓reduceIte]
          exact ⟨rfl, hst⟩
        · rw [loop_fetch M' obj hf' n stack st' (hnd' _)] at hno ⊢
          have hst1 := hst.poll
          rcases hcase with ⟨hj, ha, ha', hRa⟩ | ⟨hj, ha, ha', hRa, hRn⟩ | hrest
          · have e : i.op.toNat = Op.jump.toNat := by rw [hj]
            have e' : i'.op.toNat = Op.jump.toNat := by rw [hop, hj]
            rw [e', step_jump _ _ _ _ _ _ _ _ ha'] at hno ⊢
            simp only at hno ⊢
            obtain ⟨f3, h3⟩ := ihn n (Nat.le_refl n) c c' R hB _ _ hRa stack _ _ hst1 hno
            refine ⟨f3 + 1, ?_⟩
            rw [loop_fetch M obj hf f3 stack st (hnd _), e, step_jump _ _ _ _ _ _ _ _ ha]
            exact h3
          · have e : i.op.toNat = Op.jumpIfFalse.toNat := by rw [hj]
            have e' : i'.op.toNat = Op.jumpIfFalse.toNat := by rw [hop, hj]
            rw [e', step_jif _ _ _ _ _ _ _ _ ha'] at hno ⊢
            cases stack with
            | nil =>
              refine ⟨1, ?_⟩
              rw [loop_fetch M obj hf 0 [] st (hnd _), e, step_jif _ _ _ _ _ _ _ _ ha]
              exact ⟨rfl, hst1⟩
            | cons v rest =>
              simp only at hno ⊢
              have hl : i.op.length = 3 := by rw [hj]; rfl
              have hl' : i'.op.length = 3 := by rw [hop, hj]; rfl
              have hR2 : R (if v.truthy then ip + i.op.length else i.arg) (if v.truthy then ip' + i'.op.length else i'.arg) := by
                by_cases hv : v.truthy = true
                · simp only [hv, ↓reduceIte, hl, hl']; exact hRn
                · simp only [hv, Bool.false_eq_true, ↓reduceIte]; exact hRa
              obtain ⟨f3, h3⟩ := ihn n (Nat.le_refl n) c c' R hB _ _ hR2 rest _ _ hst1 hno
              refine ⟨f3 + 1, ?_⟩
              rw [loop_fetch M obj hf f3 (v :: rest) st (hnd _), e, step_jif _ _ _ _ _ _ _ _ ha]
              exact h3
          · have hopn : i.op ≠ .jump ∧ i.op ≠ .jumpIfFalse := by
              rcases hrest with ⟨hr, _⟩ | ⟨h1, h2, _⟩
              · rw [hr]; exact ⟨by decide, by decide⟩
              · exact ⟨h1, h2⟩
            have harg : i'.arg = i.arg := by
              rcases hrest with ⟨_, h⟩ | ⟨_, _, h, _⟩ <;> exact h
            rw [hop, harg] at hno ⊢
            have hnoo : ¬ StepOut.oof (step M' obj c'.length (fun c s => loop M' obj c n 0 [] s) i.op.toNat i.arg
                (ip' + i.op.length) stack { st' with polls := st'.polls + 1 }) := by
              intro ho
              revert hno ho
              cases step M' obj c'.length (fun c s => loop M' obj c n 0 [] s) i.op.toNat i.arg
                (ip' + i.op.length) stack { st' with polls := st'.polls + 1 } with
              | cont a b d => intro _ ho; exact ho
              | halt r s => intro hno ho; exact hno ho
            obtain ⟨f2, hrel, hsame⟩ := step_rel_of_ih_back hM n ihn i.op hopn i.arg c.length c'.length stack _ _ hst1
              (ip + i.op.length) (ip' + i.op.length) hnoo
            revert hrel hno
            cases hs' : step M' obj c'.length (fun c s => loop M' obj c n 0 [] s) i.op.toNat i.arg
                (ip' + i.op.length) stack { st' with polls := st'.polls + 1 } with
            | halt r' s' =>
              intro hno hrel
              refine ⟨f2 + 1, ?_⟩
              rw [loop_fetch M obj hf f2 stack st (hnd _)]
              generalize step M obj c.length (fun c s => loop M obj c f2 0 [] s) i.op.toNat i.arg
                  (ip + i.op.length) stack { st with polls := st.polls + 1 } = so at hrel ⊢
              cases so with
              | cont a b d => exact hrel.elim
              | halt r s => exact ⟨hrel.1, hrel.2⟩
            | cont ip2' stk2 s2' =>
              intro hno hrel
              simp only at hno
              have hRn : R (ip + i.op.length) (ip' + i.op.length) := by
                rcases hrest with ⟨hr, _⟩ | ⟨_, _, _, h⟩
                · exfalso
                  rw [hr] at hs'
                  have : Op.ofNat? Op.return.toNat = some .return := rfl
                  simp only [step, this, isBinary] at hs'
                  cases stack <;> simp at hs'
                · exact h
              generalize hs : step M obj c.length (fun c s => loop M obj c f2 0 [] s) i.op.toNat i.arg
                  (ip + i.op.length) stack { st with polls := st.polls + 1 } = so at hrel
              cases so with
              | halt r s => exact hrel.elim
              | cont a b s2 =>
                obtain ⟨ha, hip2, hb, hd2⟩ := hrel
                subst ha hip2 hb
                obtain ⟨f3, h3⟩ := ihn n (Nat.le_refl n) c c' R hB _ _ hRn b s2 s2' hd2 hno
                refine ⟨max f2 f3 + 1, ?_⟩
                rw [loop_fetch M obj hf (max f2 f3) stack st (hnd _), hsame (max f2 f3) (Nat.le_max_left _ _), hs]
                simp only
                have hne : (loop M obj c f3 (ip + i.op.length) b s2).1 ≠ .error .outOfFuel := by
                  rw [h3.1]; exact hno
                rw [loop_mono M obj f3 c _ b s2 hne (max f2 f3) (Nat.le_max_right _ _)]
                exact h3
        · -- a window
          obtain ⟨k, k', e, e', stack1, st1, st1', hk, hS, hS', hRe, hst1, hprog⟩ := hw stack st st' hst
          by_cases hk' : 0 < k'
          · have hge : k' ≤ n + 1 := by
              apply Nat.le_of_not_lt
              intro hlt
              exact hno (hS'.oof (n + 1) hlt)
            have hrun := hS'.run (n + 1 - k')
            rw [show n + 1 - k' + k' = n + 1 by omega] at hrun
            simp only at hrun
            rw [hrun] at hno ⊢
            obtain ⟨f3, h3⟩ := ih (n + 1 - k') (by omega) c c' R hB _ e e' rfl hRe stack1 st1 st1' hst1 hno
            refine ⟨f3 + k, ?_⟩
            have := hS.run f3
            simp only at this
            rw [this]
            exact h3
          · -- the second machine stands still: the first one moved forward
            have hk0 : k' = 0 := by omega
            subst hk0
            have hz := hS'.zero_eq
            simp only [Prod.mk.injEq] at hz
            obtain ⟨rfl, rfl, rfl⟩ := hz
            have hpr : ip < e ∧ e ≤ c.length := by
              rcases hprog with h | h
              · exact absurd h hk'
              · exact h
            obtain ⟨f3, h3⟩ := ihd (c.length - e) (by omega) e ip' rfl hRe stack st1 st' hst1 hno
            refine ⟨f3 + k, ?_⟩
            have := hS.run f3
            simp only at this
            rw [this]
            exact h3

end EvalFilter.OptSim
