/-
  User-defined functions, part 1: what the compiler's function table holds.

  * compiling value-producing expressions, calls and statements without a function definition inside
    registers no function (`pureE_funcs`, `ndSs_funcs`, …);
  * `setFunc` keeps names unique, replaces or appends (`find_setFunc`, `nodup_setFunc`).
-/
import EvalFilter.Proofs.StmtCorrect
import EvalFilter.Proofs.CompConsts
set_option linter.unusedSimpArgs false
set_option linter.unusedVariables false
namespace EvalFilter.Exec
open EvalFilter EvalFilter.VM EvalFilter.Compiler

theorem withConst_funcs (st : CState) (op : Op) (v : Value) : (withConst st op v).2.funcs = st.funcs := by
  unfold withConst addConstant
  cases findConst st.consts v 0 <;> rfl

mutual
  /-- compiling a value-producing expression registers no function -/
  theorem pureE_funcs : ∀ (e : Expr) (base : Nat) (st : CState) (r : List Instr × CState), pureE e = true →
      compileExpr e base st = .ok r → r.2.funcs = st.funcs
    | .boolLit b, base, st, r, _, h => by simp only [compileExpr, pure, Except.pure] at h; cases h; rfl
    | .floatLit _ _, base, st, r, _, h => by
      simp only [compileExpr, pure, Except.pure] at h; cases h; simp only [withConst_funcs]
    | .intLit _ v, base, st, r, _, h => by
      simp only [compileExpr, pure, Except.pure] at h
      split at h <;> cases h
      · rfl
      · simp only [withConst_funcs]
    | .strLit _, base, st, r, _, h => by
      simp only [compileExpr, pure, Except.pure] at h; cases h; simp only [withConst_funcs]
    | .regexpLit _ _ _, base, st, r, _, h => by
      simp only [compileExpr, pure, Except.pure] at h; cases h; simp only [withConst_funcs]
    | .ident n, base, st, r, _, h => by
      simp only [compileExpr, pure, Except.pure] at h; cases h; simp only [withConst_funcs]
    | .arrayLit els, base, st, r, hp, h => by
      simp only [compileExpr, bind_ok_eq, pure, Except.pure] at h
      obtain ⟨⟨c, st1⟩, h1, h2⟩ := h
      cases h2
      simp only [pureE] at hp
      exact pureEs_funcs els base st (c, st1) hp h1
    | .hashLit pairs, base, st, r, hp, h => by
      simp only [compileExpr, bind_ok_eq, pure, Except.pure] at h
      obtain ⟨⟨c, st1⟩, h1, h2⟩ := h
      cases h2
      simp only [pureE, Bool.and_eq_true] at hp
      exact purePs_funcs pairs base st (c, st1) hp.1 h1
    | .infix op l r', base, st, r, hp, h => by
      simp only [pureE, Bool.and_eq_true, Bool.not_eq_true'] at hp
      simp only [compileExpr, bind_ok_eq] at h
      obtain ⟨⟨cl, st1⟩, h1, ⟨cr, st2⟩, h2, h3⟩ := h
      have e1 := pureE_funcs l base st _ hp.1.2 h1
      have e2 := pureE_funcs r' _ _ _ hp.2 h2
      simp only [hp.1.1, Bool.false_eq_true, ↓reduceIte] at h3
      split at h3
      · simp only [pure, Except.pure] at h3; cases h3; exact e2.trans e1
      · cases h3
    | .prefix op r', base, st, r, hp, h => by
      simp only [pureE] at hp
      simp only [compileExpr, bind_ok_eq] at h
      obtain ⟨⟨cr, st1⟩, h1, h3⟩ := h
      have e1 := pureE_funcs r' base st _ hp h1
      split at h3
      · simp only [pure, Except.pure] at h3; cases h3; exact e1
      · cases h3
    | .index l i, base, st, r, hp, h => by
      simp only [pureE, Bool.and_eq_true] at hp
      simp only [compileExpr, bind_ok_eq, pure, Except.pure] at h
      obtain ⟨⟨cl, st1⟩, h1, ⟨ci, st2⟩, h2, h3⟩ := h
      cases h3
      exact (pureE_funcs i _ _ _ hp.2 h2).trans (pureE_funcs l base st _ hp.1 h1)
    | .ternary c t f, base, st, r, hp, h => by
      simp only [pureE, Bool.and_eq_true] at hp
      simp only [compileExpr, bind_ok_eq, pure, Except.pure] at h
      obtain ⟨⟨cc, st1⟩, h1, ⟨ct, st2⟩, h2, ⟨cf, st3⟩, h3, h4⟩ := h
      cases h4
      exact ((pureE_funcs f _ _ _ hp.2 h3).trans (pureE_funcs t _ _ _ hp.1.2 h2)).trans (pureE_funcs c base st _ hp.1.1 h1)
    | .postfix _ _, _, _, _, hp, _ => by simp [pureE] at hp
    | .call fn args, base, st, r, hp, h => by
      simp only [compileExpr, bind_ok_eq, pure, Except.pure] at h
      obtain ⟨⟨c, st1⟩, h1, h2⟩ := h
      cases h2
      simp only [pureE] at hp
      simp only [withConst_funcs]
      exact pureEs_funcs args base st (c, st1) hp h1
    | .assign _ _, _, _, _, hp, _ => by simp [pureE] at hp
    | .ifE _ _ _, _, _, _, hp, _ => by simp [pureE] at hp
    | .whileE _ _, _, _, _, hp, _ => by simp [pureE] at hp
    | .foreachE _ _ _ _, _, _, _, hp, _ => by simp [pureE] at hp
    | .switchE _ _, _, _, _, hp, _ => by simp [pureE] at hp
    | .funcDef _ _ _, _, _, _, hp, _ => by simp [pureE] at hp
    | .localE _, _, _, _, hp, _ => by simp [pureE] at hp
  theorem pureEs_funcs : ∀ (es : List Expr) (base : Nat) (st : CState) (r : List Instr × CState), pureEs es = true →
      compileExprs es base st = .ok r → r.2.funcs = st.funcs
    | [], base, st, r, _, h => by simp only [compileExprs, pure, Except.pure] at h; cases h; rfl
    | e :: rest, base, st, r, hp, h => by
      simp only [pureEs, Bool.and_eq_true] at hp
      simp only [compileExprs, bind_ok_eq, pure, Except.pure] at h
      obtain ⟨⟨c, st1⟩, h1, ⟨cs, st2⟩, h2, h3⟩ := h
      cases h3
      exact (pureEs_funcs rest _ _ _ hp.2 h2).trans (pureE_funcs e base st _ hp.1 h1)
  theorem purePs_funcs : ∀ (ps : List Pair) (base : Nat) (st : CState) (r : List Instr × CState), purePs ps = true →
      compilePairs ps base st = .ok r → r.2.funcs = st.funcs
    | [], base, st, r, _, h => by simp only [compilePairs, pure, Except.pure] at h; cases h; rfl
    | .mk k v :: rest, base, st, r, hp, h => by
      simp only [purePs, Bool.and_eq_true] at hp
      simp only [compilePairs, bind_ok_eq, pure, Except.pure] at h
      obtain ⟨⟨ck, st1⟩, h1, ⟨cv, st2⟩, h2, ⟨cs, st3⟩, h3, h4⟩ := h
      cases h4
      exact ((purePs_funcs rest _ _ _ hp.2 h3).trans (pureE_funcs v _ _ _ hp.1.2 h2)).trans (pureE_funcs k base st _ hp.1.1 h1)
end


/-- a call with value-producing arguments registers no function -/
theorem call_funcs (fn : Expr) (args : List Expr) (base : Nat) (st : CState) (r : List Instr × CState)
    (hp : pureEs args = true) (h : compileExpr (.call fn args) base st = .ok r) : r.2.funcs = st.funcs := by
  simp only [compileExpr, bind_ok_eq, pure, Except.pure] at h
  obtain ⟨⟨c, st1⟩, h1, h2⟩ := h
  cases h2
  simp only [withConst_funcs]
  exact pureEs_funcs args base st _ hp h1

/-- `x++` / `x--` register no function -/
theorem postfix_funcs (n op : Str) (base : Nat) (st : CState) (r : List Instr × CState)
    (h : compileExpr (.postfix n op) base st = .ok r) : r.2.funcs = st.funcs := by
  simp only [compileExpr] at h
  split at h
  · simp only [pure, Except.pure] at h; cases h; simp only [withConst_funcs]
  · split at h
    · simp only [pure, Except.pure] at h; cases h; simp only [withConst_funcs]
    · cases h

mutual
  /-- no function definition inside -/
  def ndE : Expr → Bool
    | .funcDef _ _ _ => false
    | .ifE _ cons none => ndSs cons
    | .ifE _ cons (some a) => ndSs cons && ndSs a
    | .whileE _ b => ndSs b
    | .foreachE _ _ _ b => ndSs b
    | .switchE _ cs => ndCases cs
    | _ => true
  def ndCases : List Case → Bool
    | [] => true
    | .mk _ _ b :: cs => ndSs b && ndCases cs
  def ndS : Stmt → Bool
    | .ret _ => true
    | .expr e => ndE e
  def ndSs : List Stmt → Bool
    | [] => true
    | s :: ss => ndS s && ndSs ss
end

theorem stmtE_assign_cases (name : Str) (v : Expr) (h : stmtE (.assign name v) = true) :
    pureE v = true ∨ ∃ fn args, v = .call fn args ∧ pureEs args = true := by
  cases v <;> first | exact Or.inl h | exact Or.inr ⟨_, _, rfl, h⟩

theorem pureS_ret_cases (v : Expr) (h : pureS (.ret v) = true) :
    pureE v = true ∨ ∃ fn args, v = .call fn args ∧ pureEs args = true := by
  cases v <;> first | exact Or.inl h | exact Or.inr ⟨_, _, rfl, h⟩

theorem val_funcs (v : Expr) (base : Nat) (st : CState) (r : List Instr × CState)
    (hv : pureE v = true ∨ ∃ fn args, v = .call fn args ∧ pureEs args = true)
    (h : compileExpr v base st = .ok r) : r.2.funcs = st.funcs := by
  rcases hv with hv | ⟨fn, args, rfl, hv⟩
  · exact pureE_funcs v base st r hv h
  · exact call_funcs fn args base st r hv h

mutual
  /-- compiling a statement that contains no function definition registers no function -/
  theorem ndE_funcs : ∀ (e : Expr) (base : Nat) (st : CState) (r : List Instr × CState), stmtE e = true → ndE e = true →
      compileExpr e base st = .ok r → r.2.funcs = st.funcs
    | .ifE c cons none, base, st, r, hs, hn, h => by
      simp only [stmtE, Bool.and_eq_true] at hs
      simp only [ndE] at hn
      simp only [compileExpr, bind_ok_eq, pure, Except.pure] at h
      obtain ⟨⟨cc, st1⟩, h1, ⟨ca, st2⟩, h2, h3⟩ := h
      cases h3
      exact (ndSs_funcs cons _ _ _ hs.2 hn h2).trans (pureE_funcs c base st _ hs.1 h1)
    | .ifE c cons (some a), base, st, r, hs, hn, h => by
      simp only [stmtE, Bool.and_eq_true] at hs
      simp only [ndE, Bool.and_eq_true] at hn
      simp only [compileExpr, bind_ok_eq, pure, Except.pure] at h
      obtain ⟨⟨cc, st1⟩, h1, ⟨ca, st2⟩, h2, ⟨cb, st3⟩, h3, h4⟩ := h
      cases h4
      exact ((ndSs_funcs a _ _ _ hs.2 hn.2 h3).trans (ndSs_funcs cons _ _ _ hs.1.2 hn.1 h2)).trans (pureE_funcs c base st _ hs.1.1 h1)
    | .whileE c body, base, st, r, hs, hn, h => by
      simp only [stmtE, Bool.and_eq_true] at hs
      simp only [ndE] at hn
      simp only [compileExpr, bind_ok_eq, pure, Except.pure] at h
      obtain ⟨⟨cc, st1⟩, h1, ⟨cb, st2⟩, h2, h3⟩ := h
      cases h3
      exact (ndSs_funcs body _ _ _ hs.2 hn h2).trans (pureE_funcs c base st _ hs.1 h1)
    | .foreachE idx x v body, base, st, r, hs, hn, h => by
      simp only [stmtE, Bool.and_eq_true] at hs
      simp only [ndE] at hn
      simp only [compileExpr, bind_ok_eq, pure, Except.pure] at h
      obtain ⟨⟨cv, st1⟩, h1, ⟨cb, st2⟩, h2, h3⟩ := h
      cases h3
      have e2 := ndSs_funcs body _ _ _ hs.2 hn h2
      simp only [withConst_funcs] at e2
      exact e2.trans (pureE_funcs v base st _ hs.1 h1)
    | .switchE v cs, base, st, r, hs, hn, h => by
      simp only [stmtE, Bool.and_eq_true] at hs
      simp only [ndE] at hn
      simp only [compileExpr, bind_ok_eq, pure, Except.pure] at h
      obtain ⟨st0, h0, ⟨ca, st1⟩, h1, ⟨cd, st2⟩, h2, h3⟩ := h
      cases h3
      have e0 : st0.funcs = st.funcs := by
        split at h0
        · cases h0; rfl
        · simp only [bind_ok_eq] at h0
          obtain ⟨⟨c0, s0⟩, hv, hs0⟩ := h0
          cases hs0
          exact pureE_funcs v base st _ hs.1 hv
      have e1 := ndArms_funcs (fun b s => compileExpr v b s) v.size (fun b s r hr => pureE_funcs v b s r hs.1 hr)
        cs _ _ _ _ hs.2 hn h1
      have e2 := ndDefaults_funcs cs _ _ _ hs.2 hn h2
      exact (e2.trans e1).trans e0
    | .assign name v, base, st, r, hs, _, h => by
      have hv := stmtE_assign_cases name v hs
      simp only [compileExpr, bind_ok_eq, pure, Except.pure] at h
      obtain ⟨⟨cv, st1⟩, h1, h2⟩ := h
      cases h2
      simp only [withConst_funcs]
      exact val_funcs v base st _ hv h1
    | .call fn args, base, st, r, hs, _, h => call_funcs fn args base st r hs h
    | .infix op (.ident name) r', base, st, r, hs, _, h => by
      simp only [stmtE, Bool.and_eq_true] at hs
      simp only [compileExpr, bind_ok_eq] at h
      obtain ⟨⟨cl, st1⟩, h1, ⟨cr, st2⟩, h2, h3⟩ := h
      have e1 := pureE_funcs (.ident name) base st _ rfl h1
      have e2 := pureE_funcs r' _ _ _ hs.2 h2
      simp only [hs.1, ↓reduceIte] at h3
      split at h3
      · simp only [pure, Except.pure] at h3; cases h3
        simp only [withConst_funcs]; exact e2.trans e1
      · cases h3
    | .infix _ (.boolLit _) _, _, _, _, hs, _, _ => by simp [stmtE] at hs
    | .infix _ (.floatLit _ _) _, _, _, _, hs, _, _ => by simp [stmtE] at hs
    | .infix _ (.intLit _ _) _, _, _, _, hs, _, _ => by simp [stmtE] at hs
    | .infix _ (.strLit _) _, _, _, _, hs, _, _ => by simp [stmtE] at hs
    | .infix _ (.regexpLit _ _ _) _, _, _, _, hs, _, _ => by simp [stmtE] at hs
    | .infix _ (.arrayLit _) _, _, _, _, hs, _, _ => by simp [stmtE] at hs
    | .infix _ (.hashLit _) _, _, _, _, hs, _, _ => by simp [stmtE] at hs
    | .infix _ (.prefix _ _) _, _, _, _, hs, _, _ => by simp [stmtE] at hs
    | .infix _ (.infix _ _ _) _, _, _, _, hs, _, _ => by simp [stmtE] at hs
    | .infix _ (.index _ _) _, _, _, _, hs, _, _ => by simp [stmtE] at hs
    | .infix _ (.ternary _ _ _) _, _, _, _, hs, _, _ => by simp [stmtE] at hs
    | .infix _ (.postfix _ _) _, _, _, _, hs, _, _ => by simp [stmtE] at hs
    | .infix _ (.localE _) _, _, _, _, hs, _, _ => by simp [stmtE] at hs
    | .infix _ (.call _ _) _, _, _, _, hs, _, _ => by simp [stmtE] at hs
    | .infix _ (.assign _ _) _, _, _, _, hs, _, _ => by simp [stmtE] at hs
    | .infix _ (.ifE _ _ _) _, _, _, _, hs, _, _ => by simp [stmtE] at hs
    | .infix _ (.whileE _ _) _, _, _, _, hs, _, _ => by simp [stmtE] at hs
    | .infix _ (.foreachE _ _ _ _) _, _, _, _, hs, _, _ => by simp [stmtE] at hs
    | .infix _ (.switchE _ _) _, _, _, _, hs, _, _ => by simp [stmtE] at hs
    | .infix _ (.funcDef _ _ _) _, _, _, _, hs, _, _ => by simp [stmtE] at hs
    | .funcDef _ _ _, _, _, _, _, hn, _ => by simp [ndE] at hn
    | .boolLit _, _, _, _, hs, _, _ => by simp [stmtE] at hs
    | .floatLit _ _, _, _, _, hs, _, _ => by simp [stmtE] at hs
    | .intLit _ _, _, _, _, hs, _, _ => by simp [stmtE] at hs
    | .strLit _, _, _, _, hs, _, _ => by simp [stmtE] at hs
    | .regexpLit _ _ _, _, _, _, hs, _, _ => by simp [stmtE] at hs
    | .ident _, _, _, _, hs, _, _ => by simp [stmtE] at hs
    | .arrayLit _, _, _, _, hs, _, _ => by simp [stmtE] at hs
    | .hashLit _, _, _, _, hs, _, _ => by simp [stmtE] at hs
    | .prefix _ _, _, _, _, hs, _, _ => by simp [stmtE] at hs
    | .index _ _, _, _, _, hs, _, _ => by simp [stmtE] at hs
    | .ternary _ _ _, _, _, _, hs, _, _ => by simp [stmtE] at hs
    | .postfix _ _, _, _, _, hs, _, _ => by simp [stmtE] at hs
    | .localE name, base, st, r, _, _, h => by
      simp only [compileExpr, pure, Except.pure] at h; cases h; simp only [withConst_funcs]
  theorem ndS_funcs : ∀ (s : Stmt) (base : Nat) (st : CState) (r : List Instr × CState), pureS s = true → ndS s = true →
      compileStmt s base st = .ok r → r.2.funcs = st.funcs
    | .expr e, base, st, r, hs, hn, h => by
      simp only [pureS] at hs
      simp only [ndS] at hn
      simp only [compileStmt] at h
      exact ndE_funcs e base st r hs hn h
    | .ret e, base, st, r, hs, _, h => by
      have hv := pureS_ret_cases e hs
      simp only [compileStmt, bind_ok_eq, pure, Except.pure] at h
      obtain ⟨⟨c, st1⟩, h1, h2⟩ := h
      cases h2
      exact val_funcs e base st (c, st1) hv h1
  theorem ndSs_funcs : ∀ (ss : List Stmt) (base : Nat) (st : CState) (r : List Instr × CState), pureSs ss = true → ndSs ss = true →
      compileStmts ss base st = .ok r → r.2.funcs = st.funcs
    | [], base, st, r, _, _, h => by simp only [compileStmts, pure, Except.pure] at h; cases h; rfl
    | s :: rest, base, st, r, hs, hn, h => by
      by_cases hpair : IsPair s rest
      · obtain ⟨e, n, op, rest', rfl, rfl⟩ := hpair
        simp only [pureSs, Bool.and_eq_true] at hs
        simp only [ndSs, Bool.and_eq_true] at hn
        simp only [compileStmts, compileStmt, bind_ok_eq, pure, Except.pure] at h
        obtain ⟨⟨c, st1⟩, h1, ⟨cs, st2⟩, ⟨⟨ci, sti⟩, hi, ⟨cr, str⟩, hr, hcs⟩, h3⟩ := h
        cases h3; cases hcs
        have e1 := pureE_funcs e base st _ hs.1.2 h1
        have e2 : sti.funcs = st1.funcs := postfix_funcs n op _ _ _ hi
        exact ((ndSs_funcs rest' _ _ _ hs.2 hn.2.2 hr).trans e2).trans e1
      rw [pureSs_other s rest hpair, Bool.and_eq_true] at hs
      simp only [ndSs, Bool.and_eq_true] at hn
      simp only [compileStmts, bind_ok_eq, pure, Except.pure] at h
      obtain ⟨⟨c, st1⟩, h1, ⟨cs, st2⟩, h2, h3⟩ := h
      cases h3
      exact (ndSs_funcs rest _ _ _ hs.2 hn.2 h2).trans (ndS_funcs s base st _ hs.1 hn.1 h1)
  theorem ndArms_funcs (cv : Nat → CState → CM (List Instr × CState)) (vsize : Nat)
      (hcv : ∀ b s r, cv b s = .ok r → r.2.funcs = s.funcs) :
      ∀ (cs : List Case) (base endPos : Nat) (st : CState) (r : List Instr × CState), pureCases cs = true → ndCases cs = true →
      compileArms cv vsize cs base endPos st = .ok r → r.2.funcs = st.funcs
    | [], _, _, st, r, _, _, h => by simp only [compileArms, pure, Except.pure] at h; cases h; rfl
    | .mk isDef es b :: rest, base, endPos, st, r, hs, hn, h => by
      simp only [pureCases, Bool.and_eq_true] at hs
      simp only [ndCases, Bool.and_eq_true] at hn
      simp only [compileArms] at h
      split at h
      · exact ndArms_funcs cv vsize hcv rest base endPos st r hs.2 hn.2 h
      · simp only [bind_ok_eq, pure, Except.pure] at h
        obtain ⟨⟨c, st1⟩, h1, ⟨cr, st2⟩, h2, h3⟩ := h
        cases h3
        have e1 := ndArm_funcs cv vsize hcv (fun bs s => compileStmts b bs s) (Stmt.sizes b)
          (fun bs s r hr => ndSs_funcs b bs s r hs.1.2 hn.1 hr) es _ _ _ _ hs.1.1 h1
        exact (ndArms_funcs cv vsize hcv rest _ _ _ _ hs.2 hn.2 h2).trans e1
  theorem ndArm_funcs (cv : Nat → CState → CM (List Instr × CState)) (vsize : Nat)
      (hcv : ∀ b s r, cv b s = .ok r → r.2.funcs = s.funcs)
      (cblock : Nat → CState → CM (List Instr × CState)) (bsize : Nat)
      (hcb : ∀ b s r, cblock b s = .ok r → r.2.funcs = s.funcs) :
      ∀ (es : List Expr) (base endPos : Nat) (st : CState) (r : List Instr × CState), pureEs es = true →
      compileArm cv vsize cblock bsize es base endPos st = .ok r → r.2.funcs = st.funcs
    | [], _, _, st, r, _, h => by simp only [compileArm, pure, Except.pure] at h; cases h; rfl
    | e :: rest, base, endPos, st, r, hs, h => by
      simp only [pureEs, Bool.and_eq_true] at hs
      simp only [compileArm, bind_ok_eq, pure, Except.pure] at h
      obtain ⟨⟨cv', st1⟩, h1, ⟨ce, st2⟩, h2, ⟨cb, st3⟩, h3, ⟨cr, st4⟩, h4, h5⟩ := h
      cases h5
      exact (((ndArm_funcs cv vsize hcv cblock bsize hcb rest _ _ _ _ hs.2 h4).trans (hcb _ _ _ h3)).trans
        (pureE_funcs e _ _ _ hs.1 h2)).trans (hcv _ _ _ h1)
  theorem ndDefaults_funcs : ∀ (cs : List Case) (base : Nat) (st : CState) (r : List Instr × CState), pureCases cs = true → ndCases cs = true →
      compileDefaults cs base st = .ok r → r.2.funcs = st.funcs
    | [], _, st, r, _, _, h => by simp only [compileDefaults, pure, Except.pure] at h; cases h; rfl
    | .mk isDef es b :: rest, base, st, r, hs, hn, h => by
      simp only [pureCases, Bool.and_eq_true] at hs
      simp only [ndCases, Bool.and_eq_true] at hn
      simp only [compileDefaults] at h
      split at h
      · simp only [bind_ok_eq, pure, Except.pure] at h
        obtain ⟨⟨c, st1⟩, h1, ⟨cr, st2⟩, h2, h3⟩ := h
        cases h3
        exact (ndDefaults_funcs rest _ _ _ hs.2 hn.2 h2).trans (ndSs_funcs b _ _ _ hs.1.2 hn.1 h1)
      · exact ndDefaults_funcs rest base st r hs.2 hn.2 h
end


/-! ### the function table of the compiler -/

theorem find_setFunc (fs : List FnDef) (f : FnDef) (name : Str) :
    (setFunc fs f).find? (fun g => g.name == name) =
      if f.name == name then some f else fs.find? (fun g => g.name == name) := by
  induction fs with
  | nil => simp [setFunc, List.find?]
  | cons g gs ih =>
    simp only [setFunc]
    by_cases hg : (g.name == f.name) = true
    · simp only [hg, ↓reduceIte, List.find?_cons]
      have hgf : g.name = f.name := by simpa using hg
      by_cases hf : (f.name == name) = true
      · simp [hf]
      · have : (g.name == name) = false := by rw [hgf]; simpa using hf
        simp [hf, this]
    · simp only [hg, Bool.false_eq_true, ↓reduceIte, List.find?_cons, ih]
      by_cases hgn : (g.name == name) = true
      · have hgn' : g.name = name := by simpa using hgn
        have : (f.name == name) = false := by
          rw [← hgn']; cases h : (f.name == g.name)
          · rfl
          · have : f.name = g.name := by simpa using h
            rw [this] at hg; simp at hg
        simp [hgn, this]
      · simp [hgn]

theorem names_setFunc (fs : List FnDef) (f : FnDef) :
    ∀ n, n ∈ (setFunc fs f).map (·.name) ↔ n = f.name ∨ n ∈ fs.map (·.name) := by
  induction fs with
  | nil => intro n; simp [setFunc]
  | cons g gs ih =>
    intro n
    simp only [setFunc]
    by_cases hg : (g.name == f.name) = true
    · have hgf : g.name = f.name := by simpa using hg
      simp only [hg, ↓reduceIte]
      simp only [List.map_cons, List.mem_cons, hgf]
      constructor
      · rintro (h | h)
        · exact Or.inl h
        · exact Or.inr (Or.inr h)
      · rintro (h | h | h)
        · exact Or.inl h
        · exact Or.inl h
        · exact Or.inr h
    · simp only [hg, Bool.false_eq_true, ↓reduceIte, List.map_cons, List.mem_cons, ih n]
      constructor
      · rintro (h | h | h)
        · exact Or.inr (Or.inl h)
        · exact Or.inl h
        · exact Or.inr (Or.inr h)
      · rintro (h | h | h)
        · exact Or.inr (Or.inl h)
        · exact Or.inl h
        · exact Or.inr (Or.inr h)

theorem nodup_setFunc (fs : List FnDef) (f : FnDef) (h : (fs.map (·.name)).Nodup) :
    ((setFunc fs f).map (·.name)).Nodup := by
  induction fs with
  | nil => simp [setFunc]
  | cons g gs ih =>
    simp only [List.map_cons, List.nodup_cons] at h
    simp only [setFunc]
    by_cases hg : (g.name == f.name) = true
    · have hgf : g.name = f.name := by simpa using hg
      simp only [hg, ↓reduceIte, List.map_cons, List.nodup_cons]
      exact ⟨by rw [← hgf]; exact h.1, h.2⟩
    · simp only [hg, Bool.false_eq_true, ↓reduceIte, List.map_cons, List.nodup_cons]
      refine ⟨?_, ih h.2⟩
      intro hm
      rcases (names_setFunc gs f g.name).mp hm with h1 | h1
      · rw [h1] at hg; simp at hg
      · exact h.1 h1

/-- in a table without repeated names the last entry of a name is the first -/
theorem find_reverse_of_nodup {α : Type} (l : List α) (key : α → Str) (name : Str) (h : (l.map key).Nodup) :
    l.reverse.find? (fun g => key g == name) = l.find? (fun g => key g == name) := by
  induction l with
  | nil => rfl
  | cons g gs ih =>
    simp only [List.map_cons, List.nodup_cons] at h
    simp only [List.reverse_cons, List.find?_append, ih h.2, List.find?_cons, List.find?_nil]
    by_cases hg : (key g == name) = true
    · have hgn : key g = name := by simpa using hg
      have : gs.find? (fun x => key x == name) = none := by
        rw [List.find?_eq_none]
        intro x hx hk
        have : key x = name := by simpa using hk
        exact h.1 (by rw [hgn, ← this]; exact List.mem_map_of_mem hx)
      simp [hg, this]
    · simp only [hg, Bool.false_eq_true]
      cases gs.find? (fun x => key x == name) <;> rfl

theorem FnTable.find_snoc (T : FnTable) (sf : SFn) (name : Str) :
    FnTable.find (T ++ [sf]) name = if sf.name == name then some sf else T.find name := by
  simp [FnTable.find, List.find?_cons]
  split <;> simp_all

end EvalFilter.Exec
