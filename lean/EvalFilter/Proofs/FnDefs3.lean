/-
  User-defined functions, part 3: for every accepted compilation of a script whose function definitions
  are at top level, the machine's function table is the script's (`fnOK_of_compile`) - the hypothesis
  `FnOK` of the statement-correctness theorem holds.
-/
import EvalFilter.Proofs.FnDefs2
set_option linter.unusedSimpArgs false
set_option linter.unusedVariables false
namespace EvalFilter.Exec
open EvalFilter EvalFilter.VM EvalFilter.Compiler

/-! ### the functions of a script whose definitions are at top level -/

/-- function definitions only at top level (none inside a block or a function body) -/
def topNd : List Stmt → Bool
  | [] => true
  | .expr (.funcDef _ _ b) :: ss => ndSs b && topNd ss
  | s :: ss => ndS s && topNd ss

/-- the functions a script defines, in source order -/
def defsOf : List Stmt → FnTable
  | [] => []
  | .expr (.funcDef n ps b) :: ss => ⟨n, ps, b⟩ :: defsOf ss
  | _ :: ss => defsOf ss

theorem topNd_other (s : Stmt) (ss : List Stmt) (h : ∀ n ps b, s ≠ .expr (.funcDef n ps b)) :
    topNd (s :: ss) = (ndS s && topNd ss) := by
  cases s with
  | ret e => rfl
  | expr e => cases e <;> first | rfl | exact absurd rfl (h _ _ _)

theorem defsOf_other (s : Stmt) (ss : List Stmt) (h : ∀ n ps b, s ≠ .expr (.funcDef n ps b)) :
    defsOf (s :: ss) = defsOf ss := by
  cases s with
  | ret e => rfl
  | expr e => cases e <;> first | rfl | exact absurd rfl (h _ _ _)

/-- what the compiler's function table holds, relative to the source table `T` and the constant pool -/
structure Inv (fs : List FnDef) (T : FnTable) (consts : List Value) : Prop where
  nodup : (fs.map (·.name)).Nodup
  missing : ∀ name, T.find name = none → fs.find? (fun g => g.name == name) = none
  found : ∀ name sf, T.find name = some sf → ∃ fd cst r, fs.find? (fun g => g.name == name) = some fd ∧
      fd.params = sf.params ∧ pureSs sf.body = true ∧ compileStmts sf.body 0 cst = .ok r ∧
      fd.code = fnCode r.1 ∧ ∃ ex, consts = r.2.consts ++ ex

theorem Inv.mono {fs : List FnDef} {T : FnTable} {c c' : List Value} (h : Inv fs T c) (hc : ∃ ex, c' = c ++ ex) :
    Inv fs T c' :=
  ⟨h.nodup, h.missing, fun name sf hf => by
    obtain ⟨fd, cst, r, h1, h2, h3, h4, h5, h6⟩ := h.found name sf hf
    exact ⟨fd, cst, r, h1, h2, h3, h4, h5, pool_trans hc h6⟩⟩

theorem Inv.nil : Inv [] [] [] :=
  ⟨by simp, fun _ _ => rfl, fun _ _ h => by simp [FnTable.find] at h⟩

theorem Inv.set {fs : List FnDef} {T : FnTable} {c : List Value} (h : Inv fs T c) (n : Str) (ps : List Str)
    (b : List Stmt) (cst : CState) (r : List Instr × CState) (hb : pureSs b = true)
    (hcomp : compileStmts b 0 cst = .ok r) (hc : c = r.2.consts) :
    Inv (setFunc fs ⟨n, ps, fnCode r.1⟩) (T ++ [⟨n, ps, b⟩]) c := by
  refine ⟨nodup_setFunc _ _ h.nodup, ?_, ?_⟩
  · intro name hf
    rw [FnTable.find_snoc] at hf
    rw [find_setFunc]
    by_cases hn : (n == name) = true
    · simp [hn] at hf
    · simp only [hn, Bool.false_eq_true, ↓reduceIte] at hf ⊢
      exact h.missing name hf
  · intro name sf hf
    rw [FnTable.find_snoc] at hf
    rw [find_setFunc]
    by_cases hn : (n == name) = true
    · simp only [hn, ↓reduceIte, Option.some.injEq] at hf ⊢
      subst hf
      exact ⟨_, cst, r, rfl, rfl, hb, hcomp, rfl, ⟨[], by simp [hc]⟩⟩
    · simp only [hn, Bool.false_eq_true, ↓reduceIte] at hf ⊢
      exact h.found name sf hf

/-- **The compiler's function table after a script is the script's functions**: each compiled from its
    body at address 0, the last definition of a name winning. -/
theorem top_inv : ∀ (ss : List Stmt) (base : Nat) (st : CState) (r : List Instr × CState) (T : FnTable),
    pureSs ss = true → topNd ss = true → compileStmts ss base st = .ok r → Inv st.funcs T st.consts →
    Inv r.2.funcs (T ++ defsOf ss) r.2.consts
  | [], base, st, r, T, _, _, h, hi => by
    simp only [compileStmts, pure, Except.pure] at h; cases h; simpa [defsOf] using hi
  | s :: rest, base, st, r, T, hs, hn, h, hi => by
    by_cases hpair : IsPair s rest
    · -- `e op;`: no definition, no function registered
      obtain ⟨e, n, op, rest', rfl, rfl⟩ := hpair
      simp only [pureSs, Bool.and_eq_true] at hs
      simp only [compileStmts, compileStmt, bind_ok_eq, pure, Except.pure] at h
      obtain ⟨⟨c, st1⟩, h1, ⟨cs, st2⟩, ⟨⟨ci, sti⟩, hci, ⟨cr, str⟩, hr, hcs⟩, h3⟩ := h
      cases h3; cases hcs
      have hne1 : ∀ n' ps b, Stmt.expr e ≠ .expr (.funcDef n' ps b) := by
        intro n' ps b hx; cases hx; simp [pureE] at hs
      have hne2 : ∀ n' ps b, Stmt.expr (.postfix n op) ≠ .expr (.funcDef n' ps b) := by
        intro n' ps b hx; cases hx
      rw [topNd_other _ _ hne1, topNd_other _ _ hne2] at hn
      simp only [Bool.and_eq_true] at hn
      rw [defsOf_other _ _ hne1, defsOf_other _ _ hne2]
      have f1 : st1.funcs = st.funcs := pureE_funcs e base st _ hs.1.2 h1
      have f2 : sti.funcs = st1.funcs := postfix_funcs n op _ _ _ hci
      have x1 := (compileExpr_R e base st _ h1).ext
      have x2 := (compileExpr_R (.postfix n op) _ _ _ hci).ext
      have hi1 : Inv sti.funcs T sti.consts := by
        rw [f2, f1]; exact (hi.mono x1).mono x2
      exact top_inv rest' _ _ (cr, str) T hs.2 hn.2.2 hr hi1
    rw [pureSs_other s rest hpair, Bool.and_eq_true] at hs
    simp only [compileStmts, bind_ok_eq, pure, Except.pure] at h
    obtain ⟨⟨c, st1⟩, h1, ⟨cs, st2⟩, h2, h3⟩ := h
    cases h3
    by_cases hfd : ∃ n ps b, s = .expr (.funcDef n ps b)
    · obtain ⟨n, ps, b, rfl⟩ := hfd
      simp only [topNd, Bool.and_eq_true] at hn
      simp only [pureS, stmtE] at hs
      simp only [compileStmt, compileExpr, bind_ok_eq, pure, Except.pure] at h1
      obtain ⟨⟨cb, stb⟩, hb, hb2⟩ := h1
      cases hb2
      have hfun : stb.funcs = st.funcs := ndSs_funcs b 0 st _ hs.1 hn.1 hb
      have hext := (compileStmts_R b 0 st _ hb).ext
      have hi1 : Inv stb.funcs T stb.consts := by rw [hfun]; exact hi.mono hext
      have hi2 := hi1.set n ps b st (cb, stb) hs.1 hb rfl
      have key : ∀ code, code = fnCode cb → Inv (setFunc stb.funcs ⟨n, ps, code⟩) (T ++ [⟨n, ps, b⟩]) stb.consts := by
        intro code hc; subst hc; exact hi2
      have := top_inv rest _ _ (cs, st2) (T ++ [⟨n, ps, b⟩]) hs.2 hn.2 h2
        (key _ (by unfold fnCode endsRet; cases cb.getLast? <;> rfl))
      simpa [defsOf, List.append_assoc] using this
    · have hne : ∀ n ps b, s ≠ .expr (.funcDef n ps b) := fun n ps b he => hfd ⟨n, ps, b, he⟩
      rw [topNd_other s rest hne, Bool.and_eq_true] at hn
      rw [defsOf_other s rest hne]
      have hfun : st1.funcs = st.funcs := ndS_funcs s base st _ hs.1 hn.1 h1
      have hext := (compileStmt_R s base st _ h1).ext
      have hi1 : Inv st1.funcs T st1.consts := by rw [hfun]; exact hi.mono hext
      exact top_inv rest _ _ (cs, st2) T hs.2 hn.2 h2 hi1

theorem lookupUser_newMachine (c : Compiled) (fns : List (Str × FnImpl)) (d : Nat → Bool) (name : Str)
    (hnd : (c.funcs.map (·.name)).Nodup) :
    lookupUser (Api.newMachine c false fns d) name =
      (c.funcs.find? (fun g => g.name == name)).map (fun f => ⟨f.name, f.params, encodeAll f.code⟩) := by
  have hf : (Api.newMachine c false fns d).funcs = c.funcs.map (fun f => (⟨f.name, f.params, encodeAll f.code⟩ : UserFn)) := by
    simp [Api.newMachine]
  unfold lookupUser
  rw [hf, find_reverse_of_nodup _ UserFn.name name (by rw [List.map_map]; exact hnd), List.find?_map]
  rfl

/-- **The machine's functions are the script's functions** (`FnOK` holds for every accepted compilation of a
    script whose function definitions are at top level): each name the script defines is bound to the code
    compiled from the body of its LAST definition, with its parameters; no other name is bound. -/
theorem fnOK_of_compile (prog : Program) (hp : pureSs prog = true) (hn : topNd prog = true) (c : Compiled)
    (hc : compileProgram prog = .ok c) (fns : List (Str × FnImpl)) (obj : HostVal) :
    FnOK (Api.newMachine c false fns (fun _ => false)) (defsOf prog) obj := by
  simp only [compileProgram, bind, Except.bind, pure, Except.pure] at hc
  split at hc
  · cases hc
  · split at hc
    · cases hc
    · rename_i r hcomp
      split at hc
      · cases hc
      · rename_i hsize
        cases hc
        obtain ⟨code, st⟩ := r
        rw [normStmts_pure prog hp] at hcomp
        simp only [Bool.or_eq_true, decide_eq_true_eq, not_or, Nat.not_lt, List.any_eq_true, not_exists, not_and] at hsize
        obtain ⟨⟨hs1, hs2⟩, hs3⟩ := hsize
        have hinv := top_inv prog 0 ⟨[], []⟩ (code, st) [] hp hn hcomp Inv.nil
        simp only [List.nil_append] at hinv
        obtain ⟨_, hconsts, _⟩ := newMachine_unopt ⟨st.consts, code, st.funcs⟩ fns (fun _ => false)
        refine ⟨?_, ?_⟩
        · intro name hf
          rw [lookupUser_newMachine _ _ _ _ hinv.nodup, hinv.missing name hf]; rfl
        · intro name sf hf
          obtain ⟨fd, cst, r, h1, h2, h3, h4, h5, h6⟩ := hinv.found name sf hf
          refine ⟨⟨fd.name, fd.params, encodeAll fd.code⟩, cst, r, ?_, h2, h3, h4, ?_, ?_, ?_, ?_⟩
          · rw [lookupUser_newMachine _ _ _ _ hinv.nodup, h1]; rfl
          · simp only [h5]
          · rw [hconsts]; exact h6
          · simp only [encodeAll_length]
            have hm : fd ∈ st.funcs := List.mem_of_find?_eq_some h1
            have := hs3 fd hm
            simp only [maxProgramSize] at this
            omega
          · intro he
            exact endsRet_never_normal _ _ obj sf.body 0 cst r h3 h4 he

end EvalFilter.Exec
