/-
  Every accepted script compiles - before the optimizer runs - to a program that satisfies the
  static conditions of the byte-code verifier; so a script prepared with NoOptimize never makes the VM
  report an unknown opcode, an instruction pointer out of bounds or a bad constant.
-/
import EvalFilter.Model.Api
import EvalFilter.Proofs.CompConsts
import EvalFilter.Proofs.WFCheck

set_option linter.unusedSimpArgs false

namespace EvalFilter.WF
open EvalFilter EvalFilter.VM EvalFilter.Compiler

/-- what `emit` really stores for an instruction: operands are truncated to 16 bits -/
def stored (i : Instr) : Instr := ⟨i.op, if i.op.length = 3 then i.arg % 65536 else 0⟩

def withOffsets : Nat → List Instr → List (Nat × Instr)
  | _, [] => []
  | off, i :: is => (off, stored i) :: withOffsets (off + i.size) is

theorem decode16_encode16 (n : Nat) :
    decode16 (UInt8.ofNat (n % 65536 / 256)) (UInt8.ofNat (n % 256)) = n % 65536 := by
  unfold decode16
  have h1 : (UInt8.ofNat (n % 65536 / 256)).toNat = n % 65536 / 256 := by
    simp only [UInt8.toNat_ofNat']; omega
  have h2 : (UInt8.ofNat (n % 256)).toNat = n % 256 := by
    simp only [UInt8.toNat_ofNat']; omega
  rw [h1, h2]; omega

/-- decoding the bytes `emit` produced for a list of instructions gives the instructions back -/
theorem decode_encodeAll (is : List Instr) (off : Nat) :
    decode off (encodeAll is) = some (withOffsets off is) := by
  induction is generalizing off with
  | nil => simp [encodeAll, withOffsets, decode_nil]
  | cons i rest ih =>
    have hb : Op.ofNat? (UInt8.ofNat i.op.toNat).toNat = some i.op := by
      simp [Nat.mod_eq_of_lt (Op.toNat_lt i.op), Op.ofNat_toNat]
    rcases Op.length_cases i.op with h1 | h3
    · have hne : i.op.length ≠ 3 := by omega
      have henc : i.encode = [UInt8.ofNat i.op.toNat] := by simp [Instr.encode, Op.hasOperand, h1]
      simp only [encodeAll, henc, List.singleton_append]
      rw [decode_cons1 off _ _ i.op hb hne, ih]
      simp [withOffsets, stored, Instr.size, h1]
    · have henc : i.encode = UInt8.ofNat i.op.toNat :: encode16 i.arg := by simp [Instr.encode, Op.hasOperand, h3]
      simp only [encodeAll, henc, encode16, List.cons_append, List.nil_append]
      rw [decode_cons3 off _ _ _ _ i.op hb h3, ih]
      simp [withOffsets, stored, Instr.size, h3, decode16_encode16]

theorem mem_withOffsets {base : Nat} {is : List Instr} {o : Nat} {i : Instr} (h : (o, i) ∈ withOffsets base is) :
    ∃ i', i' ∈ is ∧ i = stored i' := by
  induction is generalizing base with
  | nil => cases h
  | cons x xs ih =>
    simp only [withOffsets, List.mem_cons, Prod.mk.injEq] at h
    rcases h with ⟨_, rfl⟩ | h
    · exact ⟨x, List.mem_cons_self .., rfl⟩
    · obtain ⟨i', hi', he⟩ := ih h
      exact ⟨i', List.mem_cons_of_mem _ hi', he⟩

theorem starts_mem_withOffsets {base : Nat} {is : List Instr} {t : Nat} (h : t ∈ starts base is) :
    ∃ j, (t, j) ∈ withOffsets base is := by
  induction is generalizing base with
  | nil => cases h
  | cons x xs ih =>
    simp only [starts, List.mem_cons] at h
    rcases h with rfl | h
    · exact ⟨stored x, List.mem_cons_self ..⟩
    · obtain ⟨j, hj⟩ := ih h
      exact ⟨j, List.mem_cons_of_mem _ hj⟩

theorem starts_lt {base : Nat} {is : List Instr} {t : Nat} (h : t ∈ starts base is) : t < base + codeSize is := by
  induction is generalizing base with
  | nil => cases h
  | cons x xs ih =>
    simp only [starts, List.mem_cons] at h
    have hx : 0 < x.size := by unfold Instr.size; rcases Op.length_cases x.op with h | h <;> omega
    rcases h with rfl | h
    · simp; omega
    · have := ih h; simp; omega

theorem mem_targets {is : List Instr} {i : Instr} (hi : i ∈ is) (hj : i.op = .jump ∨ i.op = .jumpIfFalse) :
    i.arg ∈ targets is := by
  induction is with
  | nil => cases hi
  | cons x xs ih =>
    simp only [targets]
    rcases List.mem_cons.mp hi with rfl | h
    · simp [hj]
    · split
      · exact List.mem_cons_of_mem _ (ih h)
      · exact ih h

/-- closed jumps + constant references in range + size within the 16-bit operand space ⇒ the static
    conditions hold for the emitted bytes -/
theorem staticOk_of_code (n : Nat) (is : List Instr) (hc : Closed 0 is) (hk : CodeOk n is)
    (hs : codeSize is ≤ 65536) : StaticOk n (encodeAll is) (withOffsets 0 is) := by
  refine ⟨decode_encodeAll is 0, ?_, ?_⟩
  · intro o i hm hj
    obtain ⟨i', hi', rfl⟩ := mem_withOffsets hm
    have hj' : i'.op = .jump ∨ i'.op = .jumpIfFalse := hj
    have ht := hc _ (mem_targets hi' hj')
    have hlt := starts_lt ht
    have h3 : i'.op.length = 3 := by rcases hj' with h | h <;> simp [h, Op.length]
    have : (stored i').arg = i'.arg := by simp [stored, h3]; omega
    rw [this]
    exact starts_mem_withOffsets ht
  · intro o i hm hco
    obtain ⟨i', hi', rfl⟩ := mem_withOffsets hm
    have := hk i' hi' hco
    have hle : (stored i').arg ≤ i'.arg := by
      simp only [stored]; split
      · exact Nat.mod_le _ _
      · exact Nat.zero_le _
    omega

/-- **Every accepted script compiles to code that satisfies the verifier's static conditions**: main
    body and every function body, and every function body ends in a return. -/
theorem compileProgram_static (prog : Program) (c : Compiled) (h : compileProgram prog = .ok c) :
    StaticOk c.consts.length (encodeAll c.main) (withOffsets 0 c.main) ∧
    ∀ f, f ∈ c.funcs → StaticOk c.consts.length (encodeAll f.code) (withOffsets 0 f.code) ∧ EndsRet f.code := by
  simp only [compileProgram, bind, Except.bind, pure, Except.pure] at h
  split at h
  · cases h
  · split at h
    · cases h
    · rename_i r hcomp
      split at h
      · cases h
      · rename_i hsize
        cases h
        obtain ⟨code, st⟩ := r
        have hR := compileStmts_R _ 0 ⟨[], []⟩ _ hcomp
        have hC := compileStmts_closed _ 0 ⟨[], []⟩ _ hcomp
        have hst : StOk st := hR.funcs (by intro f hf; cases hf)
        simp only [Bool.or_eq_true, decide_eq_true_eq, not_or, Nat.not_lt, List.any_eq_true, not_exists, not_and] at hsize
        obtain ⟨⟨hs1, _⟩, hs3⟩ := hsize
        refine ⟨staticOk_of_code _ code hC hR.code hs1, ?_⟩
        intro f hf
        have hfo := hst f hf
        exact ⟨staticOk_of_code _ f.code hfo.closed hfo.consts (hs3 f hf), hfo.ends⟩

/-- **A script prepared with NoOptimize never ends a run with an unknown opcode, an instruction
    pointer out of bounds or a bad constant** - every script, object, state and step budget. -/
theorem prepared_unoptimized_static (script : List Char) (env : Env) (fns : List (Str × FnImpl)) (done : Nat → Bool)
    (p : Api.Prepared) (env' : Env) (h : Api.prepare script false env fns done = .ok (p, env'))
    (obj : HostVal) (fuel : Nat) (st : RunSt) : ¬ internalStatic (run p.machine obj fuel st).1 := by
  simp only [Api.prepare] at h
  split at h
  · cases h
  · split at h
    · cases h
    · rename_i ast _ c hc
      cases h
      obtain ⟨hm, hf⟩ := compileProgram_static _ c hc
      have hfuncs : ∀ uf, uf ∈ (Api.newMachine c false fns done).funcs →
          ∃ instrs, StaticOk (Api.newMachine c false fns done).consts.length uf.code instrs := by
        intro uf huf
        simp only [Api.newMachine, List.mem_map] at huf
        obtain ⟨f, hfm, rfl⟩ := huf
        exact ⟨_, (hf f hfm).1⟩
      unfold run
      split
      · simp [internalStatic, err]
      · simp only [finish]
        have hm' : StaticOk (Api.newMachine c false fns done).consts.length (Api.newMachine c false fns done).main
            (withOffsets 0 c.main) := hm
        exact loop_static _ obj hfuncs fuel _ _ hm' 0 [] st (by
          rcases start_of_static hm' with h | h
          · left; exact h
          · right; exact h)

end EvalFilter.WF
