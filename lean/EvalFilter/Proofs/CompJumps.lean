/-
  Every jump the compiler emits lands on the start of an instruction of the same body:
  for every tree, offset and compiler state.  (Builds on `CompSize`: sizes are what place the labels.)
-/
import EvalFilter.Proofs.CompSize

set_option linter.unusedSimpArgs false
set_option linter.unusedVariables false

namespace EvalFilter.Compiler
open EvalFilter

/-- the operands of the jump instructions of a piece of code -/
def targets : List Instr → List Nat
  | [] => []
  | i :: is => if i.op = .jump ∨ i.op = .jumpIfFalse then i.arg :: targets is else targets is

/-- the byte offsets at which the instructions of a piece of code placed at `base` start -/
def starts : Nat → List Instr → List Nat
  | _, [] => []
  | base, i :: is => base :: starts (base + i.size) is

theorem targets_append (a b : List Instr) : targets (a ++ b) = targets a ++ targets b := by
  induction a with
  | nil => rfl
  | cons i is ih => simp only [List.cons_append, targets, ih]; split <;> simp

theorem starts_append (base : Nat) (a b : List Instr) :
    starts base (a ++ b) = starts base a ++ starts (base + codeSize a) b := by
  induction a generalizing base with
  | nil => simp [starts]
  | cons i is ih => simp [starts, ih, Nat.add_assoc]

theorem base_mem_starts (base : Nat) (code : List Instr) : base ∈ starts base code ∨ codeSize code = 0 := by
  cases code with
  | nil => right; rfl
  | cons i is => left; simp [starts]

/-- all jumps of `code` (placed at `base`) land on instruction starts of `code` -/
def Closed (base : Nat) (code : List Instr) : Prop := ∀ t, t ∈ targets code → t ∈ starts base code

/-- … or on the first byte after `code`, or on the external label `ext` (the arms of a switch jump
    to the end of the whole switch and fall through to what follows them) -/
def ClosedE (base : Nat) (code : List Instr) (ext : Nat) : Prop :=
  ∀ t, t ∈ targets code → t ∈ starts base code ∨ t = base + codeSize code ∨ t = ext

theorem binaryOp_nj {op : Str} {o : Op} (h : binaryOp op = some o) : ¬ (o = .jump ∨ o = .jumpIfFalse) := by
  unfold binaryOp at h; split at h <;> first | (cases h; simp) | cases h
theorem compoundOp_nj {op : Str} {o : Op} (h : compoundOp op = some o) : ¬ (o = .jump ∨ o = .jumpIfFalse) := by
  unfold compoundOp at h; split at h <;> first | (cases h; simp) | cases h
theorem prefixOp_nj {op : Str} {o : Op} (h : prefixOp op = some o) : ¬ (o = .jump ∨ o = .jumpIfFalse) := by
  unfold prefixOp at h; split at h <;> first | (cases h; simp) | cases h

set_option hygiene false in
macro "closed_tac" : tactic => `(tactic| (
  simp only [Closed, ClosedE] at *
  simp only [targets_append, starts_append, targets, starts, codeSize_append, codeSize_cons, codeSize_nil,
    Instr.size, Op.length, withConst_op, withConst_size]
  simp
  try grind))

mutual
  theorem compileExpr_closed : ∀ (e : Expr) (base : Nat) (st : CState) (r : List Instr × CState),
      compileExpr e base st = .ok r → Closed base r.1
    | .boolLit b, base, st, r, h => by
      simp only [compileExpr, pure, Except.pure] at h; cases h
      intro t ht; simp [targets] at ht; split at ht <;> simp at ht
    | .floatLit _ _, base, st, r, h => by
      simp only [compileExpr, pure, Except.pure] at h; cases h; closed_tac
    | .intLit _ v, base, st, r, h => by
      simp only [compileExpr, pure, Except.pure] at h
      split at h <;> (cases h; closed_tac)
    | .strLit _, base, st, r, h => by
      simp only [compileExpr, pure, Except.pure] at h; cases h; closed_tac
    | .regexpLit _ _ _, base, st, r, h => by
      simp only [compileExpr, pure, Except.pure] at h; cases h; closed_tac
    | .arrayLit els, base, st, r, h => by
      simp only [compileExpr, bind_ok_eq, pure, Except.pure] at h
      obtain ⟨⟨c, st1⟩, h1, h2⟩ := h
      have c1 := compileExprs_closed els base st _ h1
      cases h2
      closed_tac
    | .hashLit pairs, base, st, r, h => by
      simp only [compileExpr, bind_ok_eq, pure, Except.pure] at h
      obtain ⟨⟨c, st1⟩, h1, h2⟩ := h
      have c1 := compilePairs_closed pairs base st _ h1
      cases h2
      closed_tac
    | .infix op l r', base, st, r, h => by
      simp only [compileExpr, bind_ok_eq] at h
      obtain ⟨⟨cl, st1⟩, h1, ⟨cr, st2⟩, h2, h3⟩ := h
      have s1 := compileExpr_size l base st _ h1
      have c1 := compileExpr_closed l base st _ h1
      have c2 := compileExpr_closed r' _ _ _ h2
      simp only at s1 c1 c2 h3
      by_cases hco : isCompound op = true
      · simp only [hco, ↓reduceIte] at h3
        split at h3
        · rename_i name o _ hc
          simp only [pure, Except.pure] at h3; cases h3
          have := compoundOp_nj hc
          closed_tac
        · cases h3
      · simp only [hco, Bool.false_eq_true, ↓reduceIte] at h3
        split at h3
        · rename_i o hb
          simp only [pure, Except.pure] at h3; cases h3
          have := binaryOp_nj hb
          closed_tac
        · cases h3
    | .prefix op r', base, st, r, h => by
      simp only [compileExpr, bind_ok_eq] at h
      obtain ⟨⟨cr, st1⟩, h1, h3⟩ := h
      have c1 := compileExpr_closed r' base st _ h1
      simp only at c1 h3
      split at h3
      · rename_i _ hb
        simp only [pure, Except.pure] at h3; cases h3
        have := prefixOp_nj hb
        closed_tac
      · cases h3
    | .postfix _ _, base, st, r, h => by
      simp only [compileExpr, pure, Except.pure] at h
      split at h
      · cases h; closed_tac
      · split at h
        · cases h; closed_tac
        · cases h
    | .localE _, base, st, r, h => by
      simp only [compileExpr, pure, Except.pure] at h; cases h; closed_tac
    | .foreachE idx ident v body, base, st, r, h => by
      simp only [compileExpr, bind_ok_eq, pure, Except.pure] at h
      obtain ⟨⟨cv, st1⟩, h1, ⟨cb, st2⟩, h2, h3⟩ := h
      have s1 := compileExpr_size v base st _ h1
      have s2 := compileStmts_size body _ _ _ h2
      have c1 := compileExpr_closed v base st _ h1
      have c2 := compileStmts_closed body _ _ _ h2
      cases h3
      simp only at s1 s2 c1 c2
      closed_tac
    | .funcDef _ _ body, base, st, r, h => by
      simp only [compileExpr, bind_ok_eq, pure, Except.pure] at h
      obtain ⟨⟨cb, st1⟩, _, h3⟩ := h
      cases h3
      intro t ht; simp [targets] at ht
    | .ifE c cons none, base, st, r, h => by
      simp only [compileExpr, bind_ok_eq, pure, Except.pure] at h
      obtain ⟨⟨cc, st1⟩, h1, ⟨ca, st2⟩, h2, h3⟩ := h
      have s1 := compileExpr_size c base st _ h1
      have s2 := compileStmts_size cons _ _ _ h2
      have c1 := compileExpr_closed c base st _ h1
      have c2 := compileStmts_closed cons _ _ _ h2
      cases h3
      simp only at s1 s2 c1 c2
      closed_tac
    | .ifE c cons (some a), base, st, r, h => by
      simp only [compileExpr, bind_ok_eq, pure, Except.pure] at h
      obtain ⟨⟨cc, st1⟩, h1, ⟨ca, st2⟩, h2, ⟨cb, st3⟩, h4, h5⟩ := h
      have s1 := compileExpr_size c base st _ h1
      have s2 := compileStmts_size cons _ _ _ h2
      have s3 := compileStmts_size a _ _ _ h4
      have c1 := compileExpr_closed c base st _ h1
      have c2 := compileStmts_closed cons _ _ _ h2
      have c3 := compileStmts_closed a _ _ _ h4
      cases h5
      simp only at s1 s2 s3 c1 c2 c3
      have b3 := base_mem_starts (base + c.size + 3 + Stmt.sizes cons + 3) cb
      closed_tac
    | .ternary c t f, base, st, r, h => by
      simp only [compileExpr, bind_ok_eq, pure, Except.pure] at h
      obtain ⟨⟨cc, st1⟩, h1, ⟨ct, st2⟩, h2, ⟨cf, st3⟩, h3, h4⟩ := h
      have s1 := compileExpr_size c base st _ h1
      have s2 := compileExpr_size t _ _ _ h2
      have s3 := compileExpr_size f _ _ _ h3
      have c1 := compileExpr_closed c base st _ h1
      have c2 := compileExpr_closed t _ _ _ h2
      have c3 := compileExpr_closed f _ _ _ h3
      cases h4
      simp only at s1 s2 s3 c1 c2 c3
      have b3 := base_mem_starts (base + c.size + 3 + t.size + 3) cf
      closed_tac
    | .switchE v cs, base, st, r, h => by
      simp only [compileExpr, bind_ok_eq, pure, Except.pure] at h
      obtain ⟨st0, _, ⟨ca, st1⟩, h1, ⟨cd, st2⟩, h2, h3⟩ := h
      have s1 := compileArms_size (fun b s => compileExpr v b s) v.size
        (fun b s r hr => compileExpr_size v b s r hr) cs _ _ _ _ h1
      have s2 := compileDefaults_size cs _ _ _ h2
      have c1 := compileArms_closed (fun b s => compileExpr v b s) v.size
        (fun b s r hr => ⟨compileExpr_closed v b s r hr, compileExpr_size v b s r hr⟩) cs _ _ _ _ h1
      have c2 := compileDefaults_closed cs _ _ _ h2
      cases h3
      simp only at s1 s2 c1 c2
      have b2 := base_mem_starts (base + Case.armsSize v.size cs) cd
      closed_tac
    | .whileE c body, base, st, r, h => by
      simp only [compileExpr, bind_ok_eq, pure, Except.pure] at h
      obtain ⟨⟨cc, st1⟩, h1, ⟨cb, st2⟩, h2, h3⟩ := h
      have s1 := compileExpr_size c base st _ h1
      have s2 := compileStmts_size body _ _ _ h2
      have c1 := compileExpr_closed c base st _ h1
      have c2 := compileStmts_closed body _ _ _ h2
      cases h3
      simp only at s1 s2 c1 c2
      have b1 := base_mem_starts base cc
      closed_tac
    | .assign _ v, base, st, r, h => by
      simp only [compileExpr, bind_ok_eq, pure, Except.pure] at h
      obtain ⟨⟨cv, st1⟩, h1, h3⟩ := h
      have c1 := compileExpr_closed v base st _ h1
      cases h3
      closed_tac
    | .ident _, base, st, r, h => by
      simp only [compileExpr, pure, Except.pure] at h; cases h; closed_tac
    | .call fn args, base, st, r, h => by
      simp only [compileExpr, bind_ok_eq, pure, Except.pure] at h
      obtain ⟨⟨ca, st1⟩, h1, h3⟩ := h
      have c1 := compileExprs_closed args base st _ h1
      cases h3
      closed_tac
    | .index l i, base, st, r, h => by
      simp only [compileExpr, bind_ok_eq, pure, Except.pure] at h
      obtain ⟨⟨cl, st1⟩, h1, ⟨ci, st2⟩, h2, h3⟩ := h
      have s1 := compileExpr_size l base st _ h1
      have c1 := compileExpr_closed l base st _ h1
      have c2 := compileExpr_closed i _ _ _ h2
      cases h3
      simp only at s1 c1 c2
      closed_tac

  theorem compileExprs_closed : ∀ (es : List Expr) (base : Nat) (st : CState) (r : List Instr × CState),
      compileExprs es base st = .ok r → Closed base r.1
    | [], _, _, r, h => by
      simp only [compileExprs, pure, Except.pure] at h; cases h; intro t ht; simp [targets] at ht
    | e :: rest, base, st, r, h => by
      simp only [compileExprs, bind_ok_eq, pure, Except.pure] at h
      obtain ⟨⟨c, st1⟩, h1, ⟨cs, st2⟩, h2, h3⟩ := h
      have s1 := compileExpr_size e base st _ h1
      have c1 := compileExpr_closed e base st _ h1
      have c2 := compileExprs_closed rest _ _ _ h2
      cases h3
      simp only at s1 c1 c2
      closed_tac

  theorem compilePairs_closed : ∀ (ps : List Pair) (base : Nat) (st : CState) (r : List Instr × CState),
      compilePairs ps base st = .ok r → Closed base r.1
    | [], _, _, r, h => by
      simp only [compilePairs, pure, Except.pure] at h; cases h; intro t ht; simp [targets] at ht
    | .mk k v :: rest, base, st, r, h => by
      simp only [compilePairs, bind_ok_eq, pure, Except.pure] at h
      obtain ⟨⟨ck, st1⟩, h1, ⟨cv, st2⟩, h2, ⟨cs, st3⟩, h3, h4⟩ := h
      have s1 := compileExpr_size k base st _ h1
      have s2 := compileExpr_size v _ _ _ h2
      have c1 := compileExpr_closed k base st _ h1
      have c2 := compileExpr_closed v _ _ _ h2
      have c3 := compilePairs_closed rest _ _ _ h3
      cases h4
      simp only at s1 s2 c1 c2 c3
      closed_tac

  theorem compileStmt_closed : ∀ (s : Stmt) (base : Nat) (st : CState) (r : List Instr × CState),
      compileStmt s base st = .ok r → Closed base r.1
    | .expr e, base, st, r, h => by
      simp only [compileStmt] at h
      exact compileExpr_closed e base st r h
    | .ret e, base, st, r, h => by
      simp only [compileStmt, bind_ok_eq, pure, Except.pure] at h
      obtain ⟨⟨c, st1⟩, h1, h3⟩ := h
      have c1 := compileExpr_closed e base st _ h1
      cases h3
      closed_tac

  theorem compileStmts_closed : ∀ (ss : List Stmt) (base : Nat) (st : CState) (r : List Instr × CState),
      compileStmts ss base st = .ok r → Closed base r.1
    | [], _, _, r, h => by
      simp only [compileStmts, pure, Except.pure] at h; cases h; intro t ht; simp [targets] at ht
    | s :: rest, base, st, r, h => by
      simp only [compileStmts, bind_ok_eq, pure, Except.pure] at h
      obtain ⟨⟨c, st1⟩, h1, ⟨cs, st2⟩, h2, h3⟩ := h
      have s1 := compileStmt_size s base st _ h1
      have c1 := compileStmt_closed s base st _ h1
      have c2 := compileStmts_closed rest _ _ _ h2
      cases h3
      simp only at s1 c1 c2
      closed_tac

  theorem compileArms_closed (cv : Nat → CState → CM (List Instr × CState)) (vsize : Nat)
      (hcv : ∀ b s r, cv b s = .ok r → Closed b r.1 ∧ codeSize r.1 = vsize) :
      ∀ (cs : List Case) (base endPos : Nat) (st : CState) (r : List Instr × CState),
      compileArms cv vsize cs base endPos st = .ok r → ClosedE base r.1 endPos
    | [], _, _, _, r, h => by
      simp only [compileArms, pure, Except.pure] at h; cases h; intro t ht; simp [targets] at ht
    | .mk isDef es b :: rest, base, endPos, st, r, h => by
      simp only [compileArms] at h
      split at h
      · exact compileArms_closed cv vsize hcv rest base endPos st r h
      · simp only [bind_ok_eq, pure, Except.pure] at h
        obtain ⟨⟨c, st1⟩, h1, ⟨cr, st2⟩, h2, h3⟩ := h
        have s1 := compileArm_size cv vsize (fun b s r hr => (hcv b s r hr).2) (fun bs s => compileStmts b bs s) (Stmt.sizes b)
          (fun bs s r hr => compileStmts_size b bs s r hr) es _ _ _ _ h1
        have c1 := compileArm_closed cv vsize hcv (fun bs s => compileStmts b bs s) (Stmt.sizes b)
          (fun bs s r hr => ⟨compileStmts_closed b bs s r hr, compileStmts_size b bs s r hr⟩) es _ _ _ _ h1
        have c2 := compileArms_closed cv vsize hcv rest _ _ _ _ h2
        cases h3
        simp only at s1 c1 c2
        have b2 := base_mem_starts (base + Case.armSize vsize (Stmt.sizes b) es) cr
        closed_tac

  theorem compileArm_closed (cv : Nat → CState → CM (List Instr × CState)) (vsize : Nat)
      (hcv : ∀ b s r, cv b s = .ok r → Closed b r.1 ∧ codeSize r.1 = vsize)
      (cblock : Nat → CState → CM (List Instr × CState)) (bsize : Nat)
      (hcb : ∀ b s r, cblock b s = .ok r → Closed b r.1 ∧ codeSize r.1 = bsize) :
      ∀ (es : List Expr) (base endPos : Nat) (st : CState) (r : List Instr × CState),
      compileArm cv vsize cblock bsize es base endPos st = .ok r → ClosedE base r.1 endPos
    | [], _, _, _, r, h => by
      simp only [compileArm, pure, Except.pure] at h; cases h; intro t ht; simp [targets] at ht
    | e :: rest, base, endPos, st, r, h => by
      simp only [compileArm, bind_ok_eq, pure, Except.pure] at h
      obtain ⟨⟨cv', st1⟩, h1, ⟨ce, st2⟩, h2, ⟨cb, st3⟩, h3, ⟨cr, st4⟩, h4, h5⟩ := h
      have ⟨c1, s1⟩ := hcv _ _ _ h1
      have s2 := compileExpr_size e _ _ _ h2
      have c2 := compileExpr_closed e _ _ _ h2
      have ⟨c3, s3⟩ := hcb _ _ _ h3
      have c4 := compileArm_closed cv vsize hcv cblock bsize hcb rest _ _ _ _ h4
      cases h5
      simp only at s1 s2 s3 c1 c2 c3 c4
      have b4 := base_mem_starts (base + vsize + e.size + 1 + 3 + bsize + 3) cr
      closed_tac

  theorem compileDefaults_closed : ∀ (cs : List Case) (base : Nat) (st : CState) (r : List Instr × CState),
      compileDefaults cs base st = .ok r → Closed base r.1
    | [], _, _, r, h => by
      simp only [compileDefaults, pure, Except.pure] at h; cases h; intro t ht; simp [targets] at ht
    | .mk isDef es b :: rest, base, st, r, h => by
      simp only [compileDefaults] at h
      split at h
      · simp only [bind_ok_eq, pure, Except.pure] at h
        obtain ⟨⟨c, st1⟩, h1, ⟨cr, st2⟩, h2, h3⟩ := h
        have s1 := compileStmts_size b _ _ _ h1
        have c1 := compileStmts_closed b _ _ _ h1
        have c2 := compileDefaults_closed rest _ _ _ h2
        cases h3
        simp only at s1 c1 c2
        closed_tac
      · exact compileDefaults_closed rest base st r h
end

end EvalFilter.Compiler
