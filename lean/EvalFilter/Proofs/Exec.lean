/-
  Running compiled code that sits somewhere inside a program: `CodeAt code off is` says the bytes of the
  instructions `is` are found in `code` at offset `off`; `exec_one` is the VM loop's fetch-decode-execute
  for the first of them.
-/
import EvalFilter.Model.VM
import EvalFilter.Proofs.WFSound
import EvalFilter.Proofs.CompSize

set_option linter.unusedSimpArgs false

namespace EvalFilter.Exec
open EvalFilter EvalFilter.VM

theorem encodeAll_append (a b : List Instr) : encodeAll (a ++ b) = encodeAll a ++ encodeAll b := by
  induction a with
  | nil => rfl
  | cons i is ih => simp [encodeAll, ih]

theorem encode_length (i : Instr) : i.encode.length = i.size := by
  unfold Instr.encode Instr.size Op.hasOperand
  rcases WF.Op.length_cases i.op with h | h <;> simp [h, encode16]

theorem encodeAll_length (is : List Instr) : (encodeAll is).length = codeSize is := by
  induction is with
  | nil => rfl
  | cons i is ih => simp [encodeAll, codeSize, encode_length, ih]

/-- the encoded instructions `is` occupy `code` from offset `off` -/
def CodeAt (code : Bytes) (off : Nat) (is : List Instr) : Prop :=
  ∃ pre post, code = pre ++ encodeAll is ++ post ∧ pre.length = off

theorem CodeAt.left {code : Bytes} {off : Nat} {a b : List Instr} (h : CodeAt code off (a ++ b)) : CodeAt code off a := by
  obtain ⟨pre, post, hc, hl⟩ := h
  exact ⟨pre, encodeAll b ++ post, by rw [hc, encodeAll_append]; simp, hl⟩

theorem CodeAt.right {code : Bytes} {off : Nat} {a b : List Instr} (h : CodeAt code off (a ++ b)) :
    CodeAt code (off + codeSize a) b := by
  obtain ⟨pre, post, hc, hl⟩ := h
  exact ⟨pre ++ encodeAll a, post, by rw [hc, encodeAll_append]; simp, by simp [hl, encodeAll_length]⟩

/-- what `emit` stores as operand -/
def storedArg (i : Instr) : Nat := if i.op.length = 3 then i.arg % 65536 else 0

theorem CodeAt.fetch {code : Bytes} {off : Nat} {i : Instr} {rest : List Instr} (h : CodeAt code off (i :: rest)) :
    off + i.size ≤ code.length ∧ (code.getD off 0).toNat = i.op.toNat ∧
    (i.op.length = 3 → decode16 (code.getD (off + 1) 0) (code.getD (off + 2) 0) = i.arg % 65536) := by
  obtain ⟨pre, post, hc, hl⟩ := h
  subst hl
  have hlen := encode_length i
  rcases WF.Op.length_cases i.op with h1 | h3
  · have henc : i.encode = [UInt8.ofNat i.op.toNat] := by simp [Instr.encode, Op.hasOperand, h1]
    refine ⟨?_, ?_, ?_⟩
    · rw [hc]; simp [encodeAll, henc, Instr.size, h1]
    · rw [hc]; simp [encodeAll, henc, List.getD_eq_getElem?_getD, Nat.mod_eq_of_lt (WF.Op.toNat_lt i.op)]
    · intro h; omega
  · have henc : i.encode = UInt8.ofNat i.op.toNat :: encode16 i.arg := by simp [Instr.encode, Op.hasOperand, h3]
    refine ⟨?_, ?_, ?_⟩
    · rw [hc]; simp [encodeAll, henc, Instr.size, h3, encode16]
    · rw [hc]; simp [encodeAll, henc, List.getD_eq_getElem?_getD, Nat.mod_eq_of_lt (WF.Op.toNat_lt i.op)]
    · intro _
      rw [hc]
      simp only [encodeAll, henc, encode16, List.cons_append, List.nil_append, List.append_assoc]
      simp only [List.getD_eq_getElem?_getD]
      rw [List.getElem?_append_right (by omega), List.getElem?_append_right (by omega)]
      simp only [Nat.add_sub_cancel_left, List.getElem?_cons_succ, List.getElem?_cons_zero, Option.getD_some]
      unfold decode16
      have h1 : (UInt8.ofNat (i.arg % 65536 / 256)).toNat = i.arg % 65536 / 256 := by
        simp only [UInt8.toNat_ofNat']; omega
      have h2 : (UInt8.ofNat (i.arg % 256)).toNat = i.arg % 256 := by
        simp only [UInt8.toNat_ofNat']; omega
      rw [h1, h2]; omega

/-- one turn of the VM loop on the instruction found at `off` (context not cancelled) -/
theorem exec_one (M : Machine) (obj : HostVal) {code : Bytes} {off : Nat} {i : Instr} {rest : List Instr}
    (h : CodeAt code off (i :: rest)) (fuel : Nat) (stack : List Value) (st : RunSt) (hnd : M.done st.polls = false) :
    loop M obj code (fuel + 1) off stack st =
      (match step M obj code.length (fun c s => loop M obj c fuel 0 [] s) i.op.toNat (storedArg i) (off + i.size) stack
              { st with polls := st.polls + 1 } with
       | .cont ip' stack' st' => loop M obj code fuel ip' stack' st'
       | .halt r st' => (r, st')) := by
  obtain ⟨hsz, hget, harg⟩ := h.fetch
  have hpos : 0 < i.size := by unfold Instr.size; rcases WF.Op.length_cases i.op with h | h <;> omega
  have hlt : ¬ (off ≥ code.length) := by omega
  rw [loop]
  simp only [hlt, ↓reduceIte, hnd, Bool.false_eq_true, hget, WF.byteLength_toNat]
  rcases WF.Op.length_cases i.op with h1 | h3
  · simp [h1, storedArg, Instr.size]
    rfl
  · have hfit : ¬ (off + 3 > code.length) := by simp only [Instr.size, h3] at hsz; omega
    have ha := harg h3
    simp only [List.getD_eq_getElem?_getD] at ha
    simp [h3, storedArg, Instr.size, hfit, ha]
    rfl

end EvalFilter.Exec
