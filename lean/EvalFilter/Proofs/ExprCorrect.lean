/-
  Compiler correctness for the value-producing fragment of the language (literals, identifiers and
  fields, prefix and binary operators, index, range, array literals, the ternary):

      running the code the compiler emits for `e`, wherever it is placed in a program,
      does exactly what the big-step semantics `evalE` says

  - operands are evaluated left to right, the operator is applied to their values, a ternary evaluates
  its condition and exactly one arm, an error ends the run with that error, on success the value is on
  top of the stack and the VM continues right behind the code.  Induction over the tree (any depth).
-/
import EvalFilter.Model.Api
import EvalFilter.Proofs.Exec
import EvalFilter.Proofs.CompConsts

set_option linter.unusedSimpArgs false
set_option linter.unusedVariables false

namespace EvalFilter.Exec
open EvalFilter EvalFilter.VM EvalFilter.Compiler

/-! ### the constant a literal denotes: the first pool entry of its type that prints like it -/

def poolVal (consts : List Value) (v : Value) : Res :=
  match findConst consts v 0 with
  | some k => (match consts[k]? with | some c => .ok c | none => err "badConstant")
  | none => err "badConstant"

theorem findConst_ext (cs ex : List Value) (v : Value) (i k : Nat) (h : findConst cs v i = some k) :
    findConst (cs ++ ex) v i = some k := by
  induction cs generalizing i with
  | nil => simp [findConst] at h
  | cons c rest ih =>
    simp only [findConst, List.cons_append] at h ⊢
    split at h
    · rename_i hc; simp [hc, h]
    · rename_i hc; simp [hc]; exact ih _ h

theorem findConst_new (cs ex : List Value) (v : Value) (i : Nat) (h : findConst cs v i = none) :
    findConst (cs ++ v :: ex) v i = some (i + cs.length) := by
  induction cs generalizing i with
  | nil => simp [findConst]
  | cons c rest ih =>
    simp only [findConst, List.cons_append] at h ⊢
    split at h
    · cases h
    · rename_i hc; simp [hc]; rw [ih _ h]; simp; omega

theorem findConst_get (cs : List Value) (v : Value) (i k : Nat) (h : findConst cs v i = some k) :
    i ≤ k ∧ ∃ c, cs[k - i]? = some c ∧ c.inspect = v.inspect := by
  induction cs generalizing i with
  | nil => simp [findConst] at h
  | cons c rest ih =>
    simp only [findConst] at h
    split at h
    · rename_i hc
      cases h
      simp at hc
      exact ⟨Nat.le_refl _, c, by simp, hc.2⟩
    · obtain ⟨h1, c', h2, h3⟩ := ih _ h
      refine ⟨by omega, c', ?_, h3⟩
      have : k - i = (k - (i + 1)) + 1 := by omega
      rw [this]; simpa using h2

/-- the index `withConst` hands out is what the literal denotes in every later pool -/
theorem withConst_pool (st : CState) (op : Op) (v : Value) (P : List Value)
    (hP : ∃ ex, P = (withConst st op v).2.consts ++ ex) :
    ∃ c, P[(withConst st op v).1.arg]? = some c ∧ poolVal P v = .ok c ∧ c.inspect = v.inspect := by
  obtain ⟨ex, rfl⟩ := hP
  simp only [withConst, addConstant]
  cases hf : findConst st.consts v 0 with
  | some k =>
    simp only [hf]
    obtain ⟨_, c, hc, hi⟩ := findConst_get _ _ _ _ hf
    simp only [Nat.sub_zero] at hc
    have hk : k < st.consts.length := by
      have := (List.getElem?_eq_some_iff.mp hc).1; exact this
    refine ⟨c, by rw [List.getElem?_append_left hk]; exact hc, ?_, hi⟩
    simp [poolVal, findConst_ext _ ex _ _ _ hf, List.getElem?_append_left hk, hc]
  | none =>
    simp only [hf]
    have hnew := findConst_new st.consts ex v 0 hf
    simp only [Nat.zero_add] at hnew
    refine ⟨v, by simp, ?_, rfl⟩
    simp [poolVal, hnew]

/-! ### semantics of the value-producing fragment -/

/-- the marker of "the expression semantics does not say": a call of a user-defined (or unknown) function
    inside an expression, or of a function that returns nothing where a value is needed.  It is the
    out-of-budget marker, which no operation of the language produces (`Proofs/NoOof.lean`), so for
    expressions without calls the marker never appears. -/
def undefErr : Err := .outOfFuel

theorem fst_err {α : Type} {p : Except Err α × Str} {e : Err} (h : p.1 = .error e) : ∃ o, p = (.error e, o) := by
  obtain ⟨a, b⟩ := p
  simp only at h
  exact ⟨b, by rw [h]⟩

def applyPrefix (op : Str) (v : Value) : Res :=
  match prefixOp op with
  | some .bang => .ok (bangOp v)
  | some .minus => minusOp v
  | some .squareRoot => sqrtOp v
  | _ => .error .unsupported

def applyInfix (M : Machine) (op : Str) (l r : Value) : Except Err (Value × Str) :=
  match binaryOp op with
  | some .index => (indexOp l r).map (fun v => (v, []))
  | some .range => (rangeOp l r).map (fun v => (v, []))
  | some o => binop M o l r
  | none => .error .unsupported

mutual
  /-- big-step value of an expression of the fragment: operands left to right, then the operator; a
      ternary evaluates its condition and exactly one arm -/
  def evalE (M : Machine) (obj : HostVal) (env : Env) : Expr → Str → Res × Str
    | .boolLit b, out => (.ok (.bool b), out)
    | .intLit _ v, out =>
        if v ≥ 0 && v.toInt ≤ inlineLimit then (.ok (.int (Int64.ofNat v.toInt.toNat)), out)
        else (poolVal M.consts (.int v), out)
    | .floatLit _ f, out => (poolVal M.consts (.float f), out)
    | .strLit s, out => (poolVal M.consts (.str s), out)
    | .regexpLit _ val flags, out =>
        (poolVal M.consts (.regexp (if flags.isEmpty then val else ['(', '?'] ++ flags ++ [')'] ++ val)), out)
    | .ident name, out =>
        (match poolVal M.consts (.str name) with
         | .ok c => lookup obj env c.inspect
         | .error e => .error e, out)
    | .prefix op r, out =>
        match evalE M obj env r out with
        | (.ok v, o) => (applyPrefix op v, o)
        | (.error e, o) => (.error e, o)
    | .infix op l r, out =>
        match evalE M obj env l out with
        | (.error e, o) => (.error e, o)
        | (.ok lv, o1) =>
          match evalE M obj env r o1 with
          | (.error e, o) => (.error e, o)
          | (.ok rv, o2) =>
            match applyInfix M op lv rv with
            | .ok (v, o) => (.ok v, o2 ++ o)
            | .error e => (.error e, o2)
    | .index l i, out =>
        match evalE M obj env l out with
        | (.error e, o) => (.error e, o)
        | (.ok lv, o1) =>
          match evalE M obj env i o1 with
          | (.error e, o) => (.error e, o)
          | (.ok iv, o2) => (indexOp lv iv, o2)
    | .arrayLit els, out =>
        match evalEs M obj env els out with
        | (.ok vs, o) => (.ok (.array vs), o)
        | (.error e, o) => (.error e, o)
    | .ternary c t f, out =>
        match evalE M obj env c out with
        | (.error e, o) => (.error e, o)
        | (.ok cv, o) => if cv.truthy then evalE M obj env t o else evalE M obj env f o
    | .hashLit pairs, out =>
        -- keys and values in written order (the pairs are in the compiler's order), then OpHash
        match evalPs M obj env pairs out with
        | (.ok kvs, o) =>
          (match buildHash (kvs.length + 1) kvs.reverse [] with
           | .ok ps => (.ok (.hash ps), o)
           | .error e => (.error e, o))
        | (.error e, o) => (.error e, o)
    | .call fn args, out =>
        -- a call of a built-in or host function: arguments left to right, then the function; its marker
        -- and output are written; calls of user-defined functions are statements (`callWith`)
        match evalEs M obj env args out with
        | (.error e, o) => (.error e, o)
        | (.ok vs, o) =>
          match lookupFn M fn.str with
          | none => (.error undefErr, o)
          | some impl =>
            ((match (callImpl fn.str impl vs).res with
              | .panic => .error .panic
              | .unsupported => .error .unsupported
              | .val .nil => .error .panic
              | .val .void => .error undefErr
              | .val v => .ok v), o ++ (callImpl fn.str impl vs).out)
    | _, out => (.error .unsupported, out)
  /-- the keys and values of a hash literal, in the order they are pushed: k1, v1, k2, v2, … -/
  def evalPs (M : Machine) (obj : HostVal) (env : Env) : List Pair → Str → Except Err (List Value) × Str
    | [], out => (.ok [], out)
    | .mk k v :: ps, out =>
        match evalE M obj env k out with
        | (.error x, o) => (.error x, o)
        | (.ok kv, o1) =>
          match evalE M obj env v o1 with
          | (.error x, o) => (.error x, o)
          | (.ok vv, o2) =>
            match evalPs M obj env ps o2 with
            | (.error x, o') => (.error x, o')
            | (.ok rest, o') => (.ok (kv :: vv :: rest), o')
  def evalEs (M : Machine) (obj : HostVal) (env : Env) : List Expr → Str → Except Err (List Value) × Str
    | [], out => (.ok [], out)
    | e :: es, out =>
        match evalE M obj env e out with
        | (.error x, o) => (.error x, o)
        | (.ok v, o) =>
          match evalEs M obj env es o with
          | (.error x, o') => (.error x, o')
          | (.ok vs, o') => (.ok (v :: vs), o')
end


/-- the pairs of a hash literal stand in the order the compiler emits them (by key text, then value
    text): what `normExpr` makes of every hash literal -/
def pairsSorted (pairs : List Pair) : Bool :=
  decide ((normPairs pairs).Pairwise (fun a b => (!(pairLt b a)) = true))

mutual
  /-- the value-producing fragment: literals, identifiers/fields, prefix and binary operators, index,
      range, array literals, the ternary -/
  def pureE : Expr → Bool
    | .boolLit _ | .intLit _ _ | .floatLit _ _ | .strLit _ | .regexpLit _ _ _ | .ident _ => true
    | .prefix _ r => pureE r
    | .infix op l r => !isCompound op && pureE l && pureE r
    | .index l i => pureE l && pureE i
    | .arrayLit els => pureEs els
    | .ternary c t f => pureE c && pureE t && pureE f
    | .hashLit pairs => purePs pairs && pairsSorted pairs
    | .call _ args => pureEs args
    | _ => false
  def purePs : List Pair → Bool
    | [] => true
    | .mk k v :: ps => pureE k && pureE v && purePs ps
  def pureEs : List Expr → Bool
    | [] => true
    | e :: es => pureE e && pureEs es
end

/-- where the run stands after the code of an expression: on success the value is on the stack and the
    VM continues behind the code; on failure the run has ended with that error -/
def after (M : Machine) (obj : HostVal) (code : Bytes) (fuel ip : Nat) (stack : List Value) (env : Env)
    (polls depth : Nat) (r : Res × Str) : Res × RunSt :=
  match r with
  | (.ok v, out') => loop M obj code fuel ip (v :: stack) ⟨env, out', polls, depth⟩
  | (.error e, out') => (.error e, ⟨env, out', polls, depth⟩)

def afterL (M : Machine) (obj : HostVal) (code : Bytes) (fuel ip : Nat) (stack : List Value) (env : Env)
    (polls depth : Nat) (r : Except Err (List Value) × Str) : Res × RunSt :=
  match r with
  | (.ok vs, out') => loop M obj code fuel ip (vs.reverse ++ stack) ⟨env, out', polls, depth⟩
  | (.error e, out') => (.error e, ⟨env, out', polls, depth⟩)

def NeverDone (M : Machine) : Prop := ∀ n, M.done n = false

/-! ### single instructions -/
section steps
variable (M : Machine) (obj : HostVal) (len : Nat) (rb : Bytes → RunSt → Res × RunSt) (next : Nat)
  (stack : List Value) (st : RunSt)

theorem step_push (arg : Nat) : step M obj len rb Op.push.toNat arg next stack st = .cont next (.int (Int64.ofNat arg) :: stack) st := by
  have : Op.ofNat? Op.push.toNat = some .push := rfl
  simp only [step, this, isBinary]; simp
theorem step_true (arg : Nat) : step M obj len rb Op.true.toNat arg next stack st = .cont next (.bool true :: stack) st := by
  have : Op.ofNat? Op.true.toNat = some .true := rfl
  simp only [step, this, isBinary]; simp
theorem step_false (arg : Nat) : step M obj len rb Op.false.toNat arg next stack st = .cont next (.bool false :: stack) st := by
  have : Op.ofNat? Op.false.toNat = some .false := rfl
  simp only [step, this, isBinary]; simp
theorem step_constant (arg : Nat) (c : Value) (h : M.consts[arg]? = some c) :
    step M obj len rb Op.constant.toNat arg next stack st = .cont next (c :: stack) st := by
  have : Op.ofNat? Op.constant.toNat = some .constant := rfl
  simp only [step, this, isBinary]; simp [h]
theorem step_lookup_ok (arg : Nat) (c v : Value) (h : M.consts[arg]? = some c) (hl : lookup obj st.env c.inspect = .ok v) :
    step M obj len rb Op.lookup.toNat arg next stack st = .cont next (v :: stack) st := by
  have : Op.ofNat? Op.lookup.toNat = some .lookup := rfl
  simp only [step, this, isBinary]; simp [h, hl]
theorem step_lookup_err (arg : Nat) (c : Value) (e : Err) (h : M.consts[arg]? = some c) (hl : lookup obj st.env c.inspect = .error e) :
    step M obj len rb Op.lookup.toNat arg next stack st = .halt (.error e) st := by
  have : Op.ofNat? Op.lookup.toNat = some .lookup := rfl
  simp only [step, this, isBinary]; simp [h, hl]
theorem step_placeholder (arg : Nat) : step M obj len rb Op.placeholder.toNat arg next stack st = .cont next stack st := by
  have : Op.ofNat? Op.placeholder.toNat = some .placeholder := rfl
  simp only [step, this, isBinary]; simp
theorem step_jump (arg : Nat) (h : arg < len) : step M obj len rb Op.jump.toNat arg next stack st = .cont arg stack st := by
  have : Op.ofNat? Op.jump.toNat = some .jump := rfl
  have hn : ¬ arg ≥ len := by omega
  simp only [step, this, isBinary]; simp [hn]
theorem step_jif (arg : Nat) (c : Value) (h : arg < len) :
    step M obj len rb Op.jumpIfFalse.toNat arg next (c :: stack) st = .cont (if c.truthy then next else arg) stack st := by
  have : Op.ofNat? Op.jumpIfFalse.toNat = some .jumpIfFalse := rfl
  have hn : ¬ arg ≥ len := by omega
  simp only [step, this, isBinary]
  by_cases hc : c.truthy = true <;> simp [hc, hn]
theorem step_index_ok (arg : Nat) (i l v : Value) (h : indexOp l i = .ok v) :
    step M obj len rb Op.index.toNat arg next (i :: l :: stack) st = .cont next (v :: stack) st := by
  have : Op.ofNat? Op.index.toNat = some .index := rfl
  simp only [step, this, isBinary]; simp [h]
theorem step_index_err (arg : Nat) (i l : Value) (e : Err) (h : indexOp l i = .error e) :
    step M obj len rb Op.index.toNat arg next (i :: l :: stack) st = .halt (.error e) st := by
  have : Op.ofNat? Op.index.toNat = some .index := rfl
  simp only [step, this, isBinary]; simp [h]
theorem step_range_ok (arg : Nat) (hi lo v : Value) (h : rangeOp lo hi = .ok v) :
    step M obj len rb Op.range.toNat arg next (hi :: lo :: stack) st = .cont next (v :: stack) st := by
  have : Op.ofNat? Op.range.toNat = some .range := rfl
  simp only [step, this, isBinary]; simp [h]
theorem step_range_err (arg : Nat) (hi lo : Value) (e : Err) (h : rangeOp lo hi = .error e) :
    step M obj len rb Op.range.toNat arg next (hi :: lo :: stack) st = .halt (.error e) st := by
  have : Op.ofNat? Op.range.toNat = some .range := rfl
  simp only [step, this, isBinary]; simp [h]
theorem step_binary_ok (o : Op) (ho : isBinary o = true) (arg : Nat) (r l v : Value) (out : Str)
    (h : binop M o l r = .ok (v, out)) :
    step M obj len rb o.toNat arg next (r :: l :: stack) st = .cont next (v :: stack) { st with out := st.out ++ out } := by
  simp only [step, WF.Op.ofNat_toNat, ho, ↓reduceIte, h]
theorem step_binary_err (o : Op) (ho : isBinary o = true) (arg : Nat) (r l : Value) (e : Err)
    (h : binop M o l r = .error e) :
    step M obj len rb o.toNat arg next (r :: l :: stack) st = .halt (.error e) st := by
  simp only [step, WF.Op.ofNat_toNat, ho, ↓reduceIte, h]
theorem step_bang (arg : Nat) (v : Value) :
    step M obj len rb Op.bang.toNat arg next (v :: stack) st = .cont next (bangOp v :: stack) st := by
  have : Op.ofNat? Op.bang.toNat = some .bang := rfl
  simp only [step, this, isBinary]; simp
theorem step_minus_ok (arg : Nat) (v x : Value) (h : minusOp v = .ok x) :
    step M obj len rb Op.minus.toNat arg next (v :: stack) st = .cont next (x :: stack) st := by
  have : Op.ofNat? Op.minus.toNat = some .minus := rfl
  simp only [step, this, isBinary]; simp [h]
theorem step_minus_err (arg : Nat) (v : Value) (e : Err) (h : minusOp v = .error e) :
    step M obj len rb Op.minus.toNat arg next (v :: stack) st = .halt (.error e) st := by
  have : Op.ofNat? Op.minus.toNat = some .minus := rfl
  simp only [step, this, isBinary]; simp [h]
theorem step_sqrt_ok (arg : Nat) (v x : Value) (h : sqrtOp v = .ok x) :
    step M obj len rb Op.squareRoot.toNat arg next (v :: stack) st = .cont next (x :: stack) st := by
  have : Op.ofNat? Op.squareRoot.toNat = some .squareRoot := rfl
  simp only [step, this, isBinary]; simp [h]
theorem step_sqrt_err (arg : Nat) (v : Value) (e : Err) (h : sqrtOp v = .error e) :
    step M obj len rb Op.squareRoot.toNat arg next (v :: stack) st = .halt (.error e) st := by
  have : Op.ofNat? Op.squareRoot.toNat = some .squareRoot := rfl
  simp only [step, this, isBinary]; simp [h]
theorem step_array (arg : Nat) (vs : List Value) (h : vs.length = arg) :
    step M obj len rb Op.array.toNat arg next (vs.reverse ++ stack) st = .cont next (.array vs :: stack) st := by
  have : Op.ofNat? Op.array.toNat = some .array := rfl
  simp only [step, this, isBinary]
  have hp : popN arg (vs.reverse ++ stack) = some (vs, stack) := by
    unfold popN
    have : ¬ ((vs.reverse ++ stack).length < arg) := by simp; omega
    simp only [this, ↓reduceIte]
    have h1 : (vs.reverse ++ stack).take arg = vs.reverse := by
      rw [← h]; simp
    have h2 : (vs.reverse ++ stack).drop arg = stack := by
      rw [← h]; simp
    rw [h1, h2]; simp
  simp [hp]
theorem step_hash (arg : Nat) (kvs : List Value) (h : kvs.length = arg) (he : arg % 2 = 0) :
    step M obj len rb Op.hash.toNat arg next (kvs.reverse ++ stack) st =
      (match buildHash (kvs.length + 1) kvs.reverse [] with
       | .ok ps => .cont next (.hash ps :: stack) st
       | .error e => .halt (.error e) st) := by
  have : Op.ofNat? Op.hash.toNat = some .hash := rfl
  simp only [step, this, isBinary]
  have h2 : 2 * ((arg + 1) / 2) = arg := by omega
  have hp : popN (2 * ((arg + 1) / 2)) (kvs.reverse ++ stack) = some (kvs, stack) := by
    rw [h2]
    unfold popN
    have : ¬ ((kvs.reverse ++ stack).length < arg) := by simp; omega
    simp only [this, ↓reduceIte]
    have h1 : (kvs.reverse ++ stack).take arg = kvs.reverse := by
      rw [← h]; simp
    have h3 : (kvs.reverse ++ stack).drop arg = stack := by
      rw [← h]; simp
    rw [h1, h3]; simp
  simp only [Bool.false_eq_true, ↓reduceIte, hp]
  cases buildHash (kvs.length + 1) kvs.reverse [] <;> rfl


end steps


/-! ### helper facts -/

theorem prefixOp_cases {op : Str} {o : Op} (h : prefixOp op = some o) : o = .bang ∨ o = .minus ∨ o = .squareRoot := by
  unfold prefixOp at h
  split at h <;> first | (cases h; simp) | cases h

theorem binaryOp_kinds {op : Str} {o : Op} (h : binaryOp op = some o) :
    o = .index ∨ o = .range ∨ isBinary o = true := by
  unfold binaryOp at h
  split at h <;> first | (cases h; simp [isBinary]) | cases h

theorem applyInfix_binary {M : Machine} {op : Str} {o : Op} (h : binaryOp op = some o) (hb : isBinary o = true)
    (l r : Value) : applyInfix M op l r = binop M o l r := by
  unfold applyInfix
  rw [h]
  cases o <;> simp [isBinary] at hb <;> rfl

theorem evalEs_length (M : Machine) (obj : HostVal) (env : Env) :
    ∀ (es : List Expr) (out : Str) (vs : List Value) (o : Str), evalEs M obj env es out = (.ok vs, o) → vs.length = es.length
  | [], out, vs, o, h => by simp [evalEs] at h; rw [h.1]; rfl
  | e :: es, out, vs, o, h => by
    simp only [evalEs] at h
    split at h
    · cases h
    · split at h
      · cases h
      · rename_i heq
        cases h
        simp [evalEs_length M obj env es _ _ _ heq]

theorem evalPs_length (M : Machine) (obj : HostVal) (env : Env) :
    ∀ (ps : List Pair) (out : Str) (vs : List Value) (o : Str), evalPs M obj env ps out = (.ok vs, o) → vs.length = ps.length * 2
  | [], out, vs, o, h => by simp [evalPs] at h; rw [h.1]; rfl
  | .mk k v :: ps, out, vs, o, h => by
    simp only [evalPs] at h
    split at h
    · cases h
    · split at h
      · cases h
      · split at h
        · cases h
        · rename_i heq
          cases h
          have := evalPs_length M obj env ps _ _ _ heq
          simp only [List.length_cons]; omega

mutual
  theorem pure_size_pos : ∀ (e : Expr), pureE e = true → 1 ≤ e.size
    | .boolLit _, _ | .intLit _ _, _ | .floatLit _ _, _ | .strLit _, _ | .regexpLit _ _ _, _ | .ident _, _ => by simp [Expr.size]
    | .prefix _ r, _ => by simp [Expr.size]
    | .infix op l r, _ => by simp only [Expr.size]; split <;> omega
    | .index l i, _ => by simp [Expr.size]
    | .arrayLit els, _ => by simp [Expr.size]
    | .ternary c t f, _ => by simp [Expr.size]
    | .hashLit ps, _ => by simp [Expr.size]
    | .call _ args, _ => by simp [Expr.size]
  theorem purePs_length_le : ∀ (ps : List Pair), purePs ps = true → ps.length * 2 ≤ Pair.sizes ps
    | [], _ => by simp [Pair.sizes]
    | .mk k v :: ps, h => by
      simp only [purePs, Bool.and_eq_true] at h
      have := pure_size_pos k h.1.1
      have := pure_size_pos v h.1.2
      have := purePs_length_le ps h.2
      simp only [List.length_cons, Pair.sizes]; omega
  theorem pures_length_le : ∀ (es : List Expr), pureEs es = true → es.length ≤ Expr.sizes es
    | [], _ => by simp [Expr.sizes]
    | e :: es, h => by
      simp only [pureEs, Bool.and_eq_true] at h
      have := pure_size_pos e h.1
      have := pures_length_le es h.2
      simp only [List.length_cons, Expr.sizes]; omega
end

/-- the hypotheses under which compiled code is run -/
structure Ctx (M : Machine) (code : Bytes) : Prop where
  nd : NeverDone M
  len : code.length ≤ 65536
  pool : M.consts.length ≤ 65536

theorem CodeAt.cast {code : Bytes} {a b : Nat} {is : List Instr} (h : CodeAt code a is) (e : a = b) : CodeAt code b is := e ▸ h

theorem CodeAt.bound {code : Bytes} {off : Nat} {is : List Instr} (h : CodeAt code off is) : off + codeSize is ≤ code.length := by
  obtain ⟨pre, post, hc, hl⟩ := h
  rw [hc]; simp [encodeAll_length, hl]

/-- run the single instruction `i` found at `off`, given what `step` does for it -/
theorem run_instr (M : Machine) (obj : HostVal) {code : Bytes} {off : Nat} {i : Instr} {rest : List Instr}
    (h : CodeAt code off (i :: rest)) (hM : NeverDone M) (harg : storedArg i = i.arg ∨ i.op.length = 1)
    (stack : List Value) (env : Env) (out : Str) (polls depth : Nat) (fuel : Nat) (a : Nat) (ha : a = storedArg i) :
    loop M obj code (fuel + 1) off stack ⟨env, out, polls, depth⟩ =
      (match step M obj code.length (fun c s => loop M obj c fuel 0 [] s) i.op.toNat a (off + i.size) stack
              ⟨env, out, polls + 1, depth⟩ with
       | .cont ip' stack' st' => loop M obj code fuel ip' stack' st'
       | .halt r st' => (r, st')) := by
  subst ha
  exact exec_one M obj h fuel stack ⟨env, out, polls, depth⟩ (hM polls)


/-- running the code of `e` placed at `base` does what the big-step semantics says -/
def Correct (M : Machine) (obj : HostVal) (code : Bytes) (e : Expr) (base : Nat) : Prop :=
  ∀ (stack : List Value) (env : Env) (out : Str) (polls depth : Nat),
    (evalE M obj env e out).1 ≠ .error undefErr → ∃ n k, ∀ fuel,
    loop M obj code (fuel + n) base stack ⟨env, out, polls, depth⟩ =
      after M obj code fuel (base + e.size) stack env (polls + k) depth (evalE M obj env e out)

def CorrectL (M : Machine) (obj : HostVal) (code : Bytes) (es : List Expr) (base : Nat) : Prop :=
  ∀ (stack : List Value) (env : Env) (out : Str) (polls depth : Nat),
    (evalEs M obj env es out).1 ≠ .error undefErr → ∃ n k, ∀ fuel,
    loop M obj code (fuel + n) base stack ⟨env, out, polls, depth⟩ =
      afterL M obj code fuel (base + Expr.sizes es) stack env (polls + k) depth (evalEs M obj env es out)

def CorrectP (M : Machine) (obj : HostVal) (code : Bytes) (ps : List Pair) (base : Nat) : Prop :=
  ∀ (stack : List Value) (env : Env) (out : Str) (polls depth : Nat),
    (evalPs M obj env ps out).1 ≠ .error undefErr → ∃ n k, ∀ fuel,
    loop M obj code (fuel + n) base stack ⟨env, out, polls, depth⟩ =
      afterL M obj code fuel (base + Pair.sizes ps) stack env (polls + k) depth (evalPs M obj env ps out)

/-- a leaf that is one pool constant -/
theorem leaf_constant (M : Machine) (obj : HostVal) (code : Bytes) (ctx : Ctx M code) (base : Nat) (cst : CState) (v : Value)
    (hc : CodeAt code base [(withConst cst .constant v).1])
    (hp : ∃ ex, M.consts = (withConst cst .constant v).2.consts ++ ex)
    (stack : List Value) (env : Env) (out : Str) (polls depth : Nat) :
    ∀ fuel, loop M obj code (fuel + 1) base stack ⟨env, out, polls, depth⟩ =
      after M obj code fuel (base + 3) stack env (polls + 1) depth (poolVal M.consts v, out) := by
  intro fuel
  obtain ⟨c, hget, hpv, _⟩ := withConst_pool cst .constant v M.consts hp
  have hlt : (withConst cst .constant v).1.arg < 65536 := by
    have := (List.getElem?_eq_some_iff.mp hget).1
    have := ctx.pool; omega
  have hop : (withConst cst .constant v).1.op = .constant := rfl
  have harg : storedArg (withConst cst .constant v).1 = (withConst cst .constant v).1.arg := by
    simp [storedArg, hop, Op.length, Nat.mod_eq_of_lt hlt]
  rw [run_instr M obj hc ctx.nd (Or.inl harg) stack env out polls depth fuel _ harg.symm]
  rw [hop, step_constant M obj _ _ _ _ _ _ c hget]
  simp [after, hpv, Instr.size, hop, Op.length]


theorem chain {M : Machine} {obj : HostVal} {code : Bytes} {n1 ip : Nat} {stack : List Value} {st : RunSt}
    {f g : Nat → Res × RunSt} (h1 : ∀ fuel, loop M obj code (fuel + n1) ip stack st = f fuel) (n2 : Nat)
    (h2 : ∀ fuel, f (fuel + n2) = g fuel) : ∀ fuel, loop M obj code (fuel + (n2 + n1)) ip stack st = g fuel := by
  intro fuel; rw [← Nat.add_assoc, h1, h2]

theorem pool_trans {P a b : List Value} (h1 : ∃ ex, P = b ++ ex) (h2 : ∃ e, b = a ++ e) : ∃ ex, P = a ++ ex := by
  obtain ⟨ex, rfl⟩ := h1; obtain ⟨e, rfl⟩ := h2; exact ⟨e ++ ex, by simp⟩

/-- finish a piece of code with one more instruction `i` at `ip`, given what the run looks like up to `ip`
    (`f`) and what `step` does for `i` there -/
theorem finish_instr {M : Machine} {obj : HostVal} {code : Bytes} {n1 ip0 ip : Nat} {stack0 stack : List Value}
    {st0 : RunSt} {env : Env} {out : Str} {polls depth : Nat} {i : Instr} {rest : List Instr}
    (h1 : ∀ fuel, loop M obj code (fuel + n1) ip0 stack0 st0 = loop M obj code fuel ip stack ⟨env, out, polls, depth⟩)
    (hc : CodeAt code ip (i :: rest)) (hM : NeverDone M) (harg : storedArg i = i.arg ∨ i.op.length = 1)
    (a : Nat) (ha : a = storedArg i) (g : Nat → Res × RunSt)
    (hstep : ∀ fuel, (match step M obj code.length (fun c s => loop M obj c fuel 0 [] s) i.op.toNat a (ip + i.size) stack
              ⟨env, out, polls + 1, depth⟩ with
       | .cont ip' stack' st' => loop M obj code fuel ip' stack' st'
       | .halt r st' => (r, st')) = g fuel) :
    ∀ fuel, loop M obj code (fuel + (1 + n1)) ip0 stack0 st0 = g fuel := by
  apply chain h1 1
  intro fuel
  rw [run_instr M obj hc hM harg stack env out polls depth fuel a ha]
  exact hstep fuel

theorem CodeAt.tail {code : Bytes} {off : Nat} {i : Instr} {rest : List Instr} (h : CodeAt code off (i :: rest)) :
    CodeAt code (off + i.size) rest := by
  have : CodeAt code off ([i] ++ rest) := h
  have := this.right
  simpa [codeSize] using this

/-- what OpCall does with the arguments on the stack, for a built-in or host function -/
theorem step_call_host (M : Machine) (obj : HostVal) (len : Nat) (rb : Bytes → RunSt → Res × RunSt) (next : Nat)
    (cn : Value) (vs : List Value) (stack : List Value) (st : RunSt) (impl : FnImpl)
    (hl : lookupFn M cn.inspect = some impl) :
    step M obj len rb Op.call.toNat vs.length next (cn :: (vs.reverse ++ stack)) st =
      (match (callImpl cn.inspect impl vs).res with
       | .panic => .halt (.error .panic) { st with out := st.out ++ (callImpl cn.inspect impl vs).out }
       | .unsupported => .halt (.error .unsupported) { st with out := st.out ++ (callImpl cn.inspect impl vs).out }
       | .val .nil => .halt (.error .panic) { st with out := st.out ++ (callImpl cn.inspect impl vs).out }
       | .val .void => .cont next stack { st with out := st.out ++ (callImpl cn.inspect impl vs).out }
       | .val v => .cont next (v :: stack) { st with out := st.out ++ (callImpl cn.inspect impl vs).out }) := by
  have : Op.ofNat? Op.call.toNat = some .call := rfl
  simp only [step, this, isBinary]
  have hp : popN vs.length (vs.reverse ++ stack) = some (vs, stack) := by
    unfold popN
    have : ¬ ((vs.reverse ++ stack).length < vs.length) := by simp
    simp only [this, ↓reduceIte]
    have h1 : (vs.reverse ++ stack).take vs.length = vs.reverse := by simp
    have h3 : (vs.reverse ++ stack).drop vs.length = stack := by simp
    rw [h1, h3]; simp
  simp only [Bool.false_eq_true, ↓reduceIte, hp, hl]
  generalize callImpl cn.inspect impl vs = r
  cases hr : r.res with
  | panic => rfl
  | unsupported => rfl
  | val v => cases v <;> rfl

mutual
  theorem expr_ok : ∀ (e : Expr) (base : Nat) (cst : CState) (r : List Instr × CState), pureE e = true →
      compileExpr e base cst = .ok r → ∀ (M : Machine) (obj : HostVal) (code : Bytes), Ctx M code →
      CodeAt code base r.1 → (∃ ex, M.consts = r.2.consts ++ ex) → Correct M obj code e base
    | .boolLit b, base, cst, r, _, h => by
      simp only [compileExpr, pure, Except.pure] at h; cases h
      intro M obj code ctx hc _ stack env out polls depth hU
      refine ⟨1, 1, fun fuel => ?_⟩
      cases b
      · rw [run_instr M obj hc ctx.nd (Or.inr rfl) stack env out polls depth fuel 0 rfl]
        simp [step_false, after, evalE, Expr.size, Instr.size, Op.length]
      · rw [run_instr M obj hc ctx.nd (Or.inr rfl) stack env out polls depth fuel 0 rfl]
        simp [step_true, after, evalE, Expr.size, Instr.size, Op.length]
    | .floatLit _ f, base, cst, r, _, h => by
      simp only [compileExpr, pure, Except.pure] at h; cases h
      intro M obj code ctx hc hp stack env out polls depth hU
      exact ⟨1, 1, by simpa [evalE, Expr.size] using leaf_constant M obj code ctx base cst (.float f) hc hp stack env out polls depth⟩
    | .strLit s, base, cst, r, _, h => by
      simp only [compileExpr, pure, Except.pure] at h; cases h
      intro M obj code ctx hc hp stack env out polls depth hU
      exact ⟨1, 1, by simpa [evalE, Expr.size] using leaf_constant M obj code ctx base cst (.str s) hc hp stack env out polls depth⟩
    | .regexpLit _ val flags, base, cst, r, _, h => by
      simp only [compileExpr, pure, Except.pure] at h; cases h
      intro M obj code ctx hc hp stack env out polls depth hU
      exact ⟨1, 1, by simpa [evalE, Expr.size] using leaf_constant M obj code ctx base cst _ hc hp stack env out polls depth⟩
    | .intLit _ v, base, cst, r, _, h => by
      simp only [compileExpr, pure, Except.pure] at h
      intro M obj code ctx hc hp stack env out polls depth hU
      split at h
      · rename_i hin
        cases h
        refine ⟨1, 1, fun fuel => ?_⟩
        have hle : v.toInt.toNat < 65536 := by
          have h2 : v.toInt ≤ 65534 := by
            simp only [Bool.and_eq_true, decide_eq_true_eq] at hin
            have := hin.2; simpa [inlineLimit] using this
          omega
        have harg : storedArg ⟨.push, v.toInt.toNat⟩ = v.toInt.toNat := by
          show (if Op.push.length = 3 then v.toInt.toNat % 65536 else 0) = v.toInt.toNat
          rw [if_pos (by rfl : Op.push.length = 3), Nat.mod_eq_of_lt hle]
        rw [run_instr M obj hc ctx.nd (Or.inl harg) stack env out polls depth fuel _ harg.symm]
        simp [step_push, after, evalE, hin, Expr.size, Instr.size, Op.length]
      · rename_i hin
        cases h
        exact ⟨1, 1, by simpa [evalE, hin, Expr.size] using leaf_constant M obj code ctx base cst (.int v) hc hp stack env out polls depth⟩
    | .ident name, base, cst, r, _, h => by
      simp only [compileExpr, pure, Except.pure] at h; cases h
      intro M obj code ctx hc hp stack env out polls depth hU
      refine ⟨1, 1, fun fuel => ?_⟩
      obtain ⟨c, hget, hpv, _⟩ := withConst_pool cst .lookup (.str name) M.consts hp
      have hlt : (withConst cst .lookup (.str name)).1.arg < 65536 := by
        have := (List.getElem?_eq_some_iff.mp hget).1
        have := ctx.pool; omega
      have hop : (withConst cst .lookup (.str name)).1.op = .lookup := rfl
      have harg : storedArg (withConst cst .lookup (.str name)).1 = (withConst cst .lookup (.str name)).1.arg := by
        simp [storedArg, hop, Op.length, Nat.mod_eq_of_lt hlt]
      rw [run_instr M obj hc ctx.nd (Or.inl harg) stack env out polls depth fuel _ harg.symm]
      rw [hop]
      cases hl : lookup obj env c.inspect with
      | ok v =>
        rw [step_lookup_ok M obj _ _ _ _ _ _ c v hget hl]
        simp [after, evalE, hpv, hl, Expr.size, Instr.size, hop, Op.length]
      | error e =>
        rw [step_lookup_err M obj _ _ _ _ _ _ c e hget hl]
        simp [after, evalE, hpv, hl]
    | .prefix op r', base, cst, r, hpure, h => by
      simp only [compileExpr, bind_ok_eq] at h
      obtain ⟨⟨cr, st1⟩, h1, h3⟩ := h
      simp only at h3
      split at h3
      · rename_i o ho
        simp only [pure, Except.pure] at h3; cases h3
        intro M obj code ctx hc hp stack env out polls depth hU
        simp only [pureE] at hpure
        have s1 := compileExpr_size r' base cst _ h1
        obtain ⟨n1, k1, ih⟩ := expr_ok r' base cst _ hpure h1 M obj code ctx hc.left hp stack env out polls depth (by intro hm; obtain ⟨ox, hx⟩ := fst_err hm; exact hU (by simp [evalE, hx]))
        simp only at s1
        have hc2 : CodeAt code (base + r'.size) [⟨o, 0⟩] := by have := hc.right; rwa [s1] at this
        have hlen1 := prefixOp_len ho
        cases hev : evalE M obj env r' out with
        | mk res o1 =>
          cases res with
          | error e =>
            refine ⟨n1, k1, fun fuel => ?_⟩
            rw [ih fuel, hev]; simp [after, evalE, hev]
          | ok v =>
            have hrun : ∀ fuel, loop M obj code (fuel + n1) base stack ⟨env, out, polls, depth⟩ =
                loop M obj code fuel (base + r'.size) (v :: stack) ⟨env, o1, polls + k1, depth⟩ := by
              intro fuel; rw [ih fuel, hev]; rfl
            refine ⟨1 + n1, k1 + 1, ?_⟩
            apply finish_instr hrun hc2 ctx.nd (Or.inr hlen1) 0 (by simp [storedArg, hlen1])
            intro fuel
            have hsz : (Expr.prefix op r').size = r'.size + 1 := rfl
            rcases prefixOp_cases ho with rfl | rfl | rfl
            · simp only [step_bang]
              simp [after, evalE, hev, applyPrefix, ho, hsz, Instr.size, Op.length, Nat.add_assoc]
            · cases hm : minusOp v with
              | ok x => rw [step_minus_ok M obj _ _ _ _ _ _ v x hm]; simp [after, evalE, hev, applyPrefix, ho, hm, hsz, Instr.size, Op.length, Nat.add_assoc]
              | error e => rw [step_minus_err M obj _ _ _ _ _ _ v e hm]; simp [after, evalE, hev, applyPrefix, ho, hm, Nat.add_assoc]
            · cases hm : sqrtOp v with
              | ok x => rw [step_sqrt_ok M obj _ _ _ _ _ _ v x hm]; simp [after, evalE, hev, applyPrefix, ho, hm, hsz, Instr.size, Op.length, Nat.add_assoc]
              | error e => rw [step_sqrt_err M obj _ _ _ _ _ _ v e hm]; simp [after, evalE, hev, applyPrefix, ho, hm, Nat.add_assoc]
      · cases h3
    | .infix op l r', base, cst, r, hpure, h => by
      simp only [compileExpr, bind_ok_eq] at h
      obtain ⟨⟨cl, st1⟩, h1, ⟨cr, st2⟩, h2, h3⟩ := h
      simp only [pureE, Bool.and_eq_true, Bool.not_eq_true'] at hpure
      obtain ⟨⟨hco, hpl⟩, hpr⟩ := hpure
      simp only [hco, Bool.false_eq_true, ↓reduceIte] at h3
      split at h3
      · rename_i o ho
        simp only [pure, Except.pure] at h3; cases h3
        intro M obj code ctx hc hp stack env out polls depth hU
        have s1 := compileExpr_size l base cst _ h1
        have s2 := compileExpr_size r' _ _ _ h2
        have r2 := compileExpr_R r' _ _ _ h2
        simp only at s1 s2 r2
        have hcl : CodeAt code base cl := hc.left.left
        have hcr : CodeAt code (base + l.size) cr := by have := hc.left.right; rwa [s1] at this
        have hc3 : CodeAt code (base + l.size + r'.size) [⟨o, 0⟩] := by
          have := hc.right; rw [codeSize_append, s1, s2] at this; exact this.cast (by omega)
        have hlen1 := binaryOp_len ho
        have hsz : (Expr.infix op l r').size = l.size + r'.size + 1 := by simp [Expr.size, hco]
        obtain ⟨n1, k1, ih1⟩ := expr_ok l base cst _ hpl h1 M obj code ctx hcl (pool_trans hp r2.ext) stack env out polls depth (by intro hm; obtain ⟨ox, hx⟩ := fst_err hm; exact hU (by simp [evalE, hx]))
        cases hev1 : evalE M obj env l out with
        | mk res1 o1 =>
          cases res1 with
          | error e =>
            refine ⟨n1, k1, fun fuel => ?_⟩
            rw [ih1 fuel, hev1]; simp [after, evalE, hev1]
          | ok lv =>
            have hrun1 : ∀ fuel, loop M obj code (fuel + n1) base stack ⟨env, out, polls, depth⟩ =
                loop M obj code fuel (base + l.size) (lv :: stack) ⟨env, o1, polls + k1, depth⟩ := by
              intro fuel; rw [ih1 fuel, hev1]; rfl
            obtain ⟨n2, k2, ih2⟩ := expr_ok r' _ _ _ hpr h2 M obj code ctx hcr hp (lv :: stack) env o1 (polls + k1) depth (by intro hm; obtain ⟨ox, hx⟩ := fst_err hm; exact hU (by simp [evalE, hev1, hx]))
            cases hev2 : evalE M obj env r' o1 with
            | mk res2 o2 =>
              cases res2 with
              | error e =>
                refine ⟨n2 + n1, k1 + k2, ?_⟩
                apply chain hrun1 n2
                intro fuel
                rw [ih2 fuel, hev2]; simp [after, evalE, hev1, hev2, Nat.add_assoc]
              | ok rv =>
                have hrun2 : ∀ fuel, loop M obj code (fuel + (n2 + n1)) base stack ⟨env, out, polls, depth⟩ =
                    loop M obj code fuel (base + l.size + r'.size) (rv :: lv :: stack) ⟨env, o2, polls + k1 + k2, depth⟩ := by
                  apply chain hrun1 n2
                  intro fuel; rw [ih2 fuel, hev2]; rfl
                refine ⟨1 + (n2 + n1), k1 + k2 + 1, ?_⟩
                apply finish_instr hrun2 hc3 ctx.nd (Or.inr hlen1) 0 (by simp [storedArg, hlen1])
                intro fuel
                rcases binaryOp_kinds ho with rfl | rfl | hb
                · cases hi : indexOp lv rv with
                  | ok x => rw [step_index_ok M obj _ _ _ _ _ _ rv lv x hi]
                            simp [after, evalE, hev1, hev2, applyInfix, ho, hi, Except.map, hsz, Instr.size, Op.length, Nat.add_assoc]
                  | error e => rw [step_index_err M obj _ _ _ _ _ _ rv lv e hi]
                               simp [after, evalE, hev1, hev2, applyInfix, ho, hi, Except.map, Nat.add_assoc]
                · cases hi : rangeOp lv rv with
                  | ok x => rw [step_range_ok M obj _ _ _ _ _ _ rv lv x hi]
                            simp [after, evalE, hev1, hev2, applyInfix, ho, hi, Except.map, hsz, Instr.size, Op.length, Nat.add_assoc]
                  | error e => rw [step_range_err M obj _ _ _ _ _ _ rv lv e hi]
                               simp [after, evalE, hev1, hev2, applyInfix, ho, hi, Except.map, Nat.add_assoc]
                · cases hi : binop M o lv rv with
                  | ok x =>
                    obtain ⟨x, xo⟩ := x
                    rw [step_binary_ok M obj _ _ _ _ _ o hb _ rv lv x xo hi]
                    simp [after, evalE, hev1, hev2, applyInfix_binary ho hb, hi, hsz, Instr.size, hlen1, Nat.add_assoc]
                  | error e =>
                    rw [step_binary_err M obj _ _ _ _ _ o hb _ rv lv e hi]
                    simp [after, evalE, hev1, hev2, applyInfix_binary ho hb, hi, Nat.add_assoc]
      · cases h3
    | .index l i, base, cst, r, hpure, h => by
      simp only [compileExpr, bind_ok_eq, pure, Except.pure] at h
      obtain ⟨⟨cl, st1⟩, h1, ⟨ci, st2⟩, h2, h3⟩ := h
      cases h3
      simp only [pureE, Bool.and_eq_true] at hpure
      obtain ⟨hpl, hpr⟩ := hpure
      intro M obj code ctx hc hp stack env out polls depth hU
      have s1 := compileExpr_size l base cst _ h1
      have s2 := compileExpr_size i _ _ _ h2
      have r2 := compileExpr_R i _ _ _ h2
      simp only at s1 s2 r2
      have hcl : CodeAt code base cl := hc.left.left
      have hcr : CodeAt code (base + l.size) ci := by have := hc.left.right; rwa [s1] at this
      have hc3 : CodeAt code (base + l.size + i.size) [⟨.index, 0⟩] := by
        have := hc.right; rw [codeSize_append, s1, s2] at this; exact this.cast (by omega)
      have hsz : (Expr.index l i).size = l.size + i.size + 1 := rfl
      obtain ⟨n1, k1, ih1⟩ := expr_ok l base cst _ hpl h1 M obj code ctx hcl (pool_trans hp r2.ext) stack env out polls depth (by intro hm; obtain ⟨ox, hx⟩ := fst_err hm; exact hU (by simp [evalE, hx]))
      cases hev1 : evalE M obj env l out with
      | mk res1 o1 =>
        cases res1 with
        | error e =>
          refine ⟨n1, k1, fun fuel => ?_⟩
          rw [ih1 fuel, hev1]; simp [after, evalE, hev1]
        | ok lv =>
          have hrun1 : ∀ fuel, loop M obj code (fuel + n1) base stack ⟨env, out, polls, depth⟩ =
              loop M obj code fuel (base + l.size) (lv :: stack) ⟨env, o1, polls + k1, depth⟩ := by
            intro fuel; rw [ih1 fuel, hev1]; rfl
          obtain ⟨n2, k2, ih2⟩ := expr_ok i _ _ _ hpr h2 M obj code ctx hcr hp (lv :: stack) env o1 (polls + k1) depth (by intro hm; obtain ⟨ox, hx⟩ := fst_err hm; exact hU (by simp [evalE, hev1, hx]))
          cases hev2 : evalE M obj env i o1 with
          | mk res2 o2 =>
            cases res2 with
            | error e =>
              refine ⟨n2 + n1, k1 + k2, ?_⟩
              apply chain hrun1 n2
              intro fuel
              rw [ih2 fuel, hev2]; simp [after, evalE, hev1, hev2, Nat.add_assoc]
            | ok rv =>
              have hrun2 : ∀ fuel, loop M obj code (fuel + (n2 + n1)) base stack ⟨env, out, polls, depth⟩ =
                  loop M obj code fuel (base + l.size + i.size) (rv :: lv :: stack) ⟨env, o2, polls + k1 + k2, depth⟩ := by
                apply chain hrun1 n2
                intro fuel; rw [ih2 fuel, hev2]; rfl
              refine ⟨1 + (n2 + n1), k1 + k2 + 1, ?_⟩
              apply finish_instr hrun2 hc3 ctx.nd (Or.inr rfl) 0 (by simp [storedArg, Op.length])
              intro fuel
              cases hi : indexOp lv rv with
              | ok x => rw [step_index_ok M obj _ _ _ _ _ _ rv lv x hi]
                        simp [after, evalE, hev1, hev2, hi, hsz, Instr.size, Op.length, Nat.add_assoc]
              | error e => rw [step_index_err M obj _ _ _ _ _ _ rv lv e hi]
                           simp [after, evalE, hev1, hev2, hi, Nat.add_assoc]
    | .arrayLit els, base, cst, r, hpure, h => by
      simp only [compileExpr, bind_ok_eq, pure, Except.pure] at h
      obtain ⟨⟨c, st1⟩, h1, h2⟩ := h
      cases h2
      simp only [pureE] at hpure
      intro M obj code ctx hc hp stack env out polls depth hU
      have s1 := compileExprs_size els base cst _ h1
      simp only at s1
      have hc2 : CodeAt code (base + Expr.sizes els) [⟨.array, els.length⟩] := by have := hc.right; rwa [s1] at this
      have hsz : (Expr.arrayLit els).size = Expr.sizes els + 3 := rfl
      obtain ⟨n1, k1, ih1⟩ := exprs_ok els base cst _ hpure h1 M obj code ctx hc.left hp stack env out polls depth (by intro hm; obtain ⟨ox, hx⟩ := fst_err hm; exact hU (by simp [evalE, hx]))
      have hlenlt : els.length < 65536 := by
        have h1 := pures_length_le els hpure
        have h2 := hc.bound
        rw [codeSize_append, s1] at h2
        simp only [codeSize_cons, codeSize_nil, Instr.size, Op.length] at h2
        have := ctx.len; omega
      have harg : storedArg ⟨.array, els.length⟩ = els.length := by
        show (if Op.array.length = 3 then els.length % 65536 else 0) = els.length
        rw [if_pos (by rfl : Op.array.length = 3), Nat.mod_eq_of_lt hlenlt]
      cases hev : evalEs M obj env els out with
      | mk res o1 =>
        cases res with
        | error e =>
          refine ⟨n1, k1, fun fuel => ?_⟩
          rw [ih1 fuel, hev]; simp [afterL, after, evalE, hev]
        | ok vs =>
          have hrun : ∀ fuel, loop M obj code (fuel + n1) base stack ⟨env, out, polls, depth⟩ =
              loop M obj code fuel (base + Expr.sizes els) (vs.reverse ++ stack) ⟨env, o1, polls + k1, depth⟩ := by
            intro fuel; rw [ih1 fuel, hev]; rfl
          refine ⟨1 + n1, k1 + 1, ?_⟩
          apply finish_instr hrun hc2 ctx.nd (Or.inl harg) els.length harg.symm
          intro fuel
          rw [step_array M obj _ _ _ _ _ els.length vs (evalEs_length M obj env els out vs o1 hev)]
          simp [after, evalE, hev, hsz, Instr.size, Op.length, Nat.add_assoc]
    | .hashLit pairs, base, cst, r, hpure, h => by
      simp only [compileExpr, bind_ok_eq, pure, Except.pure] at h
      obtain ⟨⟨c, st1⟩, h1, h2⟩ := h
      cases h2
      simp only [pureE, Bool.and_eq_true] at hpure
      intro M obj code ctx hc hp stack env out polls depth hU
      have s1 := compilePairs_size pairs base cst _ h1
      simp only at s1
      have hc2 : CodeAt code (base + Pair.sizes pairs) [⟨.hash, pairs.length * 2⟩] := by have := hc.right; rwa [s1] at this
      have hsz : (Expr.hashLit pairs).size = Pair.sizes pairs + 3 := rfl
      obtain ⟨n1, k1, ih1⟩ := pairs_ok pairs base cst _ hpure.1 h1 M obj code ctx hc.left hp stack env out polls depth (by intro hm; obtain ⟨ox, hx⟩ := fst_err hm; exact hU (by simp [evalE, hx]))
      have hlenlt : pairs.length * 2 < 65536 := by
        have h1 := purePs_length_le pairs hpure.1
        have h2 := hc.bound
        rw [codeSize_append, s1] at h2
        simp only [codeSize_cons, codeSize_nil, Instr.size, Op.length] at h2
        have := ctx.len; omega
      have harg : storedArg ⟨.hash, pairs.length * 2⟩ = pairs.length * 2 := by
        show (if Op.hash.length = 3 then (pairs.length * 2) % 65536 else 0) = pairs.length * 2
        rw [if_pos (by rfl : Op.hash.length = 3), Nat.mod_eq_of_lt hlenlt]
      cases hev : evalPs M obj env pairs out with
      | mk res o1 =>
        cases res with
        | error e =>
          refine ⟨n1, k1, fun fuel => ?_⟩
          rw [ih1 fuel, hev]; simp [afterL, after, evalE, hev]
        | ok kvs =>
          have hrun : ∀ fuel, loop M obj code (fuel + n1) base stack ⟨env, out, polls, depth⟩ =
              loop M obj code fuel (base + Pair.sizes pairs) (kvs.reverse ++ stack) ⟨env, o1, polls + k1, depth⟩ := by
            intro fuel; rw [ih1 fuel, hev]; rfl
          refine ⟨1 + n1, k1 + 1, ?_⟩
          apply finish_instr hrun hc2 ctx.nd (Or.inl harg) (pairs.length * 2) harg.symm
          intro fuel
          rw [step_hash M obj _ _ _ _ _ (pairs.length * 2) kvs (evalPs_length M obj env pairs out kvs o1 hev) (by omega)]
          cases hb : buildHash (kvs.length + 1) kvs.reverse [] with
          | ok ps => simp [after, evalE, hev, hb, hsz, Instr.size, Op.length, Nat.add_assoc]
          | error e => simp [after, evalE, hev, hb, Nat.add_assoc]
    | .ternary c t f, base, cst, r, hpure, h => by
      simp only [compileExpr, bind_ok_eq, pure, Except.pure] at h
      obtain ⟨⟨cc, st1⟩, h1, ⟨ct, st2⟩, h2, ⟨cf, st3⟩, h3, h4⟩ := h
      cases h4
      simp only [pureE, Bool.and_eq_true] at hpure
      obtain ⟨⟨hpc, hpt⟩, hpf⟩ := hpure
      intro M obj code ctx hc hp stack env out polls depth hU
      have s1 := compileExpr_size c base cst _ h1
      have s2 := compileExpr_size t _ _ _ h2
      have s3 := compileExpr_size f _ _ _ h3
      have r2 := compileExpr_R t _ _ _ h2
      have r3 := compileExpr_R f _ _ _ h3
      simp only at s1 s2 s3 r2 r3
      have hbound : base + (c.size + 3 + t.size + 3 + f.size + 1) ≤ code.length := by
        have := hc.bound
        simp only [codeSize_append, codeSize_cons, codeSize_nil, s1, s2, s3, Instr.size, Op.length] at this
        omega
      have hlen := ctx.len
      -- the pieces of the code
      have hcc : CodeAt code base cc := hc.left.left.left.left.left
      have hjif : CodeAt code (base + c.size) [⟨.jumpIfFalse, base + c.size + 3 + t.size + 3⟩] := by
        have := hc.left.left.left.left.right; rwa [s1] at this
      have hct : CodeAt code (base + c.size + 3) ct := by
        have := hc.left.left.left.right
        simp only [codeSize_append, codeSize_cons, codeSize_nil, s1, Instr.size, Op.length] at this
        exact this.cast (by omega)
      have hjmp : CodeAt code (base + c.size + 3 + t.size) [⟨.jump, base + c.size + 3 + t.size + 3 + f.size⟩] := by
        have := hc.left.left.right
        simp only [codeSize_append, codeSize_cons, codeSize_nil, s1, s2, Instr.size, Op.length] at this
        exact this.cast (by omega)
      have hcf : CodeAt code (base + c.size + 3 + t.size + 3) cf := by
        have := hc.left.right
        simp only [codeSize_append, codeSize_cons, codeSize_nil, s1, s2, Instr.size, Op.length] at this
        exact this.cast (by omega)
      have hph : CodeAt code (base + c.size + 3 + t.size + 3 + f.size) [⟨.placeholder, 0⟩] := by
        have := hc.right
        simp only [codeSize_append, codeSize_cons, codeSize_nil, s1, s2, s3, Instr.size, Op.length] at this
        exact this.cast (by omega)
      have hsz : (Expr.ternary c t f).size = c.size + 3 + t.size + 3 + f.size + 1 := rfl
      have ha1 : storedArg ⟨.jumpIfFalse, base + c.size + 3 + t.size + 3⟩ = base + c.size + 3 + t.size + 3 := by
        show (if Op.jumpIfFalse.length = 3 then (base + c.size + 3 + t.size + 3) % 65536 else 0) = base + c.size + 3 + t.size + 3
        rw [if_pos (by rfl : Op.jumpIfFalse.length = 3), Nat.mod_eq_of_lt (by omega)]
      have ha2 : storedArg ⟨.jump, base + c.size + 3 + t.size + 3 + f.size⟩ = base + c.size + 3 + t.size + 3 + f.size := by
        show (if Op.jump.length = 3 then (base + c.size + 3 + t.size + 3 + f.size) % 65536 else 0) = base + c.size + 3 + t.size + 3 + f.size
        rw [if_pos (by rfl : Op.jump.length = 3), Nat.mod_eq_of_lt (by omega)]
      obtain ⟨n1, k1, ih1⟩ := expr_ok c base cst _ hpc h1 M obj code ctx hcc
        (pool_trans (pool_trans hp r3.ext) r2.ext) stack env out polls depth (by intro hm; obtain ⟨ox, hx⟩ := fst_err hm; exact hU (by simp [evalE, hx]))
      cases hev1 : evalE M obj env c out with
      | mk res1 o1 =>
        cases res1 with
        | error e =>
          refine ⟨n1, k1, fun fuel => ?_⟩
          rw [ih1 fuel, hev1]; simp [after, evalE, hev1]
        | ok cv =>
          have hrun1 : ∀ fuel, loop M obj code (fuel + n1) base stack ⟨env, out, polls, depth⟩ =
              loop M obj code fuel (base + c.size) (cv :: stack) ⟨env, o1, polls + k1, depth⟩ := by
            intro fuel; rw [ih1 fuel, hev1]; rfl
          by_cases hcv : cv.truthy = true
          · -- the true arm, then the jump to the join
            have hrun2 : ∀ fuel, loop M obj code (fuel + (1 + n1)) base stack ⟨env, out, polls, depth⟩ =
                loop M obj code fuel (base + c.size + 3) stack ⟨env, o1, polls + k1 + 1, depth⟩ := by
              apply finish_instr hrun1 hjif ctx.nd (Or.inl ha1) _ ha1.symm
              intro fuel
              rw [step_jif M obj _ _ _ _ _ _ cv (by omega)]
              simp [hcv, Instr.size, Op.length]
            obtain ⟨n2, k2, ih2⟩ := expr_ok t _ _ _ hpt h2 M obj code ctx hct (pool_trans hp r3.ext) stack env o1 (polls + k1 + 1) depth (by intro hm; exact hU (by simp [evalE, hev1, hcv, hm]))
            cases hev2 : evalE M obj env t o1 with
            | mk res2 o2 =>
              cases res2 with
              | error e =>
                refine ⟨n2 + (1 + n1), k1 + 1 + k2, ?_⟩
                apply chain hrun2 n2
                intro fuel
                rw [ih2 fuel, hev2]; simp [after, evalE, hev1, hev2, hcv, Nat.add_assoc]
              | ok tv =>
                have hrun3 : ∀ fuel, loop M obj code (fuel + (n2 + (1 + n1))) base stack ⟨env, out, polls, depth⟩ =
                    loop M obj code fuel (base + c.size + 3 + t.size) (tv :: stack) ⟨env, o2, polls + k1 + 1 + k2, depth⟩ := by
                  apply chain hrun2 n2
                  intro fuel; rw [ih2 fuel, hev2]; rfl
                have hrun4 : ∀ fuel, loop M obj code (fuel + (1 + (n2 + (1 + n1)))) base stack ⟨env, out, polls, depth⟩ =
                    loop M obj code fuel (base + c.size + 3 + t.size + 3 + f.size) (tv :: stack) ⟨env, o2, polls + k1 + 1 + k2 + 1, depth⟩ := by
                  apply finish_instr hrun3 hjmp ctx.nd (Or.inl ha2) _ ha2.symm
                  intro fuel
                  rw [step_jump M obj _ _ _ _ _ _ (by omega)]
                refine ⟨1 + (1 + (n2 + (1 + n1))), k1 + 1 + k2 + 1 + 1, ?_⟩
                apply finish_instr hrun4 hph ctx.nd (Or.inr rfl) 0 (by simp [storedArg, Op.length])
                intro fuel
                rw [step_placeholder]
                simp [after, evalE, hev1, hev2, hcv, hsz, Instr.size, Op.length, Nat.add_assoc]
          · -- the false arm
            have hrun2 : ∀ fuel, loop M obj code (fuel + (1 + n1)) base stack ⟨env, out, polls, depth⟩ =
                loop M obj code fuel (base + c.size + 3 + t.size + 3) stack ⟨env, o1, polls + k1 + 1, depth⟩ := by
              apply finish_instr hrun1 hjif ctx.nd (Or.inl ha1) _ ha1.symm
              intro fuel
              rw [step_jif M obj _ _ _ _ _ _ cv (by omega)]
              simp [hcv]
            obtain ⟨n2, k2, ih2⟩ := expr_ok f _ _ _ hpf h3 M obj code ctx hcf hp stack env o1 (polls + k1 + 1) depth (by intro hm; exact hU (by simp [evalE, hev1, hcv, hm]))
            cases hev2 : evalE M obj env f o1 with
            | mk res2 o2 =>
              cases res2 with
              | error e =>
                refine ⟨n2 + (1 + n1), k1 + 1 + k2, ?_⟩
                apply chain hrun2 n2
                intro fuel
                rw [ih2 fuel, hev2]; simp [after, evalE, hev1, hev2, hcv, Nat.add_assoc]
              | ok fv =>
                have hrun3 : ∀ fuel, loop M obj code (fuel + (n2 + (1 + n1))) base stack ⟨env, out, polls, depth⟩ =
                    loop M obj code fuel (base + c.size + 3 + t.size + 3 + f.size) (fv :: stack) ⟨env, o2, polls + k1 + 1 + k2, depth⟩ := by
                  apply chain hrun2 n2
                  intro fuel; rw [ih2 fuel, hev2]; rfl
                refine ⟨1 + (n2 + (1 + n1)), k1 + 1 + k2 + 1, ?_⟩
                apply finish_instr hrun3 hph ctx.nd (Or.inr rfl) 0 (by simp [storedArg, Op.length])
                intro fuel
                rw [step_placeholder]
                simp [after, evalE, hev1, hev2, hcv, hsz, Instr.size, Op.length, Nat.add_assoc]
    | .call fn args, base, cst, r, hpure, h => by
      simp only [compileExpr, bind_ok_eq, pure, Except.pure] at h
      obtain ⟨⟨ca, st1⟩, h1, h3⟩ := h
      cases h3
      simp only [pureE] at hpure
      intro M obj code ctx hc hp stack env out polls depth hU
      have s1 := compileExprs_size args base cst _ h1
      simp only at s1
      have hsz : (Expr.call fn args).size = Expr.sizes args + 3 + 3 := rfl
      have hk : CodeAt code (base + Expr.sizes args) [(withConst st1 .constant (.str fn.str)).1, ⟨.call, args.length⟩] := by
        have := hc.right; rwa [s1] at this
      have hcallc : CodeAt code (base + Expr.sizes args + 3) [⟨.call, args.length⟩] := by
        have := hk.tail; simpa [Instr.size, withConst_op, Op.length] using this
      obtain ⟨cn, hget, _, hinsp⟩ := withConst_pool st1 .constant (.str fn.str) M.consts hp
      have hname : cn.inspect = fn.str := by rw [hinsp]; simp [Value.inspect]
      have hlt : (withConst st1 .constant (.str fn.str)).1.arg < 65536 := by
        have := (List.getElem?_eq_some_iff.mp hget).1
        have := ctx.pool; omega
      have hop : (withConst st1 .constant (.str fn.str)).1.op = .constant := rfl
      have hargk : storedArg (withConst st1 .constant (.str fn.str)).1 = (withConst st1 .constant (.str fn.str)).1.arg := by
        simp [storedArg, hop, Op.length, Nat.mod_eq_of_lt hlt]
      have hal : args.length < 65536 := by
        have := pures_length_le args hpure
        have hbound := hc.bound
        simp only [codeSize_append, codeSize_cons, codeSize_nil, s1, Instr.size, Op.length, withConst_op] at hbound
        have := ctx.len
        omega
      have hargc : storedArg ⟨.call, args.length⟩ = args.length := by
        show (if Op.call.length = 3 then args.length % 65536 else 0) = args.length
        rw [if_pos (by rfl : Op.call.length = 3), Nat.mod_eq_of_lt hal]
      have r1 : ∃ ex, M.consts = st1.consts ++ ex := pool_trans hp (addConstant_ext st1 (.str fn.str))
      obtain ⟨n1, k1, ih1⟩ := exprs_ok args base cst _ hpure h1 M obj code ctx hc.left r1 stack env out polls depth (by intro hm; obtain ⟨ox, hx⟩ := fst_err hm; exact hU (by simp [evalE, hx]))
      cases hev : evalEs M obj env args out with
      | mk res o1 =>
        cases res with
        | error x => exact ⟨n1, k1, fun fuel => by rw [ih1 fuel, hev]; simp [afterL, after, evalE, hev]⟩
        | ok vs =>
          have hvl : vs.length = args.length := evalEs_length M obj env args out vs o1 hev
          have hrun1 : ∀ fuel, loop M obj code (fuel + n1) base stack ⟨env, out, polls, depth⟩ =
              loop M obj code fuel (base + Expr.sizes args) (vs.reverse ++ stack) ⟨env, o1, polls + k1, depth⟩ := by
            intro fuel; rw [ih1 fuel, hev]; rfl
          have hrun2 : ∀ fuel, loop M obj code (fuel + (1 + n1)) base stack ⟨env, out, polls, depth⟩ =
              loop M obj code fuel (base + Expr.sizes args + 3) (cn :: (vs.reverse ++ stack)) ⟨env, o1, polls + k1 + 1, depth⟩ := by
            apply finish_instr hrun1 hk ctx.nd (Or.inl hargk) _ hargk.symm
            intro fuel
            rw [hop, step_constant M obj _ _ _ _ _ _ cn hget]
            simp [Instr.size, hop, Op.length]
          cases hl : lookupFn M fn.str with
          | none => exact absurd (by simp [evalE, hev, hl]) hU
          | some impl =>
            refine ⟨1 + (1 + n1), k1 + 1 + 1, ?_⟩
            apply finish_instr hrun2 hcallc ctx.nd (Or.inl hargc) _ hargc.symm
            intro fuel
            rw [← hvl, step_call_host M obj _ _ _ cn vs stack _ impl (by rw [hname]; exact hl), hname]
            simp only [evalE, hev, hl] at hU ⊢
            generalize callImpl fn.str impl vs = cr at hU ⊢
            cases hr : cr.res with
            | panic => simp [after, Nat.add_assoc]
            | unsupported => simp [after, Nat.add_assoc]
            | val v =>
              cases v <;> first
                | (exfalso; apply hU; simp [hr]; done)
                | simp [after, hsz, Instr.size, Op.length, Nat.add_assoc]
  theorem exprs_ok : ∀ (es : List Expr) (base : Nat) (cst : CState) (r : List Instr × CState), pureEs es = true →
      compileExprs es base cst = .ok r → ∀ (M : Machine) (obj : HostVal) (code : Bytes), Ctx M code →
      CodeAt code base r.1 → (∃ ex, M.consts = r.2.consts ++ ex) → CorrectL M obj code es base
    | [], base, cst, r, _, h => by
      simp only [compileExprs, pure, Except.pure] at h; cases h
      intro M obj code ctx hc hp stack env out polls depth hU
      exact ⟨0, 0, fun fuel => by simp [afterL, evalEs, Expr.sizes]⟩
    | e :: rest, base, cst, r, hpure, h => by
      simp only [compileExprs, bind_ok_eq, pure, Except.pure] at h
      obtain ⟨⟨c, st1⟩, h1, ⟨cs, st2⟩, h2, h3⟩ := h
      cases h3
      simp only [pureEs, Bool.and_eq_true] at hpure
      obtain ⟨hpe, hpr⟩ := hpure
      intro M obj code ctx hc hp stack env out polls depth hU
      have s1 := compileExpr_size e base cst _ h1
      have r2 := compileExprs_R rest _ _ _ h2
      simp only at s1 r2
      have hce : CodeAt code base c := hc.left
      have hcr : CodeAt code (base + e.size) cs := by have := hc.right; rwa [s1] at this
      obtain ⟨n1, k1, ih1⟩ := expr_ok e base cst _ hpe h1 M obj code ctx hce (pool_trans hp r2.ext) stack env out polls depth (by intro hm; obtain ⟨ox, hx⟩ := fst_err hm; exact hU (by simp [evalEs, hx]))
      cases hev1 : evalE M obj env e out with
      | mk res1 o1 =>
        cases res1 with
        | error x =>
          refine ⟨n1, k1, fun fuel => ?_⟩
          rw [ih1 fuel, hev1]; simp [after, afterL, evalEs, hev1]
        | ok v =>
          have hrun1 : ∀ fuel, loop M obj code (fuel + n1) base stack ⟨env, out, polls, depth⟩ =
              loop M obj code fuel (base + e.size) (v :: stack) ⟨env, o1, polls + k1, depth⟩ := by
            intro fuel; rw [ih1 fuel, hev1]; rfl
          obtain ⟨n2, k2, ih2⟩ := exprs_ok rest _ _ _ hpr h2 M obj code ctx hcr hp (v :: stack) env o1 (polls + k1) depth (by intro hm; obtain ⟨ox, hx⟩ := fst_err hm; exact hU (by simp [evalEs, hev1, hx]))
          refine ⟨n2 + n1, k1 + k2, ?_⟩
          apply chain hrun1 n2
          intro fuel
          rw [ih2 fuel]
          cases hev2 : evalEs M obj env rest o1 with
          | mk res2 o2 =>
            cases res2 with
            | error x => simp [afterL, evalEs, hev1, hev2, Nat.add_assoc]
            | ok vs => simp [afterL, evalEs, hev1, hev2, Expr.sizes, Nat.add_assoc]
  theorem pairs_ok : ∀ (ps : List Pair) (base : Nat) (cst : CState) (r : List Instr × CState), purePs ps = true →
      compilePairs ps base cst = .ok r → ∀ (M : Machine) (obj : HostVal) (code : Bytes), Ctx M code →
      CodeAt code base r.1 → (∃ ex, M.consts = r.2.consts ++ ex) → CorrectP M obj code ps base
    | [], base, cst, r, _, h => by
      simp only [compilePairs, pure, Except.pure] at h; cases h
      intro M obj code ctx hc hp stack env out polls depth hU
      exact ⟨0, 0, fun fuel => by simp [afterL, evalPs, Pair.sizes]⟩
    | .mk k v :: rest, base, cst, r, hpure, h => by
      simp only [compilePairs, bind_ok_eq, pure, Except.pure] at h
      obtain ⟨⟨ck, st1⟩, h1, ⟨cv, st2⟩, h2, ⟨cs, st3⟩, h3, h4⟩ := h
      cases h4
      simp only [purePs, Bool.and_eq_true] at hpure
      obtain ⟨⟨hpk, hpv⟩, hpr⟩ := hpure
      intro M obj code ctx hc hp stack env out polls depth hU
      have s1 := compileExpr_size k base cst _ h1
      have s2 := compileExpr_size v _ _ _ h2
      have r2 := compileExpr_R v _ _ _ h2
      have r3 := compilePairs_R rest _ _ _ h3
      simp only at s1 s2 r2 r3
      have p2 : ∃ ex, M.consts = st2.consts ++ ex := pool_trans hp r3.ext
      have p1 : ∃ ex, M.consts = st1.consts ++ ex := pool_trans p2 r2.ext
      have hck : CodeAt code base ck := hc.left.left
      have hcv : CodeAt code (base + k.size) cv := by have := hc.left.right; rwa [s1] at this
      have hcr : CodeAt code (base + k.size + v.size) cs := by
        have := hc.right
        simp only [codeSize_append, s1, s2] at this
        exact this.cast (by omega)
      obtain ⟨n1, k1, ih1⟩ := expr_ok k base cst _ hpk h1 M obj code ctx hck p1 stack env out polls depth (by intro hm; obtain ⟨ox, hx⟩ := fst_err hm; exact hU (by simp [evalPs, hx]))
      cases hev1 : evalE M obj env k out with
      | mk res1 o1 =>
        cases res1 with
        | error x =>
          refine ⟨n1, k1, fun fuel => ?_⟩
          rw [ih1 fuel, hev1]; simp [after, afterL, evalPs, hev1]
        | ok kv =>
          have hrun1 : ∀ fuel, loop M obj code (fuel + n1) base stack ⟨env, out, polls, depth⟩ =
              loop M obj code fuel (base + k.size) (kv :: stack) ⟨env, o1, polls + k1, depth⟩ := by
            intro fuel; rw [ih1 fuel, hev1]; rfl
          obtain ⟨n2, k2, ih2⟩ := expr_ok v _ _ _ hpv h2 M obj code ctx hcv p2 (kv :: stack) env o1 (polls + k1) depth (by intro hm; obtain ⟨ox, hx⟩ := fst_err hm; exact hU (by simp [evalPs, hev1, hx]))
          cases hev2 : evalE M obj env v o1 with
          | mk res2 o2 =>
            cases res2 with
            | error x =>
              refine ⟨n2 + n1, k1 + k2, ?_⟩
              apply chain hrun1 n2
              intro fuel; rw [ih2 fuel, hev2]; simp [after, afterL, evalPs, hev1, hev2, Nat.add_assoc]
            | ok vv =>
              have hrun2 : ∀ fuel, loop M obj code (fuel + (n2 + n1)) base stack ⟨env, out, polls, depth⟩ =
                  loop M obj code fuel (base + k.size + v.size) (vv :: kv :: stack) ⟨env, o2, polls + k1 + k2, depth⟩ := by
                apply chain hrun1 n2
                intro fuel; rw [ih2 fuel, hev2]; rfl
              obtain ⟨n3, k3, ih3⟩ := pairs_ok rest _ _ _ hpr h3 M obj code ctx hcr hp (vv :: kv :: stack) env o2 (polls + k1 + k2) depth (by intro hm; obtain ⟨ox, hx⟩ := fst_err hm; exact hU (by simp [evalPs, hev1, hev2, hx]))
              refine ⟨n3 + (n2 + n1), k1 + k2 + k3, ?_⟩
              apply chain hrun2 n3
              intro fuel
              rw [ih3 fuel]
              cases hev3 : evalPs M obj env rest o2 with
              | mk res3 o3 =>
                cases res3 with
                | error x => simp [afterL, evalPs, hev1, hev2, hev3, Nat.add_assoc]
                | ok vs => simp [afterL, evalPs, hev1, hev2, hev3, Pair.sizes, Nat.add_assoc]
end


mutual
  theorem normExpr_pure : ∀ (e : Expr), pureE e = true → normExpr e = e
    | .boolLit _, _ | .intLit _ _, _ | .floatLit _ _, _ | .strLit _, _ | .regexpLit _ _ _, _ | .ident _, _ => by simp [normExpr]
    | .prefix op r, h => by simp only [pureE] at h; simp [normExpr, normExpr_pure r h]
    | .infix op l r, h => by
      simp only [pureE, Bool.and_eq_true] at h
      simp [normExpr, normExpr_pure l h.1.2, normExpr_pure r h.2]
    | .index l i, h => by
      simp only [pureE, Bool.and_eq_true] at h
      simp [normExpr, normExpr_pure l h.1, normExpr_pure i h.2]
    | .arrayLit els, h => by simp only [pureE] at h; simp [normExpr, normExprs_pure els h]
    | .ternary c t f, h => by
      simp only [pureE, Bool.and_eq_true] at h
      simp [normExpr, normExpr_pure c h.1.1, normExpr_pure t h.1.2, normExpr_pure f h.2]
    | .hashLit ps, h => by
      simp only [pureE, Bool.and_eq_true] at h
      have hs : (normPairs ps).Pairwise (fun a b => (!(pairLt b a)) = true) := by
        have := h.2; unfold pairsSorted at this; exact of_decide_eq_true this
      simp only [normExpr]
      rw [List.mergeSort_of_pairwise hs, normPairs_pure ps h.1]
    | .call fn args, h => by simp only [pureE] at h; simp [normExpr, normExprs_pure args h]
  theorem normPairs_pure : ∀ (ps : List Pair), purePs ps = true → (normPairs ps).map (·.2.2) = ps
    | [], _ => rfl
    | .mk k v :: ps, h => by
      simp only [purePs, Bool.and_eq_true] at h
      simp [normPairs, normExpr_pure k h.1.1, normExpr_pure v h.1.2, normPairs_pure ps h.2]
  theorem normExprs_pure : ∀ (es : List Expr), pureEs es = true → normExprs es = es
    | [], _ => rfl
    | e :: es, h => by
      simp only [pureEs, Bool.and_eq_true] at h
      simp [normExprs, normExpr_pure e h.1, normExprs_pure es h.2]
end

theorem step_return (M : Machine) (obj : HostVal) (len : Nat) (rb : Bytes → RunSt → Res × RunSt) (arg next : Nat)
    (v : Value) (stack : List Value) (st : RunSt) :
    step M obj len rb Op.return.toNat arg next (v :: stack) st = .halt (.ok v) st := by
  have : Op.ofNat? Op.return.toNat = some .return := rfl
  simp only [step, this, isBinary]; simp

theorem newMachine_unopt (c : Compiled) (fns : List (Str × FnImpl)) (d : Nat → Bool) :
    (Api.newMachine c false fns d).main = encodeAll c.main ∧ (Api.newMachine c false fns d).consts = c.consts ∧
    (Api.newMachine c false fns d).done = d := by
  simp [Api.newMachine]

/-- **`return <expression>;` evaluates to the defined value or fails with the defined error.**
    For every expression of the value-producing fragment (any size and nesting), every accepted
    compilation of the script `return e;`, every host object, environment and host-function table: a
    run of the unoptimised program (context never cancelled, enough steps) ends with exactly the value
    - or exactly the error - the big-step semantics `evalE` gives, having written exactly its output. -/
theorem return_expr_correct (e : Expr) (hp : pureE e = true) (c : Compiled) (hc : compileProgram [.ret e] = .ok c)
    (fns : List (Str × FnImpl)) (obj : HostVal) (env : Env) (out : Str) (polls depth : Nat)
    (hU : (evalE (Api.newMachine c false fns (fun _ => false)) obj env e out).1 ≠ .error undefErr) :
    ∃ n k, ∀ fuel,
      run (Api.newMachine c false fns (fun _ => false)) obj (fuel + n) ⟨env, out, polls, depth⟩ =
        (match evalE (Api.newMachine c false fns (fun _ => false)) obj env e out with
         | (.ok v, o) => (.ok v, ⟨env, o, polls + k, depth⟩)
         | (.error x, o) => (.error x, ⟨env, o, polls + k, depth⟩)) := by
  simp only [compileProgram, bind, Except.bind, pure, Except.pure] at hc
  split at hc
  · cases hc
  · split at hc
    · cases hc
    · rename_i r hcomp
      split at hc
      · cases hc
      · rename_i hsize
        cases hc
        obtain ⟨code, st⟩ := r
        simp only [normStmts, normStmt, normExpr_pure e hp, compileStmts, compileStmt, bind_ok_eq, pure, Except.pure] at hcomp
        obtain ⟨⟨c1, st1⟩, ⟨⟨ce, st0⟩, he, h1⟩, ⟨c2, st2⟩, h2, h3⟩ := hcomp
        cases h1; cases h2; cases h3
        simp only [Bool.or_eq_true, decide_eq_true_eq, not_or, Nat.not_lt, List.any_eq_true, not_exists, not_and] at hsize
        obtain ⟨⟨hs1, hs2⟩, _⟩ := hsize
        simp only [List.append_nil] at hs1 hU ⊢
        -- the machine and its code
        obtain ⟨hmain, hconsts, hdone⟩ := newMachine_unopt ⟨st0.consts, ce ++ [⟨Op.return, 0⟩], st0.funcs⟩ fns (fun _ => false)
        generalize Api.newMachine ⟨st0.consts, ce ++ [⟨Op.return, 0⟩], st0.funcs⟩ false fns (fun _ => false) = M at hmain hconsts hdone hU ⊢
        simp only at hmain hconsts
        have hsz := compileExpr_size e 0 ⟨[], []⟩ _ he
        simp only at hsz
        have hlenb : (encodeAll (ce ++ [⟨Op.return, 0⟩])).length = codeSize (ce ++ [⟨Op.return, 0⟩]) := encodeAll_length _
        have ctx : Ctx M M.main := ⟨fun n => by rw [hdone], by rw [hmain, hlenb]; exact hs1, by rw [hconsts]; exact hs2⟩
        have hcode : CodeAt M.main 0 (ce ++ [⟨Op.return, 0⟩]) := ⟨[], [], by rw [hmain]; simp, rfl⟩
        obtain ⟨n1, k1, ih⟩ := expr_ok e 0 ⟨[], []⟩ _ hp he M obj M.main ctx hcode.left ⟨[], by simp [hconsts]⟩ [] env out polls depth hU
        have hret : CodeAt M.main (0 + e.size) [⟨Op.return, 0⟩] := by have := hcode.right; rwa [hsz] at this
        have hne : M.main.isEmpty = false := by
          rw [hmain]; simp [encodeAll_append, encodeAll, Instr.encode, Op.hasOperand, Op.length]
        cases hev : evalE M obj env e out with
        | mk res o1 =>
          cases res with
          | error x =>
            refine ⟨n1, k1, fun fuel => ?_⟩
            simp only [run, hne, Bool.false_eq_true, ↓reduceIte, finish, ih fuel, hev, after, Env.truncate, List.take_length]
          | ok v =>
            have hrun : ∀ fuel, loop M obj M.main (fuel + n1) 0 [] ⟨env, out, polls, depth⟩ =
                loop M obj M.main fuel (0 + e.size) [v] ⟨env, o1, polls + k1, depth⟩ := by
              intro fuel; rw [ih fuel, hev]; rfl
            have hfin := finish_instr hrun hret ctx.nd (Or.inr rfl) 0 (by simp [storedArg, Op.length])
              (fun _ => (Except.ok v, (⟨env, o1, polls + k1 + 1, depth⟩ : RunSt)))
              (fun fuel => by rw [step_return])
            refine ⟨1 + n1, k1 + 1, fun fuel => ?_⟩
            simp only [run, hne, Bool.false_eq_true, ↓reduceIte, finish, hfin fuel, Env.truncate, List.take_length, Nat.add_assoc]


end EvalFilter.Exec
