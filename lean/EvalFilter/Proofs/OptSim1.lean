import EvalFilter.Model.VM
import EvalFilter.Proofs.WFSound
set_option linter.unusedSimpArgs false
set_option linter.unusedVariables false
namespace EvalFilter.OptSim
open EvalFilter EvalFilter.VM

/-- two run states that agree on everything a script can observe (variables, output, call depth);
    on the poll counter too when `ex` -/
def StEq (ex : Bool) (s s' : RunSt) : Prop :=
  s.env = s'.env ∧ s.out = s'.out ∧ s.depth = s'.depth ∧ (ex = true → s.polls = s'.polls)

theorem StEq.refl (ex : Bool) (s : RunSt) : StEq ex s s := ⟨rfl, rfl, rfl, fun _ => rfl⟩
theorem StEq.symm {ex : Bool} {s s' : RunSt} (h : StEq ex s s') : StEq ex s' s :=
  ⟨h.1.symm, h.2.1.symm, h.2.2.1.symm, fun e => (h.2.2.2 e).symm⟩
theorem StEq.trans {ex : Bool} {a b c : RunSt} (h : StEq ex a b) (h' : StEq ex b c) : StEq ex a c :=
  ⟨h.1.trans h'.1, h.2.1.trans h'.2.1, h.2.2.1.trans h'.2.2.1, fun e => (h.2.2.2 e).trans (h'.2.2.2 e)⟩
theorem StEq.eq {s s' : RunSt} (h : StEq true s s') : s = s' := by
  obtain ⟨e, o, p, d⟩ := s
  obtain ⟨e', o', p', d'⟩ := s'
  obtain ⟨h1, h2, h3, h4⟩ := h
  simp only at h1 h2 h3 h4
  simp [h1, h2, h3, h4 trivial]

def OutEq (ex : Bool) (x x' : Res × RunSt) : Prop := x.1 = x'.1 ∧ StEq ex x.2 x'.2

theorem OutEq.trans {ex : Bool} {a b c : Res × RunSt} (h : OutEq ex a b) (h' : OutEq ex b c) : OutEq ex a c :=
  ⟨h.1.trans h'.1, h.2.trans h'.2⟩

/-- the outcomes of one instruction in two related runs: same kind, continuing at `n` / `n'` -/
def StepRel (ex : Bool) (n n' : Nat) : StepOut → StepOut → Prop
  | .cont i s t, .cont i' s' t' => i = n ∧ i' = n' ∧ s = s' ∧ StEq ex t t'
  | .halt r t, .halt r' t' => r = r' ∧ StEq ex t t'
  | _, _ => False

def StepOut.oof : StepOut → Prop
  | .halt r _ => r = .error .outOfFuel
  | _ => False

/-- what relates the two machines: same constants, host functions, context; user functions with the
    same names and parameters whose bodies are related by `B` -/
structure MRel (B : Bytes → Bytes → Prop) (M M' : Machine) : Prop where
  consts : M'.consts = M.consts
  fns : M'.fns = M.fns
  done : M'.done = M.done
  user : ∀ name, (lookupUser M name = none ∧ lookupUser M' name = none) ∨
    ∃ u u', lookupUser M name = some u ∧ lookupUser M' name = some u' ∧ u'.params = u.params ∧
      B u.code u'.code ∧ u'.code.isEmpty = u.code.isEmpty

theorem binop_congr {M M' : Machine} (h : M'.fns = M.fns) (op : Op) (l r : Value) : binop M' op l r = binop M op l r := by
  unfold binop callMatch lookupFn
  rw [h]

theorem callMatch_congr {M M' : Machine} (h : M'.fns = M.fns) (l r : Value) : callMatch M' l r = callMatch M l r := by
  unfold callMatch lookupFn
  rw [h]

/-- instructions other than calls and jumps: related states give related outcomes, whatever the two
    machines' function bodies are -/
theorem step_congr_plain (ex : Bool) {B : Bytes → Bytes → Prop} {M M' : Machine} (hM : MRel B M M') (obj : HostVal)
    (len len' : Nat) (rb rb' : Bytes → RunSt → Res × RunSt) (op : Op)
    (hop : op ≠ .call ∧ op ≠ .jump ∧ op ≠ .jumpIfFalse) (arg next next' : Nat) (stack : List Value)
    (st st' : RunSt) (hst : StEq ex st st') :
    StepRel ex next next' (step M obj len rb op.toNat arg next stack st)
      (step M' obj len' rb' op.toNat arg next' stack st') := by
  obtain ⟨env, out, polls, depth⟩ := st
  obtain ⟨env', out', polls', depth'⟩ := st'
  obtain ⟨h1, h2, h3, h4⟩ := hst
  simp only at h1 h2 h3 h4
  subst h1 h2 h3
  unfold step
  simp only [WF.Op.ofNat_toNat, hM.consts, binop_congr hM.fns, callMatch_congr hM.fns]
  cases op <;> simp only [isBinary, Bool.false_eq_true, ↓reduceIte] <;>
    (first | (exfalso; simp at hop; done) | skip) <;>
    (repeat' split) <;> (first | (simp_all [StepRel, StEq]; done) | trace_state)

end EvalFilter.OptSim
