/-
  The values the maths pass of the optimizer writes are the values the VM computes
  (for all operands; used by C03 and by the soundness proof of the rewrite validator).
-/
import EvalFilter.Model.VM
import EvalFilter.Model.OptCheck

namespace EvalFilter.OptFold
open EvalFilter EvalFilter.VM

variable (M : Machine)

/-- what OpPush leaves on the stack for an operand `n` -/
def pushed (n : Nat) : Value := .int (Int64.ofNat n)

theorem fold_add (a b : Nat) : binop M .add (pushed b) (pushed a) = .ok (pushed (a + b), []) := by
  simp [binop, intOp, pushed, Except.map, Int64.ofNat_add, Int64.add_comm]

theorem fold_mul (a b : Nat) : binop M .mul (pushed b) (pushed a) = .ok (pushed (a * b), []) := by
  simp [binop, intOp, pushed, Except.map, Int64.ofNat_mul, Int64.mul_comm]

theorem fold_sub (a b : Nat) (h : a ≤ b) : binop M .sub (pushed b) (pushed a) = .ok (pushed (b - a), []) := by
  simp [binop, intOp, pushed, Except.map, Int64.ofNat_sub b a h]

theorem fold_div (a b : Nat) (ha : a ≠ 0) (ha' : a < 65536) (hb : b < 65536) :
    binop M .div (pushed b) (pushed a) = .ok (pushed (b / a), []) := by
  have hne : (Int64.ofNat a == 0) = false := by
    have : Int64.ofNat a ≠ 0 := by
      intro h
      have := congrArg Int64.toInt h
      rw [Int64.toInt_ofNat_of_lt (by omega)] at this
      simp at this; omega
    simpa using this
  simp [binop, intOp, pushed, Except.map, hne, Int64.ofNat_div (a := b) (b := a) (by omega) (by omega)]

theorem ofNat_inj_small {a b : Nat} (ha : a < 65536) (hb : b < 65536) (h : Int64.ofNat a = Int64.ofNat b) : a = b := by
  have := congrArg Int64.toInt h
  rw [Int64.toInt_ofNat_of_lt (by omega), Int64.toInt_ofNat_of_lt (by omega)] at this
  omega

theorem fold_equal (a b : Nat) (ha : a < 65536) (hb : b < 65536) :
    binop M .equal (pushed b) (pushed a) = .ok (.bool (a == b), []) ∧
    binop M .notEqual (pushed b) (pushed a) = .ok (.bool (a != b), []) := by
  by_cases h : a = b
  · subst h; simp [binop, intOp, pushed, Except.map, vbool]
  · have hne : Int64.ofNat b ≠ Int64.ofNat a := fun e => h (ofNat_inj_small hb ha e).symm
    have hne' : (Int64.ofNat b == Int64.ofNat a) = false := by simpa using hne
    simp [binop, intOp, pushed, Except.map, vbool, hne', h, bne]

/-- whatever `foldResult` says the maths pass writes, the VM computes -/
theorem foldResult_sound (o : Op) (a b r : Nat) (h : OptCheck.foldResult o a b = some r) (ha : a < 65536) (hb : b < 65536) :
    isBinary o = true ∧ binop M o (pushed b) (pushed a) = .ok (pushed r, []) := by
  unfold OptCheck.foldResult at h
  cases o <;> simp at h
  · subst h; exact ⟨rfl, fold_add M a b⟩
  · obtain ⟨h1, rfl⟩ := h; exact ⟨rfl, fold_sub M a b h1⟩
  · subst h; exact ⟨rfl, fold_mul M a b⟩
  · obtain ⟨h1, rfl⟩ := h; exact ⟨rfl, fold_div M a b h1 ha hb⟩

end EvalFilter.OptFold
