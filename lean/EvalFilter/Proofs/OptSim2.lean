import EvalFilter.Proofs.OptSim1
set_option linter.unusedSimpArgs false
set_option linter.unusedVariables false
namespace EvalFilter.OptSim
open EvalFilter EvalFilter.VM

/-- the state a user function's body is entered with -/
def calleeSt (uf : UserFn) (args : List Value) (st : RunSt) : RunSt :=
  { st with env := (uf.params.zip args).foldl (fun e (p : Str × Value) => e.declare p.1 p.2) st.env.addScope,
            depth := st.depth + 1 }

/-- the body (and entry state) that the instruction about to run hands to the nested run, if any -/
def calleeOf (M : Machine) (op : Op) (arg : Nat) (stack : List Value) (st : RunSt) : Option (Bytes × RunSt) :=
  if op = .call then
    match stack with
    | fname :: rest0 =>
      match popN arg rest0 with
      | none => none
      | some (args, _) =>
        match lookupFn M fname.inspect with
        | some _ => none
        | none =>
          match lookupUser M fname.inspect with
          | none => none
          | some uf =>
            if st.depth ≥ maxCallDepth then none
            else if uf.params.length != args.length then none
            else if uf.code.isEmpty then none
            else some (uf.code, calleeSt uf args st)
    | [] => none
  else none

theorem invoke_eq (rb : Bytes → RunSt → Res × RunSt) (uf : UserFn) (args : List Value) (st : RunSt) :
    invoke rb uf args st =
      if st.depth ≥ maxCallDepth then (err "callDepth", st)
      else if uf.params.length != args.length then
        (err "argCount", { st with env := st.env.addScope })
      else if uf.code.isEmpty then
        (err "emptyProgram", { st with env := (uf.params.zip args).foldl (fun e (p : Str × Value) => e.declare p.1 p.2) st.env.addScope })
      else
        let r := finish ((uf.params.zip args).foldl (fun e (p : Str × Value) => e.declare p.1 p.2) st.env.addScope).scopes.length
                  (rb uf.code (calleeSt uf args st))
        (r.1, { r.2 with depth := st.depth }) := by
  unfold invoke calleeSt
  simp only []

/-- an instruction consults the nested run only at `calleeOf` -/
theorem step_rb_congr (M : Machine) (obj : HostVal) (len : Nat) (rb rb2 : Bytes → RunSt → Res × RunSt)
    (op : Op) (arg next : Nat) (stack : List Value) (st : RunSt)
    (h : ∀ c s, calleeOf M op arg stack st = some (c, s) → rb c s = rb2 c s) :
    step M obj len rb op.toNat arg next stack st = step M obj len rb2 op.toNat arg next stack st := by
  by_cases hop : op = .call
  · subst hop
    unfold step
    simp only [WF.Op.ofNat_toNat, isBinary, Bool.false_eq_true, ↓reduceIte]
    cases stack with
    | nil => rfl
    | cons fname rest0 =>
      simp only []
      cases hp : popN arg rest0 with
      | none => rfl
      | some p =>
        obtain ⟨args, rest⟩ := p
        simp only []
        cases hf : lookupFn M fname.inspect with
        | some f => rfl
        | none =>
          simp only []
          cases hu : lookupUser M fname.inspect with
          | none => rfl
          | some uf =>
            simp only []
            have hinv : invoke rb uf args st = invoke rb2 uf args st := by
              rw [invoke_eq, invoke_eq]
              by_cases h1 : st.depth ≥ maxCallDepth
              · simp [h1]
              · by_cases h2 : (uf.params.length != args.length) = true
                · simp [h1, h2]
                · by_cases h3 : uf.code.isEmpty = true
                  · simp [h1, h2, h3]
                  · have := h uf.code (calleeSt uf args st) (by
                      simp only [calleeOf, ↓reduceIte, hp, hf, hu]
                      simp [h1, h2, h3])
                    simp only [h1, h2, h3, ↓reduceIte, this]
            rw [hinv]
  · unfold step
    simp only [WF.Op.ofNat_toNat]
    cases op <;> first | rfl | exact absurd rfl hop

end EvalFilter.OptSim

namespace EvalFilter.OptSim
open EvalFilter EvalFilter.VM

theorem calleeSt_congr {ex : Bool} {uf uf' : UserFn} (hp : uf'.params = uf.params) (args : List Value) {st st' : RunSt}
    (h : StEq ex st st') : StEq ex (calleeSt uf args st) (calleeSt uf' args st') := by
  obtain ⟨h1, h2, h3, h4⟩ := h
  unfold calleeSt
  refine ⟨?_, h2, ?_, h4⟩
  · simp only [hp, h1]
  · simp only [h3]

/-- what the two machines hand to the nested run is related -/
theorem calleeOf_rel {ex : Bool} {B : Bytes → Bytes → Prop} {M M' : Machine} (hM : MRel B M M') (op : Op) (arg : Nat)
    (stack : List Value) {st st' : RunSt} (hst : StEq ex st st') :
    (calleeOf M op arg stack st = none ∧ calleeOf M' op arg stack st' = none) ∨
    ∃ c s c' s', calleeOf M op arg stack st = some (c, s) ∧ calleeOf M' op arg stack st' = some (c', s') ∧
      B c c' ∧ StEq ex s s' := by
  unfold calleeOf
  by_cases hop : op = .call
  · simp only [hop, ↓reduceIte]
    cases stack with
    | nil => left; exact ⟨rfl, rfl⟩
    | cons fname rest0 =>
      simp only []
      cases hp : popN arg rest0 with
      | none => left; exact ⟨rfl, rfl⟩
      | some p =>
        obtain ⟨args, rest⟩ := p
        have hfn : lookupFn M' fname.inspect = lookupFn M fname.inspect := by unfold lookupFn; rw [hM.fns]
        simp only [hfn]
        cases hf : lookupFn M fname.inspect with
        | some f => left; exact ⟨rfl, rfl⟩
        | none =>
          simp only []
          rcases hM.user fname.inspect with ⟨h1, h2⟩ | ⟨u, u', h1, h2, hpar, hB, hemp⟩
          · rw [h1, h2]; left; exact ⟨rfl, rfl⟩
          · rw [h1, h2]
            simp only [hpar, hemp, ← hst.2.2.1]
            by_cases g1 : st.depth ≥ maxCallDepth
            · simp [g1]
            · by_cases g2 : (u.params.length != args.length) = true
              · simp [g1, g2]
              · by_cases g3 : u.code.isEmpty = true
                · simp [g1, g2, g3]
                · right
                  refine ⟨u.code, calleeSt u args st, u'.code, calleeSt u' args st', ?_, ?_, hB, calleeSt_congr hpar args hst⟩
                  · simp [g1, g2, g3]
                  · simp [g1, g2, g3]
  · left; simp [hop]

theorem StEq.mk' {ex : Bool} {e : Env} {o : Str} {p p' d : Nat} (h : ex = true → p = p') :
    StEq ex ⟨e, o, p, d⟩ ⟨e, o, p', d⟩ := ⟨rfl, rfl, rfl, h⟩

theorem step_congr_call (ex : Bool) {B : Bytes → Bytes → Prop} {M M' : Machine} (hM : MRel B M M') (obj : HostVal)
    (len len' : Nat) (rb rb' : Bytes → RunSt → Res × RunSt) (arg next next' : Nat) (stack : List Value)
    (st st' : RunSt) (hst : StEq ex st st')
    (hrb : ∀ c s c' s', calleeOf M .call arg stack st = some (c, s) → calleeOf M' .call arg stack st' = some (c', s') →
      OutEq ex (rb c s) (rb' c' s')) :
    StepRel ex next next' (step M obj len rb Op.call.toNat arg next stack st)
      (step M' obj len' rb' Op.call.toNat arg next' stack st') := by
  obtain ⟨env, out, polls, depth⟩ := st
  obtain ⟨env', out', polls', depth'⟩ := st'
  obtain ⟨q1, q2, q3, q4⟩ := hst
  simp only at q1 q2 q3 q4
  subst q1 q2 q3
  unfold step
  simp only [WF.Op.ofNat_toNat, isBinary, Bool.false_eq_true, ↓reduceIte]
  cases stack with
  | nil => exact ⟨rfl, StEq.mk' q4⟩
  | cons fname rest0 =>
    simp only []
    cases hp : popN arg rest0 with
    | none => exact ⟨rfl, StEq.mk' q4⟩
    | some p =>
      obtain ⟨args, rest⟩ := p
      have hfn : lookupFn M' fname.inspect = lookupFn M fname.inspect := by unfold lookupFn; rw [hM.fns]
      simp only [hfn]
      cases hf : lookupFn M fname.inspect with
      | some f =>
        simp only []
        cases hr : (callImpl fname.inspect f args).res with
        | panic => exact ⟨rfl, StEq.mk' q4⟩
        | unsupported => exact ⟨rfl, StEq.mk' q4⟩
        | val v => cases v <;> first | exact ⟨rfl, StEq.mk' q4⟩ | exact ⟨rfl, rfl, rfl, StEq.mk' q4⟩
      | none =>
        simp only []
        rcases hM.user fname.inspect with ⟨h1, h2⟩ | ⟨u, u', h1, h2, hpar, hB, hemp⟩
        · rw [h1, h2]; exact ⟨rfl, StEq.mk' q4⟩
        · rw [h1, h2]
          simp only []
          have hco := hrb u.code (calleeSt u args ⟨env, out, polls, depth⟩) u'.code (calleeSt u' args ⟨env, out, polls', depth⟩)
          have hinv : OutEq ex (invoke rb u args ⟨env, out, polls, depth⟩) (invoke rb' u' args ⟨env, out, polls', depth⟩) := by
            rw [invoke_eq, invoke_eq]
            simp only [hpar, hemp]
            by_cases g1 : depth ≥ maxCallDepth
            · simp only [g1, ↓reduceIte]; exact ⟨rfl, StEq.mk' q4⟩
            · by_cases g2 : (u.params.length != args.length) = true
              · simp only [g1, g2, ↓reduceIte, Bool.false_eq_true]
                exact ⟨rfl, StEq.mk' q4⟩
              · by_cases g3 : u.code.isEmpty = true
                · simp only [g1, g2, g3, ↓reduceIte, Bool.false_eq_true]
                  exact ⟨rfl, StEq.mk' q4⟩
                · simp only [g1, g2, g3, ↓reduceIte, Bool.false_eq_true]
                  have hc := hco (by simp [calleeOf, hp, hf, h1, g1, g2, g3])
                    (by simp [calleeOf, hp, hfn, hf, h2, hpar, hemp, g1, g2, g3])
                  obtain ⟨e1, e2, e3, e4, e5⟩ := hc
                  refine ⟨e1, ?_⟩
                  simp only [finish]
                  exact ⟨by rw [e2], e3, rfl, e5⟩
          revert hinv
          generalize invoke rb u args ⟨env, out, polls, depth⟩ = x
          generalize invoke rb' u' args ⟨env, out, polls', depth⟩ = x'
          intro hinv
          obtain ⟨r, s1⟩ := x
          obtain ⟨r', s1'⟩ := x'
          obtain ⟨e1, e2⟩ := hinv
          simp only at e1 e2
          subst e1
          cases r with
          | error e => exact ⟨rfl, e2⟩
          | ok v =>
            simp only [e2.1]
            cases s1'.env.removeScope with
            | none => exact ⟨rfl, e2⟩
            | some env2 => exact ⟨rfl, rfl, rfl, rfl, e2.2.1, e2.2.2.1, e2.2.2.2⟩
end EvalFilter.OptSim
