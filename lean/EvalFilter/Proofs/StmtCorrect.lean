/-
  Compiler + VM correctness for statements: assignments, if / else, while and return over
  value-producing expressions, blocks of them nested to any depth.  The big-step semantics `execSs`
  says which statements run and in what order; the theorem says the compiled code, placed anywhere in a
  program, does exactly that: the block falls through with the variables and output the semantics
  gives, or `return` ends the script at once with its value, or the first error ends it.
-/
import EvalFilter.Proofs.ExprCorrect

set_option linter.unusedSimpArgs false
set_option linter.unusedVariables false

namespace EvalFilter.Exec
open EvalFilter EvalFilter.VM EvalFilter.Compiler

/-- how a statement (or a block) ends -/
inductive Outcome
  | normal (env : Env) (out : Str)                   -- falls through to what follows
  | returned (v : Value) (env : Env) (out : Str)     -- `return` ended the script with `v`
  | failed (e : Err) (env : Env) (out : Str)         -- a run-time error ended the script
  | diverged                                         -- the step budget of the semantics ran out

/-- a user-defined function as written -/
structure SFn where
  name : Str
  params : List Str
  body : List Stmt

/-- the functions of a script, in the order the compiler registers them -/
abbrev FnTable := List SFn

def FnTable.find (F : FnTable) (name : Str) : Option SFn := F.reverse.find? (fun g => g.name == name)

/-- the two postfix operators -/
def isIncDec (op : Str) : Bool := op == ['+', '+'] || op == ['-', '-']

mutual
  /-- statement forms covered: assignment of a value-producing expression, if / else, while, over
      value-producing conditions -/
  def stmtE : Expr → Bool
    | .assign _ (.call _ args) => pureEs args
    | .call _ args => pureEs args
    | .funcDef _ _ body => pureSs body
    | .localE _ => true
    | .assign _ v => pureE v
    | .ifE c cons none => pureE c && pureSs cons
    | .ifE c cons (some a) => pureE c && pureSs cons && pureSs a
    | .whileE c body => pureE c && pureSs body
    | .foreachE _ _ v body => pureE v && pureSs body
    | .switchE v cs => pureE v && pureCases cs
    | .infix op (.ident _) r => isCompound op && pureE r
    | _ => false
  def pureCases : List Case → Bool
    | [] => true
    | .mk _ es b :: cs => pureEs es && pureSs b && pureCases cs
  def pureS : Stmt → Bool
    | .ret (.call _ args) => pureEs args
    | .ret e => pureE e
    | .expr e => stmtE e
  /-- `x++;` is parsed as TWO statements - the operand (any value-producing expression), which leaves its
      value on the stack, and the postfix operator, which takes it off again - so the pair is one unit -/
  def pureSs : List Stmt → Bool
    | [] => true
    | .expr e :: .expr (.postfix _ op) :: ss => isIncDec op && pureE e && pureSs ss
    | s :: ss => pureS s && pureSs ss
end

/-- what OpIterationReset makes of the value to iterate over -/
def resetVal : Value → Res
  | .array els => .ok (.array els)
  | .str s => .ok (.str s)
  | .hash ps => .ok (.hash ps)
  | .iterating inner _ => .ok inner
  | .nil => .error .panic
  | _ => err "notIterable"

/-- an error of the expression semantics ends the statement - unless it is the marker of "outside the
    expression semantics", for which the statement semantics defines no outcome either -/
def failE (e : Err) (env : Env) (o : Str) : Outcome := if e = undefErr then .diverged else .failed e env o

theorem failE_ne {e : Err} (h : e ≠ undefErr) (env : Env) (o : Str) : failE e env o = .failed e env o := by
  simp [failE, h]

/-- what `++` / `--` do to the variable `name`: an integer or float is replaced by a fresh value one more
    or less; anything else is an error -/
def incDecEnv (obj : HostVal) (env : Env) (name : Str) (inc : Bool) : Except Err Env :=
  match lookup obj env name with
  | .error e => .error e
  | .ok (.int i) => .ok (env.set name (.int (if inc then i + 1 else i - 1)))
  | .ok (.float x) => .ok (env.set name (.float (if inc then x + 1 else x - 1)))
  | .ok _ => .error (.error (if inc then "incType" else "decType"))

/-- how a call ends: with a value (possibly the void value, which is not pushed), with an error, or not
    at all within the budget -/
inductive CallOut
  | value (v : Value) (env : Env) (out : Str)
  /-- the function returned nothing (the void value): nothing is pushed -/
  | novalue (env : Env) (out : Str)
  | failed (e : Err) (env : Env) (out : Str)
  | undefined

/-- the end of a user-function call: the function's own scope is closed -/
def callEnd (v : Value) (env : Env) (out : Str) : CallOut :=
  match env.removeScope with
  | none => .failed (.error "removeScope") env out
  | some e => if v.isType .VOID then .novalue e out else .value v e out

/-- a call: the arguments left to right; a built-in or host function of that name wins over a
    user-defined one; a user-defined function runs its body (`run`) in a new scope holding its parameters - unless `maxCallDepth`
    calls are already open (`deep`), which is an error -,
    a `return` gives the value, falling off the end gives none (void); its scopes are closed afterwards -/
def callWith (deep : Bool) (run : List Stmt → Env → Str → Outcome) (M : Machine) (F : FnTable) (obj : HostVal)
    (name : Str) (args : List Expr) (env : Env) (out : Str) : CallOut :=
  match evalEs M obj env args out with
  | (.error e, o) => if e = undefErr then .undefined else .failed e env o
  | (.ok vs, o) =>
    match lookupFn M name with
    | some impl =>
      (match (callImpl name impl vs).res with
       | .panic => .failed .panic env (o ++ (callImpl name impl vs).out)
       | .unsupported => .failed .unsupported env (o ++ (callImpl name impl vs).out)
       | .val .nil => .failed .panic env (o ++ (callImpl name impl vs).out)
       | .val .void => .novalue env (o ++ (callImpl name impl vs).out)
       | .val v => .value v env (o ++ (callImpl name impl vs).out))
    | none =>
      match F.find name with
      | none => .failed (.error "noSuchFunction") env o
      | some sf =>
        if deep then .failed (.error "callDepth") env o
        else if sf.params.length != vs.length then .failed (.error "argCount") env.addScope o
        else
          match run sf.body ((sf.params.zip vs).foldl (fun e (p : Str × Value) => e.declare p.1 p.2) env.addScope) o with
          | .diverged => .undefined
          | .failed e env' o' => .failed e (env'.truncate ((sf.params.zip vs).foldl (fun e (p : Str × Value) => e.declare p.1 p.2) env.addScope).scopes.length) o'
          | .returned v env' o' => callEnd v (env'.truncate ((sf.params.zip vs).foldl (fun e (p : Str × Value) => e.declare p.1 p.2) env.addScope).scopes.length) o'
          | .normal env' o' => callEnd .void (env'.truncate ((sf.params.zip vs).foldl (fun e (p : Str × Value) => e.declare p.1 p.2) env.addScope).scopes.length) o'

/-- what OpCase decides: same type and text; else, for a regexp case, the match; else false -/
def caseOp (M : Machine) (val caseVal : Value) : Except Err (Value × Str) :=
  if sameTypeAndText val caseVal then .ok (.bool true, [])
  else if caseVal.isType .REGEXP then callMatch M val caseVal
  else .ok (.bool false, [])

/-- how the tests of a switch end: the switch is over (a block ran, or something failed), or no case
    matched so far -/
inductive ArmOut
  | done (o : Outcome)
  | next (env : Env) (out : Str)

mutual
  /-- big-step semantics of statements, with a step budget for loops: a statement runs after the one
      before it fell through; `return` ends everything at once with its value; a loop body runs once per
      turn while the condition is truthy -/
  def execE (M : Machine) (F : FnTable) (obj : HostVal) (depth : Nat) : Nat → Expr → Env → Str → Outcome
    | 0, _, _, _ => .diverged
    | _ + 1, .funcDef _ _ _, env, out => .normal env out   -- defining a function does nothing at run time
    | _ + 1, .localE name, env, out => .normal (env.declare name .null) out   -- `local x;`: x is null in the innermost scope
    | f + 1, .assign name (.call fn args), env, out =>
        -- `name = fn(args)`: a call that yields no value has none to assign (no outcome is defined)
        match callWith (decide (depth ≥ maxCallDepth)) (fun b e o => execSs M F obj (depth + 1) f b e o) M F obj fn.str args env out with
        | .value v env' out' => .normal (env'.set name v) out'
        | .novalue _ _ => .diverged
        | .failed e env' out' => .failed e env' out'
        | .undefined => .diverged
    | f + 1, .call fn args, env, out =>
        -- `fn(args);`: a procedure call; a value would be left on the stack (no outcome is defined)
        match callWith (decide (depth ≥ maxCallDepth)) (fun b e o => execSs M F obj (depth + 1) f b e o) M F obj fn.str args env out with
        | .value _ _ _ => .diverged
        | .novalue env' out' => .normal env' out'
        | .failed e env' out' => .failed e env' out'
        | .undefined => .diverged
    | _ + 1, .assign name v, env, out =>
        match evalE M obj env v out with
        | (.ok x, o) => .normal (env.set name x) o
        | (.error e, o) => failE e env o
    | f + 1, .ifE c cons alt, env, out =>
        match evalE M obj env c out with
        | (.error e, o) => failE e env o
        | (.ok cv, o) =>
          if cv.truthy then execSs M F obj depth f cons env o
          else match alt with
            | none => .normal env o
            | some a => execSs M F obj depth f a env o
    | f + 1, .whileE c body, env, out =>
        match evalE M obj env c out with
        | (.error e, o) => failE e env o
        | (.ok cv, o) =>
          if cv.truthy then
            match execSs M F obj depth f body env o with
            | .normal env' o' => execE M F obj depth f (.whileE c body) env' o'
            | other => other
          else .normal env o
    | f + 1, .foreachE idx x v body, env, out =>
        match evalE M obj env v out with
        | (.error e, o) => failE e env o
        | (.ok iv, o) =>
          match resetVal iv with
          | .ok it => execIter M F obj depth f idx x body it 0 env.addScope o
          | .error e => .failed e env.addScope o
    | _ + 1, .infix op (.ident name) r, env, out =>
        -- compound assignment `name op= r`: the variable's value, then `r`, then the operator; the result is stored
        match compoundOp op with
        | none => .failed .unsupported env out
        | some o =>
          match evalE M obj env (.ident name) out with
          | (.error e, o1) => failE e env o1
          | (.ok lv, o1) =>
            match evalE M obj env r o1 with
            | (.error e, o2) => failE e env o2
            | (.ok rv, o2) =>
              match binop M o lv rv with
              | .error e => .failed e env o2
              | .ok (v, o3) => .normal (env.set name v) (o2 ++ o3)
    | f + 1, .switchE v cs, env, out =>
        match execArms M F obj depth f v cs env out with
        | .done o => o
        | .next env' out' => execDefaults M F obj depth f cs env' out'
    | _ + 1, _, env, out => .failed .unsupported env out
  termination_by structural f => f
  /-- the non-default cases of a switch in source order: the first case expression that matches the value
      (which is evaluated anew for every test) selects the block; after it the switch is over -/
  def execArms (M : Machine) (F : FnTable) (obj : HostVal) (depth : Nat) : Nat → Expr → List Case → Env → Str → ArmOut
    | 0, _, _, _, _ => .done .diverged
    | _ + 1, _, [], env, out => .next env out
    | f + 1, v, .mk isDef es b :: rest, env, out =>
        if isDef then execArms M F obj depth f v rest env out
        else
          match execArm M F obj depth f v es b env out with
          | .done o => .done o
          | .next env' out' => execArms M F obj depth f v rest env' out'
  termination_by structural f => f
  /-- the expressions of one `case a, b, c { … }`, left to right -/
  def execArm (M : Machine) (F : FnTable) (obj : HostVal) (depth : Nat) : Nat → Expr → List Expr → List Stmt → Env → Str → ArmOut
    | 0, _, _, _, _, _ => .done .diverged
    | _ + 1, _, [], _, env, out => .next env out
    | f + 1, v, e :: es, b, env, out =>
        match evalE M obj env v out with
        | (.error x, o) => .done (failE x env o)
        | (.ok vv, o1) =>
          match evalE M obj env e o1 with
          | (.error x, o) => .done (failE x env o)
          | (.ok ev, o2) =>
            match caseOp M vv ev with
            | .error x => .done (.failed x env o2)
            | .ok (t, o3) =>
              if t.truthy then .done (execSs M F obj depth f b env (o2 ++ o3))
              else execArm M F obj depth f v es b env (o2 ++ o3)
  termination_by structural f => f
  /-- the default blocks (reached when no case matched), in source order -/
  def execDefaults (M : Machine) (F : FnTable) (obj : HostVal) (depth : Nat) : Nat → List Case → Env → Str → Outcome
    | 0, _, _, _ => .diverged
    | _ + 1, [], env, out => .normal env out
    | f + 1, .mk isDef _ b :: rest, env, out =>
        if isDef then
          match execSs M F obj depth f b env out with
          | .normal env' o' => execDefaults M F obj depth f rest env' o'
          | other => other
        else execDefaults M F obj depth f rest env out
  termination_by structural f => f
  /-- the turns of a foreach loop over `it`, from offset `k`: each element is bound (with its index or
      key when an index variable was given) in the loop's scope and the body runs; when no element is left
      the loop's scope is closed -/
  def execIter (M : Machine) (F : FnTable) (obj : HostVal) (depth : Nat) : Nat → Str → Str → List Stmt → Value → Nat → Env → Str → Outcome
    | 0, _, _, _, _, _, _, _ => .diverged
    | f + 1, idx, x, body, it, k, env, out =>
        match iterNext it k with
        | some (val, i) =>
          let env1 := env.declare x val
          let env2 := if idx.isEmpty then env1 else env1.declare idx i
          match execSs M F obj depth f body env2 out with
          | .normal env3 o3 => execIter M F obj depth f idx x body it (k + 1) env3 o3
          | other => other
        | none =>
          match env.removeScope with
          | none => .failed (.error "removeScope") env out
          | some e => .normal e out
  termination_by structural f => f
  def execS (M : Machine) (F : FnTable) (obj : HostVal) (depth : Nat) : Nat → Stmt → Env → Str → Outcome
    | 0, _, _, _ => .diverged
    | f + 1, .ret (.call fn args), env, out =>
        match callWith (decide (depth ≥ maxCallDepth)) (fun b e o => execSs M F obj (depth + 1) f b e o) M F obj fn.str args env out with
        | .value v env' out' => .returned v env' out'
        | .novalue _ _ => .diverged
        | .failed e env' out' => .failed e env' out'
        | .undefined => .diverged
    | _ + 1, .ret e, env, out =>
        match evalE M obj env e out with
        | (.ok v, o) => .returned v env o
        | (.error x, o) => failE x env o
    | f + 1, .expr e, env, out => execE M F obj depth f e env out
  termination_by structural f => f
  def execSs (M : Machine) (F : FnTable) (obj : HostVal) (depth : Nat) : Nat → List Stmt → Env → Str → Outcome
    | 0, _, _, _ => .diverged
    | _ + 1, [], env, out => .normal env out
    | f + 1, .expr e :: .expr (.postfix name op) :: ss, env, out =>
        -- `e op;` with op one of ++ / --: the operand is evaluated (its value is dropped), then the variable
        -- the operator names - the text before it - is looked up and replaced
        match evalE M obj env e out with
        | (.error x, o) => failE x env o
        | (.ok _, o) =>
          match incDecEnv obj env name (op == ['+', '+']) with
          | .error x => .failed x env o
          | .ok env' => execSs M F obj depth f ss env' o
    | f + 1, s :: ss, env, out =>
        match execS M F obj depth f s env out with
        | .normal env' o' => execSs M F obj depth f ss env' o'
        | other => other
  termination_by structural f => f
end


/-- the list starts with an operand-and-postfix-operator pair -/
def IsPair (s : Stmt) (ss : List Stmt) : Prop := ∃ e n op rest, s = .expr e ∧ ss = .expr (.postfix n op) :: rest

theorem pureSs_other (s : Stmt) (ss : List Stmt) (h : ¬ IsPair s ss) : pureSs (s :: ss) = (pureS s && pureSs ss) := by
  cases s with
  | ret e => rfl
  | expr e =>
    cases ss with
    | nil => rfl
    | cons s2 rest =>
      cases s2 with
      | ret e2 => rfl
      | expr e2 => cases e2 <;> first | rfl | exact absurd ⟨_, _, _, _, rfl, rfl⟩ h

theorem execSs_other (M : Machine) (F : FnTable) (obj : HostVal) (depth f : Nat) (s : Stmt) (ss : List Stmt) (env : Env) (out : Str)
    (h : ¬ IsPair s ss) :
    execSs M F obj depth (f + 1) (s :: ss) env out =
      (match execS M F obj depth f s env out with
       | .normal env' o' => execSs M F obj depth f ss env' o'
       | other => other) := by
  cases s with
  | ret e => simp only [execSs]
  | expr e =>
    cases ss with
    | nil => simp only [execSs]
    | cons s2 rest =>
      cases s2 with
      | ret e2 => simp only [execSs]
      | expr e2 => cases e2 <;> first | (simp only [execSs]; done) | exact absurd ⟨_, _, _, _, rfl, rfl⟩ h

/-- what OpInc / OpDec do: the looked-up value on the stack is dropped, the variable named by the constant
    is replaced -/
theorem step_incdec (M : Machine) (obj : HostVal) (len : Nat) (rb : Bytes → RunSt → Res × RunSt) (arg next : Nat)
    (inc : Bool) (top : Value) (stack : List Value) (st : RunSt) (c : Value) (hc : M.consts[arg]? = some c) :
    step M obj len rb (if inc then Op.inc else Op.dec).toNat arg next (top :: stack) st =
      (match incDecEnv obj st.env c.inspect inc with
       | .error e => .halt (.error e) st
       | .ok env' => .cont next stack { st with env := env' }) := by
  cases inc with
  | true =>
    have : Op.ofNat? Op.inc.toNat = some .inc := rfl
    simp only [↓reduceIte, step, this, isBinary, hc, incDecEnv]
    cases lookup obj st.env c.inspect with
    | error e => rfl
    | ok v => cases v <;> simp [err]
  | false =>
    have : Op.ofNat? Op.dec.toNat = some .dec := rfl
    simp only [Bool.false_eq_true, ↓reduceIte, step, this, isBinary, hc, incDecEnv]
    cases lookup obj st.env c.inspect with
    | error e => rfl
    | ok v => cases v <;> simp [err]

/-- where the VM stands after the code of a statement, according to its outcome -/
def afterS (M : Machine) (obj : HostVal) (code : Bytes) (fuel ip : Nat) (stack : List Value)
    (polls depth : Nat) : Outcome → Res × RunSt
  | .normal env out => loop M obj code fuel ip stack ⟨env, out, polls, depth⟩
  | .returned v env out => (.ok v, ⟨env, out, polls, depth⟩)
  | .failed e env out => (.error e, ⟨env, out, polls, depth⟩)
  | .diverged => (.error .outOfFuel, ⟨⟨[], []⟩, [], polls, depth⟩)

/-- where the VM stands after the tests of a switch: at `endPos` if the switch is over, at `nextPos` if
    nothing matched -/
def afterA (M : Machine) (obj : HostVal) (code : Bytes) (fuel endPos nextPos : Nat) (stack : List Value)
    (polls depth : Nat) : ArmOut → Res × RunSt
  | .done o => afterS M obj code fuel endPos stack polls depth o
  | .next env out => loop M obj code fuel nextPos stack ⟨env, out, polls, depth⟩

/-- glue with an offset: after `n1` turns the run stands at `f` with `e1` more fuel than counted -/
theorem chainE {M : Machine} {obj : HostVal} {code : Bytes} {n1 e1 ip : Nat} {stack : List Value} {st : RunSt}
    {f g : Nat → Res × RunSt} (h1 : ∀ fuel, loop M obj code (fuel + n1) ip stack st = f (fuel + e1)) (n2 : Nat)
    (h2 : ∀ fuel, f (fuel + n2) = g fuel) : ∀ fuel, loop M obj code (fuel + (n2 + n1)) ip stack st = g (fuel + e1) := by
  intro fuel
  rw [← Nat.add_assoc, h1 (fuel + n2), show fuel + n2 + e1 = (fuel + e1) + n2 by omega, h2]

theorem finish_instrE {M : Machine} {obj : HostVal} {code : Bytes} {n1 e1 ip0 ip : Nat} {stack0 stack : List Value}
    {st0 : RunSt} {env : Env} {out : Str} {polls depth : Nat} {i : Instr} {rest : List Instr}
    (h1 : ∀ fuel, loop M obj code (fuel + n1) ip0 stack0 st0 = loop M obj code (fuel + e1) ip stack ⟨env, out, polls, depth⟩)
    (hc : CodeAt code ip (i :: rest)) (hM : NeverDone M) (harg : storedArg i = i.arg ∨ i.op.length = 1)
    (a : Nat) (ha : a = storedArg i) (g : Nat → Res × RunSt)
    (hstep : ∀ fuel, (match step M obj code.length (fun c s => loop M obj c fuel 0 [] s) i.op.toNat a (ip + i.size) stack
              ⟨env, out, polls + 1, depth⟩ with
       | .cont ip' stack' st' => loop M obj code fuel ip' stack' st'
       | .halt r st' => (r, st')) = g fuel) :
    ∀ fuel, loop M obj code (fuel + (1 + n1)) ip0 stack0 st0 = g (fuel + e1) := by
  apply chainE (f := fun x => loop M obj code x ip stack ⟨env, out, polls, depth⟩) h1 1
  intro fuel
  rw [run_instr M obj hc hM harg stack env out polls depth fuel a ha]
  exact hstep fuel

/-- one more instruction after a run that stands at `ip` with `e1` more fuel than counted -/
theorem stepE {M : Machine} {obj : HostVal} {code : Bytes} {n1 e1 ip0 ip : Nat} {stack0 stack : List Value}
    {st0 : RunSt} {env : Env} {out : Str} {polls depth : Nat} {i : Instr} {rest : List Instr}
    (h1 : ∀ fuel, loop M obj code (fuel + n1) ip0 stack0 st0 = loop M obj code (fuel + e1) ip stack ⟨env, out, polls, depth⟩)
    (hc : CodeAt code ip (i :: rest)) (hM : NeverDone M) (harg : storedArg i = i.arg ∨ i.op.length = 1)
    (a : Nat) (ha : a = storedArg i) (fuel : Nat) :
    loop M obj code (fuel + (1 + n1)) ip0 stack0 st0 =
      (match step M obj code.length (fun c s => loop M obj c (fuel + e1) 0 [] s) i.op.toNat a (ip + i.size) stack
              ⟨env, out, polls + 1, depth⟩ with
       | .cont ip' stack' st' => loop M obj code (fuel + e1) ip' stack' st'
       | .halt r st' => (r, st')) := by
  rw [← Nat.add_assoc, h1 (fuel + 1), show fuel + 1 + e1 = (fuel + e1) + 1 by omega,
    run_instr M obj hc hM harg stack env out polls depth (fuel + e1) a ha]
  rfl

theorem step_case_ok (M : Machine) (obj : HostVal) (len : Nat) (rb : Bytes → RunSt → Res × RunSt) (arg next : Nat)
    (caseVal val t : Value) (o : Str) (stack : List Value) (st : RunSt) (h : caseOp M val caseVal = .ok (t, o)) :
    step M obj len rb Op.case.toNat arg next (caseVal :: val :: stack) st =
      .cont next (t :: stack) { st with out := st.out ++ o } := by
  have : Op.ofNat? Op.case.toNat = some .case := rfl
  simp only [step, this, isBinary]
  unfold caseOp at h
  by_cases h1 : sameTypeAndText val caseVal = true
  · simp only [h1, ↓reduceIte, Except.ok.injEq, Prod.mk.injEq] at h
    obtain ⟨rfl, rfl⟩ := h
    simp [h1]
  · simp only [h1, Bool.false_eq_true, ↓reduceIte] at h
    by_cases h2 : caseVal.isType .REGEXP = true
    · simp only [h2, ↓reduceIte] at h
      simp [h1, h2, h]
    · simp only [h2, Bool.false_eq_true, ↓reduceIte, Except.ok.injEq, Prod.mk.injEq] at h
      obtain ⟨rfl, rfl⟩ := h
      simp [h1, h2]

theorem step_case_err (M : Machine) (obj : HostVal) (len : Nat) (rb : Bytes → RunSt → Res × RunSt) (arg next : Nat)
    (caseVal val : Value) (e : Err) (stack : List Value) (st : RunSt) (h : caseOp M val caseVal = .error e) :
    step M obj len rb Op.case.toNat arg next (caseVal :: val :: stack) st = .halt (.error e) st := by
  have : Op.ofNat? Op.case.toNat = some .case := rfl
  simp only [step, this, isBinary]
  unfold caseOp at h
  by_cases h1 : sameTypeAndText val caseVal = true
  · simp [h1] at h
  · simp only [h1, Bool.false_eq_true, ↓reduceIte] at h
    by_cases h2 : caseVal.isType .REGEXP = true
    · simp only [h2, ↓reduceIte] at h
      simp [h1, h2, h]
    · simp [h2] at h

theorem step_set (M : Machine) (obj : HostVal) (len : Nat) (rb : Bytes → RunSt → Res × RunSt) (arg next : Nat)
    (name val : Value) (stack : List Value) (st : RunSt) :
    step M obj len rb Op.set.toNat arg next (name :: val :: stack) st =
      .cont next stack { st with env := st.env.set name.inspect val } := by
  have : Op.ofNat? Op.set.toNat = some .set := rfl
  simp only [step, this, isBinary]; simp


theorem step_local (M : Machine) (obj : HostVal) (len : Nat) (rb : Bytes → RunSt → Res × RunSt) (arg next : Nat)
    (name : Value) (stack : List Value) (st : RunSt) :
    step M obj len rb Op.local.toNat arg next (name :: stack) st =
      .cont next stack { st with env := st.env.declare name.inspect .null } := by
  have : Op.ofNat? Op.local.toNat = some .local := rfl
  simp only [step, this, isBinary]; simp

theorem step_iterReset_ok (M : Machine) (obj : HostVal) (len : Nat) (rb : Bytes → RunSt → Res × RunSt) (arg next : Nat)
    (v it : Value) (stack : List Value) (st : RunSt) (h : resetVal v = .ok it) :
    step M obj len rb Op.iterationReset.toNat arg next (v :: stack) st =
      .cont next (.iterating it 0 :: stack) { st with env := st.env.addScope } := by
  have : Op.ofNat? Op.iterationReset.toNat = some .iterationReset := rfl
  simp only [step, this, isBinary]
  cases v <;> simp [resetVal, err] at h <;> simp [h]

theorem step_iterReset_err (M : Machine) (obj : HostVal) (len : Nat) (rb : Bytes → RunSt → Res × RunSt) (arg next : Nat)
    (v : Value) (e : Err) (stack : List Value) (st : RunSt) (h : resetVal v = .error e) :
    step M obj len rb Op.iterationReset.toNat arg next (v :: stack) st = .halt (.error e) { st with env := st.env.addScope } := by
  have : Op.ofNat? Op.iterationReset.toNat = some .iterationReset := rfl
  simp only [step, this, isBinary]
  cases v <;> simp [resetVal, err] at h <;> simp [h, err]

theorem step_iterNext_some (M : Machine) (obj : HostVal) (len : Nat) (rb : Bytes → RunSt → Res × RunSt) (arg next : Nat)
    (varName idxName it : Value) (k : Nat) (stack : List Value) (st : RunSt) (x i : Value)
    (h : iterNext it k = some (x, i)) :
    step M obj len rb Op.iterationNext.toNat arg next (varName :: idxName :: .iterating it k :: stack) st =
      .cont next (.bool true :: .iterating it (k + 1) :: stack)
        { st with env := (if idxName.inspect.isEmpty then st.env.declare varName.inspect x
                          else (st.env.declare varName.inspect x).declare idxName.inspect i) } := by
  have : Op.ofNat? Op.iterationNext.toNat = some .iterationNext := rfl
  simp only [step, this, isBinary]
  simp [h]

theorem step_iterNext_end (M : Machine) (obj : HostVal) (len : Nat) (rb : Bytes → RunSt → Res × RunSt) (arg next : Nat)
    (varName idxName it : Value) (k : Nat) (stack : List Value) (st : RunSt) (env' : Env)
    (h : iterNext it k = none) (hs : st.env.removeScope = some env') :
    step M obj len rb Op.iterationNext.toNat arg next (varName :: idxName :: .iterating it k :: stack) st =
      .cont next (.bool false :: stack) { st with env := env' } := by
  have : Op.ofNat? Op.iterationNext.toNat = some .iterationNext := rfl
  simp only [step, this, isBinary]
  simp [h, hs]

theorem step_iterNext_noscope (M : Machine) (obj : HostVal) (len : Nat) (rb : Bytes → RunSt → Res × RunSt) (arg next : Nat)
    (varName idxName it : Value) (k : Nat) (stack : List Value) (st : RunSt)
    (h : iterNext it k = none) (hs : st.env.removeScope = none) :
    step M obj len rb Op.iterationNext.toNat arg next (varName :: idxName :: .iterating it k :: stack) st =
      .halt (.error (.error "removeScope")) st := by
  have : Op.ofNat? Op.iterationNext.toNat = some .iterationNext := rfl
  simp only [step, this, isBinary]
  simp [h, hs, err]

/-- the pieces of the code of a `foreach`, where they sit, and what its name constants denote -/
structure ForeachLayout (M : Machine) (code : Bytes) (idx x : Str) (v : Expr) (body : List Stmt) (base : Nat)
    (cst : CState) (r : List Instr × CState) (cv : List Instr) (st1 : CState) (cb : List Instr) (ci cx : Value) : Prop where
  hv : compileExpr v base cst = .ok (cv, st1)
  hb : compileStmts body (base + v.size + 1 + 3 + 3 + 1 + 3)
        (withConst (withConst st1 .constant (.str idx)).2 .constant (.str x)).2 = .ok (cb, r.2)
  atv : CodeAt code base cv
  atReset : CodeAt code (base + v.size)
    [⟨.iterationReset, 0⟩, (withConst st1 .constant (.str idx)).1,
     (withConst (withConst st1 .constant (.str idx)).2 .constant (.str x)).1, ⟨.iterationNext, 0⟩,
     ⟨.jumpIfFalse, base + v.size + 1 + 3 + 3 + 1 + 3 + Stmt.sizes body + 3⟩]
  atBody : CodeAt code (base + v.size + 11) cb
  atJump : CodeAt code (base + v.size + 11 + Stmt.sizes body) [⟨.jump, base + v.size + 1⟩, ⟨.placeholder, 0⟩]
  bound : base + (v.size + 11 + Stmt.sizes body + 4) ≤ code.length
  pool1 : ∃ ex, M.consts = st1.consts ++ ex
  poolB : ∃ ex, M.consts = r.2.consts ++ ex
  geti : M.consts[(withConst st1 .constant (.str idx)).1.arg]? = some ci
  getx : M.consts[(withConst (withConst st1 .constant (.str idx)).2 .constant (.str x)).1.arg]? = some cx
  namei : ci.inspect = idx
  namex : cx.inspect = x

theorem foreach_layout {M : Machine} {code : Bytes} {idx x : Str} {v : Expr} {body : List Stmt} {base : Nat}
    {cst : CState} {r : List Instr × CState} (h : compileExpr (.foreachE idx x v body) base cst = .ok r)
    (hc : CodeAt code base r.1) (hp : ∃ ex, M.consts = r.2.consts ++ ex) :
    ∃ cv st1 cb ci cx, ForeachLayout M code idx x v body base cst r cv st1 cb ci cx := by
  simp only [compileExpr, bind_ok_eq, pure, Except.pure] at h
  obtain ⟨⟨cv, st1⟩, h1, ⟨cb, st2⟩, h2, h3⟩ := h
  cases h3
  have s1 := compileExpr_size v base cst _ h1
  have s2 := compileStmts_size body _ _ _ h2
  have r2 := compileStmts_R body _ _ _ h2
  simp only at s1 s2 r2
  have hpk : ∃ ex, M.consts = (withConst (withConst st1 .constant (.str idx)).2 .constant (.str x)).2.consts ++ ex :=
    pool_trans hp r2.ext
  have hpi : ∃ ex, M.consts = (withConst st1 .constant (.str idx)).2.consts ++ ex :=
    pool_trans hpk (addConstant_ext _ (.str x))
  obtain ⟨ci, geti, _, hni⟩ := withConst_pool st1 .constant (.str idx) M.consts hpi
  obtain ⟨cx, getx, _, hnx⟩ := withConst_pool (withConst st1 .constant (.str idx)).2 .constant (.str x) M.consts hpk
  have hbound : base + (v.size + 11 + Stmt.sizes body + 4) ≤ code.length := by
    have := hc.bound
    simp only [codeSize_append, codeSize_cons, codeSize_nil, s1, s2, Instr.size, Op.length, withConst_op] at this
    omega
  refine ⟨cv, st1, cb, ci, cx, h1, h2, hc.left.left.left, ?_, ?_, ?_, hbound, pool_trans hpi (addConstant_ext _ (.str idx)), hp, geti, getx,
    by rw [hni]; simp [Value.inspect], by rw [hnx]; simp [Value.inspect]⟩
  · have := hc.left.left.right; rwa [s1] at this
  · have := hc.left.right
    simp only [codeSize_append, codeSize_cons, codeSize_nil, s1, Instr.size, Op.length, withConst_op] at this
    exact this.cast (by omega)
  · have := hc.right
    simp only [codeSize_append, codeSize_cons, codeSize_nil, s1, s2, Instr.size, Op.length, withConst_op] at this
    exact this.cast (by omega)

section
variable (M : Machine) (F : FnTable) (obj : HostVal) (code : Bytes)

/-- what is proved for every statement-like expression, statement and block, for a given budget -/
structure SIH (f : Nat) : Prop where
  E : ∀ (e : Expr) (base : Nat) (cst : CState) (r : List Instr × CState), stmtE e = true →
      compileExpr e base cst = .ok r → CodeAt code base r.1 → (∃ ex, M.consts = r.2.consts ++ ex) →
      ∀ (stack : List Value) (env : Env) (out : Str) (polls depth : Nat), execE M F obj depth f e env out ≠ .diverged →
      ∃ n k q, ∀ fuel, loop M obj code (fuel + n) base stack ⟨env, out, polls, depth⟩ =
        afterS M obj code (fuel + q) (base + e.size) stack (polls + k) depth (execE M F obj depth f e env out)
  S : ∀ (s : Stmt) (base : Nat) (cst : CState) (r : List Instr × CState), pureS s = true →
      compileStmt s base cst = .ok r → CodeAt code base r.1 → (∃ ex, M.consts = r.2.consts ++ ex) →
      ∀ (stack : List Value) (env : Env) (out : Str) (polls depth : Nat), execS M F obj depth f s env out ≠ .diverged →
      ∃ n k q, ∀ fuel, loop M obj code (fuel + n) base stack ⟨env, out, polls, depth⟩ =
        afterS M obj code (fuel + q) (base + s.size) stack (polls + k) depth (execS M F obj depth f s env out)
  Ss : ∀ (ss : List Stmt) (base : Nat) (cst : CState) (r : List Instr × CState), pureSs ss = true →
      compileStmts ss base cst = .ok r → CodeAt code base r.1 → (∃ ex, M.consts = r.2.consts ++ ex) →
      ∀ (stack : List Value) (env : Env) (out : Str) (polls depth : Nat), execSs M F obj depth f ss env out ≠ .diverged →
      ∃ n k q, ∀ fuel, loop M obj code (fuel + n) base stack ⟨env, out, polls, depth⟩ =
        afterS M obj code (fuel + q) (base + Stmt.sizes ss) stack (polls + k) depth (execSs M F obj depth f ss env out)
  /-- a foreach loop from its head (the two name constants before OpIterationNext), the iterator on the stack -/
  I : ∀ (idx x : Str) (v : Expr) (body : List Stmt) (base : Nat) (cst : CState) (r : List Instr × CState),
      pureE v = true → pureSs body = true →
      compileExpr (.foreachE idx x v body) base cst = .ok r → CodeAt code base r.1 → (∃ ex, M.consts = r.2.consts ++ ex) →
      ∀ (it : Value) (k : Nat) (stack : List Value) (env : Env) (out : Str) (polls depth : Nat),
        execIter M F obj depth f idx x body it k env out ≠ .diverged →
      ∃ n k' q, ∀ fuel, loop M obj code (fuel + n) (base + v.size + 1) (.iterating it k :: stack) ⟨env, out, polls, depth⟩ =
        afterS M obj code (fuel + q) (base + (Expr.foreachE idx x v body).size) stack (polls + k') depth
          (execIter M F obj depth f idx x body it k env out)

  /-- the tests of one `case a, b, c { … }` -/
  Rm : ∀ (v : Expr) (es : List Expr) (b : List Stmt) (base endPos : Nat) (cst : CState) (r : List Instr × CState),
      pureE v = true → pureEs es = true → pureSs b = true →
      compileArm (fun b s => compileExpr v b s) v.size (fun bs s => compileStmts b bs s) (Stmt.sizes b) es base endPos cst = .ok r →
      CodeAt code base r.1 → (∃ ex, M.consts = r.2.consts ++ ex) → endPos < code.length →
      base + Case.armSize v.size (Stmt.sizes b) es ≤ endPos →
      ∀ (stack : List Value) (env : Env) (out : Str) (polls depth : Nat), execArm M F obj depth f v es b env out ≠ .done .diverged →
      ∃ n k q, ∀ fuel, loop M obj code (fuel + n) base stack ⟨env, out, polls, depth⟩ =
        afterA M obj code (fuel + q) endPos (base + Case.armSize v.size (Stmt.sizes b) es) stack (polls + k) depth
          (execArm M F obj depth f v es b env out)
  /-- the non-default cases of a switch -/
  Am : ∀ (v : Expr) (cs : List Case) (base endPos : Nat) (cst : CState) (r : List Instr × CState),
      pureE v = true → pureCases cs = true →
      compileArms (fun b s => compileExpr v b s) v.size cs base endPos cst = .ok r →
      CodeAt code base r.1 → (∃ ex, M.consts = r.2.consts ++ ex) → endPos < code.length →
      base + Case.armsSize v.size cs ≤ endPos →
      ∀ (stack : List Value) (env : Env) (out : Str) (polls depth : Nat), execArms M F obj depth f v cs env out ≠ .done .diverged →
      ∃ n k q, ∀ fuel, loop M obj code (fuel + n) base stack ⟨env, out, polls, depth⟩ =
        afterA M obj code (fuel + q) endPos (base + Case.armsSize v.size cs) stack (polls + k) depth
          (execArms M F obj depth f v cs env out)
  /-- the default blocks -/
  Dm : ∀ (cs : List Case) (base : Nat) (cst : CState) (r : List Instr × CState), pureCases cs = true →
      compileDefaults cs base cst = .ok r → CodeAt code base r.1 → (∃ ex, M.consts = r.2.consts ++ ex) →
      ∀ (stack : List Value) (env : Env) (out : Str) (polls depth : Nat), execDefaults M F obj depth f cs env out ≠ .diverged →
      ∃ n k q, ∀ fuel, loop M obj code (fuel + n) base stack ⟨env, out, polls, depth⟩ =
        afterS M obj code (fuel + q) (base + Case.defaultsSize cs) stack (polls + k) depth (execDefaults M F obj depth f cs env out)

theorem SIH_zero : SIH M F obj code 0 := by
  constructor <;> intros <;> simp_all [execE, execS, execSs, execIter, execArms, execArm, execDefaults]


variable {M F obj code}

/-! ### calls -/

/-- the code of a function: its body, and `OpVoid; OpReturn` unless the body's last instruction is a return -/
def endsRet (cb : List Instr) : Bool := match cb.getLast? with | some i => i.op == Op.return | none => false
def fnCode (cb : List Instr) : List Instr := if endsRet cb then cb else cb ++ [⟨Op.void, 0⟩, ⟨Op.return, 0⟩]

/-- the compiled functions of the machine are the functions of the table: same names and parameters,
    each body compiled from some compiler state whose constants the machine has -/
structure FnOK (M : Machine) (F : FnTable) (obj : HostVal) : Prop where
  missing : ∀ name, F.find name = none → lookupUser M name = none
  found : ∀ name sf, F.find name = some sf → ∃ uf cst r, lookupUser M name = some uf ∧ uf.params = sf.params ∧
      pureSs sf.body = true ∧ compileStmts sf.body 0 cst = .ok r ∧ uf.code = encodeAll (fnCode r.1) ∧
      (∃ ex, M.consts = r.2.consts ++ ex) ∧ uf.code.length ≤ 65536 ∧
      (endsRet r.1 = true → ∀ depth f env out e' o', execSs M F obj depth f sf.body env out ≠ .normal e' o')

theorem step_void (M : Machine) (obj : HostVal) (len : Nat) (rb : Bytes → RunSt → Res × RunSt) (arg next : Nat)
    (stack : List Value) (st : RunSt) :
    step M obj len rb Op.void.toNat arg next stack st = .cont next (.void :: stack) st := by
  have : Op.ofNat? Op.void.toNat = some .void := rfl
  simp only [step, this, isBinary]; simp

/-- … for a name that is neither built-in, host nor user-defined -/
theorem step_call_unknown (M : Machine) (obj : HostVal) (len : Nat) (rb : Bytes → RunSt → Res × RunSt) (next : Nat)
    (cn : Value) (vs : List Value) (stack : List Value) (st : RunSt)
    (hl : lookupFn M cn.inspect = none) (hu : lookupUser M cn.inspect = none) :
    step M obj len rb Op.call.toNat vs.length next (cn :: (vs.reverse ++ stack)) st = .halt (err "noSuchFunction") st := by
  have : Op.ofNat? Op.call.toNat = some .call := rfl
  simp only [step, this, isBinary]
  have hp : popN vs.length (vs.reverse ++ stack) = some (vs, stack) := by
    unfold popN
    have : ¬ ((vs.reverse ++ stack).length < vs.length) := by simp
    simp only [this, ↓reduceIte]
    have h1 : (vs.reverse ++ stack).take vs.length = vs.reverse := by simp
    have h3 : (vs.reverse ++ stack).drop vs.length = stack := by simp
    rw [h1, h3]; simp
  simp only [Bool.false_eq_true, ↓reduceIte, hp, hl, hu]

/-- … and for a user-defined function: `invoke` -/
theorem step_call_user (M : Machine) (obj : HostVal) (len : Nat) (rb : Bytes → RunSt → Res × RunSt) (next : Nat)
    (cn : Value) (vs : List Value) (stack : List Value) (st : RunSt) (uf : UserFn)
    (hl : lookupFn M cn.inspect = none) (hu : lookupUser M cn.inspect = some uf) :
    step M obj len rb Op.call.toNat vs.length next (cn :: (vs.reverse ++ stack)) st =
      (match invoke rb uf vs st with
       | (.error e, st) => .halt (.error e) st
       | (.ok out, st) =>
         match st.env.removeScope with
         | none => .halt (err "removeScope") st
         | some env => .cont next (if out.isType .VOID then stack else out :: stack) { st with env := env }) := by
  have : Op.ofNat? Op.call.toNat = some .call := rfl
  simp only [step, this, isBinary]
  have hp : popN vs.length (vs.reverse ++ stack) = some (vs, stack) := by
    unfold popN
    have : ¬ ((vs.reverse ++ stack).length < vs.length) := by simp
    simp only [this, ↓reduceIte]
    have h1 : (vs.reverse ++ stack).take vs.length = vs.reverse := by simp
    have h3 : (vs.reverse ++ stack).drop vs.length = stack := by simp
    rw [h1, h3]; simp
  simp only [Bool.false_eq_true, ↓reduceIte, hp, hl, hu]
  cases invoke rb uf vs st with
  | mk r s1 =>
    cases r with
    | error e => rfl
    | ok out => rfl

/-- where the VM stands after a call, according to how it ends -/
def afterC (M : Machine) (obj : HostVal) (code : Bytes) (fuel ip : Nat) (stack : List Value)
    (polls depth : Nat) : CallOut → Res × RunSt
  | .value v env out => loop M obj code fuel ip (v :: stack) ⟨env, out, polls, depth⟩
  | .novalue env out => loop M obj code fuel ip stack ⟨env, out, polls, depth⟩
  | .failed e env out => (.error e, ⟨env, out, polls, depth⟩)
  | .undefined => (.error .outOfFuel, ⟨⟨[], []⟩, [], polls, depth⟩)

theorem invoke_eq' (rb : Bytes → RunSt → Res × RunSt) (uf : UserFn) (args : List Value) (st : RunSt) :
    invoke rb uf args st =
      if st.depth ≥ maxCallDepth then (err "callDepth", st)
      else if uf.params.length != args.length then
        (err "argCount", { st with env := st.env.addScope })
      else if uf.code.isEmpty then
        (err "emptyProgram", { st with env := (uf.params.zip args).foldl (fun e (p : Str × Value) => e.declare p.1 p.2) st.env.addScope })
      else
        let r := finish ((uf.params.zip args).foldl (fun e (p : Str × Value) => e.declare p.1 p.2) st.env.addScope).scopes.length
                  (rb uf.code { st with env := (uf.params.zip args).foldl (fun e (p : Str × Value) => e.declare p.1 p.2) st.env.addScope,
                                        depth := st.depth + 1 })
        (r.1, { r.2 with depth := st.depth }) := by
  unfold invoke
  simp only []

theorem fnCode_ne_nil (cb : List Instr) : encodeAll (fnCode cb) ≠ [] := by
  unfold fnCode
  split
  · rename_i h
    unfold endsRet at h
    cases hl : cb.getLast? with
    | none => simp [hl] at h
    | some i =>
      have hne : cb ≠ [] := by intro e; rw [e] at hl; simp at hl
      obtain ⟨hd, tl, rfl⟩ := List.exists_cons_of_ne_nil hne
      intro hx
      have := congrArg List.length hx
      rw [encodeAll_length] at this
      simp only [codeSize_cons, List.length_nil] at this
      have : 0 < hd.size := by unfold Instr.size; rcases WF.Op.length_cases hd.op with h | h <;> omega
      omega
  · intro hx
    have := congrArg List.length hx
    rw [encodeAll_length, codeSize_append] at this
    simp [codeSize_cons, codeSize_nil, Instr.size, Op.length] at this

/-- what the run of a user function's body yields, as the nested run of OpCall sees it -/
def calleeRes (polls depth : Nat) : Outcome → Res × RunSt
  | .returned v env out => (.ok v, ⟨env, out, polls, depth⟩)
  | .failed e env out => (.error e, ⟨env, out, polls, depth⟩)
  | .normal env out => (.ok .void, ⟨env, out, polls, depth⟩)
  | .diverged => (.error .outOfFuel, ⟨⟨[], []⟩, [], polls, depth⟩)

/-- **The body of a user-defined function runs as the language defines**: the nested run that OpCall
    starts ends with the value of the body's `return`, with the void value if the body falls off its end,
    or with the body's error - given the induction hypothesis for the function's own code. -/
theorem callee_run (f : Nat) (ihAll : ∀ code', Ctx M code' → SIH M F obj code' f) (hnd : NeverDone M) (hpool : M.consts.length ≤ 65536)
    (sf : SFn) (uf : UserFn) (cst : CState) (r : List Instr × CState)
    (hpb : pureSs sf.body = true) (hcomp : compileStmts sf.body 0 cst = .ok r) (hcode : uf.code = encodeAll (fnCode r.1))
    (hp : ∃ ex, M.consts = r.2.consts ++ ex) (hlen : uf.code.length ≤ 65536)
    (hends : endsRet r.1 = true → ∀ depth f env out e' o', execSs M F obj depth f sf.body env out ≠ .normal e' o')
    (env2 : Env) (o : Str) (polls depth : Nat)
    (hndv : execSs M F obj depth f sf.body env2 o ≠ .diverged) :
    ∃ n k, ∀ fuel, loop M obj uf.code (fuel + n) 0 [] ⟨env2, o, polls, depth⟩ =
      calleeRes (polls + k) depth (execSs M F obj depth f sf.body env2 o) := by
  have ctx' : Ctx M uf.code := ⟨hnd, hlen, hpool⟩
  have hsz := compileStmts_size sf.body 0 cst _ hcomp
  have hat : CodeAt uf.code 0 r.1 := by
    unfold fnCode at hcode
    split at hcode
    · exact ⟨[], [], by rw [hcode]; simp, rfl⟩
    · exact ⟨[], encodeAll [⟨Op.void, 0⟩, ⟨Op.return, 0⟩], by rw [hcode, encodeAll_append]; simp, rfl⟩
  obtain ⟨n2, k2, q2, ih2⟩ := (ihAll uf.code ctx').Ss sf.body 0 cst r hpb hcomp hat hp [] env2 o polls depth hndv
  cases hb : execSs M F obj depth f sf.body env2 o with
  | diverged => exact absurd hb hndv
  | returned v env' o' => exact ⟨n2, k2, fun fuel => by rw [ih2 fuel, hb]; simp [afterS, calleeRes]⟩
  | failed e env' o' => exact ⟨n2, k2, fun fuel => by rw [ih2 fuel, hb]; simp [afterS, calleeRes]⟩
  | normal env' o' =>
    have hnr : endsRet r.1 = false := by
      cases he : endsRet r.1
      · rfl
      · exact absurd hb (hends he depth f env2 o env' o')
    have htail : CodeAt uf.code (0 + codeSize r.1) [⟨Op.void, 0⟩, ⟨Op.return, 0⟩] := by
      have : uf.code = encodeAll (r.1 ++ [⟨Op.void, 0⟩, ⟨Op.return, 0⟩]) := by
        rw [hcode]; unfold fnCode; simp [hnr]
      have hc2 : CodeAt uf.code 0 (r.1 ++ [⟨Op.void, 0⟩, ⟨Op.return, 0⟩]) := ⟨[], [], by rw [this]; simp, rfl⟩
      exact hc2.right
    rw [hsz] at htail
    have hret := htail.tail
    simp only [Instr.size, Op.length] at hret
    have hrun1 : ∀ fuel, loop M obj uf.code (fuel + n2) 0 [] ⟨env2, o, polls, depth⟩ =
        loop M obj uf.code (fuel + q2) (0 + Stmt.sizes sf.body) [] ⟨env', o', polls + k2, depth⟩ := by
      intro fuel; rw [ih2 fuel, hb]; rfl
    have hrun2 : ∀ fuel, loop M obj uf.code (fuel + (1 + n2)) 0 [] ⟨env2, o, polls, depth⟩ =
        loop M obj uf.code (fuel + q2) (0 + Stmt.sizes sf.body + 1) [.void] ⟨env', o', polls + k2 + 1, depth⟩ := by
      intro fuel
      rw [stepE hrun1 htail hnd (Or.inr rfl) 0 (by simp [storedArg, Op.length]) fuel, step_void]
      simp [Instr.size, Op.length]
    refine ⟨1 + (1 + n2), k2 + 1 + 1, fun fuel => ?_⟩
    rw [stepE hrun2 hret hnd (Or.inr rfl) 0 (by simp [storedArg, Op.length]) fuel, step_return]
    simp [calleeRes, Nat.add_assoc]

/-- **A call runs as the language defines**: arguments left to right, then the function - a built-in or
    host function first, else the user-defined one, whose body runs in a fresh scope holding the parameters
    and whose scopes are gone afterwards; unknown names and wrong argument counts are errors. -/
theorem call_ok (ctx : Ctx M code) (hF : FnOK M F obj) (f : Nat) (ihAll : ∀ code', Ctx M code' → SIH M F obj code' f)
    (fn : Expr) (args : List Expr) (base : Nat) (cst : CState) (r : List Instr × CState) (hpa : pureEs args = true)
    (h : compileExpr (.call fn args) base cst = .ok r) (hc : CodeAt code base r.1) (hp : ∃ ex, M.consts = r.2.consts ++ ex)
    (stack : List Value) (env : Env) (out : Str) (polls depth : Nat)
    (hnd : callWith (decide (depth ≥ maxCallDepth)) (fun b e o => execSs M F obj (depth + 1) f b e o) M F obj fn.str args env out ≠ .undefined) :
    ∃ n k q, ∀ fuel, loop M obj code (fuel + n) base stack ⟨env, out, polls, depth⟩ =
      afterC M obj code (fuel + q) (base + (Expr.call fn args).size) stack (polls + k) depth
        (callWith (decide (depth ≥ maxCallDepth)) (fun b e o => execSs M F obj (depth + 1) f b e o) M F obj fn.str args env out) := by
  have hlenc := ctx.len
  simp only [compileExpr, bind_ok_eq, pure, Except.pure] at h
  obtain ⟨⟨ca, st1⟩, h1, h3⟩ := h
  cases h3
  have s1 := compileExprs_size args base cst _ h1
  simp only at s1
  have hsz : (Expr.call fn args).size = Expr.sizes args + 3 + 3 := rfl
  have hbound := hc.bound
  simp only [codeSize_append, codeSize_cons, codeSize_nil, s1, Instr.size, Op.length, withConst_op] at hbound
  have hk : CodeAt code (base + Expr.sizes args) [(withConst st1 .constant (.str fn.str)).1, ⟨.call, args.length⟩] := by
    have := hc.right; rwa [s1] at this
  have hcallc : CodeAt code (base + Expr.sizes args + 3) [⟨.call, args.length⟩] := by
    have := hk.tail; simpa [Instr.size, withConst_op, Op.length] using this
  obtain ⟨cn, hget, _, hinsp⟩ := withConst_pool st1 .constant (.str fn.str) M.consts hp
  have hname : cn.inspect = fn.str := by rw [hinsp]; simp [Value.inspect]
  have hlt : (withConst st1 .constant (.str fn.str)).1.arg < 65536 := by
    have := (List.getElem?_eq_some_iff.mp hget).1
    have := ctx.pool; omega
  have hop : (withConst st1 .constant (.str fn.str)).1.op = .constant := rfl
  have hargk : storedArg (withConst st1 .constant (.str fn.str)).1 = (withConst st1 .constant (.str fn.str)).1.arg := by
    simp [storedArg, hop, Op.length, Nat.mod_eq_of_lt hlt]
  have hal : args.length < 65536 := by
    have := pures_length_le args hpa; omega
  have hargc : storedArg ⟨.call, args.length⟩ = args.length := by
    show (if Op.call.length = 3 then args.length % 65536 else 0) = args.length
    rw [if_pos (by rfl : Op.call.length = 3), Nat.mod_eq_of_lt hal]
  have r1 : ∃ ex, M.consts = st1.consts ++ ex := pool_trans hp (addConstant_ext st1 (.str fn.str))
  have hU1 : (evalEs M obj env args out).1 ≠ .error undefErr := by
    intro hm; obtain ⟨ox, hx⟩ := fst_err hm; exact hnd (by simp [callWith, hx])
  obtain ⟨n1, k1, ih1⟩ := exprs_ok args base cst _ hpa h1 M obj code ctx hc.left r1 stack env out polls depth hU1
  simp only [callWith] at hnd ⊢
  cases hev : evalEs M obj env args out with
  | mk res o1 =>
    cases res with
    | error x =>
      have hne : x ≠ undefErr := fun he => hU1 (by rw [hev, he])
      exact ⟨n1, k1, 0, fun fuel => by rw [ih1 fuel, hev]; simp [afterL, afterC, hne]⟩
    | ok vs =>
      simp only [hev] at hnd
      have hvl : vs.length = args.length := evalEs_length M obj env args out vs o1 hev
      have hrun1 : ∀ fuel, loop M obj code (fuel + n1) base stack ⟨env, out, polls, depth⟩ =
          loop M obj code fuel (base + Expr.sizes args) (vs.reverse ++ stack) ⟨env, o1, polls + k1, depth⟩ := by
        intro fuel; rw [ih1 fuel, hev]; rfl
      have hrun2 : ∀ fuel, loop M obj code (fuel + (1 + n1)) base stack ⟨env, out, polls, depth⟩ =
          loop M obj code fuel (base + Expr.sizes args + 3) (cn :: (vs.reverse ++ stack)) ⟨env, o1, polls + k1 + 1, depth⟩ := by
        apply finish_instr hrun1 hk ctx.nd (Or.inl hargk) _ hargk.symm
        intro fuel
        rw [hop, step_constant M obj _ _ _ _ _ _ cn hget]
        simp [Instr.size, hop, Op.length]
      cases hl : lookupFn M fn.str with
      | some impl =>
        -- a built-in or host function
        dsimp only
        refine ⟨1 + (1 + n1), k1 + 1 + 1, 0, ?_⟩
        apply finish_instr hrun2 hcallc ctx.nd (Or.inl hargc) _ hargc.symm
        intro fuel
        rw [← hvl, step_call_host M obj _ _ _ cn vs stack _ impl (by rw [hname]; exact hl), hname]
        generalize callImpl fn.str impl vs = cr
        cases hr : cr.res with
        | panic => simp [afterC, Nat.add_assoc]
        | unsupported => simp [afterC, Nat.add_assoc]
        | val v => cases v <;> simp [afterC, hsz, Instr.size, Op.length, Nat.add_assoc, Value.isType, Value.type?]
      | none =>
        rw [hl] at hnd
        dsimp only at hnd ⊢
        cases hfind : F.find fn.str with
        | none =>
          dsimp only
          have hu := hF.missing fn.str hfind
          refine ⟨1 + (1 + n1), k1 + 1 + 1, 0, ?_⟩
          apply finish_instr hrun2 hcallc ctx.nd (Or.inl hargc) _ hargc.symm
          intro fuel
          rw [← hvl, step_call_unknown M obj _ _ _ cn vs stack _ (by rw [hname]; exact hl) (by rw [hname]; exact hu)]
          simp [afterC, err, Nat.add_assoc]
        | some sf =>
          rw [hfind] at hnd
          dsimp only at hnd ⊢
          obtain ⟨uf, cst2, r2, hu, hpar, hpb, hcomp, hcode, hp2, hlen2, hends⟩ := hF.found fn.str sf hfind
          have hne : uf.code.isEmpty = false := by
            cases hcd : uf.code with
            | nil => rw [hcd] at hcode; exact absurd hcode.symm (fnCode_ne_nil r2.1)
            | cons b bs => rfl
          by_cases hdp : depth ≥ maxCallDepth
          · -- too many open calls
            simp only [hdp, decide_true, ↓reduceIte]
            refine ⟨1 + (1 + n1), k1 + 1 + 1, 0, ?_⟩
            apply finish_instr hrun2 hcallc ctx.nd (Or.inl hargc) _ hargc.symm
            intro fuel
            rw [← hvl, step_call_user M obj _ _ _ cn vs stack _ uf (by rw [hname]; exact hl) (by rw [hname]; exact hu),
              invoke_eq']
            simp [hdp, afterC, err, Nat.add_assoc]
          simp only [hdp, decide_false, Bool.false_eq_true, ↓reduceIte] at hnd ⊢
          by_cases hac : (sf.params.length != vs.length) = true
          · -- wrong number of arguments
            simp only [hac, ↓reduceIte]
            refine ⟨1 + (1 + n1), k1 + 1 + 1, 0, ?_⟩
            apply finish_instr hrun2 hcallc ctx.nd (Or.inl hargc) _ hargc.symm
            intro fuel
            rw [← hvl, step_call_user M obj _ _ _ cn vs stack _ uf (by rw [hname]; exact hl) (by rw [hname]; exact hu),
              invoke_eq']
            simp [hdp, hpar, hac, afterC, err, Nat.add_assoc]
          · simp only [hac, Bool.false_eq_true, ↓reduceIte] at hnd ⊢
            have hndv : execSs M F obj (depth + 1) f sf.body ((sf.params.zip vs).foldl (fun e (p : Str × Value) => e.declare p.1 p.2) env.addScope) o1 ≠ .diverged := by
              intro hd; rw [hd] at hnd; exact hnd rfl
            obtain ⟨nC, kC, hcal⟩ := callee_run f ihAll ctx.nd ctx.pool sf uf cst2 r2 hpb hcomp hcode hp2 hlen2 hends
              ((sf.params.zip vs).foldl (fun e (p : Str × Value) => e.declare p.1 p.2) env.addScope) o1 (polls + k1 + 1 + 1) (depth + 1) hndv
            -- the call instruction, with `nC` turns of fuel left for the nested run
            have hstep : ∀ fuel, loop M obj code (fuel + (nC + 1 + (1 + n1))) base stack ⟨env, out, polls, depth⟩ =
                (match step M obj code.length (fun c s => loop M obj c (fuel + nC) 0 [] s) Op.call.toNat args.length
                    (base + Expr.sizes args + 3 + 3) (cn :: (vs.reverse ++ stack)) ⟨env, o1, polls + k1 + 1 + 1, depth⟩ with
                 | .cont ip' stack' st' => loop M obj code (fuel + nC) ip' stack' st'
                 | .halt r st' => (r, st')) := by
              intro fuel
              rw [show fuel + (nC + 1 + (1 + n1)) = (fuel + nC + 1) + (1 + n1) by omega, hrun2 (fuel + nC + 1),
                run_instr M obj hcallc ctx.nd (Or.inl hargc) _ env o1 _ depth (fuel + nC) _ hargc.symm]
              rfl
            have hinv : ∀ fuel, invoke (fun c s => loop M obj c (fuel + nC) 0 [] s) uf vs ⟨env, o1, polls + k1 + 1 + 1, depth⟩ =
                ((calleeRes (polls + k1 + 1 + 1 + kC) (depth + 1) (execSs M F obj (depth + 1) f sf.body
                    ((sf.params.zip vs).foldl (fun e (p : Str × Value) => e.declare p.1 p.2) env.addScope) o1)).1,
                 { (finish ((sf.params.zip vs).foldl (fun e (p : Str × Value) => e.declare p.1 p.2) env.addScope).scopes.length
                     (calleeRes (polls + k1 + 1 + 1 + kC) (depth + 1) (execSs M F obj (depth + 1) f sf.body
                       ((sf.params.zip vs).foldl (fun e (p : Str × Value) => e.declare p.1 p.2) env.addScope) o1))).2 with depth := depth }) := by
              intro fuel
              rw [invoke_eq']
              simp only [hdp, hpar, hac, hne, ↓reduceIte, Bool.false_eq_true]
              rw [hcal fuel]
              rfl
            cases hb : execSs M F obj (depth + 1) f sf.body ((sf.params.zip vs).foldl (fun e (p : Str × Value) => e.declare p.1 p.2) env.addScope) o1 with
            | diverged => exact absurd hb hndv
            | failed e env' o' =>
              refine ⟨nC + 1 + (1 + n1), k1 + 1 + 1 + kC, 0, fun fuel => ?_⟩
              rw [hstep fuel, ← hvl, step_call_user M obj _ _ _ cn vs stack _ uf (by rw [hname]; exact hl) (by rw [hname]; exact hu),
                hinv fuel, hb]
              simp [calleeRes, finish, afterC, Nat.add_assoc]
            | returned v env' o' =>
              refine ⟨nC + 1 + (1 + n1), k1 + 1 + 1 + kC, nC, fun fuel => ?_⟩
              rw [hstep fuel, ← hvl, step_call_user M obj _ _ _ cn vs stack _ uf (by rw [hname]; exact hl) (by rw [hname]; exact hu),
                hinv fuel, hb]
              simp only [calleeRes, finish, callEnd]
              cases hrs : (env'.truncate ((sf.params.zip vs).foldl (fun e (p : Str × Value) => e.declare p.1 p.2) env.addScope).scopes.length).removeScope with
              | none => simp [afterC, err, Nat.add_assoc]
              | some e3 =>
                by_cases hv : v.isType .VOID = true
                · simp [afterC, hsz, Nat.add_assoc, hv]
                · simp [afterC, hsz, Nat.add_assoc, hv]
            | normal env' o' =>
              refine ⟨nC + 1 + (1 + n1), k1 + 1 + 1 + kC, nC, fun fuel => ?_⟩
              rw [hstep fuel, ← hvl, step_call_user M obj _ _ _ cn vs stack _ uf (by rw [hname]; exact hl) (by rw [hname]; exact hu),
                hinv fuel, hb]
              simp only [calleeRes, finish, callEnd]
              cases hrs : (env'.truncate ((sf.params.zip vs).foldl (fun e (p : Str × Value) => e.declare p.1 p.2) env.addScope).scopes.length).removeScope with
              | none => simp [afterC, err, Nat.add_assoc]
              | some e3 => simp [afterC, hsz, Nat.add_assoc, Value.isType, Value.type?]

theorem pureS_ret (e : Expr) (h : ∀ fn args, e ≠ .call fn args) : pureS (.ret e) = pureE e := by
  cases e <;> first | rfl | exact absurd rfl (h _ _)

theorem execS_ret (depth f : Nat) (e : Expr) (env : Env) (out : Str) (h : ∀ fn args, e ≠ .call fn args) :
    execS M F obj depth (f + 1) (.ret e) env out =
      (match evalE M obj env e out with
       | (.ok v, o) => .returned v env o
       | (.error x, o) => failE x env o) := by
  cases e <;> first | exact absurd rfl (h _ _) | simp only [execS]

theorem stmtE_assign (name : Str) (v : Expr) (h : ∀ fn args, v ≠ .call fn args) : stmtE (.assign name v) = pureE v := by
  cases v <;> first | rfl | exact absurd rfl (h _ _)

theorem execE_assign (depth f : Nat) (name : Str) (v : Expr) (env : Env) (out : Str) (h : ∀ fn args, v ≠ .call fn args) :
    execE M F obj depth (f + 1) (.assign name v) env out =
      (match evalE M obj env v out with
       | (.ok x, o) => .normal (env.set name x) o
       | (.error e, o) => failE e env o) := by
  cases v <;> first | exact absurd rfl (h _ _) | simp only [execE]

theorem step_Ss (ctx : Ctx M code) (f : Nat) (ihAll : ∀ code', Ctx M code' → SIH M F obj code' f) :
    ∀ (ss : List Stmt) (base : Nat) (cst : CState) (r : List Instr × CState), pureSs ss = true →
      compileStmts ss base cst = .ok r → CodeAt code base r.1 → (∃ ex, M.consts = r.2.consts ++ ex) →
      ∀ (stack : List Value) (env : Env) (out : Str) (polls depth : Nat), execSs M F obj depth (f + 1) ss env out ≠ .diverged →
      ∃ n k q, ∀ fuel, loop M obj code (fuel + n) base stack ⟨env, out, polls, depth⟩ =
        afterS M obj code (fuel + q) (base + Stmt.sizes ss) stack (polls + k) depth (execSs M F obj depth (f + 1) ss env out) := by
  have ih := ihAll code ctx
  intro ss base cst r hpure h hc hp stack env out polls depth hnd
  cases ss with
  | nil =>
    simp only [compileStmts, pure, Except.pure] at h; cases h
    exact ⟨0, 0, 0, fun fuel => by simp [afterS, execSs, Stmt.sizes]⟩
  | cons s rest =>
    by_cases hpair : IsPair s rest
    · -- `e op;` : the operand, then OpInc / OpDec
      obtain ⟨e, name, op, rest', rfl, rfl⟩ := hpair
      simp only [pureSs, Bool.and_eq_true] at hpure
      obtain ⟨⟨hop, hpe⟩, hprest⟩ := hpure
      simp only [compileStmts, compileStmt, bind_ok_eq, pure, Except.pure] at h
      obtain ⟨⟨c, st1⟩, h1, ⟨cs, st2⟩, ⟨⟨ci, sti⟩, hi, ⟨cr, str⟩, hr, hcs⟩, h3⟩ := h
      cases h3; cases hcs
      have s1 := compileExpr_size e base cst _ h1
      have rr := compileStmts_R rest' _ _ _ hr
      simp only at s1 rr
      -- the postfix instruction
      have hinstr : ∃ inc : Bool, (op == ['+', '+']) = inc ∧ ci = [(withConst st1 (if inc then Op.inc else Op.dec) (.str name)).1] ∧
          sti = (withConst st1 (if inc then Op.inc else Op.dec) (.str name)).2 := by
        simp only [compileExpr] at hi
        by_cases hpp : (op == ['+', '+']) = true
        · simp only [hpp, ↓reduceIte, pure, Except.pure] at hi; cases hi
          exact ⟨true, hpp, rfl, rfl⟩
        · simp only [hpp, Bool.false_eq_true, ↓reduceIte] at hi
          by_cases hmm : (op == ['-', '-']) = true
          · simp only [hmm, ↓reduceIte, pure, Except.pure] at hi; cases hi
            exact ⟨false, by simpa using hpp, rfl, rfl⟩
          · simp [hmm] at hi
      obtain ⟨inc, hinc, rfl, rfl⟩ := hinstr
      have hce : CodeAt code base c := hc.left
      have hci : CodeAt code (base + e.size) ((withConst st1 (if inc then Op.inc else Op.dec) (.str name)).1 :: cr) := by
        have := hc.right; rwa [s1] at this
      have hcr : CodeAt code (base + e.size + 3) cr := by
        have := hci.tail; simpa [Instr.size, withConst_op, Op.length] using (by cases inc <;> simpa [Instr.size, withConst_op, Op.length] using this)
      have pool1 : ∃ ex, M.consts = (withConst st1 (if inc then Op.inc else Op.dec) (.str name)).2.consts ++ ex := pool_trans hp rr.ext
      obtain ⟨cn, hget, _, hinsp⟩ := withConst_pool st1 (if inc then Op.inc else Op.dec) (.str name) M.consts pool1
      have hname : cn.inspect = name := by rw [hinsp]; simp [Value.inspect]
      have hlt : (withConst st1 (if inc then Op.inc else Op.dec) (.str name)).1.arg < 65536 := by
        have := (List.getElem?_eq_some_iff.mp hget).1
        have := ctx.pool; omega
      have hiop : (withConst st1 (if inc then Op.inc else Op.dec) (.str name)).1.op = (if inc then Op.inc else Op.dec) := rfl
      have hlen3 : (if inc then Op.inc else Op.dec).length = 3 := by cases inc <;> rfl
      have harg : storedArg (withConst st1 (if inc then Op.inc else Op.dec) (.str name)).1 = (withConst st1 (if inc then Op.inc else Op.dec) (.str name)).1.arg := by
        simp [storedArg, hiop, hlen3, Nat.mod_eq_of_lt hlt]
      have pool0 : ∃ ex, M.consts = st1.consts ++ ex := pool_trans pool1 (addConstant_ext st1 (.str name))
      simp only [execSs, hinc] at hnd ⊢
      have hU1 : (evalE M obj env e out).1 ≠ .error undefErr := by
        intro hm; obtain ⟨ox, hx⟩ := fst_err hm; exact hnd (by simp [hx, failE])
      obtain ⟨n1, k1, ih1⟩ := expr_ok e base cst _ hpe h1 M obj code ctx hce pool0 stack env out polls depth hU1
      cases hev : evalE M obj env e out with
      | mk res o1 =>
        cases res with
        | error x => exact ⟨n1, k1, 0, fun fuel => by rw [ih1 fuel, hev]; simp [after, afterS, failE_ne (fun he => hU1 (by rw [hev, he]) : x ≠ undefErr)]⟩
        | ok v =>
          simp only [hev] at hnd
          have hrun1 : ∀ fuel, loop M obj code (fuel + n1) base stack ⟨env, out, polls, depth⟩ =
              loop M obj code fuel (base + e.size) (v :: stack) ⟨env, o1, polls + k1, depth⟩ := by
            intro fuel; rw [ih1 fuel, hev]; rfl
          cases hid : incDecEnv obj env name inc with
          | error x =>
            refine ⟨1 + n1, k1 + 1, 0, ?_⟩
            apply finish_instr hrun1 hci ctx.nd (Or.inl harg) _ harg.symm
            intro fuel
            rw [hiop, step_incdec M obj _ _ _ _ inc v stack _ cn hget, hname]
            simp [hid, afterS, Nat.add_assoc]
          | ok env' =>
            simp only [hid] at hnd
            have hrun2 : ∀ fuel, loop M obj code (fuel + (1 + n1)) base stack ⟨env, out, polls, depth⟩ =
                loop M obj code (fuel + 0) (base + e.size + 3) stack ⟨env', o1, polls + k1 + 1, depth⟩ := by
              apply finish_instr hrun1 hci ctx.nd (Or.inl harg) _ harg.symm
              intro fuel
              rw [hiop, step_incdec M obj _ _ _ _ inc v stack _ cn hget, hname]
              simp [hid, Instr.size, hiop, hlen3]
            obtain ⟨n2, k2, e2, ih2⟩ := ih.Ss rest' _ _ _ hprest hr hcr hp stack env' o1 (polls + k1 + 1) depth hnd
            have h3 := chainE (f := fun x => loop M obj code x (base + e.size + 3) stack ⟨env', o1, polls + k1 + 1, depth⟩) hrun2 n2 ih2
            refine ⟨n2 + (1 + n1), k1 + 1 + k2, 0 + e2, fun fuel => ?_⟩
            rw [h3 fuel]
            simp [Stmt.sizes, Stmt.size, Expr.size, Nat.add_assoc]
    rw [pureSs_other s rest hpair] at hpure
    rw [execSs_other M F obj depth f s rest env out hpair] at hnd ⊢
    simp only [compileStmts, bind_ok_eq, pure, Except.pure] at h
    obtain ⟨⟨c, st1⟩, h1, ⟨cs, st2⟩, h2, h3⟩ := h
    cases h3
    simp only [Bool.and_eq_true] at hpure
    have s1 := compileStmt_size s base cst _ h1
    have r2 := compileStmts_R rest _ _ _ h2
    simp only at s1 r2
    have hcs : CodeAt code base c := hc.left
    have hcr : CodeAt code (base + s.size) cs := by have := hc.right; rwa [s1] at this
    cases hs : execS M F obj depth f s env out with
    | diverged => simp [hs] at hnd
    | returned v env' o' =>
      obtain ⟨n1, k1, e1, ih1⟩ := ih.S s base cst _ hpure.1 h1 hcs (pool_trans hp r2.ext) stack env out polls depth (by simp [hs])
      exact ⟨n1, k1, e1, fun fuel => by rw [ih1 fuel, hs]; simp [afterS]⟩
    | failed e env' o' =>
      obtain ⟨n1, k1, e1, ih1⟩ := ih.S s base cst _ hpure.1 h1 hcs (pool_trans hp r2.ext) stack env out polls depth (by simp [hs])
      exact ⟨n1, k1, e1, fun fuel => by rw [ih1 fuel, hs]; simp [afterS]⟩
    | normal env' o' =>
      obtain ⟨n1, k1, e1, ih1⟩ := ih.S s base cst _ hpure.1 h1 hcs (pool_trans hp r2.ext) stack env out polls depth (by simp [hs])
      have hrun1 : ∀ fuel, loop M obj code (fuel + n1) base stack ⟨env, out, polls, depth⟩ =
          loop M obj code (fuel + e1) (base + s.size) stack ⟨env', o', polls + k1, depth⟩ := by
        intro fuel; rw [ih1 fuel, hs]; rfl
      simp only [hs] at hnd
      obtain ⟨n2, k2, e2, ih2⟩ := ih.Ss rest _ _ _ hpure.2 h2 hcr hp stack env' o' (polls + k1) depth hnd
      have h3 := chainE (f := fun x => loop M obj code x (base + s.size) stack ⟨env', o', polls + k1, depth⟩) hrun1 n2 ih2
      refine ⟨n2 + n1, k1 + k2, e1 + e2, fun fuel => ?_⟩
      rw [h3 fuel]
      simp [Stmt.sizes, Nat.add_assoc]

theorem step_S (ctx : Ctx M code) (hF : FnOK M F obj) (f : Nat) (ihAll : ∀ code', Ctx M code' → SIH M F obj code' f) :
    ∀ (s : Stmt) (base : Nat) (cst : CState) (r : List Instr × CState), pureS s = true →
      compileStmt s base cst = .ok r → CodeAt code base r.1 → (∃ ex, M.consts = r.2.consts ++ ex) →
      ∀ (stack : List Value) (env : Env) (out : Str) (polls depth : Nat), execS M F obj depth (f + 1) s env out ≠ .diverged →
      ∃ n k q, ∀ fuel, loop M obj code (fuel + n) base stack ⟨env, out, polls, depth⟩ =
        afterS M obj code (fuel + q) (base + s.size) stack (polls + k) depth (execS M F obj depth (f + 1) s env out) := by
  have ih := ihAll code ctx
  intro s base cst r hpure h hc hp stack env out polls depth hnd
  cases s with
  | expr e =>
    simp only [compileStmt] at h
    simp only [pureS] at hpure
    simp only [execS] at hnd ⊢
    exact ih.E e base cst r hpure h hc hp stack env out polls depth hnd
  | ret e =>
    simp only [compileStmt, bind_ok_eq, pure, Except.pure] at h
    obtain ⟨⟨c, st1⟩, h1, h3⟩ := h
    cases h3
    have s1 := compileExpr_size e base cst _ h1
    simp only at s1
    have hret : CodeAt code (base + e.size) [⟨Op.return, 0⟩] := by have := hc.right; rwa [s1] at this
    by_cases hcall : ∃ fn args, e = .call fn args
    · obtain ⟨fn, args, rfl⟩ := hcall
      simp only [pureS] at hpure
      simp only [execS] at hnd ⊢
      have hndc : callWith (decide (depth ≥ maxCallDepth)) (fun b e o => execSs M F obj (depth + 1) f b e o) M F obj fn.str args env out ≠ .undefined := by
        intro hx; rw [hx] at hnd; exact hnd rfl
      obtain ⟨n1, k1, q1, ih1⟩ := call_ok ctx hF f ihAll fn args base cst _ hpure h1 hc.left hp stack env out polls depth hndc
      cases hco : callWith (decide (depth ≥ maxCallDepth)) (fun b e o => execSs M F obj (depth + 1) f b e o) M F obj fn.str args env out with
      | undefined => exact absurd hco hndc
      | novalue env' out' => rw [hco] at hnd; exact absurd rfl hnd
      | failed x env' out' => exact ⟨n1, k1, 0, fun fuel => by rw [ih1 fuel, hco]; simp [afterC, afterS]⟩
      | value v env' out' =>
        have hrun : ∀ fuel, loop M obj code (fuel + n1) base stack ⟨env, out, polls, depth⟩ =
            loop M obj code (fuel + q1) (base + (Expr.call fn args).size) (v :: stack) ⟨env', out', polls + k1, depth⟩ := by
          intro fuel; rw [ih1 fuel, hco]; rfl
        refine ⟨1 + n1, k1 + 1, 0, fun fuel => ?_⟩
        rw [stepE hrun hret ctx.nd (Or.inr rfl) 0 (by simp [storedArg, Op.length]) fuel, step_return]
        simp [afterS, Nat.add_assoc]
    have hnc : ∀ fn args, e ≠ .call fn args := fun fn args h => hcall ⟨fn, args, h⟩
    rw [pureS_ret e hnc] at hpure
    rw [execS_ret depth f e env out hnc] at hnd ⊢
    have hU1 : (evalE M obj env e out).1 ≠ .error undefErr := by
      intro hm; obtain ⟨ox, hx⟩ := fst_err hm; exact hnd (by simp [execE, execS, execArm, hx, failE])
    obtain ⟨n1, k1, ih1⟩ := expr_ok e base cst _ hpure h1 M obj code ctx hc.left hp stack env out polls depth hU1
    cases hev : evalE M obj env e out with
    | mk res o1 =>
      cases res with
      | error x =>
        exact ⟨n1, k1, 0, fun fuel => by rw [ih1 fuel, hev]; simp [after, afterS, failE_ne (fun he => hU1 (by rw [hev, he]) : x ≠ undefErr)]⟩
      | ok v =>
        have hrun : ∀ fuel, loop M obj code (fuel + n1) base stack ⟨env, out, polls, depth⟩ =
            loop M obj code fuel (base + e.size) (v :: stack) ⟨env, o1, polls + k1, depth⟩ := by
          intro fuel; rw [ih1 fuel, hev]; rfl
        refine ⟨1 + n1, k1 + 1, 0, ?_⟩
        apply finish_instr hrun hret ctx.nd (Or.inr rfl) 0 (by simp [storedArg, Op.length])
        intro fuel
        rw [step_return]
        simp [afterS, Nat.add_assoc]

theorem step_E (ctx : Ctx M code) (hF : FnOK M F obj) (f : Nat) (ihAll : ∀ code', Ctx M code' → SIH M F obj code' f) :
    ∀ (e : Expr) (base : Nat) (cst : CState) (r : List Instr × CState), stmtE e = true →
      compileExpr e base cst = .ok r → CodeAt code base r.1 → (∃ ex, M.consts = r.2.consts ++ ex) →
      ∀ (stack : List Value) (env : Env) (out : Str) (polls depth : Nat), execE M F obj depth (f + 1) e env out ≠ .diverged →
      ∃ n k q, ∀ fuel, loop M obj code (fuel + n) base stack ⟨env, out, polls, depth⟩ =
        afterS M obj code (fuel + q) (base + e.size) stack (polls + k) depth (execE M F obj depth (f + 1) e env out) := by
  have ih := ihAll code ctx
  intro e base cst r hpure h hc hp stack env out polls depth hnd
  have hlen := ctx.len
  cases e with
  | funcDef fname params body =>
    simp only [compileExpr, bind_ok_eq, pure, Except.pure] at h
    obtain ⟨⟨cb, st1⟩, h1, h3⟩ := h
    cases h3
    exact ⟨0, 0, 0, fun fuel => by simp [afterS, execE, Expr.size]⟩
  | localE name =>
    simp only [compileExpr, pure, Except.pure] at h
    cases h
    have hk : CodeAt code base [(withConst cst .constant (.str name)).1, ⟨.local, 0⟩] := hc
    have hloc : CodeAt code (base + 3) [⟨.local, 0⟩] := by
      have := hk.tail; simpa [Instr.size, withConst_op, Op.length] using this
    obtain ⟨cn, hget, _, hinsp⟩ := withConst_pool cst .constant (.str name) M.consts hp
    have hlt : (withConst cst .constant (.str name)).1.arg < 65536 := by
      have := (List.getElem?_eq_some_iff.mp hget).1
      have := ctx.pool; omega
    have hop : (withConst cst .constant (.str name)).1.op = .constant := rfl
    have harg : storedArg (withConst cst .constant (.str name)).1 = (withConst cst .constant (.str name)).1.arg := by
      simp [storedArg, hop, Op.length, Nat.mod_eq_of_lt hlt]
    have hrun0 : ∀ fuel, loop M obj code (fuel + 0) base stack ⟨env, out, polls, depth⟩ =
        loop M obj code (fuel + 0) base stack ⟨env, out, polls + 0, depth⟩ := fun _ => rfl
    have hrun1 : ∀ fuel, loop M obj code (fuel + (1 + 0)) base stack ⟨env, out, polls, depth⟩ =
        loop M obj code (fuel + 0) (base + 3) (cn :: stack) ⟨env, out, polls + 0 + 1, depth⟩ := by
      intro fuel
      rw [stepE hrun0 hk ctx.nd (Or.inl harg) _ harg.symm fuel, hop, step_constant M obj _ _ _ _ _ _ cn hget]
      simp [Instr.size, hop, Op.length]
    refine ⟨1 + (1 + 0), 0 + 1 + 1, 0, fun fuel => ?_⟩
    rw [stepE hrun1 hloc ctx.nd (Or.inr rfl) 0 (by simp [storedArg, Op.length]) fuel, step_local]
    have hname : cn.inspect = name := by rw [hinsp]; simp [Value.inspect]
    simp [afterS, execE, hname, Expr.size, Instr.size, Op.length, Nat.add_assoc]
  | call fn args =>
    simp only [stmtE] at hpure
    simp only [execE] at hnd ⊢
    have hndc : callWith (decide (depth ≥ maxCallDepth)) (fun b e o => execSs M F obj (depth + 1) f b e o) M F obj fn.str args env out ≠ .undefined := by
      intro hx; rw [hx] at hnd; exact hnd rfl
    obtain ⟨n1, k1, q1, ih1⟩ := call_ok ctx hF f ihAll fn args base cst _ hpure h hc hp stack env out polls depth hndc
    cases hco : callWith (decide (depth ≥ maxCallDepth)) (fun b e o => execSs M F obj (depth + 1) f b e o) M F obj fn.str args env out with
    | undefined => exact absurd hco hndc
    | value v env' out' => rw [hco] at hnd; exact absurd rfl hnd
    | failed x env' out' => exact ⟨n1, k1, 0, fun fuel => by rw [ih1 fuel, hco]; simp [afterC, afterS]⟩
    | novalue env' out' => exact ⟨n1, k1, q1, fun fuel => by rw [ih1 fuel, hco]; simp [afterC, afterS]⟩
  | assign name v =>
    simp only [compileExpr, bind_ok_eq, pure, Except.pure] at h
    obtain ⟨⟨cv, st1⟩, h1, h3⟩ := h
    cases h3
    by_cases hcall : ∃ fn args, v = .call fn args
    · obtain ⟨fn, args, rfl⟩ := hcall
      simp only [stmtE] at hpure
      simp only [execE] at hnd ⊢
      have s1 := compileExpr_size (.call fn args) base cst _ h1
      simp only at s1
      have hk : CodeAt code (base + (Expr.call fn args).size) [(withConst st1 .constant (.str name)).1, ⟨.set, 0⟩] := by
        have := hc.right; rw [s1] at this; simpa using this
      have hset : CodeAt code (base + (Expr.call fn args).size + 3) [⟨.set, 0⟩] := by
        have := hk.tail; simpa [Instr.size, withConst_op, Op.length] using this
      obtain ⟨cn, hget, _, hinsp⟩ := withConst_pool st1 .constant (.str name) M.consts hp
      have hlt : (withConst st1 .constant (.str name)).1.arg < 65536 := by
        have := (List.getElem?_eq_some_iff.mp hget).1
        have := ctx.pool; omega
      have hop : (withConst st1 .constant (.str name)).1.op = .constant := rfl
      have harg : storedArg (withConst st1 .constant (.str name)).1 = (withConst st1 .constant (.str name)).1.arg := by
        simp [storedArg, hop, Op.length, Nat.mod_eq_of_lt hlt]
      have r1 : ∃ ex, M.consts = st1.consts ++ ex := pool_trans hp (addConstant_ext st1 (.str name))
      have hndc : callWith (decide (depth ≥ maxCallDepth)) (fun b e o => execSs M F obj (depth + 1) f b e o) M F obj fn.str args env out ≠ .undefined := by
        intro hx; rw [hx] at hnd; exact hnd rfl
      obtain ⟨n1, k1, q1, ih1⟩ := call_ok ctx hF f ihAll fn args base cst _ hpure h1 hc.left r1 stack env out polls depth hndc
      cases hco : callWith (decide (depth ≥ maxCallDepth)) (fun b e o => execSs M F obj (depth + 1) f b e o) M F obj fn.str args env out with
      | undefined => exact absurd hco hndc
      | novalue env' out' => rw [hco] at hnd; exact absurd rfl hnd
      | failed x env' out' => exact ⟨n1, k1, 0, fun fuel => by rw [ih1 fuel, hco]; simp [afterC, afterS]⟩
      | value x env' out' =>
        have hrun1 : ∀ fuel, loop M obj code (fuel + n1) base stack ⟨env, out, polls, depth⟩ =
            loop M obj code (fuel + q1) (base + (Expr.call fn args).size) (x :: stack) ⟨env', out', polls + k1, depth⟩ := by
          intro fuel; rw [ih1 fuel, hco]; rfl
        have hrun2 : ∀ fuel, loop M obj code (fuel + (1 + n1)) base stack ⟨env, out, polls, depth⟩ =
            loop M obj code (fuel + q1) (base + (Expr.call fn args).size + 3) (cn :: x :: stack) ⟨env', out', polls + k1 + 1, depth⟩ := by
          intro fuel
          rw [stepE hrun1 hk ctx.nd (Or.inl harg) _ harg.symm fuel, hop, step_constant M obj _ _ _ _ _ _ cn hget]
          simp [Instr.size, hop, Op.length]
        refine ⟨1 + (1 + n1), k1 + 1 + 1, q1, fun fuel => ?_⟩
        rw [stepE hrun2 hset ctx.nd (Or.inr rfl) 0 (by simp [storedArg, Op.length]) fuel, step_set]
        have hname : cn.inspect = name := by rw [hinsp]; simp [Value.inspect]
        simp [afterS, hname, Expr.size, Instr.size, Op.length, Nat.add_assoc]
    have hnc : ∀ fn args, v ≠ .call fn args := fun fn args h => hcall ⟨fn, args, h⟩
    rw [stmtE_assign name v hnc] at hpure
    rw [execE_assign depth f name v env out hnc] at hnd ⊢
    have s1 := compileExpr_size v base cst _ h1
    simp only at s1
    have hk : CodeAt code (base + v.size) [(withConst st1 .constant (.str name)).1, ⟨.set, 0⟩] := by
      have := hc.right; rw [s1] at this; simpa using this
    have hset : CodeAt code (base + v.size + 3) [⟨.set, 0⟩] := by
      have := hk.tail; simpa [Instr.size, withConst_op, Op.length] using this
    obtain ⟨cn, hget, _, hinsp⟩ := withConst_pool st1 .constant (.str name) M.consts hp
    have hlt : (withConst st1 .constant (.str name)).1.arg < 65536 := by
      have := (List.getElem?_eq_some_iff.mp hget).1
      have := ctx.pool; omega
    have hop : (withConst st1 .constant (.str name)).1.op = .constant := rfl
    have harg : storedArg (withConst st1 .constant (.str name)).1 = (withConst st1 .constant (.str name)).1.arg := by
      simp [storedArg, hop, Op.length, Nat.mod_eq_of_lt hlt]
    have r1 : ∃ ex, M.consts = st1.consts ++ ex := pool_trans hp (addConstant_ext st1 (.str name))
    have hU1 : (evalE M obj env v out).1 ≠ .error undefErr := by
      intro hm; obtain ⟨ox, hx⟩ := fst_err hm; exact hnd (by simp [execE, execS, execArm, hx, failE])
    obtain ⟨n1, k1, ih1⟩ := expr_ok v base cst _ hpure h1 M obj code ctx hc.left r1 stack env out polls depth hU1
    cases hev : evalE M obj env v out with
    | mk res o1 =>
      cases res with
      | error x => exact ⟨n1, k1, 0, fun fuel => by rw [ih1 fuel, hev]; simp [after, afterS, failE_ne (fun he => hU1 (by rw [hev, he]) : x ≠ undefErr)]⟩
      | ok x =>
        have hrun1 : ∀ fuel, loop M obj code (fuel + n1) base stack ⟨env, out, polls, depth⟩ =
            loop M obj code fuel (base + v.size) (x :: stack) ⟨env, o1, polls + k1, depth⟩ := by
          intro fuel; rw [ih1 fuel, hev]; rfl
        have hrun2 : ∀ fuel, loop M obj code (fuel + (1 + n1)) base stack ⟨env, out, polls, depth⟩ =
            loop M obj code fuel (base + v.size + 3) (cn :: x :: stack) ⟨env, o1, polls + k1 + 1, depth⟩ := by
          apply finish_instr hrun1 hk ctx.nd (Or.inl harg) _ harg.symm
          intro fuel
          rw [hop, step_constant M obj _ _ _ _ _ _ cn hget]
          simp [Instr.size, hop, Op.length]
        refine ⟨1 + (1 + n1), k1 + 1 + 1, 0, ?_⟩
        apply finish_instr hrun2 hset ctx.nd (Or.inr rfl) 0 (by simp [storedArg, Op.length])
        intro fuel
        rw [step_set]
        have hname : cn.inspect = name := by rw [hinsp]; simp [Value.inspect]
        simp [afterS, hname, Expr.size, Instr.size, Op.length, Nat.add_assoc]
  | ifE c cons alt =>
    cases alt with
    | none =>
      simp only [compileExpr, bind_ok_eq, pure, Except.pure] at h
      obtain ⟨⟨cc, st1⟩, h1, ⟨ca, st2⟩, h2, h3⟩ := h
      cases h3
      simp only [stmtE, Bool.and_eq_true] at hpure
      have s1 := compileExpr_size c base cst _ h1
      have s2 := compileStmts_size cons _ _ _ h2
      have r2 := compileStmts_R cons _ _ _ h2
      simp only at s1 s2 r2
      have hbound : base + (c.size + 3 + Stmt.sizes cons + 1) ≤ code.length := by
        have := hc.bound
        simp only [codeSize_append, codeSize_cons, codeSize_nil, s1, s2, Instr.size, Op.length] at this
        omega
      have hcc : CodeAt code base cc := hc.left.left.left
      have hjif : CodeAt code (base + c.size) [⟨.jumpIfFalse, base + c.size + 3 + Stmt.sizes cons⟩] := by
        have := hc.left.left.right; rwa [s1] at this
      have hca : CodeAt code (base + c.size + 3) ca := by
        have := hc.left.right
        simp only [codeSize_append, codeSize_cons, codeSize_nil, s1, Instr.size, Op.length] at this
        exact this.cast (by omega)
      have hph : CodeAt code (base + c.size + 3 + Stmt.sizes cons) [⟨.placeholder, 0⟩] := by
        have := hc.right
        simp only [codeSize_append, codeSize_cons, codeSize_nil, s1, s2, Instr.size, Op.length] at this
        exact this.cast (by omega)
      have hsz : (Expr.ifE c cons none).size = c.size + 3 + Stmt.sizes cons + 1 := by simp [Expr.size]
      have ha1 : storedArg ⟨.jumpIfFalse, base + c.size + 3 + Stmt.sizes cons⟩ = base + c.size + 3 + Stmt.sizes cons := by
        show (if Op.jumpIfFalse.length = 3 then (base + c.size + 3 + Stmt.sizes cons) % 65536 else 0) = base + c.size + 3 + Stmt.sizes cons
        rw [if_pos (by rfl : Op.jumpIfFalse.length = 3), Nat.mod_eq_of_lt (by omega)]
      have hU1 : (evalE M obj env c out).1 ≠ .error undefErr := by
        intro hm; obtain ⟨ox, hx⟩ := fst_err hm; exact hnd (by simp [execE, execS, execArm, hx, failE])
      obtain ⟨n1, k1, ih1⟩ := expr_ok c base cst _ hpure.1 h1 M obj code ctx hcc (pool_trans hp r2.ext) stack env out polls depth hU1
      simp only [execE] at hnd ⊢
      cases hev : evalE M obj env c out with
      | mk res o1 =>
        cases res with
        | error x => exact ⟨n1, k1, 0, fun fuel => by rw [ih1 fuel, hev]; simp [after, afterS, failE_ne (fun he => hU1 (by rw [hev, he]) : x ≠ undefErr)]⟩
        | ok cv =>
          simp only [hev] at hnd
          have hrun1 : ∀ fuel, loop M obj code (fuel + n1) base stack ⟨env, out, polls, depth⟩ =
              loop M obj code fuel (base + c.size) (cv :: stack) ⟨env, o1, polls + k1, depth⟩ := by
            intro fuel; rw [ih1 fuel, hev]; rfl
          by_cases hcv : cv.truthy = true
          · simp only [hcv, ↓reduceIte] at hnd ⊢
            have hrun2 : ∀ fuel, loop M obj code (fuel + (1 + n1)) base stack ⟨env, out, polls, depth⟩ =
                loop M obj code fuel (base + c.size + 3) stack ⟨env, o1, polls + k1 + 1, depth⟩ := by
              apply finish_instr hrun1 hjif ctx.nd (Or.inl ha1) _ ha1.symm
              intro fuel
              rw [step_jif M obj _ _ _ _ _ _ cv (by omega)]
              simp [hcv, Instr.size, Op.length]
            obtain ⟨n2, k2, e2, ih2⟩ := ih.Ss cons _ _ _ hpure.2 h2 hca hp stack env o1 (polls + k1 + 1) depth hnd
            cases hb : execSs M F obj depth f cons env o1 with
            | diverged => exact absurd hb hnd
            | returned v env' o' =>
              refine ⟨n2 + (1 + n1), k1 + 1 + k2, 0, ?_⟩
              apply chain hrun2 n2
              intro fuel; rw [ih2 fuel, hb]; simp [afterS, Nat.add_assoc]
            | failed x env' o' =>
              refine ⟨n2 + (1 + n1), k1 + 1 + k2, 0, ?_⟩
              apply chain hrun2 n2
              intro fuel; rw [ih2 fuel, hb]; simp [afterS, Nat.add_assoc]
            | normal env' o' =>
              have hrun3 : ∀ fuel, loop M obj code (fuel + (n2 + (1 + n1))) base stack ⟨env, out, polls, depth⟩ =
                  loop M obj code (fuel + e2) (base + c.size + 3 + Stmt.sizes cons) stack ⟨env', o', polls + k1 + 1 + k2, depth⟩ := by
                apply chain hrun2 n2
                intro fuel; rw [ih2 fuel, hb]; rfl
              refine ⟨1 + (n2 + (1 + n1)), k1 + 1 + k2 + 1, e2, fun fuel => ?_⟩
              rw [stepE hrun3 hph ctx.nd (Or.inr rfl) 0 (by simp [storedArg, Op.length]) fuel, step_placeholder]
              simp [afterS, hsz, Instr.size, Op.length, Nat.add_assoc]
          · simp only [hcv, Bool.false_eq_true, ↓reduceIte] at hnd ⊢
            have hrun2 : ∀ fuel, loop M obj code (fuel + (1 + n1)) base stack ⟨env, out, polls, depth⟩ =
                loop M obj code fuel (base + c.size + 3 + Stmt.sizes cons) stack ⟨env, o1, polls + k1 + 1, depth⟩ := by
              apply finish_instr hrun1 hjif ctx.nd (Or.inl ha1) _ ha1.symm
              intro fuel
              rw [step_jif M obj _ _ _ _ _ _ cv (by omega)]
              simp [hcv]
            refine ⟨1 + (1 + n1), k1 + 1 + 1, 0, ?_⟩
            apply finish_instr hrun2 hph ctx.nd (Or.inr rfl) 0 (by simp [storedArg, Op.length])
            intro fuel
            rw [step_placeholder]
            simp [afterS, hsz, Instr.size, Op.length, Nat.add_assoc]
    | some a =>
      simp only [compileExpr, bind_ok_eq, pure, Except.pure] at h
      obtain ⟨⟨cc, st1⟩, h1, ⟨ca, st2⟩, h2, ⟨cb, st3⟩, h4, h5⟩ := h
      cases h5
      simp only [stmtE, Bool.and_eq_true] at hpure
      obtain ⟨⟨hpc, hpcons⟩, hpa⟩ := hpure
      have s1 := compileExpr_size c base cst _ h1
      have s2 := compileStmts_size cons _ _ _ h2
      have s3 := compileStmts_size a _ _ _ h4
      have r2 := compileStmts_R cons _ _ _ h2
      have r3 := compileStmts_R a _ _ _ h4
      simp only at s1 s2 s3 r2 r3
      have hbound : base + (c.size + 3 + Stmt.sizes cons + 3 + Stmt.sizes a + 1) ≤ code.length := by
        have := hc.bound
        simp only [codeSize_append, codeSize_cons, codeSize_nil, s1, s2, s3, Instr.size, Op.length] at this
        omega
      have hcc : CodeAt code base cc := hc.left.left.left.left.left
      have hjif : CodeAt code (base + c.size) [⟨.jumpIfFalse, base + c.size + 3 + Stmt.sizes cons + 3⟩] := by
        have := hc.left.left.left.left.right; rwa [s1] at this
      have hca : CodeAt code (base + c.size + 3) ca := by
        have := hc.left.left.left.right
        simp only [codeSize_append, codeSize_cons, codeSize_nil, s1, Instr.size, Op.length] at this
        exact this.cast (by omega)
      have hjmp : CodeAt code (base + c.size + 3 + Stmt.sizes cons) [⟨.jump, base + c.size + 3 + Stmt.sizes cons + 3 + Stmt.sizes a⟩] := by
        have := hc.left.left.right
        simp only [codeSize_append, codeSize_cons, codeSize_nil, s1, s2, Instr.size, Op.length] at this
        exact this.cast (by omega)
      have hcb : CodeAt code (base + c.size + 3 + Stmt.sizes cons + 3) cb := by
        have := hc.left.right
        simp only [codeSize_append, codeSize_cons, codeSize_nil, s1, s2, Instr.size, Op.length] at this
        exact this.cast (by omega)
      have hph : CodeAt code (base + c.size + 3 + Stmt.sizes cons + 3 + Stmt.sizes a) [⟨.placeholder, 0⟩] := by
        have := hc.right
        simp only [codeSize_append, codeSize_cons, codeSize_nil, s1, s2, s3, Instr.size, Op.length] at this
        exact this.cast (by omega)
      have hsz : (Expr.ifE c cons (some a)).size = c.size + 3 + Stmt.sizes cons + 3 + Stmt.sizes a + 1 := by
        simp [Expr.size]; omega
      have ha1 : storedArg ⟨.jumpIfFalse, base + c.size + 3 + Stmt.sizes cons + 3⟩ = base + c.size + 3 + Stmt.sizes cons + 3 := by
        show (if Op.jumpIfFalse.length = 3 then (base + c.size + 3 + Stmt.sizes cons + 3) % 65536 else 0) = base + c.size + 3 + Stmt.sizes cons + 3
        rw [if_pos (by rfl : Op.jumpIfFalse.length = 3), Nat.mod_eq_of_lt (by omega)]
      have ha2 : storedArg ⟨.jump, base + c.size + 3 + Stmt.sizes cons + 3 + Stmt.sizes a⟩ = base + c.size + 3 + Stmt.sizes cons + 3 + Stmt.sizes a := by
        show (if Op.jump.length = 3 then (base + c.size + 3 + Stmt.sizes cons + 3 + Stmt.sizes a) % 65536 else 0) = base + c.size + 3 + Stmt.sizes cons + 3 + Stmt.sizes a
        rw [if_pos (by rfl : Op.jump.length = 3), Nat.mod_eq_of_lt (by omega)]
      have hU1 : (evalE M obj env c out).1 ≠ .error undefErr := by
        intro hm; obtain ⟨ox, hx⟩ := fst_err hm; exact hnd (by simp [execE, execS, execArm, hx, failE])
      obtain ⟨n1, k1, ih1⟩ := expr_ok c base cst _ hpc h1 M obj code ctx hcc
        (pool_trans (pool_trans hp r3.ext) r2.ext) stack env out polls depth hU1
      simp only [execE] at hnd ⊢
      cases hev : evalE M obj env c out with
      | mk res o1 =>
        cases res with
        | error x => exact ⟨n1, k1, 0, fun fuel => by rw [ih1 fuel, hev]; simp [after, afterS, failE_ne (fun he => hU1 (by rw [hev, he]) : x ≠ undefErr)]⟩
        | ok cv =>
          simp only [hev] at hnd
          have hrun1 : ∀ fuel, loop M obj code (fuel + n1) base stack ⟨env, out, polls, depth⟩ =
              loop M obj code fuel (base + c.size) (cv :: stack) ⟨env, o1, polls + k1, depth⟩ := by
            intro fuel; rw [ih1 fuel, hev]; rfl
          by_cases hcv : cv.truthy = true
          · simp only [hcv, ↓reduceIte] at hnd ⊢
            have hrun2 : ∀ fuel, loop M obj code (fuel + (1 + n1)) base stack ⟨env, out, polls, depth⟩ =
                loop M obj code fuel (base + c.size + 3) stack ⟨env, o1, polls + k1 + 1, depth⟩ := by
              apply finish_instr hrun1 hjif ctx.nd (Or.inl ha1) _ ha1.symm
              intro fuel
              rw [step_jif M obj _ _ _ _ _ _ cv (by omega)]
              simp [hcv, Instr.size, Op.length]
            obtain ⟨n2, k2, e2, ih2⟩ := ih.Ss cons _ _ _ hpcons h2 hca (pool_trans hp r3.ext) stack env o1 (polls + k1 + 1) depth hnd
            cases hb : execSs M F obj depth f cons env o1 with
            | diverged => exact absurd hb hnd
            | returned v env' o' =>
              refine ⟨n2 + (1 + n1), k1 + 1 + k2, 0, ?_⟩
              apply chain hrun2 n2
              intro fuel; rw [ih2 fuel, hb]; simp [afterS, Nat.add_assoc]
            | failed x env' o' =>
              refine ⟨n2 + (1 + n1), k1 + 1 + k2, 0, ?_⟩
              apply chain hrun2 n2
              intro fuel; rw [ih2 fuel, hb]; simp [afterS, Nat.add_assoc]
            | normal env' o' =>
              have hrun3 : ∀ fuel, loop M obj code (fuel + (n2 + (1 + n1))) base stack ⟨env, out, polls, depth⟩ =
                  loop M obj code (fuel + e2) (base + c.size + 3 + Stmt.sizes cons) stack ⟨env', o', polls + k1 + 1 + k2, depth⟩ := by
                apply chain hrun2 n2
                intro fuel; rw [ih2 fuel, hb]; rfl
              have hrun4 : ∀ fuel, loop M obj code (fuel + (1 + (n2 + (1 + n1)))) base stack ⟨env, out, polls, depth⟩ =
                  loop M obj code (fuel + e2) (base + c.size + 3 + Stmt.sizes cons + 3 + Stmt.sizes a) stack ⟨env', o', polls + k1 + 1 + k2 + 1, depth⟩ := by
                intro fuel
                rw [stepE hrun3 hjmp ctx.nd (Or.inl ha2) _ ha2.symm fuel, step_jump M obj _ _ _ _ _ _ (by omega)]
              refine ⟨1 + (1 + (n2 + (1 + n1))), k1 + 1 + k2 + 1 + 1, e2, fun fuel => ?_⟩
              rw [stepE hrun4 hph ctx.nd (Or.inr rfl) 0 (by simp [storedArg, Op.length]) fuel, step_placeholder]
              simp [afterS, hsz, Instr.size, Op.length, Nat.add_assoc]
          · simp only [hcv, Bool.false_eq_true, ↓reduceIte] at hnd ⊢
            have hrun2 : ∀ fuel, loop M obj code (fuel + (1 + n1)) base stack ⟨env, out, polls, depth⟩ =
                loop M obj code fuel (base + c.size + 3 + Stmt.sizes cons + 3) stack ⟨env, o1, polls + k1 + 1, depth⟩ := by
              apply finish_instr hrun1 hjif ctx.nd (Or.inl ha1) _ ha1.symm
              intro fuel
              rw [step_jif M obj _ _ _ _ _ _ cv (by omega)]
              simp [hcv]
            obtain ⟨n2, k2, e2, ih2⟩ := ih.Ss a _ _ _ hpa h4 hcb hp stack env o1 (polls + k1 + 1) depth hnd
            cases hb : execSs M F obj depth f a env o1 with
            | diverged => exact absurd hb hnd
            | returned v env' o' =>
              refine ⟨n2 + (1 + n1), k1 + 1 + k2, 0, ?_⟩
              apply chain hrun2 n2
              intro fuel; rw [ih2 fuel, hb]; simp [afterS, Nat.add_assoc]
            | failed x env' o' =>
              refine ⟨n2 + (1 + n1), k1 + 1 + k2, 0, ?_⟩
              apply chain hrun2 n2
              intro fuel; rw [ih2 fuel, hb]; simp [afterS, Nat.add_assoc]
            | normal env' o' =>
              have hrun3 : ∀ fuel, loop M obj code (fuel + (n2 + (1 + n1))) base stack ⟨env, out, polls, depth⟩ =
                  loop M obj code (fuel + e2) (base + c.size + 3 + Stmt.sizes cons + 3 + Stmt.sizes a) stack ⟨env', o', polls + k1 + 1 + k2, depth⟩ := by
                apply chain hrun2 n2
                intro fuel; rw [ih2 fuel, hb]; rfl
              refine ⟨1 + (n2 + (1 + n1)), k1 + 1 + k2 + 1, e2, fun fuel => ?_⟩
              rw [stepE hrun3 hph ctx.nd (Or.inr rfl) 0 (by simp [storedArg, Op.length]) fuel, step_placeholder]
              simp [afterS, hsz, Instr.size, Op.length, Nat.add_assoc]
  | whileE c body =>
    have hcomp := h
    simp only [compileExpr, bind_ok_eq, pure, Except.pure] at h
    obtain ⟨⟨cc, st1⟩, h1, ⟨cb, st2⟩, h2, h3⟩ := h
    cases h3
    have hpure' := hpure
    simp only [stmtE, Bool.and_eq_true] at hpure
    have s1 := compileExpr_size c base cst _ h1
    have s2 := compileStmts_size body _ _ _ h2
    have r2 := compileStmts_R body _ _ _ h2
    simp only at s1 s2 r2
    have hbound : base + (c.size + 3 + Stmt.sizes body + 3 + 1) ≤ code.length := by
      have := hc.bound
      simp only [codeSize_append, codeSize_cons, codeSize_nil, s1, s2, Instr.size, Op.length] at this
      omega
    have hcc : CodeAt code base cc := hc.left.left.left
    have hjif : CodeAt code (base + c.size) [⟨.jumpIfFalse, base + c.size + 3 + Stmt.sizes body + 3⟩] := by
      have := hc.left.left.right; rwa [s1] at this
    have hcb : CodeAt code (base + c.size + 3) cb := by
      have := hc.left.right
      simp only [codeSize_append, codeSize_cons, codeSize_nil, s1, Instr.size, Op.length] at this
      exact this.cast (by omega)
    have hjmp : CodeAt code (base + c.size + 3 + Stmt.sizes body) [⟨.jump, base⟩, ⟨.placeholder, 0⟩] := by
      have := hc.right
      simp only [codeSize_append, codeSize_cons, codeSize_nil, s1, s2, Instr.size, Op.length] at this
      exact this.cast (by omega)
    have hph : CodeAt code (base + c.size + 3 + Stmt.sizes body + 3) [⟨.placeholder, 0⟩] := by
      have := hjmp.tail; simpa [Instr.size, Op.length] using this
    have hsz : (Expr.whileE c body).size = c.size + 3 + Stmt.sizes body + 3 + 1 := by simp [Expr.size]
    have ha1 : storedArg ⟨.jumpIfFalse, base + c.size + 3 + Stmt.sizes body + 3⟩ = base + c.size + 3 + Stmt.sizes body + 3 := by
      show (if Op.jumpIfFalse.length = 3 then (base + c.size + 3 + Stmt.sizes body + 3) % 65536 else 0) = base + c.size + 3 + Stmt.sizes body + 3
      rw [if_pos (by rfl : Op.jumpIfFalse.length = 3), Nat.mod_eq_of_lt (by omega)]
    have ha2 : storedArg ⟨.jump, base⟩ = base := by
      show (if Op.jump.length = 3 then base % 65536 else 0) = base
      rw [if_pos (by rfl : Op.jump.length = 3), Nat.mod_eq_of_lt (by omega)]
    have hU1 : (evalE M obj env c out).1 ≠ .error undefErr := by
      intro hm; obtain ⟨ox, hx⟩ := fst_err hm; exact hnd (by simp [execE, execS, execArm, hx, failE])
    obtain ⟨n1, k1, ih1⟩ := expr_ok c base cst _ hpure.1 h1 M obj code ctx hcc (pool_trans hp r2.ext) stack env out polls depth hU1
    simp only [execE] at hnd ⊢
    cases hev : evalE M obj env c out with
    | mk res o1 =>
      cases res with
      | error x => exact ⟨n1, k1, 0, fun fuel => by rw [ih1 fuel, hev]; simp [after, afterS, failE_ne (fun he => hU1 (by rw [hev, he]) : x ≠ undefErr)]⟩
      | ok cv =>
        simp only [hev] at hnd
        have hrun1 : ∀ fuel, loop M obj code (fuel + n1) base stack ⟨env, out, polls, depth⟩ =
            loop M obj code fuel (base + c.size) (cv :: stack) ⟨env, o1, polls + k1, depth⟩ := by
          intro fuel; rw [ih1 fuel, hev]; rfl
        by_cases hcv : cv.truthy = true
        · simp only [hcv, ↓reduceIte] at hnd ⊢
          have hrun2 : ∀ fuel, loop M obj code (fuel + (1 + n1)) base stack ⟨env, out, polls, depth⟩ =
              loop M obj code fuel (base + c.size + 3) stack ⟨env, o1, polls + k1 + 1, depth⟩ := by
            apply finish_instr hrun1 hjif ctx.nd (Or.inl ha1) _ ha1.symm
            intro fuel
            rw [step_jif M obj _ _ _ _ _ _ cv (by omega)]
            simp [hcv, Instr.size, Op.length]
          cases hb : execSs M F obj depth f body env o1 with
          | diverged => simp [hb] at hnd
          | returned v env' o' =>
            obtain ⟨n2, k2, e2, ih2⟩ := ih.Ss body _ _ _ hpure.2 h2 hcb hp stack env o1 (polls + k1 + 1) depth (by simp [hb])
            refine ⟨n2 + (1 + n1), k1 + 1 + k2, 0, ?_⟩
            apply chain hrun2 n2
            intro fuel; rw [ih2 fuel, hb]; simp [afterS, Nat.add_assoc]
          | failed x env' o' =>
            obtain ⟨n2, k2, e2, ih2⟩ := ih.Ss body _ _ _ hpure.2 h2 hcb hp stack env o1 (polls + k1 + 1) depth (by simp [hb])
            refine ⟨n2 + (1 + n1), k1 + 1 + k2, 0, ?_⟩
            apply chain hrun2 n2
            intro fuel; rw [ih2 fuel, hb]; simp [afterS, Nat.add_assoc]
          | normal env' o' =>
            obtain ⟨n2, k2, e2, ih2⟩ := ih.Ss body _ _ _ hpure.2 h2 hcb hp stack env o1 (polls + k1 + 1) depth (by simp [hb])
            simp only [hb] at hnd
            have hrun3 : ∀ fuel, loop M obj code (fuel + (n2 + (1 + n1))) base stack ⟨env, out, polls, depth⟩ =
                loop M obj code (fuel + e2) (base + c.size + 3 + Stmt.sizes body) stack ⟨env', o', polls + k1 + 1 + k2, depth⟩ := by
              apply chain hrun2 n2
              intro fuel; rw [ih2 fuel, hb]; rfl
            -- the back jump, then the loop again (induction hypothesis for the same loop, smaller budget)
            have hrun4 : ∀ fuel, loop M obj code (fuel + (1 + (n2 + (1 + n1)))) base stack ⟨env, out, polls, depth⟩ =
                loop M obj code (fuel + e2) base stack ⟨env', o', polls + k1 + 1 + k2 + 1, depth⟩ := by
              intro fuel
              rw [stepE hrun3 hjmp ctx.nd (Or.inl ha2) _ ha2.symm fuel, step_jump M obj _ _ _ _ _ _ (by omega)]
            obtain ⟨n3, k3, e3, ih3⟩ := ih.E (.whileE c body) base cst _ hpure' hcomp hc hp stack env' o' (polls + k1 + 1 + k2 + 1) depth hnd
            have h5 := chainE (f := fun y => loop M obj code y base stack ⟨env', o', polls + k1 + 1 + k2 + 1, depth⟩) hrun4 n3 ih3
            refine ⟨n3 + (1 + (n2 + (1 + n1))), k1 + 1 + k2 + 1 + k3, e2 + e3, fun fuel => ?_⟩
            rw [h5 fuel]; simp [Nat.add_assoc]
        · simp only [hcv, Bool.false_eq_true, ↓reduceIte] at hnd ⊢
          have hrun2 : ∀ fuel, loop M obj code (fuel + (1 + n1)) base stack ⟨env, out, polls, depth⟩ =
              loop M obj code fuel (base + c.size + 3 + Stmt.sizes body + 3) stack ⟨env, o1, polls + k1 + 1, depth⟩ := by
            apply finish_instr hrun1 hjif ctx.nd (Or.inl ha1) _ ha1.symm
            intro fuel
            rw [step_jif M obj _ _ _ _ _ _ cv (by omega)]
            simp [hcv]
          refine ⟨1 + (1 + n1), k1 + 1 + 1, 0, ?_⟩
          apply finish_instr hrun2 hph ctx.nd (Or.inr rfl) 0 (by simp [storedArg, Op.length])
          intro fuel
          rw [step_placeholder]
          simp [afterS, hsz, Instr.size, Op.length, Nat.add_assoc]
  | foreachE idx x v body =>
    simp only [stmtE, Bool.and_eq_true] at hpure
    obtain ⟨cv, st1, cb, ci, cx, L⟩ := foreach_layout h hc hp
    have hres := L.atReset
    have hU1 : (evalE M obj env v out).1 ≠ .error undefErr := by
      intro hm; obtain ⟨ox, hx⟩ := fst_err hm; exact hnd (by simp [execE, execS, execArm, hx, failE])
    obtain ⟨n1, k1, ih1⟩ := expr_ok v base cst _ hpure.1 L.hv M obj code ctx L.atv L.pool1 stack env out polls depth hU1
    simp only [execE] at hnd ⊢
    cases hev : evalE M obj env v out with
    | mk res o1 =>
      cases res with
      | error e => exact ⟨n1, k1, 0, fun fuel => by rw [ih1 fuel, hev]; simp [after, afterS, failE_ne (fun he => hU1 (by rw [hev, he]) : e ≠ undefErr)]⟩
      | ok iv =>
        simp only [hev] at hnd
        have hrun1 : ∀ fuel, loop M obj code (fuel + n1) base stack ⟨env, out, polls, depth⟩ =
            loop M obj code fuel (base + v.size) (iv :: stack) ⟨env, o1, polls + k1, depth⟩ := by
          intro fuel; rw [ih1 fuel, hev]; rfl
        cases hrv : resetVal iv with
        | error e =>
          refine ⟨1 + n1, k1 + 1, 0, ?_⟩
          apply finish_instr hrun1 hres ctx.nd (Or.inr rfl) 0 (by simp [storedArg, Op.length])
          intro fuel
          rw [step_iterReset_err M obj _ _ _ _ _ e _ _ hrv]
          simp [afterS, hrv, Nat.add_assoc]
        | ok it =>
          simp only [hrv] at hnd
          have hrun2 : ∀ fuel, loop M obj code (fuel + (1 + n1)) base stack ⟨env, out, polls, depth⟩ =
              loop M obj code fuel (base + v.size + 1) (.iterating it 0 :: stack) ⟨env.addScope, o1, polls + k1 + 1, depth⟩ := by
            apply finish_instr hrun1 hres ctx.nd (Or.inr rfl) 0 (by simp [storedArg, Op.length])
            intro fuel
            rw [step_iterReset_ok M obj _ _ _ _ _ it _ _ hrv]
            simp [Instr.size, Op.length]
          obtain ⟨n2, k2, e2, ih2⟩ := ih.I idx x v body base cst r hpure.1 hpure.2 h hc hp it 0 stack env.addScope o1 (polls + k1 + 1) depth hnd
          refine ⟨n2 + (1 + n1), k1 + 1 + k2, e2, ?_⟩
          apply chain hrun2 n2
          intro fuel
          rw [ih2 fuel]
          simp [hrv, Nat.add_assoc]
  | switchE v cs =>
    simp only [stmtE, Bool.and_eq_true] at hpure
    simp only [compileExpr, bind_ok_eq, pure, Except.pure] at h
    obtain ⟨st0, h0, ⟨ca, st1⟩, h1, ⟨cd, st2⟩, h2, h3⟩ := h
    cases h3
    have s1 := compileArms_size (fun b s => compileExpr v b s) v.size (fun bb s r hr => compileExpr_size v bb s r hr) cs _ _ _ _ h1
    have s2 := compileDefaults_size cs _ _ _ h2
    have r2 := compileDefaults_R cs _ _ _ h2
    simp only at s1 s2 r2
    have hbound := hc.bound
    simp only [codeSize_append, codeSize_cons, codeSize_nil, s1, s2, Instr.size, Op.length] at hbound
    have hca : CodeAt code base ca := hc.left.left
    have hcd : CodeAt code (base + Case.armsSize v.size cs) cd := by
      have := hc.left.right; rwa [s1] at this
    have hph : CodeAt code (base + Case.armsSize v.size cs + Case.defaultsSize cs) [⟨.placeholder, 0⟩] := by
      have := hc.right
      simp only [codeSize_append, s1, s2] at this
      exact this.cast (by omega)
    have hsz : (Expr.switchE v cs).size = Case.armsSize v.size cs + Case.defaultsSize cs + 1 := by simp [Expr.size]
    have hend : base + Case.armsSize v.size cs + Case.defaultsSize cs < code.length := by omega
    -- one placeholder turn at the end of the switch
    have hfin : ∀ (n k q : Nat) (env' : Env) (o' : Str),
        (∀ fuel, loop M obj code (fuel + n) base stack ⟨env, out, polls, depth⟩ =
          loop M obj code (fuel + q) (base + Case.armsSize v.size cs + Case.defaultsSize cs) stack ⟨env', o', polls + k, depth⟩) →
        ∀ fuel, loop M obj code (fuel + (1 + n)) base stack ⟨env, out, polls, depth⟩ =
          afterS M obj code (fuel + q) (base + (Expr.switchE v cs).size) stack (polls + (k + 1)) depth (.normal env' o') := by
      intro n k q env' o' hrun fuel
      rw [stepE hrun hph ctx.nd (Or.inr rfl) 0 (by simp [storedArg, Op.length]) fuel, step_placeholder]
      simp [afterS, hsz, Instr.size, Op.length, Nat.add_assoc]
    simp only [execE] at hnd ⊢
    have hnd1 : execArms M F obj depth f v cs env out ≠ .done .diverged := by
      intro hx; rw [hx] at hnd; exact hnd rfl
    obtain ⟨n1, k1, e1, ih1⟩ := ih.Am v cs base _ _ _ hpure.1 hpure.2 h1 hca (pool_trans hp r2.ext) hend (by omega)
      stack env out polls depth hnd1
    cases ha : execArms M F obj depth f v cs env out with
    | done o =>
      simp only [ha] at hnd ⊢
      cases o with
      | diverged => exact absurd rfl hnd
      | returned rv env' o' => exact ⟨n1, k1, 0, fun fuel => by rw [ih1 fuel, ha]; simp [afterA, afterS]⟩
      | failed x env' o' => exact ⟨n1, k1, 0, fun fuel => by rw [ih1 fuel, ha]; simp [afterA, afterS]⟩
      | normal env' o' =>
        exact ⟨1 + n1, k1 + 1, e1, hfin n1 k1 e1 env' o' (fun fuel => by rw [ih1 fuel, ha]; rfl)⟩
    | next env' out' =>
      simp only [ha] at hnd ⊢
      have hrun1 : ∀ fuel, loop M obj code (fuel + n1) base stack ⟨env, out, polls, depth⟩ =
          loop M obj code (fuel + e1) (base + Case.armsSize v.size cs) stack ⟨env', out', polls + k1, depth⟩ := by
        intro fuel; rw [ih1 fuel, ha]; rfl
      obtain ⟨n2, k2, e2, ih2⟩ := ih.Dm cs _ _ _ hpure.2 h2 hcd hp stack env' out' (polls + k1) depth hnd
      have h3 := chainE (f := fun y => loop M obj code y (base + Case.armsSize v.size cs) stack ⟨env', out', polls + k1, depth⟩) hrun1 n2 ih2
      cases hb : execDefaults M F obj depth f cs env' out' with
      | diverged => exact absurd hb hnd
      | returned rv env2 o2 =>
        exact ⟨n2 + n1, k1 + k2, 0, fun fuel => by rw [h3 fuel, hb]; simp [afterS, Nat.add_assoc]⟩
      | failed x env2 o2 =>
        exact ⟨n2 + n1, k1 + k2, 0, fun fuel => by rw [h3 fuel, hb]; simp [afterS, Nat.add_assoc]⟩
      | normal env2 o2 =>
        have hrun2 : ∀ fuel, loop M obj code (fuel + (n2 + n1)) base stack ⟨env, out, polls, depth⟩ =
            loop M obj code (fuel + (e1 + e2)) (base + Case.armsSize v.size cs + Case.defaultsSize cs) stack ⟨env2, o2, polls + (k1 + k2), depth⟩ := by
          intro fuel; rw [h3 fuel, hb]; simp [afterS, Nat.add_assoc]
        exact ⟨1 + (n2 + n1), k1 + k2 + 1, e1 + e2, hfin _ _ _ env2 o2 hrun2⟩
  | «infix» op l r =>
    cases l with
    | ident name =>
      simp only [stmtE, Bool.and_eq_true] at hpure
      obtain ⟨hcomp, hpr⟩ := hpure
      simp only [compileExpr, bind_ok_eq, pure, Except.pure] at h
      obtain ⟨⟨cl, st1⟩, h1, ⟨cr, st2⟩, h2, h3⟩ := h
      simp only [hcomp, ↓reduceIte] at h3
      cases hco : compoundOp op with
      | none => simp [hco] at h3
      | some o =>
        simp only [hco] at h3
        cases h3
        have hbin : isBinary o = true := by
          unfold compoundOp at hco; split at hco <;> first | (cases hco; rfl) | cases hco
        have hol : o.length = 1 := compoundOp_len hco
        have s1 := compileExpr_size (.ident name) base cst _ h1
        have s2 := compileExpr_size r _ _ _ h2
        have r2 := compileExpr_R r _ _ _ h2
        simp only at s1 s2 r2
        have hsl : (Expr.ident name).size = 3 := by simp [Expr.size]
        have hcl : CodeAt code base cl := hc.left.left
        have hcr : CodeAt code (base + (Expr.ident name).size) cr := by
          have := hc.left.right; rwa [s1] at this
        have hop : CodeAt code (base + (Expr.ident name).size + r.size) [⟨o, 0⟩, (withConst st2 .constant (.str name)).1, ⟨.set, 0⟩] := by
          have := hc.right
          simp only [codeSize_append, s1, s2] at this
          exact this.cast (by omega)
        have hk : CodeAt code (base + (Expr.ident name).size + r.size + 1) [(withConst st2 .constant (.str name)).1, ⟨.set, 0⟩] := by
          have := hop.tail; simpa only [Instr.size, hol] using this
        have hset : CodeAt code (base + (Expr.ident name).size + r.size + 1 + 3) [⟨.set, 0⟩] := by
          have := hk.tail; simpa [Instr.size, withConst_op, Op.length] using this
        obtain ⟨cn, hget, _, hinsp⟩ := withConst_pool st2 .constant (.str name) M.consts hp
        have hlt : (withConst st2 .constant (.str name)).1.arg < 65536 := by
          have := (List.getElem?_eq_some_iff.mp hget).1
          have := ctx.pool; omega
        have hkop : (withConst st2 .constant (.str name)).1.op = .constant := rfl
        have harg : storedArg (withConst st2 .constant (.str name)).1 = (withConst st2 .constant (.str name)).1.arg := by
          simp [storedArg, hkop, Op.length, Nat.mod_eq_of_lt hlt]
        have p2 : ∃ ex, M.consts = st2.consts ++ ex := pool_trans hp (addConstant_ext st2 (.str name))
        have p1 : ∃ ex, M.consts = st1.consts ++ ex := pool_trans p2 r2.ext
        have hU1 : (evalE M obj env (.ident name) out).1 ≠ .error undefErr := by
          intro hm; obtain ⟨ox, hx⟩ := fst_err hm; exact hnd (by simp [execE, hco, hx, failE])
        obtain ⟨n1, k1, ih1⟩ := expr_ok (.ident name) base cst _ (by simp [pureE]) h1 M obj code ctx hcl p1 stack env out polls depth hU1
        simp only [execE, hco]
        cases hev : evalE M obj env (.ident name) out with
        | mk res o1 =>
          cases res with
          | error x => exact ⟨n1, k1, 0, fun fuel => by rw [ih1 fuel, hev]; simp [after, afterS, failE_ne (fun he => hU1 (by rw [hev, he]) : x ≠ undefErr)]⟩
          | ok lv =>
            have hrun1 : ∀ fuel, loop M obj code (fuel + n1) base stack ⟨env, out, polls, depth⟩ =
                loop M obj code fuel (base + (Expr.ident name).size) (lv :: stack) ⟨env, o1, polls + k1, depth⟩ := by
              intro fuel; rw [ih1 fuel, hev]; rfl
            have hU2 : (evalE M obj env r o1).1 ≠ .error undefErr := by
              intro hm; obtain ⟨ox, hx⟩ := fst_err hm; exact hnd (by simp [execE, hco, hev, hx, failE])
            obtain ⟨n2, k2, ih2⟩ := expr_ok r _ _ _ hpr h2 M obj code ctx hcr p2 (lv :: stack) env o1 (polls + k1) depth hU2
            simp only []
            cases hev2 : evalE M obj env r o1 with
            | mk res2 o2 =>
              cases res2 with
              | error x =>
                refine ⟨n2 + n1, k1 + k2, 0, ?_⟩
                apply chain hrun1 n2
                intro fuel; rw [ih2 fuel]; simp [hev2, after, afterS, Nat.add_assoc, failE_ne (fun he => hU2 (by rw [hev2, he]) : x ≠ undefErr)]
              | ok rv =>
                simp only []
                have hrun2 : ∀ fuel, loop M obj code (fuel + (n2 + n1)) base stack ⟨env, out, polls, depth⟩ =
                    loop M obj code fuel (base + (Expr.ident name).size + r.size) (rv :: lv :: stack) ⟨env, o2, polls + k1 + k2, depth⟩ := by
                  apply chain hrun1 n2
                  intro fuel; rw [ih2 fuel, hev2]; rfl
                cases hb : binop M o lv rv with
                | error x =>
                  refine ⟨1 + (n2 + n1), k1 + k2 + 1, 0, ?_⟩
                  apply finish_instr hrun2 hop ctx.nd (Or.inr hol) 0 (by simp [storedArg, hol])
                  intro fuel
                  rw [step_binary_err M obj _ _ _ _ _ o hbin _ _ _ _ hb]
                  simp [afterS, Nat.add_assoc]
                | ok p =>
                  obtain ⟨v, o3⟩ := p
                  simp only []
                  have hrun3 : ∀ fuel, loop M obj code (fuel + (1 + (n2 + n1))) base stack ⟨env, out, polls, depth⟩ =
                      loop M obj code fuel (base + (Expr.ident name).size + r.size + 1) (v :: stack) ⟨env, o2 ++ o3, polls + k1 + k2 + 1, depth⟩ := by
                    apply finish_instr hrun2 hop ctx.nd (Or.inr hol) 0 (by simp [storedArg, hol])
                    intro fuel
                    rw [step_binary_ok M obj _ _ _ _ _ o hbin _ _ _ _ _ hb]
                    simp [Instr.size, hol]
                  have hrun4 : ∀ fuel, loop M obj code (fuel + (1 + (1 + (n2 + n1)))) base stack ⟨env, out, polls, depth⟩ =
                      loop M obj code fuel (base + (Expr.ident name).size + r.size + 1 + 3) (cn :: v :: stack) ⟨env, o2 ++ o3, polls + k1 + k2 + 1 + 1, depth⟩ := by
                    apply finish_instr hrun3 hk ctx.nd (Or.inl harg) _ harg.symm
                    intro fuel
                    rw [hkop, step_constant M obj _ _ _ _ _ _ cn hget]
                    simp [Instr.size, hkop, Op.length]
                  refine ⟨1 + (1 + (1 + (n2 + n1))), k1 + k2 + 1 + 1 + 1, 0, ?_⟩
                  apply finish_instr hrun4 hset ctx.nd (Or.inr rfl) 0 (by simp [storedArg, Op.length])
                  intro fuel
                  rw [step_set]
                  have hname : cn.inspect = name := by rw [hinsp]; simp [Value.inspect]
                  simp [afterS, hname, Expr.size, hcomp, Instr.size, Op.length, Nat.add_assoc]
    | _ => simp [stmtE] at hpure
  | _ => simp [stmtE] at hpure



theorem step_Rm (ctx : Ctx M code) (f : Nat) (ihAll : ∀ code', Ctx M code' → SIH M F obj code' f) :
    ∀ (v : Expr) (es : List Expr) (b : List Stmt) (base endPos : Nat) (cst : CState) (r : List Instr × CState),
      pureE v = true → pureEs es = true → pureSs b = true →
      compileArm (fun b s => compileExpr v b s) v.size (fun bs s => compileStmts b bs s) (Stmt.sizes b) es base endPos cst = .ok r →
      CodeAt code base r.1 → (∃ ex, M.consts = r.2.consts ++ ex) → endPos < code.length →
      base + Case.armSize v.size (Stmt.sizes b) es ≤ endPos →
      ∀ (stack : List Value) (env : Env) (out : Str) (polls depth : Nat), execArm M F obj depth (f + 1) v es b env out ≠ .done .diverged →
      ∃ n k q, ∀ fuel, loop M obj code (fuel + n) base stack ⟨env, out, polls, depth⟩ =
        afterA M obj code (fuel + q) endPos (base + Case.armSize v.size (Stmt.sizes b) es) stack (polls + k) depth
          (execArm M F obj depth (f + 1) v es b env out) := by
  have ih := ihAll code ctx
  intro v es b base endPos cst r hpv hpes hpb h hc hp hend hle stack env out polls depth hnd
  have hlen := ctx.len
  cases es with
  | nil =>
    simp only [compileArm, pure, Except.pure] at h
    cases h
    exact ⟨0, 0, 0, fun fuel => by simp [execArm, afterA, Case.armSize]⟩
  | cons e rest =>
    simp only [pureEs, Bool.and_eq_true] at hpes
    simp only [compileArm, bind_ok_eq, pure, Except.pure] at h
    obtain ⟨⟨cv', st1⟩, h1, ⟨ce, st2⟩, h2, ⟨cb, st3⟩, h3, ⟨cr, st4⟩, h4, h5⟩ := h
    cases h5
    have s1 := compileExpr_size v base cst _ h1
    have s2 := compileExpr_size e _ _ _ h2
    have s3 := compileStmts_size b _ _ _ h3
    have s4 := compileArm_size (fun b s => compileExpr v b s) v.size (fun bb s r hr => compileExpr_size v bb s r hr)
      (fun bs s => compileStmts b bs s) (Stmt.sizes b) (fun bs s r hr => compileStmts_size b bs s r hr) rest _ _ _ _ h4
    have r2 := compileExpr_R e _ _ _ h2
    have r3 := compileStmts_R b _ _ _ h3
    have r4 := compileArm_R (fun b s => compileExpr v b s) v.size (fun bb s r hr => compileExpr_R v bb s r hr)
      (fun bs s => compileStmts b bs s) (Stmt.sizes b) (fun bs s r hr => compileStmts_R b bs s r hr) rest _ _ _ _ h4
    simp only at s1 s2 s3 s4 r2 r3 r4
    have p3 : ∃ ex, M.consts = st3.consts ++ ex := pool_trans hp r4.ext
    have p2 : ∃ ex, M.consts = st2.consts ++ ex := pool_trans p3 r3.ext
    have p1 : ∃ ex, M.consts = st1.consts ++ ex := pool_trans p2 r2.ext
    have hbound := hc.bound
    simp only [codeSize_append, codeSize_cons, codeSize_nil, s1, s2, s3, s4, Instr.size, Op.length] at hbound
    -- where the pieces are
    have hcv : CodeAt code base cv' := hc.left.left.left.left.left
    have hce : CodeAt code (base + v.size) ce := by
      have := hc.left.left.left.left.right; rwa [s1] at this
    have hcase : CodeAt code (base + v.size + e.size) [⟨.case, 0⟩, ⟨.jumpIfFalse, base + v.size + e.size + 1 + 3 + Stmt.sizes b + 3⟩] := by
      have := hc.left.left.left.right
      simp only [codeSize_append, s1, s2] at this
      exact this.cast (by omega)
    have hjif := hcase.tail
    simp only [Instr.size, Op.length] at hjif
    have hcb : CodeAt code (base + v.size + e.size + 1 + 3) cb := by
      have := hc.left.left.right
      simp only [codeSize_append, codeSize_cons, codeSize_nil, s1, s2, Instr.size, Op.length] at this
      exact this.cast (by omega)
    have hjmp : CodeAt code (base + v.size + e.size + 1 + 3 + Stmt.sizes b) [⟨.jump, endPos⟩] := by
      have := hc.left.right
      simp only [codeSize_append, codeSize_cons, codeSize_nil, s1, s2, s3, Instr.size, Op.length] at this
      exact this.cast (by omega)
    have hcr : CodeAt code (base + v.size + e.size + 1 + 3 + Stmt.sizes b + 3) cr := by
      have := hc.right
      simp only [codeSize_append, codeSize_cons, codeSize_nil, s1, s2, s3, Instr.size, Op.length] at this
      exact this.cast (by omega)
    have hsz : Case.armSize v.size (Stmt.sizes b) (e :: rest) =
        v.size + e.size + 1 + 3 + Stmt.sizes b + 3 + Case.armSize v.size (Stmt.sizes b) rest := by simp [Case.armSize]
    rw [hsz] at hle
    have ha1 : storedArg ⟨.jumpIfFalse, base + v.size + e.size + 1 + 3 + Stmt.sizes b + 3⟩ = base + v.size + e.size + 1 + 3 + Stmt.sizes b + 3 := by
      show (if Op.jumpIfFalse.length = 3 then (base + v.size + e.size + 1 + 3 + Stmt.sizes b + 3) % 65536 else 0) = _
      rw [if_pos (by rfl : Op.jumpIfFalse.length = 3), Nat.mod_eq_of_lt (by omega)]
    have ha2 : storedArg ⟨.jump, endPos⟩ = endPos := by
      show (if Op.jump.length = 3 then endPos % 65536 else 0) = _
      rw [if_pos (by rfl : Op.jump.length = 3), Nat.mod_eq_of_lt (by omega)]
    have hU1 : (evalE M obj env v out).1 ≠ .error undefErr := by
      intro hm; obtain ⟨ox, hx⟩ := fst_err hm; exact hnd (by simp [execE, execS, execArm, hx, failE])
    obtain ⟨n1, k1, ih1⟩ := expr_ok v base cst _ hpv h1 M obj code ctx hcv p1 stack env out polls depth hU1
    simp only [execArm] at hnd ⊢
    cases hev : evalE M obj env v out with
    | mk res o1 =>
      cases res with
      | error x => exact ⟨n1, k1, 0, fun fuel => by rw [ih1 fuel, hev]; simp [after, afterA, afterS, failE_ne (fun he => hU1 (by rw [hev, he]) : x ≠ undefErr)]⟩
      | ok vv =>
        simp only [hev] at hnd
        have hrun1 : ∀ fuel, loop M obj code (fuel + n1) base stack ⟨env, out, polls, depth⟩ =
            loop M obj code fuel (base + v.size) (vv :: stack) ⟨env, o1, polls + k1, depth⟩ := by
          intro fuel; rw [ih1 fuel, hev]; rfl
        have hU2 : (evalE M obj env e o1).1 ≠ .error undefErr := by
          intro hm; obtain ⟨ox, hx⟩ := fst_err hm; exact hnd (by simp [hx, failE])
        obtain ⟨n2, k2, ih2⟩ := expr_ok e _ _ _ hpes.1 h2 M obj code ctx hce p2 (vv :: stack) env o1 (polls + k1) depth hU2
        cases hev2 : evalE M obj env e o1 with
        | mk res2 o2 =>
          cases res2 with
          | error x =>
            refine ⟨n2 + n1, k1 + k2, 0, ?_⟩
            apply chain hrun1 n2
            intro fuel; rw [ih2 fuel]; simp [hev2, after, afterA, afterS, Nat.add_assoc, failE_ne (fun he => hU2 (by rw [hev2, he]) : x ≠ undefErr)]
          | ok ev =>
            simp only [hev2] at hnd ⊢
            have hrun2 : ∀ fuel, loop M obj code (fuel + (n2 + n1)) base stack ⟨env, out, polls, depth⟩ =
                loop M obj code fuel (base + v.size + e.size) (ev :: vv :: stack) ⟨env, o2, polls + k1 + k2, depth⟩ := by
              apply chain hrun1 n2
              intro fuel; rw [ih2 fuel, hev2]; rfl
            cases hco : caseOp M vv ev with
            | error x =>
              refine ⟨1 + (n2 + n1), k1 + k2 + 1, 0, ?_⟩
              apply finish_instr hrun2 hcase ctx.nd (Or.inr rfl) 0 (by simp [storedArg, Op.length])
              intro fuel
              rw [step_case_err M obj _ _ _ _ _ _ x _ _ hco]
              simp [hco, afterA, afterS, Nat.add_assoc]
            | ok p =>
              obtain ⟨t, o3⟩ := p
              simp only [hco] at hnd ⊢
              have hrun3 : ∀ fuel, loop M obj code (fuel + (1 + (n2 + n1))) base stack ⟨env, out, polls, depth⟩ =
                  loop M obj code fuel (base + v.size + e.size + 1) (t :: stack) ⟨env, o2 ++ o3, polls + k1 + k2 + 1, depth⟩ := by
                apply finish_instr hrun2 hcase ctx.nd (Or.inr rfl) 0 (by simp [storedArg, Op.length])
                intro fuel
                rw [step_case_ok M obj _ _ _ _ _ _ t o3 _ _ hco]
                simp [Instr.size, Op.length]
              by_cases ht : t.truthy = true
              · simp only [ht, ↓reduceIte] at hnd ⊢
                have hrun4 : ∀ fuel, loop M obj code (fuel + (1 + (1 + (n2 + n1)))) base stack ⟨env, out, polls, depth⟩ =
                    loop M obj code fuel (base + v.size + e.size + 1 + 3) stack ⟨env, o2 ++ o3, polls + k1 + k2 + 1 + 1, depth⟩ := by
                  apply finish_instr hrun3 hjif ctx.nd (Or.inl ha1) _ ha1.symm
                  intro fuel
                  rw [step_jif M obj _ _ _ _ _ _ t (by omega)]
                  simp [ht, Instr.size, Op.length]
                have hnd' : execSs M F obj depth f b env (o2 ++ o3) ≠ .diverged := fun hd => hnd (by rw [hd])
                obtain ⟨n3, k3, e3, ih3⟩ := ih.Ss b _ _ _ hpb h3 hcb p3 stack env (o2 ++ o3) (polls + k1 + k2 + 1 + 1) depth hnd'
                cases hb : execSs M F obj depth f b env (o2 ++ o3) with
                | diverged => exact absurd hb hnd'
                | returned rv env' o' =>
                  refine ⟨n3 + (1 + (1 + (n2 + n1))), k1 + k2 + 1 + 1 + k3, 0, ?_⟩
                  apply chain hrun4 n3
                  intro fuel; rw [ih3 fuel, hb]; simp [afterA, afterS, Nat.add_assoc]
                | failed x env' o' =>
                  refine ⟨n3 + (1 + (1 + (n2 + n1))), k1 + k2 + 1 + 1 + k3, 0, ?_⟩
                  apply chain hrun4 n3
                  intro fuel; rw [ih3 fuel, hb]; simp [afterA, afterS, Nat.add_assoc]
                | normal env' o' =>
                  have hrun5 : ∀ fuel, loop M obj code (fuel + (n3 + (1 + (1 + (n2 + n1))))) base stack ⟨env, out, polls, depth⟩ =
                      loop M obj code (fuel + e3) (base + v.size + e.size + 1 + 3 + Stmt.sizes b) stack ⟨env', o', polls + k1 + k2 + 1 + 1 + k3, depth⟩ := by
                    apply chain hrun4 n3
                    intro fuel; rw [ih3 fuel, hb]; rfl
                  refine ⟨1 + (n3 + (1 + (1 + (n2 + n1)))), k1 + k2 + 1 + 1 + k3 + 1, e3, fun fuel => ?_⟩
                  rw [stepE hrun5 hjmp ctx.nd (Or.inl ha2) _ ha2.symm fuel, step_jump M obj _ _ _ _ _ _ hend]
                  simp [afterA, afterS, Nat.add_assoc]
              · simp only [ht, Bool.false_eq_true, ↓reduceIte] at hnd ⊢
                have hrun4 : ∀ fuel, loop M obj code (fuel + (1 + (1 + (n2 + n1)))) base stack ⟨env, out, polls, depth⟩ =
                    loop M obj code fuel (base + v.size + e.size + 1 + 3 + Stmt.sizes b + 3) stack ⟨env, o2 ++ o3, polls + k1 + k2 + 1 + 1, depth⟩ := by
                  apply finish_instr hrun3 hjif ctx.nd (Or.inl ha1) _ ha1.symm
                  intro fuel
                  rw [step_jif M obj _ _ _ _ _ _ t (by omega)]
                  simp [ht]
                obtain ⟨n3, k3, e3, ih3⟩ := ih.Rm v rest b _ endPos _ _ hpv hpes.2 hpb h4 hcr hp hend (by omega) stack env (o2 ++ o3) (polls + k1 + k2 + 1 + 1) depth hnd
                refine ⟨n3 + (1 + (1 + (n2 + n1))), k1 + k2 + 1 + 1 + k3, e3, ?_⟩
                apply chain hrun4 n3
                intro fuel
                rw [ih3 fuel, hsz]
                simp [Nat.add_assoc]

theorem step_Am (ctx : Ctx M code) (f : Nat) (ihAll : ∀ code', Ctx M code' → SIH M F obj code' f) :
    ∀ (v : Expr) (cs : List Case) (base endPos : Nat) (cst : CState) (r : List Instr × CState),
      pureE v = true → pureCases cs = true →
      compileArms (fun b s => compileExpr v b s) v.size cs base endPos cst = .ok r →
      CodeAt code base r.1 → (∃ ex, M.consts = r.2.consts ++ ex) → endPos < code.length →
      base + Case.armsSize v.size cs ≤ endPos →
      ∀ (stack : List Value) (env : Env) (out : Str) (polls depth : Nat), execArms M F obj depth (f + 1) v cs env out ≠ .done .diverged →
      ∃ n k q, ∀ fuel, loop M obj code (fuel + n) base stack ⟨env, out, polls, depth⟩ =
        afterA M obj code (fuel + q) endPos (base + Case.armsSize v.size cs) stack (polls + k) depth
          (execArms M F obj depth (f + 1) v cs env out) := by
  have ih := ihAll code ctx
  intro v cs base endPos cst r hpv hpc h hc hp hend hle stack env out polls depth hnd
  cases cs with
  | nil =>
    simp only [compileArms, pure, Except.pure] at h
    cases h
    exact ⟨0, 0, 0, fun fuel => by simp [execArms, afterA, Case.armsSize]⟩
  | cons c rest =>
    obtain ⟨isDef, es, b⟩ := c
    simp only [pureCases, Bool.and_eq_true] at hpc
    simp only [compileArms] at h
    simp only [execArms] at hnd ⊢
    cases isDef with
    | true =>
      simp only [↓reduceIte] at h hnd ⊢
      have hsz : Case.armsSize v.size (Case.mk true es b :: rest) = Case.armsSize v.size rest := by simp [Case.armsSize]
      rw [hsz] at hle ⊢
      exact ih.Am v rest base endPos cst r hpv hpc.2 h hc hp hend hle stack env out polls depth hnd
    | false =>
      simp only [Bool.false_eq_true, ↓reduceIte, bind_ok_eq, pure, Except.pure] at h hnd ⊢
      obtain ⟨⟨ca, st1⟩, h1, ⟨cr, st2⟩, h2, h3⟩ := h
      cases h3
      have s1 := compileArm_size (fun b s => compileExpr v b s) v.size (fun bb s r hr => compileExpr_size v bb s r hr)
        (fun bs s => compileStmts b bs s) (Stmt.sizes b) (fun bs s r hr => compileStmts_size b bs s r hr) es _ _ _ _ h1
      have r2 := compileArms_R (fun b s => compileExpr v b s) v.size (fun bb s r hr => compileExpr_R v bb s r hr) rest _ _ _ _ h2
      simp only at s1 r2
      have hsz : Case.armsSize v.size (Case.mk false es b :: rest) =
          Case.armSize v.size (Stmt.sizes b) es + Case.armsSize v.size rest := by simp [Case.armsSize]
      rw [hsz] at hle ⊢
      have hca : CodeAt code base ca := hc.left
      have hcr : CodeAt code (base + Case.armSize v.size (Stmt.sizes b) es) cr := by
        have := hc.right; rwa [s1] at this
      have hnd1 : execArm M F obj depth f v es b env out ≠ .done .diverged := by
        intro hx; rw [hx] at hnd; exact hnd rfl
      obtain ⟨n1, k1, e1, ih1⟩ := ih.Rm v es b base endPos cst _ hpv hpc.1.1 hpc.1.2 h1 hca (pool_trans hp r2.ext) hend (by omega)
        stack env out polls depth hnd1
      cases ha : execArm M F obj depth f v es b env out with
      | done o =>
        refine ⟨n1, k1, e1, fun fuel => ?_⟩
        rw [ih1 fuel, ha]
        simp [afterA]
      | next env' out' =>
        simp only [ha] at hnd ⊢
        have hrun1 : ∀ fuel, loop M obj code (fuel + n1) base stack ⟨env, out, polls, depth⟩ =
            loop M obj code (fuel + e1) (base + Case.armSize v.size (Stmt.sizes b) es) stack ⟨env', out', polls + k1, depth⟩ := by
          intro fuel; rw [ih1 fuel, ha]; rfl
        obtain ⟨n2, k2, e2, ih2⟩ := ih.Am v rest _ endPos _ _ hpv hpc.2 h2 hcr hp hend (by omega) stack env' out' (polls + k1) depth hnd
        have h3 := chainE (f := fun y => loop M obj code y (base + Case.armSize v.size (Stmt.sizes b) es) stack ⟨env', out', polls + k1, depth⟩) hrun1 n2 ih2
        refine ⟨n2 + n1, k1 + k2, e1 + e2, fun fuel => ?_⟩
        rw [h3 fuel]
        simp [Nat.add_assoc]

theorem step_Dm (ctx : Ctx M code) (f : Nat) (ihAll : ∀ code', Ctx M code' → SIH M F obj code' f) :
    ∀ (cs : List Case) (base : Nat) (cst : CState) (r : List Instr × CState), pureCases cs = true →
      compileDefaults cs base cst = .ok r → CodeAt code base r.1 → (∃ ex, M.consts = r.2.consts ++ ex) →
      ∀ (stack : List Value) (env : Env) (out : Str) (polls depth : Nat), execDefaults M F obj depth (f + 1) cs env out ≠ .diverged →
      ∃ n k q, ∀ fuel, loop M obj code (fuel + n) base stack ⟨env, out, polls, depth⟩ =
        afterS M obj code (fuel + q) (base + Case.defaultsSize cs) stack (polls + k) depth (execDefaults M F obj depth (f + 1) cs env out) := by
  have ih := ihAll code ctx
  intro cs base cst r hpc h hc hp stack env out polls depth hnd
  cases cs with
  | nil =>
    simp only [compileDefaults, pure, Except.pure] at h
    cases h
    exact ⟨0, 0, 0, fun fuel => by simp [execDefaults, afterS, Case.defaultsSize]⟩
  | cons c rest =>
    obtain ⟨isDef, es, b⟩ := c
    simp only [pureCases, Bool.and_eq_true] at hpc
    simp only [compileDefaults] at h
    simp only [execDefaults] at hnd ⊢
    cases isDef with
    | true =>
      simp only [↓reduceIte, bind_ok_eq, pure, Except.pure] at h hnd ⊢
      obtain ⟨⟨cb, st1⟩, h1, ⟨cr, st2⟩, h2, h3⟩ := h
      cases h3
      have s1 := compileStmts_size b _ _ _ h1
      have r2 := compileDefaults_R rest _ _ _ h2
      simp only at s1 r2
      have hsz : Case.defaultsSize (Case.mk true es b :: rest) = Stmt.sizes b + Case.defaultsSize rest := by
        simp [Case.defaultsSize]
      rw [hsz]
      have hcb : CodeAt code base cb := hc.left
      have hcr : CodeAt code (base + Stmt.sizes b) cr := by
        have := hc.right; rwa [s1] at this
      have hnd1 : execSs M F obj depth f b env out ≠ .diverged := by
        intro hx; rw [hx] at hnd; exact hnd rfl
      obtain ⟨n1, k1, e1, ih1⟩ := ih.Ss b base cst _ hpc.1.2 h1 hcb (pool_trans hp r2.ext) stack env out polls depth hnd1
      cases hb : execSs M F obj depth f b env out with
      | diverged => exact absurd hb hnd1
      | returned rv env' o' => exact ⟨n1, k1, 0, fun fuel => by rw [ih1 fuel, hb]; simp [afterS]⟩
      | failed x env' o' => exact ⟨n1, k1, 0, fun fuel => by rw [ih1 fuel, hb]; simp [afterS]⟩
      | normal env' o' =>
        simp only [hb] at hnd ⊢
        have hrun1 : ∀ fuel, loop M obj code (fuel + n1) base stack ⟨env, out, polls, depth⟩ =
            loop M obj code (fuel + e1) (base + Stmt.sizes b) stack ⟨env', o', polls + k1, depth⟩ := by
          intro fuel; rw [ih1 fuel, hb]; rfl
        obtain ⟨n2, k2, e2, ih2⟩ := ih.Dm rest _ _ _ hpc.2 h2 hcr hp stack env' o' (polls + k1) depth hnd
        have h3 := chainE (f := fun y => loop M obj code y (base + Stmt.sizes b) stack ⟨env', o', polls + k1, depth⟩) hrun1 n2 ih2
        refine ⟨n2 + n1, k1 + k2, e1 + e2, fun fuel => ?_⟩
        rw [h3 fuel]
        simp [Nat.add_assoc]
    | false =>
      simp only [Bool.false_eq_true, ↓reduceIte] at h hnd ⊢
      have hsz : Case.defaultsSize (Case.mk false es b :: rest) = Case.defaultsSize rest := by
        simp [Case.defaultsSize]
      rw [hsz]
      exact ih.Dm rest base cst r hpc.2 h hc hp stack env out polls depth hnd

theorem step_I (ctx : Ctx M code) (f : Nat) (ihAll : ∀ code', Ctx M code' → SIH M F obj code' f) :
    ∀ (idx x : Str) (v : Expr) (body : List Stmt) (base : Nat) (cst : CState) (r : List Instr × CState),
      pureE v = true → pureSs body = true →
      compileExpr (.foreachE idx x v body) base cst = .ok r → CodeAt code base r.1 → (∃ ex, M.consts = r.2.consts ++ ex) →
      ∀ (it : Value) (k : Nat) (stack : List Value) (env : Env) (out : Str) (polls depth : Nat),
        execIter M F obj depth (f + 1) idx x body it k env out ≠ .diverged →
      ∃ n k' q, ∀ fuel, loop M obj code (fuel + n) (base + v.size + 1) (.iterating it k :: stack) ⟨env, out, polls, depth⟩ =
        afterS M obj code (fuel + q) (base + (Expr.foreachE idx x v body).size) stack (polls + k') depth
          (execIter M F obj depth (f + 1) idx x body it k env out) := by
  have ih := ihAll code ctx
  intro idx x v body base cst r hpv hpb h hc hp it k stack env out polls depth hnd
  obtain ⟨cv, st1, cb, ci, cx, L⟩ := foreach_layout h hc hp
  have hlen := ctx.len
  have hbound := L.bound
  -- the instructions of the loop head
  have hki := L.atReset.tail
  have hkx := hki.tail
  have hnext := hkx.tail
  have hjif := hnext.tail
  simp only [Instr.size, Op.length, withConst_op] at hki hkx hnext hjif
  have hjmp := L.atJump
  have hph := hjmp.tail
  simp only [Instr.size, Op.length] at hph
  have hsz : (Expr.foreachE idx x v body).size = v.size + 11 + Stmt.sizes body + 4 := by simp [Expr.size]
  have hargi : storedArg (withConst st1 .constant (.str idx)).1 = (withConst st1 .constant (.str idx)).1.arg := by
    have hlt : (withConst st1 .constant (.str idx)).1.arg < 65536 := by
      have := (List.getElem?_eq_some_iff.mp L.geti).1
      have := ctx.pool; omega
    simp [storedArg, withConst_op, Op.length, Nat.mod_eq_of_lt hlt]
  have hargx : storedArg (withConst (withConst st1 .constant (.str idx)).2 .constant (.str x)).1 =
      (withConst (withConst st1 .constant (.str idx)).2 .constant (.str x)).1.arg := by
    have hlt : (withConst (withConst st1 .constant (.str idx)).2 .constant (.str x)).1.arg < 65536 := by
      have := (List.getElem?_eq_some_iff.mp L.getx).1
      have := ctx.pool; omega
    simp [storedArg, withConst_op, Op.length, Nat.mod_eq_of_lt hlt]
  have ha1 : storedArg ⟨.jumpIfFalse, base + v.size + 1 + 3 + 3 + 1 + 3 + Stmt.sizes body + 3⟩ =
      base + v.size + 1 + 3 + 3 + 1 + 3 + Stmt.sizes body + 3 := by
    show (if Op.jumpIfFalse.length = 3 then (base + v.size + 1 + 3 + 3 + 1 + 3 + Stmt.sizes body + 3) % 65536 else 0) = _
    rw [if_pos (by rfl : Op.jumpIfFalse.length = 3), Nat.mod_eq_of_lt (by omega)]
  have ha2 : storedArg ⟨.jump, base + v.size + 1⟩ = base + v.size + 1 := by
    show (if Op.jump.length = 3 then (base + v.size + 1) % 65536 else 0) = _
    rw [if_pos (by rfl : Op.jump.length = 3), Nat.mod_eq_of_lt (by omega)]
  -- push the two names
  have hrun0 : ∀ fuel, loop M obj code (fuel + 0) (base + v.size + 1) (.iterating it k :: stack) ⟨env, out, polls, depth⟩ =
      loop M obj code fuel (base + v.size + 1) (.iterating it k :: stack) ⟨env, out, polls, depth⟩ := fun _ => rfl
  have hrun1 : ∀ fuel, loop M obj code (fuel + (1 + 0)) (base + v.size + 1) (.iterating it k :: stack) ⟨env, out, polls, depth⟩ =
      loop M obj code fuel (base + v.size + 1 + 3) (ci :: .iterating it k :: stack) ⟨env, out, polls + 1, depth⟩ := by
    apply finish_instr hrun0 hki ctx.nd (Or.inl hargi) _ hargi.symm
    intro fuel
    rw [withConst_op, step_constant M obj _ _ _ _ _ _ ci L.geti]
    simp [Instr.size, withConst_op, Op.length]
  have hrun2 : ∀ fuel, loop M obj code (fuel + (1 + (1 + 0))) (base + v.size + 1) (.iterating it k :: stack) ⟨env, out, polls, depth⟩ =
      loop M obj code fuel (base + v.size + 1 + 3 + 3) (cx :: ci :: .iterating it k :: stack) ⟨env, out, polls + 1 + 1, depth⟩ := by
    apply finish_instr hrun1 hkx ctx.nd (Or.inl hargx) _ hargx.symm
    intro fuel
    rw [withConst_op, step_constant M obj _ _ _ _ _ _ cx L.getx]
    simp [Instr.size, withConst_op, Op.length]
  simp only [execIter] at hnd ⊢
  cases hin : iterNext it k with
  | none =>
    simp only [hin] at hnd ⊢
    cases hrs : env.removeScope with
    | none =>
      refine ⟨1 + (1 + (1 + 0)), 1 + 1 + 1, 0, ?_⟩
      apply finish_instr hrun2 hnext ctx.nd (Or.inr rfl) 0 (by simp [storedArg, Op.length])
      intro fuel
      rw [step_iterNext_noscope M obj _ _ _ _ _ _ _ _ _ _ hin hrs]
      simp [afterS, Nat.add_assoc]
    | some env' =>
      have hrun3 : ∀ fuel, loop M obj code (fuel + (1 + (1 + (1 + 0)))) (base + v.size + 1) (.iterating it k :: stack) ⟨env, out, polls, depth⟩ =
          loop M obj code fuel (base + v.size + 1 + 3 + 3 + 1) (.bool false :: stack) ⟨env', out, polls + 1 + 1 + 1, depth⟩ := by
        apply finish_instr hrun2 hnext ctx.nd (Or.inr rfl) 0 (by simp [storedArg, Op.length])
        intro fuel
        rw [step_iterNext_end M obj _ _ _ _ _ _ _ _ _ _ env' hin hrs]
        simp [Instr.size, Op.length]
      have hrun4 : ∀ fuel, loop M obj code (fuel + (1 + (1 + (1 + (1 + 0))))) (base + v.size + 1) (.iterating it k :: stack) ⟨env, out, polls, depth⟩ =
          loop M obj code fuel (base + v.size + 1 + 3 + 3 + 1 + 3 + Stmt.sizes body + 3) stack ⟨env', out, polls + 1 + 1 + 1 + 1, depth⟩ := by
        apply finish_instr hrun3 hjif ctx.nd (Or.inl ha1) _ ha1.symm
        intro fuel
        rw [step_jif M obj _ _ _ _ _ _ (.bool false) (by omega)]
        simp [Value.truthy]
      refine ⟨1 + (1 + (1 + (1 + (1 + 0)))), 1 + 1 + 1 + 1 + 1, 0, ?_⟩
      apply finish_instr hrun4 (hph.cast (by omega)) ctx.nd (Or.inr rfl) 0 (by simp [storedArg, Op.length])
      intro fuel
      rw [step_placeholder]
      simp [afterS, hsz, Instr.size, Op.length, Nat.add_assoc]
  | some p =>
    obtain ⟨val, i⟩ := p
    simp only [hin] at hnd ⊢
    have hrun3 : ∀ fuel, loop M obj code (fuel + (1 + (1 + (1 + 0)))) (base + v.size + 1) (.iterating it k :: stack) ⟨env, out, polls, depth⟩ =
        loop M obj code fuel (base + v.size + 1 + 3 + 3 + 1) (.bool true :: .iterating it (k + 1) :: stack)
          ⟨(if idx.isEmpty then env.declare x val else (env.declare x val).declare idx i), out, polls + 1 + 1 + 1, depth⟩ := by
      apply finish_instr hrun2 hnext ctx.nd (Or.inr rfl) 0 (by simp [storedArg, Op.length])
      intro fuel
      rw [step_iterNext_some M obj _ _ _ _ _ _ _ _ _ _ val i hin]
      simp [Instr.size, Op.length, L.namei, L.namex]
    have hrun4 : ∀ fuel, loop M obj code (fuel + (1 + (1 + (1 + (1 + 0))))) (base + v.size + 1) (.iterating it k :: stack) ⟨env, out, polls, depth⟩ =
        loop M obj code fuel (base + v.size + 11) (.iterating it (k + 1) :: stack)
          ⟨(if idx.isEmpty then env.declare x val else (env.declare x val).declare idx i), out, polls + 1 + 1 + 1 + 1, depth⟩ := by
      apply finish_instr hrun3 hjif ctx.nd (Or.inl ha1) _ ha1.symm
      intro fuel
      rw [step_jif M obj _ _ _ _ _ _ (.bool true) (by omega)]
      simp [Value.truthy, Instr.size, Op.length]
    generalize hb : execSs M F obj depth f body (if idx.isEmpty then env.declare x val else (env.declare x val).declare idx i) out = ob at hnd ⊢
    cases ob with
    | diverged => simp at hnd
    | returned rv env' o' =>
      obtain ⟨n2, k2, e2, ih2⟩ := ih.Ss body _ _ _ hpb L.hb L.atBody L.poolB (.iterating it (k + 1) :: stack) (if idx.isEmpty then env.declare x val else (env.declare x val).declare idx i) out (polls + 1 + 1 + 1 + 1) depth (by rw [hb]; simp)
      refine ⟨n2 + (1 + (1 + (1 + (1 + 0)))), 1 + 1 + 1 + 1 + k2, 0, ?_⟩
      apply chain hrun4 n2
      intro fuel
      have e : base + v.size + 1 + 3 + 3 + 1 + 3 = base + v.size + 11 := by omega
      rw [← e, ih2 fuel, hb]; simp [afterS, Nat.add_assoc]
    | failed e' env' o' =>
      obtain ⟨n2, k2, e2, ih2⟩ := ih.Ss body _ _ _ hpb L.hb L.atBody L.poolB (.iterating it (k + 1) :: stack) (if idx.isEmpty then env.declare x val else (env.declare x val).declare idx i) out (polls + 1 + 1 + 1 + 1) depth (by rw [hb]; simp)
      refine ⟨n2 + (1 + (1 + (1 + (1 + 0)))), 1 + 1 + 1 + 1 + k2, 0, ?_⟩
      apply chain hrun4 n2
      intro fuel
      have e : base + v.size + 1 + 3 + 3 + 1 + 3 = base + v.size + 11 := by omega
      rw [← e, ih2 fuel, hb]; simp [afterS, Nat.add_assoc]
    | normal env' o' =>
      obtain ⟨n2, k2, e2, ih2⟩ := ih.Ss body _ _ _ hpb L.hb L.atBody L.poolB (.iterating it (k + 1) :: stack) (if idx.isEmpty then env.declare x val else (env.declare x val).declare idx i) out (polls + 1 + 1 + 1 + 1) depth (by rw [hb]; simp)
      simp only at hnd
      have hrun5 : ∀ fuel, loop M obj code (fuel + (n2 + (1 + (1 + (1 + (1 + 0)))))) (base + v.size + 1) (.iterating it k :: stack) ⟨env, out, polls, depth⟩ =
          loop M obj code (fuel + e2) (base + v.size + 11 + Stmt.sizes body) (.iterating it (k + 1) :: stack) ⟨env', o', polls + 1 + 1 + 1 + 1 + k2, depth⟩ := by
        apply chain hrun4 n2
        intro fuel
        have e : base + v.size + 1 + 3 + 3 + 1 + 3 = base + v.size + 11 := by omega
        rw [← e, ih2 fuel, hb]; simp [afterS, e]
      have hrun6 : ∀ fuel, loop M obj code (fuel + (1 + (n2 + (1 + (1 + (1 + (1 + 0))))))) (base + v.size + 1) (.iterating it k :: stack) ⟨env, out, polls, depth⟩ =
          loop M obj code (fuel + e2) (base + v.size + 1) (.iterating it (k + 1) :: stack) ⟨env', o', polls + 1 + 1 + 1 + 1 + k2 + 1, depth⟩ := by
        intro fuel
        rw [stepE hrun5 hjmp ctx.nd (Or.inl ha2) _ ha2.symm fuel, step_jump M obj _ _ _ _ _ _ (by omega)]
      obtain ⟨n3, k3, e3, ih3⟩ := ih.I idx x v body base cst r hpv hpb h hc hp it (k + 1) stack env' o' (polls + 1 + 1 + 1 + 1 + k2 + 1) depth hnd
      have h7 := chainE (f := fun y => loop M obj code y (base + v.size + 1) (.iterating it (k + 1) :: stack) ⟨env', o', polls + 1 + 1 + 1 + 1 + k2 + 1, depth⟩) hrun6 n3 ih3
      refine ⟨n3 + (1 + (n2 + (1 + (1 + (1 + (1 + 0)))))), 1 + 1 + 1 + 1 + k2 + 1 + k3, e2 + e3, fun fuel => ?_⟩
      rw [h7 fuel]; simp [Nat.add_assoc]

/-- **Statements run as the language defines**, for every budget of the semantics -/
theorem SIH_all (hF : FnOK M F obj) : ∀ (f : Nat) (code : Bytes), Ctx M code → SIH M F obj code f
  | 0, code, _ => SIH_zero M F obj code
  | f + 1, code, ctx =>
    ⟨step_E ctx hF f (SIH_all hF f), step_S ctx hF f (SIH_all hF f), step_Ss ctx f (SIH_all hF f), step_I ctx f (SIH_all hF f),
      step_Rm ctx f (SIH_all hF f), step_Am ctx f (SIH_all hF f), step_Dm ctx f (SIH_all hF f)⟩

end

mutual
  theorem normExpr_stmtE : ∀ (e : Expr), stmtE e = true → normExpr e = e
    | .assign n (.call fn args), h => by simp only [stmtE] at h; simp [normExpr, normExprs_pure args h]
    | .call fn args, h => by simp only [stmtE] at h; simp [normExpr, normExprs_pure args h]
    | .funcDef n ps b, h => by simp only [stmtE] at h; simp [normExpr, normStmts_pure b h]
    | .localE n, _ => by simp [normExpr]
    | .assign n v, h => by
      by_cases hcall : ∃ fn args, v = .call fn args
      · obtain ⟨fn, args, rfl⟩ := hcall
        simp only [stmtE] at h; simp [normExpr, normExprs_pure args h]
      · rw [stmtE_assign n v (fun fn args e => hcall ⟨fn, args, e⟩)] at h
        simp [normExpr, normExpr_pure v h]
    | .ifE c cons none, h => by
      simp only [stmtE, Bool.and_eq_true] at h
      simp [normExpr, normExpr_pure c h.1, normStmts_pure cons h.2]
    | .ifE c cons (some a), h => by
      simp only [stmtE, Bool.and_eq_true] at h
      simp [normExpr, normExpr_pure c h.1.1, normStmts_pure cons h.1.2, normStmts_pure a h.2]
    | .whileE c b, h => by
      simp only [stmtE, Bool.and_eq_true] at h
      simp [normExpr, normExpr_pure c h.1, normStmts_pure b h.2]
    | .foreachE i x v b, h => by
      simp only [stmtE, Bool.and_eq_true] at h
      simp [normExpr, normExpr_pure v h.1, normStmts_pure b h.2]
    | .switchE v cs, h => by
      simp only [stmtE, Bool.and_eq_true] at h
      simp [normExpr, normExpr_pure v h.1, normCases_pure cs h.2]
    | .infix op (.ident n) r, h => by
      simp only [stmtE, Bool.and_eq_true] at h
      simp [normExpr, normExpr_pure r h.2]
  theorem normCases_pure : ∀ (cs : List Case), pureCases cs = true → normCases cs = cs
    | [], _ => rfl
    | .mk d es b :: cs, h => by
      simp only [pureCases, Bool.and_eq_true] at h
      simp [normCases, normExprs_pure es h.1.1, normStmts_pure b h.1.2, normCases_pure cs h.2]
  theorem normStmt_pure : ∀ (s : Stmt), pureS s = true → normStmt s = s
    | .ret (.call fn args), h => by simp only [pureS] at h; simp [normStmt, normExpr, normExprs_pure args h]
    | .ret e, h => by
      by_cases hcall : ∃ fn args, e = .call fn args
      · obtain ⟨fn, args, rfl⟩ := hcall
        simp only [pureS] at h; simp [normStmt, normExpr, normExprs_pure args h]
      · rw [pureS_ret e (fun fn args x => hcall ⟨fn, args, x⟩)] at h
        simp [normStmt, normExpr_pure e h]
    | .expr e, h => by simp only [pureS] at h; simp [normStmt, normExpr_stmtE e h]
  theorem normStmts_pure : ∀ (ss : List Stmt), pureSs ss = true → normStmts ss = ss
    | [], _ => rfl
    | .expr e :: .expr (.postfix n op) :: ss, h => by
      simp only [pureSs, Bool.and_eq_true] at h
      simp [normStmts, normStmt, normExpr, normExpr_pure e h.1.2, normStmts_pure ss h.2]
    | s :: ss, h => by
      by_cases hpair : IsPair s ss
      · obtain ⟨e, n, op, rest, rfl, rfl⟩ := hpair
        simp only [pureSs, Bool.and_eq_true] at h
        simp [normStmts, normStmt, normExpr, normExpr_pure e h.1.2, normStmts_pure rest h.2]
      · rw [pureSs_other s ss hpair, Bool.and_eq_true] at h
        simp [normStmts, normStmt_pure s h.1, normStmts_pure ss h.2]
end

/-- the result of a run, according to how the script's top-level block ends: running off the end yields
    null, `return` its value, an error that error -/
def programResult (polls depth : Nat) : Outcome → Option (Res × RunSt)
  | .normal env out => some (.ok .null, ⟨env, out, polls, depth⟩)
  | .returned v env out => some (.ok v, ⟨env, out, polls, depth⟩)
  | .failed e env out => some (.error e, ⟨env, out, polls, depth⟩)
  | .diverged => none

/-- **Scripts of assignments, if / else, while and return over value-producing expressions run exactly
    as the language defines.**  For every such script (any size and nesting), every accepted
    compilation, every host object, environment and host-function table, and every step budget `f` of
    the semantics that suffices: a run of the unoptimised program ends with exactly the outcome of the
    big-step semantics - the statements the language selects, in order; `return` ends the script at once
    with its value; running off the end yields null - with the variables and the output it prescribes. -/
theorem program_correct (F : FnTable) (prog : Program) (hp : pureSs prog = true) (hne : 1 ≤ Stmt.sizes prog) (c : Compiled)
    (hc : compileProgram prog = .ok c) (fns : List (Str × FnImpl)) (obj : HostVal) (env : Env) (out : Str)
    (polls depth f : Nat)
    (hF : FnOK (Api.newMachine c false fns (fun _ => false)) F obj)
    (hnd : execSs (Api.newMachine c false fns (fun _ => false)) F obj depth f prog env out ≠ .diverged) :
    ∃ n k, ∀ fuel, ∃ st',
      run (Api.newMachine c false fns (fun _ => false)) obj (fuel + n) ⟨env, out, polls, depth⟩ = st' ∧
      (match programResult (polls + k) depth (execSs (Api.newMachine c false fns (fun _ => false)) F obj depth f prog env out) with
       | some (r, s) => st'.1 = r ∧ st'.2.out = s.out ∧ st'.2.env.globals = s.env.globals ∧ st'.2.polls = s.polls
       | none => True) := by
  simp only [compileProgram, bind, Except.bind, pure, Except.pure] at hc
  split at hc
  · cases hc
  · split at hc
    · cases hc
    · rename_i r hcomp
      split at hc
      · cases hc
      · rename_i hsize
        cases hc
        obtain ⟨code, st⟩ := r
        rw [normStmts_pure prog hp] at hcomp
        simp only [Bool.or_eq_true, decide_eq_true_eq, not_or, Nat.not_lt, List.any_eq_true, not_exists, not_and] at hsize
        obtain ⟨⟨hs1, hs2⟩, _⟩ := hsize
        obtain ⟨hmain, hconsts, hdone⟩ := newMachine_unopt ⟨st.consts, code, st.funcs⟩ fns (fun _ => false)
        generalize Api.newMachine ⟨st.consts, code, st.funcs⟩ false fns (fun _ => false) = M at hmain hconsts hdone hnd hF ⊢
        simp only at hmain hconsts
        have hsz := compileStmts_size prog 0 ⟨[], []⟩ _ hcomp
        simp only at hsz
        have hlenb : (encodeAll code).length = codeSize code := encodeAll_length _
        have ctx : Ctx M M.main := ⟨fun n => by rw [hdone], by rw [hmain, hlenb]; exact hs1, by rw [hconsts]; exact hs2⟩
        have hcode : CodeAt M.main 0 code := ⟨[], [], by rw [hmain]; simp, rfl⟩
        obtain ⟨n1, k1, q1, ih⟩ := (SIH_all (F := F) (obj := obj) hF f M.main ctx).Ss prog 0 ⟨[], []⟩ _ hp hcomp hcode ⟨[], by simp [hconsts]⟩ [] env out polls depth hnd
        have hmlen : M.main.length = Stmt.sizes prog := by rw [hmain, hlenb, hsz]
        have hnempty : M.main.isEmpty = false := by
          cases hm : M.main with
          | nil => rw [hm] at hmlen; simp at hmlen; omega
          | cons b bs => rfl
        refine ⟨n1 + 1, k1, fun fuel => ⟨_, rfl, ?_⟩⟩
        simp only [run, hnempty, Bool.false_eq_true, ↓reduceIte, finish]
        have := ih (fuel + 1)
        rw [show fuel + 1 + n1 = fuel + (n1 + 1) by omega] at this
        rw [this]
        cases hoc : execSs M F obj depth f prog env out with
        | diverged => exact absurd hoc hnd
        | normal env' o' =>
          simp only [afterS, programResult, Nat.zero_add]
          have hge : Stmt.sizes prog ≥ M.main.length := by omega
          rw [show fuel + 1 + q1 = (fuel + q1) + 1 by omega]
          simp [loop, hge, Env.truncate]
        | returned v env' o' => simp [afterS, programResult, Env.truncate]
        | failed x env' o' => simp [afterS, programResult, Env.truncate]

end EvalFilter.Exec
