/-
  The compiler model computes jump targets from `Expr.size`.  This file proves that the size function
  is right: the code emitted for a node has exactly `size` bytes, for every node, offset and compiler
  state - so every jump target the compiler computes is the offset of the instruction it is meant
  to reach (see `Props/C02.lean`, `Props/C18.lean`).
-/
import EvalFilter.Model.Compiler

set_option linter.unusedSimpArgs false

namespace EvalFilter.Compiler
open EvalFilter

theorem codeSize_append (a b : List Instr) : codeSize (a ++ b) = codeSize a + codeSize b := by
  induction a with
  | nil => simp [codeSize]
  | cons i is ih => simp [codeSize, ih]; omega

theorem bind_ok {α β : Type} {x : CM α} {f : α → CM β} {r : β} :
    (x >>= f) = .ok r ↔ ∃ a, x = .ok a ∧ f a = .ok r := by
  cases x with
  | error e => simp [bind, Except.bind]
  | ok a => simp [bind, Except.bind]

theorem bind_ok_eq {α β : Type} {x : CM α} {f : α → CM β} {r : β} :
    ((x >>= f) = .ok r) = (∃ a, x = .ok a ∧ f a = .ok r) := propext bind_ok

@[simp] theorem codeSize_cons (i : Instr) (is : List Instr) : codeSize (i :: is) = i.size + codeSize is := rfl
@[simp] theorem codeSize_nil : codeSize [] = 0 := rfl

theorem binaryOp_len {op : Str} {o : Op} (h : binaryOp op = some o) : o.length = 1 := by
  unfold binaryOp at h; split at h <;> first | (cases h; rfl) | cases h
theorem compoundOp_len {op : Str} {o : Op} (h : compoundOp op = some o) : o.length = 1 := by
  unfold compoundOp at h; split at h <;> first | (cases h; rfl) | cases h
theorem prefixOp_len {op : Str} {o : Op} (h : prefixOp op = some o) : o.length = 1 := by
  unfold prefixOp at h; split at h <;> first | (cases h; rfl) | cases h

theorem withConst_size (st : CState) (op : Op) (v : Value) : (withConst st op v).1.size = op.length := rfl
theorem withConst_op (st : CState) (op : Op) (v : Value) : (withConst st op v).1.op = op := rfl

mutual
  theorem compileExpr_size : ∀ (e : Expr) (base : Nat) (st : CState) (r : List Instr × CState),
      compileExpr e base st = .ok r → codeSize r.1 = e.size
    | .boolLit b, base, st, r, h => by
      simp only [compileExpr, pure, Except.pure] at h; cases h
      simp [Instr.size, Expr.size]; split <;> rfl
    | .floatLit _ _, base, st, r, h => by
      simp only [compileExpr, pure, Except.pure] at h; cases h
      simp [Expr.size, withConst_size, withConst_op, Op.length]
    | .intLit _ v, base, st, r, h => by
      simp only [compileExpr, pure, Except.pure] at h
      split at h <;> (cases h; simp [Expr.size, withConst_size, withConst_op, Op.length, Instr.size])
    | .strLit _, base, st, r, h => by
      simp only [compileExpr, pure, Except.pure] at h; cases h
      simp [Expr.size, withConst_size, withConst_op, Op.length]
    | .regexpLit _ _ _, base, st, r, h => by
      simp only [compileExpr, pure, Except.pure] at h; cases h
      simp [Expr.size, withConst_size, withConst_op, Op.length]
    | .arrayLit els, base, st, r, h => by
      simp only [compileExpr, bind_ok_eq, pure, Except.pure] at h
      obtain ⟨⟨c, st1⟩, h1, h2⟩ := h
      have e1 := compileExprs_size els base st _ h1
      cases h2
      simp only at e1
      simp [codeSize_append, e1, Expr.size, Instr.size, Op.length]
      try omega
    | .hashLit pairs, base, st, r, h => by
      simp only [compileExpr, bind_ok_eq, pure, Except.pure] at h
      obtain ⟨⟨c, st1⟩, h1, h2⟩ := h
      have e1 := compilePairs_size pairs base st _ h1
      cases h2
      simp only at e1
      simp [codeSize_append, e1, Expr.size, Instr.size, Op.length]
      try omega
    | .infix op l r', base, st, r, h => by
      simp only [compileExpr, bind_ok_eq] at h
      obtain ⟨⟨cl, st1⟩, h1, ⟨cr, st2⟩, h2, h3⟩ := h
      have e1 := compileExpr_size l base st _ h1
      have e2 := compileExpr_size r' _ _ _ h2
      simp only at e1 e2 h3
      by_cases hco : isCompound op = true
      · simp only [hco, ↓reduceIte] at h3
        split at h3
        · rename_i name o _ hc
          simp only [pure, Except.pure] at h3; cases h3
          have := compoundOp_len hc
          simp [codeSize_append, e1, e2, Expr.size, hco, Instr.size, withConst_op, this]
          simp [Op.length]
          omega
        · cases h3
      · simp only [hco, Bool.false_eq_true, ↓reduceIte] at h3
        split at h3
        · rename_i o hb
          simp only [pure, Except.pure] at h3; cases h3
          have := binaryOp_len hb
          simp [codeSize_append, e1, e2, Expr.size, hco, Instr.size, this]
          omega
        · cases h3
    | .prefix op r', base, st, r, h => by
      simp only [compileExpr, bind_ok_eq] at h
      obtain ⟨⟨cr, st1⟩, h1, h3⟩ := h
      have e1 := compileExpr_size r' base st _ h1
      simp only at e1 h3
      split at h3
      · rename_i _ hb
        simp only [pure, Except.pure] at h3; cases h3
        simp [codeSize_append, e1, Expr.size, Instr.size, prefixOp_len hb]
        try omega
      · cases h3
    | .postfix _ _, base, st, r, h => by
      simp only [compileExpr, pure, Except.pure] at h
      split at h
      · cases h; simp [Expr.size, withConst_size, withConst_op, Op.length]
      · split at h
        · cases h; simp [Expr.size, withConst_size, withConst_op, Op.length]
        · cases h
    | .localE _, base, st, r, h => by
      simp only [compileExpr, pure, Except.pure] at h; cases h
      simp [Expr.size, withConst_size, withConst_op, Op.length, Instr.size]
    | .foreachE idx ident v body, base, st, r, h => by
      simp only [compileExpr, bind_ok_eq, pure, Except.pure] at h
      obtain ⟨⟨cv, st1⟩, h1, ⟨cb, st2⟩, h2, h3⟩ := h
      have e1 := compileExpr_size v base st _ h1
      have e2 := compileStmts_size body _ _ _ h2
      cases h3
      simp only at e1 e2
      simp [codeSize_append, e1, e2, Expr.size, Instr.size, withConst_size, withConst_op, Op.length]
      omega
    | .funcDef _ _ body, base, st, r, h => by
      simp only [compileExpr, bind_ok_eq, pure, Except.pure] at h
      obtain ⟨⟨cb, st1⟩, _, h3⟩ := h
      cases h3
      simp [Expr.size]
    | .ifE c cons none, base, st, r, h => by
      simp only [compileExpr, bind_ok_eq, pure, Except.pure] at h
      obtain ⟨⟨cc, st1⟩, h1, ⟨ca, st2⟩, h2, h3⟩ := h
      have e1 := compileExpr_size c base st _ h1
      have e2 := compileStmts_size cons _ _ _ h2
      cases h3
      simp only at e1 e2
      simp [codeSize_append, e1, e2, Expr.size, Instr.size, Op.length]
      try omega
    | .ifE c cons (some a), base, st, r, h => by
      simp only [compileExpr, bind_ok_eq, pure, Except.pure] at h
      obtain ⟨⟨cc, st1⟩, h1, ⟨ca, st2⟩, h2, ⟨cb, st3⟩, h4, h5⟩ := h
      have e1 := compileExpr_size c base st _ h1
      have e2 := compileStmts_size cons _ _ _ h2
      have e3 := compileStmts_size a _ _ _ h4
      cases h5
      simp only at e1 e2 e3
      simp [codeSize_append, e1, e2, e3, Expr.size, Instr.size, Op.length]
      try omega
    | .ternary c t f, base, st, r, h => by
      simp only [compileExpr, bind_ok_eq, pure, Except.pure] at h
      obtain ⟨⟨cc, st1⟩, h1, ⟨ct, st2⟩, h2, ⟨cf, st3⟩, h3, h4⟩ := h
      have e1 := compileExpr_size c base st _ h1
      have e2 := compileExpr_size t _ _ _ h2
      have e3 := compileExpr_size f _ _ _ h3
      cases h4
      simp only at e1 e2 e3
      simp [codeSize_append, e1, e2, e3, Expr.size, Instr.size, Op.length]
      omega
    | .switchE v cs, base, st, r, h => by
      simp only [compileExpr, bind_ok_eq, pure, Except.pure] at h
      obtain ⟨st0, _, ⟨ca, st1⟩, h1, ⟨cd, st2⟩, h2, h3⟩ := h
      have e1 := compileArms_size (fun b s => compileExpr v b s) v.size
        (fun b s r hr => compileExpr_size v b s r hr) cs _ _ _ _ h1
      have e2 := compileDefaults_size cs _ _ _ h2
      cases h3
      simp only at e1 e2
      simp [codeSize_append, e1, e2, Expr.size, Instr.size, Op.length]
      try omega
    | .whileE c body, base, st, r, h => by
      simp only [compileExpr, bind_ok_eq, pure, Except.pure] at h
      obtain ⟨⟨cc, st1⟩, h1, ⟨cb, st2⟩, h2, h3⟩ := h
      have e1 := compileExpr_size c base st _ h1
      have e2 := compileStmts_size body _ _ _ h2
      cases h3
      simp only at e1 e2
      simp [codeSize_append, e1, e2, Expr.size, Instr.size, Op.length]
      omega
    | .assign _ v, base, st, r, h => by
      simp only [compileExpr, bind_ok_eq, pure, Except.pure] at h
      obtain ⟨⟨cv, st1⟩, h1, h3⟩ := h
      have e1 := compileExpr_size v base st _ h1
      cases h3
      simp only at e1
      simp [codeSize_append, e1, Expr.size, Instr.size, withConst_size, withConst_op, Op.length]
      try omega
    | .ident _, base, st, r, h => by
      simp only [compileExpr, pure, Except.pure] at h; cases h
      simp [Expr.size, withConst_size, withConst_op, Op.length]
    | .call fn args, base, st, r, h => by
      simp only [compileExpr, bind_ok_eq, pure, Except.pure] at h
      obtain ⟨⟨ca, st1⟩, h1, h3⟩ := h
      have e1 := compileExprs_size args base st _ h1
      cases h3
      simp only at e1
      simp [codeSize_append, e1, Expr.size, Instr.size, withConst_size, withConst_op, Op.length]
      try omega
    | .index l i, base, st, r, h => by
      simp only [compileExpr, bind_ok_eq, pure, Except.pure] at h
      obtain ⟨⟨cl, st1⟩, h1, ⟨ci, st2⟩, h2, h3⟩ := h
      have e1 := compileExpr_size l base st _ h1
      have e2 := compileExpr_size i _ _ _ h2
      cases h3
      simp only at e1 e2
      simp [codeSize_append, e1, e2, Expr.size, Instr.size, Op.length]
      try omega

  theorem compileExprs_size : ∀ (es : List Expr) (base : Nat) (st : CState) (r : List Instr × CState),
      compileExprs es base st = .ok r → codeSize r.1 = Expr.sizes es
    | [], _, _, r, h => by
      simp only [compileExprs, pure, Except.pure] at h; cases h; simp [Expr.sizes]
    | e :: rest, base, st, r, h => by
      simp only [compileExprs, bind_ok_eq, pure, Except.pure] at h
      obtain ⟨⟨c, st1⟩, h1, ⟨cs, st2⟩, h2, h3⟩ := h
      have e1 := compileExpr_size e base st _ h1
      have e2 := compileExprs_size rest _ _ _ h2
      cases h3
      simp only at e1 e2
      simp [codeSize_append, e1, e2, Expr.sizes]
      try omega

  theorem compilePairs_size : ∀ (ps : List Pair) (base : Nat) (st : CState) (r : List Instr × CState),
      compilePairs ps base st = .ok r → codeSize r.1 = Pair.sizes ps
    | [], _, _, r, h => by
      simp only [compilePairs, pure, Except.pure] at h; cases h; simp [Pair.sizes]
    | .mk k v :: rest, base, st, r, h => by
      simp only [compilePairs, bind_ok_eq, pure, Except.pure] at h
      obtain ⟨⟨ck, st1⟩, h1, ⟨cv, st2⟩, h2, ⟨cs, st3⟩, h3, h4⟩ := h
      have e1 := compileExpr_size k base st _ h1
      have e2 := compileExpr_size v _ _ _ h2
      have e3 := compilePairs_size rest _ _ _ h3
      cases h4
      simp only at e1 e2 e3
      simp [codeSize_append, e1, e2, e3, Pair.sizes]
      omega

  theorem compileStmt_size : ∀ (s : Stmt) (base : Nat) (st : CState) (r : List Instr × CState),
      compileStmt s base st = .ok r → codeSize r.1 = s.size
    | .expr e, base, st, r, h => by
      simp only [compileStmt] at h
      simpa [Stmt.size] using compileExpr_size e base st r h
    | .ret e, base, st, r, h => by
      simp only [compileStmt, bind_ok_eq, pure, Except.pure] at h
      obtain ⟨⟨c, st1⟩, h1, h3⟩ := h
      have e1 := compileExpr_size e base st _ h1
      cases h3
      simp only at e1
      simp [codeSize_append, e1, Stmt.size, Instr.size, Op.length]
      try omega

  theorem compileStmts_size : ∀ (ss : List Stmt) (base : Nat) (st : CState) (r : List Instr × CState),
      compileStmts ss base st = .ok r → codeSize r.1 = Stmt.sizes ss
    | [], _, _, r, h => by
      simp only [compileStmts, pure, Except.pure] at h; cases h; simp [Stmt.sizes]
    | s :: rest, base, st, r, h => by
      simp only [compileStmts, bind_ok_eq, pure, Except.pure] at h
      obtain ⟨⟨c, st1⟩, h1, ⟨cs, st2⟩, h2, h3⟩ := h
      have e1 := compileStmt_size s base st _ h1
      have e2 := compileStmts_size rest _ _ _ h2
      cases h3
      simp only at e1 e2
      simp [codeSize_append, e1, e2, Stmt.sizes]
      try omega

  theorem compileArms_size (cv : Nat → CState → CM (List Instr × CState)) (vsize : Nat)
      (hcv : ∀ b s r, cv b s = .ok r → codeSize r.1 = vsize) :
      ∀ (cs : List Case) (base endPos : Nat) (st : CState) (r : List Instr × CState),
      compileArms cv vsize cs base endPos st = .ok r → codeSize r.1 = Case.armsSize vsize cs
    | [], _, _, _, r, h => by
      simp only [compileArms, pure, Except.pure] at h; cases h; simp [Case.armsSize]
    | .mk isDef es b :: rest, base, endPos, st, r, h => by
      simp only [compileArms] at h
      split at h
      · rename_i hd
        have := compileArms_size cv vsize hcv rest base endPos st r h
        simp [Case.armsSize, hd, this]
      · rename_i hd
        simp only [bind_ok_eq, pure, Except.pure] at h
        obtain ⟨⟨c, st1⟩, h1, ⟨cr, st2⟩, h2, h3⟩ := h
        have e1 := compileArm_size cv vsize hcv (fun bs s => compileStmts b bs s) (Stmt.sizes b)
          (fun bs s r hr => compileStmts_size b bs s r hr) es _ _ _ _ h1
        have e2 := compileArms_size cv vsize hcv rest _ _ _ _ h2
        cases h3
        simp only at e1 e2
        simp [codeSize_append, e1, e2, Case.armsSize, hd]
        try omega

  theorem compileArm_size (cv : Nat → CState → CM (List Instr × CState)) (vsize : Nat)
      (hcv : ∀ b s r, cv b s = .ok r → codeSize r.1 = vsize)
      (cblock : Nat → CState → CM (List Instr × CState)) (bsize : Nat)
      (hcb : ∀ b s r, cblock b s = .ok r → codeSize r.1 = bsize) :
      ∀ (es : List Expr) (base endPos : Nat) (st : CState) (r : List Instr × CState),
      compileArm cv vsize cblock bsize es base endPos st = .ok r → codeSize r.1 = Case.armSize vsize bsize es
    | [], _, _, _, r, h => by
      simp only [compileArm, pure, Except.pure] at h; cases h; simp [Case.armSize]
    | e :: rest, base, endPos, st, r, h => by
      simp only [compileArm, bind_ok_eq, pure, Except.pure] at h
      obtain ⟨⟨cv', st1⟩, h1, ⟨ce, st2⟩, h2, ⟨cb, st3⟩, h3, ⟨cr, st4⟩, h4, h5⟩ := h
      have e1 := hcv _ _ _ h1
      have e2 := compileExpr_size e _ _ _ h2
      have e3 := hcb _ _ _ h3
      have e4 := compileArm_size cv vsize hcv cblock bsize hcb rest _ _ _ _ h4
      cases h5
      simp only at e1 e2 e3 e4
      simp [codeSize_append, e1, e2, e3, e4, Case.armSize, Instr.size, Op.length]
      omega

  theorem compileDefaults_size : ∀ (cs : List Case) (base : Nat) (st : CState) (r : List Instr × CState),
      compileDefaults cs base st = .ok r → codeSize r.1 = Case.defaultsSize cs
    | [], _, _, r, h => by
      simp only [compileDefaults, pure, Except.pure] at h; cases h; simp [Case.defaultsSize]
    | .mk isDef es b :: rest, base, st, r, h => by
      simp only [compileDefaults] at h
      split at h
      · rename_i hd
        simp only [bind_ok_eq, pure, Except.pure] at h
        obtain ⟨⟨c, st1⟩, h1, ⟨cr, st2⟩, h2, h3⟩ := h
        have e1 := compileStmts_size b _ _ _ h1
        have e2 := compileDefaults_size rest _ _ _ h2
        cases h3
        simp only at e1 e2
        simp [codeSize_append, e1, e2, Case.defaultsSize, hd]
        try omega
      · rename_i hd
        have := compileDefaults_size rest base st r h
        simp [Case.defaultsSize, hd, this]
end

end EvalFilter.Compiler
