/-
  The ternary at the top of an expression reads back: `return c ? t : f;` with condition and arms arbitrary
  operator trees (`Proofs/Pratt.lean`) parses to the ternary of exactly those trees.
-/
import EvalFilter.Proofs.Pratt
set_option linter.unusedSimpArgs false
set_option linter.unusedVariables false
namespace EvalFilter.Parser
open EvalFilter

def qT : Token := ⟨.QUESTION, ['?']⟩
def colT : Token := ⟨.COLON, [':']⟩

/-- the loop takes a `?` (it binds tighter than the lowest level only): both arms are parsed from the lowest
    level with the "inside a ternary" flag set, the colon is required, the flag is cleared afterwards -/
theorem loop_ternary (f : Nat) (left : Expr) (c : Token) (inner : List Token) (prev : Token) (fn : Bool) (d : Nat) :
    infixLoop (f + 2) LOWEST left ⟨c :: qT :: inner, prev, false, fn, d⟩ =
      (match parseExpression f LOWEST ⟨inner, qT, true, fn, d⟩ with
       | none => none
       | some (t, s2) =>
         match s2.expectPeek .COLON with
         | none => none
         | some s3 =>
           match parseExpression f LOWEST s3.next with
           | none => none
           | some (e, s4) => infixLoop (f + 1) LOWEST (.ternary left t e) { s4 with tern := false }) := by
  have hp' : LOWEST < precedence TokType.QUESTION := by decide
  conv => lhs; rw [infixLoop]
  have h1 : (PState.peekIs ⟨c :: qT :: inner, prev, false, fn, d⟩ .SEMICOLON) = false := rfl
  have h2 : (PState.peek ⟨c :: qT :: inner, prev, false, fn, d⟩).ty = .QUESTION := rfl
  have h3 : infixFn TokType.QUESTION = some .ternary := rfl
  simp only [h1, h2, h3, hp', Bool.not_false, Bool.true_and, decide_true, ↓reduceIte]
  conv => lhs; rw [parseInfix]
  have h4 : (PState.next ⟨c :: qT :: inner, prev, false, fn, d⟩) = ⟨qT :: inner, c, false, fn, d⟩ := rfl
  simp only [h4, Bool.false_eq_true, ↓reduceIte]
  have h5 : (PState.next ⟨qT :: inner, c, true, fn, d⟩) = ⟨inner, qT, true, fn, d⟩ := rfl
  rw [h5]
  cases parseExpression f LOWEST ⟨inner, qT, true, fn, d⟩ with
  | none => rfl
  | some r =>
    obtain ⟨e, s2⟩ := r
    simp only []
    cases s2.expectPeek .COLON with
    | none => rfl
    | some s3 =>
      simp only []
      cases parseExpression f LOWEST s3.next with
      | none => rfl
      | some r2 => rfl


/-- **A ternary at the top reads back**: `return c ? t : f;` - condition and arms any operator trees, printed
    with their necessary parentheses and none around them - parses to the ternary of exactly those trees:
    the ternary binds looser than every operator of the three sub-trees. -/
theorem pratt_round_trip_ternary (c t e : T) (hc : c.wf) (ht : t.wf) (he : e.wf)
    (hnc : c.nest ≤ maxNesting) (hnt : t.nest + 1 ≤ maxNesting) (hne : e.nest + 1 ≤ maxNesting) :
    parse (retTok :: (c.pr ++ qT :: (t.pr ++ colT :: (e.pr ++ [semiTok, Token.eof])))) =
      some [.ret (.ternary c.toExpr t.toExpr e.toExpr)] := by
  have hszc := c.size_le_pr
  have hszt := t.size_le_pr
  have hsze := e.size_le_pr
  have hkc := c.k_le_size
  have hkt := t.k_le_size
  have hke := e.k_le_size
  have hkpc := c.k_pos
  have hkpt := t.k_pos
  have hkpe := e.k_pos
  unfold parse
  generalize hF : fuelFor (retTok :: (c.pr ++ qT :: (t.pr ++ colT :: (e.pr ++ [semiTok, Token.eof])))) = F
  have hFv : F = 16 * (c.pr.length + t.pr.length + e.pr.length + 9) := by
    rw [← hF]; simp [fuelFor]; omega
  obtain ⟨F', rfl⟩ : ∃ F', F = F' + 2 := ⟨F - 2, by omega⟩
  simp only [parseProgramLoop, PState.curIs, PState.cur, retTok, List.headD_cons, List.cons_append,
    beq_iff_eq, reduceCtorEq, ↓reduceIte, parseStatement, beq_self_eq_true, PState.next, List.tail_cons,
    List.length_cons, List.length_append]
  -- the condition
  obtain ⟨pv, hL⟩ := L_all c hc LOWEST (F' + 1) (qT :: (t.pr ++ colT :: (e.pr ++ [semiTok, Token.eof]))) retTok false false 0
    (c.plvl_pos hc) (by simp [headPrec, qT, precedence]; exact c.lvl_pos hc) (by omega) (by omega)
  have hL' : parseExpression (F' + 1) LOWEST
      ⟨c.pr ++ qT :: (t.pr ++ colT :: (e.pr ++ [semiTok, Token.eof])), ⟨.RETURN, ['r', 'e', 't', 'u', 'r', 'n']⟩, false, false, 0⟩ = _ := hL
  rw [hL']
  -- the `?`
  obtain ⟨g, hg⟩ : ∃ g, F' + 1 - c.k = g + 2 := ⟨F' + 1 - c.k - 2, by omega⟩
  rw [hg, loop_ternary g]
  -- the first arm, up to the colon
  obtain ⟨pv2, hT⟩ := L_all t ht LOWEST g (colT :: (e.pr ++ [semiTok, Token.eof])) qT true false (0 + 1)
    (t.plvl_pos ht) (by simp [headPrec, colT, precedence]; exact Nat.le_of_lt (t.lvl_pos ht)) (by omega) (by omega)
  rw [hT]
  obtain ⟨g2, hg2⟩ : ∃ g2, g - t.k = g2 + 1 := ⟨g - t.k - 1, by omega⟩
  rw [hg2, loop_stop g2 LOWEST _ _ (by simp [PState.peek, colT, precedence, LOWEST])]
  simp only [unwind, PState.expectPeek, PState.peekIs, PState.peek, List.tail_cons, List.headD_cons, colT,
    beq_self_eq_true, ↓reduceIte, PState.next, PState.cur, Nat.add_sub_cancel]
  -- the second arm, up to the semicolon
  obtain ⟨pv3, hE⟩ := L_all e he LOWEST g ([semiTok, Token.eof]) ⟨.COLON, [':']⟩ true false (0 + 1)
    (e.plvl_pos he) (by simp [headPrec, semiTok, precedence]; exact Nat.le_of_lt (e.lvl_pos he)) (by omega) (by omega)
  rw [hE]
  obtain ⟨g3, hg3⟩ : ∃ g3, g - e.k = g3 + 1 := ⟨g - e.k - 1, by omega⟩
  rw [hg3, loop_stop g3 LOWEST _ _ (by simp [PState.peek, semiTok, precedence, LOWEST])]
  simp only [unwind]
  rw [loop_stop g LOWEST _ _ (by simp [PState.peek, semiTok, precedence, LOWEST])]
  simp [unwind, PState.curIs, PState.cur, PState.next, semiTok, parseProgramLoop, Token.eof]

end EvalFilter.Parser
