/-
  User-defined functions, part 4: definitions anywhere.  The compiler registers a function when it compiles
  the definition - inside blocks, inside other functions' bodies, in the blocks of a `switch` once per case
  expression - and the table it ends up with is the script's definitions in that order (`inv_Ss`), so `FnOK`
  holds for every accepted compilation of every script of the fragment (`fnOK_of_compile_all`).
-/
import EvalFilter.Proofs.FnDefs3
set_option linter.unusedSimpArgs false
set_option linter.unusedVariables false
namespace EvalFilter.Exec
open EvalFilter EvalFilter.VM EvalFilter.Compiler

/-! ### function definitions anywhere: the table in the order the compiler registers them -/

mutual
  /-- the definitions inside an expression-statement, in the compiler's order: those inside a function's body
      before the function itself; the blocks of a `switch` once per case expression, then the default blocks -/
  def dE : Expr → FnTable
    | .funcDef n ps b => dSs b ++ [⟨n, ps, b⟩]
    | .ifE _ cons none => dSs cons
    | .ifE _ cons (some a) => dSs cons ++ dSs a
    | .whileE _ b => dSs b
    | .foreachE _ _ _ b => dSs b
    | .switchE _ cs => dArms cs ++ dDefaults cs
    | _ => []
  def dArms : List Case → FnTable
    | [] => []
    | .mk isDef es b :: cs => (if isDef then [] else (List.replicate es.length (dSs b)).flatten) ++ dArms cs
  def dDefaults : List Case → FnTable
    | [] => []
    | .mk isDef _ b :: cs => (if isDef then dSs b else []) ++ dDefaults cs
  def dS : Stmt → FnTable
    | .ret _ => []
    | .expr e => dE e
  def dSs : List Stmt → FnTable
    | [] => []
    | s :: ss => dS s ++ dSs ss
end

/-- a piece of compilation that registers nothing and only extends the pool keeps the invariant -/
theorem Inv.keep {st st' : CState} {T : FnTable} (h : Inv st.funcs T st.consts) (hf : st'.funcs = st.funcs)
    (hx : ∃ ex, st'.consts = st.consts ++ ex) : Inv st'.funcs T st'.consts := by
  rw [hf]; exact h.mono hx

theorem dE_pure (e : Expr) (h : pureE e = true) : dE e = [] := by
  cases e <;> first | rfl | simp [pureE] at h

theorem val_keep (v : Expr) (base : Nat) (st : CState) (r : List Instr × CState) (T : FnTable)
    (hv : pureE v = true ∨ ∃ fn args, v = .call fn args ∧ pureEs args = true)
    (h : compileExpr v base st = .ok r) (hi : Inv st.funcs T st.consts) : Inv r.2.funcs T r.2.consts :=
  hi.keep (val_funcs v base st r hv h) (compileExpr_R v base st r h).ext

theorem withConst_keep (st : CState) (op : Op) (v : Value) (T : FnTable) (hi : Inv st.funcs T st.consts) :
    Inv (withConst st op v).2.funcs T (withConst st op v).2.consts :=
  hi.keep (withConst_funcs st op v) (addConstant_ext st v)


mutual
  theorem nd_dE : ∀ (e : Expr), ndE e = true → dE e = []
    | .funcDef _ _ _, h => by simp [ndE] at h
    | .ifE _ cons none, h => by simp only [ndE] at h; simp [dE, nd_dSs cons h]
    | .ifE _ cons (some a), h => by
      simp only [ndE, Bool.and_eq_true] at h; simp [dE, nd_dSs cons h.1, nd_dSs a h.2]
    | .whileE _ b, h => by simp only [ndE] at h; simp [dE, nd_dSs b h]
    | .foreachE _ _ _ b, h => by simp only [ndE] at h; simp [dE, nd_dSs b h]
    | .switchE _ cs, h => by simp only [ndE] at h; simp [dE, (nd_dCases cs h).1, (nd_dCases cs h).2]
    | .boolLit _, _ | .intLit _ _, _ | .floatLit _ _, _ | .strLit _, _ | .regexpLit _ _ _, _ | .ident _, _
    | .arrayLit _, _ | .hashLit _, _ | .prefix _ _, _ | .infix _ _ _, _ | .index _ _, _ | .ternary _ _ _, _
    | .postfix _ _, _ | .localE _, _ | .call _ _, _ | .assign _ _, _ => rfl
  theorem nd_dCases : ∀ (cs : List Case), ndCases cs = true → dArms cs = [] ∧ dDefaults cs = []
    | [], _ => ⟨rfl, rfl⟩
    | .mk isDef es b :: cs, h => by
      simp only [ndCases, Bool.and_eq_true] at h
      have hb := nd_dSs b h.1
      have hc := nd_dCases cs h.2
      constructor
      · simp only [dArms, hb, hc.1, List.append_nil]
        split
        · rfl
        · induction es.length with
          | zero => rfl
          | succ n ih => simp [List.replicate_succ, ih]
      · simp only [dDefaults, hb, hc.2, List.append_nil]; split <;> rfl
  theorem nd_dS : ∀ (s : Stmt), ndS s = true → dS s = []
    | .ret _, _ => rfl
    | .expr e, h => by simp only [ndS] at h; simp [dS, nd_dE e h]
  theorem nd_dSs : ∀ (ss : List Stmt), ndSs ss = true → dSs ss = []
    | [], _ => rfl
    | s :: ss, h => by
      simp only [ndSs, Bool.and_eq_true] at h
      simp [dSs, nd_dS s h.1, nd_dSs ss h.2]
end

/-- a statement without definitions inside keeps the invariant -/
theorem leaf_keep (e : Expr) (base : Nat) (st : CState) (r : List Instr × CState) (T : FnTable)
    (hs : stmtE e = true) (hn : ndE e = true) (h : compileExpr e base st = .ok r) (hi : Inv st.funcs T st.consts) :
    Inv r.2.funcs (T ++ dE e) r.2.consts := by
  rw [nd_dE e hn, List.append_nil]
  exact hi.keep (ndE_funcs e base st r hs hn h) (compileExpr_R e base st r h).ext


theorem flatten_replicate_succ (D : FnTable) (n : Nat) :
    (List.replicate (n + 1) D).flatten = D ++ (List.replicate n D).flatten := by
  simp [List.replicate_succ]

/-- what compiling a function definition does -/
theorem funcDef_compile (n : Str) (ps : List Str) (b : List Stmt) (base : Nat) (st : CState) (r : List Instr × CState)
    (h : compileExpr (.funcDef n ps b) base st = .ok r) :
    ∃ cb stb, compileStmts b 0 st = .ok (cb, stb) ∧
      r = ([], { stb with funcs := setFunc stb.funcs ⟨n, ps, fnCode cb⟩ }) := by
  simp only [compileExpr, bind_ok_eq, pure, Except.pure] at h
  obtain ⟨⟨cb, stb⟩, hb, hb2⟩ := h
  cases hb2
  refine ⟨cb, stb, hb, ?_⟩
  have : ∀ (x y : List Instr), x = y →
      (([] : List Instr), ({ stb with funcs := setFunc stb.funcs ⟨n, ps, x⟩ } : CState)) = ([], { stb with funcs := setFunc stb.funcs ⟨n, ps, y⟩ }) := by
    intro x y e; rw [e]
  apply this
  unfold fnCode endsRet
  cases cb.getLast? <;> rfl

mutual
  /-- **compiling a statement registers exactly its definitions**, in the compiler's order -/
  theorem inv_E : ∀ (e : Expr) (base : Nat) (st : CState) (r : List Instr × CState) (T : FnTable), stmtE e = true →
      compileExpr e base st = .ok r → Inv st.funcs T st.consts → Inv r.2.funcs (T ++ dE e) r.2.consts
    | .funcDef n ps b, base, st, r, T, hs, h, hi => by
      simp only [stmtE] at hs
      obtain ⟨cb, stb, hb, rfl⟩ := funcDef_compile n ps b base st r h
      have hi1 := inv_Ss b 0 st (cb, stb) T hs hb hi
      have hi2 := hi1.set n ps b st (cb, stb) hs hb rfl
      simpa [dE, List.append_assoc] using hi2
    | .ifE c cons none, base, st, r, T, hs, h, hi => by
      simp only [stmtE, Bool.and_eq_true] at hs
      simp only [compileExpr, bind_ok_eq, pure, Except.pure] at h
      obtain ⟨⟨cc, st1⟩, h1, ⟨ca, st2⟩, h2, h3⟩ := h
      cases h3
      have i1 := val_keep c base st (cc, st1) T (Or.inl hs.1) h1 hi
      exact inv_Ss cons _ _ (ca, st2) T hs.2 h2 i1
    | .ifE c cons (some a), base, st, r, T, hs, h, hi => by
      simp only [stmtE, Bool.and_eq_true] at hs
      simp only [compileExpr, bind_ok_eq, pure, Except.pure] at h
      obtain ⟨⟨cc, st1⟩, h1, ⟨ca, st2⟩, h2, ⟨cb, st3⟩, h3, h4⟩ := h
      cases h4
      have i1 := val_keep c base st (cc, st1) T (Or.inl hs.1.1) h1 hi
      have i2 := inv_Ss cons _ _ (ca, st2) T hs.1.2 h2 i1
      have i3 := inv_Ss a _ _ (cb, st3) _ hs.2 h3 i2
      simpa [dE, List.append_assoc] using i3
    | .whileE c body, base, st, r, T, hs, h, hi => by
      simp only [stmtE, Bool.and_eq_true] at hs
      simp only [compileExpr, bind_ok_eq, pure, Except.pure] at h
      obtain ⟨⟨cc, st1⟩, h1, ⟨cb, st2⟩, h2, h3⟩ := h
      cases h3
      have i1 := val_keep c base st (cc, st1) T (Or.inl hs.1) h1 hi
      exact inv_Ss body _ _ (cb, st2) T hs.2 h2 i1
    | .foreachE idx x v body, base, st, r, T, hs, h, hi => by
      simp only [stmtE, Bool.and_eq_true] at hs
      simp only [compileExpr, bind_ok_eq, pure, Except.pure] at h
      obtain ⟨⟨cv, st1⟩, h1, ⟨cb, st2⟩, h2, h3⟩ := h
      cases h3
      have i1 := val_keep v base st (cv, st1) T (Or.inl hs.1) h1 hi
      have i2 := withConst_keep st1 .constant (.str idx) T i1
      have i3 := withConst_keep _ .constant (.str x) T i2
      exact inv_Ss body _ _ (cb, st2) T hs.2 h2 i3
    | .switchE v cs, base, st, r, T, hs, h, hi => by
      simp only [stmtE, Bool.and_eq_true] at hs
      simp only [compileExpr, bind_ok_eq, pure, Except.pure] at h
      obtain ⟨st0, h0, ⟨ca, st1⟩, h1, ⟨cd, st2⟩, h2, h3⟩ := h
      cases h3
      have i0 : Inv st0.funcs T st0.consts := by
        split at h0
        · cases h0; exact hi
        · simp only [bind_ok_eq] at h0
          obtain ⟨⟨c0, s0⟩, hv, hs0⟩ := h0
          cases hs0
          exact val_keep v base st (c0, s0) T (Or.inl hs.1) hv hi
      have i1 := inv_Arms (fun b s => compileExpr v b s) v.size
        (fun b s r T hr hi => val_keep v b s r T (Or.inl hs.1) hr hi) cs _ _ _ (ca, st1) T hs.2 h1 i0
      have i2 := inv_Defaults cs _ _ (cd, st2) _ hs.2 h2 i1
      simpa [dE, List.append_assoc] using i2
    | .assign name v, base, st, r, T, hs, h, hi => leaf_keep _ base st r T hs rfl h hi
    | .call fn args, base, st, r, T, hs, h, hi => leaf_keep _ base st r T hs rfl h hi
    | .infix op l r', base, st, r, T, hs, h, hi => leaf_keep _ base st r T hs rfl h hi
    | .localE name, base, st, r, T, hs, h, hi => leaf_keep _ base st r T hs rfl h hi
    | .boolLit _, _, _, _, _, hs, _, _ => by simp [stmtE] at hs
    | .floatLit _ _, _, _, _, _, hs, _, _ => by simp [stmtE] at hs
    | .intLit _ _, _, _, _, _, hs, _, _ => by simp [stmtE] at hs
    | .strLit _, _, _, _, _, hs, _, _ => by simp [stmtE] at hs
    | .regexpLit _ _ _, _, _, _, _, hs, _, _ => by simp [stmtE] at hs
    | .ident _, _, _, _, _, hs, _, _ => by simp [stmtE] at hs
    | .arrayLit _, _, _, _, _, hs, _, _ => by simp [stmtE] at hs
    | .hashLit _, _, _, _, _, hs, _, _ => by simp [stmtE] at hs
    | .prefix _ _, _, _, _, _, hs, _, _ => by simp [stmtE] at hs
    | .index _ _, _, _, _, _, hs, _, _ => by simp [stmtE] at hs
    | .ternary _ _ _, _, _, _, _, hs, _, _ => by simp [stmtE] at hs
    | .postfix _ _, _, _, _, _, hs, _, _ => by simp [stmtE] at hs
  theorem inv_S : ∀ (s : Stmt) (base : Nat) (st : CState) (r : List Instr × CState) (T : FnTable), pureS s = true →
      compileStmt s base st = .ok r → Inv st.funcs T st.consts → Inv r.2.funcs (T ++ dS s) r.2.consts
    | .expr e, base, st, r, T, hs, h, hi => by
      simp only [pureS] at hs
      simp only [compileStmt] at h
      exact inv_E e base st r T hs h hi
    | .ret e, base, st, r, T, hs, h, hi => by
      have hv := pureS_ret_cases e hs
      simp only [compileStmt, bind_ok_eq, pure, Except.pure] at h
      obtain ⟨⟨c, st1⟩, h1, h2⟩ := h
      cases h2
      simpa [dS] using val_keep e base st (c, st1) T hv h1 hi
  theorem inv_Ss : ∀ (ss : List Stmt) (base : Nat) (st : CState) (r : List Instr × CState) (T : FnTable), pureSs ss = true →
      compileStmts ss base st = .ok r → Inv st.funcs T st.consts → Inv r.2.funcs (T ++ dSs ss) r.2.consts
    | [], base, st, r, T, _, h, hi => by
      simp only [compileStmts, pure, Except.pure] at h; cases h; simpa [dSs] using hi
    | s :: rest, base, st, r, T, hs, h, hi => by
      by_cases hpair : IsPair s rest
      · obtain ⟨e, n, op, rest', rfl, rfl⟩ := hpair
        simp only [pureSs, Bool.and_eq_true] at hs
        simp only [compileStmts, compileStmt, bind_ok_eq, pure, Except.pure] at h
        obtain ⟨⟨c, st1⟩, h1, ⟨cs, st2⟩, ⟨⟨ci, sti⟩, hci, ⟨cr, str⟩, hr, hcs⟩, h3⟩ := h
        cases h3; cases hcs
        have i1 := val_keep e base st (c, st1) T (Or.inl hs.1.2) h1 hi
        have i2 : Inv sti.funcs T sti.consts :=
          i1.keep (postfix_funcs n op _ _ _ hci) (compileExpr_R (.postfix n op) _ _ _ hci).ext
        have i3 := inv_Ss rest' _ _ (cr, str) T hs.2 hr i2
        simpa [dSs, dS, dE, dE_pure e hs.1.2] using i3
      · rw [pureSs_other s rest hpair, Bool.and_eq_true] at hs
        simp only [compileStmts, bind_ok_eq, pure, Except.pure] at h
        obtain ⟨⟨c, st1⟩, h1, ⟨cs, st2⟩, h2, h3⟩ := h
        cases h3
        have i1 := inv_S s base st (c, st1) T hs.1 h1 hi
        have i2 := inv_Ss rest _ _ (cs, st2) _ hs.2 h2 i1
        simpa [dSs, List.append_assoc] using i2
  theorem inv_Arms (cv : Nat → CState → CM (List Instr × CState)) (vsize : Nat)
      (hcv : ∀ b s r T, cv b s = .ok r → Inv s.funcs T s.consts → Inv r.2.funcs T r.2.consts) :
      ∀ (cs : List Case) (base endPos : Nat) (st : CState) (r : List Instr × CState) (T : FnTable), pureCases cs = true →
      compileArms cv vsize cs base endPos st = .ok r → Inv st.funcs T st.consts → Inv r.2.funcs (T ++ dArms cs) r.2.consts
    | [], _, _, st, r, T, _, h, hi => by
      simp only [compileArms, pure, Except.pure] at h; cases h; simpa [dArms] using hi
    | .mk isDef es b :: rest, base, endPos, st, r, T, hs, h, hi => by
      simp only [pureCases, Bool.and_eq_true] at hs
      simp only [compileArms] at h
      split at h
      · rename_i hd
        have := inv_Arms cv vsize hcv rest base endPos st r T hs.2 h hi
        simpa [dArms, hd] using this
      · rename_i hd
        simp only [bind_ok_eq, pure, Except.pure] at h
        obtain ⟨⟨c, st1⟩, h1, ⟨cr, st2⟩, h2, h3⟩ := h
        cases h3
        have i1 := inv_Arm cv vsize hcv (fun bs s => compileStmts b bs s) (Stmt.sizes b) (dSs b)
          (fun bs s r T hr hi => inv_Ss b bs s r T hs.1.2 hr hi) es _ _ _ (c, st1) T hs.1.1 h1 hi
        have i2 := inv_Arms cv vsize hcv rest _ _ _ (cr, st2) _ hs.2 h2 i1
        simpa [dArms, hd, List.append_assoc] using i2
  theorem inv_Arm (cv : Nat → CState → CM (List Instr × CState)) (vsize : Nat)
      (hcv : ∀ b s r T, cv b s = .ok r → Inv s.funcs T s.consts → Inv r.2.funcs T r.2.consts)
      (cblock : Nat → CState → CM (List Instr × CState)) (bsize : Nat) (D : FnTable)
      (hcb : ∀ b s r T, cblock b s = .ok r → Inv s.funcs T s.consts → Inv r.2.funcs (T ++ D) r.2.consts) :
      ∀ (es : List Expr) (base endPos : Nat) (st : CState) (r : List Instr × CState) (T : FnTable), pureEs es = true →
      compileArm cv vsize cblock bsize es base endPos st = .ok r → Inv st.funcs T st.consts →
      Inv r.2.funcs (T ++ (List.replicate es.length D).flatten) r.2.consts
    | [], _, _, st, r, T, _, h, hi => by
      simp only [compileArm, pure, Except.pure] at h; cases h; simpa using hi
    | e :: rest, base, endPos, st, r, T, hs, h, hi => by
      simp only [pureEs, Bool.and_eq_true] at hs
      simp only [compileArm, bind_ok_eq, pure, Except.pure] at h
      obtain ⟨⟨cv', st1⟩, h1, ⟨ce, st2⟩, h2, ⟨cb, st3⟩, h3, ⟨cr, st4⟩, h4, h5⟩ := h
      cases h5
      have i1 := hcv _ _ (cv', st1) T h1 hi
      have i2 := val_keep e _ _ (ce, st2) T (Or.inl hs.1) h2 i1
      have i3 := hcb _ _ (cb, st3) T h3 i2
      have i4 := inv_Arm cv vsize hcv cblock bsize D hcb rest _ _ _ (cr, st4) _ hs.2 h4 i3
      simpa [List.length_cons, flatten_replicate_succ, List.append_assoc] using i4
  theorem inv_Defaults : ∀ (cs : List Case) (base : Nat) (st : CState) (r : List Instr × CState) (T : FnTable), pureCases cs = true →
      compileDefaults cs base st = .ok r → Inv st.funcs T st.consts → Inv r.2.funcs (T ++ dDefaults cs) r.2.consts
    | [], _, st, r, T, _, h, hi => by
      simp only [compileDefaults, pure, Except.pure] at h; cases h; simpa [dDefaults] using hi
    | .mk isDef es b :: rest, base, st, r, T, hs, h, hi => by
      simp only [pureCases, Bool.and_eq_true] at hs
      simp only [compileDefaults] at h
      split at h
      · rename_i hd
        simp only [bind_ok_eq, pure, Except.pure] at h
        obtain ⟨⟨c, st1⟩, h1, ⟨cr, st2⟩, h2, h3⟩ := h
        cases h3
        have i1 := inv_Ss b _ _ (c, st1) T hs.1.2 h1 hi
        have i2 := inv_Defaults rest _ _ (cr, st2) _ hs.2 h2 i1
        simpa [dDefaults, hd, List.append_assoc] using i2
      · rename_i hd
        have := inv_Defaults rest base st r T hs.2 h hi
        simpa [dDefaults, hd] using this
end


/-- all function definitions of a script, wherever they stand, in the order the compiler registers them -/
abbrev allDefs (prog : Program) : FnTable := dSs prog

/-- **The machine's functions are the script's functions, wherever they are defined** - at top level, inside
    blocks, inside other functions' bodies: each name is bound to the code compiled from the body of its LAST
    definition in the compiler's order, with its parameters; no other name is bound. -/
theorem fnOK_of_compile_all (prog : Program) (hp : pureSs prog = true) (c : Compiled)
    (hc : compileProgram prog = .ok c) (fns : List (Str × FnImpl)) (obj : HostVal) :
    FnOK (Api.newMachine c false fns (fun _ => false)) (allDefs prog) obj := by
  simp only [compileProgram, bind, Except.bind, pure, Except.pure] at hc
  split at hc
  · cases hc
  · split at hc
    · cases hc
    · rename_i r hcomp
      split at hc
      · cases hc
      · rename_i hsize
        cases hc
        obtain ⟨code, st⟩ := r
        rw [normStmts_pure prog hp] at hcomp
        simp only [Bool.or_eq_true, decide_eq_true_eq, not_or, Nat.not_lt, List.any_eq_true, not_exists, not_and] at hsize
        obtain ⟨⟨hs1, hs2⟩, hs3⟩ := hsize
        have hinv := inv_Ss prog 0 ⟨[], []⟩ (code, st) [] hp hcomp Inv.nil
        simp only [List.nil_append] at hinv
        obtain ⟨_, hconsts, _⟩ := newMachine_unopt ⟨st.consts, code, st.funcs⟩ fns (fun _ => false)
        refine ⟨?_, ?_⟩
        · intro name hf
          rw [lookupUser_newMachine _ _ _ _ hinv.nodup, hinv.missing name hf]; rfl
        · intro name sf hf
          obtain ⟨fd, cst, r, h1, h2, h3, h4, h5, h6⟩ := hinv.found name sf hf
          refine ⟨⟨fd.name, fd.params, encodeAll fd.code⟩, cst, r, ?_, h2, h3, h4, ?_, ?_, ?_, ?_⟩
          · rw [lookupUser_newMachine _ _ _ _ hinv.nodup, h1]; rfl
          · simp only [h5]
          · rw [hconsts]; exact h6
          · simp only [encodeAll_length]
            have hm : fd ∈ st.funcs := List.mem_of_find?_eq_some h1
            have := hs3 fd hm
            simp only [maxProgramSize] at this
            omega
          · intro he
            exact endsRet_never_normal _ _ obj sf.body 0 cst r h3 h4 he

end EvalFilter.Exec
