/-
  Facts about `WF.decode`: every decoded instruction sits in the byte string where the VM's
  fetch/decode will find it, and the instruction after it is again a decoded instruction (or the end).
-/
import EvalFilter.Model.WF

namespace EvalFilter.WF
open EvalFilter

theorem Op.ofNat_toNat (op : Op) : Op.ofNat? op.toNat = some op := by cases op <;> rfl

theorem Op.toNat_lt (op : Op) : op.toNat < 256 := by cases op <;> decide

theorem Op.ofNat_some {n : Nat} {op : Op} (h : Op.ofNat? n = some op) : n = op.toNat := by
  unfold Op.ofNat? at h
  split at h <;> first | (cases h; rfl) | cases h

theorem decode_nil (off : Nat) : decode off [] = some [] := by unfold decode; rfl

/-- unfolding for a one-byte instruction -/
theorem decode_cons1 (off : Nat) (b : UInt8) (rest : Bytes) (op : Op) (h : Op.ofNat? b.toNat = some op)
    (hl : op.length ≠ 3) : decode off (b :: rest) = (decode (off + 1) rest).map (fun l => (off, ⟨op, 0⟩) :: l) := by
  rw [decode]; simp [h, hl]

theorem decode_cons3 (off : Nat) (b hi lo : UInt8) (rest : Bytes) (op : Op) (h : Op.ofNat? b.toNat = some op)
    (hl : op.length = 3) :
    decode off (b :: hi :: lo :: rest) = (decode (off + 3) rest).map (fun l => (off, ⟨op, decode16 hi lo⟩) :: l) := by
  rw [decode]; simp [h, hl]

/-- what membership in the decoded list means, for the byte string `pre ++ bs` decoded from `pre.length` -/
theorem decode_spec_aux (n : Nat) : ∀ (bs : Bytes), bs.length = n → ∀ (off : Nat) (instrs : List (Nat × Instr)), decode off bs = some instrs →
    ∀ (pre : Bytes), pre.length = off →
    ∀ o i, (o, i) ∈ instrs →
      off ≤ o ∧ o + i.size ≤ off + bs.length ∧
      (pre ++ bs).getD o 0 = UInt8.ofNat i.op.toNat ∧
      (i.op.length = 3 → i.arg = decode16 ((pre ++ bs).getD (o + 1) 0) ((pre ++ bs).getD (o + 2) 0)) ∧
      (i.op.length ≠ 3 → i.arg = 0) ∧
      (o + i.size = off + bs.length ∨ ∃ j, (o + i.size, j) ∈ instrs) := by
  induction n using Nat.strongRecOn with
  | ind n ih =>
    intro bs h off instrs hd pre hpre o i hmem
    cases bs with
    | nil =>
      rw [decode_nil] at hd; cases hd; cases hmem
    | cons b rest =>
      rw [decode] at hd
      cases hop : Op.ofNat? b.toNat with
      | none => simp [hop] at hd
      | some op =>
        have hb : b = UInt8.ofNat op.toNat := by
          have := Op.ofNat_some hop
          apply UInt8.toNat_inj.mp
          rw [this]; simp [Nat.mod_eq_of_lt (Op.toNat_lt op)]
        simp only [hop] at hd
        by_cases hl : op.length = 3
        · simp only [hl, beq_self_eq_true, ↓reduceIte] at hd
          cases rest with
          | nil => simp at hd
          | cons hi rest1 =>
            cases rest1 with
            | nil => simp at hd
            | cons lo rest2 =>
              simp only [Option.map_eq_some_iff] at hd
              obtain ⟨l, hl2, rfl⟩ := hd
              have hlen : rest2.length < n := by rw [← h]; simp only [List.length_cons]; omega
              rcases List.mem_cons.mp hmem with heq | hin
              · cases heq
                refine ⟨Nat.le_refl _, by simp [Instr.size, hl], ?_, ?_, ?_, ?_⟩
                · simp [List.getD_eq_getElem?_getD, List.getElem?_append_right, hpre, hb]
                · intro _
                  simp [List.getD_eq_getElem?_getD, List.getElem?_append_right, ← hpre]
                · intro h'; exact absurd hl h'
                · simp only [Instr.size, hl]
                  cases l with
                  | nil =>
                    left
                    cases rest2 with
                    | nil => simp
                    | cons x y =>
                      rw [decode] at hl2
                      cases hx : Op.ofNat? x.toNat with
                      | none => simp [hx] at hl2
                      | some opx =>
                        simp only [hx] at hl2
                        split at hl2
                        · split at hl2 <;> simp at hl2
                        · simp at hl2
                  | cons p l' =>
                    right
                    have := ih rest2.length hlen rest2 rfl (off + 3) (p :: l') hl2 (pre ++ [b, hi, lo]) (by simp [hpre]) p.1 p.2 (by simp)
                    have hp1 : p.1 = off + 3 := by
                      cases rest2 with
                      | nil => rw [decode_nil] at hl2; cases hl2
                      | cons x y =>
                        rw [decode] at hl2
                        cases hx : Op.ofNat? x.toNat with
                        | none => simp [hx] at hl2
                        | some opx =>
                          simp only [hx] at hl2
                          split at hl2
                          · split at hl2
                            · simp only [Option.map_eq_some_iff] at hl2
                              obtain ⟨_, _, h3⟩ := hl2
                              cases h3; rfl
                            · simp at hl2
                          · simp only [Option.map_eq_some_iff] at hl2
                            obtain ⟨_, _, h3⟩ := hl2
                            cases h3; rfl
                    exact ⟨p.2, by rw [← hp1]; simp⟩
              · have := ih rest2.length hlen rest2 rfl (off + 3) l hl2 (pre ++ [b, hi, lo]) (by simp [hpre]) o i hin
                obtain ⟨h1, h2, h3, h4, h5, h6⟩ := this
                have happ : pre ++ [b, hi, lo] ++ rest2 = pre ++ b :: hi :: lo :: rest2 := by simp
                rw [happ] at h3 h4
                refine ⟨by omega, by simp; omega, h3, h4, h5, ?_⟩
                rcases h6 with h6 | ⟨j, hj⟩
                · left; simp; omega
                · right; exact ⟨j, List.mem_cons_of_mem _ hj⟩
        · have hl' : (op.length == 3) = false := by simp [hl]
          simp only [hl', Bool.false_eq_true, ↓reduceIte, Option.map_eq_some_iff] at hd
          obtain ⟨l, hl2, rfl⟩ := hd
          have hlen : rest.length < n := by rw [← h]; simp only [List.length_cons]; omega
          have hsz : op.length = 1 := by
            cases op <;> first | rfl | exact absurd rfl hl
          rcases List.mem_cons.mp hmem with heq | hin
          · cases heq
            refine ⟨Nat.le_refl _, by simp [Instr.size, hsz], ?_, ?_, ?_, ?_⟩
            · simp [List.getD_eq_getElem?_getD, List.getElem?_append_right, hpre, hb]
            · intro h'; exact absurd h' hl
            · intro _; rfl
            · simp only [Instr.size, hsz]
              cases l with
              | nil =>
                left
                cases rest with
                | nil => simp
                | cons x y =>
                  rw [decode] at hl2
                  cases hx : Op.ofNat? x.toNat with
                  | none => simp [hx] at hl2
                  | some opx =>
                    simp only [hx] at hl2
                    split at hl2
                    · split at hl2 <;> simp at hl2
                    · simp at hl2
              | cons p l' =>
                right
                have hp1 : p.1 = off + 1 := by
                  cases rest with
                  | nil => rw [decode_nil] at hl2; cases hl2
                  | cons x y =>
                    rw [decode] at hl2
                    cases hx : Op.ofNat? x.toNat with
                    | none => simp [hx] at hl2
                    | some opx =>
                      simp only [hx] at hl2
                      split at hl2
                      · split at hl2
                        · simp only [Option.map_eq_some_iff] at hl2
                          obtain ⟨_, _, h3⟩ := hl2
                          cases h3; rfl
                        · simp at hl2
                      · simp only [Option.map_eq_some_iff] at hl2
                        obtain ⟨_, _, h3⟩ := hl2
                        cases h3; rfl
                exact ⟨p.2, by rw [← hp1]; simp⟩
          · have := ih rest.length hlen rest rfl (off + 1) l hl2 (pre ++ [b]) (by simp [hpre]) o i hin
            obtain ⟨h1, h2, h3, h4, h5, h6⟩ := this
            have happ : pre ++ [b] ++ rest = pre ++ b :: rest := by simp
            rw [happ] at h3 h4
            refine ⟨by omega, by simp; omega, h3, h4, h5, ?_⟩
            rcases h6 with h6 | ⟨j, hj⟩
            · left; simp; omega
            · right; exact ⟨j, List.mem_cons_of_mem _ hj⟩

theorem decode_spec (code : Bytes) (instrs : List (Nat × Instr)) (hd : decode 0 code = some instrs)
    (o : Nat) (i : Instr) (hmem : (o, i) ∈ instrs) :
      o + i.size ≤ code.length ∧
      code.getD o 0 = UInt8.ofNat i.op.toNat ∧
      (i.op.length = 3 → i.arg = decode16 (code.getD (o + 1) 0) (code.getD (o + 2) 0)) ∧
      (i.op.length ≠ 3 → i.arg = 0) ∧
      (o + i.size = code.length ∨ ∃ j, (o + i.size, j) ∈ instrs) := by
  have := decode_spec_aux code.length code rfl 0 instrs hd [] rfl o i hmem
  simpa using this.2

end EvalFilter.WF
