import EvalFilter.Proofs.OptSim6b
import EvalFilter.Proofs.OptSim4b
set_option linter.unusedSimpArgs false
set_option linter.unusedVariables false
namespace EvalFilter.OptSim
open EvalFilter EvalFilter.VM EvalFilter.OptCheck

/-- every run of `M` that ends is matched by a run of `M'` that ends with the same result, output and
    variables (poll counts aside) -/
def Refines (M M' : Machine) (obj : HostVal) : Prop :=
  ∀ f st st', StEq false st st' → (run M obj f st).1 ≠ .error .outOfFuel →
    ∃ f', OutEq false (run M obj f st) (run M' obj f' st')

theorem Refines.trans {A B C : Machine} {obj : HostVal} (h : Refines A B obj) (h' : Refines B C obj) : Refines A C obj := by
  intro f st st' hst hno
  obtain ⟨f1, h1⟩ := h f st st' hst hno
  have hno1 : (run B obj f1 st').1 ≠ .error .outOfFuel := by rw [← h1.1]; exact hno
  obtain ⟨f2, h2⟩ := h' f1 st' st' (StEq.refl _ _) hno1
  exact ⟨f2, h1.trans h2⟩

theorem run_refines {M M' : Machine} {obj : HostVal} (hM : MRel (BRel M M' obj) M M')
    (hmain : BRel M M' obj M.main M'.main) (hnd : NeverDone M) : Refines M M' obj := by
  intro f st st' hst hno
  obtain ⟨R, hB⟩ := hmain
  unfold run at hno ⊢
  have he := hB.empty
  by_cases hemp : M.main.isEmpty = true
  · refine ⟨0, ?_⟩
    simp only [hemp, he, ↓reduceIte]
    exact ⟨rfl, hst⟩
  · simp only [hemp, he, Bool.false_eq_true, ↓reduceIte] at hno ⊢
    have hno' : (loop M obj M.main f 0 [] st).1 ≠ .error .outOfFuel := hno
    obtain ⟨f', h1, h2⟩ := sim hM hnd f M.main M'.main R hB 0 0 hB.start [] st st' hst hno'
    refine ⟨f', h1, ?_⟩
    simp only [finish, hst.1]
    exact ⟨by rw [h2.1], h2.2.1, h2.2.2.1, h2.2.2.2⟩

/-- one step of a body: unchanged (and well-formed), or one validated step of one of the four passes -/
def Step1 (c c' : Bytes) : Prop := (c' = c ∧ wfB c = true) ∨ okStep c c' = true

theorem Step1.brel {M M' : Machine} {obj : HostVal} {c c' : Bytes} (hnd : NeverDone M) (hnd' : NeverDone M')
    (h : Step1 c c') : BRel M M' obj c c' := by
  rcases h with ⟨rfl, h⟩ | h
  · exact bodySim_id h
  · unfold okStep at h
    simp only [Bool.or_eq_true] at h
    rcases h with (h | h) | h
    · exact validStep_sound hnd hnd' h
    · exact validStrip_sound hnd h
    · exact validDead_sound h

/-- the machine whose bodies are at stage `t` of their rewriting (`S b t` for the body that started as `b`) -/
def atStage (M : Machine) (S : Bytes → Nat → Bytes) (t : Nat) : Machine :=
  { M with main := S M.main t, funcs := M.funcs.map (fun u => { u with code := S u.code t }) }

theorem lookupUser_atStage (M : Machine) (S : Bytes → Nat → Bytes) (t : Nat) (name : Str) :
    lookupUser (atStage M S t) name = (lookupUser M name).map (fun u => { u with code := S u.code t }) := by
  unfold lookupUser atStage
  simp only [← List.map_reverse]
  generalize M.funcs.reverse = l
  induction l with
  | nil => rfl
  | cons u l ih =>
    simp only [List.map_cons, List.find?_cons]
    by_cases h : (u.name == name) = true
    · simp [h]
    · simp [h, ih]

theorem lookupUser_mem' {M : Machine} {name : Str} {u : UserFn} (h : lookupUser M name = some u) : u ∈ M.funcs :=
  WF.lookupUser_mem h

/-- one more step in every body cannot be observed -/
theorem atStage_step (M : Machine) (obj : HostVal) (S : Bytes → Nat → Bytes) (hnd : NeverDone M)
    (hS : ∀ b, (b = M.main ∨ ∃ u, u ∈ M.funcs ∧ u.code = b) → ∀ t, Step1 (S b t) (S b (t + 1))) (t : Nat) :
    Refines (atStage M S t) (atStage M S (t + 1)) obj := by
  have hnd1 : NeverDone (atStage M S t) := hnd
  have hnd2 : NeverDone (atStage M S (t + 1)) := hnd
  apply run_refines _ ((hS M.main (Or.inl rfl) t).brel hnd1 hnd2) hnd1
  refine ⟨rfl, rfl, rfl, ?_⟩
  intro name
  rw [lookupUser_atStage, lookupUser_atStage]
  cases h : lookupUser M name with
  | none => exact Or.inl ⟨rfl, rfl⟩
  | some u =>
    have hs := hS u.code (Or.inr ⟨u, lookupUser_mem' h, rfl⟩) t
    obtain ⟨R, hB⟩ := hs.brel (M := atStage M S t) (M' := atStage M S (t + 1)) (obj := obj) hnd1 hnd2
    exact Or.inr ⟨_, _, rfl, rfl, rfl, ⟨R, hB⟩, hB.empty⟩

theorem atStage_refines (M : Machine) (obj : HostVal) (S : Bytes → Nat → Bytes) (hnd : NeverDone M)
    (hS : ∀ b, (b = M.main ∨ ∃ u, u ∈ M.funcs ∧ u.code = b) → ∀ t, Step1 (S b t) (S b (t + 1))) :
    ∀ t, Refines (atStage M S 0) (atStage M S (t + 1)) obj
  | 0 => atStage_step M obj S hnd hS 0
  | t + 1 => (atStage_refines M obj S hnd hS t).trans (atStage_step M obj S hnd hS (t + 1))

/-! ### the converse direction -/

/-- every run of `M'` that ends is matched by a run of `M` that ends with the same result, output and
    variables -/
def RefinedBy (M M' : Machine) (obj : HostVal) : Prop :=
  ∀ f' st st', StEq false st st' → (run M' obj f' st').1 ≠ .error .outOfFuel →
    ∃ f, OutEq false (run M obj f st) (run M' obj f' st')

theorem RefinedBy.trans {A B C : Machine} {obj : HostVal} (h : RefinedBy A B obj) (h' : RefinedBy B C obj) : RefinedBy A C obj := by
  intro f' st st' hst hno
  obtain ⟨f1, h1⟩ := h' f' st' st' (StEq.refl _ _) hno
  have hno1 : (run B obj f1 st').1 ≠ .error .outOfFuel := by rw [h1.1]; exact hno
  obtain ⟨f2, h2⟩ := h f1 st st' hst hno1
  exact ⟨f2, h2.trans h1⟩

theorem run_refinedBy {M M' : Machine} {obj : HostVal} (hM : MRel (BRel M M' obj) M M')
    (hmain : BRel M M' obj M.main M'.main) (hnd : NeverDone M) : RefinedBy M M' obj := by
  intro f' st st' hst hno
  obtain ⟨R, hB⟩ := hmain
  unfold run at hno ⊢
  have he := hB.empty
  by_cases hemp : M.main.isEmpty = true
  · refine ⟨0, ?_⟩
    simp only [hemp, he, ↓reduceIte]
    exact ⟨rfl, hst⟩
  · simp only [hemp, he, Bool.false_eq_true, ↓reduceIte] at hno ⊢
    have hno' : (loop M' obj M'.main f' 0 [] st').1 ≠ .error .outOfFuel := hno
    obtain ⟨f, h1, h2⟩ := sim_back hM hnd f' M.main M'.main R hB _ 0 0 rfl hB.start [] st st' hst hno'
    refine ⟨f, h1, ?_⟩
    simp only [finish, hst.1]
    exact ⟨by rw [h2.1], h2.2.1, h2.2.2.1, h2.2.2.2⟩

theorem atStage_step_back (M : Machine) (obj : HostVal) (S : Bytes → Nat → Bytes) (hnd : NeverDone M)
    (hS : ∀ b, (b = M.main ∨ ∃ u, u ∈ M.funcs ∧ u.code = b) → ∀ t, Step1 (S b t) (S b (t + 1))) (t : Nat) :
    RefinedBy (atStage M S t) (atStage M S (t + 1)) obj := by
  have hnd1 : NeverDone (atStage M S t) := hnd
  have hnd2 : NeverDone (atStage M S (t + 1)) := hnd
  apply run_refinedBy _ ((hS M.main (Or.inl rfl) t).brel hnd1 hnd2) hnd1
  refine ⟨rfl, rfl, rfl, ?_⟩
  intro name
  rw [lookupUser_atStage, lookupUser_atStage]
  cases h : lookupUser M name with
  | none => exact Or.inl ⟨rfl, rfl⟩
  | some u =>
    have hs := hS u.code (Or.inr ⟨u, lookupUser_mem' h, rfl⟩) t
    obtain ⟨R, hB⟩ := hs.brel (M := atStage M S t) (M' := atStage M S (t + 1)) (obj := obj) hnd1 hnd2
    exact Or.inr ⟨_, _, rfl, rfl, rfl, ⟨R, hB⟩, hB.empty⟩

theorem atStage_refinedBy (M : Machine) (obj : HostVal) (S : Bytes → Nat → Bytes) (hnd : NeverDone M)
    (hS : ∀ b, (b = M.main ∨ ∃ u, u ∈ M.funcs ∧ u.code = b) → ∀ t, Step1 (S b t) (S b (t + 1))) :
    ∀ t, RefinedBy (atStage M S 0) (atStage M S (t + 1)) obj
  | 0 => atStage_step_back M obj S hnd hS 0
  | t + 1 => (atStage_refinedBy M obj S hnd hS t).trans (atStage_step_back M obj S hnd hS (t + 1))

end EvalFilter.OptSim
