import EvalFilter.Proofs.OptSim2
set_option linter.unusedSimpArgs false
set_option linter.unusedVariables false
namespace EvalFilter.OptSim
open EvalFilter EvalFilter.VM

/-- the instruction `i` stands at `ip` in `c`, operand complete -/
structure Fetch (c : Bytes) (ip : Nat) (i : Instr) : Prop where
  fits : ip + i.op.length ≤ c.length
  op : (c.getD ip 0).toNat = i.op.toNat
  arg : i.arg = if i.op.length = 3 then decode16 (c.getD (ip + 1) 0) (c.getD (ip + 2) 0) else 0

theorem fetch_of_decode {c : Bytes} {instrs : List (Nat × Instr)} (hd : WF.decode 0 c = some instrs)
    {o : Nat} {i : Instr} (hm : (o, i) ∈ instrs) : Fetch c o i := by
  obtain ⟨h1, h2, h3, h4, _⟩ := WF.decode_spec c instrs hd o i hm
  refine ⟨by simpa [Instr.size] using h1, ?_, ?_⟩
  · rw [h2]; simp [Nat.mod_eq_of_lt (WF.Op.toNat_lt i.op)]
  · by_cases h : i.op.length = 3
    · simp [h, h3 h]
    · simp [h, h4 h]

/-- one turn of the VM loop on a fetched instruction -/
theorem loop_fetch (M : Machine) (obj : HostVal) {c : Bytes} {ip : Nat} {i : Instr} (h : Fetch c ip i)
    (f : Nat) (stack : List Value) (st : RunSt) (hnd : M.done st.polls = false) :
    loop M obj c (f + 1) ip stack st =
      (match step M obj c.length (fun c s => loop M obj c f 0 [] s) i.op.toNat i.arg (ip + i.op.length) stack
              { st with polls := st.polls + 1 } with
       | .cont ip' stack' st' => loop M obj c f ip' stack' st'
       | .halt r st' => (r, st')) := by
  have hpos : 0 < i.op.length := by rcases WF.Op.length_cases i.op with h | h <;> omega
  have hlt : ¬ (ip ≥ c.length) := by have := h.fits; omega
  rw [loop]
  simp only [hlt, ↓reduceIte, hnd, Bool.false_eq_true, h.op, WF.byteLength_toNat]
  rcases WF.Op.length_cases i.op with h1 | h3
  · have ha : i.arg = 0 := by rw [h.arg]; simp [h1]
    simp [h1, ha]
    rfl
  · have hfit : ¬ (ip + 3 > c.length) := by have := h.fits; omega
    have ha : i.arg = decode16 (c.getD (ip + 1) 0) (c.getD (ip + 2) 0) := by rw [h.arg]; simp [h3]
    simp only [List.getD_eq_getElem?_getD] at ha
    simp [h3, hfit, ← ha]
    rfl

/-- if the nested run is out of fuel, so is the instruction that started it -/
theorem step_callee_oof (M : Machine) (obj : HostVal) (len : Nat) (rb : Bytes → RunSt → Res × RunSt)
    (op : Op) (arg next : Nat) (stack : List Value) (st : RunSt) {c : Bytes} {s : RunSt}
    (hc : calleeOf M op arg stack st = some (c, s)) (ho : (rb c s).1 = .error .outOfFuel) :
    ∃ st', step M obj len rb op.toNat arg next stack st = .halt (.error .outOfFuel) st' := by
  unfold calleeOf at hc
  by_cases hop : op = .call
  · subst hop
    simp only [↓reduceIte] at hc
    unfold step
    simp only [WF.Op.ofNat_toNat, isBinary, Bool.false_eq_true, ↓reduceIte]
    cases stack with
    | nil => simp at hc
    | cons fname rest0 =>
      simp only [] at hc ⊢
      cases hp : popN arg rest0 with
      | none => simp [hp] at hc
      | some p =>
        obtain ⟨args, rest⟩ := p
        simp only [hp] at hc ⊢
        cases hf : lookupFn M fname.inspect with
        | some f => simp [hf] at hc
        | none =>
          simp only [hf] at hc ⊢
          cases hu : lookupUser M fname.inspect with
          | none => simp [hu] at hc
          | some uf =>
            simp only [hu] at hc ⊢
            by_cases g1 : st.depth ≥ maxCallDepth
            · simp [g1] at hc
            · by_cases g2 : (uf.params.length != args.length) = true
              · simp [g1, g2] at hc
              · by_cases g3 : uf.code.isEmpty = true
                · simp [g1, g2, g3] at hc
                · simp only [g1, g2, g3, ↓reduceIte, Bool.false_eq_true, Option.some.injEq, Prod.mk.injEq] at hc
                  obtain ⟨rfl, rfl⟩ := hc
                  rw [invoke_eq]
                  simp only [g1, g2, g3, ↓reduceIte, Bool.false_eq_true, finish, ho]
                  exact ⟨_, rfl⟩
  · simp [hop] at hc

/-- **More fuel never changes a finished run.** -/
theorem loop_mono (M : Machine) (obj : HostVal) :
    ∀ (f : Nat) (c : Bytes) (ip : Nat) (stack : List Value) (st : RunSt),
      (loop M obj c f ip stack st).1 ≠ .error .outOfFuel →
      ∀ f', f ≤ f' → loop M obj c f' ip stack st = loop M obj c f ip stack st := by
  intro f
  induction f with
  | zero => intro c ip stack st h; simp [loop] at h
  | succ n ih =>
    intro c ip stack st h f' hf
    obtain ⟨m, rfl⟩ : ∃ m, f' = m + 1 := ⟨f' - 1, by omega⟩
    have hnm : n ≤ m := by omega
    rw [loop] at h ⊢
    rw [loop]
    by_cases h1 : ip ≥ c.length
    · simp only [h1, ↓reduceIte]
    · simp only [h1, ↓reduceIte] at h ⊢
      by_cases h2 : M.done st.polls = true
      · simp only [h2, ↓reduceIte]
      · simp only [h2, Bool.false_eq_true, ↓reduceIte] at h ⊢
        by_cases h3 : (decide (byteLength (c.getD ip 0).toNat > 1) && decide (ip + 3 > c.length)) = true
        · simp only [h3, ↓reduceIte]
        · simp only [h3, Bool.false_eq_true, ↓reduceIte] at h ⊢
          generalize hopb : (c.getD ip 0).toNat = opb at h ⊢
          generalize harg : (if byteLength opb > 1 then decode16 (c.getD (ip + 1) 0) (c.getD (ip + 2) 0) else 0) = arg at h ⊢
          generalize hst1 : ({ st with polls := st.polls + 1 } : RunSt) = st1 at h ⊢
          have hstep : step M obj c.length (fun c s => loop M obj c m 0 [] s) opb arg (ip + byteLength opb) stack st1 =
              step M obj c.length (fun c s => loop M obj c n 0 [] s) opb arg (ip + byteLength opb) stack st1 := by
            cases ho : Op.ofNat? opb with
            | none => unfold step; simp [ho]
            | some op =>
              have := WF.Op.ofNat_some ho
              subst this
              apply step_rb_congr
              intro c2 s2 hc2
              apply ih
              intro hoof
              obtain ⟨st', hs⟩ := step_callee_oof M obj c.length (fun c s => loop M obj c n 0 [] s) op arg
                (ip + byteLength op.toNat) stack st1 hc2 hoof
              rw [hs] at h
              exact h rfl
              exact hnm
          rw [hstep]
          cases hs : step M obj c.length (fun c s => loop M obj c n 0 [] s) opb arg (ip + byteLength opb) stack st1 with
          | halt r st' => rfl
          | cont ip' stack' st' =>
            rw [hs] at h
            exact ih c ip' stack' st' h m hnm

end EvalFilter.OptSim

namespace EvalFilter.OptSim
open EvalFilter EvalFilter.VM

abbrev Cfg := Nat × List Value × RunSt

/-- `k` turns of the loop lead from configuration `x` to `z`, whatever the fuel -/
inductive Steps (M : Machine) (obj : HostVal) (c : Bytes) : Nat → Cfg → Cfg → Prop
  | zero (x : Cfg) : Steps M obj c 0 x x
  | succ {k : Nat} {x y z : Cfg} :
      (∀ f, loop M obj c (f + 1) x.1 x.2.1 x.2.2 = loop M obj c f y.1 y.2.1 y.2.2) →
      Steps M obj c k y z → Steps M obj c (k + 1) x z

theorem Steps.run {M : Machine} {obj : HostVal} {c : Bytes} {k : Nat} {x z : Cfg} (h : Steps M obj c k x z) :
    ∀ f, loop M obj c (f + k) x.1 x.2.1 x.2.2 = loop M obj c f z.1 z.2.1 z.2.2 := by
  induction h with
  | zero x => intro f; rfl
  | @succ k _ _ _ h1 _ ih => intro f; rw [show f + (k + 1) = (f + k) + 1 by omega, h1, ih]

theorem Steps.oof {M : Machine} {obj : HostVal} {c : Bytes} {k : Nat} {x z : Cfg} (h : Steps M obj c k x z) :
    ∀ f, f < k → (loop M obj c f x.1 x.2.1 x.2.2).1 = .error .outOfFuel := by
  induction h with
  | zero x => intro f hf; omega
  | succ h1 _ ih =>
    intro f hf
    cases f with
    | zero => simp [loop]
    | succ f => rw [h1]; exact ih f (by omega)

theorem Steps.trans {M : Machine} {obj : HostVal} {c : Bytes} {k k' : Nat} {x y z : Cfg}
    (h : Steps M obj c k x y) (h' : Steps M obj c k' y z) : Steps M obj c (k' + k) x z := by
  induction h with
  | zero x => exact h'
  | succ h1 _ ih => exact .succ h1 (ih h')

/-- How the instruction pointers of two bodies correspond (`R`), point by point: both at the end; or the
    same instruction on both sides (jump operands corresponding); or a window that each side crosses in
    its own number of turns, arriving with the same stack and corresponding states (when the second side
    needs no turn at all, the first side moves forward: needed for the converse simulation). -/
structure BodySim (M M' : Machine) (obj : HostVal) (c c' : Bytes) (R : Nat → Nat → Prop) : Prop where
  start : R 0 0
  empty : c'.isEmpty = c.isEmpty
  pt : ∀ ip ip', R ip ip' →
      (c.length ≤ ip ∧ c'.length ≤ ip')
    ∨ (∃ i i', Fetch c ip i ∧ Fetch c' ip' i' ∧ i'.op = i.op ∧
         ((i.op = .jump ∧ i.arg < c.length ∧ i'.arg < c'.length ∧ R i.arg i'.arg) ∨
          (i.op = .jumpIfFalse ∧ i.arg < c.length ∧ i'.arg < c'.length ∧ R i.arg i'.arg ∧ R (ip + 3) (ip' + 3)) ∨
          (i.op = .return ∧ i'.arg = i.arg) ∨
          (i.op ≠ .jump ∧ i.op ≠ .jumpIfFalse ∧ i'.arg = i.arg ∧ R (ip + i.op.length) (ip' + i.op.length))))
    ∨ (∀ stack st st', StEq false st st' → ∃ k k' e e' stack1 st1 st1', 0 < k ∧
         Steps M obj c k (ip, stack, st) (e, stack1, st1) ∧ Steps M' obj c' k' (ip', stack, st') (e', stack1, st1') ∧
         R e e' ∧ StEq false st1 st1' ∧ (0 < k' ∨ (ip < e ∧ e ≤ c.length)))

def BRel (M M' : Machine) (obj : HostVal) (c c' : Bytes) : Prop := ∃ R, BodySim M M' obj c c' R

def NeverDone (M : Machine) : Prop := ∀ n, M.done n = false

theorem StEq.poll {ex : Bool} {s s' : RunSt} (h : StEq ex s s') :
    StEq ex { s with polls := s.polls + 1 } { s' with polls := s'.polls + 1 } :=
  ⟨h.1, h.2.1, h.2.2.1, fun e => by simp [h.2.2.2 e]⟩

end EvalFilter.OptSim
