/-
  The executable verifier implies the declarative static conditions (`StaticOk`).
-/
import EvalFilter.Proofs.WFSound

namespace EvalFilter.WF
open EvalFilter EvalFilter.VM

theorem checkInstrs_static {cs : List Bool} {starts : List Nat} {len : Nat} {isFn : Bool} {cert : Cert} :
    ∀ (instrs : List (Nat × Instr)) (prev : Bool), checkInstrs cs starts len isFn cert instrs prev = none →
      ∀ o i, (o, i) ∈ instrs → instrStatic cs starts len isFn o i = none
  | [], _, _, _, _, hm => by cases hm
  | (off, j) :: rest, prev, h, o, i, hm => by
    simp only [checkInstrs] at h
    split at h
    · cases h
    · rename_i hst
      split at h
      · cases h
      · split at h
        · cases h
        · rcases List.mem_cons.mp hm with heq | hin
          · cases heq; exact hst
          · exact checkInstrs_static rest _ h o i hin

theorem instrStatic_jump {cs : List Bool} {starts : List Nat} {len : Nat} {isFn : Bool} {o : Nat} {i : Instr}
    (h : instrStatic cs starts len isFn o i = none) (hj : i.op = .jump ∨ i.op = .jumpIfFalse) :
    starts.contains i.arg = true := by
  unfold instrStatic at h
  split at h
  · cases h
  · rename_i hn
    rcases hj with hj | hj <;> simp [hj] at hn <;> simpa using hn

theorem instrStatic_const {cs : List Bool} {starts : List Nat} {len : Nat} {isFn : Bool} {o : Nat} {i : Instr}
    (h : instrStatic cs starts len isFn o i = none)
    (hc : i.op = .constant ∨ i.op = .lookup ∨ i.op = .inc ∨ i.op = .dec) : i.arg < cs.length := by
  unfold instrStatic at h
  split at h
  · cases h
  · split at h
    · cases h
    · rename_i hn
      rcases hc with hc | hc | hc | hc <;> simp [hc] at hn <;> omega

/-- a body accepted by the verifier satisfies the declarative static conditions -/
theorem checkBody_static (cs : List Bool) (b : Body) (h : checkBody cs b = none) :
    ∃ instrs, StaticOk cs.length b.code instrs := by
  unfold checkBody at h
  split at h
  · cases h
  · rename_i instrs hd
    refine ⟨instrs, hd, ?_, ?_⟩
    all_goals
      intro o i hm hop
      simp only at h
      split at h
      · rename_i hempty
        have : b.code = [] := by simpa using hempty
        rw [this, decode_nil] at hd
        cases hd; cases hm
      · split at h
        · cases h
        · have hs := checkInstrs_static instrs false h o i hm
          first
            | (have := instrStatic_jump hs hop
               have hmem : i.arg ∈ instrs.map (·.1) := by simpa using this
               obtain ⟨⟨a, j⟩, hj, rfl⟩ := List.mem_map.mp hmem
               exact ⟨j, hj⟩)
            | exact instrStatic_const hs hop

theorem check_go_static (cs : List Bool) : ∀ (fs : List Bytes) (k : Nat), check.go cs k fs = none →
    ∀ f, f ∈ fs → ∃ instrs, StaticOk cs.length f instrs
  | [], _, _, _, hm => by cases hm
  | g :: rest, k, h, f, hm => by
    simp only [check.go] at h
    split at h
    · cases h
    · rename_i hb
      rcases List.mem_cons.mp hm with heq | hin
      · subst heq; exact checkBody_static cs ⟨f, true⟩ hb
      · exact check_go_static cs rest (k + 1) h f hin

/-- a program accepted by the verifier: main body and all function bodies satisfy the static conditions -/
theorem check_static (cs : List Bool) (main : Bytes) (funcs : List Bytes) (h : check cs main funcs = none) :
    (∃ instrs, StaticOk cs.length main instrs) ∧ ∀ f, f ∈ funcs → ∃ instrs, StaticOk cs.length f instrs := by
  unfold check at h
  split at h
  · cases h
  · rename_i hb
    exact ⟨checkBody_static cs ⟨main, false⟩ hb, check_go_static cs funcs 1 h⟩

/-- the verifier applied to a machine as `vm.New` built it -/
def checkMachine (M : Machine) : Option (Nat × Bad) :=
  check (M.consts.map (fun v => v.isType .STRING)) M.main (M.funcs.map (·.code))

/-- **A verified machine never reports an unknown opcode, an instruction pointer out of bounds or a
    bad constant**, for any object, state, step budget and call depth. -/
theorem run_static (M : Machine) (h : checkMachine M = none) (obj : HostVal) (fuel : Nat) (st : RunSt) :
    ¬ internalStatic (run M obj fuel st).1 := by
  obtain ⟨⟨mi, hm⟩, hf⟩ := check_static _ _ _ h
  simp only [List.length_map] at hm hf
  have hfuncs : ∀ uf, uf ∈ M.funcs → ∃ instrs, StaticOk M.consts.length uf.code instrs :=
    fun uf huf => hf uf.code (List.mem_map.mpr ⟨uf, huf, rfl⟩)
  unfold run
  split
  · simp [internalStatic, err]
  · simp only [finish]
    exact loop_static M obj hfuncs fuel M.main mi hm 0 [] st (by
      rcases start_of_static hm with h | h
      · left; exact h
      · right; exact h)

end EvalFilter.WF
