/-
  The Pratt parser reads back what the printer prints: for every operator tree over atoms (identifiers
  and literals), prefix operators, binary operators and index expressions, printed with exactly the
  parentheses that the documented precedence levels and left-to-right grouping make necessary, the parser
  returns that very tree - any size, any shape.
  (The invariant: parsing the printed tree below its level is the same as continuing the infix loop
  with the tree already built as the left operand.)
-/
import EvalFilter.Model.Parser
set_option linter.unusedSimpArgs false
set_option linter.unusedVariables false
namespace EvalFilter.Parser
open EvalFilter

/-- binary operator tokens of expressions: registered with the binary parselet, not the `.` of the
    field-access hack -/
def Bin (o : Token) : Prop := infixFn o.ty = some .binary ∧ o.lit ≠ ['.']

theorem Bin.prec_pos {o : Token} (h : Bin o) : LOWEST < precedence o.ty := by
  have := h.1
  cases hty : o.ty <;> simp [hty, infixFn] at this <;> simp [precedence, LOWEST, TERNARY, ASSIGN, COND, EQUALS, CMP, LESSGREATER, SUM, PRODUCT, POWER, MOD, INDEX]

theorem Bin.not_semi {o : Token} (h : Bin o) : (o.ty == TokType.SEMICOLON) = false := by
  have := h.1
  cases hty : o.ty <;> simp [hty, infixFn] at this <;> rfl

/-- what `parseExpression` does with the result of its infix loop: undo the nesting count -/
def unwind (x : Option (Expr × PState)) : Option (Expr × PState) :=
  match x with
  | none => none
  | some (e, s) => some (e, { s with depth := s.depth - 1 })

/-- a token that, in operand position, is a complete operand `e` by itself: it becomes the left operand of
    the infix loop -/
def Atom (tok : Token) (e : Expr) : Prop :=
  ∀ (f p : Nat) (rest : List Token) (prev : Token) (tn fn : Bool) (d : Nat), d + 1 ≤ maxNesting →
    parseExpression (f + 2) p ⟨tok :: rest, prev, tn, fn, d⟩ =
      unwind (infixLoop (f + 1) p e ⟨tok :: rest, prev, tn, fn, d + 1⟩)

/-- prefix operator tokens: `!`, `-`, `√` -/
def Pre (o : Token) : Prop := prefixFn o.ty = some .prefixOp

/-- operator trees over atoms: prefix and binary operators -/
inductive T
  | leaf (tok : Token) (e : Expr)
  | pre (o : Token) (r : T)
  | node (o : Token) (l r : T)
  | idx (l i : T)

def T.wf : T → Prop
  | .leaf tok e => Atom tok e
  | .pre o r => Pre o ∧ r.wf
  | .node o l r => Bin o ∧ l.wf ∧ r.wf
  | .idx l i => l.wf ∧ i.wf

/-- the level of a tree: the precedence of its root operator; atoms bind tightest -/
def T.lvl : T → Nat
  | .leaf _ _ => 100
  | .pre _ _ => PREFIX
  | .node o _ _ => precedence o.ty
  | .idx _ _ => INDEX

/-- the level below which the tree can stand as an operand without parentheses: a prefix operator
    is taken whatever the level -/
def T.plvl : T → Nat
  | .leaf _ _ => 100
  | .pre _ _ => 100
  | .node o _ _ => precedence o.ty
  | .idx _ _ => INDEX

def T.toExpr : T → Expr
  | .leaf _ e => e
  | .pre o r => .prefix o.lit r.toExpr
  | .node o l r => .infix o.lit l.toExpr r.toExpr
  | .idx l i => .index l.toExpr i.toExpr

def lsT : Token := ⟨.LSQUARE, ['[']⟩
def rsT : Token := ⟨.RSQUARE, [']']⟩
def lpT : Token := ⟨.LPAREN, ['(']⟩
def rpT : Token := ⟨.RPAREN, [')']⟩

def parenIf (b : Bool) (ts : List Token) : List Token := if b then lpT :: ts ++ [rpT] else ts

/-- print with the parentheses the documented rules make necessary, and no others: a left operand of
    lower level, a right operand of lower or equal level (operators group left to right) -/
def T.pr : T → List Token
  | .leaf tok _ => [tok]
  | .pre o r => [o] ++ parenIf (r.lvl < PREFIX) r.pr
  | .node o l r => parenIf (l.lvl < precedence o.ty) l.pr ++ [o] ++ parenIf (r.lvl ≤ precedence o.ty) r.pr
  | .idx l i => parenIf (l.lvl < INDEX) l.pr ++ [lsT] ++ i.pr ++ [rsT]


/-- an identifier in operand position is an atom -/
theorem atom_ident (n : Str) : Atom ⟨.IDENT, n⟩ (.ident n) := by
  intro f p rest prev tn fn d hd
  have hd' : ¬ (d + 1 > maxNesting) := by omega
  simp [parseExpression, parsePrefix, PState.cur, isPostfix, prefixFn, hd', unwind]
  cases infixLoop (f + 1) p (Expr.ident n) ⟨⟨.IDENT, n⟩ :: rest, prev, tn, fn, d + 1⟩ <;> rfl

theorem atom_string (v : Str) : Atom ⟨.STRING, v⟩ (.strLit v) := by
  intro f p rest prev tn fn d hd
  have hd' : ¬ (d + 1 > maxNesting) := by omega
  simp [parseExpression, parsePrefix, PState.cur, isPostfix, prefixFn, hd', unwind]
  cases infixLoop (f + 1) p (Expr.strLit v) ⟨⟨.STRING, v⟩ :: rest, prev, tn, fn, d + 1⟩ <;> rfl

theorem atom_true (l : Str) : Atom ⟨.TRUE, l⟩ (.boolLit true) := by
  intro f p rest prev tn fn d hd
  have hd' : ¬ (d + 1 > maxNesting) := by omega
  simp [parseExpression, parsePrefix, PState.cur, PState.curIs, isPostfix, prefixFn, hd', unwind]
  cases infixLoop (f + 1) p (Expr.boolLit true) ⟨⟨.TRUE, l⟩ :: rest, prev, tn, fn, d + 1⟩ <;> rfl

theorem atom_false (l : Str) : Atom ⟨.FALSE, l⟩ (.boolLit false) := by
  intro f p rest prev tn fn d hd
  have hd' : ¬ (d + 1 > maxNesting) := by omega
  simp [parseExpression, parsePrefix, PState.cur, PState.curIs, isPostfix, prefixFn, hd', unwind,
    show (TokType.FALSE == TokType.TRUE) = false from rfl]
  cases infixLoop (f + 1) p (Expr.boolLit false) ⟨⟨.FALSE, l⟩ :: rest, prev, tn, fn, d + 1⟩ <;> rfl

/-- an integer literal whose digits denote `v` -/
theorem atom_int (l : Str) (v : Int64) (h : parseIntLit l = some v) : Atom ⟨.INT, l⟩ (.intLit l v) := by
  intro f p rest prev tn fn d hd
  have hd' : ¬ (d + 1 > maxNesting) := by omega
  simp [parseExpression, parsePrefix, PState.cur, isPostfix, prefixFn, hd', unwind, h]
  cases infixLoop (f + 1) p (Expr.intLit l v) ⟨⟨.INT, l⟩ :: rest, prev, tn, fn, d + 1⟩ <;> rfl

theorem atom_float (l : Str) (v : Float) (h : parseFloatLit l = some v) : Atom ⟨.FLOAT, l⟩ (.floatLit l v) := by
  intro f p rest prev tn fn d hd
  have hd' : ¬ (d + 1 > maxNesting) := by omega
  simp [parseExpression, parsePrefix, PState.cur, isPostfix, prefixFn, hd', unwind, h]
  cases infixLoop (f + 1) p (Expr.floatLit l v) ⟨⟨.FLOAT, l⟩ :: rest, prev, tn, fn, d + 1⟩ <;> rfl

theorem atom_regexp (l : Str) : Atom ⟨.REGEXP, l⟩ (.regexpLit l (splitRegexp l).1 (splitRegexp l).2) := by
  intro f p rest prev tn fn d hd
  have hd' : ¬ (d + 1 > maxNesting) := by omega
  simp [parseExpression, parsePrefix, PState.cur, isPostfix, prefixFn, hd', unwind]
  cases infixLoop (f + 1) p (Expr.regexpLit l (splitRegexp l).1 (splitRegexp l).2) ⟨⟨.REGEXP, l⟩ :: rest, prev, tn, fn, d + 1⟩ <;> rfl

/-- a prefix operator in operand position: its operand is parsed at the prefix level, and the whole
    becomes the left operand of the infix loop -/
theorem parse_pre (f p : Nat) (o : Token) (inner : List Token) (prev : Token) (tn fn : Bool) (d : Nat)
    (ho : Pre o) (hd : d + 1 ≤ maxNesting) :
    parseExpression (f + 2) p ⟨o :: inner, prev, tn, fn, d⟩ =
      (match parseExpression f PREFIX ⟨inner, o, tn, fn, d + 1⟩ with
       | none => none
       | some (r, s2) => unwind (infixLoop (f + 1) p (.prefix o.lit r) s2)) := by
  have hd' : ¬ (d + 1 > maxNesting) := by omega
  have hpo : isPostfix o.ty = false := by
    unfold Pre at ho
    cases hty : o.ty <;> simp [hty, prefixFn] at ho <;> rfl
  unfold Pre at ho
  simp [parseExpression, parsePrefix, PState.cur, PState.next, hpo, ho, hd', unwind]
  cases parseExpression f PREFIX ⟨inner, o, tn, fn, d + 1⟩ with
  | none => rfl
  | some r =>
    obtain ⟨e, s2⟩ := r
    simp
    cases infixLoop (f + 1) p (Expr.prefix o.lit e) s2 <;> rfl

/-- a parenthesis in operand position: the inside is parsed from the lowest level, the closing
    parenthesis is required, and the result becomes the left operand of the infix loop -/
theorem parse_group (f p : Nat) (inner : List Token) (prev : Token) (tn fn : Bool) (d : Nat)
    (hd : d + 1 ≤ maxNesting) :
    parseExpression (f + 2) p ⟨lpT :: inner, prev, tn, fn, d⟩ =
      (match parseExpression f LOWEST ⟨inner, lpT, tn, fn, d + 1⟩ with
       | none => none
       | some (e, s2) =>
         match s2.expectPeek .RPAREN with
         | none => none
         | some s3 => unwind (infixLoop (f + 1) p e s3)) := by
  have hd' : ¬ (d + 1 > maxNesting) := by omega
  simp [parseExpression, parsePrefix, PState.cur, PState.next, isPostfix, prefixFn, hd', unwind, lpT]
  cases parseExpression f LOWEST ⟨inner, ⟨.LPAREN, ['(']⟩, tn, fn, d + 1⟩ with
  | none => rfl
  | some r =>
    obtain ⟨e, s2⟩ := r
    simp
    cases s2.expectPeek .RPAREN with
    | none => rfl
    | some s3 =>
      simp
      cases infixLoop (f + 1) p e s3 <;> rfl

/-- the loop stops at a token that does not bind tighter than the level it runs at -/
theorem loop_stop (f p : Nat) (left : Expr) (s : PState) (h : ¬ (p < precedence s.peek.ty)) :
    infixLoop (f + 1) p left s = some (left, s) := by
  simp [infixLoop, h]

/-- the loop takes a binary operator that binds tighter than its level: the right operand is parsed
    at the operator's own level -/
theorem loop_step (f p : Nat) (left : Expr) (c o : Token) (rest : List Token) (prev : Token) (tn fn : Bool) (d : Nat)
    (ho : Bin o) (hp : p < precedence o.ty) :
    infixLoop (f + 2) p left ⟨c :: o :: rest, prev, tn, fn, d⟩ =
      (match parseExpression f (precedence o.ty) ⟨rest, o, tn, fn, d⟩ with
       | none => none
       | some (r, s2) => infixLoop (f + 1) p (.infix o.lit left r) s2) := by
  have h1 := ho.not_semi
  have h2 := ho.1
  have h3 : (o.lit == ['.']) = false := by simpa using ho.2
  simp [infixLoop, PState.peekIs, PState.peek, h1, hp, h2, parseInfix, PState.next, PState.cur, h3]
  cases parseExpression f (precedence o.ty) ⟨rest, o, tn, fn, d⟩ with
  | none => rfl
  | some r => rfl

/-- the loop takes an opening square bracket (it binds tighter than every level an operand is parsed at):
    the index is parsed from the lowest level and the closing bracket is required -/
theorem loop_index (f p : Nat) (left : Expr) (c : Token) (inner : List Token) (prev : Token) (tn fn : Bool) (d : Nat)
    (hp : p < INDEX) :
    infixLoop (f + 2) p left ⟨c :: lsT :: inner, prev, tn, fn, d⟩ =
      (match parseExpression f LOWEST ⟨inner, lsT, tn, fn, d⟩ with
       | none => none
       | some (i, s2) =>
         match s2.expectPeek .RSQUARE with
         | none => none
         | some s3 => infixLoop (f + 1) p (.index left i) s3) := by
  have hp' : p < precedence TokType.LSQUARE := by simpa [precedence] using hp
  simp [infixLoop, PState.peekIs, PState.peek, lsT, hp', infixFn, parseInfix, PState.next, PState.cur]
  cases parseExpression f LOWEST ⟨inner, ⟨.LSQUARE, ['[']⟩, tn, fn, d⟩ with
  | none => rfl
  | some r =>
    obtain ⟨e, s2⟩ := r
    simp
    cases s2.expectPeek .RSQUARE <;> rfl

def T.size : T → Nat
  | .leaf _ _ => 1
  | .pre _ r => r.size + 3
  | .node _ l r => l.size + r.size + 3
  | .idx l i => l.size + i.size + 3

/-- fuel the infix loop has used up when `t` stands built as its left operand -/
def T.k : T → Nat
  | .leaf _ _ => 1
  | .pre _ _ => 1
  | .node o l _ => (if l.lvl < precedence o.ty then 1 else l.k) + 1
  | .idx l _ => (if l.lvl < INDEX then 1 else l.k) + 1

/-- nesting of `parseExpression` calls needed for `t` -/
def T.nest : T → Nat
  | .leaf _ _ => 1
  | .pre _ r => r.nest + 1 + (if r.lvl < PREFIX then 1 else 0)
  | .node o l r => max (l.nest + (if l.lvl < precedence o.ty then 1 else 0))
                       (r.nest + 1 + (if r.lvl ≤ precedence o.ty then 1 else 0))
  | .idx l i => max (l.nest + (if l.lvl < INDEX then 1 else 0)) (i.nest + 1)

theorem T.size_pos (t : T) : 1 ≤ t.size := by cases t <;> simp [T.size]
theorem T.k_pos (t : T) : 1 ≤ t.k := by cases t <;> simp [T.k]
theorem T.k_le_size (t : T) : t.k ≤ t.size := by
  induction t with
  | leaf tok e => simp [T.k, T.size]
  | pre o r ih => simp [T.k, T.size]
  | node o l r ihl ihr =>
    simp only [T.k, T.size]
    have := r.size_pos
    split <;> omega
  | idx l i ihl ihi =>
    simp only [T.k, T.size]
    have := i.size_pos
    split <;> omega
theorem T.nest_pos (t : T) : 1 ≤ t.nest := by
  cases t with
  | leaf tok e => simp [T.nest]
  | pre o r => simp only [T.nest]; omega
  | node o l r => simp only [T.nest]; omega
  | idx l i => simp only [T.nest]; omega

def headPrec (rest : List Token) : Nat := precedence (rest.headD Token.eof).ty
def lastTok (ts : List Token) : Token := ts.getLast?.getD Token.eof

theorem T.pr_ne_nil (t : T) : t.pr ≠ [] := by
  cases t <;> simp [T.pr]

theorem lastTok_append_ne (a b : List Token) (hb : b ≠ []) : lastTok (a ++ b) = lastTok b := by
  simp only [lastTok, List.getLast?_append]
  cases h : b.getLast? with
  | none => exact absurd (List.getLast?_eq_none_iff.mp h) hb
  | some x => simp

theorem T.lvl_pos (t : T) (h : t.wf) : LOWEST < t.lvl := by
  cases t with
  | leaf tok e => simp [T.lvl, LOWEST]
  | pre o r => simp [T.lvl, LOWEST, PREFIX]
  | node o l r => exact h.1.prec_pos
  | idx l i => simp [T.lvl, LOWEST, INDEX]

theorem T.lvl_le_plvl (t : T) (h : t.wf) : t.lvl ≤ t.plvl := by
  cases t with
  | leaf tok e => simp [T.lvl, T.plvl]
  | pre o r => simp [T.lvl, T.plvl, PREFIX]
  | node o l r => simp [T.lvl, T.plvl]
  | idx l i => simp [T.lvl, T.plvl]

theorem T.plvl_pos (t : T) (h : t.wf) : LOWEST < t.plvl := Nat.lt_of_lt_of_le (t.lvl_pos h) (t.lvl_le_plvl h)

theorem precedence_le (t : TokType) : precedence t ≤ 14 := by
  cases t <;> simp [precedence, LOWEST, TERNARY, ASSIGN, COND, EQUALS, CMP, LESSGREATER, SUM, PRODUCT, POWER, MOD, PREFIX, CALL, INDEX]

/-- the statement proved by induction: parsing the printed tree below its level is the same as
    continuing the infix loop with the tree already built as left operand -/
def Lstmt (t : T) : Prop :=
  ∀ (p f : Nat) (rest : List Token) (prev : Token) (tn fn : Bool) (d : Nat),
    p < t.plvl → headPrec rest ≤ t.lvl → d + t.nest ≤ maxNesting → 4 * t.size ≤ f →
    ∃ prev', parseExpression f p ⟨t.pr ++ rest, prev, tn, fn, d⟩ =
      unwind (infixLoop (f - t.k) p t.toExpr ⟨lastTok t.pr :: rest, prev', tn, fn, d + 1⟩)

/-- the same for an operand as it is printed inside a bigger tree, with or without parentheses -/
theorem operand_of_L (t : T) (hwf : t.wf) (hL : Lstmt t) (b : Bool) (p f : Nat) (rest : List Token) (prev : Token)
    (tn fn : Bool) (d : Nat)
    (hb : b = false → p < t.plvl ∧ headPrec rest ≤ t.lvl)
    (hd : d + t.nest + (if b then 1 else 0) ≤ maxNesting) (hf : 4 * t.size + 3 ≤ f) :
    ∃ prev', parseExpression f p ⟨parenIf b t.pr ++ rest, prev, tn, fn, d⟩ =
      unwind (infixLoop (f - (if b then 1 else t.k)) p t.toExpr
        ⟨lastTok (parenIf b t.pr) :: rest, prev', tn, fn, d + 1⟩) := by
  cases b with
  | false =>
    obtain ⟨h1, h2⟩ := hb rfl
    simp only [parenIf, Bool.false_eq_true, ↓reduceIte, Nat.add_zero] at hd ⊢
    exact hL p f rest prev tn fn d h1 h2 hd (by omega)
  | true =>
    simp only [parenIf, ↓reduceIte] at hd ⊢
    obtain ⟨f', rfl⟩ : ∃ f', f = f' + 2 := ⟨f - 2, by omega⟩
    have hnest := t.nest_pos
    rw [show (lpT :: t.pr ++ [rpT]) ++ rest = lpT :: (t.pr ++ (rpT :: rest)) by simp]
    rw [parse_group f' p _ prev tn fn d (by omega)]
    obtain ⟨pv, hin⟩ := hL LOWEST f' (rpT :: rest) lpT tn fn (d + 1) (t.plvl_pos hwf)
      (by simp [headPrec, rpT, precedence]; exact Nat.le_of_lt (t.lvl_pos hwf)) (by omega) (by omega)
    rw [hin]
    have hk := t.k_le_size
    obtain ⟨g, hg⟩ : ∃ g, f' - t.k = g + 1 := ⟨f' - t.k - 1, by omega⟩
    rw [hg, loop_stop g LOWEST _ _ (by simp [PState.peek, rpT, precedence, LOWEST])]
    simp only [unwind, PState.expectPeek, PState.peekIs, PState.peek, List.tail_cons, List.headD_cons, rpT,
      beq_self_eq_true, ↓reduceIte, PState.next, PState.cur, Nat.add_sub_cancel]
    refine ⟨lastTok t.pr, ?_⟩
    have hl : lastTok (lpT :: t.pr ++ [⟨.RPAREN, [')']⟩]) = ⟨.RPAREN, [')']⟩ := by
      rw [lastTok_append_ne _ _ (by simp)]; rfl
    rw [hl]
    rfl


theorem parenIf_ne_nil (b : Bool) (t : T) : parenIf b t.pr ≠ [] := by
  cases b <;> simp [parenIf, T.pr_ne_nil]

theorem L_all : ∀ (t : T), t.wf → Lstmt t
  | .leaf tok e, hwf => by
    intro p f rest prev tn fn d _ _ hd hf
    simp only [T.size, T.nest] at hd hf
    obtain ⟨f', rfl⟩ : ∃ f', f = f' + 2 := ⟨f - 2, by omega⟩
    refine ⟨prev, ?_⟩
    simp only [T.pr, List.singleton_append, T.k, T.toExpr]
    rw [hwf f' p rest prev tn fn d (by omega)]
    rfl
  | .pre o r, hwf => by
    obtain ⟨ho, hwr⟩ := hwf
    have ihr := L_all r hwr
    intro p f rest prev tn fn d hp hrest hd hf
    simp only [T.lvl, T.plvl] at hp hrest
    simp only [T.size] at hf
    simp only [T.nest] at hd
    have hkr := r.k_le_size
    have hsr := r.size_pos
    obtain ⟨f', rfl⟩ : ∃ f', f = f' + 2 := ⟨f - 2, by omega⟩
    have e1 : (T.pre o r).pr ++ rest = o :: (parenIf (r.lvl < PREFIX) r.pr ++ rest) := by simp [T.pr]
    rw [e1, parse_pre f' p o _ prev tn fn d ho (by omega)]
    obtain ⟨pv2, h2⟩ := operand_of_L r hwr ihr (decide (r.lvl < PREFIX)) PREFIX f' rest o tn fn (d + 1)
      (by
        intro hb
        have : ¬ (r.lvl < PREFIX) := by simpa using hb
        have := r.lvl_le_plvl hwr
        refine ⟨?_, by omega⟩
        -- a prefix operand is taken at any level; anything else that needs no parentheses is an atom
        cases r with
        | leaf tok e => simp [T.plvl, PREFIX]
        | pre o2 r2 => simp [T.plvl, PREFIX]
        | idx l2 i2 => simp [T.plvl, PREFIX, INDEX]
        | node o2 l2 r2 =>
          have hne : precedence o2.ty ≠ PREFIX := by
            cases o2.ty <;> simp [precedence, PREFIX, LOWEST, TERNARY, ASSIGN, COND, EQUALS, CMP, LESSGREATER, SUM, PRODUCT, POWER, MOD, CALL, INDEX]
          simp only [T.lvl, T.plvl] at *
          omega)
      (by
        by_cases hb : r.lvl < PREFIX <;> simp [hb] at hd ⊢ <;> omega)
      (by omega)
    simp only [decide_eq_true_eq] at h2
    rw [h2]
    obtain ⟨h, hh⟩ : ∃ h, f' - (if r.lvl < PREFIX then 1 else r.k) = h + 1 :=
      ⟨f' - (if r.lvl < PREFIX then 1 else r.k) - 1, by split <;> omega⟩
    rw [hh, loop_stop h PREFIX _ _ (by
      simp only [PState.peek, List.tail_cons]
      have : headPrec rest ≤ PREFIX := hrest
      simp only [headPrec] at this
      omega)]
    simp only [unwind, Nat.add_sub_cancel]
    refine ⟨pv2, ?_⟩
    have hlast : lastTok (T.pre o r).pr = lastTok (parenIf (r.lvl < PREFIX) r.pr) := by
      simp only [T.pr]
      rw [lastTok_append_ne _ _ (by simpa using parenIf_ne_nil _ r)]
    rw [hlast]
    simp [T.k, T.toExpr]
  | .node o l r, hwf => by
    obtain ⟨ho, hwl, hwr⟩ := hwf
    have ihl := L_all l hwl
    have ihr := L_all r hwr
    intro p f rest prev tn fn d hp hrest hd hf
    simp only [T.lvl, T.plvl] at hp hrest
    simp only [T.size] at hf
    simp only [T.nest] at hd
    have hkl := l.k_le_size
    have hkr := r.k_le_size
    have hsl := l.size_pos
    have hsr := r.size_pos
    -- the left operand
    have e1 : (T.node o l r).pr ++ rest =
        parenIf (l.lvl < precedence o.ty) l.pr ++ (o :: (parenIf (r.lvl ≤ precedence o.ty) r.pr ++ rest)) := by
      simp [T.pr]
    rw [e1]
    obtain ⟨pv1, h1⟩ := operand_of_L l hwl ihl (decide (l.lvl < precedence o.ty)) p f
      (o :: (parenIf (r.lvl ≤ precedence o.ty) r.pr ++ rest)) prev tn fn d
      (by
        intro hb
        have : ¬ (l.lvl < precedence o.ty) := by simpa using hb
        have := l.lvl_le_plvl hwl
        refine ⟨by omega, ?_⟩
        simp only [headPrec, List.headD_cons]; omega)
      (by
        by_cases hb : l.lvl < precedence o.ty <;> simp [hb] at hd ⊢ <;> omega)
      (by omega)
    simp only [decide_eq_true_eq] at h1
    rw [h1]
    -- one turn of the loop: the operator and its right operand
    obtain ⟨g, hg⟩ : ∃ g, f - (if l.lvl < precedence o.ty then 1 else l.k) = g + 2 :=
      ⟨f - (if l.lvl < precedence o.ty then 1 else l.k) - 2, by split <;> omega⟩
    rw [hg, loop_step g p _ _ o _ pv1 tn fn (d + 1) ho hp]
    obtain ⟨pv2, h2⟩ := operand_of_L r hwr ihr (decide (r.lvl ≤ precedence o.ty)) (precedence o.ty) g rest o tn fn (d + 1)
      (by
        intro hb
        have : ¬ (r.lvl ≤ precedence o.ty) := by simpa using hb
        have := r.lvl_le_plvl hwr
        exact ⟨by omega, by omega⟩)
      (by
        by_cases hb : r.lvl ≤ precedence o.ty <;> simp [hb] at hd ⊢ <;> omega)
      (by split at hg <;> omega)
    simp only [decide_eq_true_eq] at h2
    rw [h2]
    obtain ⟨h, hh⟩ : ∃ h, g - (if r.lvl ≤ precedence o.ty then 1 else r.k) = h + 1 :=
      ⟨g - (if r.lvl ≤ precedence o.ty then 1 else r.k) - 1, by split at hg <;> split <;> omega⟩
    rw [hh, loop_stop h (precedence o.ty) _ _ (by
      simp only [PState.peek, List.tail_cons]
      have : headPrec rest ≤ precedence o.ty := hrest
      simp only [headPrec] at this
      omega)]
    simp only [unwind, Nat.add_sub_cancel]
    refine ⟨pv2, ?_⟩
    have hlast : lastTok (T.node o l r).pr = lastTok (parenIf (r.lvl ≤ precedence o.ty) r.pr) := by
      simp only [T.pr]
      rw [lastTok_append_ne _ _ (by simpa using parenIf_ne_nil _ r)]
    have hk : f - (T.node o l r).k = g + 1 := by
      simp only [T.k]
      by_cases hb : l.lvl < precedence o.ty
      · simp only [hb, ↓reduceIte] at hg ⊢; omega
      · simp only [hb, ↓reduceIte] at hg ⊢; omega
    rw [hlast, hk]
    rfl
  | .idx l i, hwf => by
    obtain ⟨hwl, hwi⟩ := hwf
    have ihl := L_all l hwl
    have ihi := L_all i hwi
    intro p f rest prev tn fn d hp hrest hd hf
    simp only [T.lvl, T.plvl] at hp hrest
    simp only [T.size] at hf
    simp only [T.nest] at hd
    have hkl := l.k_le_size
    have hki := i.k_le_size
    have hsl := l.size_pos
    have hsi := i.size_pos
    have e1 : (T.idx l i).pr ++ rest = parenIf (l.lvl < INDEX) l.pr ++ (lsT :: (i.pr ++ (rsT :: rest))) := by
      simp [T.pr]
    rw [e1]
    obtain ⟨pv1, h1⟩ := operand_of_L l hwl ihl (decide (l.lvl < INDEX)) p f
      (lsT :: (i.pr ++ (rsT :: rest))) prev tn fn d
      (by
        intro hb
        have : ¬ (l.lvl < INDEX) := by simpa using hb
        have := l.lvl_le_plvl hwl
        refine ⟨by omega, ?_⟩
        simp only [headPrec, List.headD_cons, lsT, precedence]; omega)
      (by
        by_cases hb : l.lvl < INDEX <;> simp [hb] at hd ⊢ <;> omega)
      (by omega)
    simp only [decide_eq_true_eq] at h1
    rw [h1]
    obtain ⟨g, hg⟩ : ∃ g, f - (if l.lvl < INDEX then 1 else l.k) = g + 2 :=
      ⟨f - (if l.lvl < INDEX then 1 else l.k) - 2, by split <;> omega⟩
    rw [hg, loop_index g p _ _ _ pv1 tn fn (d + 1) hp]
    obtain ⟨pv2, h2⟩ := ihi LOWEST g (rsT :: rest) lsT tn fn (d + 1) (i.plvl_pos hwi)
      (by simp [headPrec, rsT, precedence]; exact Nat.le_of_lt (i.lvl_pos hwi)) (by omega) (by split at hg <;> omega)
    rw [h2]
    obtain ⟨h, hh⟩ : ∃ h, g - i.k = h + 1 := ⟨g - i.k - 1, by split at hg <;> omega⟩
    rw [hh, loop_stop h LOWEST _ _ (by simp [PState.peek, rsT, precedence, LOWEST])]
    simp only [unwind, PState.expectPeek, PState.peekIs, PState.peek, List.tail_cons, List.headD_cons, rsT,
      beq_self_eq_true, ↓reduceIte, PState.next, PState.cur, Nat.add_sub_cancel]
    refine ⟨lastTok i.pr, ?_⟩
    have hlast : lastTok (T.idx l i).pr = ⟨.RSQUARE, [']']⟩ := by
      simp only [T.pr]
      rw [lastTok_append_ne _ _ (by simp)]; rfl
    have hk : f - (T.idx l i).k = g + 1 := by
      simp only [T.k]
      by_cases hb : l.lvl < INDEX
      · simp only [hb, ↓reduceIte] at hg ⊢; omega
      · simp only [hb, ↓reduceIte] at hg ⊢; omega
    rw [hlast, hk]
    rfl


theorem T.size_le_pr (t : T) : t.size ≤ 4 * t.pr.length := by
  induction t with
  | idx l i ihl ihi =>
    simp only [T.size, T.pr, List.length_append, List.length_cons, List.length_nil]
    have h1 : l.pr.length ≤ (parenIf (l.lvl < INDEX) l.pr).length := by
      unfold parenIf; split <;> simp <;> omega
    omega
  | leaf tok e => simp [T.size, T.pr]
  | pre o r ih =>
    simp only [T.size, T.pr, List.length_append, List.length_cons, List.length_nil]
    have h2 : r.pr.length ≤ (parenIf (r.lvl < PREFIX) r.pr).length := by
      unfold parenIf; split <;> simp <;> omega
    omega
  | node o l r ihl ihr =>
    simp only [T.size, T.pr, List.length_append, List.length_cons, List.length_nil]
    have h1 : l.pr.length ≤ (parenIf (l.lvl < precedence o.ty) l.pr).length := by
      unfold parenIf; split <;> simp <;> omega
    have h2 : r.pr.length ≤ (parenIf (r.lvl ≤ precedence o.ty) r.pr).length := by
      unfold parenIf; split <;> simp <;> omega
    omega

def retTok : Token := ⟨.RETURN, ['r', 'e', 't', 'u', 'r', 'n']⟩
def semiTok : Token := ⟨.SEMICOLON, [';']⟩

/-- **The parser reads back what the printer prints.**  For every operator tree over atoms, prefix
    operators, binary operators and index expressions - of any size and shape - printed with exactly the
    parentheses the documented levels and left-to-right grouping make necessary, `return <text>;` parses
    to that very tree. -/
theorem pratt_round_trip (t : T) (hwf : t.wf) (hn : t.nest ≤ maxNesting) :
    parse (retTok :: t.pr ++ [semiTok, Token.eof]) = some [.ret t.toExpr] := by
  have hsz := t.size_le_pr
  have hk := t.k_le_size
  have hkp := t.k_pos
  have hsp := t.size_pos
  unfold parse
  generalize hF : fuelFor (retTok :: t.pr ++ [semiTok, Token.eof]) = F
  have hFv : F = 16 * (t.pr.length + 7) := by
    rw [← hF]; simp [fuelFor]
  obtain ⟨F', rfl⟩ : ∃ F', F = F' + 2 := ⟨F - 2, by omega⟩
  have hlen : (retTok :: t.pr ++ [semiTok, Token.eof]).length + 2 = (t.pr.length + 3) + 2 := by simp
  rw [hlen]
  obtain ⟨pv, hL⟩ := L_all t hwf LOWEST (F' + 1) [semiTok, Token.eof] retTok false false 0
    (t.plvl_pos hwf) (by simp [headPrec, semiTok, precedence]; exact Nat.le_of_lt (t.lvl_pos hwf)) (by omega) (by omega)
  obtain ⟨h, hh⟩ : ∃ h, F' + 1 - t.k = h + 1 := ⟨F' + 1 - t.k - 1, by omega⟩
  rw [hh, loop_stop h LOWEST _ _ (by simp [PState.peek, semiTok, precedence, LOWEST])] at hL
  simp only [parseProgramLoop, PState.curIs, PState.cur, retTok, List.headD_cons, List.cons_append,
    beq_iff_eq, reduceCtorEq, ↓reduceIte, parseStatement, beq_self_eq_true, PState.next, List.tail_cons]
  have hL' : parseExpression (F' + 1) LOWEST
      ⟨t.pr ++ [semiTok, Token.eof], ⟨.RETURN, ['r', 'e', 't', 'u', 'r', 'n']⟩, false, false, 0⟩ = _ := hL
  rw [hL']
  simp [unwind, PState.curIs, PState.cur, PState.next, semiTok, parseProgramLoop, Token.eof]

end EvalFilter.Parser
