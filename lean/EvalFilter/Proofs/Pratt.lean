/-
  The Pratt parser reads back what the printer prints: for every operator tree over atoms (identifiers
  and literals), prefix operators, binary operators, index expressions, calls with argument lists and
  array literals, printed with exactly the parentheses that the documented precedence levels and
  left-to-right grouping make necessary, the parser returns that very tree - any size, any shape.
  (The invariant: parsing the printed tree below its level is the same as continuing the infix loop
  with the tree already built as the left operand.)
-/
import EvalFilter.Model.Parser
set_option linter.unusedSimpArgs false
set_option linter.unusedVariables false
namespace EvalFilter.Parser
open EvalFilter

/-- binary operator tokens of expressions: registered with the binary parselet, not the `.` of the
    field-access hack -/
def Bin (o : Token) : Prop := infixFn o.ty = some .binary ∧ o.lit ≠ ['.']

theorem Bin.prec_pos {o : Token} (h : Bin o) : LOWEST < precedence o.ty := by
  have := h.1
  cases hty : o.ty <;> simp [hty, infixFn] at this <;> simp [precedence, LOWEST, TERNARY, ASSIGN, COND, EQUALS, CMP, LESSGREATER, SUM, PRODUCT, POWER, MOD, INDEX]

theorem Bin.not_semi {o : Token} (h : Bin o) : (o.ty == TokType.SEMICOLON) = false := by
  have := h.1
  cases hty : o.ty <;> simp [hty, infixFn] at this <;> rfl

/-- what `parseExpression` does with the result of its infix loop: undo the nesting count -/
def unwind (x : Option (Expr × PState)) : Option (Expr × PState) :=
  match x with
  | none => none
  | some (e, s) => some (e, { s with depth := s.depth - 1 })

/-- a token that, in operand position, is a complete operand `e` by itself: it becomes the left operand of
    the infix loop -/
def Atom (tok : Token) (e : Expr) : Prop :=
  ∀ (f p : Nat) (rest : List Token) (prev : Token) (tn fn : Bool) (d : Nat), d + 1 ≤ maxNesting →
    parseExpression (f + 2) p ⟨tok :: rest, prev, tn, fn, d⟩ =
      unwind (infixLoop (f + 1) p e ⟨tok :: rest, prev, tn, fn, d + 1⟩)

/-- prefix operator tokens: `!`, `-`, `√` -/
def Pre (o : Token) : Prop := prefixFn o.ty = some .prefixOp

mutual
/-- operator trees over atoms: prefix and binary operators, index expressions, calls, array literals -/
inductive T
  | leaf (tok : Token) (e : Expr)
  | pre (o : Token) (r : T)
  | node (o : Token) (l r : T)
  | idx (l i : T)
  | call (fn : T) (args : TL)
  | arr (els : TL)
/-- argument / element lists -/
inductive TL
  | nil
  | cons (t : T) (rest : TL)
end

mutual
def T.wf : T → Prop
  | .leaf tok e => Atom tok e
  | .pre o r => Pre o ∧ r.wf
  | .node o l r => Bin o ∧ l.wf ∧ r.wf
  | .idx l i => l.wf ∧ i.wf
  | .call fn args => fn.wf ∧ args.wf
  | .arr els => els.wf
def TL.wf : TL → Prop
  | .nil => True
  | .cons t rest => t.wf ∧ rest.wf
end

/-- the level of a tree: the precedence of its root operator; atoms bind tightest -/
def T.lvl : T → Nat
  | .leaf _ _ => 100
  | .pre _ _ => PREFIX
  | .node o _ _ => precedence o.ty
  | .idx _ _ => INDEX
  | .call _ _ => CALL
  | .arr _ => 100

/-- the level below which the tree can stand as an operand without parentheses: a prefix operator
    is taken whatever the level -/
def T.plvl : T → Nat
  | .leaf _ _ => 100
  | .pre _ _ => 100
  | .node o _ _ => precedence o.ty
  | .idx _ _ => INDEX
  | .call _ _ => CALL
  | .arr _ => 100

mutual
def T.toExpr : T → Expr
  | .leaf _ e => e
  | .pre o r => .prefix o.lit r.toExpr
  | .node o l r => .infix o.lit l.toExpr r.toExpr
  | .idx l i => .index l.toExpr i.toExpr
  | .call fn args => .call fn.toExpr args.toExprs
  | .arr els => .arrayLit els.toExprs
def TL.toExprs : TL → List Expr
  | .nil => []
  | .cons t rest => t.toExpr :: rest.toExprs
end

def commaT : Token := ⟨.COMMA, [',']⟩

def lsT : Token := ⟨.LSQUARE, ['[']⟩
def rsT : Token := ⟨.RSQUARE, [']']⟩
def lpT : Token := ⟨.LPAREN, ['(']⟩
def rpT : Token := ⟨.RPAREN, [')']⟩

def parenIf (b : Bool) (ts : List Token) : List Token := if b then lpT :: ts ++ [rpT] else ts

mutual
/-- print with the parentheses the documented rules make necessary, and no others: a left operand of
    lower level, a right operand of lower or equal level (operators group left to right) -/
def T.pr : T → List Token
  | .leaf tok _ => [tok]
  | .pre o r => [o] ++ parenIf (r.lvl < PREFIX) r.pr
  | .node o l r => parenIf (l.lvl < precedence o.ty) l.pr ++ [o] ++ parenIf (r.lvl ≤ precedence o.ty) r.pr
  | .idx l i => parenIf (l.lvl < INDEX) l.pr ++ [lsT] ++ i.pr ++ [rsT]
  | .call fn args => parenIf (fn.lvl < CALL) fn.pr ++ [lpT] ++ args.pr ++ [rpT]
  | .arr els => [lsT] ++ els.pr ++ [rsT]
/-- the elements separated by commas -/
def TL.pr : TL → List Token
  | .nil => []
  | .cons t rest => t.pr ++ rest.prRest
/-- `, t1, t2 …` -/
def TL.prRest : TL → List Token
  | .nil => []
  | .cons t rest => [commaT] ++ t.pr ++ rest.prRest
end


/-- an identifier in operand position is an atom -/
theorem atom_ident (n : Str) : Atom ⟨.IDENT, n⟩ (.ident n) := by
  intro f p rest prev tn fn d hd
  have hd' : ¬ (d + 1 > maxNesting) := by omega
  simp [parseExpression, parsePrefix, PState.cur, isPostfix, prefixFn, hd', unwind]
  cases infixLoop (f + 1) p (Expr.ident n) ⟨⟨.IDENT, n⟩ :: rest, prev, tn, fn, d + 1⟩ <;> rfl

theorem atom_string (v : Str) : Atom ⟨.STRING, v⟩ (.strLit v) := by
  intro f p rest prev tn fn d hd
  have hd' : ¬ (d + 1 > maxNesting) := by omega
  simp [parseExpression, parsePrefix, PState.cur, isPostfix, prefixFn, hd', unwind]
  cases infixLoop (f + 1) p (Expr.strLit v) ⟨⟨.STRING, v⟩ :: rest, prev, tn, fn, d + 1⟩ <;> rfl

theorem atom_true (l : Str) : Atom ⟨.TRUE, l⟩ (.boolLit true) := by
  intro f p rest prev tn fn d hd
  have hd' : ¬ (d + 1 > maxNesting) := by omega
  simp [parseExpression, parsePrefix, PState.cur, PState.curIs, isPostfix, prefixFn, hd', unwind]
  cases infixLoop (f + 1) p (Expr.boolLit true) ⟨⟨.TRUE, l⟩ :: rest, prev, tn, fn, d + 1⟩ <;> rfl

theorem atom_false (l : Str) : Atom ⟨.FALSE, l⟩ (.boolLit false) := by
  intro f p rest prev tn fn d hd
  have hd' : ¬ (d + 1 > maxNesting) := by omega
  simp [parseExpression, parsePrefix, PState.cur, PState.curIs, isPostfix, prefixFn, hd', unwind,
    show (TokType.FALSE == TokType.TRUE) = false from rfl]
  cases infixLoop (f + 1) p (Expr.boolLit false) ⟨⟨.FALSE, l⟩ :: rest, prev, tn, fn, d + 1⟩ <;> rfl

/-- an integer literal whose digits denote `v` -/
theorem atom_int (l : Str) (v : Int64) (h : parseIntLit l = some v) : Atom ⟨.INT, l⟩ (.intLit l v) := by
  intro f p rest prev tn fn d hd
  have hd' : ¬ (d + 1 > maxNesting) := by omega
  simp [parseExpression, parsePrefix, PState.cur, isPostfix, prefixFn, hd', unwind, h]
  cases infixLoop (f + 1) p (Expr.intLit l v) ⟨⟨.INT, l⟩ :: rest, prev, tn, fn, d + 1⟩ <;> rfl

theorem atom_float (l : Str) (v : Float) (h : parseFloatLit l = some v) : Atom ⟨.FLOAT, l⟩ (.floatLit l v) := by
  intro f p rest prev tn fn d hd
  have hd' : ¬ (d + 1 > maxNesting) := by omega
  simp [parseExpression, parsePrefix, PState.cur, isPostfix, prefixFn, hd', unwind, h]
  cases infixLoop (f + 1) p (Expr.floatLit l v) ⟨⟨.FLOAT, l⟩ :: rest, prev, tn, fn, d + 1⟩ <;> rfl

theorem atom_regexp (l : Str) : Atom ⟨.REGEXP, l⟩ (.regexpLit l (splitRegexp l).1 (splitRegexp l).2) := by
  intro f p rest prev tn fn d hd
  have hd' : ¬ (d + 1 > maxNesting) := by omega
  simp [parseExpression, parsePrefix, PState.cur, isPostfix, prefixFn, hd', unwind]
  cases infixLoop (f + 1) p (Expr.regexpLit l (splitRegexp l).1 (splitRegexp l).2) ⟨⟨.REGEXP, l⟩ :: rest, prev, tn, fn, d + 1⟩ <;> rfl

/-- a prefix operator in operand position: its operand is parsed at the prefix level, and the whole
    becomes the left operand of the infix loop -/
theorem parse_pre (f p : Nat) (o : Token) (inner : List Token) (prev : Token) (tn fn : Bool) (d : Nat)
    (ho : Pre o) (hd : d + 1 ≤ maxNesting) :
    parseExpression (f + 2) p ⟨o :: inner, prev, tn, fn, d⟩ =
      (match parseExpression f PREFIX ⟨inner, o, tn, fn, d + 1⟩ with
       | none => none
       | some (r, s2) => unwind (infixLoop (f + 1) p (.prefix o.lit r) s2)) := by
  have hd' : ¬ (d + 1 > maxNesting) := by omega
  have hpo : isPostfix o.ty = false := by
    unfold Pre at ho
    cases hty : o.ty <;> simp [hty, prefixFn] at ho <;> rfl
  unfold Pre at ho
  simp [parseExpression, parsePrefix, PState.cur, PState.next, hpo, ho, hd', unwind]
  cases parseExpression f PREFIX ⟨inner, o, tn, fn, d + 1⟩ with
  | none => rfl
  | some r =>
    obtain ⟨e, s2⟩ := r
    simp
    cases infixLoop (f + 1) p (Expr.prefix o.lit e) s2 <;> rfl

/-- a parenthesis in operand position: the inside is parsed from the lowest level, the closing
    parenthesis is required, and the result becomes the left operand of the infix loop -/
theorem parse_group (f p : Nat) (inner : List Token) (prev : Token) (tn fn : Bool) (d : Nat)
    (hd : d + 1 ≤ maxNesting) :
    parseExpression (f + 2) p ⟨lpT :: inner, prev, tn, fn, d⟩ =
      (match parseExpression f LOWEST ⟨inner, lpT, tn, fn, d + 1⟩ with
       | none => none
       | some (e, s2) =>
         match s2.expectPeek .RPAREN with
         | none => none
         | some s3 => unwind (infixLoop (f + 1) p e s3)) := by
  have hd' : ¬ (d + 1 > maxNesting) := by omega
  simp [parseExpression, parsePrefix, PState.cur, PState.next, isPostfix, prefixFn, hd', unwind, lpT]
  cases parseExpression f LOWEST ⟨inner, ⟨.LPAREN, ['(']⟩, tn, fn, d + 1⟩ with
  | none => rfl
  | some r =>
    obtain ⟨e, s2⟩ := r
    simp
    cases s2.expectPeek .RPAREN with
    | none => rfl
    | some s3 =>
      simp
      cases infixLoop (f + 1) p e s3 <;> rfl

/-- the loop stops at a token that does not bind tighter than the level it runs at -/
theorem loop_stop (f p : Nat) (left : Expr) (s : PState) (h : ¬ (p < precedence s.peek.ty)) :
    infixLoop (f + 1) p left s = some (left, s) := by
  simp [infixLoop, h]

/-- the loop takes a binary operator that binds tighter than its level: the right operand is parsed
    at the operator's own level -/
theorem loop_step (f p : Nat) (left : Expr) (c o : Token) (rest : List Token) (prev : Token) (tn fn : Bool) (d : Nat)
    (ho : Bin o) (hp : p < precedence o.ty) :
    infixLoop (f + 2) p left ⟨c :: o :: rest, prev, tn, fn, d⟩ =
      (match parseExpression f (precedence o.ty) ⟨rest, o, tn, fn, d⟩ with
       | none => none
       | some (r, s2) => infixLoop (f + 1) p (.infix o.lit left r) s2) := by
  have h1 := ho.not_semi
  have h2 := ho.1
  have h3 : (o.lit == ['.']) = false := by simpa using ho.2
  simp [infixLoop, PState.peekIs, PState.peek, h1, hp, h2, parseInfix, PState.next, PState.cur, h3]
  cases parseExpression f (precedence o.ty) ⟨rest, o, tn, fn, d⟩ with
  | none => rfl
  | some r => rfl

/-- the loop takes an opening square bracket (it binds tighter than every level an operand is parsed at):
    the index is parsed from the lowest level and the closing bracket is required -/
theorem loop_index (f p : Nat) (left : Expr) (c : Token) (inner : List Token) (prev : Token) (tn fn : Bool) (d : Nat)
    (hp : p < INDEX) :
    infixLoop (f + 2) p left ⟨c :: lsT :: inner, prev, tn, fn, d⟩ =
      (match parseExpression f LOWEST ⟨inner, lsT, tn, fn, d⟩ with
       | none => none
       | some (i, s2) =>
         match s2.expectPeek .RSQUARE with
         | none => none
         | some s3 => infixLoop (f + 1) p (.index left i) s3) := by
  have hp' : p < precedence TokType.LSQUARE := by simpa [precedence] using hp
  simp [infixLoop, PState.peekIs, PState.peek, lsT, hp', infixFn, parseInfix, PState.next, PState.cur]
  cases parseExpression f LOWEST ⟨inner, ⟨.LSQUARE, ['[']⟩, tn, fn, d⟩ with
  | none => rfl
  | some r =>
    obtain ⟨e, s2⟩ := r
    simp
    cases s2.expectPeek .RSQUARE <;> rfl

mutual
def T.size : T → Nat
  | .leaf _ _ => 1
  | .pre _ r => r.size + 3
  | .node _ l r => l.size + r.size + 3
  | .idx l i => l.size + i.size + 3
  | .call fn args => fn.size + args.size + 3
  | .arr els => els.size + 3
def TL.size : TL → Nat
  | .nil => 1
  | .cons t rest => t.size + rest.size + 2
end

/-- fuel the infix loop has used up when `t` stands built as its left operand -/
def T.k : T → Nat
  | .leaf _ _ => 1
  | .pre _ _ => 1
  | .node o l _ => (if l.lvl < precedence o.ty then 1 else l.k) + 1
  | .idx l _ => (if l.lvl < INDEX then 1 else l.k) + 1
  | .call fn _ => (if fn.lvl < CALL then 1 else fn.k) + 1
  | .arr _ => 1

mutual
/-- nesting of `parseExpression` calls needed for `t` -/
def T.nest : T → Nat
  | .leaf _ _ => 1
  | .pre _ r => r.nest + 1 + (if r.lvl < PREFIX then 1 else 0)
  | .node o l r => max (l.nest + (if l.lvl < precedence o.ty then 1 else 0))
                       (r.nest + 1 + (if r.lvl ≤ precedence o.ty then 1 else 0))
  | .idx l i => max (l.nest + (if l.lvl < INDEX then 1 else 0)) (i.nest + 1)
  | .call fn args => max (fn.nest + (if fn.lvl < CALL then 1 else 0)) (args.nest + 1)
  | .arr els => els.nest + 1
def TL.nest : TL → Nat
  | .nil => 0
  | .cons t rest => max t.nest rest.nest
end

theorem T.size_pos (t : T) : 1 ≤ t.size := by cases t <;> simp [T.size]
theorem TL.size_pos (t : TL) : 1 ≤ t.size := by cases t <;> simp [TL.size]
theorem T.k_pos (t : T) : 1 ≤ t.k := by cases t <;> simp [T.k]
theorem T.k_le_size : ∀ (t : T), t.k ≤ t.size
  | .leaf tok e => by simp [T.k, T.size]
  | .pre o r => by simp [T.k, T.size]
  | .node o l r => by
    have := T.k_le_size l
    simp only [T.k, T.size]
    have := r.size_pos
    split <;> omega
  | .idx l i => by
    have := T.k_le_size l
    simp only [T.k, T.size]
    have := i.size_pos
    split <;> omega
  | .call fn args => by
    have := T.k_le_size fn
    simp only [T.k, T.size]
    have := args.size_pos
    split <;> omega
  | .arr els => by simp [T.k, T.size]
theorem T.nest_pos (t : T) : 1 ≤ t.nest := by
  cases t with
  | leaf tok e => simp [T.nest]
  | pre o r => simp only [T.nest]; omega
  | node o l r => simp only [T.nest]; omega
  | idx l i => simp only [T.nest]; omega
  | call fn args => simp only [T.nest]; omega
  | arr els => simp only [T.nest]; omega

def headPrec (rest : List Token) : Nat := precedence (rest.headD Token.eof).ty
def lastTok (ts : List Token) : Token := ts.getLast?.getD Token.eof

theorem T.pr_ne_nil (t : T) : t.pr ≠ [] := by
  cases t <;> simp [T.pr]

theorem lastTok_append_ne (a b : List Token) (hb : b ≠ []) : lastTok (a ++ b) = lastTok b := by
  simp only [lastTok, List.getLast?_append]
  cases h : b.getLast? with
  | none => exact absurd (List.getLast?_eq_none_iff.mp h) hb
  | some x => simp

theorem T.lvl_pos (t : T) (h : t.wf) : LOWEST < t.lvl := by
  cases t with
  | leaf tok e => simp [T.lvl, LOWEST]
  | pre o r => simp [T.lvl, LOWEST, PREFIX]
  | node o l r => exact h.1.prec_pos
  | idx l i => simp [T.lvl, LOWEST, INDEX]
  | call fn args => simp [T.lvl, LOWEST, CALL]
  | arr els => simp [T.lvl, LOWEST]

theorem T.lvl_le_plvl (t : T) (h : t.wf) : t.lvl ≤ t.plvl := by
  cases t with
  | leaf tok e => simp [T.lvl, T.plvl]
  | pre o r => simp [T.lvl, T.plvl, PREFIX]
  | node o l r => simp [T.lvl, T.plvl]
  | idx l i => simp [T.lvl, T.plvl]
  | call fn args => simp [T.lvl, T.plvl]
  | arr els => simp [T.lvl, T.plvl]

theorem T.plvl_pos (t : T) (h : t.wf) : LOWEST < t.plvl := Nat.lt_of_lt_of_le (t.lvl_pos h) (t.lvl_le_plvl h)

theorem precedence_le (t : TokType) : precedence t ≤ 14 := by
  cases t <;> simp [precedence, LOWEST, TERNARY, ASSIGN, COND, EQUALS, CMP, LESSGREATER, SUM, PRODUCT, POWER, MOD, PREFIX, CALL, INDEX]

/-- the statement proved by induction: parsing the printed tree below its level is the same as
    continuing the infix loop with the tree already built as left operand -/
def Lstmt (t : T) : Prop :=
  ∀ (p f : Nat) (rest : List Token) (prev : Token) (tn fn : Bool) (d : Nat),
    p < t.plvl → headPrec rest ≤ t.lvl → d + t.nest ≤ maxNesting → 4 * t.size ≤ f →
    ∃ prev', parseExpression f p ⟨t.pr ++ rest, prev, tn, fn, d⟩ =
      unwind (infixLoop (f - t.k) p t.toExpr ⟨lastTok t.pr :: rest, prev', tn, fn, d + 1⟩)

/-- the same for an operand as it is printed inside a bigger tree, with or without parentheses -/
theorem operand_of_L (t : T) (hwf : t.wf) (hL : Lstmt t) (b : Bool) (p f : Nat) (rest : List Token) (prev : Token)
    (tn fn : Bool) (d : Nat)
    (hb : b = false → p < t.plvl ∧ headPrec rest ≤ t.lvl)
    (hd : d + t.nest + (if b then 1 else 0) ≤ maxNesting) (hf : 4 * t.size + 3 ≤ f) :
    ∃ prev', parseExpression f p ⟨parenIf b t.pr ++ rest, prev, tn, fn, d⟩ =
      unwind (infixLoop (f - (if b then 1 else t.k)) p t.toExpr
        ⟨lastTok (parenIf b t.pr) :: rest, prev', tn, fn, d + 1⟩) := by
  cases b with
  | false =>
    obtain ⟨h1, h2⟩ := hb rfl
    simp only [parenIf, Bool.false_eq_true, ↓reduceIte, Nat.add_zero] at hd ⊢
    exact hL p f rest prev tn fn d h1 h2 hd (by omega)
  | true =>
    simp only [parenIf, ↓reduceIte] at hd ⊢
    obtain ⟨f', rfl⟩ : ∃ f', f = f' + 2 := ⟨f - 2, by omega⟩
    have hnest := t.nest_pos
    rw [show (lpT :: t.pr ++ [rpT]) ++ rest = lpT :: (t.pr ++ (rpT :: rest)) by simp]
    rw [parse_group f' p _ prev tn fn d (by omega)]
    obtain ⟨pv, hin⟩ := hL LOWEST f' (rpT :: rest) lpT tn fn (d + 1) (t.plvl_pos hwf)
      (by simp [headPrec, rpT, precedence]; exact Nat.le_of_lt (t.lvl_pos hwf)) (by omega) (by omega)
    rw [hin]
    have hk := t.k_le_size
    obtain ⟨g, hg⟩ : ∃ g, f' - t.k = g + 1 := ⟨f' - t.k - 1, by omega⟩
    rw [hg, loop_stop g LOWEST _ _ (by simp [PState.peek, rpT, precedence, LOWEST])]
    simp only [unwind, PState.expectPeek, PState.peekIs, PState.peek, List.tail_cons, List.headD_cons, rpT,
      beq_self_eq_true, ↓reduceIte, PState.next, PState.cur, Nat.add_sub_cancel]
    refine ⟨lastTok t.pr, ?_⟩
    have hl : lastTok (lpT :: t.pr ++ [⟨.RPAREN, [')']⟩]) = ⟨.RPAREN, [')']⟩ := by
      rw [lastTok_append_ne _ _ (by simp)]; rfl
    rw [hl]
    rfl


/-- an atom starts an expression: its token has a prefix parselet -/
theorem atom_prefix {tok : Token} {e : Expr} (h : Atom tok e) : prefixFn tok.ty ≠ none := by
  intro hn
  have h1 := h 0 100 [] ⟨.EOF, []⟩ false false 0 (by simp [maxNesting])
  have h2 := h 0 100 [] ⟨.EOF, ['x']⟩ false false 0 (by simp [maxNesting])
  simp [parseExpression, PState.cur, hn, unwind, infixLoop, PState.peekIs, PState.peek, maxNesting, Token.eof,
    precedence, LOWEST] at h1 h2
  have := h1.2.trans h2.2.symm
  simp at this

/-- the first token of a printed tree -/
def T.headTok : T → Token
  | .leaf tok _ => tok
  | .pre o _ => o
  | .node o l _ => if l.lvl < precedence o.ty then lpT else l.headTok
  | .idx l _ => if l.lvl < INDEX then lpT else l.headTok
  | .call fn _ => if fn.lvl < CALL then lpT else fn.headTok
  | .arr _ => lsT

theorem T.pr_head? : ∀ (t : T), t.pr.head? = some t.headTok
  | .leaf tok e => rfl
  | .pre o r => by simp [T.pr, T.headTok]
  | .node o l r => by
    have h := T.pr_head? l
    by_cases hb : l.lvl < precedence o.ty
    · simp [T.pr, T.headTok, parenIf, hb]
    · simp [T.pr, T.headTok, parenIf, hb, List.head?_append, h]
  | .idx l i => by
    have h := T.pr_head? l
    by_cases hb : l.lvl < INDEX
    · simp [T.pr, T.headTok, parenIf, hb]
    · simp [T.pr, T.headTok, parenIf, hb, List.head?_append, h]
  | .call fn args => by
    have h := T.pr_head? fn
    by_cases hb : fn.lvl < CALL
    · simp [T.pr, T.headTok, parenIf, hb]
    · simp [T.pr, T.headTok, parenIf, hb, List.head?_append, h]
  | .arr els => by simp [T.pr, T.headTok]

theorem T.pr_head (t : T) : ∃ tl, t.pr = t.headTok :: tl := by
  have h := t.pr_head?
  cases hp : t.pr with
  | nil => rw [hp] at h; simp at h
  | cons a tl => rw [hp] at h; simp at h; exact ⟨tl, by rw [h]⟩

theorem T.head_prefix : ∀ (t : T), t.wf → prefixFn t.headTok.ty ≠ none
  | .leaf tok e, h => atom_prefix h
  | .pre o r, h => by have := h.1; unfold Pre at this; simp [T.headTok, this]
  | .node o l r, h => by
    simp only [T.headTok]
    split
    · simp [lpT, prefixFn]
    · exact T.head_prefix l h.2.1
  | .idx l i, h => by
    simp only [T.headTok]
    split
    · simp [lpT, prefixFn]
    · exact T.head_prefix l h.1
  | .call fn args, h => by
    simp only [T.headTok]
    split
    · simp [lpT, prefixFn]
    · exact T.head_prefix fn h.1
  | .arr els, _ => by simp [T.headTok, lsT, prefixFn]

/-- the loop takes an opening parenthesis: the argument list -/
theorem loop_call (f p : Nat) (left : Expr) (c : Token) (inner : List Token) (prev : Token) (tn fn : Bool) (d : Nat)
    (hp : p < CALL) :
    infixLoop (f + 2) p left ⟨c :: lpT :: inner, prev, tn, fn, d⟩ =
      (match parseExprList f .RPAREN ⟨lpT :: inner, c, tn, fn, d⟩ with
       | none => none
       | some (args, s3) => infixLoop (f + 1) p (.call left args) s3) := by
  have hp' : p < precedence TokType.LPAREN := by simpa [precedence] using hp
  simp [infixLoop, PState.peekIs, PState.peek, lpT, hp', infixFn, parseInfix, PState.next, PState.cur]
  cases parseExprList f .RPAREN ⟨⟨.LPAREN, ['(']⟩ :: inner, c, tn, fn, d⟩ with
  | none => rfl
  | some r => rfl

/-- an opening square bracket in operand position: the element list -/
theorem parse_arr (f p : Nat) (inner : List Token) (prev : Token) (tn fn : Bool) (d : Nat) (hd : d + 1 ≤ maxNesting) :
    parseExpression (f + 2) p ⟨lsT :: inner, prev, tn, fn, d⟩ =
      (match parseExprList f .RSQUARE ⟨lsT :: inner, prev, tn, fn, d + 1⟩ with
       | none => none
       | some (els, s2) => unwind (infixLoop (f + 1) p (.arrayLit els) s2)) := by
  have hd' : ¬ (d + 1 > maxNesting) := by omega
  simp [parseExpression, parsePrefix, PState.cur, isPostfix, prefixFn, hd', unwind, lsT]
  cases parseExprList f .RSQUARE ⟨⟨.LSQUARE, ['[']⟩ :: inner, prev, tn, fn, d + 1⟩ with
  | none => rfl
  | some r =>
    obtain ⟨e, s2⟩ := r
    simp
    cases infixLoop (f + 1) p (Expr.arrayLit e) s2 <;> rfl

/-- what is proved for a list of arguments / elements after its first one: the rest `, t1, t2 …` up to
    the closing token -/
def LLstmt (ts : TL) : Prop :=
  ∀ (f : Nat) (endTok c : Token) (rest : List Token) (prev : Token) (tn fn : Bool) (d : Nat) (acc : List Expr),
    (endTok.ty == TokType.COMMA) = false → precedence endTok.ty = LOWEST →
    d + ts.nest ≤ maxNesting → 4 * ts.size ≤ f →
    ∃ prev', parseExprListLoop f endTok.ty ⟨c :: (ts.prRest ++ endTok :: rest), prev, tn, fn, d⟩ acc =
      some (acc ++ ts.toExprs, ⟨endTok :: rest, prev', tn, fn, d⟩)

/-- … and for a whole list after its opening token -/
def LPstmt (ts : TL) : Prop :=
  ∀ (f : Nat) (endTok c : Token) (rest : List Token) (prev : Token) (tn fn : Bool) (d : Nat),
    (endTok.ty == TokType.COMMA) = false → precedence endTok.ty = LOWEST → prefixFn endTok.ty = none →
    d + ts.nest ≤ maxNesting → 4 * ts.size + 4 ≤ f →
    ∃ prev', parseExprList f endTok.ty ⟨c :: (ts.pr ++ endTok :: rest), prev, tn, fn, d⟩ =
      some (ts.toExprs, ⟨endTok :: rest, prev', tn, fn, d⟩)

theorem parenIf_ne_nil (b : Bool) (t : T) : parenIf b t.pr ≠ [] := by
  cases b <;> simp [parenIf, T.pr_ne_nil]

mutual
theorem L_all : ∀ (t : T), t.wf → Lstmt t
  | .leaf tok e, hwf => by
    intro p f rest prev tn fn d _ _ hd hf
    simp only [T.size, T.nest] at hd hf
    obtain ⟨f', rfl⟩ : ∃ f', f = f' + 2 := ⟨f - 2, by omega⟩
    refine ⟨prev, ?_⟩
    simp only [T.pr, List.singleton_append, T.k, T.toExpr]
    rw [hwf f' p rest prev tn fn d (by omega)]
    rfl
  | .pre o r, hwf => by
    obtain ⟨ho, hwr⟩ := hwf
    have ihr := L_all r hwr
    intro p f rest prev tn fn d hp hrest hd hf
    simp only [T.lvl, T.plvl] at hp hrest
    simp only [T.size] at hf
    simp only [T.nest] at hd
    have hkr := r.k_le_size
    have hsr := r.size_pos
    obtain ⟨f', rfl⟩ : ∃ f', f = f' + 2 := ⟨f - 2, by omega⟩
    have e1 : (T.pre o r).pr ++ rest = o :: (parenIf (r.lvl < PREFIX) r.pr ++ rest) := by simp [T.pr]
    rw [e1, parse_pre f' p o _ prev tn fn d ho (by omega)]
    obtain ⟨pv2, h2⟩ := operand_of_L r hwr ihr (decide (r.lvl < PREFIX)) PREFIX f' rest o tn fn (d + 1)
      (by
        intro hb
        have : ¬ (r.lvl < PREFIX) := by simpa using hb
        have := r.lvl_le_plvl hwr
        refine ⟨?_, by omega⟩
        -- a prefix operand is taken at any level; anything else that needs no parentheses is an atom
        cases r with
        | leaf tok e => simp [T.plvl, PREFIX]
        | pre o2 r2 => simp [T.plvl, PREFIX]
        | idx l2 i2 => simp [T.plvl, PREFIX, INDEX]
        | call f2 a2 => simp [T.plvl, PREFIX, CALL]
        | arr e2 => simp [T.plvl, PREFIX]
        | node o2 l2 r2 =>
          have hne : precedence o2.ty ≠ PREFIX := by
            cases o2.ty <;> simp [precedence, PREFIX, LOWEST, TERNARY, ASSIGN, COND, EQUALS, CMP, LESSGREATER, SUM, PRODUCT, POWER, MOD, CALL, INDEX]
          simp only [T.lvl, T.plvl] at *
          omega)
      (by
        by_cases hb : r.lvl < PREFIX <;> simp [hb] at hd ⊢ <;> omega)
      (by omega)
    simp only [decide_eq_true_eq] at h2
    rw [h2]
    obtain ⟨h, hh⟩ : ∃ h, f' - (if r.lvl < PREFIX then 1 else r.k) = h + 1 :=
      ⟨f' - (if r.lvl < PREFIX then 1 else r.k) - 1, by split <;> omega⟩
    rw [hh, loop_stop h PREFIX _ _ (by
      simp only [PState.peek, List.tail_cons]
      have : headPrec rest ≤ PREFIX := hrest
      simp only [headPrec] at this
      omega)]
    simp only [unwind, Nat.add_sub_cancel]
    refine ⟨pv2, ?_⟩
    have hlast : lastTok (T.pre o r).pr = lastTok (parenIf (r.lvl < PREFIX) r.pr) := by
      simp only [T.pr]
      rw [lastTok_append_ne _ _ (by simpa using parenIf_ne_nil _ r)]
    rw [hlast]
    simp [T.k, T.toExpr]
  | .node o l r, hwf => by
    obtain ⟨ho, hwl, hwr⟩ := hwf
    have ihl := L_all l hwl
    have ihr := L_all r hwr
    intro p f rest prev tn fn d hp hrest hd hf
    simp only [T.lvl, T.plvl] at hp hrest
    simp only [T.size] at hf
    simp only [T.nest] at hd
    have hkl := l.k_le_size
    have hkr := r.k_le_size
    have hsl := l.size_pos
    have hsr := r.size_pos
    -- the left operand
    have e1 : (T.node o l r).pr ++ rest =
        parenIf (l.lvl < precedence o.ty) l.pr ++ (o :: (parenIf (r.lvl ≤ precedence o.ty) r.pr ++ rest)) := by
      simp [T.pr]
    rw [e1]
    obtain ⟨pv1, h1⟩ := operand_of_L l hwl ihl (decide (l.lvl < precedence o.ty)) p f
      (o :: (parenIf (r.lvl ≤ precedence o.ty) r.pr ++ rest)) prev tn fn d
      (by
        intro hb
        have : ¬ (l.lvl < precedence o.ty) := by simpa using hb
        have := l.lvl_le_plvl hwl
        refine ⟨by omega, ?_⟩
        simp only [headPrec, List.headD_cons]; omega)
      (by
        by_cases hb : l.lvl < precedence o.ty <;> simp [hb] at hd ⊢ <;> omega)
      (by omega)
    simp only [decide_eq_true_eq] at h1
    rw [h1]
    -- one turn of the loop: the operator and its right operand
    obtain ⟨g, hg⟩ : ∃ g, f - (if l.lvl < precedence o.ty then 1 else l.k) = g + 2 :=
      ⟨f - (if l.lvl < precedence o.ty then 1 else l.k) - 2, by split <;> omega⟩
    rw [hg, loop_step g p _ _ o _ pv1 tn fn (d + 1) ho hp]
    obtain ⟨pv2, h2⟩ := operand_of_L r hwr ihr (decide (r.lvl ≤ precedence o.ty)) (precedence o.ty) g rest o tn fn (d + 1)
      (by
        intro hb
        have : ¬ (r.lvl ≤ precedence o.ty) := by simpa using hb
        have := r.lvl_le_plvl hwr
        exact ⟨by omega, by omega⟩)
      (by
        by_cases hb : r.lvl ≤ precedence o.ty <;> simp [hb] at hd ⊢ <;> omega)
      (by split at hg <;> omega)
    simp only [decide_eq_true_eq] at h2
    rw [h2]
    obtain ⟨h, hh⟩ : ∃ h, g - (if r.lvl ≤ precedence o.ty then 1 else r.k) = h + 1 :=
      ⟨g - (if r.lvl ≤ precedence o.ty then 1 else r.k) - 1, by split at hg <;> split <;> omega⟩
    rw [hh, loop_stop h (precedence o.ty) _ _ (by
      simp only [PState.peek, List.tail_cons]
      have : headPrec rest ≤ precedence o.ty := hrest
      simp only [headPrec] at this
      omega)]
    simp only [unwind, Nat.add_sub_cancel]
    refine ⟨pv2, ?_⟩
    have hlast : lastTok (T.node o l r).pr = lastTok (parenIf (r.lvl ≤ precedence o.ty) r.pr) := by
      simp only [T.pr]
      rw [lastTok_append_ne _ _ (by simpa using parenIf_ne_nil _ r)]
    have hk : f - (T.node o l r).k = g + 1 := by
      simp only [T.k]
      by_cases hb : l.lvl < precedence o.ty
      · simp only [hb, ↓reduceIte] at hg ⊢; omega
      · simp only [hb, ↓reduceIte] at hg ⊢; omega
    rw [hlast, hk]
    rfl
  | .idx l i, hwf => by
    obtain ⟨hwl, hwi⟩ := hwf
    have ihl := L_all l hwl
    have ihi := L_all i hwi
    intro p f rest prev tn fn d hp hrest hd hf
    simp only [T.lvl, T.plvl] at hp hrest
    simp only [T.size] at hf
    simp only [T.nest] at hd
    have hkl := l.k_le_size
    have hki := i.k_le_size
    have hsl := l.size_pos
    have hsi := i.size_pos
    have e1 : (T.idx l i).pr ++ rest = parenIf (l.lvl < INDEX) l.pr ++ (lsT :: (i.pr ++ (rsT :: rest))) := by
      simp [T.pr]
    rw [e1]
    obtain ⟨pv1, h1⟩ := operand_of_L l hwl ihl (decide (l.lvl < INDEX)) p f
      (lsT :: (i.pr ++ (rsT :: rest))) prev tn fn d
      (by
        intro hb
        have : ¬ (l.lvl < INDEX) := by simpa using hb
        have := l.lvl_le_plvl hwl
        refine ⟨by omega, ?_⟩
        simp only [headPrec, List.headD_cons, lsT, precedence]; omega)
      (by
        by_cases hb : l.lvl < INDEX <;> simp [hb] at hd ⊢ <;> omega)
      (by omega)
    simp only [decide_eq_true_eq] at h1
    rw [h1]
    obtain ⟨g, hg⟩ : ∃ g, f - (if l.lvl < INDEX then 1 else l.k) = g + 2 :=
      ⟨f - (if l.lvl < INDEX then 1 else l.k) - 2, by split <;> omega⟩
    rw [hg, loop_index g p _ _ _ pv1 tn fn (d + 1) hp]
    obtain ⟨pv2, h2⟩ := ihi LOWEST g (rsT :: rest) lsT tn fn (d + 1) (i.plvl_pos hwi)
      (by simp [headPrec, rsT, precedence]; exact Nat.le_of_lt (i.lvl_pos hwi)) (by omega) (by split at hg <;> omega)
    rw [h2]
    obtain ⟨h, hh⟩ : ∃ h, g - i.k = h + 1 := ⟨g - i.k - 1, by split at hg <;> omega⟩
    rw [hh, loop_stop h LOWEST _ _ (by simp [PState.peek, rsT, precedence, LOWEST])]
    simp only [unwind, PState.expectPeek, PState.peekIs, PState.peek, List.tail_cons, List.headD_cons, rsT,
      beq_self_eq_true, ↓reduceIte, PState.next, PState.cur, Nat.add_sub_cancel]
    refine ⟨lastTok i.pr, ?_⟩
    have hlast : lastTok (T.idx l i).pr = ⟨.RSQUARE, [']']⟩ := by
      simp only [T.pr]
      rw [lastTok_append_ne _ _ (by simp)]; rfl
    have hk : f - (T.idx l i).k = g + 1 := by
      simp only [T.k]
      by_cases hb : l.lvl < INDEX
      · simp only [hb, ↓reduceIte] at hg ⊢; omega
      · simp only [hb, ↓reduceIte] at hg ⊢; omega
    rw [hlast, hk]
    rfl
  | .call fnT args, hwf => by
    obtain ⟨hwl, hwa⟩ := hwf
    have ihl := L_all fnT hwl
    have iha := LP_all args hwa
    intro p f rest prev tn fn d hp hrest hd hf
    simp only [T.lvl, T.plvl] at hp hrest
    simp only [T.size] at hf
    simp only [T.nest] at hd
    have hkl := fnT.k_le_size
    have hsl := fnT.size_pos
    have hsa := args.size_pos
    have e1 : (T.call fnT args).pr ++ rest = parenIf (fnT.lvl < CALL) fnT.pr ++ (lpT :: (args.pr ++ (rpT :: rest))) := by
      simp [T.pr]
    rw [e1]
    obtain ⟨pv1, h1⟩ := operand_of_L fnT hwl ihl (decide (fnT.lvl < CALL)) p f
      (lpT :: (args.pr ++ (rpT :: rest))) prev tn fn d
      (by
        intro hb
        have : ¬ (fnT.lvl < CALL) := by simpa using hb
        have := fnT.lvl_le_plvl hwl
        refine ⟨by omega, ?_⟩
        simp only [headPrec, List.headD_cons, lpT, precedence]; omega)
      (by
        by_cases hb : fnT.lvl < CALL <;> simp [hb] at hd ⊢ <;> omega)
      (by omega)
    simp only [decide_eq_true_eq] at h1
    rw [h1]
    obtain ⟨g, hg⟩ : ∃ g, f - (if fnT.lvl < CALL then 1 else fnT.k) = g + 2 :=
      ⟨f - (if fnT.lvl < CALL then 1 else fnT.k) - 2, by split <;> omega⟩
    rw [hg, loop_call g p _ _ _ pv1 tn fn (d + 1) hp]
    obtain ⟨pv2, h2⟩ := iha g rpT lpT rest (lastTok (parenIf (fnT.lvl < CALL) fnT.pr)) tn fn (d + 1)
      (by rfl) (by simp [rpT, precedence]) (by simp [rpT, prefixFn]) (by omega) (by split at hg <;> omega)
    simp only [rpT] at h2 ⊢
    rw [h2]
    refine ⟨pv2, ?_⟩
    have hlast : lastTok (T.call fnT args).pr = ⟨.RPAREN, [')']⟩ := by
      simp only [T.pr]
      rw [lastTok_append_ne _ _ (by simp)]; rfl
    have hk : f - (T.call fnT args).k = g + 1 := by
      simp only [T.k]
      by_cases hb : fnT.lvl < CALL
      · simp only [hb, ↓reduceIte] at hg ⊢; omega
      · simp only [hb, ↓reduceIte] at hg ⊢; omega
    rw [hlast, hk]
    rfl
  | .arr els, hwf => by
    have iha := LP_all els hwf
    intro p f rest prev tn fn d hp hrest hd hf
    simp only [T.size] at hf
    simp only [T.nest] at hd
    have hsa := els.size_pos
    obtain ⟨f', rfl⟩ : ∃ f', f = f' + 2 := ⟨f - 2, by omega⟩
    have e1 : (T.arr els).pr ++ rest = lsT :: (els.pr ++ (rsT :: rest)) := by simp [T.pr]
    rw [e1, parse_arr f' p _ prev tn fn d (by omega)]
    obtain ⟨pv2, h2⟩ := iha f' rsT lsT rest prev tn fn (d + 1)
      (by rfl) (by simp [rsT, precedence]) (by simp [rsT, prefixFn]) (by omega) (by omega)
    simp only [rsT] at h2 ⊢
    rw [h2]
    refine ⟨pv2, ?_⟩
    have hlast : lastTok (T.arr els).pr = ⟨.RSQUARE, [']']⟩ := by
      simp only [T.pr]
      rw [lastTok_append_ne _ _ (by simp)]; rfl
    rw [hlast]
    simp [T.k, T.toExpr]

theorem LL_all : ∀ (ts : TL), ts.wf → LLstmt ts
  | .nil, _ => by
    intro f endTok c rest prev tn fn d acc hnc _ _ hf
    simp only [TL.size] at hf
    obtain ⟨f', rfl⟩ : ∃ f', f = f' + 1 := ⟨f - 1, by omega⟩
    refine ⟨c, ?_⟩
    simp [TL.prRest, TL.toExprs, parseExprListLoop, PState.peekIs, PState.peek, hnc, PState.expectPeek, PState.next,
      PState.cur]
  | .cons t r, hwf => by
    obtain ⟨hwt, hwr⟩ := hwf
    have iht := L_all t hwt
    have ihr := LL_all r hwr
    intro f endTok c rest prev tn fn d acc hnc hpe hd hf
    simp only [TL.size] at hf
    simp only [TL.nest] at hd
    have hst := t.size_pos
    have hkt := t.k_le_size
    obtain ⟨f', rfl⟩ : ∃ f', f = f' + 1 := ⟨f - 1, by omega⟩
    have e1 : (TL.cons t r).prRest ++ endTok :: rest = commaT :: (t.pr ++ (r.prRest ++ endTok :: rest)) := by
      simp [TL.prRest]
    rw [e1]
    have hhead : headPrec (r.prRest ++ endTok :: rest) ≤ t.lvl := by
      have hl := t.lvl_pos hwt
      cases r with
      | nil => simp only [TL.prRest, List.nil_append, headPrec, List.headD_cons, hpe]; exact Nat.le_of_lt hl
      | cons t2 r2 => simp only [TL.prRest, headPrec, List.cons_append, List.nil_append, List.headD_cons, commaT, precedence]; exact Nat.le_of_lt hl
    obtain ⟨pv, hin⟩ := iht LOWEST f' (r.prRest ++ endTok :: rest) commaT tn fn d (t.plvl_pos hwt) hhead (by omega) (by omega)
    have hpeekstop : ¬ (LOWEST < precedence (PState.peek ⟨lastTok t.pr :: (r.prRest ++ endTok :: rest), pv, tn, fn, d + 1⟩).ty) := by
      cases r with
      | nil => simp [TL.prRest, PState.peek, hpe]
      | cons t2 r2 => simp [TL.prRest, PState.peek, commaT, precedence]
    obtain ⟨g, hg⟩ : ∃ g, f' - t.k = g + 1 := ⟨f' - t.k - 1, by omega⟩
    obtain ⟨pv3, h3⟩ := ihr f' endTok (lastTok t.pr) rest pv tn fn d (acc ++ [t.toExpr]) hnc hpe (by omega) (by omega)
    refine ⟨pv3, ?_⟩
    simp only [parseExprListLoop, PState.peekIs, PState.peek, List.tail_cons, List.headD_cons, commaT, beq_self_eq_true,
      ↓reduceIte, PState.next, PState.cur]
    have hin' : parseExpression f' LOWEST ⟨t.pr ++ (r.prRest ++ endTok :: rest), ⟨.COMMA, [',']⟩, tn, fn, d⟩ = _ := hin
    rw [hin', hg, loop_stop g LOWEST _ _ hpeekstop]
    simp only [unwind, Nat.add_sub_cancel]
    rw [h3]
    simp [TL.toExprs]

theorem LP_all : ∀ (ts : TL), ts.wf → LPstmt ts
  | .nil, _ => by
    intro f endTok c rest prev tn fn d _ _ _ _ hf
    obtain ⟨f', rfl⟩ : ∃ f', f = f' + 1 := ⟨f - 1, by omega⟩
    refine ⟨c, ?_⟩
    simp [TL.pr, TL.toExprs, parseExprList, PState.peekIs, PState.peek, PState.next, PState.cur]
  | .cons t r, hwf => by
    obtain ⟨hwt, hwr⟩ := hwf
    have iht := L_all t hwt
    have ihr := LL_all r hwr
    intro f endTok c rest prev tn fn d hnc hpe hpf hd hf
    simp only [TL.size] at hf
    simp only [TL.nest] at hd
    have hst := t.size_pos
    have hkt := t.k_le_size
    obtain ⟨f', rfl⟩ : ∃ f', f = f' + 1 := ⟨f - 1, by omega⟩
    have e1 : (TL.cons t r).pr ++ endTok :: rest = t.pr ++ (r.prRest ++ endTok :: rest) := by simp [TL.pr]
    rw [e1]
    obtain ⟨tl, htl⟩ := t.pr_head
    have hne : (t.headTok.ty == endTok.ty) = false := by
      have := t.head_prefix hwt
      cases h : (t.headTok.ty == endTok.ty)
      · rfl
      · rw [beq_iff_eq] at h; rw [h] at this; exact absurd hpf this
    have hhead : headPrec (r.prRest ++ endTok :: rest) ≤ t.lvl := by
      have hl := t.lvl_pos hwt
      cases r with
      | nil => simp only [TL.prRest, List.nil_append, headPrec, List.headD_cons, hpe]; exact Nat.le_of_lt hl
      | cons t2 r2 => simp only [TL.prRest, headPrec, List.cons_append, List.nil_append, List.headD_cons, commaT, precedence]; exact Nat.le_of_lt hl
    obtain ⟨pv, hin⟩ := iht LOWEST f' (r.prRest ++ endTok :: rest) c tn fn d (t.plvl_pos hwt) hhead (by omega) (by omega)
    have hpeekstop : ¬ (LOWEST < precedence (PState.peek ⟨lastTok t.pr :: (r.prRest ++ endTok :: rest), pv, tn, fn, d + 1⟩).ty) := by
      cases r with
      | nil => simp [TL.prRest, PState.peek, hpe]
      | cons t2 r2 => simp [TL.prRest, PState.peek, commaT, precedence]
    obtain ⟨g, hg⟩ : ∃ g, f' - t.k = g + 1 := ⟨f' - t.k - 1, by omega⟩
    obtain ⟨pv3, h3⟩ := ihr f' endTok (lastTok t.pr) rest pv tn fn d [t.toExpr] hnc hpe (by omega) (by omega)
    refine ⟨pv3, ?_⟩
    have hpk : (PState.peekIs ⟨c :: (t.pr ++ (r.prRest ++ endTok :: rest)), prev, tn, fn, d⟩ endTok.ty) = false := by
      simp [PState.peekIs, PState.peek, htl, hne]
    simp only [parseExprList, hpk, Bool.false_eq_true, ↓reduceIte, PState.next, PState.cur, List.tail_cons, List.headD_cons]
    rw [hin, hg, loop_stop g LOWEST _ _ hpeekstop]
    simp only [unwind, Nat.add_sub_cancel]
    rw [h3]
    simp [TL.toExprs]
end


theorem parenIf_len (b : Bool) (ts : List Token) : ts.length ≤ (parenIf b ts).length := by
  unfold parenIf; split <;> simp <;> omega

mutual
theorem T.size_le_pr : ∀ (t : T), t.size ≤ 4 * t.pr.length
  | .leaf tok e => by simp [T.size, T.pr]
  | .pre o r => by
    have := T.size_le_pr r
    have h2 := parenIf_len (r.lvl < PREFIX) r.pr
    simp only [T.size, T.pr, List.length_append, List.length_cons, List.length_nil]
    omega
  | .node o l r => by
    have := T.size_le_pr l
    have := T.size_le_pr r
    have h1 := parenIf_len (l.lvl < precedence o.ty) l.pr
    have h2 := parenIf_len (r.lvl ≤ precedence o.ty) r.pr
    simp only [T.size, T.pr, List.length_append, List.length_cons, List.length_nil]
    omega
  | .idx l i => by
    have := T.size_le_pr l
    have := T.size_le_pr i
    have h1 := parenIf_len (l.lvl < INDEX) l.pr
    simp only [T.size, T.pr, List.length_append, List.length_cons, List.length_nil]
    omega
  | .call fn args => by
    have := T.size_le_pr fn
    have := TL.size_le_pr args
    have h1 := parenIf_len (fn.lvl < CALL) fn.pr
    simp only [T.size, T.pr, List.length_append, List.length_cons, List.length_nil]
    omega
  | .arr els => by
    have := TL.size_le_pr els
    simp only [T.size, T.pr, List.length_append, List.length_cons, List.length_nil]
    omega
theorem TL.size_le_pr : ∀ (ts : TL), ts.size ≤ 4 * ts.pr.length + 3
  | .nil => by simp [TL.size, TL.pr]
  | .cons t r => by
    have := T.size_le_pr t
    have := TL.size_le_prRest r
    simp only [TL.size, TL.pr, List.length_append]
    omega
theorem TL.size_le_prRest : ∀ (ts : TL), ts.size ≤ 4 * ts.prRest.length + 1
  | .nil => by simp [TL.size, TL.prRest]
  | .cons t r => by
    have := T.size_le_pr t
    have := TL.size_le_prRest r
    simp only [TL.size, TL.prRest, List.length_append, List.length_cons, List.length_nil]
    omega
end

def retTok : Token := ⟨.RETURN, ['r', 'e', 't', 'u', 'r', 'n']⟩
def semiTok : Token := ⟨.SEMICOLON, [';']⟩

/-- **The parser reads back what the printer prints.**  For every operator tree over atoms, prefix
    operators, binary operators, index expressions, calls and array literals - of any size and shape -
    printed with exactly the parentheses the documented levels and left-to-right grouping make necessary,
    `return <text>;` parses to that very tree. -/
theorem pratt_round_trip (t : T) (hwf : t.wf) (hn : t.nest ≤ maxNesting) :
    parse (retTok :: t.pr ++ [semiTok, Token.eof]) = some [.ret t.toExpr] := by
  have hsz := t.size_le_pr
  have hk := t.k_le_size
  have hkp := t.k_pos
  have hsp := t.size_pos
  unfold parse
  generalize hF : fuelFor (retTok :: t.pr ++ [semiTok, Token.eof]) = F
  have hFv : F = 16 * (t.pr.length + 7) := by
    rw [← hF]; simp [fuelFor]
  obtain ⟨F', rfl⟩ : ∃ F', F = F' + 2 := ⟨F - 2, by omega⟩
  have hlen : (retTok :: t.pr ++ [semiTok, Token.eof]).length + 2 = (t.pr.length + 3) + 2 := by simp
  rw [hlen]
  obtain ⟨pv, hL⟩ := L_all t hwf LOWEST (F' + 1) [semiTok, Token.eof] retTok false false 0
    (t.plvl_pos hwf) (by simp [headPrec, semiTok, precedence]; exact Nat.le_of_lt (t.lvl_pos hwf)) (by omega) (by omega)
  obtain ⟨h, hh⟩ : ∃ h, F' + 1 - t.k = h + 1 := ⟨F' + 1 - t.k - 1, by omega⟩
  rw [hh, loop_stop h LOWEST _ _ (by simp [PState.peek, semiTok, precedence, LOWEST])] at hL
  simp only [parseProgramLoop, PState.curIs, PState.cur, retTok, List.headD_cons, List.cons_append,
    beq_iff_eq, reduceCtorEq, ↓reduceIte, parseStatement, beq_self_eq_true, PState.next, List.tail_cons]
  have hL' : parseExpression (F' + 1) LOWEST
      ⟨t.pr ++ [semiTok, Token.eof], ⟨.RETURN, ['r', 'e', 't', 'u', 'r', 'n']⟩, false, false, 0⟩ = _ := hL
  rw [hL']
  simp [unwind, PState.curIs, PState.cur, PState.next, semiTok, parseProgramLoop, Token.eof]

end EvalFilter.Parser
