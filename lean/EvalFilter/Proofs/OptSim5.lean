import EvalFilter.Proofs.OptSim4
import EvalFilter.Proofs.ExprCorrect
import EvalFilter.Model.OptCheck
set_option linter.unusedSimpArgs false
set_option linter.unusedVariables false
namespace EvalFilter.OptSim
open EvalFilter EvalFilter.VM EvalFilter.OptCheck

/-! ### single turns of the loop -/
section turns
variable {M : Machine} {obj : HostVal} {c : Bytes} (hnd : NeverDone M)
include hnd

theorem turn_nop {ip : Nat} (h : Fetch c ip ⟨.nop, 0⟩) (stk : List Value) (st : RunSt) (f : Nat) :
    loop M obj c (f + 1) ip stk st = loop M obj c f (ip + 1) stk { st with polls := st.polls + 1 } := by
  rw [loop_fetch M obj h f stk st (hnd _)]
  have : Op.ofNat? Op.nop.toNat = some .nop := rfl
  simp only [step, this, isBinary]; simp [Op.length]

theorem turn_push {ip n : Nat} (h : Fetch c ip ⟨.push, n⟩) (stk : List Value) (st : RunSt) (f : Nat) :
    loop M obj c (f + 1) ip stk st =
      loop M obj c f (ip + 3) (.int (Int64.ofNat n) :: stk) { st with polls := st.polls + 1 } := by
  rw [loop_fetch M obj h f stk st (hnd _), Exec.step_push]; rfl

theorem turn_true {ip : Nat} (h : Fetch c ip ⟨.true, 0⟩) (stk : List Value) (st : RunSt) (f : Nat) :
    loop M obj c (f + 1) ip stk st = loop M obj c f (ip + 1) (.bool true :: stk) { st with polls := st.polls + 1 } := by
  rw [loop_fetch M obj h f stk st (hnd _), Exec.step_true]; rfl

theorem turn_false {ip : Nat} (h : Fetch c ip ⟨.false, 0⟩) (stk : List Value) (st : RunSt) (f : Nat) :
    loop M obj c (f + 1) ip stk st = loop M obj c f (ip + 1) (.bool false :: stk) { st with polls := st.polls + 1 } := by
  rw [loop_fetch M obj h f stk st (hnd _), Exec.step_false]; rfl

theorem turn_binop {ip : Nat} {o : Op} (h : Fetch c ip ⟨o, 0⟩) (ho : isBinary o = true) (l r v : Value)
    (hb : binop M o l r = .ok (v, [])) (stk : List Value) (st : RunSt) (f : Nat) :
    loop M obj c (f + 1) ip (r :: l :: stk) st = loop M obj c f (ip + 1) (v :: stk) { st with polls := st.polls + 1 } := by
  have hl : o.length = 1 := by cases o <;> simp [isBinary] at ho <;> rfl
  rw [loop_fetch M obj h f _ st (hnd _), Exec.step_binary_ok _ _ _ _ _ _ _ o ho _ _ _ _ _ hb]
  simp [hl]

theorem turn_jif {ip x : Nat} (h : Fetch c ip ⟨.jumpIfFalse, x⟩) (v : Value) (hx : v.truthy = true ∨ x < c.length)
    (stk : List Value) (st : RunSt) (f : Nat) :
    loop M obj c (f + 1) ip (v :: stk) st =
      loop M obj c f (if v.truthy then ip + 3 else x) stk { st with polls := st.polls + 1 } := by
  rw [loop_fetch M obj h f _ st (hnd _)]
  have : Op.ofNat? Op.jumpIfFalse.toNat = some .jumpIfFalse := rfl
  simp only [step, this, isBinary]
  by_cases hv : v.truthy = true
  · simp [hv, Op.length]
  · have hx' : x < c.length := by rcases hx with h | h; exact absurd h hv; exact h
    have : ¬ x ≥ c.length := by omega
    simp [hv, this]

/-- a run of NOPs -/
theorem steps_nops (n : Nat) : ∀ (a : Nat), (∀ o, a ≤ o → o < a + n → Fetch c o ⟨.nop, 0⟩) →
    ∀ (stk : List Value) (st : RunSt),
      Steps M obj c n (a, stk, st) (a + n, stk, { st with polls := st.polls + n }) := by
  induction n with
  | zero => intro a _ stk st; exact .zero _
  | succ n ih =>
    intro a h stk st
    have h1 := ih (a + 1) (fun o h1 h2 => h o (by omega) (by omega)) stk { st with polls := st.polls + 1 }
    have e : a + 1 + n = a + (n + 1) := by omega
    have e2 : ({ st with polls := st.polls + 1 + n } : RunSt) = { st with polls := st.polls + (n + 1) } := by
      simp [Nat.add_assoc, Nat.add_comm 1 n]
    simp only at h1
    rw [e, e2] at h1
    exact .succ (fun f => turn_nop hnd (h a (Nat.le_refl _) (by omega)) stk st f) h1

end turns

/-! ### what the boolean checks say -/

theorem mem_of_contains {I : IL} {p : Nat × Instr} (h : I.contains p = true) : p ∈ I := by
  simpa using h

theorem nops_of_nopsB {I : IL} {a b : Nat} (h : nopsB I a b = true) : ∀ o, a ≤ o → o < b → (o, (⟨.nop, 0⟩ : Instr)) ∈ I := by
  intro o h1 h2
  unfold nopsB at h
  rw [List.all_eq_true] at h
  have := h o (by rw [List.mem_range']; exact ⟨o - a, by omega, by omega⟩)
  exact mem_of_contains this

end EvalFilter.OptSim

namespace EvalFilter.OptSim
open EvalFilter EvalFilter.VM EvalFilter.OptCheck

/-- the correspondence of instruction pointers for a rewrite that keeps offsets: the same offset on both
    sides, at a safe place -/
def RW (I : IL) (len lo hi : Nat) (a b : Nat) : Prop := a = b ∧ safeB I len lo hi a = true

theorem safeB_spec {I : IL} {len lo hi x : Nat} (h : safeB I len lo hi x = true) :
    (x = len ∨ ∃ i, (x, i) ∈ I) ∧ ¬ (lo < x ∧ x < hi) := by
  unfold safeB at h
  simp only [Bool.and_eq_true, Bool.or_eq_true, beq_iff_eq, Bool.not_eq_true', Bool.and_eq_false_iff,
    decide_eq_false_iff_not, decide_eq_true_eq] at h
  refine ⟨?_, by omega⟩
  rcases h.1 with h1 | h1
  · left; exact h1
  · right
    have : x ∈ offs I := by simpa using h1
    unfold offs at this
    rw [List.mem_map] at this
    obtain ⟨p, hp, rfl⟩ := this
    exact ⟨p.2, hp⟩

/-- **From the checks to the correspondence.**  Two bodies of the same length that decode, agree on every
    instruction outside `[lo, hi)` with all fall-throughs and jump targets at safe places, and whose
    windows at `lo` are crossed with the same effect, correspond point by point. -/
theorem bodySim_of_checks {M M' : Machine} {obj : HostVal} {c c' : Bytes} {I I' : IL} {lo hi : Nat}
    (hd : WF.decode 0 c = some I) (hd' : WF.decode 0 c' = some I') (hlen : c'.length = c.length)
    (hout : outsideB I I' c.length lo hi = true) (h0 : safeB I c.length lo hi 0 = true)
    (hwin : ∀ i, (lo, i) ∈ I → lo < hi → ∀ stack st st', StEq false st st' → ∃ k k' e stack1 st1 st1', 0 < k ∧
         Steps M obj c k (lo, stack, st) (e, stack1, st1) ∧ Steps M' obj c' k' (lo, stack, st') (e, stack1, st1') ∧
         safeB I c.length lo hi e = true ∧ StEq false st1 st1' ∧ 0 < k') :
    BodySim M M' obj c c' (RW I c.length lo hi) := by
  refine ⟨⟨rfl, h0⟩, ?_, ?_⟩
  · cases c <;> cases c' <;> simp_all
  · intro ip ip' ⟨hip, hs⟩
    subst hip
    obtain ⟨hwhere, hnot⟩ := safeB_spec hs
    rcases hwhere with he | ⟨i, hmi⟩
    · left; exact ⟨by omega, by omega⟩
    · by_cases hin : lo ≤ ip ∧ ip < hi
      · have : ip = lo := by omega
        subst this
        right; right
        intro stack st st' hst
        obtain ⟨k, k', e, stack1, st1, st1', hk, h1, h2, h3, h4, h5⟩ := hwin i hmi hin.2 stack st st' hst
        exact ⟨k, k', e, e, stack1, st1, st1', hk, h1, h2, ⟨rfl, h3⟩, h4, Or.inl h5⟩
      · right; left
        unfold outsideB at hout
        rw [List.all_eq_true] at hout
        have h := hout (ip, i) hmi
        simp only [Bool.or_eq_true, Bool.and_eq_true, decide_eq_true_eq, beq_iff_eq, bne_iff_ne, ne_eq] at h
        rcases h with h | ⟨⟨hmem, hnext⟩, hjmp⟩
        · exact absurd h hin
        · have hmem' : (ip, i) ∈ I' := mem_of_contains hmem
          refine ⟨i, i, fetch_of_decode hd hmi, fetch_of_decode hd' hmem', rfl, ?_⟩
          by_cases hj : i.op = .jump
          · left
            rcases hjmp with ⟨h1, _⟩ | ⟨h1, h2⟩
            · exact absurd hj h1
            · exact ⟨hj, h1, by omega, rfl, h2⟩
          · by_cases hjf : i.op = .jumpIfFalse
            · right; left
              have hl : i.size = 3 := by simp [Instr.size, hjf, Op.length]
              rcases hjmp with ⟨_, h1⟩ | ⟨h1, h2⟩
              · exact absurd hjf h1
              · rcases hnext with (hr | hr) | hr
                · rw [hjf] at hr; cases hr
                · rw [hjf] at hr; cases hr
                · exact ⟨hjf, h1, by omega, ⟨rfl, h2⟩, ⟨rfl, by rw [hl] at hr; exact hr⟩⟩
            · right; right
              rcases hnext with (hr | hr) | hr
              · left; exact ⟨hr, rfl⟩
              · exact absurd hr hj
              · right; exact ⟨hj, hjf, rfl, rfl, hr⟩

/-- an unchanged, well-formed body corresponds to itself -/
theorem bodySim_id {M M' : Machine} {obj : HostVal} {c : Bytes} (h : wfB c = true) :
    ∃ R, BodySim M M' obj c c R := by
  unfold wfB at h
  cases hd : WF.decode 0 c with
  | none => simp [hd] at h
  | some I =>
    simp only [hd, Bool.and_eq_true] at h
    refine ⟨_, bodySim_of_checks (lo := c.length) (hi := c.length) hd hd rfl h.1 h.2 ?_⟩
    intro i hi hlt
    omega

end EvalFilter.OptSim
