/-
  `Str.lt` (Go's `<` on strings, i.e. lexicographic order on code points) is a strict total order.
-/
import EvalFilter.Model.Basic

namespace EvalFilter.Str

theorem lt_irrefl (a : Str) : lt a a = false := by
  induction a with
  | nil => rfl
  | cons c cs ih => simp [lt, ih]

theorem lt_asymm : ∀ (a b : Str), lt a b = true → lt b a = false := by
  intro a
  induction a with
  | nil => intro b _; cases b <;> rfl
  | cons c cs ih =>
    intro b h
    cases b with
    | nil => simp [lt] at h
    | cons d ds =>
      simp only [lt] at h ⊢
      by_cases h1 : c.toNat < d.toNat
      · have : ¬ d.toNat < c.toNat := by omega
        simp [this, h1]
      · by_cases h2 : d.toNat < c.toNat
        · simp [h1, h2] at h
        · simp only [h1, h2, ↓reduceIte] at h ⊢
          exact ih ds h

theorem lt_trans : ∀ (a b c : Str), lt a b = true → lt b c = true → lt a c = true := by
  intro a
  induction a with
  | nil =>
    intro b c h1 h2
    cases b with
    | nil => simp [lt] at h1
    | cons _ _ => cases c with
      | nil => simp [lt] at h2
      | cons _ _ => rfl
  | cons x xs ih =>
    intro b c h1 h2
    cases b with
    | nil => simp [lt] at h1
    | cons y ys =>
      cases c with
      | nil => simp [lt] at h2
      | cons z zs =>
        simp only [lt] at h1 h2 ⊢
        by_cases hxy : x.toNat < y.toNat
        · by_cases hyz : y.toNat < z.toNat
          · have : x.toNat < z.toNat := by omega
            simp [this]
          · by_cases hzy : z.toNat < y.toNat
            · simp [hyz, hzy] at h2
            · have : x.toNat < z.toNat := by omega
              simp [this]
        · by_cases hyx : y.toNat < x.toNat
          · simp [hxy, hyx] at h1
          · simp only [hxy, hyx, ↓reduceIte] at h1
            by_cases hyz : y.toNat < z.toNat
            · have : x.toNat < z.toNat := by omega
              simp [this]
            · by_cases hzy : z.toNat < y.toNat
              · simp [hyz, hzy] at h2
              · simp only [hyz, hzy, ↓reduceIte] at h2
                have e1 : ¬ x.toNat < z.toNat := by omega
                have e2 : ¬ z.toNat < x.toNat := by omega
                simp only [e1, e2, ↓reduceIte]
                exact ih ys zs h1 h2

theorem lt_total (a b : Str) : lt a b = true ∨ lt b a = true ∨ a = b := by
  induction a generalizing b with
  | nil => cases b <;> simp [lt]
  | cons c cs ih =>
    cases b with
    | nil => simp [lt]
    | cons d ds =>
      simp only [lt]
      by_cases h1 : c.toNat < d.toNat
      · simp [h1]
      · by_cases h2 : d.toNat < c.toNat
        · simp [h1, h2]
        · have hcd : c = d := Char.toNat_inj.mp (by omega)
          subst hcd
          simp [h1]
          exact ih ds

/-- neither smaller nor larger means equal -/
theorem eq_of_not_lt (a b : Str) (h1 : lt a b = false) (h2 : lt b a = false) : a = b := by
  rcases lt_total a b with h | h | h
  · rw [h] at h1; cases h1
  · rw [h] at h2; cases h2
  · exact h

end EvalFilter.Str
