import EvalFilter.Proofs.OptSim7
set_option linter.unusedSimpArgs false
set_option linter.unusedVariables false
namespace EvalFilter.OptSim
open EvalFilter EvalFilter.VM EvalFilter.OptCheck

/-- consecutive stages are validated rewrites -/
def ValidChain : Bytes → List Bytes → Prop
  | _, [] => True
  | b, x :: r => okStep b x = true ∧ ValidChain x r

theorem lastOf_nil (b : Bytes) : lastOf b [] = b := rfl
theorem lastOf_cons (b x : Bytes) (r : List Bytes) : lastOf b (x :: r) = lastOf x r := by
  simp [lastOf, List.getLast_cons]

theorem lastOf_append (b : Bytes) : ∀ (L1 L2 : List Bytes), lastOf b (L1 ++ L2) = lastOf (lastOf b L1) L2
  | [], L2 => rfl
  | x :: r, L2 => by rw [List.cons_append, lastOf_cons, lastOf_cons, lastOf_append x r L2]

theorem ValidChain.append : ∀ {b : Bytes} {L1 L2 : List Bytes}, ValidChain b L1 → ValidChain (lastOf b L1) L2 →
    ValidChain b (L1 ++ L2)
  | _, [], _, _, h2 => h2
  | b, x :: r, L2, h1, h2 => ⟨h1.1, ValidChain.append h1.2 (by rwa [lastOf_cons] at h2)⟩

theorem mathsTrace_spec : ∀ (f : Nat) (b : Bytes) (L : List Bytes), mathsTrace f b = some L →
    ValidChain b L ∧ lastOf b L = Optimizer.mathsLoop f b
  | 0, b, L, h => by simp [mathsTrace] at h; subst h; exact ⟨trivial, rfl⟩
  | f + 1, b, L, h => by
    simp only [mathsTrace] at h
    simp only [Optimizer.mathsLoop]
    cases hw : Optimizer.mathsWalk (b.length + 1) b 0 [] with
    | unchanged => simp [hw] at h; subst h; exact ⟨trivial, rfl⟩
    | error => simp [hw] at h; subst h; exact ⟨trivial, rfl⟩
    | changed b' =>
      simp only [hw] at h ⊢
      by_cases hv : validStep b b' = true
      · simp only [hv, ↓reduceIte, Option.map_eq_some_iff] at h
        obtain ⟨L', hL', rfl⟩ := h
        obtain ⟨h1, h2⟩ := mathsTrace_spec f b' L' hL'
        exact ⟨⟨by simp [okStep, hv], h1⟩, by rw [lastOf_cons, h2]⟩
      · simp [hv] at h

theorem jumpsTrace_spec : ∀ (f : Nat) (b : Bytes) (L : List Bytes), jumpsTrace f b = some L →
    ValidChain b L ∧ lastOf b L = Optimizer.jumpsLoop f b
  | 0, b, L, h => by simp [jumpsTrace] at h; subst h; exact ⟨trivial, rfl⟩
  | f + 1, b, L, h => by
    simp only [jumpsTrace] at h
    simp only [Optimizer.jumpsLoop]
    cases hw : Optimizer.jumpsWalk (b.length + 1) b 0 Op.nop.toNat with
    | none => simp [hw] at h; subst h; exact ⟨trivial, rfl⟩
    | some b' =>
      simp only [hw] at h ⊢
      by_cases hv : validStep b b' = true
      · simp only [hv, ↓reduceIte, Option.map_eq_some_iff] at h
        obtain ⟨L', hL', rfl⟩ := h
        obtain ⟨h1, h2⟩ := jumpsTrace_spec f b' L' hL'
        exact ⟨⟨by simp [okStep, hv], h1⟩, by rw [lastOf_cons, h2]⟩
      · simp [hv] at h

/-- the two rewriting passes of `optimize` -/
def rewritten (b : Bytes) : Bytes :=
  let b1 := Optimizer.mathsLoop (b.length + 1) b
  Optimizer.jumpsLoop (b1.length + 1) b1

theorem rewriteTrace_spec (b : Bytes) (L : List Bytes) (h : rewriteTrace b = some L) :
    ValidChain b L ∧ wfB (lastOf b L) = true ∧ lastOf b L = rewritten b := by
  unfold rewriteTrace at h
  by_cases hwf : wfB b = true
  · simp only [hwf, ↓reduceIte] at h
    cases h1 : mathsTrace (b.length + 1) b with
    | none => simp [h1] at h
    | some L1 =>
      simp only [h1] at h
      obtain ⟨c1, e1⟩ := mathsTrace_spec _ b L1 h1
      cases h2 : jumpsTrace ((lastOf b L1).length + 1) (lastOf b L1) with
      | none => simp [h2] at h
      | some L2 =>
        simp only [h2] at h
        obtain ⟨c2, e2⟩ := jumpsTrace_spec _ _ L2 h2
        by_cases hw2 : wfB (lastOf (lastOf b L1) L2) = true
        · simp only [hw2, ↓reduceIte, Option.some.injEq] at h
          subst h
          refine ⟨c1.append c2, by rw [lastOf_append]; exact hw2, ?_⟩
          rw [lastOf_append, e2, e1]; rfl
        · simp [hw2] at h
  · simp [hwf] at h

theorem ValidChain.snoc_opt {b : Bytes} {L : List Bytes} (h : ValidChain b L) (x : Bytes)
    (hx : x = lastOf b L ∨ okStep (lastOf b L) x = true) :
    ValidChain b (L ++ (if x = lastOf b L then [] else [x])) ∧
      lastOf b (L ++ (if x = lastOf b L then [] else [x])) = x := by
  by_cases he : x = lastOf b L
  · rw [if_pos he, List.append_nil]
    exact ⟨h, he.symm⟩
  · rw [if_neg he]
    rcases hx with hx | hx
    · exact absurd hx he
    · refine ⟨h.append ⟨hx, trivial⟩, ?_⟩
      rw [lastOf_append, lastOf_cons, lastOf_nil]

theorem fullTrace_spec (b : Bytes) (L : List Bytes) (h : fullTrace b = some L) :
    ValidChain b L ∧ wfB (lastOf b L) = true ∧ lastOf b L = Optimizer.optimize b := by
  unfold fullTrace at h
  cases hr : rewriteTrace b with
  | none => simp [hr] at h
  | some L0 =>
    obtain ⟨c0, _, e0⟩ := rewriteTrace_spec b L0 hr
    simp only [hr] at h
    split at h
    · rename_i hc
      simp only [Bool.and_eq_true, Bool.or_eq_true, decide_eq_true_eq] at hc
      obtain ⟨⟨h3, h4⟩, hw⟩ := hc
      cases h
      have s3 := c0.snoc_opt (Optimizer.removeNOPs (lastOf b L0))
        (by rcases h3 with h | h; exact Or.inl h; exact Or.inr (by simp [okStep, h]))
      have s4 := s3.1.snoc_opt (Optimizer.removeDeadCode (Optimizer.removeNOPs (lastOf b L0)))
        (by rw [s3.2]; rcases h4 with h | h; exact Or.inl h; exact Or.inr (by simp [okStep, h]))
      rw [s3.2] at s4
      refine ⟨s4.1, by rw [s4.2]; exact hw, ?_⟩
      rw [s4.2, e0]
      rfl
    · cases h

theorem stageAt_zero (L : List Bytes) (b : Bytes) : stageAt L b 0 = b := by cases L <;> rfl
theorem stageAt_succ (x : Bytes) (r : List Bytes) (b : Bytes) (t : Nat) : stageAt (x :: r) b (t + 1) = stageAt r x t := rfl

theorem stage_step : ∀ (L : List Bytes) (b : Bytes), ValidChain b L → wfB (lastOf b L) = true →
    ∀ t, Step1 (stageAt L b t) (stageAt L b (t + 1))
  | [], b, _, hw, t => by
    cases t <;> exact Or.inl ⟨rfl, hw⟩
  | x :: r, b, hc, hw, 0 => by
    rw [stageAt_zero, stageAt_succ, stageAt_zero]
    exact Or.inr hc.1
  | x :: r, b, hc, hw, t + 1 => by
    rw [stageAt_succ, stageAt_succ]
    exact stage_step r x hc.2 (by rwa [lastOf_cons] at hw) t

theorem stageAt_last : ∀ (L : List Bytes) (b : Bytes) (t : Nat), L.length ≤ t → stageAt L b t = lastOf b L
  | [], b, t, _ => by cases t <;> rfl
  | x :: r, b, 0, h => by simp at h
  | x :: r, b, t + 1, h => by
    rw [stageAt_succ, lastOf_cons]
    exact stageAt_last r x t (by simpa using h)

/-- the stage function of a whole machine: every body follows its own validated trace -/
def stageFn (b : Bytes) (t : Nat) : Bytes :=
  match fullTrace b with
  | some L => stageAt L b t
  | none => b

def traceLen (b : Bytes) : Nat := match fullTrace b with | some L => L.length | none => 0

theorem stageFn_zero (b : Bytes) : stageFn b 0 = b := by
  unfold stageFn; cases fullTrace b <;> simp [stageAt_zero]

theorem stageFn_step (b : Bytes) (h : (fullTrace b).isSome = true) (t : Nat) : Step1 (stageFn b t) (stageFn b (t + 1)) := by
  unfold stageFn
  cases hr : fullTrace b with
  | none => simp [hr] at h
  | some L =>
    obtain ⟨hc, hw, _⟩ := fullTrace_spec b L hr
    exact stage_step L b hc hw t

theorem stageFn_last (b : Bytes) (h : (fullTrace b).isSome = true) (t : Nat) (ht : traceLen b ≤ t) :
    stageFn b t = Optimizer.optimize b := by
  unfold stageFn traceLen at *
  cases hr : fullTrace b with
  | none => simp [hr] at h
  | some L =>
    simp only [hr] at ht ⊢
    obtain ⟨_, _, e⟩ := fullTrace_spec b L hr
    rw [stageAt_last L b t ht, e]

theorem le_foldr_max {l : List Nat} {x : Nat} (h : x ∈ l) : x ≤ l.foldr max 0 := by
  induction l with
  | nil => cases h
  | cons y l ih =>
    simp only [List.foldr_cons]
    rcases List.mem_cons.mp h with rfl | h
    · exact Nat.le_max_left _ _
    · exact Nat.le_trans (ih h) (Nat.le_max_right _ _)

/-- the machine `vm.New` builds when it optimises: every body run through `optimize` -/
def optMachine (M : Machine) : Machine :=
  { M with main := Optimizer.optimize M.main, funcs := M.funcs.map (fun u => { u with code := Optimizer.optimize u.code }) }

/-- **The optimizer preserves every finished run**, for every machine all of whose bodies' optimisation
    steps validate: the maths pass, the jump pass, NOP removal and dead-code removal - any number of
    steps, in the main program and in every function body, at any call depth - cannot be observed by a
    run that ends: the optimised machine ends with the same result (value, error or panic), the same
    output (host-call markers included) and the same variables. -/
theorem optimize_refines (M : Machine) (obj : HostVal) (hnd : NeverDone M)
    (hmain : (fullTrace M.main).isSome = true)
    (hfuncs : ∀ u, u ∈ M.funcs → (fullTrace u.code).isSome = true) :
    Refines M (optMachine M) obj := by
  let T := ((M.main :: M.funcs.map (·.code)).map traceLen).foldr max 0
  have hS : ∀ b, (b = M.main ∨ ∃ u, u ∈ M.funcs ∧ u.code = b) → ∀ t, Step1 (stageFn b t) (stageFn b (t + 1)) := by
    intro b hb t
    rcases hb with rfl | ⟨u, hu, rfl⟩
    · exact stageFn_step _ hmain t
    · exact stageFn_step _ (hfuncs u hu) t
  have h := atStage_refines M obj stageFn hnd hS T
  have e0 : atStage M stageFn 0 = M := by
    unfold atStage
    simp only [stageFn_zero]
    cases M; simp
  have eT : atStage M stageFn (T + 1) = optMachine M := by
    unfold atStage optMachine
    have h1 : stageFn M.main (T + 1) = Optimizer.optimize M.main :=
      stageFn_last _ hmain _ (Nat.le_succ_of_le (le_foldr_max (by simp)))
    rw [h1]
    congr 1
    apply List.map_congr_left
    intro u hu
    have : stageFn u.code (T + 1) = Optimizer.optimize u.code :=
      stageFn_last _ (hfuncs u hu) _ (Nat.le_succ_of_le (le_foldr_max (by
        simp only [List.map_cons, List.map_map, List.mem_cons, List.mem_map, Function.comp]
        exact Or.inr ⟨u, hu, rfl⟩)))
    rw [this]
  rw [e0, eT] at h
  exact h

/-- **… and the optimizer cannot make a script end that did not**: every run of the optimised machine that
    ends is matched by a run of the original machine with the same result, output and variables. -/
theorem optimize_refinedBy (M : Machine) (obj : HostVal) (hnd : NeverDone M)
    (hmain : (fullTrace M.main).isSome = true)
    (hfuncs : ∀ u, u ∈ M.funcs → (fullTrace u.code).isSome = true) :
    RefinedBy M (optMachine M) obj := by
  let T := ((M.main :: M.funcs.map (·.code)).map traceLen).foldr max 0
  have hS : ∀ b, (b = M.main ∨ ∃ u, u ∈ M.funcs ∧ u.code = b) → ∀ t, Step1 (stageFn b t) (stageFn b (t + 1)) := by
    intro b hb t
    rcases hb with rfl | ⟨u, hu, rfl⟩
    · exact stageFn_step _ hmain t
    · exact stageFn_step _ (hfuncs u hu) t
  have h := atStage_refinedBy M obj stageFn hnd hS T
  have e0 : atStage M stageFn 0 = M := by
    unfold atStage
    simp only [stageFn_zero]
    cases M; simp
  have eT : atStage M stageFn (T + 1) = optMachine M := by
    unfold atStage optMachine
    have h1 : stageFn M.main (T + 1) = Optimizer.optimize M.main :=
      stageFn_last _ hmain _ (Nat.le_succ_of_le (le_foldr_max (by simp)))
    rw [h1]
    congr 1
    apply List.map_congr_left
    intro u hu
    have : stageFn u.code (T + 1) = Optimizer.optimize u.code :=
      stageFn_last _ (hfuncs u hu) _ (Nat.le_succ_of_le (le_foldr_max (by
        simp only [List.map_cons, List.map_map, List.mem_cons, List.mem_map, Function.comp]
        exact Or.inr ⟨u, hu, rfl⟩)))
    rw [this]
  rw [e0, eT] at h
  exact h


end EvalFilter.OptSim
