/-
  No ILLEGAL token is ever stepped over by the parser: if a parse function succeeds,
  every token it moved past is a legal one.  Unary invariant for a fixed token list `all`:
  `C all s` - the tokens already dropped from `all` are legal; `K s` - the current token is legal.
-/
import EvalFilter.Model.Parser

namespace EvalFilter.Parser
open EvalFilter

def K (s : PState) : Prop := s.cur.ty ≠ .ILLEGAL
def C (all : List Token) (s : PState) : Prop := ∃ pre, all = pre ++ s.toks ∧ ∀ t ∈ pre, t.ty ≠ .ILLEGAL

theorem C_next {all : List Token} {s : PState} (hc : C all s) (hk : K s) : C all s.next := by
  obtain ⟨pre, h1, h2⟩ := hc
  cases hs : s.toks with
  | nil => exact ⟨pre, by simp [PState.next, hs, h1], h2⟩
  | cons t rest =>
    refine ⟨pre ++ [t], by simp [PState.next, hs, h1], ?_⟩
    intro u hu
    rcases List.mem_append.mp hu with h | h
    · exact h2 u h
    · simp at h; subst h
      simpa [K, PState.cur, hs] using hk

theorem expectPeek_eq {s s' : PState} {t : TokType} (h : s.expectPeek t = some s') :
    s' = s.next ∧ s'.cur.ty = t := by
  unfold PState.expectPeek at h
  split at h
  · rename_i hp
    cases h
    refine ⟨rfl, ?_⟩
    simpa [PState.peekIs, PState.peek, PState.next, PState.cur] using hp
  · cases h

theorem K_of_ty {s : PState} {t : TokType} (h : s.cur.ty = t) (ht : t ≠ .ILLEGAL) : K s := by
  unfold K; rw [h]; exact ht

theorem K_of_curIs {s : PState} {t : TokType} (h : s.curIs t = true) (ht : t ≠ .ILLEGAL) : K s := by
  unfold PState.curIs at h
  have : s.cur.ty = t := by simpa using h
  exact K_of_ty this ht

theorem peekIs_next {s : PState} {t : TokType} (h : s.peekIs t = true) : s.next.cur.ty = t := by
  simpa [PState.peekIs, PState.peek, PState.next, PState.cur] using h

/-- after a successful `expectPeek t` (t legal) both invariants hold again -/
theorem CK_expectPeek {all : List Token} {s s' : PState} {t : TokType} (hc : C all s) (hk : K s)
    (h : s.expectPeek t = some s') (ht : t ≠ .ILLEGAL) : C all s' ∧ K s' := by
  obtain ⟨rfl, hty⟩ := expectPeek_eq h
  exact ⟨C_next hc hk, K_of_ty hty ht⟩

end EvalFilter.Parser
