/-
  No ILLEGAL token is ever stepped over by the parser: if a parse function succeeds,
  every token it moved past is a legal one.  Unary invariant for a fixed token list `all`:
  `C all s` - the tokens already dropped from `all` are legal; `K s` - the current token is legal.
-/
import EvalFilter.Model.Parser

namespace EvalFilter.Parser
open EvalFilter

/-- a token the parser may step over: not ILLEGAL, not the end of input, not the type-less token
    the lexer produces for a lone `&`, `|` or `~` -/
def legal (t : TokType) : Prop := t ≠ .ILLEGAL ∧ t ≠ .EOF ∧ t ≠ .NONE
def Kt (toks : List Token) : Prop := legal (toks.headD Token.eof).ty
def Ct (all toks : List Token) : Prop := ∃ pre, all = pre ++ toks ∧ ∀ t ∈ pre, legal t.ty
def K (s : PState) : Prop := Kt s.toks
def C (all : List Token) (s : PState) : Prop := Ct all s.toks

theorem K_iff {s : PState} : K s = Kt s.toks := rfl
theorem C_iff {all : List Token} {s : PState} : C all s = Ct all s.toks := rfl
theorem Kt_iff {toks : List Token} : Kt toks = legal (toks.headD Token.eof).ty := rfl
theorem legal_iff {t : TokType} : legal t = (t ≠ .ILLEGAL ∧ t ≠ .EOF ∧ t ≠ .NONE) := rfl

theorem Ct_tail {all toks : List Token} (hc : Ct all toks) (hk : Kt toks) : Ct all toks.tail := by
  obtain ⟨pre, h1, h2⟩ := hc
  cases toks with
  | nil => exact ⟨pre, by simpa using h1, h2⟩
  | cons t rest =>
    refine ⟨pre ++ [t], by simp [h1], ?_⟩
    intro u hu
    rcases List.mem_append.mp hu with h | h
    · exact h2 u h
    · simp at h; subst h
      simpa [Kt] using hk

theorem cur_eq {s : PState} : s.cur = s.toks.headD Token.eof := rfl
theorem peek_eq {s : PState} : s.peek = s.toks.tail.headD Token.eof := rfl
theorem next_toks {s : PState} : s.next.toks = s.toks.tail := rfl
theorem curIs_iff {s : PState} {t : TokType} : (s.curIs t = true) = ((s.toks.headD Token.eof).ty = t) := by
  simp [PState.curIs, PState.cur]
theorem peekIs_iff {s : PState} {t : TokType} : (s.peekIs t = true) = ((s.toks.tail.headD Token.eof).ty = t) := by
  simp [PState.peekIs, PState.peek]

theorem expectPeek_eq {s s' : PState} {t : TokType} (h : s.expectPeek t = some s') :
    s'.toks = s.toks.tail ∧ (s.toks.tail.headD Token.eof).ty = t := by
  unfold PState.expectPeek at h
  split at h
  · rename_i hp
    cases h
    exact ⟨rfl, by simpa [peekIs_iff] using hp⟩
  · cases h

theorem C_next {all : List Token} {s : PState} (hc : C all s) (hk : K s) : C all s.next := Ct_tail hc hk

/-- after a successful `expectPeek t` (t legal) both invariants hold again -/
theorem CK_expectPeek {all : List Token} {s s' : PState} {t : TokType} (h : s.expectPeek t = some s')
    (ht : legal t) (hc : C all s) (hk : K s) : C all s' ∧ K s' := by
  obtain ⟨h1, h2⟩ := expectPeek_eq h
  refine ⟨?_, ?_⟩
  · show Ct all s'.toks
    rw [h1]; exact Ct_tail hc hk
  · show Kt s'.toks
    rw [h1, Kt_iff, h2]; exact ht

theorem infixFn_legal {t : TokType} {fn : InfixFn} (h : infixFn t = some fn) : legal t := by
  refine ⟨?_, ?_, ?_⟩ <;> (intro ht; subst ht; simp [infixFn] at h)

theorem isPostfix_legal {t : TokType} (h : isPostfix t = true) : legal t := by
  refine ⟨?_, ?_, ?_⟩ <;> (intro ht; subst ht; simp [isPostfix] at h)

theorem prefixFn_none : prefixFn .NONE = none := rfl

theorem prefixFn_illegal {fn : PrefixFn} (h : prefixFn .ILLEGAL = some fn) : fn = .illegal := by
  simp [prefixFn] at h; exact h.symm

theorem prefixFn_eof {fn : PrefixFn} (h : prefixFn .EOF = some fn) : fn = .eof := by
  simp [prefixFn] at h; exact h.symm

theorem skipSemis_toks {all : List Token} (n : Nat) (s : PState) (hc : Ct all s.toks) (hk : Kt s.toks) :
    Ct all (skipSemis s n).toks ∧ Kt (skipSemis s n).toks := by
  induction n generalizing s with
  | zero => exact ⟨hc, hk⟩
  | succ n ih =>
    simp only [skipSemis]
    split
    · rename_i hp
      rw [peekIs_iff] at hp
      exact ih s.next (Ct_tail hc hk) (by show Kt s.toks.tail; rw [Kt_iff, hp, legal_iff]; decide)
    · exact ⟨hc, hk⟩

theorem parsePrefix_illegal (n : Nat) (s : PState) : parsePrefix n .illegal s = none := by
  cases n <;> simp [parsePrefix]

theorem parsePrefix_eof (n : Nat) (s : PState) : parsePrefix n .eof s = none := by
  cases n <;> simp [parsePrefix]

set_option hygiene false in
macro "pclean0" : tactic => `(tactic| (
  repeat' split at h
  all_goals try contradiction
  all_goals try simp only [Option.map_eq_some_iff] at h
  all_goals grind [Ct_tail, C_next, CK_expectPeek, expectPeek_eq, K_iff, C_iff, Kt_iff, cur_eq, peek_eq, next_toks, curIs_iff, peekIs_iff,
    infixFn_legal, isPostfix_legal, prefixFn_illegal, parsePrefix_illegal, prefixFn_eof, parsePrefix_eof, prefixFn_none, legal_iff, skipSemis_toks]))

theorem parseParams_loop_CK {all : List Token} (fuel : Nat) (s : PState) (acc : List Str) (ps : List Str) (s' : PState)
    (h : parseParams.loop fuel s acc = some (ps, s')) (hc : C all s) : C all s' ∧ K s' := by
  induction fuel generalizing s acc with
  | zero => simp [parseParams.loop] at h
  | succ n ih =>
    simp only [parseParams.loop] at h
    pclean0

theorem parseParams_CK {all : List Token} (s : PState) (ps : List Str) (s' : PState)
    (h : parseParams s = some (ps, s')) (hc : C all s) (hk : K s) : C all s' ∧ K s' := by
  simp only [parseParams] at h
  split at h
  · grind [Ct_tail, K_iff, C_iff, Kt_iff, legal_iff, next_toks, peekIs_iff]
  · exact parseParams_loop_CK _ _ _ _ _ h (Ct_tail hc hk)

set_option hygiene false in
macro "pclean" : tactic => `(tactic| (
  repeat' split at h
  all_goals try contradiction
  all_goals try simp only [Option.map_eq_some_iff] at h
  all_goals grind (splits := 40) (gen := 30) (ematch := 30) (instances := 10000) [Ct_tail, C_next, CK_expectPeek, expectPeek_eq, K_iff, C_iff, Kt_iff, cur_eq, peek_eq, next_toks, curIs_iff, peekIs_iff,
    infixFn_legal, isPostfix_legal, prefixFn_illegal, parsePrefix_illegal, prefixFn_eof, parsePrefix_eof, prefixFn_none, legal_iff, skipSemis_toks, parseParams_CK]))

structure IH (all : List Token) (n : Nat) : Prop where
  expr : ∀ prec s e s', parseExpression n prec s = some (e, s') → C all s → K s ∧ C all s' ∧ K s'
  loop : ∀ prec l s e s', infixLoop n prec l s = some (e, s') → C all s → K s → C all s' ∧ K s'
  pre : ∀ fn s e s', parsePrefix n fn s = some (e, s') → C all s → K s → C all s' ∧ K s'
  inf : ∀ fn l s e s', parseInfix n fn l s = some (e, s') → C all s → K s → C all s' ∧ K s'
  bracket : ∀ s e s', parseBracket n s = some (e, s') → C all s → K s → C all s' ∧ K s'
  ifE : ∀ s e s', parseIf n s = some (e, s') → C all s → K s → C all s' ∧ K s'
  stmt : ∀ s st s', parseStatement n s = some (st, s') → C all s → K s ∧ C all s' ∧ K s'
  block : ∀ s b s', parseBlock n s = some (b, s') → C all s → K s → C all s' ∧ K s'
  blockLoop : ∀ s acc b s', parseBlockLoop n s acc = some (b, s') → C all s → C all s' ∧ K s'
  list : ∀ t s es s', legal t → parseExprList n t s = some (es, s') → C all s → K s → C all s' ∧ K s'
  listLoop : ∀ t s acc es s', legal t → parseExprListLoop n t s acc = some (es, s') → C all s → K s → C all s' ∧ K s'
  hash : ∀ s acc ps s', parseHashPairs n s acc = some (ps, s') → C all s → K s → C all s' ∧ K s' ∧ s'.peekIs .RBRACE = true
  cases : ∀ s acc cs s', parseCases n s acc = some (cs, s') → C all s → C all s' ∧ K s'
  caseExprs : ∀ s acc es s', parseCaseExprs n s acc = some (es, s') → C all s → K s → C all s' ∧ K s'

theorem IH_zero (all : List Token) : IH all 0 := by
  constructor <;> intros <;> simp_all [parseExpression, infixLoop, parsePrefix, parseInfix, parseBracket, parseIf,
    parseStatement, parseBlock, parseBlockLoop, parseExprList, parseExprListLoop, parseHashPairs, parseCases, parseCaseExprs]

theorem step_expr (all : List Token) (n : Nat) (ih : IH all n) : ∀ prec s e s', parseExpression (n + 1) prec s = some (e, s') → C all s → K s ∧ C all s' ∧ K s' := by
  obtain ⟨ihE, ihL, ihP, ihI, ihB, ihIf, ihS, ihBl, ihBL, ihLs, ihLL, ihH, ihC, ihCE⟩ := ih
  intro prec s e s' h hc
  simp only [parseExpression] at h
  pclean

theorem step_loop (all : List Token) (n : Nat) (ih : IH all n) : ∀ prec l s e s', infixLoop (n + 1) prec l s = some (e, s') → C all s → K s → C all s' ∧ K s' := by
  obtain ⟨ihE, ihL, ihP, ihI, ihB, ihIf, ihS, ihBl, ihBL, ihLs, ihLL, ihH, ihC, ihCE⟩ := ih
  intro prec l s e s' h hc hk
  simp only [infixLoop] at h
  pclean

theorem step_pre (all : List Token) (n : Nat) (ih : IH all n) : ∀ fn s e s', parsePrefix (n + 1) fn s = some (e, s') → C all s → K s → C all s' ∧ K s' := by
  obtain ⟨ihE, ihL, ihP, ihI, ihB, ihIf, ihS, ihBl, ihBL, ihLs, ihLL, ihH, ihC, ihCE⟩ := ih
  intro fn s e s' h hc hk
  simp only [parsePrefix] at h
  pclean

theorem step_inf (all : List Token) (n : Nat) (ih : IH all n) : ∀ fn l s e s', parseInfix (n + 1) fn l s = some (e, s') → C all s → K s → C all s' ∧ K s' := by
  obtain ⟨ihE, ihL, ihP, ihI, ihB, ihIf, ihS, ihBl, ihBL, ihLs, ihLL, ihH, ihC, ihCE⟩ := ih
  intro fn l s e s' h hc hk
  simp only [parseInfix] at h
  pclean

theorem step_bracket (all : List Token) (n : Nat) (ih : IH all n) : ∀ s e s', parseBracket (n + 1) s = some (e, s') → C all s → K s → C all s' ∧ K s' := by
  obtain ⟨ihE, ihL, ihP, ihI, ihB, ihIf, ihS, ihBl, ihBL, ihLs, ihLL, ihH, ihC, ihCE⟩ := ih
  intro s e s' h hc hk
  simp only [parseBracket] at h
  pclean

theorem step_ifE (all : List Token) (n : Nat) (ih : IH all n) : ∀ s e s', parseIf (n + 1) s = some (e, s') → C all s → K s → C all s' ∧ K s' := by
  obtain ⟨ihE, ihL, ihP, ihI, ihB, ihIf, ihS, ihBl, ihBL, ihLs, ihLL, ihH, ihC, ihCE⟩ := ih
  intro s e s' h hc hk
  simp only [parseIf] at h
  pclean

theorem step_stmt (all : List Token) (n : Nat) (ih : IH all n) : ∀ s st s', parseStatement (n + 1) s = some (st, s') → C all s → K s ∧ C all s' ∧ K s' := by
  obtain ⟨ihE, ihL, ihP, ihI, ihB, ihIf, ihS, ihBl, ihBL, ihLs, ihLL, ihH, ihC, ihCE⟩ := ih
  intro s st s' h hc
  simp only [parseStatement] at h
  pclean

theorem step_block (all : List Token) (n : Nat) (ih : IH all n) : ∀ s b s', parseBlock (n + 1) s = some (b, s') → C all s → K s → C all s' ∧ K s' := by
  obtain ⟨ihE, ihL, ihP, ihI, ihB, ihIf, ihS, ihBl, ihBL, ihLs, ihLL, ihH, ihC, ihCE⟩ := ih
  intro s b s' h hc hk
  simp only [parseBlock] at h
  pclean

theorem step_blockLoop (all : List Token) (n : Nat) (ih : IH all n) : ∀ s acc b s', parseBlockLoop (n + 1) s acc = some (b, s') → C all s → C all s' ∧ K s' := by
  obtain ⟨ihE, ihL, ihP, ihI, ihB, ihIf, ihS, ihBl, ihBL, ihLs, ihLL, ihH, ihC, ihCE⟩ := ih
  intro s acc b s' h hc
  simp only [parseBlockLoop] at h
  pclean

theorem step_list (all : List Token) (n : Nat) (ih : IH all n) : ∀ t s es s', legal t → parseExprList (n + 1) t s = some (es, s') → C all s → K s → C all s' ∧ K s' := by
  obtain ⟨ihE, ihL, ihP, ihI, ihB, ihIf, ihS, ihBl, ihBL, ihLs, ihLL, ihH, ihC, ihCE⟩ := ih
  intro t s es s' ht h hc hk
  simp only [parseExprList] at h
  pclean

theorem step_listLoop (all : List Token) (n : Nat) (ih : IH all n) : ∀ t s acc es s', legal t → parseExprListLoop (n + 1) t s acc = some (es, s') → C all s → K s → C all s' ∧ K s' := by
  obtain ⟨ihE, ihL, ihP, ihI, ihB, ihIf, ihS, ihBl, ihBL, ihLs, ihLL, ihH, ihC, ihCE⟩ := ih
  intro t s acc es s' ht h hc hk
  simp only [parseExprListLoop] at h
  pclean

theorem step_hash (all : List Token) (n : Nat) (ih : IH all n) : ∀ s acc ps s', parseHashPairs (n + 1) s acc = some (ps, s') → C all s → K s → C all s' ∧ K s' ∧ s'.peekIs .RBRACE = true := by
  obtain ⟨ihE, ihL, ihP, ihI, ihB, ihIf, ihS, ihBl, ihBL, ihLs, ihLL, ihH, ihC, ihCE⟩ := ih
  intro s acc ps s' h hc hk
  simp only [parseHashPairs] at h
  pclean

theorem step_cases (all : List Token) (n : Nat) (ih : IH all n) : ∀ s acc cs s', parseCases (n + 1) s acc = some (cs, s') → C all s → C all s' ∧ K s' := by
  obtain ⟨ihE, ihL, ihP, ihI, ihB, ihIf, ihS, ihBl, ihBL, ihLs, ihLL, ihH, ihC, ihCE⟩ := ih
  intro s acc cs s' h hc
  simp only [parseCases] at h
  pclean

theorem step_caseExprs (all : List Token) (n : Nat) (ih : IH all n) : ∀ s acc es s', parseCaseExprs (n + 1) s acc = some (es, s') → C all s → K s → C all s' ∧ K s' := by
  obtain ⟨ihE, ihL, ihP, ihI, ihB, ihIf, ihS, ihBl, ihBL, ihLs, ihLL, ihH, ihC, ihCE⟩ := ih
  intro s acc es s' h hc hk
  simp only [parseCaseExprs] at h
  pclean

theorem IH_succ (all : List Token) (n : Nat) (ih : IH all n) : IH all (n + 1) :=
  ⟨step_expr all n ih, step_loop all n ih, step_pre all n ih, step_inf all n ih, step_bracket all n ih, step_ifE all n ih,
   step_stmt all n ih, step_block all n ih, step_blockLoop all n ih, step_list all n ih, step_listLoop all n ih,
   step_hash all n ih, step_cases all n ih, step_caseExprs all n ih⟩

theorem IH_all (all : List Token) : ∀ n, IH all n
  | 0 => IH_zero all
  | n + 1 => IH_succ all n (IH_all all n)


theorem parseProgramLoop_clean (all : List Token) (fuel efuel : Nat) (s : PState) (acc p : List Stmt)
    (h : parseProgramLoop fuel efuel s acc = some p) (hc : C all s) :
    ∃ s', C all s' ∧ s'.curIs .EOF = true := by
  induction fuel generalizing s acc with
  | zero => simp [parseProgramLoop] at h
  | succ n ih =>
    simp only [parseProgramLoop] at h
    split at h
    · exact ⟨s, hc, by assumption⟩
    · split at h
      · contradiction
      · split at h
        · contradiction
        · rename_i st s1 hst
          obtain ⟨_, hc1, hk1⟩ := (IH_all all efuel).stmt _ _ _ hst hc
          exact ih _ _ h (C_next hc1 hk1)

theorem mem_takeWhile_append {α : Type} (p : α → Bool) (pre rest : List α) (x : α)
    (hr : rest.takeWhile p = []) (hx : x ∈ (pre ++ rest).takeWhile p) : x ∈ pre := by
  induction pre with
  | nil => simp [hr] at hx
  | cons a pre ih =>
    simp only [List.cons_append, List.takeWhile_cons] at hx
    split at hx
    · rcases List.mem_cons.mp hx with h | h
      · exact List.mem_cons.mpr (Or.inl h)
      · exact List.mem_cons_of_mem _ (ih h)
    · cases hx

/-- **No accepted program contains an ILLEGAL token**: if the parser accepts a token list, every
    token up to the end-of-input token is a legal one - wherever it stands, however deeply nested. -/
theorem parse_no_illegal (toks : List Token) (p : Program) (h : parse toks = some p) :
    ∀ t ∈ toks.takeWhile (fun t => t.ty != .EOF), t.ty ≠ .ILLEGAL ∧ t.ty ≠ .NONE := by
  unfold parse at h
  obtain ⟨s', ⟨pre, hpre, hleg⟩, heof⟩ := parseProgramLoop_clean toks _ _ _ _ _ h ⟨[], rfl, by simp⟩
  intro t ht
  rw [hpre] at ht
  refine (fun h => ⟨h.1, h.2.2⟩) (hleg t ?_)
  apply mem_takeWhile_append _ pre s'.toks t _ ht
  rw [curIs_iff] at heof
  cases hs : s'.toks with
  | nil => rfl
  | cons a rest =>
    rw [hs] at heof
    simp only [List.headD_cons] at heof
    simp [heof]

end EvalFilter.Parser
