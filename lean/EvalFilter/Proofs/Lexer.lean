/-
  Lemmas about the lexer model: every helper consumes input monotonically, and
  `nextToken` consumes at least one rune when there is one (so `lexAll` terminates
  without ever reaching its "stuck" branch).
-/
import EvalFilter.Model.Lexer

namespace EvalFilter.Lexer

theorem skipWs_length_le (r : List Char) : (skipWs r).length ≤ r.length := by
  induction r with
  | nil => simp [skipWs]
  | cons c cs ih =>
    simp only [skipWs]
    split
    · simp only [List.length_cons]; omega
    · exact Nat.le_refl _

theorem skipLine_length_le (r : List Char) : (skipLine r).length ≤ r.length := by
  induction r with
  | nil => simp [skipLine]
  | cons c cs ih =>
    simp only [skipLine]
    split
    · exact Nat.le_refl _
    · simp only [List.length_cons]; omega

theorem skipBlank_length_le (fuel : Nat) (r : List Char) : (skipBlank fuel r).length ≤ r.length := by
  induction fuel generalizing r with
  | zero => simp [skipBlank]
  | succ n ih =>
    simp only [skipBlank]
    split
    · rename_i t heq
      have h1 := skipWs_length_le r
      have h2 := skipLine_length_le ('/' :: '/' :: t)
      have h3 := skipWs_length_le (skipLine ('/' :: '/' :: t))
      have h4 := ih (skipWs (skipLine ('/' :: '/' :: t)))
      rw [heq] at h1
      omega
    · exact skipWs_length_le r

theorem spanChars_length (p : Char → Bool) (r : List Char) :
    (spanChars p r).1.length + (spanChars p r).2.length = r.length := by
  induction r with
  | nil => simp [spanChars]
  | cons c cs ih =>
    simp only [spanChars]
    split
    · simp only [List.length_cons]; omega
    · simp

theorem spanChars_rest_le (p : Char → Bool) (r : List Char) : (spanChars p r).2.length ≤ r.length := by
  have := spanChars_length p r; omega

theorem spanChars_head (p : Char → Bool) (c : Char) (cs : List Char) (h : p c = true) :
    (spanChars p (c :: cs)).2.length ≤ cs.length := by
  simp only [spanChars, h, ↓reduceIte]
  exact spanChars_rest_le p cs

theorem readString_rest_le (delim : Char) (r : List Char) (acc : Str) :
    (readString delim r acc).2.length ≤ r.length := by
  fun_induction readString delim r acc <;> simp_all <;> omega

theorem spanChars_rest_of_eq (p : Char → Bool) (cs a r : List Char) (h : spanChars p cs = (a, r)) :
    r.length ≤ cs.length := by
  have := spanChars_rest_le p cs
  rw [h] at this; exact this

theorem readRegexp_rest_le (r : List Char) (acc : Str) : (readRegexp r acc).2.length ≤ r.length := by
  fun_induction readRegexp r acc <;> simp_all
  all_goals (try omega)
  all_goals (
    have := spanChars_rest_of_eq _ _ _ _ ‹spanChars Unicode.isLetter _ = (_, _)›
    omega)

theorem two_rest_le (cs : List Char) (second : Char) (ty2 : TokType) (lit2 : String) (o : Token) :
    (two cs second ty2 lit2 o).2.1.length ≤ cs.length := by
  unfold two
  split
  · split <;> simp
  · simp

theorem one_rest (c : Char) (cs : List Char) (ty : TokType) : (one c cs ty).2.1 = cs := rfl

theorem lexWord_rest_le (prev : TokType) (c : Char) (cs : List Char) :
    (lexWord prev c cs).2.1.length ≤ cs.length := by
  unfold lexWord
  split
  · rename_i hd
    have h1 := spanChars_head isDigit c cs hd
    cases hsp : spanChars isDigit (c :: cs) with
    | mk intPart r1 =>
      rw [hsp] at h1
      simp only []
      split
      · rename_i d r2
        split
        · rename_i hd2
          have h2 := spanChars_head isDigit d r2 hd2
          cases hsp2 : spanChars isDigit (d :: r2) with
          | mk frac r3 =>
            rw [hsp2] at h2
            simp only [List.length_cons] at h1 h2 ⊢
            show r3.length ≤ cs.length
            omega
        · exact h1
      · exact h1
  · cases hsp : spanChars isIdentifier (c :: cs) with
    | mk ident r =>
      simp only []
      split
      · exact Nat.le_refl _
      · rename_i hne
        -- a non-empty identifier starts with c, so what remains is no longer than cs
        have hlen := spanChars_length isIdentifier (c :: cs)
        rw [hsp] at hlen
        simp only [List.length_cons] at hlen
        have : ident.length ≥ 1 := by
          cases ident with
          | nil => simp at hne
          | cons _ _ => simp
        show r.length ≤ cs.length
        omega

theorem lexC_rest_le (prev : TokType) (c : Char) (cs : List Char) :
    (lexC prev c cs).2.1.length ≤ cs.length := by
  unfold lexC
  repeat' split
  all_goals (try (first | exact Nat.le_refl _ | exact two_rest_le _ _ _ _ _ | exact lexWord_rest_le _ _ _
                        | (simp only [List.length_cons, List.length_nil]; omega)))
  all_goals (
    have h := readString_rest_le c cs []
    simp_all [List.length_tail]
    omega)

theorem lexB_rest_le (prev : TokType) (c : Char) (cs : List Char) :
    (lexB prev c cs).2.1.length ≤ cs.length := by
  unfold lexB
  repeat' split
  all_goals (try (first | exact Nat.le_refl _ | exact two_rest_le _ _ _ _ _ | exact lexC_rest_le _ _ _
                        | (simp only [List.length_cons, List.length_nil]; omega)))
  all_goals (
    have h := readRegexp_rest_le cs []
    simp_all)

/-- one token never "un-reads" input: what remains is no longer than what followed its first rune -/
theorem lexOne_rest_le (prev : TokType) (c : Char) (cs : List Char) :
    (lexOne prev c cs).2.1.length ≤ cs.length := by
  unfold lexOne
  repeat' split
  all_goals (first | exact Nat.le_refl _ | exact two_rest_le _ _ _ _ _ | exact lexB_rest_le _ _ _
                   | (simp only [List.length_cons, List.length_nil]; omega))

/-- `NextToken` consumes at least one rune whenever there is one -/
theorem nextToken_progress (s : LexSt) (h : s.rest ≠ []) : (nextToken s).2.rest.length < s.rest.length := by
  unfold nextToken
  have hb := skipBlank_length_le (s.rest.length + 1) s.rest
  split
  · rename_i heq
    cases hr : s.rest with
    | nil => exact absurd hr h
    | cons _ _ => simp
  · rename_i c cs heq
    rw [heq] at hb
    have := lexOne_rest_le s.prev c cs
    cases hl : lexOne s.prev c cs with
    | mk t rp =>
      cases rp with
      | mk rest prev =>
        rw [hl] at this
        simp only [List.length_cons] at hb ⊢
        simp only [] at this
        omega

/-- the number of tokens is at most the number of runes plus one (the final EOF) -/
theorem lexAll_length_le (s : LexSt) : (lexAll s).length ≤ s.rest.length + 1 := by
  fun_induction lexAll s
  · simp
  · simp
  · rename_i s hne t s' hnt hlt hcond ih
    simp only [List.length_cons]
    omega
  · rename_i s hne t s' hnt hlt
    have := nextToken_progress s (by simpa using hne)
    rw [hnt] at this
    exact absurd this hlt

end EvalFilter.Lexer
