/-
  Lemmas about the lexer model: every helper consumes input monotonically, and
  `nextToken` consumes at least one rune when there is one (so `lexAll` terminates
  without ever reaching its "stuck" branch).
-/
import EvalFilter.Model.Lexer

set_option linter.unusedSimpArgs false
set_option linter.unusedVariables false

namespace EvalFilter.Lexer

theorem skipWs_length_le (r : List Char) : (skipWs r).length ≤ r.length := by
  induction r with
  | nil => simp [skipWs]
  | cons c cs ih =>
    simp only [skipWs]
    split
    · simp only [List.length_cons]; omega
    · exact Nat.le_refl _

theorem skipLine_length_le (r : List Char) : (skipLine r).length ≤ r.length := by
  induction r with
  | nil => simp [skipLine]
  | cons c cs ih =>
    simp only [skipLine]
    split
    · exact Nat.le_refl _
    · simp only [List.length_cons]; omega

theorem skipBlank_length_le (fuel : Nat) (r : List Char) : (skipBlank fuel r).length ≤ r.length := by
  induction fuel generalizing r with
  | zero => simp [skipBlank]
  | succ n ih =>
    simp only [skipBlank]
    split
    · rename_i t heq
      have h1 := skipWs_length_le r
      have h2 := skipLine_length_le ('/' :: '/' :: t)
      have h3 := skipWs_length_le (skipLine ('/' :: '/' :: t))
      have h4 := ih (skipWs (skipLine ('/' :: '/' :: t)))
      rw [heq] at h1
      omega
    · exact skipWs_length_le r

theorem spanChars_length (p : Char → Bool) (r : List Char) :
    (spanChars p r).1.length + (spanChars p r).2.length = r.length := by
  induction r with
  | nil => simp [spanChars]
  | cons c cs ih =>
    simp only [spanChars]
    split
    · simp only [List.length_cons]; omega
    · simp

theorem spanChars_rest_le (p : Char → Bool) (r : List Char) : (spanChars p r).2.length ≤ r.length := by
  have := spanChars_length p r; omega

theorem spanChars_head (p : Char → Bool) (c : Char) (cs : List Char) (h : p c = true) :
    (spanChars p (c :: cs)).2.length ≤ cs.length := by
  simp only [spanChars, h, ↓reduceIte]
  exact spanChars_rest_le p cs

theorem readString_rest_le (delim : Char) (r : List Char) (acc : Str) :
    (readString delim r acc).2.length ≤ r.length := by
  fun_induction readString delim r acc <;> simp_all <;> omega

theorem spanChars_rest_of_eq (p : Char → Bool) (cs a r : List Char) (h : spanChars p cs = (a, r)) :
    r.length ≤ cs.length := by
  have := spanChars_rest_le p cs
  rw [h] at this; exact this

theorem readRegexp_rest_le (r : List Char) (acc : Str) : (readRegexp r acc).2.length ≤ r.length := by
  fun_induction readRegexp r acc <;> simp_all
  all_goals (try omega)
  all_goals (
    have := spanChars_rest_of_eq _ _ _ _ ‹spanChars Unicode.isLetter _ = (_, _)›
    omega)

theorem two_rest_le (cs : List Char) (second : Char) (ty2 : TokType) (lit2 : String) (o : Token) :
    (two cs second ty2 lit2 o).2.1.length ≤ cs.length := by
  unfold two
  split
  · split <;> simp
  · simp

theorem one_rest (c : Char) (cs : List Char) (ty : TokType) : (one c cs ty).2.1 = cs := rfl

theorem lexWord_rest_le (prev : TokType) (c : Char) (cs : List Char) :
    (lexWord prev c cs).2.1.length ≤ cs.length := by
  unfold lexWord
  split
  · rename_i hd
    have h1 := spanChars_head isDigit c cs hd
    cases hsp : spanChars isDigit (c :: cs) with
    | mk intPart r1 =>
      rw [hsp] at h1
      simp only []
      split
      · rename_i d r2
        split
        · rename_i hd2
          have h2 := spanChars_head isDigit d r2 hd2
          cases hsp2 : spanChars isDigit (d :: r2) with
          | mk frac r3 =>
            rw [hsp2] at h2
            simp only [List.length_cons] at h1 h2 ⊢
            show r3.length ≤ cs.length
            omega
        · exact h1
      · exact h1
  · cases hsp : spanChars isIdentifier (c :: cs) with
    | mk ident r =>
      simp only []
      split
      · exact Nat.le_refl _
      · rename_i hne
        -- a non-empty identifier starts with c, so what remains is no longer than cs
        have hlen := spanChars_length isIdentifier (c :: cs)
        rw [hsp] at hlen
        simp only [List.length_cons] at hlen
        have : ident.length ≥ 1 := by
          cases ident with
          | nil => simp at hne
          | cons _ _ => simp
        show r.length ≤ cs.length
        omega

theorem lexC_rest_le (prev : TokType) (c : Char) (cs : List Char) :
    (lexC prev c cs).2.1.length ≤ cs.length := by
  unfold lexC
  repeat' split
  all_goals (try (first | exact Nat.le_refl _ | exact two_rest_le _ _ _ _ _ | exact lexWord_rest_le _ _ _
                        | (simp only [List.length_cons, List.length_nil]; omega)))
  all_goals (
    have h := readString_rest_le c cs []
    simp_all [List.length_tail]
    omega)

theorem lexB_rest_le (prev : TokType) (c : Char) (cs : List Char) :
    (lexB prev c cs).2.1.length ≤ cs.length := by
  unfold lexB
  repeat' split
  all_goals (try (first | exact Nat.le_refl _ | exact two_rest_le _ _ _ _ _ | exact lexC_rest_le _ _ _
                        | (simp only [List.length_cons, List.length_nil]; omega)))
  all_goals (
    have h := readRegexp_rest_le cs []
    simp_all)

/-- one token never "un-reads" input: what remains is no longer than what followed its first rune -/
theorem lexOne_rest_le (prev : TokType) (c : Char) (cs : List Char) :
    (lexOne prev c cs).2.1.length ≤ cs.length := by
  unfold lexOne
  repeat' split
  all_goals (first | exact Nat.le_refl _ | exact two_rest_le _ _ _ _ _ | exact lexB_rest_le _ _ _
                   | (simp only [List.length_cons, List.length_nil]; omega))

/-- `NextToken` consumes at least one rune whenever there is one -/
theorem nextToken_progress (s : LexSt) (h : s.rest ≠ []) : (nextToken s).2.rest.length < s.rest.length := by
  unfold nextToken
  have hb := skipBlank_length_le (s.rest.length + 1) s.rest
  split
  · rename_i heq
    cases hr : s.rest with
    | nil => exact absurd hr h
    | cons _ _ => simp
  · rename_i c cs heq
    rw [heq] at hb
    have := lexOne_rest_le s.prev c cs
    cases hl : lexOne s.prev c cs with
    | mk t rp =>
      cases rp with
      | mk rest prev =>
        rw [hl] at this
        simp only [List.length_cons] at hb ⊢
        simp only [] at this
        omega

/-- the number of tokens is at most the number of runes plus one (the final EOF) -/
theorem lexAll_length_le (s : LexSt) : (lexAll s).length ≤ s.rest.length + 1 := by
  fun_induction lexAll s
  · simp
  · simp
  · rename_i s hne t s' hnt hlt hcond ih
    simp only [List.length_cons]
    omega
  · rename_i s hne t s' hnt hlt
    have := nextToken_progress s (by simpa using hne)
    rw [hnt] at this
    exact absurd this hlt


/-! ### the shape of the token stream -/

theorem lookupIdentifier_ne_eof (s : Str) : lookupIdentifier s ≠ .EOF := by
  unfold lookupIdentifier
  cases h : keywords.lookup s with
  | none => simp
  | some t =>
    have hm : (s, t) ∈ keywords := by
      have := List.lookup_eq_some_iff.mp h
      obtain ⟨l1, l2, hk, _⟩ := this
      rw [hk]; simp
    simp only [Option.getD_some]
    simp only [keywords, List.mem_cons, Prod.mk.injEq, List.not_mem_nil, or_false] at hm
    rcases hm with ⟨_, rfl⟩ | ⟨_, rfl⟩ | ⟨_, rfl⟩ | ⟨_, rfl⟩ | ⟨_, rfl⟩ | ⟨_, rfl⟩ | ⟨_, rfl⟩ | ⟨_, rfl⟩ | ⟨_, rfl⟩ | ⟨_, rfl⟩ |
      ⟨_, rfl⟩ | ⟨_, rfl⟩ | ⟨_, rfl⟩ | ⟨_, rfl⟩ <;> simp

theorem two_ty (cs : List Char) (second : Char) (ty2 : TokType) (lit2 : String) (o : Token) (h2 : ty2 ≠ .EOF) (ho : o.ty ≠ .EOF) :
    (two cs second ty2 lit2 o).1.ty ≠ .EOF := by
  unfold two
  split
  · split <;> simp [tok, h2, ho]
  · exact ho

theorem lexWord_ty (prev : TokType) (c : Char) (cs : List Char) : (lexWord prev c cs).1.ty ≠ .EOF := by
  unfold lexWord
  repeat' split
  all_goals first
    | (simp; done)
    | (simp [lookupIdentifier_ne_eof]; done)

theorem lexC_ty (prev : TokType) (c : Char) (cs : List Char) : (lexC prev c cs).1.ty ≠ .EOF := by
  unfold lexC
  repeat' split
  all_goals first
    | (simp [one]; done)
    | (apply two_ty <;> simp; done)
    | (simp [tok]; done)
    | exact lexWord_ty _ _ _

theorem lexB_ty (prev : TokType) (c : Char) (cs : List Char) : (lexB prev c cs).1.ty ≠ .EOF := by
  unfold lexB
  repeat' split
  all_goals first
    | (simp [one]; done)
    | (apply two_ty <;> simp; done)
    | (simp [tok]; done)
    | exact lexC_ty _ _ _

theorem lexOne_ty (prev : TokType) (c : Char) (cs : List Char) : (lexOne prev c cs).1.ty ≠ .EOF := by
  unfold lexOne
  repeat' split
  all_goals first
    | (simp [one]; done)
    | (apply two_ty <;> simp; done)
    | (simp [tok]; done)
    | exact lexB_ty _ _ _

/-- `NextToken` yields the end-of-input token only when nothing but blanks and comments is left -/
theorem nextToken_eof (s : LexSt) (h : (nextToken s).1.ty = .EOF) : (nextToken s).2.rest = [] := by
  unfold nextToken at h ⊢
  split
  · rfl
  · rename_i c cs heq
    simp only [heq] at h
    exact absurd h (lexOne_ty _ _ _)

/-- every token of the stream but the last is a real token: the end-of-input token comes last, only -/
theorem lexAll_init_ne_eof (s : LexSt) : ∀ t ∈ (lexAll s).dropLast, t.ty ≠ .EOF := by
  fun_induction lexAll s
  · simp
  · simp
  · rename_i s hne t s' hnt hlt hcond ih
    intro u hu
    have hne' : lexAll s' ≠ [] := by
      unfold lexAll
      repeat' split
      all_goals simp
    rw [List.dropLast_cons_of_ne_nil hne'] at hu
    rcases List.mem_cons.mp hu with rfl | hu
    · intro hty
      have := nextToken_eof s (by rw [hnt]; exact hty)
      rw [hnt] at this
      simp only at this
      simp [hty, this] at hcond
    · exact ih u hu
  · rename_i s hne t s' hnt hlt
    have := nextToken_progress s (by simpa using hne)
    rw [hnt] at this
    exact absurd this hlt

/-- the last token of the stream is the end-of-input token -/
theorem lexAll_last_eof (s : LexSt) : ∃ ts e, lexAll s = ts ++ [e] ∧ e.ty = .EOF := by
  fun_induction lexAll s
  · exact ⟨[], Token.eof, rfl, rfl⟩
  · rename_i s hne t s' hnt hlt hcond
    exact ⟨[], t, rfl, by simp only [Bool.and_eq_true, beq_iff_eq] at hcond; exact hcond.1⟩
  · rename_i s hne t s' hnt hlt hcond ih
    obtain ⟨ts, e, h1, h2⟩ := ih
    exact ⟨t :: ts, e, by rw [h1]; rfl, h2⟩
  · rename_i s hne t s' hnt hlt
    have := nextToken_progress s (by simpa using hne)
    rw [hnt] at this
    exact absurd this hlt

/-- so every ILLEGAL or type-less token of the stream comes before the end-of-input token -/
theorem lex_bad_token_before_eof (input : List Char) (t : Token) (ht : t ∈ lex input)
    (hbad : t.ty = .ILLEGAL ∨ t.ty = .NONE) : t ∈ (lex input).takeWhile (fun t => t.ty != .EOF) := by
  unfold lex at ht ⊢
  obtain ⟨ts, e, h1, h2⟩ := lexAll_last_eof ⟨input, .NONE⟩
  have hinit := lexAll_init_ne_eof ⟨input, .NONE⟩
  rw [h1] at ht hinit ⊢
  simp only [List.dropLast_concat] at hinit
  have hmem : t ∈ ts := by
    rcases List.mem_append.mp ht with h | h
    · exact h
    · simp at h; subst h; rcases hbad with hb | hb <;> simp [hb] at h2
  have htw : (ts ++ [e]).takeWhile (fun t => t.ty != .EOF) = ts := by
    rw [List.takeWhile_append_of_pos (by intro x hx; simpa using hinit x hx)]
    simp [h2]
  rw [htw]; exact hmem


theorem nextToken_mem (s : LexSt) (h : s.rest ≠ []) : (nextToken s).1 ∈ lexAll s := by
  rw [lexAll]
  have hp := nextToken_progress s h
  have he : s.rest.isEmpty = false := by simpa using h
  simp only [he, Bool.false_eq_true, ↓reduceIte, hp, ↓reduceDIte]
  split <;> simp

theorem nextToken_eof_tok (s : LexSt) (h : (nextToken s).1.ty = .EOF) : (nextToken s).1 = Token.eof := by
  unfold nextToken at h ⊢
  split
  · rfl
  · rename_i c cs heq
    simp only [heq] at h
    exact absurd h (lexOne_ty _ _ _)

theorem lexAll_step_subset (s : LexSt) (h : s.rest ≠ []) : ∀ t ∈ lexAll (nextToken s).2, t ∈ lexAll s := by
  intro t ht
  rw [lexAll]
  have hp := nextToken_progress s h
  have he : s.rest.isEmpty = false := by simpa using h
  simp only [he, Bool.false_eq_true, ↓reduceIte, hp, ↓reduceDIte]
  split
  · rename_i hc
    simp only [Bool.and_eq_true, beq_iff_eq, List.isEmpty_iff] at hc
    have h1 : lexAll (nextToken s).2 = [Token.eof] := by rw [lexAll]; simp [hc.2]
    rw [h1] at ht
    simp only [List.mem_singleton] at ht ⊢
    rw [ht, nextToken_eof_tok s hc.1]
  · exact List.mem_cons_of_mem _ ht

/-- the states the lexer passes through while reading `input` -/
inductive Reach (input : List Char) : LexSt → Prop
  | start : Reach input ⟨input, .NONE⟩
  | step (s : LexSt) : Reach input s → s.rest ≠ [] → Reach input (nextToken s).2

theorem reach_subset (input : List Char) (s : LexSt) (h : Reach input s) : ∀ t ∈ lexAll s, t ∈ lex input := by
  induction h with
  | start => intro t ht; exact ht
  | step s _ hne ih => intro t ht; exact ih t (lexAll_step_subset s hne t ht)

/-- whatever token the lexer produces anywhere in the input is in the token stream -/
theorem reach_token_mem (input : List Char) (s : LexSt) (h : Reach input s) (hne : s.rest ≠ []) :
    (nextToken s).1 ∈ lex input :=
  reach_subset input s h _ (nextToken_mem s hne)


end EvalFilter.Lexer
