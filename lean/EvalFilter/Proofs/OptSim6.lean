import EvalFilter.Proofs.OptSim5
import EvalFilter.Proofs.OptFold
set_option linter.unusedSimpArgs false
set_option linter.unusedVariables false
namespace EvalFilter.OptSim
open EvalFilter EvalFilter.VM EvalFilter.OptCheck

theorem stEq_polls {s s' : RunSt} (h : StEq false s s') (a b : Nat) :
    StEq false { s with polls := a } { s' with polls := b } :=
  ⟨h.1, h.2.1, h.2.2.1, fun e => by cases e⟩

theorem steps_one {M : Machine} {obj : HostVal} {c : Bytes} {x y : Cfg}
    (h : ∀ f, loop M obj c (f + 1) x.1 x.2.1 x.2.2 = loop M obj c f y.1 y.2.1 y.2.2) : Steps M obj c 1 x y :=
  .succ h (.zero _)

section windows
variable {M M' : Machine} {obj : HostVal} {c c' : Bytes} {I I' : IL}
  (hnd : NeverDone M) (hnd' : NeverDone M')
  (hd : WF.decode 0 c = some I) (hd' : WF.decode 0 c' = some I')
include hnd hnd' hd hd'

/-- NOPs of the second program over `[a, a+n)` -/
theorem nops' {a b : Nat} (h : nopsB I' a b = true) (hab : a ≤ b) (stk : List Value) (st : RunSt) :
    Steps M' obj c' (b - a) (a, stk, st) (b, stk, { st with polls := st.polls + (b - a) }) := by
  have := steps_nops (M := M') (obj := obj) (c := c') hnd' (b - a) a
    (fun o h1 h2 => fetch_of_decode hd' (nops_of_nopsB h o h1 (by omega))) stk st
  rw [show a + (b - a) = b by omega] at this
  exact this

theorem nops1 {a b : Nat} (h : nopsB I a b = true) (hab : a ≤ b) (stk : List Value) (st : RunSt) :
    Steps M obj c (b - a) (a, stk, st) (b, stk, { st with polls := st.polls + (b - a) }) := by
  have := steps_nops (M := M) (obj := obj) (c := c) hnd (b - a) a
    (fun o h1 h2 => fetch_of_decode hd (nops_of_nopsB h o h1 (by omega))) stk st
  rw [show a + (b - a) = b by omega] at this
  exact this

theorem win_trueJif {lo : Nat} (hw : windowOk I I' c.length (.trueJif lo) = true) (stack : List Value) (st st' : RunSt)
    (hst : StEq false st st') :
    ∃ k k' e stack1 st1 st1', 0 < k ∧
      Steps M obj c k (lo, stack, st) (e, stack1, st1) ∧ Steps M' obj c' k' (lo, stack, st') (e, stack1, st1') ∧
      e = lo + 4 ∧ StEq false st1 st1' ∧ 0 < k' := by
  simp only [windowOk, Bool.and_eq_true, List.any_eq_true, beq_iff_eq] at hw
  obtain ⟨⟨h1, ⟨p, hp, hp1, hp2⟩⟩, h3⟩ := hw
  have f1 := fetch_of_decode hd (mem_of_contains h1)
  obtain ⟨po, pi⟩ := p
  simp only at hp1 hp2
  subst hp1
  obtain ⟨pop, parg⟩ := pi
  simp only at hp2
  subst hp2
  have f2 := fetch_of_decode hd hp
  refine ⟨2, 4, lo + 4, stack, { st with polls := st.polls + 1 + 1 }, { st' with polls := st'.polls + 4 }, by omega, ?_, ?_, rfl, ?_, by omega⟩
  · refine .succ (y := (lo + 1, .bool true :: stack, { st with polls := st.polls + 1 })) (fun f => turn_true hnd f1 stack st f) ?_
    refine steps_one (y := (lo + 4, stack, { st with polls := st.polls + 1 + 1 })) (fun f => ?_)
    have := turn_jif (obj := obj) hnd f2 (.bool true) (Or.inl rfl) stack { st with polls := st.polls + 1 } f
    simpa [Value.truthy, Nat.add_assoc] using this
  · have := nops' (obj := obj) hnd hnd' hd hd' (a := lo) (b := lo + 4) h3 (by omega) stack st'
    rw [show lo + 4 - lo = 4 by omega] at this
    exact this
  · exact stEq_polls hst _ _

theorem win_falseJif {lo x : Nat} (hw : windowOk I I' c.length (.falseJif lo x) = true) (stack : List Value) (st st' : RunSt)
    (hst : StEq false st st') :
    ∃ k k' e stack1 st1 st1', 0 < k ∧
      Steps M obj c k (lo, stack, st) (e, stack1, st1) ∧ Steps M' obj c' k' (lo, stack, st') (e, stack1, st1') ∧
      e = x ∧ StEq false st1 st1' ∧ 0 < k' := by
  simp only [windowOk, Bool.and_eq_true, decide_eq_true_eq] at hw
  obtain ⟨⟨⟨⟨h1, h2⟩, h3⟩, h4⟩, h5⟩ := hw
  have f1 := fetch_of_decode hd (mem_of_contains h1)
  have f2 := fetch_of_decode hd (mem_of_contains h2)
  refine ⟨2, x - lo, x, stack, { st with polls := st.polls + 1 + 1 }, { st' with polls := st'.polls + (x - lo) }, by omega, ?_, ?_, rfl, ?_, by omega⟩
  · refine .succ (y := (lo + 1, .bool false :: stack, { st with polls := st.polls + 1 })) (fun f => turn_false hnd f1 stack st f) ?_
    refine steps_one (y := (x, stack, { st with polls := st.polls + 1 + 1 })) (fun f => ?_)
    have := turn_jif (obj := obj) hnd f2 (.bool false) (Or.inr h4) stack { st with polls := st.polls + 1 } f
    simpa [Value.truthy] using this
  · exact nops' hnd hnd' hd hd' h5 (by omega) stack st'
  · exact stEq_polls hst _ _

end windows

/-- from `ip` with stack `stk`, at least `n` turns lead to `e` with stack `stk1`, in any state, leaving
    variables, output and call depth as they were -/
def Reach (M : Machine) (obj : HostVal) (c : Bytes) (n : Nat) (ip : Nat) (stk : List Value) (e : Nat) (stk1 : List Value) : Prop :=
  ∀ st, ∃ k st1, n ≤ k ∧ Steps M obj c k (ip, stk, st) (e, stk1, st1) ∧
    st1.env = st.env ∧ st1.out = st.out ∧ st1.depth = st.depth

theorem Reach.trans {M : Machine} {obj : HostVal} {c : Bytes} {n m ip e e2 : Nat} {stk stk1 stk2 : List Value}
    (h : Reach M obj c n ip stk e stk1) (h' : Reach M obj c m e stk1 e2 stk2) : Reach M obj c (n + m) ip stk e2 stk2 := by
  intro st
  obtain ⟨k, st1, hk, hs, a1, a2, a3⟩ := h st
  obtain ⟨k', st2, hk', hs', b1, b2, b3⟩ := h' st1
  exact ⟨k' + k, st2, by omega, hs.trans hs', b1.trans a1, b2.trans a2, b3.trans a3⟩

theorem Reach.one {M : Machine} {obj : HostVal} {c : Bytes} {ip e : Nat} {stk stk1 : List Value}
    (h : ∀ st f, loop M obj c (f + 1) ip stk st = loop M obj c f e stk1 { st with polls := st.polls + 1 }) :
    Reach M obj c 1 ip stk e stk1 :=
  fun st => ⟨1, _, Nat.le_refl _, steps_one (y := (e, stk1, { st with polls := st.polls + 1 })) (h st), rfl, rfl, rfl⟩

theorem Reach.nops {M : Machine} {obj : HostVal} {c : Bytes} {I : IL} (hnd : NeverDone M) (hd : WF.decode 0 c = some I)
    {a b : Nat} (h : nopsB I a b = true) (hab : a ≤ b) (stk : List Value) : Reach M obj c 0 a stk b stk := by
  intro st
  have := steps_nops (M := M) (obj := obj) (c := c) hnd (b - a) a
    (fun o h1 h2 => fetch_of_decode hd (nops_of_nopsB h o h1 (by omega))) stk st
  rw [show a + (b - a) = b by omega] at this
  exact ⟨_, _, Nat.zero_le _, this, rfl, rfl, rfl⟩

theorem window_of_reach {M M' : Machine} {obj : HostVal} {c c' : Bytes} {lo e : Nat} {stack stack1 : List Value}
    (h : Reach M obj c 1 lo stack e stack1) (h' : Reach M' obj c' 1 lo stack e stack1) (st st' : RunSt)
    (hst : StEq false st st') :
    ∃ k k' e' stack1' st1 st1', 0 < k ∧
      Steps M obj c k (lo, stack, st) (e', stack1', st1) ∧ Steps M' obj c' k' (lo, stack, st') (e', stack1', st1') ∧
      e' = e ∧ StEq false st1 st1' ∧ 0 < k' := by
  obtain ⟨k, st1, hk, hs, a1, a2, a3⟩ := h st
  obtain ⟨k', st1', hk', hs', b1, b2, b3⟩ := h' st'
  exact ⟨k, k', e, stack1, st1, st1', by omega, hs, hs', rfl,
    ⟨by rw [a1, b1, hst.1], by rw [a2, b2, hst.2.1], by rw [a3, b3, hst.2.2.1], fun e => by cases e⟩, by omega⟩

section windows2
variable {M M' : Machine} {obj : HostVal} {c c' : Bytes} {I I' : IL}
  (hnd : NeverDone M) (hnd' : NeverDone M')
  (hd : WF.decode 0 c = some I) (hd' : WF.decode 0 c' = some I')
include hnd hnd' hd hd'

theorem win_arith {boff aoff ip b a r : Nat} {o : Op} (hw : windowOk I I' c.length (.arith boff aoff ip b a r o) = true)
    (stack : List Value) (st st' : RunSt) (hst : StEq false st st') :
    ∃ k k' e stack1 st1 st1', 0 < k ∧
      Steps M obj c k (boff, stack, st) (e, stack1, st1) ∧ Steps M' obj c' k' (boff, stack, st') (e, stack1, st1') ∧
      e = ip + 1 ∧ StEq false st1 st1' ∧ 0 < k' := by
  simp only [windowOk, Bool.and_eq_true, decide_eq_true_eq, beq_iff_eq] at hw
  obtain ⟨⟨⟨⟨⟨⟨⟨⟨⟨⟨⟨⟨⟨h1, h2⟩, h3⟩, h4⟩, h5⟩, h6⟩, h7⟩, h8⟩, h9⟩, h10⟩, h11⟩, h12⟩, h13⟩, h14⟩ := hw
  have f1 := fetch_of_decode hd (mem_of_contains h1)
  have f3 := fetch_of_decode hd (mem_of_contains h3)
  have f5 := fetch_of_decode hd (mem_of_contains h5)
  have f13 := fetch_of_decode hd' (mem_of_contains h13)
  obtain ⟨hbin, hval⟩ := OptFold.foldResult_sound M o a b r h8 h10 h11
  apply window_of_reach (stack1 := OptFold.pushed r :: stack)
  · -- the original: push b, NOPs, push a, NOPs, the operator
    have s1 : Reach M obj c 1 boff stack (boff + 3) (OptFold.pushed b :: stack) :=
      Reach.one (fun st f => turn_push hnd f1 stack st f)
    have s2 := Reach.nops (obj := obj) hnd hd h2 h6 (OptFold.pushed b :: stack)
    have s3 : Reach M obj c 1 aoff (OptFold.pushed b :: stack) (aoff + 3) (OptFold.pushed a :: OptFold.pushed b :: stack) :=
      Reach.one (fun st f => turn_push hnd f3 _ st f)
    have s4 := Reach.nops (obj := obj) hnd hd h4 h7 (OptFold.pushed a :: OptFold.pushed b :: stack)
    have s5 : Reach M obj c 1 ip (OptFold.pushed a :: OptFold.pushed b :: stack) (ip + 1) (OptFold.pushed r :: stack) :=
      Reach.one (fun st f => turn_binop hnd f5 hbin _ _ _ hval stack st f)
    have := (((s1.trans s2).trans s3).trans s4).trans s5
    exact fun st => by
      obtain ⟨k, st1, hk, rest⟩ := this st
      exact ⟨k, st1, by omega, rest⟩
  · -- the replacement: NOPs, push r, NOPs
    have t1 := Reach.nops (obj := obj) hnd' hd' h12 (by omega : boff ≤ aoff) stack
    have t2 : Reach M' obj c' 1 aoff stack (aoff + 3) (OptFold.pushed r :: stack) :=
      Reach.one (fun st f => turn_push hnd' f13 _ st f)
    have t3 := Reach.nops (obj := obj) hnd' hd' h14 (by omega : aoff + 3 ≤ ip + 1) (OptFold.pushed r :: stack)
    have := (t1.trans t2).trans t3
    exact fun st => by
      obtain ⟨k, st1, hk, rest⟩ := this st
      exact ⟨k, st1, by omega, rest⟩
  · exact hst

theorem win_cmp {boff aoff ip b a : Nat} {t : Bool} (hw : windowOk I I' c.length (.cmp boff aoff ip b a t) = true)
    (stack : List Value) (st st' : RunSt) (hst : StEq false st st') :
    ∃ k k' e stack1 st1 st1', 0 < k ∧
      Steps M obj c k (boff, stack, st) (e, stack1, st1) ∧ Steps M' obj c' k' (boff, stack, st') (e, stack1, st1') ∧
      e = ip + 1 ∧ StEq false st1 st1' ∧ 0 < k' := by
  simp only [windowOk, Bool.and_eq_true, Bool.or_eq_true, decide_eq_true_eq, beq_iff_eq] at hw
  obtain ⟨⟨⟨⟨⟨⟨⟨⟨⟨⟨h1, h2⟩, h3⟩, h4⟩, h5⟩, h6⟩, h7⟩, h8⟩, h9⟩, h10⟩, h11⟩ := hw
  have f1 := fetch_of_decode hd (mem_of_contains h1)
  have f3 := fetch_of_decode hd (mem_of_contains h3)
  have f11 := fetch_of_decode hd' (mem_of_contains h11)
  obtain ⟨he, hne⟩ := OptFold.fold_equal M a b h8 h9
  apply window_of_reach (stack1 := .bool t :: stack)
  · have s1 : Reach M obj c 1 boff stack (boff + 3) (OptFold.pushed b :: stack) :=
      Reach.one (fun st f => turn_push hnd f1 stack st f)
    have s2 := Reach.nops (obj := obj) hnd hd h2 h6 (OptFold.pushed b :: stack)
    have s3 : Reach M obj c 1 aoff (OptFold.pushed b :: stack) (aoff + 3) (OptFold.pushed a :: OptFold.pushed b :: stack) :=
      Reach.one (fun st f => turn_push hnd f3 _ st f)
    have s4 := Reach.nops (obj := obj) hnd hd h4 h7 (OptFold.pushed a :: OptFold.pushed b :: stack)
    have s5 : Reach M obj c 1 ip (OptFold.pushed a :: OptFold.pushed b :: stack) (ip + 1) (.bool t :: stack) := by
      rcases h5 with ⟨hc, ht⟩ | ⟨hc, ht⟩
      · have f5 := fetch_of_decode hd (mem_of_contains hc)
        rw [ht]
        exact Reach.one (fun st f => turn_binop hnd f5 rfl _ _ _ he stack st f)
      · have f5 := fetch_of_decode hd (mem_of_contains hc)
        rw [ht]
        exact Reach.one (fun st f => turn_binop hnd f5 rfl _ _ _ hne stack st f)
    have := (((s1.trans s2).trans s3).trans s4).trans s5
    exact fun st => by
      obtain ⟨k, st1, hk, rest⟩ := this st
      exact ⟨k, st1, by omega, rest⟩
  · have t1 := Reach.nops (obj := obj) hnd' hd' h10 (by omega : boff ≤ ip) stack
    have t2 : Reach M' obj c' 1 ip stack (ip + 1) (.bool t :: stack) := by
      cases t
      · exact Reach.one (fun st f => turn_false hnd' f11 _ st f)
      · exact Reach.one (fun st f => turn_true hnd' f11 _ st f)
    have := t1.trans t2
    exact fun st => by
      obtain ⟨k, st1, hk, rest⟩ := this st
      exact ⟨k, st1, by omega, rest⟩
  · exact hst

end windows2
end EvalFilter.OptSim

namespace EvalFilter.OptSim
open EvalFilter EvalFilter.VM EvalFilter.OptCheck

/-- **Soundness of the rewrite validator.**  If `validStep c c'` holds, the bodies `c` and `c'` correspond
    point by point in any two machines (that never cancel) - so, by `sim`, no run can tell them apart. -/
theorem validStep_sound {M M' : Machine} {obj : HostVal} {c c' : Bytes} (hnd : NeverDone M) (hnd' : NeverDone M')
    (h : validStep c c' = true) : ∃ R, BodySim M M' obj c c' R := by
  unfold validStep at h
  cases hd : WF.decode 0 c with
  | none => simp [hd] at h
  | some I =>
    cases hd' : WF.decode 0 c' with
    | none => simp [hd, hd'] at h
    | some I' =>
      simp only [hd, hd', Bool.and_eq_true, beq_iff_eq] at h
      obtain ⟨hlen, h⟩ := h
      cases hw : findWindow I I' with
      | none => simp [hw] at h
      | some w =>
        simp only [hw, Bool.and_eq_true, decide_eq_true_eq] at h
        obtain ⟨⟨⟨⟨hwok, hout⟩, h0⟩, hhi⟩, hlt⟩ := h
        refine ⟨_, bodySim_of_checks hd hd' hlen hout h0 ?_⟩
        intro i hi _ stack st st' hst
        cases w with
        | trueJif lo =>
          obtain ⟨k, k', e, s1, st1, st1', hk, a, b, he, hq, hk'⟩ := win_trueJif (obj := obj) hnd hnd' hd hd' hwok stack st st' hst
          subst he
          exact ⟨k, k', _, s1, st1, st1', hk, a, b, hhi, hq, hk'⟩
        | falseJif lo x =>
          obtain ⟨k, k', e, s1, st1, st1', hk, a, b, he, hq, hk'⟩ := win_falseJif (obj := obj) hnd hnd' hd hd' hwok stack st st' hst
          subst he
          exact ⟨k, k', _, s1, st1, st1', hk, a, b, hhi, hq, hk'⟩
        | arith boff aoff ip b a r o =>
          obtain ⟨k, k', e, s1, st1, st1', hk, a, b, he, hq, hk'⟩ := win_arith (obj := obj) hnd hnd' hd hd' hwok stack st st' hst
          subst he
          exact ⟨k, k', _, s1, st1, st1', hk, a, b, hhi, hq, hk'⟩
        | cmp boff aoff ip b a t =>
          obtain ⟨k, k', e, s1, st1, st1', hk, a, b, he, hq, hk'⟩ := win_cmp (obj := obj) hnd hnd' hd hd' hwok stack st st' hst
          subst he
          exact ⟨k, k', _, s1, st1, st1', hk, a, b, hhi, hq, hk'⟩
        | sqrt lo => simp [windowOk] at hwok

end EvalFilter.OptSim
