/-
  The windows the optimizer rewrites, at the level of programs: wherever the original window stands,
  entering it at its first instruction leads to the same configuration (next instruction, stack,
  variables, output) as entering the replacement - for every stack and state.
-/
import EvalFilter.Proofs.StmtCorrect
set_option linter.unusedSimpArgs false
set_option linter.unusedVariables false
namespace EvalFilter.Exec
open EvalFilter EvalFilter.VM

theorem step_nop (M : Machine) (obj : HostVal) (len : Nat) (rb : Bytes → RunSt → Res × RunSt) (arg next : Nat)
    (stack : List Value) (st : RunSt) : step M obj len rb Op.nop.toNat arg next stack st = .cont next stack st := by
  have : Op.ofNat? Op.nop.toNat = some .nop := rfl
  simp only [step, this, isBinary]; simp

theorem storedArg_push (n : Nat) (h : n < 65536) : storedArg ⟨.push, n⟩ = n := by
  show (if Op.push.length = 3 then n % 65536 else 0) = n
  rw [if_pos (by rfl : Op.push.length = 3), Nat.mod_eq_of_lt h]

/-- run one `OpPush n` found at `ip` -/
theorem run_push {M : Machine} {obj : HostVal} {code : Bytes} {ip n : Nat} {rest : List Instr}
    (hc : CodeAt code ip (⟨.push, n⟩ :: rest)) (hM : NeverDone M) (hn : n < 65536)
    (stack : List Value) (env : Env) (out : Str) (polls depth : Nat) (fuel : Nat) :
    loop M obj code (fuel + 1) ip stack ⟨env, out, polls, depth⟩ =
      loop M obj code fuel (ip + 3) (.int (Int64.ofNat n) :: stack) ⟨env, out, polls + 1, depth⟩ := by
  rw [run_instr M obj hc hM (Or.inl (storedArg_push n hn)) stack env out polls depth fuel _ (storedArg_push n hn).symm]
  simp [step_push, Instr.size, Op.length]

/-- run one `OpNop` found at `ip` -/
theorem run_nop {M : Machine} {obj : HostVal} {code : Bytes} {ip : Nat} {rest : List Instr}
    (hc : CodeAt code ip (⟨.nop, 0⟩ :: rest)) (hM : NeverDone M)
    (stack : List Value) (env : Env) (out : Str) (polls depth : Nat) (fuel : Nat) :
    loop M obj code (fuel + 1) ip stack ⟨env, out, polls, depth⟩ =
      loop M obj code fuel (ip + 1) stack ⟨env, out, polls + 1, depth⟩ := by
  rw [run_instr M obj hc hM (Or.inr rfl) stack env out polls depth fuel 0 (by simp [storedArg, Op.length])]
  simp [step_nop, Instr.size, Op.length]

/-- **The arithmetic window.**  Wherever `OpPush b; OpPush a; <op>` stands in a program (op one of the
    folded operators, with `r` the value the VM computes for it), entering it with any stack reaches the
    instruction behind it with `r` on top - and so does the code the maths pass puts in its place,
    `OpPush r` followed by four NOPs (only the poll counts differ: 3 against 5). -/
theorem window_arith {M : Machine} {obj : HostVal} {raw opt : Bytes} {ip a b r : Nat} (o : Op) (ho : isBinary o = true)
    (hlen : o.length = 1)
    (hbin : binop M o (.int (Int64.ofNat b)) (.int (Int64.ofNat a)) = .ok (.int (Int64.ofNat r), []))
    (hraw : CodeAt raw ip [⟨.push, b⟩, ⟨.push, a⟩, ⟨o, 0⟩])
    (hopt : CodeAt opt ip [⟨.push, r⟩, ⟨.nop, 0⟩, ⟨.nop, 0⟩, ⟨.nop, 0⟩, ⟨.nop, 0⟩])
    (hM : NeverDone M) (ha : a < 65536) (hb : b < 65536) (hr : r < 65536)
    (stack : List Value) (env : Env) (out : Str) (polls depth : Nat) (fuel : Nat) :
    loop M obj raw (fuel + 3) ip stack ⟨env, out, polls, depth⟩ =
      loop M obj raw fuel (ip + 7) (.int (Int64.ofNat r) :: stack) ⟨env, out, polls + 3, depth⟩ ∧
    loop M obj opt (fuel + 5) ip stack ⟨env, out, polls, depth⟩ =
      loop M obj opt fuel (ip + 7) (.int (Int64.ofNat r) :: stack) ⟨env, out, polls + 5, depth⟩ := by
  constructor
  · have h2 := hraw.tail
    have h3 := h2.tail
    simp only [Instr.size, Op.length] at h2 h3
    rw [show fuel + 3 = (fuel + 2) + 1 by omega, run_push hraw hM hb]
    rw [show fuel + 2 = (fuel + 1) + 1 by omega, run_push h2 hM ha]
    rw [run_instr M obj h3 hM (Or.inr hlen) _ env out _ depth fuel 0 (by simp [storedArg, hlen])]
    rw [step_binary_ok M obj _ _ _ _ _ o ho _ _ _ _ _ hbin]
    simp [Instr.size, hlen, Nat.add_assoc]
  · have h2 := hopt.tail
    have h3 := h2.tail
    have h4 := h3.tail
    have h5 := h4.tail
    simp only [Instr.size, Op.length] at h2 h3 h4 h5
    rw [show fuel + 5 = (fuel + 4) + 1 by omega, run_push hopt hM hr]
    rw [show fuel + 4 = (fuel + 3) + 1 by omega, run_nop h2 hM]
    rw [show fuel + 3 = (fuel + 2) + 1 by omega, run_nop h3 hM]
    rw [show fuel + 2 = (fuel + 1) + 1 by omega, run_nop h4 hM]
    rw [run_nop h5 hM]

/-- **A constant-true condition.**  `OpTrue; OpJumpIfFalse x` falls through to what follows with the stack
    unchanged - like the four NOPs the jump pass puts in its place. -/
theorem window_true_jif {M : Machine} {obj : HostVal} {raw opt : Bytes} {ip x : Nat}
    (hraw : CodeAt raw ip [⟨.true, 0⟩, ⟨.jumpIfFalse, x⟩])
    (hopt : CodeAt opt ip [⟨.nop, 0⟩, ⟨.nop, 0⟩, ⟨.nop, 0⟩, ⟨.nop, 0⟩])
    (hM : NeverDone M) (hx : x < raw.length) (hx' : x < 65536)
    (stack : List Value) (env : Env) (out : Str) (polls depth : Nat) (fuel : Nat) :
    loop M obj raw (fuel + 2) ip stack ⟨env, out, polls, depth⟩ =
      loop M obj raw fuel (ip + 4) stack ⟨env, out, polls + 2, depth⟩ ∧
    loop M obj opt (fuel + 4) ip stack ⟨env, out, polls, depth⟩ =
      loop M obj opt fuel (ip + 4) stack ⟨env, out, polls + 4, depth⟩ := by
  constructor
  · have h2 := hraw.tail
    simp only [Instr.size, Op.length] at h2
    have harg : storedArg ⟨.jumpIfFalse, x⟩ = x := by
      show (if Op.jumpIfFalse.length = 3 then x % 65536 else 0) = x
      rw [if_pos (by rfl : Op.jumpIfFalse.length = 3), Nat.mod_eq_of_lt hx']
    rw [show fuel + 2 = (fuel + 1) + 1 by omega,
      run_instr M obj hraw hM (Or.inr rfl) stack env out polls depth (fuel + 1) 0 (by simp [storedArg, Op.length])]
    simp only [step_true, Instr.size, Op.length]
    rw [run_instr M obj h2 hM (Or.inl harg) _ env out _ depth fuel _ harg.symm]
    rw [step_jif M obj _ _ _ _ _ _ (.bool true) hx]
    simp [Value.truthy, Instr.size, Op.length, Nat.add_assoc]
  · have h2 := hopt.tail
    have h3 := h2.tail
    have h4 := h3.tail
    simp only [Instr.size, Op.length] at h2 h3 h4
    rw [show fuel + 4 = (fuel + 3) + 1 by omega, run_nop hopt hM]
    rw [show fuel + 3 = (fuel + 2) + 1 by omega, run_nop h2 hM]
    rw [show fuel + 2 = (fuel + 1) + 1 by omega, run_nop h3 hM]
    rw [run_nop h4 hM]

end EvalFilter.Exec
