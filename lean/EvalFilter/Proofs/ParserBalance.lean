/-
  Brackets balance in every accepted token list: the net count of opening minus closing
  brackets over the tokens the parser stepped over is zero, so every token list in which a
  bracket is left open (or closed once too often) is rejected - wherever the imbalance sits.
-/
import EvalFilter.Proofs.ParserClean

namespace EvalFilter.Parser
open EvalFilter

/-- weight of a token: +1 for an opening bracket, -1 for a closing one -/
def w : TokType → Int
  | .LPAREN | .LSQUARE | .LBRACE => 1
  | .RPAREN | .RSQUARE | .RBRACE => -1
  | _ => 0

def net : List Token → Int
  | [] => 0
  | t :: ts => w t.ty + net ts

theorem net_append (a b : List Token) : net (a ++ b) = net a + net b := by
  induction a with
  | nil => simp [net]
  | cons t ts ih => simp [net, ih]; omega

/-- net count of the tokens of `all` that precede the suffix `toks` -/
def M (all toks : List Token) : Int := net (all.take (all.length - toks.length))

theorem M_of_split {all pre toks : List Token} (h : all = pre ++ toks) : M all toks = net pre := by
  subst h; simp [M]

theorem M_tail {all toks : List Token} (hc : Ct all toks) :
    M all toks.tail = M all toks + w (toks.headD Token.eof).ty := by
  obtain ⟨pre, h1, _⟩ := hc
  cases toks with
  | nil => simp [M_of_split h1, Token.eof, w]
  | cons t rest =>
    have h2 : all = (pre ++ [t]) ++ rest := by simp [h1]
    simp only [List.tail_cons, List.headD_cons]
    rw [M_of_split h1, M_of_split h2, net_append]
    simp [net]

theorem M_self (all : List Token) : M all all = 0 := by simp [M, net]

/-- `Ms s` - net count strictly before the current token; `Ns s` - up to and including it -/
def Ms (all : List Token) (s : PState) : Int := M all s.toks
def Ns (all : List Token) (s : PState) : Int := M all s.toks + w (s.toks.headD Token.eof).ty

theorem Ms_iff {all : List Token} {s : PState} : Ms all s = M all s.toks := rfl
theorem Ns_iff {all : List Token} {s : PState} : Ns all s = M all s.toks + w (s.toks.headD Token.eof).ty := rfl

def pw : PrefixFn → Int
  | .grouped | .arrayLit | .hashLit => 1
  | _ => 0
def iw : InfixFn → Int
  | .call | .index => 1
  | _ => 0

theorem prefixFn_w {t : TokType} {fn : PrefixFn} (h : prefixFn t = some fn) : w t = pw fn := by
  cases t <;> simp [prefixFn] at h <;> subst h <;> rfl

theorem infixFn_w {t : TokType} {fn : InfixFn} (h : infixFn t = some fn) : w t = iw fn := by
  cases t <;> simp [infixFn] at h <;> subst h <;> rfl

theorem pw_prefixOp : pw .prefixOp = 0 := rfl
theorem pw_eof : pw .eof = 0 := rfl
theorem pw_boolLit : pw .boolLit = 0 := rfl
theorem pw_floatLit : pw .floatLit = 0 := rfl
theorem pw_whileS : pw .whileS = 0 := rfl
theorem pw_foreachS : pw .foreachS = 0 := rfl
theorem pw_funcDef : pw .funcDef = 0 := rfl
theorem pw_ident : pw .ident = 0 := rfl
theorem pw_ifE : pw .ifE = 0 := rfl
theorem pw_illegal : pw .illegal = 0 := rfl
theorem pw_intLit : pw .intLit = 0 := rfl
theorem pw_localV : pw .localV = 0 := rfl
theorem pw_hashLit : pw .hashLit = 1 := rfl
theorem pw_grouped : pw .grouped = 1 := rfl
theorem pw_arrayLit : pw .arrayLit = 1 := rfl
theorem pw_regexpLit : pw .regexpLit = 0 := rfl
theorem pw_stringLit : pw .stringLit = 0 := rfl
theorem pw_switchS : pw .switchS = 0 := rfl
theorem iw_binary : iw .binary = 0 := rfl
theorem iw_assign : iw .assign = 0 := rfl
theorem iw_call : iw .call = 1 := rfl
theorem iw_index : iw .index = 1 := rfl
theorem iw_ternary : iw .ternary = 0 := rfl

theorem isPostfix_w {t : TokType} (h : isPostfix t = true) : w t = 0 := by
  cases t <;> simp [isPostfix] at h <;> rfl

theorem w_LPAREN : w .LPAREN = 1 := rfl
theorem w_LSQUARE : w .LSQUARE = 1 := rfl
theorem w_LBRACE : w .LBRACE = 1 := rfl
theorem w_RPAREN : w .RPAREN = -1 := rfl
theorem w_RSQUARE : w .RSQUARE = -1 := rfl
theorem w_RBRACE : w .RBRACE = -1 := rfl
theorem w_COLON : w .COLON = 0 := rfl
theorem w_COMMA : w .COMMA = 0 := rfl
theorem w_IDENT : w .IDENT = 0 := rfl
theorem w_IN : w .IN = 0 := rfl
theorem w_ELSE : w .ELSE = 0 := rfl
theorem w_IF : w .IF = 0 := rfl
theorem w_SEMICOLON : w .SEMICOLON = 0 := rfl
theorem w_RETURN : w .RETURN = 0 := rfl
theorem w_DEFAULT : w .DEFAULT = 0 := rfl
theorem w_CASE : w .CASE = 0 := rfl
theorem w_EOF : w .EOF = 0 := rfl

theorem next_N {all : List Token} {s : PState} (hc : C all s) : Ms all s.next = Ns all s := M_tail hc

theorem expectPeek_N {all : List Token} {s s' : PState} {t : TokType} (h : s.expectPeek t = some s') (hc : C all s) :
    Ns all s' = Ns all s + w t ∧ Ms all s' = Ns all s := by
  obtain ⟨h1, h2⟩ := expectPeek_eq h
  refine ⟨?_, ?_⟩
  · simp only [Ns_iff, h1, h2, M_tail hc]
  · simp only [Ns_iff, Ms_iff, h1, M_tail hc]

theorem expectPeek_func {s s' : PState} {b : Bool} {t : TokType}
    (h : PState.expectPeek { toks := s.toks, prev := s.prev, tern := s.tern, func := b, depth := s.depth } t = some s') :
    ∃ s'', s.expectPeek t = some s'' ∧ s''.toks = s'.toks := by
  unfold PState.expectPeek at h
  split at h
  · rename_i hp
    cases h
    refine ⟨s.next, ?_, rfl⟩
    unfold PState.expectPeek
    rw [if_pos]; exact hp
  · cases h

theorem skipSemis_N {all : List Token} (n : Nat) (s : PState) (hc : Ct all s.toks) (hk : Kt s.toks) :
    Ns all (skipSemis s n) = Ns all s := by
  induction n generalizing s with
  | zero => rfl
  | succ n ih =>
    simp only [skipSemis]
    split
    · rename_i hp
      rw [peekIs_iff] at hp
      rw [ih s.next (Ct_tail hc hk) (by show Kt s.toks.tail; rw [Kt_iff, hp, legal_iff]; decide)]
      show M all s.toks.tail + w (s.toks.tail.headD Token.eof).ty = _
      rw [M_tail hc, hp, Ns_iff]; simp [w]
    · rfl


theorem clean_expr (all : List Token) (n : Nat) : ∀ prec s e s', parseExpression n prec s = some (e, s') → C all s → K s ∧ C all s' ∧ K s' := (IH_all all n).expr
theorem clean_loop (all : List Token) (n : Nat) : ∀ prec l s e s', infixLoop n prec l s = some (e, s') → C all s → K s → C all s' ∧ K s' := (IH_all all n).loop
theorem clean_pre (all : List Token) (n : Nat) : ∀ fn s e s', parsePrefix n fn s = some (e, s') → C all s → K s → C all s' ∧ K s' := (IH_all all n).pre
theorem clean_inf (all : List Token) (n : Nat) : ∀ fn l s e s', parseInfix n fn l s = some (e, s') → C all s → K s → C all s' ∧ K s' := (IH_all all n).inf
theorem clean_bracket (all : List Token) (n : Nat) : ∀ s e s', parseBracket n s = some (e, s') → C all s → K s → C all s' ∧ K s' := (IH_all all n).bracket
theorem clean_ifE (all : List Token) (n : Nat) : ∀ s e s', parseIf n s = some (e, s') → C all s → K s → C all s' ∧ K s' := (IH_all all n).ifE
theorem clean_stmt (all : List Token) (n : Nat) : ∀ s st s', parseStatement n s = some (st, s') → C all s → K s ∧ C all s' ∧ K s' := (IH_all all n).stmt
theorem clean_block (all : List Token) (n : Nat) : ∀ s b s', parseBlock n s = some (b, s') → C all s → K s → C all s' ∧ K s' := (IH_all all n).block
theorem clean_blockLoop (all : List Token) (n : Nat) : ∀ s acc b s', parseBlockLoop n s acc = some (b, s') → C all s → C all s' ∧ K s' := (IH_all all n).blockLoop
theorem clean_list (all : List Token) (n : Nat) : ∀ t s es s', legal t → parseExprList n t s = some (es, s') → C all s → K s → C all s' ∧ K s' := (IH_all all n).list
theorem clean_listLoop (all : List Token) (n : Nat) : ∀ t s acc es s', legal t → parseExprListLoop n t s acc = some (es, s') → C all s → K s → C all s' ∧ K s' := (IH_all all n).listLoop
theorem clean_hash (all : List Token) (n : Nat) : ∀ s acc ps s', parseHashPairs n s acc = some (ps, s') → C all s → K s → C all s' ∧ K s' ∧ s'.peekIs .RBRACE = true := (IH_all all n).hash
theorem clean_cases (all : List Token) (n : Nat) : ∀ s acc cs s', parseCases n s acc = some (cs, s') → C all s → C all s' ∧ K s' := (IH_all all n).cases
theorem clean_caseExprs (all : List Token) (n : Nat) : ∀ s acc es s', parseCaseExprs n s acc = some (es, s') → C all s → K s → C all s' ∧ K s' := (IH_all all n).caseExprs

set_option hygiene false in
macro "pbal0" : tactic => `(tactic| (
  repeat' split at h
  all_goals try contradiction
  all_goals try simp only [Option.map_eq_some_iff] at h
  all_goals grind (splits := 40) (gen := 30) (ematch := 30) (instances := 10000) [Ct_tail, C_next, CK_expectPeek, expectPeek_eq, K_iff, C_iff, Kt_iff, cur_eq, peek_eq, next_toks, curIs_iff, peekIs_iff,
    infixFn_legal, isPostfix_legal, prefixFn_illegal, parsePrefix_illegal, prefixFn_eof, parsePrefix_eof, prefixFn_none, legal_iff, skipSemis_toks, parseParams_CK,
    = M_tail, = Ms_iff, = Ns_iff, next_N, expectPeek_N, → expectPeek_func, → prefixFn_w, → infixFn_w, → isPostfix_w, pw_prefixOp, pw_eof, pw_boolLit, pw_floatLit, pw_whileS, pw_foreachS, pw_funcDef, pw_ident, pw_ifE, pw_illegal, pw_intLit, pw_localV, pw_hashLit, pw_grouped, pw_arrayLit, pw_regexpLit, pw_stringLit, pw_switchS, iw_binary, iw_assign, iw_call, iw_index, iw_ternary, skipSemis_N, w_LPAREN, w_LSQUARE, w_LBRACE, w_RPAREN, w_RSQUARE, w_RBRACE,
    w_COLON, w_COMMA, w_IDENT, w_IN, w_ELSE, w_IF, w_SEMICOLON, w_RETURN, w_DEFAULT, w_CASE, w_EOF,
    clean_expr, clean_loop, clean_pre, clean_inf, clean_bracket, clean_ifE, clean_stmt, clean_block, clean_blockLoop, clean_list, clean_listLoop, clean_hash, clean_cases, clean_caseExprs]))

theorem parseParams_loop_N {all : List Token} (fuel : Nat) (s : PState) (acc : List Str) (ps : List Str) (s' : PState)
    (h : parseParams.loop fuel s acc = some (ps, s')) (hc : C all s) : Ns all s' = Ms all s - 1 := by
  induction fuel generalizing s acc with
  | zero => simp [parseParams.loop] at h
  | succ n ih =>
    simp only [parseParams.loop] at h
    pbal0

theorem parseParams_N {all : List Token} (s : PState) (ps : List Str) (s' : PState)
    (h : parseParams s = some (ps, s')) (hc : C all s) (hk : K s) : Ns all s' = Ns all s - 1 := by
  simp only [parseParams] at h
  split at h
  · pbal0
  · have := parseParams_loop_N _ _ _ _ _ h (C_next hc hk)
    grind [= M_tail, = Ms_iff, = Ns_iff, C_iff, next_toks]

set_option hygiene false in
macro "pbal" : tactic => `(tactic| (
  repeat' split at h
  all_goals try contradiction
  all_goals try simp only [Option.map_eq_some_iff] at h
  all_goals grind (splits := 40) (gen := 30) (ematch := 30) (instances := 10000) [parseParams_N, Ct_tail, C_next, CK_expectPeek, expectPeek_eq, K_iff, C_iff, Kt_iff, cur_eq, peek_eq, next_toks, curIs_iff, peekIs_iff,
    infixFn_legal, isPostfix_legal, prefixFn_illegal, parsePrefix_illegal, prefixFn_eof, parsePrefix_eof, prefixFn_none, legal_iff, skipSemis_toks, parseParams_CK,
    = M_tail, = Ms_iff, = Ns_iff, next_N, expectPeek_N, → expectPeek_func, → prefixFn_w, → infixFn_w, → isPostfix_w, pw_prefixOp, pw_eof, pw_boolLit, pw_floatLit, pw_whileS, pw_foreachS, pw_funcDef, pw_ident, pw_ifE, pw_illegal, pw_intLit, pw_localV, pw_hashLit, pw_grouped, pw_arrayLit, pw_regexpLit, pw_stringLit, pw_switchS, iw_binary, iw_assign, iw_call, iw_index, iw_ternary, skipSemis_N, w_LPAREN, w_LSQUARE, w_LBRACE, w_RPAREN, w_RSQUARE, w_RBRACE,
    w_COLON, w_COMMA, w_IDENT, w_IN, w_ELSE, w_IF, w_SEMICOLON, w_RETURN, w_DEFAULT, w_CASE, w_EOF,
    clean_expr, clean_loop, clean_pre, clean_inf, clean_bracket, clean_ifE, clean_stmt, clean_block, clean_blockLoop, clean_list, clean_listLoop, clean_hash, clean_cases, clean_caseExprs]))

structure IHB (all : List Token) (n : Nat) : Prop where
  expr : ∀ prec s e s', parseExpression n prec s = some (e, s') → C all s → Ns all s' = Ms all s
  loop : ∀ prec l s e s', infixLoop n prec l s = some (e, s') → C all s → K s → Ns all s' = Ns all s
  pre : ∀ fn s e s', parsePrefix n fn s = some (e, s') → C all s → K s → Ns all s' = Ns all s - pw fn
  inf : ∀ fn l s e s', parseInfix n fn l s = some (e, s') → C all s → K s → Ns all s' = Ns all s - iw fn
  bracket : ∀ s e s', parseBracket n s = some (e, s') → C all s → K s → Ns all s' = Ns all s
  ifE : ∀ s e s', parseIf n s = some (e, s') → C all s → K s → Ns all s' = Ns all s
  stmt : ∀ s st s', parseStatement n s = some (st, s') → C all s → Ns all s' = Ms all s
  block : ∀ s b s', parseBlock n s = some (b, s') → C all s → K s → Ns all s' = Ns all s - 1
  blockLoop : ∀ s acc b s', parseBlockLoop n s acc = some (b, s') → C all s → Ns all s' = Ms all s - 1
  list : ∀ t s es s', w t = -1 → legal t → parseExprList n t s = some (es, s') → C all s → K s → Ns all s' = Ns all s - 1
  listLoop : ∀ t s acc es s', w t = -1 → legal t → parseExprListLoop n t s acc = some (es, s') → C all s → K s → Ns all s' = Ns all s - 1
  hash : ∀ s acc ps s', parseHashPairs n s acc = some (ps, s') → C all s → K s → Ns all s' = Ns all s
  cases : ∀ s acc cs s', parseCases n s acc = some (cs, s') → C all s → Ns all s' = Ms all s - 1
  caseExprs : ∀ s acc es s', parseCaseExprs n s acc = some (es, s') → C all s → K s → Ns all s' = Ns all s

theorem IHB_zero (all : List Token) : IHB all 0 := by
  constructor <;> intros <;> simp_all [parseExpression, infixLoop, parsePrefix, parseInfix, parseBracket, parseIf,
    parseStatement, parseBlock, parseBlockLoop, parseExprList, parseExprListLoop, parseHashPairs, parseCases, parseCaseExprs]

theorem bstep_expr (all : List Token) (n : Nat) (ih : IHB all n) : ∀ prec s e s', parseExpression (n + 1) prec s = some (e, s') → C all s → Ns all s' = Ms all s := by
  obtain ⟨bE, bL, bP, bI, bB, bIf, bS, bBl, bBL, bLs, bLL, bH, bC, bCE⟩ := ih
  intro prec s e s' h hc
  simp only [parseExpression] at h
  pbal

theorem bstep_loop (all : List Token) (n : Nat) (ih : IHB all n) : ∀ prec l s e s', infixLoop (n + 1) prec l s = some (e, s') → C all s → K s → Ns all s' = Ns all s := by
  obtain ⟨bE, bL, bP, bI, bB, bIf, bS, bBl, bBL, bLs, bLL, bH, bC, bCE⟩ := ih
  intro prec l s e s' h hc hk
  simp only [infixLoop] at h
  pbal

theorem bstep_pre_funcDef (all : List Token) (n : Nat) (ih : IHB all n) (s : PState) (e : Expr) (s' : PState)
    (h : parsePrefix (n + 1) .funcDef s = some (e, s')) (hc : C all s) (hk : K s) : Ns all s' = Ns all s := by
  obtain ⟨bE, bL, bP, bI, bB, bIf, bS, bBl, bBL, bLs, bLL, bH, bC, bCE⟩ := ih
  simp only [parsePrefix] at h
  split at h; contradiction
  rename_i s1 h1
  split at h; contradiction
  rename_i s2 h2
  split at h; contradiction
  rename_i ps s3 h3
  split at h; contradiction
  rename_i s4 h4
  split at h; contradiction
  rename_i b s5 h5
  cases h
  obtain ⟨s1', h1', ht⟩ := expectPeek_func h1
  have c1 := CK_expectPeek h1' (by rw [legal_iff]; decide) hc hk
  have a1 := expectPeek_N h1' hc
  have c1' : C all s1 ∧ K s1 := by simpa [C_iff, K_iff, ht] using c1
  have n1 : Ns all s1 = Ns all s1' := by simp [Ns_iff, ht]
  have c2 := CK_expectPeek h2 (by rw [legal_iff]; decide) c1'.1 c1'.2
  have a2 := expectPeek_N h2 c1'.1
  have c3 := parseParams_CK _ _ _ h3 c2.1 c2.2
  have a3 := parseParams_N _ _ _ h3 c2.1 c2.2
  have c4 := CK_expectPeek h4 (by rw [legal_iff]; decide) c3.1 c3.2
  have a4 := expectPeek_N h4 c3.1
  have a5 := bBl _ _ _ h5 c4.1 c4.2
  show Ns all s5 = Ns all s
  simp only [w_IDENT, w_LPAREN, w_LBRACE] at a1 a2 a4
  omega

set_option maxHeartbeats 2000000 in
theorem bstep_pre (all : List Token) (n : Nat) (ih : IHB all n) : ∀ fn s e s', parsePrefix (n + 1) fn s = some (e, s') → C all s → K s → Ns all s' = Ns all s - pw fn := by
  intro fn s e s' h hc hk
  by_cases hf : fn = .funcDef
  · subst hf
    rw [bstep_pre_funcDef all n ih s e s' h hc hk, pw_funcDef]; omega
  · obtain ⟨bE, bL, bP, bI, bB, bIf, bS, bBl, bBL, bLs, bLL, bH, bC, bCE⟩ := ih
    cases fn <;> first | contradiction | (simp only [parsePrefix] at h; pbal)

theorem bstep_inf (all : List Token) (n : Nat) (ih : IHB all n) : ∀ fn l s e s', parseInfix (n + 1) fn l s = some (e, s') → C all s → K s → Ns all s' = Ns all s - iw fn := by
  obtain ⟨bE, bL, bP, bI, bB, bIf, bS, bBl, bBL, bLs, bLL, bH, bC, bCE⟩ := ih
  intro fn l s e s' h hc hk
  simp only [parseInfix] at h
  pbal

theorem bstep_bracket (all : List Token) (n : Nat) (ih : IHB all n) : ∀ s e s', parseBracket (n + 1) s = some (e, s') → C all s → K s → Ns all s' = Ns all s := by
  obtain ⟨bE, bL, bP, bI, bB, bIf, bS, bBl, bBL, bLs, bLL, bH, bC, bCE⟩ := ih
  intro s e s' h hc hk
  simp only [parseBracket] at h
  pbal

set_option maxHeartbeats 2000000 in
theorem bstep_ifE (all : List Token) (n : Nat) (ih : IHB all n) : ∀ s e s', parseIf (n + 1) s = some (e, s') → C all s → K s → Ns all s' = Ns all s := by
  obtain ⟨bE, bL, bP, bI, bB, bIf, bS, bBl, bBL, bLs, bLL, bH, bC, bCE⟩ := ih
  intro s e s' h hc hk
  simp only [parseIf] at h
  pbal

theorem bstep_stmt (all : List Token) (n : Nat) (ih : IHB all n) : ∀ s st s', parseStatement (n + 1) s = some (st, s') → C all s → Ns all s' = Ms all s := by
  obtain ⟨bE, bL, bP, bI, bB, bIf, bS, bBl, bBL, bLs, bLL, bH, bC, bCE⟩ := ih
  intro s st s' h hc
  simp only [parseStatement] at h
  pbal

theorem bstep_block (all : List Token) (n : Nat) (ih : IHB all n) : ∀ s b s', parseBlock (n + 1) s = some (b, s') → C all s → K s → Ns all s' = Ns all s - 1 := by
  obtain ⟨bE, bL, bP, bI, bB, bIf, bS, bBl, bBL, bLs, bLL, bH, bC, bCE⟩ := ih
  intro s b s' h hc hk
  simp only [parseBlock] at h
  pbal

theorem bstep_blockLoop (all : List Token) (n : Nat) (ih : IHB all n) : ∀ s acc b s', parseBlockLoop (n + 1) s acc = some (b, s') → C all s → Ns all s' = Ms all s - 1 := by
  obtain ⟨bE, bL, bP, bI, bB, bIf, bS, bBl, bBL, bLs, bLL, bH, bC, bCE⟩ := ih
  intro s acc b s' h hc
  simp only [parseBlockLoop] at h
  pbal

theorem bstep_list (all : List Token) (n : Nat) (ih : IHB all n) : ∀ t s es s', w t = -1 → legal t → parseExprList (n + 1) t s = some (es, s') → C all s → K s → Ns all s' = Ns all s - 1 := by
  obtain ⟨bE, bL, bP, bI, bB, bIf, bS, bBl, bBL, bLs, bLL, bH, bC, bCE⟩ := ih
  intro t s es s' hw ht h hc hk
  simp only [parseExprList] at h
  pbal

theorem bstep_listLoop (all : List Token) (n : Nat) (ih : IHB all n) : ∀ t s acc es s', w t = -1 → legal t → parseExprListLoop (n + 1) t s acc = some (es, s') → C all s → K s → Ns all s' = Ns all s - 1 := by
  obtain ⟨bE, bL, bP, bI, bB, bIf, bS, bBl, bBL, bLs, bLL, bH, bC, bCE⟩ := ih
  intro t s acc es s' hw ht h hc hk
  simp only [parseExprListLoop] at h
  pbal

theorem bstep_hash (all : List Token) (n : Nat) (ih : IHB all n) : ∀ s acc ps s', parseHashPairs (n + 1) s acc = some (ps, s') → C all s → K s → Ns all s' = Ns all s := by
  obtain ⟨bE, bL, bP, bI, bB, bIf, bS, bBl, bBL, bLs, bLL, bH, bC, bCE⟩ := ih
  intro s acc ps s' h hc hk
  simp only [parseHashPairs] at h
  pbal

theorem bstep_cases (all : List Token) (n : Nat) (ih : IHB all n) : ∀ s acc cs s', parseCases (n + 1) s acc = some (cs, s') → C all s → Ns all s' = Ms all s - 1 := by
  obtain ⟨bE, bL, bP, bI, bB, bIf, bS, bBl, bBL, bLs, bLL, bH, bC, bCE⟩ := ih
  intro s acc cs s' h hc
  simp only [parseCases] at h
  pbal

theorem bstep_caseExprs (all : List Token) (n : Nat) (ih : IHB all n) : ∀ s acc es s', parseCaseExprs (n + 1) s acc = some (es, s') → C all s → K s → Ns all s' = Ns all s := by
  obtain ⟨bE, bL, bP, bI, bB, bIf, bS, bBl, bBL, bLs, bLL, bH, bC, bCE⟩ := ih
  intro s acc es s' h hc hk
  simp only [parseCaseExprs] at h
  pbal

theorem IHB_succ (all : List Token) (n : Nat) (ih : IHB all n) : IHB all (n + 1) :=
  ⟨bstep_expr all n ih, bstep_loop all n ih, bstep_pre all n ih, bstep_inf all n ih, bstep_bracket all n ih, bstep_ifE all n ih, bstep_stmt all n ih, bstep_block all n ih, bstep_blockLoop all n ih, bstep_list all n ih, bstep_listLoop all n ih, bstep_hash all n ih, bstep_cases all n ih, bstep_caseExprs all n ih⟩

theorem IHB_all (all : List Token) : ∀ n, IHB all n
  | 0 => IHB_zero all
  | n + 1 => IHB_succ all n (IHB_all all n)


theorem parseProgramLoop_balance (all : List Token) (fuel efuel : Nat) (s : PState) (acc p : List Stmt)
    (h : parseProgramLoop fuel efuel s acc = some p) (hc : C all s) :
    ∃ s', C all s' ∧ s'.curIs .EOF = true ∧ Ms all s' = Ms all s := by
  induction fuel generalizing s acc with
  | zero => simp [parseProgramLoop] at h
  | succ n ih =>
    simp only [parseProgramLoop] at h
    split at h
    · exact ⟨s, hc, by assumption, rfl⟩
    · split at h
      · contradiction
      · split at h
        · contradiction
        · rename_i st s1 hst
          obtain ⟨_, hc1, hk1⟩ := (IH_all all efuel).stmt _ _ _ hst hc
          have hb := (IHB_all all efuel).stmt _ _ _ hst hc
          obtain ⟨s', h1, h2, h3⟩ := ih _ _ h (C_next hc1 hk1)
          exact ⟨s', h1, h2, by rw [h3, next_N hc1, hb]⟩

theorem takeWhile_append_stop {α : Type} (p : α → Bool) (pre rest : List α)
    (hp : ∀ x ∈ pre, p x = true) (hr : rest.takeWhile p = []) : (pre ++ rest).takeWhile p = pre := by
  induction pre with
  | nil => simpa using hr
  | cons a pre ih =>
    have ha := hp a (List.mem_cons_self ..)
    simp only [List.cons_append, List.takeWhile_cons, ha, ↓reduceIte]
    rw [ih (fun x hx => hp x (List.mem_cons_of_mem _ hx))]

/-- **Brackets balance in every accepted program**: over the tokens up to the end of input, the
    number of opening brackets `( [ {` equals the number of closing ones. -/
theorem parse_balanced (toks : List Token) (p : Program) (h : parse toks = some p) :
    net (toks.takeWhile (fun t => t.ty != .EOF)) = 0 := by
  unfold parse at h
  obtain ⟨s', hc', heof, hm⟩ := parseProgramLoop_balance toks _ _ _ _ _ h ⟨[], rfl, by simp⟩
  obtain ⟨pre, hpre, hleg⟩ := hc'
  have hstop : s'.toks.takeWhile (fun t => t.ty != .EOF) = [] := by
    rw [curIs_iff] at heof
    cases hs : s'.toks with
    | nil => rfl
    | cons a rest =>
      rw [hs] at heof
      simp only [List.headD_cons] at heof
      simp [heof]
  have htw : toks.takeWhile (fun t => t.ty != .EOF) = pre := by
    conv => lhs; rw [hpre]
    exact takeWhile_append_stop _ pre s'.toks (fun x hx => by simpa using (hleg x hx).2.1) hstop
  rw [htw]
  have : Ms toks s' = net pre := M_of_split hpre
  rw [← this, hm]
  exact M_self toks

/-- contrapositive, as the property states it: a token list that leaves a bracket open (or closes one
    too many) is rejected, wherever the unbalanced bracket stands -/
theorem unbalanced_rejected (toks : List Token) (h : net (toks.takeWhile (fun t => t.ty != .EOF)) ≠ 0) :
    parse toks = none := by
  cases hp : parse toks with
  | none => rfl
  | some p => exact absurd (parse_balanced toks p hp) h

end EvalFilter.Parser
