/-
  Constant references are in range and every function body is closed, well-referenced and ends in a
  return - for every tree, offset and compiler state; hence every accepted script compiles (before the
  optimizer runs) to a program that satisfies the static conditions of the byte-code verifier.
-/
import EvalFilter.Proofs.CompJumps
set_option linter.unusedSimpArgs false
set_option linter.unusedVariables false
namespace EvalFilter.Compiler
open EvalFilter

def isConstOp (o : Op) : Prop := o = .constant ∨ o = .lookup ∨ o = .inc ∨ o = .dec

/-- every constant reference in `code` is below `n` -/
def CodeOk (n : Nat) (code : List Instr) : Prop := ∀ i, i ∈ code → isConstOp i.op → i.arg < n

theorem CodeOk_mono {n m : Nat} {code : List Instr} (h : CodeOk n code) (hle : n ≤ m) : CodeOk m code :=
  fun i hi hc => Nat.lt_of_lt_of_le (h i hi hc) hle

theorem CodeOk_append {n : Nat} {a b : List Instr} : CodeOk n (a ++ b) ↔ CodeOk n a ∧ CodeOk n b := by
  simp only [CodeOk, List.mem_append]
  constructor
  · intro h; exact ⟨fun i hi => h i (Or.inl hi), fun i hi => h i (Or.inr hi)⟩
  · rintro ⟨h1, h2⟩ i (hi | hi); exact h1 i hi; exact h2 i hi

theorem CodeOk_nil {n : Nat} : CodeOk n [] := by intro i hi; cases hi

theorem CodeOk_cons {n : Nat} {i : Instr} {is : List Instr} : CodeOk n (i :: is) ↔ (isConstOp i.op → i.arg < n) ∧ CodeOk n is := by
  simp only [CodeOk, List.mem_cons]
  constructor
  · intro h; exact ⟨h i (Or.inl rfl), fun j hj => h j (Or.inr hj)⟩
  · rintro ⟨h1, h2⟩ j (rfl | hj); exact h1; exact h2 j hj

theorem findConst_lt (cs : List Value) (v : Value) (i k : Nat) (h : findConst cs v i = some k) : k < i + cs.length := by
  induction cs generalizing i with
  | nil => simp [findConst] at h
  | cons c rest ih =>
    simp only [findConst] at h
    split at h
    · cases h; simp
    · have := ih (i + 1) h; simp; omega

theorem addConstant_spec (st : CState) (v : Value) :
    (addConstant st v).1 < (addConstant st v).2.consts.length ∧ st.consts.length ≤ (addConstant st v).2.consts.length ∧
    (addConstant st v).2.funcs = st.funcs := by
  unfold addConstant
  split
  · rename_i i h
    have := findConst_lt _ _ _ _ h
    simp; omega
  · simp

theorem addConstant_ext (st : CState) (v : Value) : ∃ extra, (addConstant st v).2.consts = st.consts ++ extra := by
  unfold addConstant
  split
  · exact ⟨[], by simp⟩
  · exact ⟨[v], rfl⟩

theorem withConst_spec (st : CState) (op : Op) (v : Value) :
    (withConst st op v).1.arg < (withConst st op v).2.consts.length ∧ st.consts.length ≤ (withConst st op v).2.consts.length ∧
    (withConst st op v).2.funcs = st.funcs ∧ (withConst st op v).1.op = op := by
  have := addConstant_spec st v
  exact ⟨this.1, this.2.1, this.2.2, rfl⟩

/-- the last instruction is a return (so no path runs off the end of the body) -/
def EndsRet (code : List Instr) : Prop := ∃ pre i, code = pre ++ [i] ∧ i.op = .return

structure FnOk (n : Nat) (f : FnDef) : Prop where
  closed : Closed 0 f.code
  consts : CodeOk n f.code
  ends : EndsRet f.code

def StOk (st : CState) : Prop := ∀ f, f ∈ st.funcs → FnOk st.consts.length f

theorem FnOk_mono {n m : Nat} {f : FnDef} (h : FnOk n f) (hle : n ≤ m) : FnOk m f :=
  ⟨h.closed, CodeOk_mono h.consts hle, h.ends⟩

theorem StOk_of {st st' : CState} (h : StOk st) (hf : st'.funcs = st.funcs) (hle : st.consts.length ≤ st'.consts.length) :
    StOk st' := by
  intro f hfm
  rw [hf] at hfm
  exact FnOk_mono (h f hfm) hle

/-- what every compile function guarantees about the code it returns and the state it leaves -/
structure R (st : CState) (code : List Instr) (st' : CState) : Prop where
  grow : st.consts.length ≤ st'.consts.length
  code : CodeOk st'.consts.length code
  funcs : StOk st → StOk st'
  /-- the constant pool only grows at its end -/
  ext : ∃ extra, st'.consts = st.consts ++ extra

theorem R_leaf_const (st : CState) (op : Op) (v : Value) : R st [(withConst st op v).1] (withConst st op v).2 := by
  have := withConst_spec st op v
  exact ⟨this.2.1, by intro i hi _; simp at hi; subst hi; exact this.1, fun h => StOk_of h this.2.2.1 this.2.1,
    addConstant_ext st v⟩


theorem R_id (st : CState) : R st [] st := ⟨Nat.le_refl _, CodeOk_nil, id, ⟨[], by simp⟩⟩

theorem R_seq {st st1 st2 : CState} {a b : List Instr} (h1 : R st a st1) (h2 : R st1 b st2) : R st (a ++ b) st2 :=
  ⟨Nat.le_trans h1.grow h2.grow, CodeOk_append.mpr ⟨CodeOk_mono h1.code h2.grow, h2.code⟩, fun h => h2.funcs (h1.funcs h),
    by obtain ⟨e1, h1'⟩ := h1.ext; obtain ⟨e2, h2'⟩ := h2.ext; exact ⟨e1 ++ e2, by rw [h2', h1']; simp⟩⟩

theorem R_pure (st : CState) (code : List Instr) (h : ∀ i, i ∈ code → ¬ isConstOp i.op) : R st code st :=
  ⟨Nat.le_refl _, fun i hi hc => absurd hc (h i hi), id, ⟨[], by simp⟩⟩

theorem R_snoc_pure {st st' : CState} {a : List Instr} (h1 : R st a st') (code : List Instr)
    (h : ∀ i, i ∈ code → ¬ isConstOp i.op) : R st (a ++ code) st' := R_seq h1 (R_pure st' code h)

theorem binaryOp_nc {op : Str} {o : Op} (h : binaryOp op = some o) : ¬ isConstOp o := by
  unfold binaryOp at h; split at h <;> first | (cases h; simp [isConstOp]) | cases h
theorem compoundOp_nc {op : Str} {o : Op} (h : compoundOp op = some o) : ¬ isConstOp o := by
  unfold compoundOp at h; split at h <;> first | (cases h; simp [isConstOp]) | cases h
theorem prefixOp_nc {op : Str} {o : Op} (h : prefixOp op = some o) : ¬ isConstOp o := by
  unfold prefixOp at h; split at h <;> first | (cases h; simp [isConstOp]) | cases h

theorem mem_setFunc {fs : List FnDef} {g f : FnDef} (h : f ∈ setFunc fs g) : f = g ∨ f ∈ fs := by
  induction fs with
  | nil => simp [setFunc] at h; exact Or.inl h
  | cons x xs ih =>
    simp only [setFunc] at h
    split at h
    · rcases List.mem_cons.mp h with h | h
      · exact Or.inl h
      · exact Or.inr (List.mem_cons_of_mem _ h)
    · rcases List.mem_cons.mp h with h | h
      · exact Or.inr (h ▸ List.mem_cons_self ..)
      · rcases ih h with h | h
        · exact Or.inl h
        · exact Or.inr (List.mem_cons_of_mem _ h)

theorem Closed_snoc_ret {code : List Instr} (h : Closed 0 code) : Closed 0 (code ++ [⟨Op.void, 0⟩, ⟨Op.return, 0⟩]) := by
  simp only [Closed] at *
  simp only [targets_append, starts_append, targets, starts]
  simp
  grind

set_option hygiene false in
macro "nc" : tactic => `(tactic| (intro i hi; simp at hi; rcases hi with rfl | rfl | rfl <;> simp [isConstOp]))

mutual
  theorem compileExpr_R : ∀ (e : Expr) (base : Nat) (st : CState) (r : List Instr × CState),
      compileExpr e base st = .ok r → R st r.1 r.2
    | .boolLit b, base, st, r, h => by
      simp only [compileExpr, pure, Except.pure] at h; cases h
      exact R_pure st _ (by intro i hi; simp at hi; subst hi; split <;> simp [isConstOp])
    | .floatLit _ _, base, st, r, h => by
      simp only [compileExpr, pure, Except.pure] at h; cases h; exact R_leaf_const ..
    | .intLit _ v, base, st, r, h => by
      simp only [compileExpr, pure, Except.pure] at h
      split at h
      · cases h; exact R_pure st _ (by intro i hi; simp at hi; subst hi; simp [isConstOp])
      · cases h; exact R_leaf_const ..
    | .strLit _, base, st, r, h => by
      simp only [compileExpr, pure, Except.pure] at h; cases h; exact R_leaf_const ..
    | .regexpLit _ _ _, base, st, r, h => by
      simp only [compileExpr, pure, Except.pure] at h; cases h; exact R_leaf_const ..
    | .arrayLit els, base, st, r, h => by
      simp only [compileExpr, bind_ok_eq, pure, Except.pure] at h
      obtain ⟨⟨c, st1⟩, h1, h2⟩ := h
      have r1 := compileExprs_R els base st _ h1
      cases h2
      exact R_snoc_pure r1 _ (by intro i hi; simp at hi; subst hi; simp [isConstOp])
    | .hashLit pairs, base, st, r, h => by
      simp only [compileExpr, bind_ok_eq, pure, Except.pure] at h
      obtain ⟨⟨c, st1⟩, h1, h2⟩ := h
      have r1 := compilePairs_R pairs base st _ h1
      cases h2
      exact R_snoc_pure r1 _ (by intro i hi; simp at hi; subst hi; simp [isConstOp])
    | .infix op l r', base, st, r, h => by
      simp only [compileExpr, bind_ok_eq] at h
      obtain ⟨⟨cl, st1⟩, h1, ⟨cr, st2⟩, h2, h3⟩ := h
      have r1 := compileExpr_R l base st _ h1
      have r2 := compileExpr_R r' _ _ _ h2
      simp only at r1 r2 h3
      by_cases hco : isCompound op = true
      · simp only [hco, ↓reduceIte] at h3
        split at h3
        · rename_i _ name o hc
          simp only [pure, Except.pure] at h3; cases h3
          have nc := compoundOp_nc hc
          have := R_seq (R_seq (R_seq r1 r2) (R_pure st2 [⟨o, 0⟩] (by intro i hi; simp at hi; subst hi; exact nc)))
            (R_snoc_pure (R_leaf_const st2 .constant (.str name)) [⟨.set, 0⟩] (by intro i hi; simp at hi; subst hi; simp [isConstOp]))
          simpa [List.append_assoc] using this
        · cases h3
      · simp only [hco, Bool.false_eq_true, ↓reduceIte] at h3
        split at h3
        · rename_i o hb
          simp only [pure, Except.pure] at h3; cases h3
          have nc := binaryOp_nc hb
          exact R_snoc_pure (R_seq r1 r2) _ (by intro i hi; simp at hi; subst hi; exact nc)
        · cases h3
    | .prefix op r', base, st, r, h => by
      simp only [compileExpr, bind_ok_eq] at h
      obtain ⟨⟨cr, st1⟩, h1, h3⟩ := h
      have r1 := compileExpr_R r' base st _ h1
      simp only at r1 h3
      split at h3
      · rename_i o hb
        simp only [pure, Except.pure] at h3; cases h3
        have nc := prefixOp_nc hb
        exact R_snoc_pure r1 _ (by intro i hi; simp at hi; subst hi; exact nc)
      · cases h3
    | .postfix _ _, base, st, r, h => by
      simp only [compileExpr, pure, Except.pure] at h
      split at h
      · cases h; exact R_leaf_const ..
      · split at h
        · cases h; exact R_leaf_const ..
        · cases h
    | .localE _, base, st, r, h => by
      simp only [compileExpr, pure, Except.pure] at h; cases h
      exact R_snoc_pure (R_leaf_const ..) [⟨.local, 0⟩] (by intro i hi; simp at hi; subst hi; simp [isConstOp])
    | .foreachE idx ident v body, base, st, r, h => by
      simp only [compileExpr, bind_ok_eq, pure, Except.pure] at h
      obtain ⟨⟨cv, st1⟩, h1, ⟨cb, st2⟩, h2, h3⟩ := h
      have r1 := compileExpr_R v base st _ h1
      have r2 := compileStmts_R body _ _ _ h2
      cases h3
      simp only at r1 r2
      have := R_snoc_pure (R_seq (R_snoc_pure (R_seq (R_seq (R_snoc_pure r1 [⟨.iterationReset, 0⟩]
        (by intro i hi; simp at hi; subst hi; simp [isConstOp])) (R_leaf_const st1 .constant (.str idx)))
        (R_leaf_const _ .constant (.str ident)))
        [⟨.iterationNext, 0⟩, ⟨.jumpIfFalse, base + v.size + 1 + 3 + 3 + 1 + 3 + Stmt.sizes body + 3⟩]
        (by intro i hi; simp at hi; rcases hi with rfl | rfl <;> simp [isConstOp])) r2)
        [⟨.jump, base + v.size + 1⟩, ⟨.placeholder, 0⟩] (by intro i hi; simp at hi; rcases hi with rfl | rfl <;> simp [isConstOp])
      simpa [List.append_assoc] using this
    | .funcDef name params body, base, st, r, h => by
      simp only [compileExpr, bind_ok_eq, pure, Except.pure] at h
      obtain ⟨⟨cb, st1⟩, h1, h3⟩ := h
      have r1 := compileStmts_R body 0 st _ h1
      have c1 := compileStmts_closed body 0 st _ h1
      cases h3
      simp only at r1 c1
      refine ⟨r1.grow, CodeOk_nil, ?_, r1.ext⟩
      intro hst f hf
      have hst1 := r1.funcs hst
      rcases mem_setFunc hf with rfl | hf
      · cases hl : cb.getLast? with
        | none =>
          simp only [hl, Bool.false_eq_true, ↓reduceIte]
          refine ⟨Closed_snoc_ret c1, ?_, ⟨cb ++ [⟨Op.void, 0⟩], ⟨Op.return, 0⟩, by simp, rfl⟩⟩
          exact CodeOk_append.mpr ⟨r1.code, by intro i hi; simp at hi; rcases hi with rfl | rfl <;> simp [isConstOp]⟩
        | some i =>
          simp only [hl]
          by_cases hret : (i.op == Op.return) = true
          · simp only [hret, ↓reduceIte]
            obtain ⟨pre, hpre⟩ := List.getLast?_eq_some_iff.mp hl
            exact ⟨c1, r1.code, ⟨pre, i, hpre, by simpa using hret⟩⟩
          · simp only [hret, Bool.false_eq_true, ↓reduceIte]
            refine ⟨Closed_snoc_ret c1, ?_, ⟨cb ++ [⟨Op.void, 0⟩], ⟨Op.return, 0⟩, by simp, rfl⟩⟩
            exact CodeOk_append.mpr ⟨r1.code, by intro i hi; simp at hi; rcases hi with rfl | rfl <;> simp [isConstOp]⟩
      · exact hst1 f hf
    | .ifE c cons none, base, st, r, h => by
      simp only [compileExpr, bind_ok_eq, pure, Except.pure] at h
      obtain ⟨⟨cc, st1⟩, h1, ⟨ca, st2⟩, h2, h3⟩ := h
      have r1 := compileExpr_R c base st _ h1
      have r2 := compileStmts_R cons _ _ _ h2
      cases h3
      simp only at r1 r2
      have := R_snoc_pure (R_seq (R_snoc_pure r1 [⟨.jumpIfFalse, base + c.size + 3 + Stmt.sizes cons⟩]
        (by intro i hi; simp at hi; subst hi; simp [isConstOp])) r2) [⟨.placeholder, 0⟩]
        (by intro i hi; simp at hi; subst hi; simp [isConstOp])
      simpa [List.append_assoc] using this
    | .ifE c cons (some a), base, st, r, h => by
      simp only [compileExpr, bind_ok_eq, pure, Except.pure] at h
      obtain ⟨⟨cc, st1⟩, h1, ⟨ca, st2⟩, h2, ⟨cb, st3⟩, h4, h5⟩ := h
      have r1 := compileExpr_R c base st _ h1
      have r2 := compileStmts_R cons _ _ _ h2
      have r3 := compileStmts_R a _ _ _ h4
      cases h5
      simp only at r1 r2 r3
      have := R_snoc_pure (R_seq (R_snoc_pure (R_seq (R_snoc_pure r1 [⟨.jumpIfFalse, base + c.size + 3 + Stmt.sizes cons + 3⟩]
        (by intro i hi; simp at hi; subst hi; simp [isConstOp])) r2)
        [⟨.jump, base + c.size + 3 + Stmt.sizes cons + 3 + Stmt.sizes a⟩] (by intro i hi; simp at hi; subst hi; simp [isConstOp])) r3)
        [⟨.placeholder, 0⟩] (by intro i hi; simp at hi; subst hi; simp [isConstOp])
      simpa [List.append_assoc] using this
    | .ternary c t f, base, st, r, h => by
      simp only [compileExpr, bind_ok_eq, pure, Except.pure] at h
      obtain ⟨⟨cc, st1⟩, h1, ⟨ct, st2⟩, h2, ⟨cf, st3⟩, h3, h4⟩ := h
      have r1 := compileExpr_R c base st _ h1
      have r2 := compileExpr_R t _ _ _ h2
      have r3 := compileExpr_R f _ _ _ h3
      cases h4
      simp only at r1 r2 r3
      have := R_snoc_pure (R_seq (R_snoc_pure (R_seq (R_snoc_pure r1 [⟨.jumpIfFalse, base + c.size + 3 + t.size + 3⟩]
        (by intro i hi; simp at hi; subst hi; simp [isConstOp])) r2)
        [⟨.jump, base + c.size + 3 + t.size + 3 + f.size⟩] (by intro i hi; simp at hi; subst hi; simp [isConstOp])) r3)
        [⟨.placeholder, 0⟩] (by intro i hi; simp at hi; subst hi; simp [isConstOp])
      simpa [List.append_assoc] using this
    | .switchE v cs, base, st, r, h => by
      simp only [compileExpr, bind_ok_eq, pure, Except.pure] at h
      obtain ⟨st0, h0, ⟨ca, st1⟩, h1, ⟨cd, st2⟩, h2, h3⟩ := h
      have r0 : R st [] st0 := by
        split at h0
        · cases h0; exact R_id st
        · simp only [bind_ok_eq] at h0
          obtain ⟨⟨c0, s0⟩, hv, hs⟩ := h0
          cases hs
          have rv := compileExpr_R v base st _ hv
          exact ⟨rv.grow, CodeOk_nil, rv.funcs, rv.ext⟩
      have r1 := compileArms_R (fun b s => compileExpr v b s) v.size
        (fun b s r hr => compileExpr_R v b s r hr) cs _ _ _ _ h1
      have r2 := compileDefaults_R cs _ _ _ h2
      cases h3
      simp only at r1 r2
      have := R_snoc_pure (R_seq (R_seq r0 r1) r2) [⟨.placeholder, 0⟩] (by intro i hi; simp at hi; subst hi; simp [isConstOp])
      simpa [List.append_assoc] using this
    | .whileE c body, base, st, r, h => by
      simp only [compileExpr, bind_ok_eq, pure, Except.pure] at h
      obtain ⟨⟨cc, st1⟩, h1, ⟨cb, st2⟩, h2, h3⟩ := h
      have r1 := compileExpr_R c base st _ h1
      have r2 := compileStmts_R body _ _ _ h2
      cases h3
      simp only at r1 r2
      have := R_snoc_pure (R_seq (R_snoc_pure r1 [⟨.jumpIfFalse, base + c.size + 3 + Stmt.sizes body + 3⟩]
        (by intro i hi; simp at hi; subst hi; simp [isConstOp])) r2) [⟨.jump, base⟩, ⟨.placeholder, 0⟩]
        (by intro i hi; simp at hi; rcases hi with rfl | rfl <;> simp [isConstOp])
      simpa [List.append_assoc] using this
    | .assign name v, base, st, r, h => by
      simp only [compileExpr, bind_ok_eq, pure, Except.pure] at h
      obtain ⟨⟨cv, st1⟩, h1, h3⟩ := h
      have r1 := compileExpr_R v base st _ h1
      cases h3
      simp only at r1
      have := R_snoc_pure (R_seq r1 (R_leaf_const st1 .constant (.str name))) [⟨.set, 0⟩]
        (by intro i hi; simp at hi; subst hi; simp [isConstOp])
      simpa [List.append_assoc] using this
    | .ident _, base, st, r, h => by
      simp only [compileExpr, pure, Except.pure] at h; cases h; exact R_leaf_const ..
    | .call fn args, base, st, r, h => by
      simp only [compileExpr, bind_ok_eq, pure, Except.pure] at h
      obtain ⟨⟨ca, st1⟩, h1, h3⟩ := h
      have r1 := compileExprs_R args base st _ h1
      cases h3
      simp only at r1
      have := R_snoc_pure (R_seq r1 (R_leaf_const st1 .constant (.str fn.str))) [⟨.call, args.length⟩]
        (by intro i hi; simp at hi; subst hi; simp [isConstOp])
      simpa [List.append_assoc] using this
    | .index l i, base, st, r, h => by
      simp only [compileExpr, bind_ok_eq, pure, Except.pure] at h
      obtain ⟨⟨cl, st1⟩, h1, ⟨ci, st2⟩, h2, h3⟩ := h
      have r1 := compileExpr_R l base st _ h1
      have r2 := compileExpr_R i _ _ _ h2
      cases h3
      simp only at r1 r2
      exact R_snoc_pure (R_seq r1 r2) _ (by intro i hi; simp at hi; subst hi; simp [isConstOp])

  theorem compileExprs_R : ∀ (es : List Expr) (base : Nat) (st : CState) (r : List Instr × CState),
      compileExprs es base st = .ok r → R st r.1 r.2
    | [], _, st, r, h => by
      simp only [compileExprs, pure, Except.pure] at h; cases h; exact R_id st
    | e :: rest, base, st, r, h => by
      simp only [compileExprs, bind_ok_eq, pure, Except.pure] at h
      obtain ⟨⟨c, st1⟩, h1, ⟨cs, st2⟩, h2, h3⟩ := h
      have r1 := compileExpr_R e base st _ h1
      have r2 := compileExprs_R rest _ _ _ h2
      cases h3
      exact R_seq r1 r2

  theorem compilePairs_R : ∀ (ps : List Pair) (base : Nat) (st : CState) (r : List Instr × CState),
      compilePairs ps base st = .ok r → R st r.1 r.2
    | [], _, st, r, h => by
      simp only [compilePairs, pure, Except.pure] at h; cases h; exact R_id st
    | .mk k v :: rest, base, st, r, h => by
      simp only [compilePairs, bind_ok_eq, pure, Except.pure] at h
      obtain ⟨⟨ck, st1⟩, h1, ⟨cv, st2⟩, h2, ⟨cs, st3⟩, h3, h4⟩ := h
      have r1 := compileExpr_R k base st _ h1
      have r2 := compileExpr_R v _ _ _ h2
      have r3 := compilePairs_R rest _ _ _ h3
      cases h4
      have := R_seq (R_seq r1 r2) r3
      simpa [List.append_assoc] using this

  theorem compileStmt_R : ∀ (s : Stmt) (base : Nat) (st : CState) (r : List Instr × CState),
      compileStmt s base st = .ok r → R st r.1 r.2
    | .expr e, base, st, r, h => by
      simp only [compileStmt] at h
      exact compileExpr_R e base st r h
    | .ret e, base, st, r, h => by
      simp only [compileStmt, bind_ok_eq, pure, Except.pure] at h
      obtain ⟨⟨c, st1⟩, h1, h3⟩ := h
      have r1 := compileExpr_R e base st _ h1
      cases h3
      exact R_snoc_pure r1 _ (by intro i hi; simp at hi; subst hi; simp [isConstOp])

  theorem compileStmts_R : ∀ (ss : List Stmt) (base : Nat) (st : CState) (r : List Instr × CState),
      compileStmts ss base st = .ok r → R st r.1 r.2
    | [], _, st, r, h => by
      simp only [compileStmts, pure, Except.pure] at h; cases h; exact R_id st
    | s :: rest, base, st, r, h => by
      simp only [compileStmts, bind_ok_eq, pure, Except.pure] at h
      obtain ⟨⟨c, st1⟩, h1, ⟨cs, st2⟩, h2, h3⟩ := h
      have r1 := compileStmt_R s base st _ h1
      have r2 := compileStmts_R rest _ _ _ h2
      cases h3
      exact R_seq r1 r2

  theorem compileArms_R (cv : Nat → CState → CM (List Instr × CState)) (vsize : Nat)
      (hcv : ∀ b s r, cv b s = .ok r → R s r.1 r.2) :
      ∀ (cs : List Case) (base endPos : Nat) (st : CState) (r : List Instr × CState),
      compileArms cv vsize cs base endPos st = .ok r → R st r.1 r.2
    | [], _, _, st, r, h => by
      simp only [compileArms, pure, Except.pure] at h; cases h; exact R_id st
    | .mk isDef es b :: rest, base, endPos, st, r, h => by
      simp only [compileArms] at h
      split at h
      · exact compileArms_R cv vsize hcv rest base endPos st r h
      · simp only [bind_ok_eq, pure, Except.pure] at h
        obtain ⟨⟨c, st1⟩, h1, ⟨cr, st2⟩, h2, h3⟩ := h
        have r1 := compileArm_R cv vsize hcv (fun bs s => compileStmts b bs s) (Stmt.sizes b)
          (fun bs s r hr => compileStmts_R b bs s r hr) es _ _ _ _ h1
        have r2 := compileArms_R cv vsize hcv rest _ _ _ _ h2
        cases h3
        exact R_seq r1 r2

  theorem compileArm_R (cv : Nat → CState → CM (List Instr × CState)) (vsize : Nat)
      (hcv : ∀ b s r, cv b s = .ok r → R s r.1 r.2)
      (cblock : Nat → CState → CM (List Instr × CState)) (bsize : Nat)
      (hcb : ∀ b s r, cblock b s = .ok r → R s r.1 r.2) :
      ∀ (es : List Expr) (base endPos : Nat) (st : CState) (r : List Instr × CState),
      compileArm cv vsize cblock bsize es base endPos st = .ok r → R st r.1 r.2
    | [], _, _, st, r, h => by
      simp only [compileArm, pure, Except.pure] at h; cases h; exact R_id st
    | e :: rest, base, endPos, st, r, h => by
      simp only [compileArm, bind_ok_eq, pure, Except.pure] at h
      obtain ⟨⟨cv', st1⟩, h1, ⟨ce, st2⟩, h2, ⟨cb, st3⟩, h3, ⟨cr, st4⟩, h4, h5⟩ := h
      have r1 := hcv _ _ _ h1
      have r2 := compileExpr_R e _ _ _ h2
      have r3 := hcb _ _ _ h3
      have r4 := compileArm_R cv vsize hcv cblock bsize hcb rest _ _ _ _ h4
      cases h5
      simp only at r1 r2 r3 r4
      have := R_seq (R_snoc_pure (R_seq (R_snoc_pure (R_seq r1 r2)
        [⟨.case, 0⟩, ⟨.jumpIfFalse, base + vsize + e.size + 1 + 3 + bsize + 3⟩]
        (by intro i hi; simp at hi; rcases hi with rfl | rfl <;> simp [isConstOp])) r3)
        [⟨.jump, endPos⟩] (by intro i hi; simp at hi; subst hi; simp [isConstOp])) r4
      simpa [List.append_assoc] using this

  theorem compileDefaults_R : ∀ (cs : List Case) (base : Nat) (st : CState) (r : List Instr × CState),
      compileDefaults cs base st = .ok r → R st r.1 r.2
    | [], _, st, r, h => by
      simp only [compileDefaults, pure, Except.pure] at h; cases h; exact R_id st
    | .mk isDef es b :: rest, base, st, r, h => by
      simp only [compileDefaults] at h
      split at h
      · simp only [bind_ok_eq, pure, Except.pure] at h
        obtain ⟨⟨c, st1⟩, h1, ⟨cr, st2⟩, h2, h3⟩ := h
        have r1 := compileStmts_R b _ _ _ h1
        have r2 := compileDefaults_R rest _ _ _ h2
        cases h3
        exact R_seq r1 r2
      · exact compileDefaults_R rest base st r h
end

end EvalFilter.Compiler
