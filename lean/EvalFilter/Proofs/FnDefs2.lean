/-
  User-defined functions, part 2: a compiled body ends in OpReturn only when its last effective statement
  is a `return`, and then the body never falls off its end (so the compiler's "append void; return unless
  the code already ends in return" is right).
-/
import EvalFilter.Proofs.FnDefs
set_option linter.unusedSimpArgs false
set_option linter.unusedVariables false
namespace EvalFilter.Exec
open EvalFilter EvalFilter.VM EvalFilter.Compiler

/-! ### a compiled body ends in OpReturn only when its last effective statement is a `return` -/

theorem endsRet_nil : endsRet [] = false := rfl

theorem endsRet_snoc (pre : List Instr) (i : Instr) : endsRet (pre ++ [i]) = (i.op == Op.return) := by
  simp [endsRet]

theorem endsRet_append_ne (a b : List Instr) (hb : b ≠ []) : endsRet (a ++ b) = endsRet b := by
  unfold endsRet
  rw [List.getLast?_append]
  cases hl : b.getLast? with
  | none => simp at hl; exact absurd hl hb
  | some i => rfl

/-- the code of a statement-expression is empty (a function definition) or ends in something other
    than OpReturn -/
def NoRetEnd (code : List Instr) : Prop := code = [] ∨ ∃ i, code.getLast? = some i ∧ i.op ≠ Op.return

theorem NoRetEnd.not_endsRet {code : List Instr} (h : NoRetEnd code) : endsRet code = false := by
  rcases h with rfl | ⟨i, hl, hi⟩
  · rfl
  · unfold endsRet; rw [hl]; simpa using hi

theorem stmtE_noRetEnd (e : Expr) (base : Nat) (st : CState) (r : List Instr × CState) (hs : stmtE e = true)
    (h : compileExpr e base st = .ok r) : NoRetEnd r.1 := by
  cases e with
  | funcDef n ps b =>
    simp only [compileExpr, bind_ok_eq, pure, Except.pure] at h
    obtain ⟨⟨cb, st1⟩, h1, h2⟩ := h
    cases h2; exact Or.inl rfl
  | assign name v =>
    simp only [compileExpr, bind_ok_eq, pure, Except.pure] at h
    obtain ⟨⟨cv, st1⟩, h1, h2⟩ := h
    cases h2
    exact Or.inr ⟨⟨.set, 0⟩, by simp [List.getLast?_cons, List.getLast?_append], by simp⟩
  | call fn args =>
    simp only [compileExpr, bind_ok_eq, pure, Except.pure] at h
    obtain ⟨⟨ca, st1⟩, h1, h2⟩ := h
    cases h2
    exact Or.inr ⟨⟨.call, args.length⟩, by simp [List.getLast?_cons, List.getLast?_append], by simp⟩
  | ifE c cons alt =>
    cases alt with
    | none =>
      simp only [compileExpr, bind_ok_eq, pure, Except.pure] at h
      obtain ⟨⟨cc, st1⟩, h1, ⟨ca, st2⟩, h2, h3⟩ := h
      cases h3
      exact Or.inr ⟨⟨.placeholder, 0⟩, by simp [List.getLast?_cons, List.getLast?_append], by simp⟩
    | some a =>
      simp only [compileExpr, bind_ok_eq, pure, Except.pure] at h
      obtain ⟨⟨cc, st1⟩, h1, ⟨ca, st2⟩, h2, ⟨cb, st3⟩, h4, h5⟩ := h
      cases h5
      exact Or.inr ⟨⟨.placeholder, 0⟩, by simp [List.getLast?_cons, List.getLast?_append], by simp⟩
  | whileE c body =>
    simp only [compileExpr, bind_ok_eq, pure, Except.pure] at h
    obtain ⟨⟨cc, st1⟩, h1, ⟨cb, st2⟩, h2, h3⟩ := h
    cases h3
    exact Or.inr ⟨⟨.placeholder, 0⟩, by simp [List.getLast?_cons, List.getLast?_append], by simp⟩
  | foreachE idx x v body =>
    simp only [compileExpr, bind_ok_eq, pure, Except.pure] at h
    obtain ⟨⟨cv, st1⟩, h1, ⟨cb, st2⟩, h2, h3⟩ := h
    cases h3
    exact Or.inr ⟨⟨.placeholder, 0⟩, by simp [List.getLast?_cons, List.getLast?_append], by simp⟩
  | switchE v cs =>
    simp only [compileExpr, bind_ok_eq, pure, Except.pure] at h
    obtain ⟨st0, h0, ⟨ca, st1⟩, h1, ⟨cd, st2⟩, h2, h3⟩ := h
    cases h3
    exact Or.inr ⟨⟨.placeholder, 0⟩, by simp [List.getLast?_cons, List.getLast?_append], by simp⟩
  | «infix» op l r' =>
    cases l <;> simp only [stmtE, Bool.and_eq_true, Bool.false_eq_true] at hs
    rename_i name
    simp only [compileExpr, bind_ok_eq] at h
    obtain ⟨⟨cl, st1⟩, h1, ⟨cr, st2⟩, h2, h3⟩ := h
    simp only [hs.1, ↓reduceIte] at h3
    split at h3
    · simp only [pure, Except.pure] at h3; cases h3
      exact Or.inr ⟨⟨.set, 0⟩, by simp [List.getLast?_cons, List.getLast?_append], by simp⟩
    · cases h3
  | localE name =>
    simp only [compileExpr, pure, Except.pure] at h; cases h
    exact Or.inr ⟨⟨.local, 0⟩, by simp [List.getLast?_cons, List.getLast?_append], by simp⟩
  | _ => simp [stmtE] at hs

/-- a `return` statement never falls through -/
theorem execS_ret_not_normal (M : Machine) (F : FnTable) (obj : HostVal) (depth f : Nat) (e : Expr) (env : Env) (out : Str)
    (e' : Env) (o' : Str) : execS M F obj depth f (.ret e) env out ≠ .normal e' o' := by
  cases f with
  | zero => simp [execS]
  | succ f =>
    by_cases hc : ∃ fn args, e = .call fn args
    · obtain ⟨fn, args, rfl⟩ := hc
      simp only [execS]
      cases callWith (decide (depth ≥ maxCallDepth)) (fun b e o => execSs M F obj (depth + 1) f b e o) M F obj fn.str args env out <;> simp
    · rw [execS_ret depth f e env out (fun fn args he => hc ⟨fn, args, he⟩)]
      cases evalE M obj env e out with
      | mk res o =>
        cases res with
        | ok v => simp
        | error x => simp only [failE]; split <;> simp

/-- **A body whose code ends in OpReturn never falls off its end.** -/
theorem endsRet_never_normal (M : Machine) (F : FnTable) (obj : HostVal) :
    ∀ (ss : List Stmt) (base : Nat) (st : CState) (r : List Instr × CState), pureSs ss = true →
      compileStmts ss base st = .ok r → endsRet r.1 = true →
      ∀ depth f env out e' o', execSs M F obj depth f ss env out ≠ .normal e' o'
  | [], base, st, r, _, h, he => by
    simp only [compileStmts, pure, Except.pure] at h; cases h; simp [endsRet] at he
  | s :: rest, base, st, r, hs, h, he => by
    by_cases hpair : IsPair s rest
    · -- `e op;` followed by the rest: the pair's code ends in OpInc / OpDec, so the return is further on
      obtain ⟨e, n, op, rest', rfl, rfl⟩ := hpair
      simp only [pureSs, Bool.and_eq_true] at hs
      simp only [compileStmts, compileStmt, bind_ok_eq, pure, Except.pure] at h
      obtain ⟨⟨c, st1⟩, h1, ⟨cs, st2⟩, ⟨⟨ci, sti⟩, hi, ⟨cr, str⟩, hr, hcs⟩, h3⟩ := h
      cases h3; cases hcs
      have hci : ∃ i, ci = [i] ∧ i.op ≠ Op.return := by
        simp only [compileExpr] at hi
        split at hi
        · simp only [pure, Except.pure] at hi; cases hi; exact ⟨_, rfl, by simp [withConst_op]⟩
        · split at hi
          · simp only [pure, Except.pure] at hi; cases hi; exact ⟨_, rfl, by simp [withConst_op]⟩
          · cases hi
      obtain ⟨i, rfl, hiop⟩ := hci
      intro depth f env out e' o'
      cases f with
      | zero => simp [execSs]
      | succ f =>
        simp only [execSs]
        have hcr : cr ≠ [] := by
          intro hnil
          subst hnil
          have : endsRet (c ++ ([i] ++ [])) = (i.op == Op.return) := by
            rw [List.append_nil, endsRet_snoc]
          rw [this] at he
          simp at he
          exact hiop he
        have he2 : endsRet cr = true := by
          have : c ++ ([i] ++ cr) = (c ++ [i]) ++ cr := by simp
          rw [this, endsRet_append_ne _ _ hcr] at he; exact he
        have ih := endsRet_never_normal M F obj rest' _ _ _ hs.2 hr he2
        cases evalE M obj env e out with
        | mk res o =>
          cases res with
          | error x => simp only [failE]; split <;> simp
          | ok v =>
            simp only []
            cases incDecEnv obj env n (op == ['+', '+']) with
            | error x => simp
            | ok env2 => exact ih depth f env2 o e' o'
    rw [pureSs_other s rest hpair, Bool.and_eq_true] at hs
    simp only [compileStmts, bind_ok_eq, pure, Except.pure] at h
    obtain ⟨⟨c, st1⟩, h1, ⟨cs, st2⟩, h2, h3⟩ := h
    cases h3
    intro depth f env out e' o'
    cases f with
    | zero => simp [execSs]
    | succ f =>
      rw [execSs_other M F obj depth f s rest env out hpair]
      by_cases hcs : cs = []
      · -- everything after `s` is function definitions: `s` itself is the `return`
        subst hcs
        simp only [List.append_nil] at he
        cases s with
        | expr e =>
          simp only [pureS] at hs
          simp only [compileStmt] at h1
          have := (stmtE_noRetEnd e base st _ hs.1 h1).not_endsRet
          simp only at this
          rw [this] at he; cases he
        | ret e =>
          have hn := execS_ret_not_normal M F obj depth f e env out
          cases hx : execS M F obj depth f (.ret e) env out with
          | normal a b => exact absurd hx (hn a b)
          | returned v a b => simp
          | failed x a b => simp
          | diverged => simp
      · rw [endsRet_append_ne _ _ hcs] at he
        have ih := endsRet_never_normal M F obj rest _ _ _ hs.2 h2 he
        cases hx : execS M F obj depth f s env out with
        | normal a b => exact ih depth f a b e' o'
        | returned v a b => simp
        | failed x a b => simp
        | diverged => simp

end EvalFilter.Exec
