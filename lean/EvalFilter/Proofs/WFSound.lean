/-
  Soundness of the static part of the byte-code verifier with respect to the VM model:
  in a program whose bodies pass the verifier, the instruction pointer only ever stands at the start
  of a decoded instruction (or at the end of the body), operands are complete, and the VM never
  reports an unknown opcode, an instruction pointer out of bounds or a bad constant index.
-/
import EvalFilter.Model.VM
import EvalFilter.Proofs.WFDecode

namespace EvalFilter.WF
open EvalFilter EvalFilter.VM

/-- the VM's internal error classes that the static checks rule out -/
def internalStatic (r : Res) : Prop :=
  r = err "unknownOpcode" ∨ r = err "ipOOB" ∨ r = err "badConstant"

/-- errors that the operators and helper functions can report: never one of the VM's internal classes -/
def CleanErr (e : Err) : Prop :=
  e ≠ .error "unknownOpcode" ∧ e ≠ .error "ipOOB" ∧ e ≠ .error "badConstant" ∧ e ≠ .error "underflow"

set_option hygiene false in
macro "clean_op" : tactic => `(tactic| (
  repeat' split at h
  all_goals first
    | contradiction
    | (cases h; simp [CleanErr])
    | (simp_all [CleanErr, err, vbool, Except.map])))

theorem intOp_clean {op : Op} {l r : Int64} {e : Err} (h : intOp op l r = .error e) : CleanErr e := by
  unfold intOp at h; simp only [err, vbool] at h; clean_op

theorem floatOp_clean {op : Op} {l r : Float} {e : Err} (h : floatOp op l r = .error e) : CleanErr e := by
  unfold floatOp at h; simp only [err, vbool] at h; clean_op

theorem strOp_clean {op : Op} {l r : Str} {e : Err} (h : strOp op l r = .error e) : CleanErr e := by
  unfold strOp at h; simp only [err, vbool] at h; clean_op

theorem callMatch_clean {M : Machine} {a b : Value} {e : Err} (h : callMatch M a b = .error e) : CleanErr e := by
  unfold callMatch at h
  split at h
  · cases h; simp [CleanErr]
  · revert h
    generalize callImpl _ _ _ = r
    intro h
    cases hres : r.res with
    | val v => cases v <;> simp [hres] at h <;> (cases h; simp [CleanErr])
    | panic => simp [hres] at h; cases h; simp [CleanErr]
    | unsupported => simp [hres] at h; cases h; simp [CleanErr]

theorem binop_clean {M : Machine} {op : Op} {l r : Value} {e : Err} (h : binop M op l r = .error e) : CleanErr e := by
  unfold binop at h
  simp only [Except.map, err, vbool] at h
  repeat' split at h
  all_goals try contradiction
  all_goals try (cases h)
  all_goals first
    | (simp [CleanErr]; done)
    | exact intOp_clean (by assumption)
    | exact floatOp_clean (by assumption)
    | exact strOp_clean (by assumption)
    | exact callMatch_clean (by assumption)
    | (rename_i h1; simp only [err] at h1; cases h1; simp [CleanErr]; done)

theorem lookupUser_mem {M : Machine} {name : Str} {uf : UserFn} (h : lookupUser M name = some uf) : uf ∈ M.funcs := by
  unfold lookupUser at h
  have := List.mem_of_find?_eq_some h
  exact List.mem_reverse.mp this

theorem indexOp_clean {l i : Value} {e : Err} (h : indexOp l i = .error e) : CleanErr e := by
  unfold indexOp at h; simp only [err] at h; clean_op

theorem minusOp_clean {v : Value} {e : Err} (h : minusOp v = .error e) : CleanErr e := by
  unfold minusOp at h; simp only [err] at h; clean_op

theorem sqrtOp_clean {v : Value} {e : Err} (h : sqrtOp v = .error e) : CleanErr e := by
  unfold sqrtOp at h; simp only [err] at h; clean_op

theorem rangeOp_clean {a b : Value} {e : Err} (h : rangeOp a b = .error e) : CleanErr e := by
  unfold rangeOp at h; simp only [err] at h; clean_op

theorem lookup_clean {obj : HostVal} {env : Env} {n : Str} {e : Err} (h : lookup obj env n = .error e) : CleanErr e := by
  unfold lookup at h
  cases hg : env.get (Str.trimPrefix n ['$']) with
  | some v => simp [hg] at h
  | none =>
    simp only [hg] at h
    cases hf : Reflect.fieldsOf obj with
    | error x => simp [hf] at h; cases h; simp [CleanErr]
    | ok fs => simp [hf] at h

theorem buildHash_clean : ∀ (fuel : Nat) (xs : List Value) (acc : List HPair) (e : Err),
    buildHash fuel xs acc = .error e → CleanErr e
  | 0, _, _, _, h => by simp [buildHash] at h
  | _ + 1, [], _, _, h => by simp [buildHash] at h
  | _ + 1, [_], _, _, h => by simp [buildHash] at h
  | n + 1, v :: k :: more, acc, e, h => by
    simp only [buildHash] at h
    split at h
    · split at h <;> (cases h; simp [CleanErr])
    · exact buildHash_clean n _ _ _ h

/-- declarative form of the static checks on one body -/
structure StaticOk (nconsts : Nat) (code : Bytes) (instrs : List (Nat × Instr)) : Prop where
  decoded : decode 0 code = some instrs
  jumps : ∀ o i, (o, i) ∈ instrs → (i.op = .jump ∨ i.op = .jumpIfFalse) → ∃ j, (i.arg, j) ∈ instrs
  consts : ∀ o i, (o, i) ∈ instrs → (i.op = .constant ∨ i.op = .lookup ∨ i.op = .inc ∨ i.op = .dec) → i.arg < nconsts

/-- outcome of one instruction that keeps the static invariant -/
def StepOk (i : Instr) (next : Nat) : StepOut → Prop
  | .halt r _ => ¬ internalStatic r
  | .cont ip' _ _ => ip' = next ∨ ((i.op = .jump ∨ i.op = .jumpIfFalse) ∧ ip' = i.arg)

theorem invoke_static (runBody : Bytes → RunSt → Res × RunSt) (uf : UserFn) (args : List Value) (st : RunSt)
    (hrun : ∀ s, ¬ internalStatic (runBody uf.code s).1) : ¬ internalStatic (invoke runBody uf args st).1 := by
  unfold invoke
  repeat' split
  all_goals first
    | exact hrun _
    | (simp [internalStatic, err])

theorem invoke_err_static {runBody : Bytes → RunSt → Res × RunSt} {uf : UserFn} {args : List Value} {st st' : RunSt}
    {e : Err} (h : invoke runBody uf args st = (.error e, st'))
    (hrun : ∀ s, ¬ internalStatic (runBody uf.code s).1) : ¬ internalStatic (.error e) := by
  have := invoke_static runBody uf args st hrun
  rw [h] at this
  exact this

set_option maxHeartbeats 1000000 in
theorem step_static (M : Machine) (obj : HostVal) (codeLen : Nat) (runBody : Bytes → RunSt → Res × RunSt)
    (i : Instr) (next : Nat) (stack : List Value) (st : RunSt)
    (hjump : (i.op = .jump ∨ i.op = .jumpIfFalse) → i.arg < codeLen)
    (hconst : (i.op = .constant ∨ i.op = .lookup ∨ i.op = .inc ∨ i.op = .dec) → i.arg < M.consts.length)
    (hrun : ∀ uf, uf ∈ M.funcs → ∀ s, ¬ internalStatic (runBody uf.code s).1) :
    StepOk i next (step M obj codeLen runBody i.op.toNat i.arg next stack st) := by
  unfold step
  simp only [Op.ofNat_toNat]
  cases hop : i.op <;> simp only [isBinary, Bool.false_eq_true, ↓reduceIte] <;>
    (repeat' split) <;> (try simp only [StepOk, internalStatic, err]) <;> first
      | (simp; done)
      | (have := binop_clean (by assumption); simp_all [CleanErr]; done)
      | (have := lookup_clean (by assumption); simp_all [CleanErr]; done)
      | (have := sqrtOp_clean (by assumption); simp_all [CleanErr]; done)
      | (have := minusOp_clean (by assumption); simp_all [CleanErr]; done)
      | (have := rangeOp_clean (by assumption); simp_all [CleanErr]; done)
      | (have := indexOp_clean (by assumption); simp_all [CleanErr]; done)
      | (have := callMatch_clean (by assumption); simp_all [CleanErr]; done)
      | (have := buildHash_clean _ _ _ _ (by assumption); simp_all [CleanErr]; done)
      | (have hc := hconst (by simp [hop]); have := List.getElem?_eq_none_iff.mp (by assumption); omega)
      | exact invoke_err_static (by assumption) (hrun _ (lookupUser_mem (by assumption)))
      | (have hj := hjump (by simp [hop]); omega)
      | (simp [hop]; done)
      | trace_state


theorem Op.length_cases (op : Op) : op.length = 1 ∨ op.length = 3 := by cases op <;> simp [Op.length]

theorem byteLength_toNat (op : Op) : byteLength op.toNat = op.length := by
  simp [byteLength, Op.ofNat_toNat]

theorem decode_head {b : UInt8} {rest : Bytes} {instrs : List (Nat × Instr)} (h : decode 0 (b :: rest) = some instrs) :
    ∃ i, (0, i) ∈ instrs := by
  rw [decode] at h
  split at h
  · cases h
  · split at h
    · split at h
      · simp only [Option.map_eq_some_iff] at h
        obtain ⟨l, _, rfl⟩ := h
        exact ⟨_, List.mem_cons_self ..⟩
      · cases h
    · simp only [Option.map_eq_some_iff] at h
      obtain ⟨l, _, rfl⟩ := h
      exact ⟨_, List.mem_cons_self ..⟩

theorem start_of_static {n : Nat} {code : Bytes} {instrs : List (Nat × Instr)} (h : StaticOk n code instrs) :
    0 = code.length ∨ ∃ i, (0, i) ∈ instrs := by
  cases hc : code with
  | nil => left; rfl
  | cons b rest => right; exact decode_head (hc ▸ h.decoded)

/-- **Static soundness.**  In a machine all of whose function bodies pass the static checks, running any
    body that passes them, from any instruction start, with any stack and state, never ends in "unknown
    opcode", "instruction pointer out of bounds" or "bad constant" - at any call depth. -/
theorem loop_static (M : Machine) (obj : HostVal)
    (hfuncs : ∀ uf, uf ∈ M.funcs → ∃ instrs, StaticOk M.consts.length uf.code instrs) :
    ∀ (fuel : Nat) (code : Bytes) (instrs : List (Nat × Instr)), StaticOk M.consts.length code instrs →
      ∀ (ip : Nat) (stack : List Value) (st : RunSt), (ip = code.length ∨ ∃ i, (ip, i) ∈ instrs) →
        ¬ internalStatic (loop M obj code fuel ip stack st).1 := by
  intro fuel
  induction fuel with
  | zero => intro code instrs _ ip stack st _; simp [loop, internalStatic, err]
  | succ n ih =>
    intro code instrs hs ip stack st hip
    unfold loop
    split
    · simp [internalStatic, err]
    · rename_i hlt
      split
      · simp [internalStatic, err]
      · have hip' : ∃ i, (ip, i) ∈ instrs := by
          rcases hip with h | h
          · omega
          · exact h
        obtain ⟨i, hi⟩ := hip'
        obtain ⟨hsz, hget, harg3, harg1, hnext⟩ := decode_spec code instrs hs.decoded ip i hi
        have hopb : (code.getD ip 0).toNat = i.op.toNat := by
          rw [hget]; simp [Nat.mod_eq_of_lt (Op.toNat_lt i.op)]
        simp only [hopb, byteLength_toNat]
        have hrun : ∀ uf, uf ∈ M.funcs → ∀ s, ¬ internalStatic ((fun c s => loop M obj c n 0 [] s) uf.code s).1 := by
          intro uf huf s
          obtain ⟨fi, hfi⟩ := hfuncs uf huf
          exact ih uf.code fi hfi 0 [] s (by
            rcases start_of_static hfi with h | h
            · left; exact h
            · right; exact h)
        rcases Op.length_cases i.op with h1 | h3
        · -- one-byte instruction
          have ha : i.arg = 0 := harg1 (by omega)
          simp only [h1, Nat.lt_irrefl, decide_false, Bool.false_and, Bool.false_eq_true, ↓reduceIte]
          have hst := step_static M obj code.length (fun c s => loop M obj c n 0 [] s) i (ip + 1) stack
            { st with polls := st.polls + 1 }
            (fun hj => by
              obtain ⟨j, hj'⟩ := hs.jumps ip i hi hj
              have := (decode_spec code instrs hs.decoded i.arg j hj').1
              have : 0 < j.size := by unfold Instr.size; rcases Op.length_cases j.op with h | h <;> omega
              omega)
            (hs.consts ip i hi) hrun
          rw [ha] at hst
          split
          · rename_i ip' stack' st' heq
            rw [heq] at hst
            simp only [StepOk] at hst
            apply ih code instrs hs
            rcases hst with h | ⟨hj, h⟩
            · subst h
              rcases hnext with h | ⟨j, hj⟩
              · left; simp only [Instr.size, h1] at h; exact h
              · right; exact ⟨j, by simpa [Instr.size, h1] using hj⟩
            · subst h
              right
              obtain ⟨j, hj'⟩ := hs.jumps ip i hi hj
              first | exact ⟨j, hj'⟩ | exact ⟨j, by rw [ha] at hj'; exact hj'⟩
          · rename_i r st' heq
            rw [heq] at hst
            exact hst
        · -- instruction with a 16-bit operand
          have ha : i.arg = decode16 (code.getD (ip + 1) 0) (code.getD (ip + 2) 0) := harg3 h3
          have hfit : ¬ (ip + 3 > code.length) := by simp only [Instr.size, h3] at hsz; omega
          simp only [h3, show (1 : Nat) < 3 by decide, decide_true, Bool.true_and, decide_eq_true_eq, hfit,
            ↓reduceIte, ← ha]
          have hst := step_static M obj code.length (fun c s => loop M obj c n 0 [] s) i (ip + 3) stack
            { st with polls := st.polls + 1 }
            (fun hj => by
              obtain ⟨j, hj'⟩ := hs.jumps ip i hi hj
              have := (decode_spec code instrs hs.decoded i.arg j hj').1
              have : 0 < j.size := by unfold Instr.size; rcases Op.length_cases j.op with h | h <;> omega
              omega)
            (hs.consts ip i hi) hrun
          split
          · rename_i ip' stack' st' heq
            rw [heq] at hst
            simp only [StepOk] at hst
            apply ih code instrs hs
            rcases hst with h | ⟨hj, h⟩
            · subst h
              rcases hnext with h | ⟨j, hj⟩
              · left; simp only [Instr.size, h3] at h; exact h
              · right; exact ⟨j, by simpa [Instr.size, h3] using hj⟩
            · subst h
              right
              exact hs.jumps ip i hi hj
          · rename_i r st' heq
            rw [heq] at hst
            exact hst

end EvalFilter.WF
