/-
  From the per-instruction stack lemma to whole runs: the invariant "the instruction pointer is on a
  certified instruction start and the stack is at least as deep as the certificate says" is kept by
  the VM loop, through nested calls.
-/
import EvalFilter.Proofs.WFStack

set_option linter.unusedSimpArgs false
set_option linter.unusedVariables false

namespace EvalFilter.WF
open EvalFilter EvalFilter.VM

/-- offsets of decoded instructions are consecutive, from `s` to `e` -/
def Chain : Nat → Nat → List (Nat × Instr) → Prop
  | s, e, [] => s = e
  | s, e, (o, i) :: r => o = s ∧ Chain (s + i.size) e r

theorem decode_chain_aux (n : Nat) : ∀ (bs : Bytes), bs.length = n → ∀ (off : Nat) (instrs : List (Nat × Instr)),
    decode off bs = some instrs → Chain off (off + bs.length) instrs := by
  induction n using Nat.strongRecOn with
  | ind n ih =>
    intro bs h off instrs hd
    cases bs with
    | nil => rw [decode_nil] at hd; cases hd; simp [Chain]
    | cons b rest =>
      rw [decode] at hd
      cases hop : Op.ofNat? b.toNat with
      | none => simp [hop] at hd
      | some op =>
        simp only [hop] at hd
        by_cases hl : op.length = 3
        · simp only [hl, beq_self_eq_true, ↓reduceIte] at hd
          cases rest with
          | nil => simp at hd
          | cons hi rest1 =>
            cases rest1 with
            | nil => simp at hd
            | cons lo rest2 =>
              simp only [Option.map_eq_some_iff] at hd
              obtain ⟨l, hl2, rfl⟩ := hd
              have hlen : rest2.length < n := by rw [← h]; simp only [List.length_cons]; omega
              have := ih rest2.length hlen rest2 rfl (off + 3) l hl2
              simp only [Chain, Instr.size, hl, true_and]
              have e : off + 3 + rest2.length = off + (b :: hi :: lo :: rest2).length := by simp; omega
              rw [← e]; exact this
        · have hl' : (op.length == 3) = false := by simp [hl]
          simp only [hl', Bool.false_eq_true, ↓reduceIte, Option.map_eq_some_iff] at hd
          obtain ⟨l, hl2, rfl⟩ := hd
          have hlen : rest.length < n := by rw [← h]; simp only [List.length_cons]; omega
          have hsz : op.length = 1 := by
            cases op <;> first | rfl | exact absurd rfl hl
          have := ih rest.length hlen rest rfl (off + 1) l hl2
          simp only [Chain, Instr.size, hsz, true_and]
          have e : off + 1 + rest.length = off + (b :: rest).length := by simp; omega
          rw [← e]; exact this

theorem decode_chain {code : Bytes} {instrs : List (Nat × Instr)} (h : decode 0 code = some instrs) :
    Chain 0 code.length instrs := by
  have := decode_chain_aux code.length code rfl 0 instrs h
  simpa using this

/-- in a chain, what follows an instruction starts right after it -/
theorem chain_split {s e : Nat} : ∀ (pre : List (Nat × Instr)) {o : Nat} {i : Instr} {rest : List (Nat × Instr)},
    Chain s e (pre ++ (o, i) :: rest) → Chain (o + i.size) e rest
  | [], o, i, rest, h => by
    simp only [List.nil_append, Chain] at h
    obtain ⟨rfl, h⟩ := h
    exact h
  | (o', j) :: pre, o, i, rest, h => by
    simp only [List.cons_append, Chain] at h
    exact chain_split pre h.2

theorem chain_head {s e o : Nat} {i : Instr} {rest : List (Nat × Instr)} (h : Chain s e ((o, i) :: rest)) : o = s := h.1

/-- was the last instruction of `pre` an OpIterationNext? -/
def lastIter (pre : List (Nat × Instr)) : Bool :=
  match pre.getLast? with
  | some (_, j) => j.op == .iterationNext
  | none => false

theorem lastIter_snoc (pre : List (Nat × Instr)) (o : Nat) (i : Instr) :
    lastIter (pre ++ [(o, i)]) = (i.op == .iterationNext) := by
  simp [lastIter]

/-- declarative form of the certificate conditions on one body -/
structure StackOk (code : Bytes) (instrs : List (Nat × Instr)) (cert : Cert) : Prop where
  start : instrs ≠ [] → cert.get 0 = some 0
  at_ : ∀ pre o i rest, instrs = pre ++ (o, i) :: rest →
    instrCert cert code.length (lastIter pre) o i = none ∧ (lastIter pre = true → i.op = .jumpIfFalse)

theorem checkInstrs_at {cs : List Bool} {starts : List Nat} {len : Nat} {isFn : Bool} {cert : Cert} :
    ∀ (instrs : List (Nat × Instr)) (prev : Bool), checkInstrs cs starts len isFn cert instrs prev = none →
      ∀ pre o i rest, instrs = pre ++ (o, i) :: rest →
        instrCert cert len (if pre = [] then prev else lastIter pre) o i = none ∧
        (i.op = .iterationNext → followedByCondJump rest = true)
  | [], _, _, pre, o, i, rest, hs => by
    cases pre <;> simp at hs
  | (off, j) :: tl, prev, h, pre, o, i, rest, hs => by
    simp only [checkInstrs] at h
    split at h
    · cases h
    · split at h
      · cases h
      · rename_i hcert
        split at h
        · cases h
        · rename_i hshape
          cases pre with
          | nil =>
            simp only [List.nil_append, List.cons.injEq, Prod.mk.injEq] at hs
            obtain ⟨⟨rfl, rfl⟩, rfl⟩ := hs
            refine ⟨by simpa using hcert, ?_⟩
            intro hit
            simp only [hit, beq_self_eq_true, Bool.true_and, Bool.not_eq_true', Bool.not_eq_true] at hshape
            simpa using hshape
          | cons p pre' =>
            simp only [List.cons_append, List.cons.injEq] at hs
            obtain ⟨rfl, hs'⟩ := hs
            have := checkInstrs_at tl _ h pre' o i rest hs'
            refine ⟨?_, this.2⟩
            have h1 := this.1
            cases pre' with
            | nil =>
              simp only [↓reduceIte] at h1
              simpa [lastIter] using h1
            | cons q pre'' =>
              simp only [List.cons_ne_nil, ↓reduceIte, reduceCtorEq] at h1 ⊢
              have e : lastIter ((off, j) :: q :: pre'') = lastIter (q :: pre'') := by
                simp [lastIter, List.getLast?_cons_cons]
              rw [e]; exact h1

/-- a body accepted by the verifier carries a valid certificate -/
theorem checkBody_stack (cs : List Bool) (b : Body) (h : checkBody cs b = none) :
    ∃ instrs cert, StaticOk cs.length b.code instrs ∧ StackOk b.code instrs cert := by
  obtain ⟨instrs, hst⟩ := checkBody_static cs b h
  unfold checkBody at h
  rw [hst.decoded] at h
  simp only at h
  split at h
  · rename_i hempty
    have : b.code = [] := by simpa using hempty
    have hd := hst.decoded
    rw [this, decode_nil] at hd
    cases hd
    exact ⟨[], [], hst, ⟨fun h => absurd rfl h, fun pre o i rest hs => by cases pre <;> simp at hs⟩⟩
  · split at h
    · cases h
    · rename_i hc0
      refine ⟨instrs, _, hst, ⟨fun _ => by simpa using hc0, ?_⟩⟩
      intro pre o i rest hs
      have hat := checkInstrs_at instrs false h pre o i rest hs
      have hflag : (if pre = [] then false else lastIter pre) = lastIter pre := by
        cases pre with
        | nil => simp [lastIter]
        | cons p q => simp
      rw [hflag] at hat
      refine ⟨hat.1, ?_⟩
      intro hl
      -- the previous instruction is an OpIterationNext: the shape check there says this one is OpJumpIfFalse
      cases hp : pre.getLast? with
      | none => simp [lastIter, hp] at hl
      | some pj =>
        obtain ⟨pre0, hpre⟩ := List.getLast?_eq_some_iff.mp hp
        obtain ⟨po, j⟩ := pj
        have hjop : j.op = .iterationNext := by simpa [lastIter, hp] using hl
        have hs2 : instrs = pre0 ++ (po, j) :: ((o, i) :: rest) := by rw [hs, hpre]; simp
        have := (checkInstrs_at instrs false h pre0 po j _ hs2).2 hjop
        simpa [followedByCondJump] using this

theorem Depth_mono {a : Bool} {d c : Nat} {s : List Value} (h : Depth a d s) (hc : c ≤ d) : Depth a c s := by
  rcases h with h | ⟨h1, h2, h3⟩
  · left; omega
  · right; exact ⟨h1, h2, by omega⟩

theorem Depth_flag {d : Nat} {s : List Value} (b : Bool) (h : Depth false d s) : Depth b d s := by
  rcases h with h | ⟨h1, _, _⟩
  · left; exact h
  · cases h1

theorem succs_target {i : Instr} {next : Nat} {a : Bool} {dd t x : Nat} (h : (t, x) ∈ succs i next a dd) :
    t = next ∨ ((i.op = .jump ∨ i.op = .jumpIfFalse) ∧ t = i.arg) := by
  unfold succs at h
  split at h <;> simp at h
  · right; exact ⟨Or.inl (by assumption), h.1⟩
  · rcases h with h | h
    · left; exact h.1
    · right; exact ⟨Or.inr (by assumption), h.1⟩
  · left; exact h.1

theorem instrCert_edges {cert : Cert} {len : Nat} {a : Bool} {o : Nat} {i : Instr} {d : Nat}
    (hc : cert.get o = some d) (h : instrCert cert len a o i = none) :
    pops i ≤ d ∧ ∀ t x, (t, x) ∈ succs i (o + i.size) a (d - pops i + pushes i) → t ≥ len ∨ ∃ c, cert.get t = some c ∧ c ≤ x := by
  unfold instrCert at h
  rw [hc] at h
  simp only at h
  split at h
  · cases h
  · rename_i hp
    refine ⟨by omega, ?_⟩
    intro t x hm
    split at h
    · cases h
    · rename_i hfind
      have := List.find?_eq_none.mp hfind (t, x) hm
      simp only at this
      by_cases hge : t ≥ len
      · left; exact hge
      · right
        simp only [hge, ↓reduceIte] at this
        cases hg : cert.get t with
        | none => simp [hg] at this
        | some c => exact ⟨c, rfl, by simpa [hg] using this⟩

/-- the invariant of the VM loop for one body -/
def Inv (code : Bytes) (instrs : List (Nat × Instr)) (cert : Cert) (ip : Nat) (stack : List Value) : Prop :=
  ip ≥ code.length ∨ ∃ pre i rest d, instrs = pre ++ (ip, i) :: rest ∧ cert.get ip = some d ∧ Depth (lastIter pre) d stack


/-- every body of the machine is verified: static conditions and a valid stack certificate -/
def BodiesOk (M : Machine) : Prop :=
  ∀ uf, uf ∈ M.funcs → ∃ instrs cert, StaticOk M.consts.length uf.code instrs ∧ StackOk uf.code instrs cert

/-- the proviso of the property: no call returns the value-less result -/
def CallsReturnValues (M : Machine) (obj : HostVal) : Prop :=
  NoVoidFns M ∧ ∀ fuel uf s v, uf ∈ M.funcs → (loop M obj uf.code fuel 0 [] s).1 = .ok v → v.isType .VOID = false

theorem Inv_start {code : Bytes} {instrs : List (Nat × Instr)} {cert : Cert} {n : Nat}
    (hs : StaticOk n code instrs) (hk : StackOk code instrs cert) : Inv code instrs cert 0 [] := by
  cases hi : instrs with
  | nil =>
    left
    have := hs.decoded
    rw [hi] at this
    cases hc : code with
    | nil => simp
    | cons b rest =>
      rw [hc] at this
      obtain ⟨j, hj⟩ := decode_head this
      cases hj
  | cons p rest =>
    right
    obtain ⟨o, i⟩ := p
    have hch := decode_chain hs.decoded
    rw [hi] at hch
    have ho : o = 0 := chain_head hch
    subst ho
    exact ⟨[], i, rest, 0, rfl, hk.start (by rw [hi]; simp), Or.inl (by simp)⟩

/-- **Stack soundness.**  In a machine all of whose function bodies are verified and whose calls
    return values, running any verified body from a certified configuration never ends in a stack
    underflow - at any call depth. -/
theorem loop_stack (M : Machine) (obj : HostVal) (hb : BodiesOk M) (hcv : CallsReturnValues M obj) :
    ∀ (fuel : Nat) (code : Bytes) (instrs : List (Nat × Instr)) (cert : Cert),
      StaticOk M.consts.length code instrs → StackOk code instrs cert →
      ∀ (ip : Nat) (stack : List Value) (st : RunSt), Inv code instrs cert ip stack →
        (loop M obj code fuel ip stack st).1 ≠ err "underflow" := by
  intro fuel
  induction fuel with
  | zero => intro code instrs cert _ _ ip stack st _; simp [loop, err]
  | succ n ih =>
    intro code instrs cert hs hk ip stack st hinv
    unfold loop
    split
    · simp [err]
    · rename_i hlt
      split
      · simp [err]
      · obtain ⟨pre, i, rest, d, hsplit, hcert, hdep⟩ : ∃ pre i rest d, instrs = pre ++ (ip, i) :: rest ∧
            cert.get ip = some d ∧ Depth (lastIter pre) d stack := by
          rcases hinv with h | h
          · omega
          · exact h
        have hi : (ip, i) ∈ instrs := by rw [hsplit]; simp
        obtain ⟨hsz, hget, harg3, harg1, hnext⟩ := decode_spec code instrs hs.decoded ip i hi
        have hopb : (code.getD ip 0).toNat = i.op.toNat := by
          rw [hget]; simp [Nat.mod_eq_of_lt (Op.toNat_lt i.op)]
        simp only [hopb, byteLength_toNat]
        obtain ⟨hat1, hat2⟩ := hk.at_ pre ip i rest hsplit
        obtain ⟨hpops, hedges⟩ := instrCert_edges hcert hat1
        have hrunU : ∀ uf, uf ∈ M.funcs → ∀ s, ((fun c s => loop M obj c n 0 [] s) uf.code s).1 ≠ err "underflow" := by
          intro uf huf s
          obtain ⟨fi, fc, hfi, hfk⟩ := hb uf huf
          exact ih uf.code fi fc hfi hfk 0 [] s (Inv_start hfi hfk)
        have hrunV : ∀ uf, uf ∈ M.funcs → ∀ s v, ((fun c s => loop M obj c n 0 [] s) uf.code s).1 = .ok v →
            v.isType .VOID = false := fun uf huf s v h => hcv.2 n uf s v huf h
        -- the configuration after this instruction satisfies the invariant again
        have hnextInv : ∀ (sz : Nat), i.size = sz → ∀ ip' stack', (∃ t x, (t, x) ∈ succs i (ip + sz) (lastIter pre)
              (d - pops i + pushes i) ∧ ip' = t ∧ Depth (i.op == .iterationNext) x stack') →
            Inv code instrs cert ip' stack' := by
          intro sz hszeq ip' stack' ⟨t, x, hm, hip, hdx⟩
          rw [hip]
          rw [← hszeq] at hm
          rcases hedges t x hm with hge | ⟨c, hc, hcx⟩
          · left; exact hge
          · by_cases hge' : t ≥ code.length
            · left; exact hge'
            · have hlt' : t < code.length := by omega
              right
              rcases succs_target hm with h1 | ⟨hj, h1⟩
              · -- falls through to the next instruction of the list
                have hch := chain_split pre (hsplit ▸ decode_chain hs.decoded)
                cases rest with
                | nil => simp only [Chain] at hch; omega
                | cons q r =>
                  obtain ⟨qo, qj⟩ := q
                  have hq : qo = ip + i.size := chain_head hch
                  subst hq
                  refine ⟨pre ++ [(ip, i)], qj, r, c, ?_, h1 ▸ hc, ?_⟩
                  · rw [hsplit, h1]; simp
                  · rw [lastIter_snoc]; exact Depth_mono hdx hcx
              · -- a jump: the target is a decoded instruction; the flag there does not matter
                obtain ⟨j, hj'⟩ := hs.jumps ip i hi hj
                obtain ⟨pre', rest', hsp⟩ := List.append_of_mem hj'
                have hfalse : (i.op == Op.iterationNext) = false := by rcases hj with h | h <;> simp [h]
                rw [hfalse] at hdx
                exact ⟨pre', j, rest', c, h1 ▸ hsp, h1 ▸ hc, Depth_flag _ (Depth_mono hdx hcx)⟩
        rcases Op.length_cases i.op with h1 | h3
        · have ha : i.arg = 0 := harg1 (by omega)
          simp only [h1, Nat.lt_irrefl, decide_false, Bool.false_and, Bool.false_eq_true, ↓reduceIte]
          have hst := step_stack M obj code.length (fun c s => loop M obj c n 0 [] s) i (ip + 1) stack
            { st with polls := st.polls + 1 } (lastIter pre) d hat2 hdep hpops hcv.1 hrunV hrunU
          rw [ha] at hst
          split
          · rename_i ip' stack' st' heq
            rw [heq] at hst
            exact ih code instrs cert hs hk ip' stack' st' (hnextInv 1 (by simp [Instr.size, h1]) ip' stack' hst)
          · rename_i r st' heq
            rw [heq] at hst
            exact hst
        · have ha : i.arg = decode16 (code.getD (ip + 1) 0) (code.getD (ip + 2) 0) := harg3 h3
          have hfit : ¬ (ip + 3 > code.length) := by simp only [Instr.size, h3] at hsz; omega
          simp only [h3, show (1 : Nat) < 3 by decide, decide_true, Bool.true_and, decide_eq_true_eq, hfit,
            ↓reduceIte, ← ha]
          have hst := step_stack M obj code.length (fun c s => loop M obj c n 0 [] s) i (ip + 3) stack
            { st with polls := st.polls + 1 } (lastIter pre) d hat2 hdep hpops hcv.1 hrunV hrunU
          split
          · rename_i ip' stack' st' heq
            rw [heq] at hst
            exact ih code instrs cert hs hk ip' stack' st' (hnextInv 3 (by simp [Instr.size, h3]) ip' stack' hst)
          · rename_i r st' heq
            rw [heq] at hst
            exact hst


theorem check_go_stack (cs : List Bool) : ∀ (fs : List Bytes) (k : Nat), check.go cs k fs = none →
    ∀ f, f ∈ fs → ∃ instrs cert, StaticOk cs.length f instrs ∧ StackOk f instrs cert
  | [], _, _, _, hm => by cases hm
  | g :: rest, k, h, f, hm => by
    simp only [check.go] at h
    split at h
    · cases h
    · rename_i hb
      rcases List.mem_cons.mp hm with heq | hin
      · subst heq; exact checkBody_stack cs ⟨f, true⟩ hb
      · exact check_go_stack cs rest (k + 1) h f hin

theorem check_stack (cs : List Bool) (main : Bytes) (funcs : List Bytes) (h : check cs main funcs = none) :
    (∃ instrs cert, StaticOk cs.length main instrs ∧ StackOk main instrs cert) ∧
    ∀ f, f ∈ funcs → ∃ instrs cert, StaticOk cs.length f instrs ∧ StackOk f instrs cert := by
  unfold check at h
  split at h
  · cases h
  · rename_i hb
    exact ⟨checkBody_stack cs ⟨main, false⟩ hb, check_go_stack cs funcs 1 h⟩

/-- **A verified machine whose calls return values never ends a run in a stack underflow**: every
    object, state and step budget, at any call depth. -/
theorem run_stack (M : Machine) (h : checkMachine M = none) (obj : HostVal) (hcv : CallsReturnValues M obj)
    (fuel : Nat) (st : RunSt) : (run M obj fuel st).1 ≠ err "underflow" := by
  obtain ⟨⟨mi, mc, hm, hmk⟩, hf⟩ := check_stack _ _ _ h
  simp only [List.length_map] at hm hf
  have hb : BodiesOk M := fun uf huf => hf uf.code (List.mem_map.mpr ⟨uf, huf, rfl⟩)
  unfold run
  split
  · simp [err]
  · simp only [finish]
    exact loop_stack M obj hb hcv fuel M.main mi mc hm hmk 0 [] st (Inv_start hm hmk)

end EvalFilter.WF
