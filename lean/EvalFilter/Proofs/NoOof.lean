import EvalFilter.Proofs.StmtCorrect
set_option linter.unusedSimpArgs false
set_option linter.unusedVariables false
namespace EvalFilter.Exec
open EvalFilter EvalFilter.VM EvalFilter.Compiler

/-- the VM's out-of-budget marker is never an error of an operator, a lookup or a literal -/
def NotOof (e : Err) : Prop := e ≠ .outOfFuel

set_option hygiene false in
macro "noof_op" : tactic => `(tactic| (
  repeat' split at h
  all_goals first
    | contradiction
    | (cases h; simp [NotOof])
    | (simp_all [NotOof, err, vbool, Except.map])))

theorem intOp_noof {op : Op} {l r : Int64} {e : Err} (h : intOp op l r = .error e) : NotOof e := by
  unfold intOp at h; simp only [err, vbool] at h; noof_op
theorem floatOp_noof {op : Op} {l r : Float} {e : Err} (h : floatOp op l r = .error e) : NotOof e := by
  unfold floatOp at h; simp only [err, vbool] at h; noof_op
theorem strOp_noof {op : Op} {l r : Str} {e : Err} (h : strOp op l r = .error e) : NotOof e := by
  unfold strOp at h; simp only [err, vbool] at h; noof_op
theorem callMatch_noof {M : Machine} {a b : Value} {e : Err} (h : callMatch M a b = .error e) : NotOof e := by
  unfold callMatch at h
  split at h
  · cases h; simp [NotOof]
  · revert h
    generalize callImpl _ _ _ = r
    intro h
    cases hres : r.res with
    | val v => cases v <;> simp [hres] at h <;> (cases h; simp [NotOof])
    | panic => simp [hres] at h; cases h; simp [NotOof]
    | unsupported => simp [hres] at h; cases h; simp [NotOof]
theorem binop_noof {M : Machine} {op : Op} {l r : Value} {e : Err} (h : binop M op l r = .error e) : NotOof e := by
  unfold binop at h
  simp only [Except.map, err, vbool] at h
  repeat' split at h
  all_goals try contradiction
  all_goals try (cases h)
  all_goals first
    | (simp [NotOof]; done)
    | exact intOp_noof (by assumption)
    | exact floatOp_noof (by assumption)
    | exact strOp_noof (by assumption)
    | exact callMatch_noof (by assumption)
    | (rename_i h1; simp only [err] at h1; cases h1; simp [NotOof]; done)
theorem indexOp_noof {l i : Value} {e : Err} (h : indexOp l i = .error e) : NotOof e := by
  unfold indexOp at h; simp only [err] at h; noof_op
theorem minusOp_noof {v : Value} {e : Err} (h : minusOp v = .error e) : NotOof e := by
  unfold minusOp at h; simp only [err] at h; noof_op
theorem sqrtOp_noof {v : Value} {e : Err} (h : sqrtOp v = .error e) : NotOof e := by
  unfold sqrtOp at h; simp only [err] at h; noof_op
theorem rangeOp_noof {a b : Value} {e : Err} (h : rangeOp a b = .error e) : NotOof e := by
  unfold rangeOp at h; simp only [err] at h; noof_op
theorem lookup_noof {obj : HostVal} {env : Env} {n : Str} {e : Err} (h : lookup obj env n = .error e) : NotOof e := by
  unfold lookup at h
  cases hg : env.get (Str.trimPrefix n ['$']) with
  | some v => simp [hg] at h
  | none =>
    simp only [hg] at h
    cases hf : Reflect.fieldsOf obj with
    | error x => simp [hf] at h; cases h; simp [NotOof]
    | ok fs => simp [hf] at h
theorem poolVal_noof {cs : List Value} {v : Value} {e : Err} (h : poolVal cs v = .error e) : NotOof e := by
  unfold poolVal at h; simp only [err] at h; noof_op
theorem applyPrefix_noof {op : Str} {v : Value} {e : Err} (h : applyPrefix op v = .error e) : NotOof e := by
  unfold applyPrefix at h
  split at h
  · cases h
  · exact minusOp_noof h
  · exact sqrtOp_noof h
  · cases h; simp [NotOof]
theorem applyInfix_noof {M : Machine} {op : Str} {l r : Value} {e : Err} (h : applyInfix M op l r = .error e) : NotOof e := by
  unfold applyInfix at h
  split at h
  · cases hi : indexOp l r with
    | ok v => simp [hi, Except.map] at h
    | error x => simp [hi, Except.map] at h; subst h; exact indexOp_noof hi
  · cases hi : rangeOp l r with
    | ok v => simp [hi, Except.map] at h
    | error x => simp [hi, Except.map] at h; subst h; exact rangeOp_noof hi
  · exact binop_noof h
  · cases h; simp [NotOof]

theorem buildHash_noof : ∀ (fuel : Nat) (xs : List Value) (acc : List HPair) (e : Err),
    buildHash fuel xs acc = .error e → NotOof e
  | 0, _, _, _, h => by simp [buildHash] at h
  | _ + 1, [], _, _, h => by simp [buildHash] at h
  | _ + 1, [_], _, _, h => by simp [buildHash] at h
  | n + 1, v :: k :: more, acc, e, h => by
    simp only [buildHash] at h
    split at h
    · split at h <;> (cases h; simp [NotOof])
    · exact buildHash_noof n _ _ _ h

theorem failE_failed {y e : Err} {env env' : Env} {o1 o : Str} (h : failE y env o1 = .failed e env' o) : y = e := by
  unfold failE at h
  split at h
  · cases h
  · cases h; rfl

/-- a failure of the statement semantics that stems from an expression is never the marker -/
theorem failE_noof {y e : Err} {env env' : Env} {o1 o : Str} (h : failE y env o1 = .failed e env' o) : NotOof e := by
  unfold failE at h
  split at h
  · cases h
  · rename_i hne
    cases h
    exact hne

mutual
  /-- no call inside (the value-producing fragment before calls were added) -/
  def callFree : Expr → Bool
    | .call _ _ => false
    | .prefix _ r => callFree r
    | .infix _ l r => callFree l && callFree r
    | .index l i => callFree l && callFree i
    | .arrayLit els => callFreeEs els
    | .ternary c t f => callFree c && callFree t && callFree f
    | .hashLit ps => callFreePs ps
    | _ => true
  def callFreeEs : List Expr → Bool
    | [] => true
    | e :: es => callFree e && callFreeEs es
  def callFreePs : List Pair → Bool
    | [] => true
    | .mk k v :: ps => callFree k && callFree v && callFreePs ps
end

mutual
  theorem evalE_noof (M : Machine) (obj : HostVal) (env : Env) : ∀ (x : Expr) (out : Str) (e : Err) (o : Str),
      callFree x = true → evalE M obj env x out = (.error e, o) → NotOof e
    | .boolLit b, out, e, o, hcf, h => by simp [evalE] at h
    | .intLit _ v, out, e, o, hcf, h => by
      simp only [evalE] at h
      split at h
      · simp at h
      · simp only [Prod.mk.injEq] at h; exact poolVal_noof h.1
    | .floatLit _ f, out, e, o, hcf, h => by simp only [evalE, Prod.mk.injEq] at h; exact poolVal_noof h.1
    | .strLit s, out, e, o, hcf, h => by simp only [evalE, Prod.mk.injEq] at h; exact poolVal_noof h.1
    | .regexpLit _ val flags, out, e, o, hcf, h => by simp only [evalE, Prod.mk.injEq] at h; exact poolVal_noof h.1
    | .ident name, out, e, o, hcf, h => by
      simp only [evalE, Prod.mk.injEq] at h
      cases hp : poolVal M.consts (.str name) with
      | ok c => simp only [hp] at h; exact lookup_noof h.1
      | error x => simp only [hp] at h; cases h.1; exact poolVal_noof hp
    | .prefix op r, out, e, o, hcf, h => by
      simp only [evalE] at h
      cases hr : evalE M obj env r out with
      | mk res o1 =>
        cases res with
        | ok v => simp only [hr, Prod.mk.injEq] at h; exact applyPrefix_noof h.1
        | error x => simp only [hr, Prod.mk.injEq, Except.error.injEq] at h; rw [← h.1]; exact evalE_noof M obj env r out x o1 (by simp only [callFree, callFreeEs, callFreePs, Bool.and_eq_true] at hcf; simp [hcf]) hr
    | .infix op l r, out, e, o, hcf, h => by
      simp only [evalE] at h
      cases hl : evalE M obj env l out with
      | mk res o1 =>
        cases res with
        | error x => simp only [hl, Prod.mk.injEq, Except.error.injEq] at h; rw [← h.1]; exact evalE_noof M obj env l out x o1 (by simp only [callFree, callFreeEs, callFreePs, Bool.and_eq_true] at hcf; simp [hcf]) hl
        | ok lv =>
          simp only [hl] at h
          cases hr : evalE M obj env r o1 with
          | mk res2 o2 =>
            cases res2 with
            | error x => simp only [hr, Prod.mk.injEq, Except.error.injEq] at h; rw [← h.1]; exact evalE_noof M obj env r o1 x o2 (by simp only [callFree, callFreeEs, callFreePs, Bool.and_eq_true] at hcf; simp [hcf]) hr
            | ok rv =>
              simp only [hr] at h
              cases ha : applyInfix M op lv rv with
              | ok p => simp [ha] at h
              | error x => simp only [ha, Prod.mk.injEq, Except.error.injEq] at h; rw [← h.1]; exact applyInfix_noof ha
    | .index l i, out, e, o, hcf, h => by
      simp only [evalE] at h
      cases hl : evalE M obj env l out with
      | mk res o1 =>
        cases res with
        | error x => simp only [hl, Prod.mk.injEq, Except.error.injEq] at h; rw [← h.1]; exact evalE_noof M obj env l out x o1 (by simp only [callFree, callFreeEs, callFreePs, Bool.and_eq_true] at hcf; simp [hcf]) hl
        | ok lv =>
          simp only [hl] at h
          cases hr : evalE M obj env i o1 with
          | mk res2 o2 =>
            cases res2 with
            | error x => simp only [hr, Prod.mk.injEq, Except.error.injEq] at h; rw [← h.1]; exact evalE_noof M obj env i o1 x o2 (by simp only [callFree, callFreeEs, callFreePs, Bool.and_eq_true] at hcf; simp [hcf]) hr
            | ok iv => simp only [hr, Prod.mk.injEq] at h; exact indexOp_noof h.1
    | .arrayLit els, out, e, o, hcf, h => by
      simp only [evalE] at h
      cases hl : evalEs M obj env els out with
      | mk res o1 =>
        cases res with
        | ok vs => simp [hl] at h
        | error x => simp only [hl, Prod.mk.injEq, Except.error.injEq] at h; rw [← h.1]; exact evalEs_noof M obj env els out x o1 (by simp only [callFree, callFreeEs, callFreePs, Bool.and_eq_true] at hcf; simp [hcf]) hl
    | .ternary c t f, out, e, o, hcf, h => by
      simp only [evalE] at h
      cases hc : evalE M obj env c out with
      | mk res o1 =>
        cases res with
        | error x => simp only [hc, Prod.mk.injEq, Except.error.injEq] at h; rw [← h.1]; exact evalE_noof M obj env c out x o1 (by simp only [callFree, callFreeEs, callFreePs, Bool.and_eq_true] at hcf; simp [hcf]) hc
        | ok cv =>
          simp only [hc] at h
          split at h
          · exact evalE_noof M obj env t o1 e o (by simp only [callFree, callFreeEs, callFreePs, Bool.and_eq_true] at hcf; simp [hcf]) h
          · exact evalE_noof M obj env f o1 e o (by simp only [callFree, callFreeEs, callFreePs, Bool.and_eq_true] at hcf; simp [hcf]) h
    | .hashLit ps, out, e, o, hcf, h => by
      simp only [evalE] at h
      cases hl : evalPs M obj env ps out with
      | mk res o1 =>
        cases res with
        | error x => simp only [hl, Prod.mk.injEq, Except.error.injEq] at h; rw [← h.1]; exact evalPs_noof M obj env ps out x o1 (by simp only [callFree, callFreeEs, callFreePs, Bool.and_eq_true] at hcf; simp [hcf]) hl
        | ok kvs =>
          simp only [hl] at h
          cases hb : buildHash (kvs.length + 1) kvs.reverse [] with
          | ok hp => simp [hb] at h
          | error x => simp only [hb, Prod.mk.injEq, Except.error.injEq] at h; rw [← h.1]; exact buildHash_noof _ _ _ _ hb
    | .postfix _ _, out, e, o, hcf, h => by simp only [evalE, Prod.mk.injEq, Except.error.injEq] at h; rw [← h.1]; simp [NotOof]
    | .call fn args, out, e, o, hcf, h => by simp [callFree] at hcf
    | .assign _ _, out, e, o, hcf, h => by simp only [evalE, Prod.mk.injEq, Except.error.injEq] at h; rw [← h.1]; simp [NotOof]
    | .ifE _ _ _, out, e, o, hcf, h => by simp only [evalE, Prod.mk.injEq, Except.error.injEq] at h; rw [← h.1]; simp [NotOof]
    | .whileE _ _, out, e, o, hcf, h => by simp only [evalE, Prod.mk.injEq, Except.error.injEq] at h; rw [← h.1]; simp [NotOof]
    | .foreachE _ _ _ _, out, e, o, hcf, h => by simp only [evalE, Prod.mk.injEq, Except.error.injEq] at h; rw [← h.1]; simp [NotOof]
    | .switchE _ _, out, e, o, hcf, h => by simp only [evalE, Prod.mk.injEq, Except.error.injEq] at h; rw [← h.1]; simp [NotOof]
    | .funcDef _ _ _, out, e, o, hcf, h => by simp only [evalE, Prod.mk.injEq, Except.error.injEq] at h; rw [← h.1]; simp [NotOof]
    | .localE _, out, e, o, hcf, h => by simp only [evalE, Prod.mk.injEq, Except.error.injEq] at h; rw [← h.1]; simp [NotOof]
  theorem evalPs_noof (M : Machine) (obj : HostVal) (env : Env) : ∀ (ps : List Pair) (out : Str) (e : Err) (o : Str),
      callFreePs ps = true → evalPs M obj env ps out = (.error e, o) → NotOof e
    | [], out, e, o, hcf, h => by simp [evalPs] at h
    | .mk k v :: ps, out, e, o, hcf, h => by
      simp only [evalPs] at h
      cases hk : evalE M obj env k out with
      | mk res o1 =>
        cases res with
        | error y => simp only [hk, Prod.mk.injEq, Except.error.injEq] at h; rw [← h.1]; exact evalE_noof M obj env k out y o1 (by simp only [callFree, callFreeEs, callFreePs, Bool.and_eq_true] at hcf; simp [hcf]) hk
        | ok kv =>
          simp only [hk] at h
          cases hv : evalE M obj env v o1 with
          | mk res2 o2 =>
            cases res2 with
            | error y => simp only [hv, Prod.mk.injEq, Except.error.injEq] at h; rw [← h.1]; exact evalE_noof M obj env v o1 y o2 (by simp only [callFree, callFreeEs, callFreePs, Bool.and_eq_true] at hcf; simp [hcf]) hv
            | ok vv =>
              simp only [hv] at h
              cases hr : evalPs M obj env ps o2 with
              | mk res3 o3 =>
                cases res3 with
                | error y => simp only [hr, Prod.mk.injEq, Except.error.injEq] at h; rw [← h.1]; exact evalPs_noof M obj env ps o2 y o3 (by simp only [callFree, callFreeEs, callFreePs, Bool.and_eq_true] at hcf; simp [hcf]) hr
                | ok vs => simp [hr] at h
  theorem evalEs_noof (M : Machine) (obj : HostVal) (env : Env) : ∀ (xs : List Expr) (out : Str) (e : Err) (o : Str),
      callFreeEs xs = true → evalEs M obj env xs out = (.error e, o) → NotOof e
    | [], out, e, o, hcf, h => by simp [evalEs] at h
    | x :: xs, out, e, o, hcf, h => by
      simp only [evalEs] at h
      cases hx : evalE M obj env x out with
      | mk res o1 =>
        cases res with
        | error y => simp only [hx, Prod.mk.injEq, Except.error.injEq] at h; rw [← h.1]; exact evalE_noof M obj env x out y o1 (by simp only [callFree, callFreeEs, callFreePs, Bool.and_eq_true] at hcf; simp [hcf]) hx
        | ok v =>
          simp only [hx] at h
          cases hr : evalEs M obj env xs o1 with
          | mk res2 o2 =>
            cases res2 with
            | error y => simp only [hr, Prod.mk.injEq, Except.error.injEq] at h; rw [← h.1]; exact evalEs_noof M obj env xs o1 y o2 (by simp only [callFree, callFreeEs, callFreePs, Bool.and_eq_true] at hcf; simp [hcf]) hr
            | ok vs => simp [hr] at h
end

/-- **An expression without calls always has a defined outcome**: the marker never appears, so the
    hypothesis of the expression-correctness theorem holds for it -/
theorem evalE_defined (M : Machine) (obj : HostVal) (env : Env) (e : Expr) (out : Str) (hcf : callFree e = true) :
    (evalE M obj env e out).1 ≠ .error undefErr := by
  intro hm
  obtain ⟨o, hx⟩ := fst_err hm
  exact evalE_noof M obj env e out _ o hcf hx rfl


theorem resetVal_noof {v : Value} {e : Err} (h : resetVal v = .error e) : NotOof e := by
  unfold resetVal at h
  split at h <;> first | (cases h; done) | (simp only [err] at h; cases h; simp [NotOof]; done) | (cases h; simp [NotOof])

theorem callWith_noof (deep : Bool) (run : List Stmt → Env → Str → Outcome)
    (hrun : ∀ b env out e env' o, run b env out = .failed e env' o → NotOof e)
    (M : Machine) (F : FnTable) (obj : HostVal) (name : Str) (args : List Expr) (env : Env) (out : Str)
    (e : Err) (env' : Env) (o : Str) (h : callWith deep run M F obj name args env out = .failed e env' o) : NotOof e := by
  unfold callWith at h
  cases hev : evalEs M obj env args out with
  | mk res o1 =>
    cases res with
    | error x =>
      simp only [hev] at h
      split at h
      · cases h
      · rename_i hne
        simp only [CallOut.failed.injEq] at h; rw [← h.1]; exact hne
    | ok vs =>
      simp only [hev] at h
      cases hl : lookupFn M name with
      | some impl =>
        simp only [hl] at h
        generalize callImpl name impl vs = cr at h
        cases hr : cr.res with
        | panic => simp only [hr, CallOut.failed.injEq] at h; rw [← h.1]; simp [NotOof]
        | unsupported => simp only [hr, CallOut.failed.injEq] at h; rw [← h.1]; simp [NotOof]
        | val v => cases v <;> simp [hr] at h <;> (rw [← h.1]; simp [NotOof])
      | none =>
        simp only [hl] at h
        cases hf : F.find name with
        | none => simp only [hf, CallOut.failed.injEq] at h; rw [← h.1]; simp [NotOof]
        | some sf =>
          simp only [hf] at h
          split at h
          · simp only [CallOut.failed.injEq] at h; rw [← h.1]; simp [NotOof]
          split at h
          · simp only [CallOut.failed.injEq] at h; rw [← h.1]; simp [NotOof]
          · generalize hb : run sf.body _ o1 = ob at h
            cases ob with
            | diverged => simp at h
            | failed x e2 o2 => simp only [CallOut.failed.injEq] at h; rw [← h.1]; exact hrun _ _ _ _ _ _ hb
            | returned v e2 o2 =>
              simp only [callEnd] at h
              split at h
              · simp only [CallOut.failed.injEq] at h; rw [← h.1]; simp [NotOof]
              · split at h <;> simp at h
            | normal e2 o2 =>
              simp only [callEnd] at h
              split at h
              · simp only [CallOut.failed.injEq] at h; rw [← h.1]; simp [NotOof]
              · split at h <;> simp at h

/-- the failures of the statement semantics are never the out-of-budget marker -/
structure NoOofAt (M : Machine) (F : FnTable) (obj : HostVal) (f : Nat) : Prop where
  E : ∀ depth x env out e env' o, execE M F obj depth f x env out = .failed e env' o → NotOof e
  S : ∀ depth s env out e env' o, execS M F obj depth f s env out = .failed e env' o → NotOof e
  Ss : ∀ depth ss env out e env' o, execSs M F obj depth f ss env out = .failed e env' o → NotOof e
  I : ∀ depth idx x body it k env out e env' o, execIter M F obj depth f idx x body it k env out = .failed e env' o → NotOof e
  A : ∀ depth v cs env out e env' o, execArms M F obj depth f v cs env out = .done (.failed e env' o) → NotOof e
  R : ∀ depth v es b env out e env' o, execArm M F obj depth f v es b env out = .done (.failed e env' o) → NotOof e
  D : ∀ depth cs env out e env' o, execDefaults M F obj depth f cs env out = .failed e env' o → NotOof e

theorem exec_noof (M : Machine) (F : FnTable) (obj : HostVal) : ∀ f, NoOofAt M F obj f
  | 0 => by constructor <;> intros <;> simp_all [execE, execS, execSs, execIter, execArms, execArm, execDefaults]
  | f + 1 => by
    have ih := exec_noof M F obj f
    refine ⟨?_, ?_, ?_, ?_, ?_, ?_, ?_⟩
    · intro depth x env out e env' o h
      cases x
      case «infix» op l r =>
        cases l <;> simp only [execE] at h
        case ident name =>
          cases hco : compoundOp op with
          | none => simp only [hco, Outcome.failed.injEq] at h; rw [← h.1]; simp [NotOof]
          | some oo =>
            simp only [hco] at h
            cases hl : evalE M obj env (.ident name) out with
            | mk res o1 =>
              cases res with
              | error y => simp only [hl] at h; exact failE_noof h
              | ok lv =>
                simp only [hl] at h
                cases hr : evalE M obj env r o1 with
                | mk res2 o2 =>
                  cases res2 with
                  | error y => simp only [hr] at h; exact failE_noof h
                  | ok rv =>
                    simp only [hr] at h
                    cases hb : binop M oo lv rv with
                    | error y => simp only [hb, Outcome.failed.injEq] at h; rw [← h.1]; exact binop_noof hb
                    | ok p => simp [hb] at h
        all_goals (simp only [Outcome.failed.injEq] at h; rw [← h.1]; simp [NotOof])
      case funcDef n ps b => simp [execE] at h
      case localE n => simp [execE] at h
      case call fn args =>
        simp only [execE] at h
        generalize hc : callWith (decide (depth ≥ maxCallDepth)) (fun b e o => execSs M F obj (depth + 1) f b e o) M F obj fn.str args env out = co at h
        cases co with
        | value v e2 o2 => simp at h
        | novalue e2 o2 => simp at h
        | undefined => simp at h
        | failed x e2 o2 =>
          simp only [Outcome.failed.injEq] at h; rw [← h.1]
          exact callWith_noof _ _ (fun b env out e env' o hb => ih.Ss _ b env out e env' o hb) M F obj _ _ _ _ _ _ _ hc
      case assign name v =>
        by_cases hcall : ∃ fn args, v = .call fn args
        · obtain ⟨fn, args, rfl⟩ := hcall
          simp only [execE] at h
          generalize hc : callWith (decide (depth ≥ maxCallDepth)) (fun b e o => execSs M F obj (depth + 1) f b e o) M F obj fn.str args env out = co at h
          cases co with
          | value v e2 o2 => simp at h
          | novalue e2 o2 => simp at h
          | undefined => simp at h
          | failed x e2 o2 =>
            simp only [Outcome.failed.injEq] at h; rw [← h.1]
            exact callWith_noof _ _ (fun b env out e env' o hb => ih.Ss _ b env out e env' o hb) M F obj _ _ _ _ _ _ _ hc
        rw [execE_assign depth f name v env out (fun fn args x => hcall ⟨fn, args, x⟩)] at h
        cases hv : evalE M obj env v out with
        | mk res o1 =>
          cases res with
          | ok y => simp [hv] at h
          | error y => simp only [hv] at h; exact failE_noof h
      all_goals simp only [execE] at h
      case ifE c cons alt =>
        cases hv : evalE M obj env c out with
        | mk res o1 =>
          cases res with
          | error y => simp only [hv] at h; exact failE_noof h
          | ok cv =>
            simp only [hv] at h
            split at h
            · exact ih.Ss _ _ _ _ _ _ _ h
            · cases alt with
              | none => simp at h
              | some a => exact ih.Ss _ _ _ _ _ _ _ h
      case whileE c body =>
        cases hv : evalE M obj env c out with
        | mk res o1 =>
          cases res with
          | error y => simp only [hv] at h; exact failE_noof h
          | ok cv =>
            simp only [hv] at h
            split at h
            · cases hb : execSs M F obj depth f body env o1 with
              | normal e2 o2 => simp only [hb] at h; exact ih.E _ _ _ _ _ _ _ h
              | returned a b d => simp [hb] at h
              | diverged => simp [hb] at h
              | failed a b d => simp only [hb, Outcome.failed.injEq] at h; rw [← h.1]; exact ih.Ss _ _ _ _ _ _ _ hb
            · simp at h
      case foreachE idx x v body =>
        cases hv : evalE M obj env v out with
        | mk res o1 =>
          cases res with
          | error y => simp only [hv] at h; exact failE_noof h
          | ok iv =>
            simp only [hv] at h
            cases hr : resetVal iv with
            | ok it => simp only [hr] at h; exact ih.I _ _ _ _ _ _ _ _ _ _ _ h
            | error y => simp only [hr, Outcome.failed.injEq] at h; rw [← h.1]; exact resetVal_noof hr
      case switchE v cs =>
        cases ha : execArms M F obj depth f v cs env out with
        | done o2 => simp only [ha] at h; subst h; exact ih.A _ _ _ _ _ _ _ _ ha
        | next e2 o2 => simp only [ha] at h; exact ih.D _ _ _ _ _ _ _ h
      all_goals (simp only [Outcome.failed.injEq] at h; rw [← h.1]; simp [NotOof])
    · intro depth s env out e env' o h
      cases s with
      | expr x => simp only [execS] at h; exact ih.E _ _ _ _ _ _ _ h
      | ret x =>
        by_cases hcall : ∃ fn args, x = .call fn args
        · obtain ⟨fn, args, rfl⟩ := hcall
          simp only [execS] at h
          generalize hc : callWith (decide (depth ≥ maxCallDepth)) (fun b e o => execSs M F obj (depth + 1) f b e o) M F obj fn.str args env out = co at h
          cases co with
          | value v e2 o2 => simp at h
          | novalue e2 o2 => simp at h
          | undefined => simp at h
          | failed y e2 o2 =>
            simp only [Outcome.failed.injEq] at h; rw [← h.1]
            exact callWith_noof _ _ (fun b env out e env' o hb => ih.Ss _ b env out e env' o hb) M F obj _ _ _ _ _ _ _ hc
        rw [execS_ret depth f x env out (fun fn args y => hcall ⟨fn, args, y⟩)] at h
        cases hv : evalE M obj env x out with
        | mk res o1 =>
          cases res with
          | ok y => simp [hv] at h
          | error y => simp only [hv] at h; exact failE_noof h
    · intro depth ss env out e env' o h
      cases ss with
      | nil => simp [execSs] at h
      | cons s rest =>
        by_cases hpair : IsPair s rest
        · obtain ⟨x, n, op, rest', rfl, rfl⟩ := hpair
          simp only [execSs] at h
          cases hv : evalE M obj env x out with
          | mk res o1 =>
            cases res with
            | error y => simp only [hv] at h; exact failE_noof h
            | ok y =>
              simp only [hv] at h
              cases hid : incDecEnv obj env n (op == ['+', '+']) with
              | ok env2 => simp only [hid] at h; exact ih.Ss _ _ _ _ _ _ _ h
              | error z =>
                simp only [hid, Outcome.failed.injEq] at h
                rw [← h.1]
                unfold incDecEnv at hid
                cases hl : lookup obj env n with
                | error w => simp only [hl, Except.error.injEq] at hid; rw [← hid]; exact lookup_noof hl
                | ok v => cases v <;> simp [hl] at hid <;> (rw [← hid]; simp [NotOof])
        rw [execSs_other M F obj depth f s rest env out hpair] at h
        cases hb : execS M F obj depth f s env out with
        | normal e2 o2 => simp only [hb] at h; exact ih.Ss _ _ _ _ _ _ _ h
        | returned a b d => simp [hb] at h
        | diverged => simp [hb] at h
        | failed a b d => simp only [hb, Outcome.failed.injEq] at h; rw [← h.1]; exact ih.S _ _ _ _ _ _ _ hb
    · intro depth idx x body it k env out e env' o h
      simp only [execIter] at h
      cases hn : iterNext it k with
      | none =>
        simp only [hn] at h
        cases hr : env.removeScope with
        | none => simp only [hr, Outcome.failed.injEq] at h; rw [← h.1]; simp [NotOof]
        | some e2 => simp [hr] at h
      | some p =>
        obtain ⟨val, i⟩ := p
        simp only [hn] at h
        generalize hb : execSs M F obj depth f body (if idx.isEmpty then env.declare x val else (env.declare x val).declare idx i) out = ob at h
        cases ob with
        | normal e2 o2 => exact ih.I _ _ _ _ _ _ _ _ _ _ _ h
        | returned a b d => simp at h
        | diverged => simp at h
        | failed a b d => simp only [Outcome.failed.injEq] at h; rw [← h.1]; exact ih.Ss _ _ _ _ _ _ _ hb
    · intro depth v cs env out e env' o h
      cases cs with
      | nil => simp [execArms] at h
      | cons c rest =>
        obtain ⟨isDef, es, b⟩ := c
        simp only [execArms] at h
        cases isDef with
        | true => simp only [↓reduceIte] at h; exact ih.A _ _ _ _ _ _ _ _ h
        | false =>
          simp only [Bool.false_eq_true, ↓reduceIte] at h
          cases ha : execArm M F obj depth f v es b env out with
          | done o2 => simp only [ha, ArmOut.done.injEq] at h; subst h; exact ih.R _ _ _ _ _ _ _ _ _ ha
          | next e2 o2 => simp only [ha] at h; exact ih.A _ _ _ _ _ _ _ _ h
    · intro depth v es b env out e env' o h
      cases es with
      | nil => simp [execArm] at h
      | cons x rest =>
        simp only [execArm] at h
        cases hv : evalE M obj env v out with
        | mk res o1 =>
          cases res with
          | error y => simp only [hv, ArmOut.done.injEq] at h; exact failE_noof h
          | ok vv =>
            simp only [hv] at h
            cases hx : evalE M obj env x o1 with
            | mk res2 o2 =>
              cases res2 with
              | error y => simp only [hx, ArmOut.done.injEq] at h; exact failE_noof h
              | ok xv =>
                simp only [hx] at h
                cases hc : caseOp M vv xv with
                | error y =>
                  simp only [hc, ArmOut.done.injEq, Outcome.failed.injEq] at h
                  rw [← h.1]
                  unfold caseOp at hc
                  split at hc
                  · cases hc
                  · split at hc
                    · exact callMatch_noof hc
                    · cases hc
                | ok p =>
                  obtain ⟨t, o3⟩ := p
                  simp only [hc] at h
                  split at h
                  · simp only [ArmOut.done.injEq] at h; exact ih.Ss _ _ _ _ _ _ _ h
                  · exact ih.R _ _ _ _ _ _ _ _ _ h
    · intro depth cs env out e env' o h
      cases cs with
      | nil => simp [execDefaults] at h
      | cons c rest =>
        obtain ⟨isDef, es, b⟩ := c
        simp only [execDefaults] at h
        cases isDef with
        | false => simp only [Bool.false_eq_true, ↓reduceIte] at h; exact ih.D _ _ _ _ _ _ _ h
        | true =>
          simp only [↓reduceIte] at h
          generalize hb : execSs M F obj depth f b env out = ob at h
          cases ob with
          | normal e2 o2 => exact ih.D _ _ _ _ _ _ _ h
          | returned a b2 d => simp at h
          | diverged => simp at h
          | failed a b2 d => simp only [Outcome.failed.injEq] at h; rw [← h.1]; exact ih.Ss _ _ _ _ _ _ _ hb

end EvalFilter.Exec
