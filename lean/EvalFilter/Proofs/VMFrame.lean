/-
  Frame lemmas about one instruction (`VM.step`) and the loop (`VM.loop`):
  how the poll counter evolves.  Used by C09 (cancellation) and C07.
-/
import EvalFilter.Model.VM

namespace EvalFilter.VM

/-- A run result is "within poll budget k": either the poll counter is still ≤ k, or it is k+1 and
    the run ended with the timeout error. -/
def Good (k : Nat) (x : Res × RunSt) : Prop :=
  x.2.polls ≤ k ∨ (x.2.polls = k + 1 ∧ x.1 = .error .timeout)

def StepOut.Good (k : Nat) : StepOut → Prop
  | .cont _ _ st' => st'.polls ≤ k
  | .halt r st' => VM.Good k (r, st')

theorem finish_fst (d : Nat) (x : Res × RunSt) : (finish d x).1 = x.1 := rfl
theorem finish_polls (d : Nat) (x : Res × RunSt) : (finish d x).2.polls = x.2.polls := rfl
theorem finish_out (d : Nat) (x : Res × RunSt) : (finish d x).2.out = x.2.out := rfl

theorem invoke_good (k : Nat) (runBody : Bytes → RunSt → Res × RunSt)
    (hbody : ∀ c s, s.polls ≤ k → Good k (runBody c s)) (uf : UserFn) (args : List Value) (st : RunSt)
    (hst : st.polls ≤ k) : Good k (invoke runBody uf args st) := by
  unfold invoke
  simp only []
  split
  · left; exact hst
  · split
    · left; exact hst
    · split
      · left; exact hst
      · have := hbody uf.code
          { st with env := (uf.params.zip args).foldl (fun e (p : Str × Value) => e.declare p.1 p.2) st.env.addScope,
                    depth := st.depth + 1 } hst
        unfold Good at this ⊢
        simpa [finish] using this

theorem declare_scopes_length (e : Env) (name : Str) (v : Value) :
    (e.declare name v).scopes.length = e.scopes.length := by
  unfold Env.declare
  split
  · rfl
  · rename_i s rest heq
    have := congrArg List.length heq
    simp at this ⊢
    omega

theorem foldl_declare_scopes_length (ps : List (Str × Value)) (e : Env) :
    (ps.foldl (fun e (p : Str × Value) => e.declare p.1 p.2) e).scopes.length = e.scopes.length := by
  induction ps generalizing e with
  | nil => rfl
  | cons p ps ih => simp only [List.foldl_cons]; rw [ih, declare_scopes_length]

/-- a call leaves at most one scope more than it found (the function's own, which OpCall then removes),
    whatever the callee does and however it ends -/
theorem invoke_scopes_le (runBody : Bytes → RunSt → Res × RunSt) (uf : UserFn) (args : List Value) (st : RunSt) :
    (invoke runBody uf args st).2.env.scopes.length ≤ st.env.scopes.length + 1 := by
  unfold invoke
  simp only []
  split
  · show st.env.scopes.length ≤ st.env.scopes.length + 1; omega
  · split
    · simp [Env.addScope]
    · split
      · simp [foldl_declare_scopes_length, Env.addScope]
      · simp [finish, Env.truncate, List.length_take, foldl_declare_scopes_length, Env.addScope]
        omega

theorem step_good (k : Nat) (M : Machine) (obj : HostVal) (codeLen : Nat)
    (runBody : Bytes → RunSt → Res × RunSt)
    (hbody : ∀ c s, s.polls ≤ k → Good k (runBody c s))
    (opb arg next : Nat) (stack : List Value) (st : RunSt) (hst : st.polls ≤ k) :
    (step M obj codeLen runBody opb arg next stack st).Good k := by
  have hg : ∀ uf args r st', invoke runBody uf args st = (r, st') → Good k (r, st') := by
    intro uf args r st' h
    have := invoke_good k runBody hbody uf args st hst
    rw [h] at this; exact this
  unfold step
  simp only []
  repeat' split
  all_goals (try (first | exact hst | (left; exact hst)))
  -- what remains are the outcomes of a user-function call: `invoke … = (r, st')`
  all_goals (
    have h2 := hg _ _ _ _ ‹invoke runBody _ _ st = _›
    simp_all [Good, StepOut.Good])

/-- Once the context reports cancellation from poll `k` on, a run that starts with at most `k` polls
    made ends within budget: no instruction is executed after the poll that saw the cancellation. -/
theorem loop_good (k : Nat) (M : Machine) (hdone : ∀ n, k ≤ n → M.done n = true) (obj : HostVal) :
    ∀ (fuel : Nat) (code : Bytes) (ip : Nat) (stack : List Value) (st : RunSt),
      st.polls ≤ k → Good k (loop M obj code fuel ip stack st) := by
  intro fuel
  induction fuel with
  | zero => intro code ip stack st h; unfold loop; left; exact h
  | succ n ih =>
    intro code ip stack st h
    unfold loop
    simp only []
    split
    · left; exact h
    · split
      · -- the poll reports cancellation
        by_cases hk : st.polls = k
        · right; exact ⟨by simp [hk], rfl⟩
        · left; show st.polls + 1 ≤ k; omega
      · rename_i hnd
        have hlt : st.polls < k := Nat.lt_of_not_le (fun hc => hnd (hdone _ hc))
        split
        · left; show st.polls + 1 ≤ k; omega
        · have hs := step_good k M obj code.length (fun c s => loop M obj c n 0 [] s)
            (fun c s hs => ih c 0 [] s hs)
            (code.getD ip 0).toNat
            (if byteLength (code.getD ip 0).toNat > 1 then decode16 (code.getD (ip+1) 0) (code.getD (ip+2) 0) else 0)
            (ip + byteLength (code.getD ip 0).toNat) stack
            { st with polls := st.polls + 1 } (show st.polls + 1 ≤ k by omega)
          split
          · rename_i heq
            rw [heq] at hs
            exact ih _ _ _ _ hs
          · rename_i heq
            rw [heq] at hs
            exact hs

end EvalFilter.VM
