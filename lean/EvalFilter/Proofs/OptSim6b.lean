import EvalFilter.Proofs.OptSim6
set_option linter.unusedSimpArgs false
set_option linter.unusedVariables false
namespace EvalFilter.OptSim
open EvalFilter EvalFilter.VM EvalFilter.OptCheck

theorem mem_offs {I : IL} {a : Nat} (h : (offs I).contains a = true) : ∃ i, (a, i) ∈ I := by
  have : a ∈ offs I := by simpa using h
  unfold offs at this
  rw [List.mem_map] at this
  obtain ⟨p, hp, rfl⟩ := this
  exact ⟨p.2, hp⟩

/-- **Dead-code removal validated.** -/
theorem validDead_sound {M M' : Machine} {obj : HostVal} {c c' : Bytes} (h : validDead c c' = true) :
    ∃ R, BodySim M M' obj c c' R := by
  unfold validDead at h
  cases hd : WF.decode 0 c with
  | none => simp [hd] at h
  | some I =>
    cases hd' : WF.decode 0 c' with
    | none => simp [hd, hd'] at h
    | some I' =>
      simp only [hd, hd', Bool.and_eq_true, List.all_eq_true] at h
      obtain ⟨h0, hall⟩ := h
      refine ⟨fun a b => a = b ∧ (offs I').contains a = true, ⟨rfl, h0⟩, ?_, ?_⟩
      · obtain ⟨i, hi⟩ := mem_offs h0
        have hc := hall _ hi
        simp only [Bool.and_eq_true] at hc
        have f' := fetch_of_decode hd' hi
        have f := fetch_of_decode hd (mem_of_contains hc.1.1.1)
        have hp : 0 < i.op.length := by rcases WF.Op.length_cases i.op with h | h <;> omega
        have h1 := f.fits
        have h2 := f'.fits
        cases c <;> cases c' <;> simp_all
      · intro ip ip' ⟨e, hin⟩
        subst e
        obtain ⟨i, hi⟩ := mem_offs hin
        have hc := hall _ hi
        simp only [Bool.and_eq_true, Bool.or_eq_true, bne_iff_ne, ne_eq, beq_iff_eq] at hc
        obtain ⟨⟨⟨hmem, hj⟩, hjf⟩, hnext⟩ := hc
        right; left
        refine ⟨i, i, fetch_of_decode hd (mem_of_contains hmem), fetch_of_decode hd' hi, rfl, ?_⟩
        right; right
        rcases hnext with hr | hn
        · left; exact ⟨hr, rfl⟩
        · right; exact ⟨hj, hjf, rfl, rfl, hn⟩

end EvalFilter.OptSim

namespace EvalFilter.OptSim
open EvalFilter EvalFilter.VM EvalFilter.OptCheck

/-- **NOP removal validated.** -/
theorem validStrip_sound {M M' : Machine} {obj : HostVal} {c c' : Bytes} (hnd : NeverDone M) (h : validStrip c c' = true) :
    ∃ R, BodySim M M' obj c c' R := by
  unfold validStrip at h
  cases hd : WF.decode 0 c with
  | none => simp [hd] at h
  | some I =>
    cases hd' : WF.decode 0 c' with
    | none => simp [hd, hd'] at h
    | some I' =>
      simp only [hd, hd', Bool.and_eq_true, List.all_eq_true, beq_iff_eq, Bool.or_eq_true] at h
      obtain ⟨⟨⟨⟨h0, hlen⟩, hemp⟩, hstart⟩, hall⟩ := h
      generalize hrw : stripMap I c.length = rw at h0 hlen hall
      refine ⟨fun a b => rw.lookup a = some b ∧ (a = c.length ∨ ∃ i, (a, i) ∈ I), ⟨h0, ?_⟩, hemp, ?_⟩
      · rcases hstart with h | h
        · left; exact h.symm
        · right; exact mem_offs h
      · intro ip ip' ⟨hl, hwhere⟩
        rcases hwhere with he | ⟨i, hi⟩
        · left
          subst he
          rw [hlen] at hl
          cases hl
          exact ⟨Nat.le_refl _, Nat.le_refl _⟩
        · have hc := hall _ hi
          simp only [hl] at hc
          obtain ⟨hsz, _, _, _, hnext⟩ := WF.decode_spec c I hd ip i hi
          by_cases hnop : i.op = .nop
          · -- a NOP: the first program makes one turn, the second none
            simp only [hnop, beq_self_eq_true, ↓reduceIte, beq_iff_eq] at hc
            right; right
            intro stack st st' hst
            have f := fetch_of_decode hd hi
            have hi0 : i = ⟨.nop, 0⟩ := by
              obtain ⟨iop, iarg⟩ := i
              simp only at hnop
              subst hnop
              have := f.arg
              simp [Op.length] at this
              simp [this]
            rw [hi0] at f
            refine ⟨1, 0, ip + 1, ip', stack, { st with polls := st.polls + 1 }, st', Nat.one_pos,
              steps_one (y := (ip + 1, stack, { st with polls := st.polls + 1 })) (fun fu => turn_nop hnd f stack st fu),
              .zero _, ⟨hc, ?_⟩, ⟨hst.1, hst.2.1, hst.2.2.1, fun e => by cases e⟩, Or.inr ⟨by omega, ?_⟩⟩
            · have hs : i.size = 1 := by rw [hi0]; rfl
              rw [hs] at hnext
              exact hnext
            · have := f.fits
              simpa [Op.length] using this
          · have hnop' : (i.op == Op.nop) = false := by simpa using hnop
            simp only [hnop, hnop', Bool.false_eq_true, ↓reduceIte, Bool.and_eq_true, Bool.or_eq_true, beq_iff_eq,
              bne_iff_ne, ne_eq, decide_eq_true_eq] at hc
            obtain ⟨⟨hmem, hnx⟩, hjmp⟩ := hc
            have f := fetch_of_decode hd hi
            have f' := fetch_of_decode hd' (mem_of_contains hmem)
            right; left
            have hop : (remap rw i).op = i.op := by unfold remap; split <;> rfl
            refine ⟨i, remap rw i, f, f', hop, ?_⟩
            by_cases hj : i.op = .jump
            · left
              rcases hjmp with ⟨h1, _⟩ | ⟨⟨h1, h2⟩, h3⟩
              · exact absurd hj h1
              · cases hm : rw.lookup i.arg with
                | none => simp [hm] at h3
                | some m =>
                  simp only [hm, decide_eq_true_eq] at h3
                  have harg : (remap rw i).arg = m := by simp [remap, hj, hm]
                  exact ⟨hj, h1, by rw [harg]; exact h3, ⟨by rw [harg], Or.inr (mem_offs h2)⟩⟩
            · by_cases hjf : i.op = .jumpIfFalse
              · right; left
                have hs : i.size = 3 := by simp [Instr.size, hjf, Op.length]
                rcases hjmp with ⟨_, h1⟩ | ⟨⟨h1, h2⟩, h3⟩
                · exact absurd hjf h1
                · cases hm : rw.lookup i.arg with
                  | none => simp [hm] at h3
                  | some m =>
                    simp only [hm, decide_eq_true_eq] at h3
                    have harg : (remap rw i).arg = m := by simp [remap, hjf, hm]
                    rcases hnx with (hr | hr) | hr
                    · rw [hjf] at hr; cases hr
                    · rw [hjf] at hr; cases hr
                    · rw [hs] at hr hnext
                      exact ⟨hjf, h1, by rw [harg]; exact h3, ⟨by rw [harg], Or.inr (mem_offs h2)⟩, ⟨hr, hnext⟩⟩
              · have harg : (remap rw i).arg = i.arg := by simp [remap, hj, hjf]
                right; right
                rcases hnx with (hr | hr) | hr
                · left; exact ⟨hr, harg⟩
                · exact absurd hr hj
                · right; exact ⟨hj, hjf, harg, hr, hnext⟩

end EvalFilter.OptSim
