/-
  Model of the reflection glue in vm/vm.go (`inspectObject`, `primitiveToObject`,
  `createHash`, `createArrayFromSlice`) over a tree describing a Go value the way
  package reflect presents it.  Go's `reflect` itself is trusted; what is modelled
  is the conversion logic written in vm.go, including the places where it panics
  (those panics are recovered by `Execute`).
-/
import EvalFilter.Model.Value

namespace EvalFilter

inductive IntKind | int | int8 | int16 | int32 | int64
  deriving DecidableEq, Repr

mutual
  inductive HostVal
    /-- a nil interface value (as an object: `Run(nil)`) / an invalid reflect.Value -/
    | nilIface
    | intV (k : IntKind) (v : Int64)
    | uintV (v : Nat)
    | floatV (is32 : Bool) (f : Float)
    | strV (s : Str)
    | boolV (b : Bool)
    | timeV (unix : Int64)
    | structV (fields : List HField)
    /-- elements as `Index(i).Interface()` shows them (dynamic values) -/
    | sliceV (els : List HostVal)
    /-- `elemIface`: the map's element type is an interface type -/
    | mapV (elemIface : Bool) (entries : List HEntry)
    | nilPtr
    | ptrV (to : HostVal)
    /-- a struct field whose static type is an interface -/
    | ifaceV (inner : HostVal)
    /-- func, chan, complex, array, … -/
    | opaqueV
  inductive HField
    | mk (name : Str) (exported : Bool) (v : HostVal)
  inductive HEntry
    | mk (k v : HostVal)
end

instance : Inhabited HostVal := ⟨.nilIface⟩

namespace Reflect

/-- outcome of a conversion: a Go panic (recovered by Execute) or a value -/
abbrev R := Except Unit

mutual
  /-- `primitiveToObject`; `ro` = the reflect.Value was reached through an unexported field,
      so `Interface()` panics -/
  def toObject (ro : Bool) : HostVal → R Value
    | .nilIface => pure .null
    | .intV k v =>
        if k == .int || k == .int64 then pure (.int v)
        else if ro then throw () else pure .null
    | .uintV _ => if ro then throw () else pure .null
    | .floatV _ f => pure (.float f)
    | .strV s => pure (.str s)
    | .boolV b => pure (.bool b)
    | .timeV u => if ro then throw () else pure (.int u)
    | .structV _ => if ro then throw () else pure .null
    | .sliceV els => do
        let vs ← sliceToArray ro els
        pure (.array vs)
    | .mapV elemIface entries => do
        let ps ← mapToHash ro elemIface entries []
        pure (.hash ps)
    | .nilPtr => if ro then throw () else pure .null
    | .ptrV _ => if ro then throw () else pure .null
    | .ifaceV _ => if ro then throw () else pure .null
    | .opaqueV => if ro then throw () else pure .null

  /-- `createArrayFromSlice`: members that are not string/bool/float32/float64/int/int32/int64/
      time.Time are dropped -/
  def sliceToArray (ro : Bool) : List HostVal → R (List Value)
    | [] => pure []
    | e :: es => do
        if ro then throw ()
        let rest ← sliceToArray ro es
        match e with
        | .strV s => pure (.str s :: rest)
        | .boolV b => pure (.bool b :: rest)
        | .floatV _ f => pure (.float f :: rest)
        | .intV k v => if k == .int || k == .int32 || k == .int64 then pure (.int v :: rest) else pure rest
        | .timeV u => pure (.int u :: rest)
        | _ => pure rest

  /-- `createHash` -/
  def mapToHash (ro : Bool) (elemIface : Bool) : List HEntry → List HPair → R (List HPair)
    | [], acc => pure acc
    | .mk k v :: es, acc => do
        let kv ← toObject ro k
        -- `field.MapIndex(key).Elem()`
        let vv ← (if elemIface then toObject ro v else
                    match v with
                    | .nilPtr => pure .null
                    | .ptrV x => toObject ro x
                    | _ => throw ())
        match kv.hashKey? with
        | none => throw ()
        | some hk => mapToHash ro elemIface es (HashMapModel.insert acc (.mk hk kv vv))
end

def structFields : List HField → R (List (Str × Value))
  | [] => pure []
  | .mk name exported v :: fs => do
      let x ← toObject (!exported) v
      let rest ← structFields fs
      pure ((name, x) :: rest)

def mapFields (elemIface : Bool) : List HEntry → R (List (Str × Value))
  | [] => pure []
  | .mk k v :: es => do
      let name ← (match k with | .strV s => pure s | _ => throw ())
      let x ← (if elemIface then toObject false v else
                match v with
                | .nilPtr => pure .null
                | .ptrV y => toObject false y
                | _ => throw ())
      let rest ← mapFields elemIface es
      pure ((name, x) :: rest)

/-- `inspectObject`: the name → value table of the object of this run, or a panic -/
def fieldsOf (obj : HostVal) : R (List (Str × Value)) :=
  match obj with
  | .nilIface => pure []
  | .mapV elemIface entries => mapFields elemIface entries
  | .structV fs => structFields fs
  | .ptrV (.mapV elemIface entries) => mapFields elemIface entries
  | .ptrV (.structV fs) => structFields fs
  | _ => throw ()

/-- later bindings of the same name win (Go: `vm.fields[name] = ret`) -/
def lookupField (fs : List (Str × Value)) (name : Str) : Option Value :=
  (fs.reverse.lookup name)

end Reflect
end EvalFilter
