/-
  Model of environment/builtins.go: one definition per `fnXxx`.

  A built-in returns a value, or panics (`panic()`), and may write to standard
  output.  Where the Go code calls into libraries that are modelled only on a
  subset (regexp syntax, fmt verbs) the result is `unsupported` and the
  correspondence harness skips the case.
-/
import EvalFilter.Model.Value
import EvalFilter.Model.Regex
import EvalFilter.Model.Unicode

namespace EvalFilter.Builtins
open EvalFilter

inductive BVal
  | val (v : Value)
  | panic
  | unsupported

structure BRes where
  out : Str := []
  res : BVal

def ret (v : Value) : BRes := { res := .val v }
def null : BRes := ret .null

/-! ### numeric helpers shared with the VM -/

def isNumber : Value → Bool
  | .int _ => true
  | .float _ => true
  | _ => false

def toFloat : Value → Float
  | .int i => i.toFloat
  | .float f => f
  | _ => 0

/-- `numberLessEqual`: two integers as integers, anything else as floats -/
def numberLessEqual (a b : Value) : Bool :=
  match a, b with
  | .int x, .int y => x ≤ y
  | _, _ => toFloat a ≤ toFloat b

/-! ### string helpers -/

/-- `strings.TrimSpace` -/
def trimSpace (s : Str) : Str :=
  ((s.dropWhile Unicode.isSpace).reverse.dropWhile Unicode.isSpace).reverse

/-- `strings.Split(s, sep)` -/
def splitOn (s sep : Str) : List Str :=
  if sep.isEmpty then s.map (fun c => [c])
  else
    let rec go (fuel : Nat) (rest cur : Str) (acc : List Str) : List Str :=
      match fuel with
      | 0 => acc ++ [cur ++ rest]
      | fuel + 1 =>
        match rest with
        | [] => acc ++ [cur]
        | c :: cs =>
          if Str.hasPrefix rest sep then go fuel (rest.drop sep.length) [] (acc ++ [cur])
          else go fuel cs (cur ++ [c]) acc
    go (s.length + 1) s [] []

def joinWith (sep : Str) : List Str → Str
  | [] => []
  | [x] => x
  | x :: y :: r => x ++ sep ++ joinWith sep (y :: r)

def toLower (s : Str) : Str := s.map Unicode.toLower
def toUpper (s : Str) : Str := s.map Unicode.toUpper

/-- `strconv.ParseInt(s, 10, 64)` -/
def parseInt (s : Str) : Option Int64 :=
  let (neg, ds) := match s with
    | '-' :: r => (true, r)
    | '+' :: r => (false, r)
    | r => (false, r)
  if ds.isEmpty || !FloatConv.allDigits ds then none else
  let n := FloatConv.digitsToNat ds
  if neg then (if n ≤ 2 ^ 63 then some (Int64.ofInt (-(n : Int))) else none)
  else (if n < 2 ^ 63 then some (Int64.ofNat n) else none)

/-! ### match / replace -/

/-- `fnMatch` on (subject text, pattern) -/
def matchText (subject pattern : Str) : BVal :=
  match Regex.compile pattern with
  | .unsupported => .unsupported
  | .invalid => .val (.bool false)
  | .ok fl re =>
    let lines := splitOn subject ['\n']
    .val (.bool (lines.any (fun l => Regex.matchString fl re (trimSpace l))))

/-! ### sort -/

/-- `sortHelper`: order by printed form (optionally lower-cased), stable -/
def sortValues (vs : List Value) (lower rev : Bool) : List Value :=
  let keyed := vs.map (fun v => ((if lower then toLower v.inspect else v.inspect), v))
  let less (a b : Str × Value) : Bool := if rev then Str.lt b.1 a.1 else Str.lt a.1 b.1
  (keyed.mergeSort (fun a b => !(less b a))).map (·.2)

/-! ### time (UTC) -/

/-- civil date from days since 1970-01-01 (proleptic Gregorian) -/
def civilFromDays (z : Int) : Int × Nat × Nat :=
  let z := z + 719468
  let era := (if z ≥ 0 then z else z - 146096) / 146097
  let doe := (z - era * 146097).toNat
  let yoe := (doe - doe / 1460 + doe / 36524 - doe / 146096) / 365
  let y : Int := (yoe : Int) + era * 400
  let doy := doe - (365 * yoe + yoe / 4 - yoe / 100)
  let mp := (5 * doy + 2) / 153
  let d := doy - (153 * mp + 2) / 5 + 1
  let m := if mp < 10 then mp + 3 else mp - 9
  (if m ≤ 2 then y + 1 else y, m, d)

def weekdayName (n : Nat) : Str :=
  (["Sunday", "Monday", "Tuesday", "Wednesday", "Thursday", "Friday", "Saturday"].getD n "").toList

def timeField (unix : Int64) (field : String) : Value :=
  let t := unix.toInt
  let days := t.fdiv 86400
  let secs := (t.fmod 86400).toNat
  let (y, m, d) := civilFromDays days
  match field with
  | "hour" => .int (Int64.ofNat (secs / 3600))
  | "minute" => .int (Int64.ofNat ((secs % 3600) / 60))
  | "seconds" => .int (Int64.ofNat (secs % 60))
  | "day" => .int (Int64.ofNat d)
  | "month" => .int (Int64.ofNat m)
  | "year" => .int (Int64.ofInt y)
  | "weekday" => .str (weekdayName ((days + 4).fmod 7).toNat)
  | _ => .null

/-! ### sprintf (subset) -/

/-- `%f`: six decimals, correctly rounded from the exact binary value -/
def formatF6 (f : Float) : Option Str :=
  let bits := f.toBits
  let ex := ((bits >>> 52) &&& 0x7FF).toNat
  if ex == 0x7FF then none else
  let neg := (bits >>> 63) != 0
  let (m, e, _) := FloatConv.decompose bits
  -- value * 10^6 = m * 2^e * 10^6
  let (num, den) : Nat × Nat := if e ≥ 0 then (m * 2 ^ e.toNat * 1000000, 1) else (m * 1000000, 2 ^ (-e).toNat)
  let q := num / den
  let r := num % den
  let q := if 2 * r > den then q + 1 else if 2 * r == den then (if q % 2 == 1 then q + 1 else q) else q
  let ip := natToStr (q / 1000000)
  let fp := natToStr (q % 1000000)
  some ((if neg then ['-'] else []) ++ ip ++ ['.'] ++ List.replicate (6 - fp.length) '0' ++ fp)

def sprintfGo (fuel : Nat) (fmt : Str) (args : List Value) (acc : Str) : Option Str :=
  match fuel with
  | 0 => none
  | fuel + 1 =>
    match fmt with
    | [] => if args.isEmpty then some acc else none
    | '%' :: '%' :: rest => sprintfGo fuel rest args (acc ++ ['%'])
    | '%' :: v :: rest =>
      match args with
      | [] => none
      | a :: as =>
        let piece : Option Str :=
          match v, a with
          | 'd', .int i => some (Value.int64ToStr i)
          | 's', .str s => some s
          | 's', .regexp s => some s
          | 'v', .int i => some (Value.int64ToStr i)
          | 'v', .str s => some s
          | 'v', .bool b => some (Value.inspect (.bool b))
          | 't', .bool b => some (Value.inspect (.bool b))
          | 'f', .float f => formatF6 f
          | _, _ => none
        match piece with
        | none => none
        | some p => sprintfGo fuel rest as (acc ++ p)
    | ['%'] => none
    | c :: rest => sprintfGo fuel rest args (acc ++ [c])

def sprintf (args : List Value) : BVal :=
  match args with
  | [] => .val .null
  | .str fmt :: rest =>
    (match sprintfGo (fmt.length + 1) fmt rest [] with
     | some s => .val (.str s)
     | none => .unsupported)
  | _ => .val .null

/-! ### the registry -/

/-- names registered by `environment.New`, in registration order -/
def names : List String :=
  ["between", "float", "getenv", "int", "join", "keys", "len", "lower", "match", "max", "min",
   "now", "panic", "print", "printf", "replace", "reverse", "sort", "split", "sprintf", "string",
   "time", "trim", "type", "upper", "hour", "minute", "seconds", "day", "month", "year", "weekday"]

/-- the environment variable the harness sets to a fixed value -/
def fixedEnvName : Str := "VERIF_FIXED".toList
def fixedEnvValue : Str := "fixed-value".toList

def sortLike (args : List Value) (rev : Bool) : BRes :=
  match args with
  | [.array els] => ret (.array (sortValues els false rev))
  | [.array els, .bool lower] => ret (.array (sortValues els lower rev))
  | _ => null

/-- call the built-in `name` -/
def call (name : String) (args : List Value) : BRes :=
  match name, args with
  | "between", [v, lo, hi] =>
      if isNumber v && isNumber lo && isNumber hi then
        ret (.bool (numberLessEqual lo v && numberLessEqual v hi))
      else null
  | "between", _ => null
  | "float", [a] =>
      (match FloatConv.parseDecimal a.inspect with
       | some f => ret (.float f)
       | none =>
         -- strconv.ParseFloat also reads digit-separating underscores, hexadecimal floats and the words
         -- inf / infinity / nan; the model has no parser for those forms and declines to answer there
         let s := toLower a.inspect
         let body := match s with | '+' :: r => r | '-' :: r => r | r => r
         if s.any (· == '_') || s.any (· == 'x') || body == "inf".toList || body == "infinity".toList || body == "nan".toList
         then { res := .unsupported } else null)
  | "float", _ => null
  | "getenv", [a] => ret (.str (if a.inspect == fixedEnvName then fixedEnvValue else []))
  | "getenv", _ => null
  | "int", [a] => (match parseInt a.inspect with | some i => ret (.int i) | none => null)
  | "int", _ => null
  | "join", [.array els, .str sep] => ret (.str (joinWith sep (els.map Value.inspect)))
  | "join", _ => null
  | "keys", [.hash ps] => ret (.array ((HashMapModel.entries ps).map HPair.key))
  | "keys", _ => null
  | "len", [.array els] => ret (.int (Int64.ofNat els.length))
  | "len", [.hash ps] => ret (.int (Int64.ofNat ps.length))
  | "len", [a] => ret (.int (Int64.ofNat a.inspect.length))
  | "len", _ => null
  | "lower", [a] => ret (.str (toLower a.inspect))
  | "lower", _ => null
  | "match", [s, r] => { res := matchText s.inspect r.inspect }
  | "match", _ => ret (.bool false)
  | "max", [a, b] => if isNumber a && isNumber b then ret (if numberLessEqual b a then a else b) else null
  | "max", _ => null
  | "min", [a, b] => if isNumber a && isNumber b then ret (if numberLessEqual a b then a else b) else null
  | "min", _ => null
  | "now", _ => { res := .unsupported }
  | "time", _ => { res := .unsupported }
  | "panic", _ => { res := .panic }
  | "print", as => { out := (as.map Value.inspect).flatten, res := .val .void }
  | "printf", as =>
      (match sprintf as with
       | .val (.str s) => { out := s, res := .val .void }
       | .val _ => { res := .val .void }
       | other => { res := other })
  | "replace", [s, r, rep] =>
      (match Regex.compile r.inspect with
       | .unsupported => { res := .unsupported }
       | .invalid => ret (.bool false)
       | .ok fl re =>
         if List.contains rep.inspect '$' then { res := .unsupported }
         else ret (.str (Regex.replaceAll fl re s.inspect rep.inspect)))
  | "replace", _ => null
  | "reverse", as => if as.length == 1 || as.length == 2 then sortLike as true else null
  | "sort", as => if as.length == 1 || as.length == 2 then sortLike as false else null
  | "split", [.str s, .str sep] => ret (.array ((splitOn s sep).map Value.str))
  | "split", _ => null
  | "sprintf", as => { res := sprintf as }
  | "string", [a] => ret (.str a.inspect)
  | "string", _ => null
  | "trim", [a] => ret (.str (trimSpace a.inspect))
  | "trim", _ => null
  | "type", [a] => ret (.str (toLower ((a.type?.map VType.name).getD [])))
  | "type", _ => null
  | "upper", [a] => ret (.str (toUpper a.inspect))
  | "upper", _ => null
  | f, [.int t] =>
      if ["hour", "minute", "seconds", "day", "month", "year", "weekday"].contains f then
        ret (timeField t f)
      else { res := .unsupported }
  | f, _ =>
      if ["hour", "minute", "seconds", "day", "month", "year", "weekday"].contains f then null
      else { res := .unsupported }

end EvalFilter.Builtins
