/-
  Basic definitions shared by the whole model.

  Strings are `List Char` throughout the model (`Str`): Go strings produced by
  the lexer are valid UTF-8, byte order on valid UTF-8 equals code-point order,
  and `List Char` has a decidable lexicographic order and simple induction.
  Conversion to and from Lean's `String` happens only in the driver.
-/
namespace EvalFilter

abbrev Str := List Char

namespace Str

/-- Go's `a < b` on strings (bytewise = code-point-wise on valid UTF-8). -/
def lt : Str → Str → Bool
  | [], [] => false
  | [], _ :: _ => true
  | _ :: _, [] => false
  | a :: as, b :: bs => if a.toNat < b.toNat then true else if b.toNat < a.toNat then false else lt as bs

def le (a b : Str) : Bool := !(lt b a)

/-- `strings.HasPrefix s p` -/
def hasPrefix : Str → Str → Bool
  | _, [] => true
  | [], _ :: _ => false
  | a :: as, b :: bs => a == b && hasPrefix as bs

/-- `strings.Contains s sub` -/
def contains : Str → Str → Bool
  | [], sub => sub.isEmpty
  | a :: as, sub => hasPrefix (a :: as) sub || contains as sub

/-- `strings.TrimPrefix s p` -/
def trimPrefix (s p : Str) : Str := if hasPrefix s p then s.drop p.length else s

def ofString (s : String) : Str := s.toList
def toString (s : Str) : String := String.ofList s

/-- `strings.ReplaceAll s "\n" "\\n"` style single-char replacement. -/
def replaceChar (s : Str) (c : Char) (by_ : Str) : Str :=
  s.flatMap (fun x => if x == c then by_ else [x])

end Str

/-- decimal rendering of a natural number -/
def natToStr (n : Nat) : Str := (Nat.repr n).toList

def intToStr (i : Int) : Str :=
  match i with
  | .ofNat n => natToStr n
  | .negSucc n => '-' :: natToStr (n + 1)

end EvalFilter
