/-
  Model of parser/parser.go (a Pratt parser).

  The Go parser records error strings and carries on; `Parse` fails iff at least
  one error was recorded, and every parselet that gives up (returns nil) has
  recorded one.  The model therefore is an `Option` parser: `none` stands for
  "at least one error recorded", and the first error ends the parse.  (What the
  Go parser does after its first error is not observable through `Prepare`.)

  Tokens are pulled from the pre-computed token list; once it is exhausted the
  current and the peek token are EOF for ever, as with the Go lexer.

  Every function takes a `fuel` argument on which the mutual recursion is
  structural; `parse` supplies enough for any input (each cycle of the
  recursion consumes a token) and running out is reported as `none`.
-/
import EvalFilter.Model.Token
import EvalFilter.Model.Ast
import EvalFilter.Model.Float

namespace EvalFilter.Parser
open EvalFilter

/-! ### precedence levels (the `iota` block of parser.go) -/
def LOWEST : Nat := 1
def TERNARY : Nat := 2
def ASSIGN : Nat := 3
def COND : Nat := 4
def EQUALS : Nat := 5
def CMP : Nat := 6
def LESSGREATER : Nat := 7
def SUM : Nat := 8
def PRODUCT : Nat := 9
def POWER : Nat := 10
def MOD : Nat := 11
def PREFIX : Nat := 12
def CALL : Nat := 13
def INDEX : Nat := 14

/-- the `precedences` map; tokens not in the map have LOWEST -/
def precedence : TokType → Nat
  | .QUESTION => TERNARY
  | .ASSIGN => ASSIGN
  | .DOTDOT => ASSIGN
  | .EQ => EQUALS
  | .NOTEQ => EQUALS
  | .LT => LESSGREATER
  | .LTEQUALS => LESSGREATER
  | .GT => LESSGREATER
  | .GTEQUALS => LESSGREATER
  | .CONTAINS => LESSGREATER
  | .MISSING => LESSGREATER
  | .IN => LESSGREATER
  | .PLUSEQUALS => ASSIGN
  | .PLUS => SUM
  | .MINUS => SUM
  | .MINUSEQUALS => ASSIGN
  | .SLASH => PRODUCT
  | .SLASHEQUALS => ASSIGN
  | .ASTERISK => PRODUCT
  | .ASTERISKEQUALS => ASSIGN
  | .POW => POWER
  | .MOD => MOD
  | .AND => COND
  | .OR => COND
  | .LPAREN => CALL
  | .LSQUARE => INDEX
  | .PERIOD => INDEX
  | _ => LOWEST

/-- which parselet is registered for a token type in prefix position -/
inductive PrefixFn
  | prefixOp | eof | boolLit | floatLit | whileS | foreachS | funcDef | ident | ifE | illegal
  | intLit | localV | hashLit | grouped | arrayLit | regexpLit | stringLit | switchS
  deriving DecidableEq, Repr

def prefixFn : TokType → Option PrefixFn
  | .BANG => some .prefixOp
  | .EOF => some .eof
  | .FALSE => some .boolLit
  | .FLOAT => some .floatLit
  | .FOR => some .whileS
  | .FOREACH => some .foreachS
  | .FUNCTION => some .funcDef
  | .IDENT => some .ident
  | .IF => some .ifE
  | .ILLEGAL => some .illegal
  | .INT => some .intLit
  | .LOCAL => some .localV
  | .LBRACE => some .hashLit
  | .LPAREN => some .grouped
  | .LSQUARE => some .arrayLit
  | .MINUS => some .prefixOp
  | .REGEXP => some .regexpLit
  | .SQRT => some .prefixOp
  | .STRING => some .stringLit
  | .TRUE => some .boolLit
  | .SWITCH => some .switchS
  | .WHILE => some .whileS
  | _ => none

inductive InfixFn
  | binary | assign | call | index | ternary
  deriving DecidableEq, Repr

def infixFn : TokType → Option InfixFn
  | .AND | .ASTERISK | .ASTERISKEQUALS | .CONTAINS | .DOTDOT | .EQ | .GT | .GTEQUALS | .IN
  | .PERIOD | .LT | .LTEQUALS | .MINUS | .MINUSEQUALS | .MISSING | .MOD | .NOTEQ | .OR | .PLUS
  | .PLUSEQUALS | .POW | .SLASH | .SLASHEQUALS => some .binary
  | .ASSIGN => some .assign
  | .LPAREN => some .call
  | .LSQUARE => some .index
  | .QUESTION => some .ternary
  | _ => none

def isPostfix : TokType → Bool
  | .MINUSMINUS | .PLUSPLUS => true
  | _ => false

/-! ### parser state -/
structure PState where
  /-- `cur :: peek :: …`; exhausted means EOF for ever -/
  toks : List Token
  prev : Token
  tern : Bool
  func : Bool
  /-- number of `parseExpression` calls in progress (nesting guard) -/
  depth : Nat := 0
  deriving Repr

/-- `maxNesting` of parser.go -/
def maxNesting : Nat := 2000

namespace PState
def cur (s : PState) : Token := s.toks.headD Token.eof
def peek (s : PState) : Token := s.toks.tail.headD Token.eof
/-- `nextToken` -/
def next (s : PState) : PState := { s with prev := s.cur, toks := s.toks.tail }
def curIs (s : PState) (t : TokType) : Bool := s.cur.ty == t
def peekIs (s : PState) (t : TokType) : Bool := s.peek.ty == t
/-- `expectPeek` (failure records an error, hence `none`) -/
def expectPeek (s : PState) (t : TokType) : Option PState := if s.peekIs t then some s.next else none
end PState

/-- `strconv.ParseInt(lit, 10, 64)` on a string of ASCII digits -/
def parseIntLit (lit : Str) : Option Int64 :=
  let n := FloatConv.digitsToNat lit
  if lit.isEmpty then none else if n < 2 ^ 63 then some (Int64.ofNat n) else none

/-- `strconv.ParseFloat(lit, 64)` on `digits.digits` -/
def parseFloatLit (lit : Str) : Option Float := FloatConv.parseDecimal lit

/-- `parseRegexpLiteral`: split a leading `(?flags)` off the token literal -/
def splitRegexp (lit : Str) : Str × Str :=
  if Str.hasPrefix lit ['(', '?'] then
    let body := lit.drop 2
    let fl := body.takeWhile (· != ')')
    if fl.length < body.length then (body.drop (fl.length + 1), fl) else (body, fl)
  else (lit, [])

/-- skip the semicolons after an expression statement -/
def skipSemis : PState → Nat → PState
  | s, 0 => s
  | s, n + 1 => if s.peekIs .SEMICOLON then skipSemis s.next n else s

/-- `parseFunctionParameters` (started with `cur = (`) ; ends with `cur = )` -/
def parseParams (s : PState) : Option (List Str × PState) :=
  if s.peekIs .RPAREN then some ([], s.next) else
  let rec loop (fuel : Nat) (s : PState) (acc : List Str) : Option (List Str × PState) :=
    match fuel with
    | 0 => none
    | fuel + 1 =>
      if s.curIs .RPAREN then some (acc, s)
      else if !s.curIs .IDENT then none
      else
        let acc := acc ++ [s.cur.lit]
        let s := s.next
        if s.curIs .COMMA then
          let s := s.next
          if !s.curIs .IDENT then none else loop fuel s acc
        else if !s.curIs .RPAREN then none
        else loop fuel s acc
  loop (s.toks.length + 2) s.next []

mutual
  /-- `parseExpression(precedence)` -/
  def parseExpression (fuel : Nat) (prec : Nat) (s : PState) : Option (Expr × PState) :=
    match fuel with
    | 0 => none
    | fuel + 1 =>
      -- the nesting guard: `p.depth++ … if p.depth > maxNesting { error }`, undone on the way out
      let s := { s with depth := s.depth + 1 }
      if s.depth > maxNesting then none
      else if isPostfix s.cur.ty then
        some (.postfix s.prev.lit s.cur.lit, { s with depth := s.depth - 1 })
      else
        match prefixFn s.cur.ty with
        | none => none
        | some fn =>
          match parsePrefix fuel fn s with
          | none => none
          | some (left, s) =>
            match infixLoop fuel prec left s with
            | none => none
            | some (e, s) => some (e, { s with depth := s.depth - 1 })

  /-- the `for !peekTokenIs(SEMICOLON) && precedence < peekPrecedence()` loop -/
  def infixLoop (fuel : Nat) (prec : Nat) (left : Expr) (s : PState) : Option (Expr × PState) :=
    match fuel with
    | 0 => none
    | fuel + 1 =>
      if !s.peekIs .SEMICOLON && prec < precedence s.peek.ty then
        match infixFn s.peek.ty with
        | none => none
        | some fn =>
          match parseInfix fuel fn left s.next with
          | none => none
          | some (left, s) => infixLoop fuel prec left s
      else some (left, s)

  /-- the prefix parselets -/
  def parsePrefix (fuel : Nat) (fn : PrefixFn) (s : PState) : Option (Expr × PState) :=
    match fuel with
    | 0 => none
    | fuel + 1 =>
      match fn with
      | .eof => none
      | .illegal => none
      | .ident => some (.ident s.cur.lit, s)
      | .boolLit => some (.boolLit (s.curIs .TRUE), s)
      | .stringLit => some (.strLit s.cur.lit, s)
      | .intLit => (parseIntLit s.cur.lit).map (fun v => (.intLit s.cur.lit v, s))
      | .floatLit => (parseFloatLit s.cur.lit).map (fun v => (.floatLit s.cur.lit v, s))
      | .regexpLit =>
        let (val, flags) := splitRegexp s.cur.lit
        some (.regexpLit s.cur.lit val flags, s)
      | .prefixOp =>
        let op := s.cur.lit
        match parseExpression fuel PREFIX s.next with
        | none => none
        | some (r, s) => some (.prefix op r, s)
      | .grouped =>
        match parseExpression fuel LOWEST s.next with
        | none => none
        | some (e, s) => (s.expectPeek .RPAREN).map (fun s => (e, s))
      | .arrayLit =>
        match parseExprList fuel .RSQUARE s with
        | none => none
        | some (els, s) => some (.arrayLit els, s)
      | .hashLit =>
        match parseHashPairs fuel s [] with
        | none => none
        | some (ps, s) => some (.hashLit ps, s.next)
      | .localV =>
        if !s.func then none else
        let s := s.next
        if !s.curIs .IDENT then none else some (.localE s.cur.lit, s)
      | .ifE => parseIf fuel s
      | .whileS =>
        match s.expectPeek .LPAREN with
        | none => none
        | some s =>
          match parseExpression fuel LOWEST s.next with
          | none => none
          | some (c, s) =>
            match s.expectPeek .RPAREN with
            | none => none
            | some s =>
              match s.expectPeek .LBRACE with
              | none => none
              | some s =>
                match parseBlock fuel s with
                | none => none
                | some (b, s) => some (.whileE c b, s)
      | .foreachS =>
        match s.expectPeek .IDENT with
        | none => none
        | some s =>
          let ident := s.cur.lit
          let hdr : Option (Str × Str × PState) :=
            if s.peekIs .COMMA then
              let s := s.next
              if !s.peekIs .IDENT then none else
              let s := s.next
              some (ident, s.cur.lit, s)
            else some ([], ident, s)
          match hdr with
          | none => none
          | some (idx, ident, s) =>
            match s.expectPeek .IN with
            | none => none
            | some s =>
              match parseExpression fuel LOWEST s.next with
              | none => none
              | some (v, s) =>
                match s.expectPeek .LBRACE with
                | none => none
                | some s =>
                  match parseBlock fuel s with
                  | none => none
                  | some (b, s) => some (.foreachE idx ident v b, s)
      | .funcDef =>
        let s := { s with func := true }
        match s.expectPeek .IDENT with
        | none => none
        | some s =>
          let name := s.cur.lit
          match s.expectPeek .LPAREN with
          | none => none
          | some s =>
            match parseParams s with
            | none => none
            | some (params, s) =>
              match s.expectPeek .LBRACE with
              | none => none
              | some s =>
                match parseBlock fuel s with
                | none => none
                | some (b, s) => some (.funcDef name params b, { s with func := false })
      | .switchS =>
        match parseBracket fuel s with
        | none => none
        | some (v, s) =>
          match s.expectPeek .LBRACE with
          | none => none
          | some s =>
            match parseCases fuel s.next [] with
            | none => none
            | some (cs, s) =>
              let defaults := cs.filter (fun c => match c with | .mk d _ _ => d)
              if defaults.length > 1 then none else some (.switchE v cs, s)

  /-- the infix parselets; `s.cur` is the operator token -/
  def parseInfix (fuel : Nat) (fn : InfixFn) (left : Expr) (s : PState) : Option (Expr × PState) :=
    match fuel with
    | 0 => none
    | fuel + 1 =>
      match fn with
      | .binary =>
        let op := s.cur.lit
        let prec := precedence s.cur.ty
        match parseExpression fuel prec s.next with
        | none => none
        | some (r, s) =>
          -- the `.` hack: the right operand becomes a string literal of its own source text
          let r := if op == ['.'] && !r.str.isEmpty then .strLit r.str else r
          some (.infix op left r, s)
      | .assign =>
        match left with
        | .ident name =>
          match parseExpression fuel LOWEST s.next with
          | none => none
          | some (v, s) => some (.assign name v, s)
        | _ => none
      | .call =>
        match parseExprList fuel .RPAREN s with
        | none => none
        | some (args, s) => some (.call left args, s)
      | .index =>
        match parseExpression fuel LOWEST s.next with
        | none => none
        | some (i, s) => (s.expectPeek .RSQUARE).map (fun s => (.index left i, s))
      | .ternary =>
        if s.tern then none else
        let s := { s with tern := true }
        match parseExpression fuel LOWEST s.next with
        | none => none
        | some (t, s) =>
          match s.expectPeek .COLON with
          | none => none
          | some s =>
            match parseExpression fuel LOWEST s.next with
            | none => none
            | some (f, s) => some (.ternary left t f, { s with tern := false })

  /-- `parseBracketExpression`: `( expr )` after the current token -/
  def parseBracket (fuel : Nat) (s : PState) : Option (Expr × PState) :=
    match fuel with
    | 0 => none
    | fuel + 1 =>
      match s.expectPeek .LPAREN with
      | none => none
      | some s =>
        match parseExpression fuel LOWEST s.next with
        | none => none
        | some (e, s) => (s.expectPeek .RPAREN).map (fun s => (e, s))

  /-- `parseIfExpression` -/
  def parseIf (fuel : Nat) (s : PState) : Option (Expr × PState) :=
    match fuel with
    | 0 => none
    | fuel + 1 =>
      match parseBracket fuel s with
      | none => none
      | some (c, s) =>
        match s.expectPeek .LBRACE with
        | none => none
        | some s =>
          match parseBlock fuel s with
          | none => none
          | some (cons, s) =>
            if s.peekIs .ELSE then
              let s := s.next
              if s.peekIs .IF then
                match parseIf fuel s.next with
                | none => none
                | some (e, s) => some (.ifE c cons (some [.expr e]), s)
              else
                match s.expectPeek .LBRACE with
                | none => none
                | some s =>
                  match parseBlock fuel s with
                  | none => none
                  | some (alt, s) => some (.ifE c cons (some alt), s)
            else some (.ifE c cons none, s)

  /-- `parseStatement` -/
  def parseStatement (fuel : Nat) (s : PState) : Option (Stmt × PState) :=
    match fuel with
    | 0 => none
    | fuel + 1 =>
      if s.curIs .RETURN then
        match parseExpression fuel LOWEST s.next with
        | none => none
        | some (e, s) =>
          let s := s.next
          if s.curIs .SEMICOLON then some (.ret e, s) else none
      else
        match parseExpression fuel LOWEST s with
        | none => none
        | some (e, s) => some (.expr e, skipSemis s (s.toks.length + 1))

  /-- `parseBlockStatement`, entered with `cur = {`, left with `cur = }` -/
  def parseBlock (fuel : Nat) (s : PState) : Option (List Stmt × PState) :=
    match fuel with
    | 0 => none
    | fuel + 1 => parseBlockLoop fuel s.next []

  def parseBlockLoop (fuel : Nat) (s : PState) (acc : List Stmt) : Option (List Stmt × PState) :=
    match fuel with
    | 0 => none
    | fuel + 1 =>
      if s.curIs .RBRACE then some (acc, s)
      else
        match parseStatement fuel s with
        | none => none
        | some (st, s) =>
          let s := s.next
          if s.curIs .EOF || s.curIs .ILLEGAL then none
          else parseBlockLoop fuel s (acc ++ [st])

  /-- `parseExpressionList(end)`, entered with `cur` = the opening bracket -/
  def parseExprList (fuel : Nat) (endTok : TokType) (s : PState) : Option (List Expr × PState) :=
    match fuel with
    | 0 => none
    | fuel + 1 =>
      if s.peekIs endTok then some ([], s.next)
      else
        match parseExpression fuel LOWEST s.next with
        | none => none
        | some (e, s) => parseExprListLoop fuel endTok s [e]

  def parseExprListLoop (fuel : Nat) (endTok : TokType) (s : PState) (acc : List Expr) :
      Option (List Expr × PState) :=
    match fuel with
    | 0 => none
    | fuel + 1 =>
      if s.peekIs .COMMA then
        match parseExpression fuel LOWEST s.next.next with
        | none => none
        | some (e, s) => parseExprListLoop fuel endTok s (acc ++ [e])
      else (s.expectPeek endTok).map (fun s => (acc, s))

  /-- the loop of `parseHashLiteral`; ends with `peek = }` -/
  def parseHashPairs (fuel : Nat) (s : PState) (acc : List Pair) : Option (List Pair × PState) :=
    match fuel with
    | 0 => none
    | fuel + 1 =>
      if s.peekIs .RBRACE then some (acc, s)
      else
        match parseExpression fuel LOWEST s.next with
        | none => none
        | some (k, s) =>
          match s.expectPeek .COLON with
          | none => none
          | some s =>
            match parseExpression fuel LOWEST s.next with
            | none => none
            | some (v, s) =>
              if s.peekIs .RBRACE then parseHashPairs fuel s (acc ++ [.mk k v])
              else
                match s.expectPeek .COMMA with
                | none => none
                | some s => parseHashPairs fuel s (acc ++ [.mk k v])

  /-- the loop over the cases of a `switch`; entered with `cur` = first token inside `{` -/
  def parseCases (fuel : Nat) (s : PState) (acc : List Case) : Option (List Case × PState) :=
    match fuel with
    | 0 => none
    | fuel + 1 =>
      if s.curIs .RBRACE then some (acc, s)
      else if s.curIs .EOF then none
      else
        let hdr : Option (Bool × List Expr × PState) :=
          if s.curIs .DEFAULT then some (true, [], s)
          else if s.curIs .CASE then
            let s := s.next
            if s.curIs .DEFAULT then some (true, [], s)
            else
              match parseExpression fuel LOWEST s with
              | none => none
              | some (e, s) =>
                match parseCaseExprs fuel s [e] with
                | none => none
                | some (es, s) => some (false, es, s)
          else none
        match hdr with
        | none => none
        | some (isDef, es, s) =>
          match s.expectPeek .LBRACE with
          | none => none
          | some s =>
            match parseBlock fuel s with
            | none => none
            | some (b, s) => parseCases fuel s.next (acc ++ [.mk isDef es b])

  def parseCaseExprs (fuel : Nat) (s : PState) (acc : List Expr) : Option (List Expr × PState) :=
    match fuel with
    | 0 => none
    | fuel + 1 =>
      if s.peekIs .COMMA then
        match parseExpression fuel LOWEST s.next.next with
        | none => none
        | some (e, s) => parseCaseExprs fuel s (acc ++ [e])
      else some (acc, s)
end

/-- the loop of `ParseProgram` -/
def parseProgramLoop (fuel : Nat) (efuel : Nat) (s : PState) (acc : List Stmt) : Option (List Stmt) :=
  match fuel with
  | 0 => none
  | fuel + 1 =>
    if s.curIs .EOF then some acc
    else if s.curIs .ILLEGAL then none
    else
      match parseStatement efuel s with
      | none => none
      | some (st, s) => parseProgramLoop fuel efuel s.next (acc ++ [st])

/-- fuel that suffices for any token list: every recursive cycle consumes a token and the
    longest token-free call chain has fewer than 16 links -/
def fuelFor (toks : List Token) : Nat := 16 * (toks.length + 4)

/-- `parser.New(l).Parse()`: `none` iff the Go parser reports an error -/
def parse (toks : List Token) : Option Program :=
  parseProgramLoop (toks.length + 2) (fuelFor toks)
    { toks := toks, prev := ⟨.NONE, []⟩, tern := false, func := false } []

end EvalFilter.Parser
