/-
  Model of compiler.go.

  The Go compiler appends bytes to one buffer and back-patches the operands of
  forward jumps.  The model computes the same program functionally: the size of
  the code for a node is a function of the node alone (`Expr.size`), so every
  jump target is known when the jump is emitted.  The constant pool is threaded
  through in the same order as in the Go code.  Byte-for-byte agreement with the
  real compiler is checked by the correspondence harness.

  Hash literals: the Go parser stores the pairs in a map and the compiler sorts
  the keys by `String()`, and by the `String()` of the value when a key is
  repeated (the repair of KF-26).  `normalize` performs that sort once, up front,
  so that compilation is structural.
-/
import EvalFilter.Model.Ast
import EvalFilter.Model.Code
import EvalFilter.Model.Value

namespace EvalFilter

/-! ### normalisation: sort hash-literal pairs by the text of their keys -/
/-- the compiler's order on the pairs of a hash literal: key text, then value text -/
def pairLt {α : Type} (a b : Str × Str × α) : Bool :=
  Str.lt a.1 b.1 || (a.1 == b.1 && Str.lt a.2.1 b.2.1)
mutual
  def normExpr : Expr → Expr
    | .arrayLit els => .arrayLit (normExprs els)
    | .hashLit pairs =>
        .hashLit (((normPairs pairs).mergeSort (fun a b => !(pairLt b a))).map (·.2.2))
    | .prefix op r => .prefix op (normExpr r)
    | .infix op l r => .infix op (normExpr l) (normExpr r)
    | .ternary c t f => .ternary (normExpr c) (normExpr t) (normExpr f)
    | .index l i => .index (normExpr l) (normExpr i)
    | .call fn args => .call fn (normExprs args)
    | .assign n v => .assign n (normExpr v)
    | .ifE c cons alt =>
        .ifE (normExpr c) (normStmts cons) (match alt with | none => none | some a => some (normStmts a))
    | .whileE c b => .whileE (normExpr c) (normStmts b)
    | .foreachE i x v b => .foreachE i x (normExpr v) (normStmts b)
    | .switchE v cs => .switchE (normExpr v) (normCases cs)
    | .funcDef n ps b => .funcDef n ps (normStmts b)
    | e => e
  def normExprs : List Expr → List Expr
    | [] => []
    | e :: es => normExpr e :: normExprs es
  def normPairs : List Pair → List (Str × Str × Pair)
    | [] => []
    | .mk k v :: ps => (k.str, v.str, .mk (normExpr k) (normExpr v)) :: normPairs ps
  def normStmt : Stmt → Stmt
    | .expr e => .expr (normExpr e)
    | .ret e => .ret (normExpr e)
  def normStmts : List Stmt → List Stmt
    | [] => []
    | s :: ss => normStmt s :: normStmts ss
  def normCases : List Case → List Case
    | [] => []
    | .mk d es b :: cs => .mk d (normExprs es) (normStmts b) :: normCases cs
end

/-! ### code size of each node (number of bytes the compiler emits for it) -/
def isCompound (op : Str) : Bool :=
  op == ['+', '='] || op == ['-', '='] || op == ['*', '='] || op == ['/', '=']

mutual
  def Expr.size : Expr → Nat
    | .ident _ => 3
    | .intLit _ _ => 3
    | .floatLit _ _ => 3
    | .boolLit _ => 1
    | .strLit _ => 3
    | .regexpLit _ _ _ => 3
    | .arrayLit els => Expr.sizes els + 3
    | .hashLit pairs => Pair.sizes pairs + 3
    | .prefix _ r => r.size + 1
    | .infix op l r => l.size + r.size + (if isCompound op then 5 else 1)
    | .postfix _ _ => 3
    | .ternary c t f => c.size + 3 + t.size + 3 + f.size + 1
    | .index l i => l.size + i.size + 1
    | .call _ args => Expr.sizes args + 3 + 3
    | .assign _ v => v.size + 3 + 1
    | .ifE c cons alt =>
        c.size + 3 + Stmt.sizes cons + (match alt with | none => 0 | some a => 3 + Stmt.sizes a) + 1
    | .whileE c b => c.size + 3 + Stmt.sizes b + 3 + 1
    | .foreachE _ _ v b => v.size + 1 + 3 + 3 + 1 + 3 + Stmt.sizes b + 3 + 1
    | .switchE v cs => Case.armsSize v.size cs + Case.defaultsSize cs + 1
    | .funcDef _ _ _ => 0
    | .localE _ => 3 + 1
  def Expr.sizes : List Expr → Nat
    | [] => 0
    | e :: es => e.size + Expr.sizes es
  def Pair.sizes : List Pair → Nat
    | [] => 0
    | .mk k v :: ps => k.size + v.size + Pair.sizes ps
  def Stmt.size : Stmt → Nat
    | .expr e => e.size
    | .ret e => e.size + 1
  def Stmt.sizes : List Stmt → Nat
    | [] => 0
    | s :: ss => s.size + Stmt.sizes ss
  /-- the non-default arms: one test-and-block per case expression -/
  def Case.armsSize (vsize : Nat) : List Case → Nat
    | [] => 0
    | .mk isDef es b :: cs =>
        (if isDef then 0 else Case.armSize vsize (Stmt.sizes b) es) + Case.armsSize vsize cs
  def Case.armSize (vsize bsize : Nat) : List Expr → Nat
    | [] => 0
    | e :: es => vsize + e.size + 1 + 3 + bsize + 3 + Case.armSize vsize bsize es
  def Case.defaultsSize : List Case → Nat
    | [] => 0
    | .mk isDef _ b :: cs => (if isDef then Stmt.sizes b else 0) + Case.defaultsSize cs
end

/-- does any non-default case of the switch have an expression to test? -/
def Case.hasTest : List Case → Bool
  | [] => false
  | .mk isDef es _ :: cs => (!isDef && !es.isEmpty) || Case.hasTest cs

/-! ### value-less expressions in value-consuming positions (known finding KF-25) -/

/-- expressions whose code leaves nothing on the stack -/
def Expr.valueLess : Expr → Bool
  | .assign _ _ | .ifE _ _ _ | .whileE _ _ | .foreachE _ _ _ _ | .switchE _ _ | .funcDef _ _ _ | .localE _
  | .postfix _ _ => true
  | .infix op _ _ => isCompound op
  | _ => false

mutual
  /-- does the tree use a value-less expression where a value is consumed? -/
  def Expr.vlo : Expr → Bool
    | .arrayLit els => Expr.vloArgs els
    | .hashLit ps => Pair.vlos ps
    | .prefix _ r => r.valueLess || r.vlo
    | .infix op l r => (!isCompound op && l.valueLess) || r.valueLess || l.vlo || r.vlo
    | .ternary c t f => c.valueLess || t.valueLess || f.valueLess || c.vlo || t.vlo || f.vlo
    | .index l i => l.valueLess || i.valueLess || l.vlo || i.vlo
    | .call _ args => Expr.vloArgs args
    | .assign _ v => v.valueLess || v.vlo
    | .ifE c cons alt => c.valueLess || c.vlo || Stmt.vlos cons || (match alt with | none => false | some a => Stmt.vlos a)
    | .whileE c b => c.valueLess || c.vlo || Stmt.vlos b
    | .foreachE _ _ v b => v.valueLess || v.vlo || Stmt.vlos b
    | .switchE v cs => v.valueLess || v.vlo || Case.vlos cs
    | .funcDef _ _ b => Stmt.vlos b
    | _ => false
  def Expr.vloArgs : List Expr → Bool
    | [] => false
    | e :: es => e.valueLess || e.vlo || Expr.vloArgs es
  def Pair.vlos : List Pair → Bool
    | [] => false
    | .mk k v :: ps => k.valueLess || v.valueLess || k.vlo || v.vlo || Pair.vlos ps
  def Stmt.vlo : Stmt → Bool
    | .expr e => e.vlo
    | .ret e => e.valueLess || e.vlo
  def Stmt.vlos : List Stmt → Bool
    | [] => false
    | s :: ss => s.vlo || Stmt.vlos ss
  def Case.vlos : List Case → Bool
    | [] => false
    | .mk _ es b :: cs => Expr.vloArgs es || Stmt.vlos b || Case.vlos cs
end

/-! ### depth of the tree, as the recursion of `compile` sees it -/
mutual
  def Expr.depth : Expr → Nat
    | .arrayLit els => 1 + Expr.depths els
    | .hashLit ps => 1 + Pair.depths ps
    | .prefix _ r => 1 + r.depth
    | .infix _ l r => 1 + max l.depth r.depth
    | .ternary c t f => 1 + max c.depth (max t.depth f.depth)
    | .index l i => 1 + max l.depth i.depth
    | .call _ args => 1 + Expr.depths args
    | .assign _ v => 1 + v.depth
    | .ifE c cons alt => 1 + max c.depth (max (1 + Stmt.depths cons) (match alt with | none => 0 | some a => 1 + Stmt.depths a))
    | .whileE c b => 1 + max c.depth (1 + Stmt.depths b)
    | .foreachE _ _ v b => 1 + max v.depth (1 + Stmt.depths b)
    | .switchE v cs => 1 + max v.depth (Case.depths cs)
    | .funcDef _ _ b => 1 + (1 + Stmt.depths b)
    | _ => 1
  def Expr.depths : List Expr → Nat
    | [] => 0
    | e :: es => max e.depth (Expr.depths es)
  def Pair.depths : List Pair → Nat
    | [] => 0
    | .mk k v :: ps => max (max k.depth v.depth) (Pair.depths ps)
  def Stmt.depth : Stmt → Nat
    | .expr e => 1 + e.depth
    | .ret e => 1 + e.depth
  def Stmt.depths : List Stmt → Nat
    | [] => 0
    | s :: ss => max s.depth (Stmt.depths ss)
  def Case.depths : List Case → Nat
    | [] => 0
    | .mk _ es b :: cs => max (max (Expr.depths es) (1 + Stmt.depths b)) (Case.depths cs)
end

namespace Compiler

/-! ### compiler state and errors -/
inductive CErr
  | compoundTarget   -- "left-most operand for += must be an identifier"
  | unknownOperator
  | unknownPostfix
  | tooLarge         -- Prepare: "the script is too large to compile"
  | tooDeep          -- "the script is too deeply nested to compile"
  deriving DecidableEq, Repr

structure FnDef where
  name : Str
  params : List Str
  code : List Instr
  deriving Repr

structure CState where
  consts : List Value
  /-- `e.functions`: a later definition of the same name replaces the earlier one -/
  funcs : List FnDef

/-- `addConstant`: constants with the same type and printed form are shared -/
def findConst (cs : List Value) (v : Value) (i : Nat) : Option Nat :=
  match cs with
  | [] => none
  | c :: rest => if c.type? == v.type? && c.inspect == v.inspect then some i else findConst rest v (i + 1)

def addConstant (st : CState) (v : Value) : Nat × CState :=
  match findConst st.consts v 0 with
  | some i => (i, st)
  | none => (st.consts.length, { st with consts := st.consts ++ [v] })

def setFunc (fs : List FnDef) (f : FnDef) : List FnDef :=
  match fs with
  | [] => [f]
  | g :: gs => if g.name == f.name then f :: gs else g :: setFunc gs f

/-- emit `op` with a constant operand -/
def withConst (st : CState) (op : Op) (v : Value) : Instr × CState :=
  let (i, st) := addConstant st v
  (⟨op, i⟩, st)

def binaryOp (op : Str) : Option Op :=
  match String.ofList op with
  | "+" => some .add | "-" => some .sub | "*" => some .mul | "/" => some .div
  | "%" => some .mod | "**" => some .power
  | "<" => some .less | "<=" => some .lessEqual | ">" => some .greater | ">=" => some .greaterEqual
  | "==" => some .equal | "!=" => some .notEqual
  | "~=" => some .matches | "!~" => some .notMatches | "in" => some .arrayIn
  | "." => some .index | ".." => some .range
  | "&&" => some .and | "||" => some .or
  | _ => none

def compoundOp (op : Str) : Option Op :=
  match String.ofList op with
  | "+=" => some .add | "-=" => some .sub | "*=" => some .mul | "/=" => some .div
  | _ => none

def prefixOp (op : Str) : Option Op :=
  match String.ofList op with
  | "!" => some .bang | "-" => some .minus | "√" => some .squareRoot
  | _ => none

/-- largest integer literal pushed inline with OpPush -/
def inlineLimit : Nat := 65534

abbrev CM := Except CErr

mutual
  /-- code for `e` placed at byte offset `base` -/
  def compileExpr (e : Expr) (base : Nat) (st : CState) : CM (List Instr × CState) :=
    match e with
    | .boolLit b => pure ([⟨if b then .true else .false, 0⟩], st)
    | .floatLit _ f => let (i, st) := withConst st .constant (.float f); pure ([i], st)
    | .intLit _ v =>
        if v ≥ 0 && v.toInt ≤ inlineLimit then pure ([⟨.push, v.toInt.toNat⟩], st)
        else let (i, st) := withConst st .constant (.int v); pure ([i], st)
    | .strLit s => let (i, st) := withConst st .constant (.str s); pure ([i], st)
    | .regexpLit _ val flags =>
        let v := if flags.isEmpty then val else ['(', '?'] ++ flags ++ [')'] ++ val
        let (i, st) := withConst st .constant (.regexp v); pure ([i], st)
    | .arrayLit els => do
        let (c, st) ← compileExprs els base st
        pure (c ++ [⟨.array, els.length⟩], st)
    | .hashLit pairs => do
        let (c, st) ← compilePairs pairs base st
        pure (c ++ [⟨.hash, pairs.length * 2⟩], st)
    | .infix op l r => do
        let (cl, st) ← compileExpr l base st
        let (cr, st) ← compileExpr r (base + l.size) st
        if isCompound op then
          match l, compoundOp op with
          | .ident name, some o =>
              let (k, st) := withConst st .constant (.str name)
              pure (cl ++ cr ++ [⟨o, 0⟩, k, ⟨.set, 0⟩], st)
          | _, _ => throw .compoundTarget
        else
          match binaryOp op with
          | some o => pure (cl ++ cr ++ [⟨o, 0⟩], st)
          | none => throw .unknownOperator
    | .prefix op r => do
        let (cr, st) ← compileExpr r base st
        match prefixOp op with
        | some o => pure (cr ++ [⟨o, 0⟩], st)
        | none => throw .unknownOperator
    | .postfix name op =>
        if op == ['+', '+'] then let (i, st) := withConst st .inc (.str name); pure ([i], st)
        else if op == ['-', '-'] then let (i, st) := withConst st .dec (.str name); pure ([i], st)
        else throw .unknownPostfix
    | .localE name =>
        let (i, st) := withConst st .constant (.str name); pure ([i, ⟨.local, 0⟩], st)
    | .foreachE idx ident v body => do
        let (cv, st) ← compileExpr v base st
        let start := base + v.size + 1
        let (ki, st) := withConst st .constant (.str idx)
        let (kx, st) := withConst st .constant (.str ident)
        let bodyBase := start + 3 + 3 + 1 + 3
        let (cb, st) ← compileStmts body bodyBase st
        let endPos := bodyBase + Stmt.sizes body + 3
        pure (cv ++ [⟨.iterationReset, 0⟩, ki, kx, ⟨.iterationNext, 0⟩, ⟨.jumpIfFalse, endPos⟩]
                 ++ cb ++ [⟨.jump, start⟩, ⟨.placeholder, 0⟩], st)
    | .funcDef name params body => do
        let (cb, st) ← compileStmts body 0 st
        let endsWithReturn := match cb.getLast? with | some i => i.op == Op.return | none => false
        let cb : List Instr := if endsWithReturn then cb else cb ++ [⟨Op.void, 0⟩, ⟨Op.return, 0⟩]
        pure ([], { st with funcs := setFunc st.funcs ⟨name, params, cb⟩ })
    | .ifE c cons alt => do
        let (cc, st) ← compileExpr c base st
        let consBase := base + c.size + 3
        let (ca, st) ← compileStmts cons consBase st
        let afterCons := consBase + Stmt.sizes cons
        match alt with
        | none => pure (cc ++ [⟨.jumpIfFalse, afterCons⟩] ++ ca ++ [⟨.placeholder, 0⟩], st)
        | some a => do
            let altBase := afterCons + 3
            let (cb, st) ← compileStmts a altBase st
            pure (cc ++ [⟨.jumpIfFalse, altBase⟩] ++ ca ++ [⟨.jump, altBase + Stmt.sizes a⟩] ++ cb
                    ++ [⟨.placeholder, 0⟩], st)
    | .ternary c t f => do
        let (cc, st) ← compileExpr c base st
        let tBase := base + c.size + 3
        let (ct, st) ← compileExpr t tBase st
        let fBase := tBase + t.size + 3
        let (cf, st) ← compileExpr f fBase st
        pure (cc ++ [⟨.jumpIfFalse, fBase⟩] ++ ct ++ [⟨.jump, fBase + f.size⟩] ++ cf
                ++ [⟨.placeholder, 0⟩], st)
    | .switchE v cs => do
        -- a switch without case-expressions never tests its value: the value is compiled all the
        -- same (errors are reported, constants and functions it defines stay) and the code dropped
        let st ← (if Case.hasTest cs then pure st else do
                    let (_, st) ← compileExpr v base st
                    pure st)
        let endPos := base + Case.armsSize v.size cs + Case.defaultsSize cs
        let (ca, st) ← compileArms (fun b s => compileExpr v b s) v.size cs base endPos st
        let (cd, st) ← compileDefaults cs (base + Case.armsSize v.size cs) st
        pure (ca ++ cd ++ [⟨.placeholder, 0⟩], st)
    | .whileE c body => do
        let (cc, st) ← compileExpr c base st
        let bodyBase := base + c.size + 3
        let (cb, st) ← compileStmts body bodyBase st
        let endPos := bodyBase + Stmt.sizes body + 3
        pure (cc ++ [⟨.jumpIfFalse, endPos⟩] ++ cb ++ [⟨.jump, base⟩, ⟨.placeholder, 0⟩], st)
    | .assign name v => do
        let (cv, st) ← compileExpr v base st
        let (k, st) := withConst st .constant (.str name)
        pure (cv ++ [k, ⟨.set, 0⟩], st)
    | .ident name => let (i, st) := withConst st .lookup (.str name); pure ([i], st)
    | .call fn args => do
        let (ca, st) ← compileExprs args base st
        let (k, st) := withConst st .constant (.str fn.str)
        pure (ca ++ [k, ⟨.call, args.length⟩], st)
    | .index l i => do
        let (cl, st) ← compileExpr l base st
        let (ci, st) ← compileExpr i (base + l.size) st
        pure (cl ++ ci ++ [⟨.index, 0⟩], st)

  def compileExprs (es : List Expr) (base : Nat) (st : CState) : CM (List Instr × CState) :=
    match es with
    | [] => pure ([], st)
    | e :: rest => do
        let (c, st) ← compileExpr e base st
        let (cs, st) ← compileExprs rest (base + e.size) st
        pure (c ++ cs, st)

  def compilePairs (ps : List Pair) (base : Nat) (st : CState) : CM (List Instr × CState) :=
    match ps with
    | [] => pure ([], st)
    | .mk k v :: rest => do
        let (ck, st) ← compileExpr k base st
        let (cv, st) ← compileExpr v (base + k.size) st
        let (cs, st) ← compilePairs rest (base + k.size + v.size) st
        pure (ck ++ cv ++ cs, st)

  def compileStmt (s : Stmt) (base : Nat) (st : CState) : CM (List Instr × CState) :=
    match s with
    | .expr e => compileExpr e base st
    | .ret e => do
        let (c, st) ← compileExpr e base st
        pure (c ++ [⟨.return, 0⟩], st)

  def compileStmts (ss : List Stmt) (base : Nat) (st : CState) : CM (List Instr × CState) :=
    match ss with
    | [] => pure ([], st)
    | s :: rest => do
        let (c, st) ← compileStmt s base st
        let (cs, st) ← compileStmts rest (base + s.size) st
        pure (c ++ cs, st)

  /-- the non-default cases of a switch, in source order; `cv` compiles the switch value -/
  def compileArms (cv : Nat → CState → CM (List Instr × CState)) (vsize : Nat) (cs : List Case)
      (base endPos : Nat) (st : CState) : CM (List Instr × CState) :=
    match cs with
    | [] => pure ([], st)
    | .mk isDef es b :: rest =>
        if isDef then compileArms cv vsize rest base endPos st
        else do
          let (c, st) ← compileArm cv vsize (fun bs s => compileStmts b bs s) (Stmt.sizes b) es base endPos st
          let (cr, st) ← compileArms cv vsize rest (base + Case.armSize vsize (Stmt.sizes b) es) endPos st
          pure (c ++ cr, st)

  /-- one test-and-block per expression of a `case a, b, c { … }` -/
  def compileArm (cv : Nat → CState → CM (List Instr × CState)) (vsize : Nat)
      (cblock : Nat → CState → CM (List Instr × CState)) (bsize : Nat) (es : List Expr)
      (base endPos : Nat) (st : CState) : CM (List Instr × CState) :=
    match es with
    | [] => pure ([], st)
    | e :: rest => do
        let (cv', st) ← cv base st
        let (ce, st) ← compileExpr e (base + vsize) st
        let blockBase := base + vsize + e.size + 1 + 3
        let (cb, st) ← cblock blockBase st
        let next := blockBase + bsize + 3
        let (cr, st) ← compileArm cv vsize cblock bsize rest next endPos st
        pure (cv' ++ ce ++ [⟨.case, 0⟩, ⟨.jumpIfFalse, next⟩] ++ cb ++ [⟨.jump, endPos⟩] ++ cr, st)

  def compileDefaults (cs : List Case) (base : Nat) (st : CState) : CM (List Instr × CState) :=
    match cs with
    | [] => pure ([], st)
    | .mk isDef _ b :: rest =>
        if isDef then do
          let (c, st) ← compileStmts b base st
          let (cr, st) ← compileDefaults rest (base + Stmt.sizes b) st
          pure (c ++ cr, st)
        else compileDefaults rest base st
end

def maxProgramSize : Nat := 65536

/-- the compiled program as `Prepare` hands it to `vm.New` -/
structure Compiled where
  consts : List Value
  main : List Instr
  funcs : List FnDef

/-- `e.compile(program)` followed by the size check of `Prepare` -/
def compileProgram (prog : Program) : CM Compiled := do
  let prog := normStmts prog
  -- the depth guard of `compile` (only relevant for trees deeper than the byte-code limit allows)
  if 1 + Stmt.depths prog > maxProgramSize then throw .tooDeep
  let (code, st) ← compileStmts prog 0 ⟨[], []⟩
  if codeSize code > maxProgramSize || st.consts.length > maxProgramSize
      || st.funcs.any (fun f => codeSize f.code > maxProgramSize) then throw .tooLarge
  pure ⟨st.consts, code, st.funcs⟩

end Compiler
end EvalFilter
