/-
  Model of vm/vm.go (the fetch/decode/execute loop, one case per opcode), of
  environment/environment.go (globals + scope stack) and of stack/stack.go.

  * The value stack of a run is a `List Value` (head = top); a user-function call
    runs the callee with a fresh stack, as the Go code does by swapping `vm.stack`.
  * `Run`'s deferred restore (bytecode, stack, scope depth) is `finish`, applied on
    every way out of a run.
  * Go panics that `Execute` recovers are the `Err.panic` outcome.
  * The context is a poll oracle `done : Nat → Bool` indexed by the number of polls
    made so far; the loop polls once before every instruction, at every call depth.
-/
import EvalFilter.Model.Code
import EvalFilter.Model.Value
import EvalFilter.Model.Reflect
import EvalFilter.Model.Builtins

namespace EvalFilter.VM
open EvalFilter

/-! ### environment -/

abbrev Scope := List (Str × Value)

def setAssoc (l : Scope) (k : Str) (v : Value) : Scope :=
  match l with
  | [] => [(k, v)]
  | (k', v') :: rest => if k' == k then (k, v) :: rest else (k', v') :: setAssoc rest k v

structure Env where
  globals : Scope := []
  /-- `environment.local`, innermost scope last -/
  scopes : List Scope := []
  deriving Inhabited

namespace Env
/-- `isLocal`: innermost scope first -/
def isLocal (e : Env) (name : Str) : Option Value :=
  e.scopes.reverse.findSome? (fun s => s.lookup name)

/-- `Get` -/
def get (e : Env) (name : Str) : Option Value :=
  match e.isLocal name with
  | some v => some v
  | none => e.globals.lookup name

/-- update the innermost scope that binds `name` (the walk of `SetLocal`) -/
def updateInnermost : List Scope → Str → Value → Option (List Scope)
  | [], _, _ => none
  | s :: rest, name, v =>
    -- `rest` are the scopes further in; try them first
    match updateInnermost rest name v with
    | some rest' => some (s :: rest')
    | none => if (s.lookup name).isSome then some (setAssoc s name v :: rest) else none

/-- `Set`: update the variable where it lives, otherwise it is a global -/
def set (e : Env) (name : Str) (v : Value) : Env :=
  match updateInnermost e.scopes name v with
  | some sc => { e with scopes := sc }
  | none => { e with globals := setAssoc e.globals name v }

/-- `Declare`: bind in the innermost scope (nothing happens when no scope is open) -/
def declare (e : Env) (name : Str) (v : Value) : Env :=
  match e.scopes.reverse with
  | [] => e
  | s :: rest => { e with scopes := (setAssoc s name v :: rest).reverse }

def addScope (e : Env) : Env := { e with scopes := e.scopes ++ [[]] }
def removeScope (e : Env) : Option Env :=
  if e.scopes.isEmpty then none else some { e with scopes := e.scopes.dropLast }
def truncate (e : Env) (depth : Nat) : Env := { e with scopes := e.scopes.take depth }
end Env

/-! ### functions callable from scripts -/

/-- host functions the harness can register (the same tiny language on both sides) -/
inductive HostFn
  | const (v : Value)
  | arg (i : Nat)
  | sumInts
  | void
  /-- returns an array of its arguments (the Go side keeps the very slice it was handed) -/
  | listArgs
  | nilRet
  | panic
  deriving Inhabited

inductive FnImpl
  | builtin (name : String)
  | host (f : HostFn)

structure UserFn where
  name : Str
  params : List Str
  code : Bytes

structure Machine where
  consts : List Value
  main : Bytes
  funcs : List UserFn
  fns : List (Str × FnImpl)
  /-- the context: has it been cancelled when the n-th poll (0-based) is made? -/
  done : Nat → Bool := fun _ => false

inductive Err
  | error (cls : String)
  | panic
  | timeout
  | outOfFuel
  | unsupported
  deriving Repr, DecidableEq

abbrev Res := Except Err Value

structure RunSt where
  env : Env
  /-- everything written to standard output, including the markers of host calls -/
  out : Str := []
  polls : Nat := 0
  /-- calls of user-defined functions in progress (`vm.depth`) -/
  depth : Nat := 0
  deriving Inhabited

/-- `maxCallDepth` of vm.go -/
def maxCallDepth : Nat := 10000

def lookupFn (M : Machine) (name : Str) : Option FnImpl := M.fns.reverse.lookup name
def lookupUser (M : Machine) (name : Str) : Option UserFn := M.funcs.reverse.find? (fun f => f.name == name)

def hostMarker (name : Str) (args : List Value) : Str :=
  ['<'] ++ name ++ ['('] ++ Builtins.joinWith [','] (args.map Value.inspect) ++ [')', '>']

/-- call a built-in or host function: result and text written -/
def callImpl (name : Str) (f : FnImpl) (args : List Value) : Builtins.BRes :=
  match f with
  | .builtin b => Builtins.call b args
  | .host h =>
    let out := hostMarker name args
    match h with
    | .const v => { out := out, res := .val v }
    | .arg i => { out := out, res := .val (args.getD i .null) }
    | .sumInts =>
        { out := out, res := .val (.int (args.foldl (fun acc a => match a with | .int i => acc + i | _ => acc) 0)) }
    | .void => { out := out, res := .val .void }
    | .listArgs => { out := out, res := .val (.array args) }
    | .nilRet => { out := out, res := .val .nil }
    | .panic => { out := out, res := .panic }

/-! ### operators -/

def err (cls : String) : Res := .error (.error cls)
def vbool (b : Bool) : Res := .ok (.bool b)

def floatToInt? (f : Float) : Option Int64 :=
  if f.isNaN || f.isInf || f ≥ 9.2e18 || f ≤ -9.2e18 then none else some f.toInt64

/-- the successive-squaring loop of Go's `math.pow` for the integral part `i` of the exponent: the answer is
    kept as `a1 * 2**ae`, the running square as `x1 * 2**xe` with `x1` renormalised into [1/2, 1) -/
def powLoop : Nat → Nat → Float → Float → Int → Int → Float × Int
  | 0, _, a1, _, ae, _ => (a1, ae)
  | fuel + 1, i, a1, x1, ae, xe =>
    if i == 0 then (a1, ae)
    else if xe < -4096 || 4096 < xe then (a1, ae + xe)   -- certain over/underflow: Ldexp will produce Inf / 0
    else
      let a1' := if i % 2 == 1 then a1 * x1 else a1
      let ae' := if i % 2 == 1 then ae + xe else ae
      let x2 := x1 * x1
      let xe2 := xe * 2
      if x2 < 0.5 then powLoop fuel (i / 2) a1' (x2 + x2) ae' (xe2 - 1)
      else powLoop fuel (i / 2) a1' x2 ae' xe2

/-- `math.Pow(x, y)` as Go computes it (package math, pure Go on this platform), for the arguments where only
    exactly specified IEEE operations are involved: finite `x`, and `y` an integer (Frexp, multiplication,
    division, Ldexp) or ±0.5 (Sqrt).  For other fractional exponents Go goes through Exp and Log, whose
    last bit is not pinned down by a specification: the executable model declines (`none`). -/
def goPow (x y : Float) : Option Float :=
  if y == 0 || x == 1 then some 1
  else if y == 1 then some x
  else if x.isNaN || y.isNaN || x.isInf || y.isInf then none
  else if x == 0 then
    let oddY := y.abs < 9007199254740992 && y == y.floor && y.abs.toUInt64 % 2 == 1
    if y < 0 then none            -- ±Inf: what becomes of it (conversion to an integer) is platform-defined
    else some (if (1 / x) < 0 && oddY then x else 0)
  else if y == 0.5 then some x.sqrt
  else if y == -0.5 then some (1 / x.sqrt)
  else if y != y.floor then none
  else if y.abs ≥ 9007199254740992 then none
  else
    let i := y.abs.toUInt64.toNat
    let (x1, xe) := x.frExp
    let (a1, ae) := powLoop 64 i 1.0 x1 0 xe
    let (a1, ae) := if y < 0 then (1 / a1, -ae) else (a1, ae)
    some (a1.scaleB ae)

def intOp (op : Op) (l r : Int64) : Res :=
  match op with
  | .add => .ok (.int (l + r))
  | .sub => .ok (.int (l - r))
  | .mul => .ok (.int (l * r))
  | .div => if r == 0 then err "div0" else .ok (.int (l / r))
  | .mod => if r == 0 then .error .panic else .ok (.int (l % r))
  | .power =>
      match goPow l.toFloat r.toFloat with
      | some f => (match floatToInt? f with | some i => .ok (.int i) | none => .error .unsupported)
      | none => .error .unsupported
  | .less => vbool (l < r)
  | .lessEqual => vbool (l ≤ r)
  | .greater => vbool (l > r)
  | .greaterEqual => vbool (l ≥ r)
  | .equal => vbool (l == r)
  | .notEqual => vbool (l != r)
  | _ => err "unknownOperator"

def floatOp (op : Op) (l r : Float) : Res :=
  match op with
  | .add => .ok (.float (l + r))
  | .sub => .ok (.float (l - r))
  | .mul => .ok (.float (l * r))
  | .div => if r == 0 then err "div0" else .ok (.float (l / r))
  | .mod =>
      match floatToInt? l, floatToInt? r with
      | some a, some b => if b == 0 then .error .panic else .ok (.float (a % b).toFloat)
      | _, _ => .error .unsupported
  | .power => (match goPow l r with | some f => .ok (.float f) | none => .error .unsupported)
  | .less => vbool (l < r)
  | .lessEqual => vbool (l ≤ r)
  | .greater => vbool (l > r)
  | .greaterEqual => vbool (l ≥ r)
  | .equal => vbool (l == r)
  | .notEqual => vbool (l != r)
  | _ => err "unknownOperator"

def strOp (op : Op) (l r : Str) : Res :=
  match op with
  | .equal => vbool (l == r)
  | .notEqual => vbool (l != r)
  | .greaterEqual => vbool (Str.le r l)
  | .greater => vbool (Str.lt r l)
  | .lessEqual => vbool (Str.le l r)
  | .less => vbool (Str.lt l r)
  | .add => .ok (.str (l ++ r))
  | .arrayIn => vbool (Str.contains r l)
  | _ => err "unknownOperator"

/-- same type and same printed form (OpCase, `in`) -/
def sameTypeAndText (a b : Value) : Bool := a.type? == b.type? && a.inspect == b.inspect

/-- a call of the function registered as "match" from inside the VM (OpMatches, OpCase):
    the value it returns and the text it wrote to standard output -/
def callMatch (M : Machine) (a b : Value) : Except Err (Value × Str) :=
  match lookupFn M "match".toList with
  | none => .error (.error "matchLookup")
  | some f =>
    let r := callImpl "match".toList f [a, b]
    match r.res with
    | .val .nil => .error .panic   -- a nil result is dereferenced by whatever consumes it next
    | .val v => .ok (v, r.out)
    | .panic => .error .panic
    | .unsupported => .error .unsupported

/-- `executeBinaryOperation`: the result and the text written to standard output (only a host
    function registered under the name "match" can write any) -/
def binop (M : Machine) (op : Op) (l r : Value) : Except Err (Value × Str) :=
  let pure' (x : Res) : Except Err (Value × Str) := x.map (fun v => (v, []))
  if op == .and then pure' (vbool (l.truthy && r.truthy))
  else if op == .or then pure' (vbool (l.truthy || r.truthy))
  else
  match l, r with
  | .nil, _ => .error .panic
  | _, .nil => .error .panic
  | .int a, .int b => pure' (intOp op a b)
  | .float a, .float b => pure' (floatOp op a b)
  | .float a, .int b => pure' (floatOp op a b.toFloat)
  | .int a, .float b => pure' (floatOp op a.toFloat b)
  | .str a, .str b => pure' (strOp op a b)
  | .str a, .regexp b =>
      if op == .matches || op == .notMatches then
        match callMatch M (.str a) (.regexp b) with
        | .error e => .error e
        | .ok (.bool m, o) => .ok (.bool (if op == .matches then m else !m), o)
        | .ok (_, _) => .error .panic      -- `ret.(*object.Boolean)` fails
      else pure' (err "unknownOperator")
  | _, _ =>
      if op == .arrayIn then
        match r with
        | .array els => pure' (vbool (els.any (fun e => sameTypeAndText l e)))
        | _ => pure' (err "inNotArray")
      else
        match l, r with
        | .bool a, .bool b => pure' (strOp op (Value.inspect (.bool a)) (Value.inspect (.bool b)))
        | _, _ => if l.type? != r.type? then pure' (err "typeMismatch") else pure' (err "unknownOperator")

/-- `executeIndexExpression` -/
def indexOp (left index : Value) : Res :=
  match left with
  | .hash ps =>
      match index.hashKey? with
      | none => err "hashKey"
      | some hk => .ok ((HashMapModel.lookup ps hk).map HPair.val |>.getD .null)
  | .array els =>
      match index with
      | .int i => if i < 0 || i.toInt ≥ els.length then .ok .null else .ok (els.getD i.toInt.toNat .null)
      | _ => err "indexType"
  | .str s =>
      match index with
      | .int i => if i < 0 || i.toInt ≥ s.length then .ok .null else .ok (.str [s.getD i.toInt.toNat ' '])
      | _ => err "indexType"
  | _ => err "indexTarget"

def bangOp : Value → Value
  | .bool b => .bool (!b)
  | .null => .bool true
  | _ => .bool false

def minusOp : Value → Res
  | .int i => .ok (.int (-i))
  | .float f => .ok (.float (-f))
  | _ => err "negType"

def sqrtOp : Value → Res
  | .int i => .ok (.float (Float.sqrt i.toFloat))
  | .float f => .ok (.float (Float.sqrt f))
  | _ => err "sqrtType"

/-- largest range the model materialises (larger ones are "needs more memory than the host has") -/
def maxRange : Nat := 200000

def rangeOp (lo hi : Value) : Res :=
  match lo, hi with
  | .int a, .int b =>
      if a > b then err "rangeOrder"
      else
        let n := (b.toInt - a.toInt + 1).toNat
        if n > maxRange then .error .unsupported
        else .ok (.array ((List.range n).map (fun k => .int (a + Int64.ofNat k))))
  | .int _, _ => err "rangeEnd"
  | _, _ => err "rangeStart"

/-- `Next()` of the three iterable types: (value, index/key) at position `off` -/
def iterNext (v : Value) (off : Nat) : Option (Value × Value) :=
  match v with
  | .array els => if off < els.length then some (els.getD off .null, .int (Int64.ofNat off)) else none
  | .str s => if off < s.length then some (.str [s.getD off ' '], .int (Int64.ofNat off)) else none
  | .hash ps =>
      let es := HashMapModel.entries ps
      if off < es.length then (es[off]?).map (fun p => (p.val, p.key)) else none
  | _ => none

def isIterable : Value → Bool
  | .array _ => true | .str _ => true | .hash _ => true | .iterating _ _ => true | _ => false

/-- `vm.lookup` -/
def lookup (obj : HostVal) (env : Env) (name : Str) : Res :=
  let name := Str.trimPrefix name ['$']
  match env.get name with
  | some v => .ok v
  | none =>
    match Reflect.fieldsOf obj with
    | .error _ => .error .panic
    | .ok fs => .ok ((Reflect.lookupField fs name).getD .null)

def popN (n : Nat) (stack : List Value) : Option (List Value × List Value) :=
  if stack.length < n then none else some ((stack.take n).reverse, stack.drop n)

/-- `Run`'s deferred function: whatever happened, no scope beyond the entry depth stays open -/
def finish (depth : Nat) (r : Res × RunSt) : Res × RunSt :=
  (r.1, { r.2 with env := r.2.env.truncate depth })

def isBinary : Op → Bool
  | .add | .sub | .mul | .div | .mod | .power | .less | .lessEqual | .greater | .greaterEqual
  | .equal | .notEqual | .matches | .notMatches | .and | .or | .arrayIn => true
  | _ => false

/-- what one instruction does: continue at `ip` with a new stack and state, or end the run -/
inductive StepOut
  | cont (ip : Nat) (stack : List Value) (st : RunSt)
  | halt (r : Res) (st : RunSt)

/-- the part of OpCall that runs a user-defined function: open a scope, bind the parameters, run
    the body with a fresh stack (`runBody` is the nested `vm.Run`), restore on every way out -/
def invoke (runBody : Bytes → RunSt → Res × RunSt) (uf : UserFn) (args : List Value) (st : RunSt) :
    Res × RunSt :=
  if st.depth ≥ maxCallDepth then (err "callDepth", st) else
  let depth := st.depth
  let st := { st with env := st.env.addScope, depth := st.depth + 1 }
  if uf.params.length != args.length then (err "argCount", { st with depth := depth }) else
  let env := (uf.params.zip args).foldl (fun e (p, a) => e.declare p a) st.env
  let st := { st with env := env }
  if uf.code.isEmpty then (err "emptyProgram", { st with depth := depth }) else
  let r := finish st.env.scopes.length (runBody uf.code st)
  (r.1, { r.2 with depth := depth })

/-- build the pairs of OpHash from the popped items (value, key, value, key, … from the top) -/
def buildHash (fuel : Nat) (xs : List Value) (acc : List HPair) : Except Err (List HPair) :=
  match fuel, xs with
  | 0, _ => .ok acc
  | _, [] => .ok acc
  | _, [_] => .ok acc
  | fuel + 1, v :: k :: more =>
    match k.hashKey? with
    | none => .error (if k.type?.isNone then .panic else .error "hashKey")
    | some hk => buildHash fuel more (HashMapModel.insert acc (.mk hk k v))

/-- One instruction of `Run`'s loop (after the poll): opcode byte `opb` with operand `arg`, the
    next instruction being at `next`. -/
def step (M : Machine) (obj : HostVal) (codeLen : Nat) (runBody : Bytes → RunSt → Res × RunSt)
    (opb arg next : Nat) (stack : List Value) (st : RunSt) : StepOut :=
  let fail (cls : String) : StepOut := .halt (err cls) st
  match Op.ofNat? opb with
  | none => fail "unknownOpcode"
  | some op =>
    if isBinary op then
      match stack with
      | r :: l :: rest =>
        match binop M op l r with
        | .error e => .halt (.error e) st
        | .ok (v, o) => .cont next (v :: rest) { st with out := st.out ++ o }
      | _ => fail "underflow"
    else
    match op with
    | .nop | .placeholder => .cont next stack st
    | .push => .cont next (.int (Int64.ofNat arg) :: stack) st
    | .constant =>
      match M.consts[arg]? with
      | none => fail "badConstant"
      | some c => .cont next (c :: stack) st
    | .lookup =>
      match M.consts[arg]? with
      | none => fail "badConstant"
      | some c =>
        match lookup obj st.env c.inspect with
        | .error e => .halt (.error e) st
        | .ok v => .cont next (v :: stack) st
    | .local =>
      match stack with
      | name :: rest => .cont next rest { st with env := st.env.declare name.inspect .null }
      | _ => fail "underflow"
    | .set =>
      match stack with
      | name :: val :: rest => .cont next rest { st with env := st.env.set name.inspect val }
      | _ => fail "underflow"
    | .array =>
      match popN arg stack with
      | none => fail "underflow"
      | some (els, rest) => .cont next (.array els :: rest) st
    | .hash =>
      -- pops value, key, value, key, …: pairs come off in reverse source order
      match popN (2 * ((arg + 1) / 2)) stack with
      | none => fail "underflow"
      | some (items, rest) =>
        match buildHash (items.length + 1) items.reverse [] with
        | .error e => .halt (.error e) st
        | .ok ps => .cont next (.hash ps :: rest) st
    | .case =>
      match stack with
      | caseVal :: val :: rest =>
        if sameTypeAndText val caseVal then .cont next (.bool true :: rest) st
        else if caseVal.isType .REGEXP then
          match callMatch M val caseVal with
          | .error e => .halt (.error e) st
          | .ok (v, o) => .cont next (v :: rest) { st with out := st.out ++ o }
        else .cont next (.bool false :: rest) st
      | _ => fail "underflow"
    | .index =>
      match stack with
      | index :: left :: rest =>
        match indexOp left index with
        | .error e => .halt (.error e) st
        | .ok v => .cont next (v :: rest) st
      | _ => fail "underflow"
    | .bang =>
      match stack with
      | v :: rest => .cont next (bangOp v :: rest) st
      | _ => fail "underflow"
    | .minus =>
      match stack with
      | v :: rest =>
        match minusOp v with
        | .error e => .halt (.error e) st
        | .ok x => .cont next (x :: rest) st
      | _ => fail "underflow"
    | .squareRoot =>
      match stack with
      | v :: rest =>
        match sqrtOp v with
        | .error e => .halt (.error e) st
        | .ok x => .cont next (x :: rest) st
      | _ => fail "underflow"
    | .true => .cont next (.bool true :: stack) st
    | .false => .cont next (.bool false :: stack) st
    | .void => .cont next (.void :: stack) st
    | .return =>
      match stack with
      | v :: _ => .halt (.ok v) st
      | _ => fail "underflow"
    | .jump =>
      if arg ≥ codeLen then fail "ipOOB" else .cont arg stack st
    | .jumpIfFalse =>
      match stack with
      | c :: rest =>
        if c.truthy then .cont next rest st
        else if arg ≥ codeLen then fail "ipOOB"
        else .cont arg rest st
      | _ => fail "underflow"
    | .call =>
      match stack with
      | fname :: rest0 =>
        let name := fname.inspect
        match popN arg rest0 with
        | none => fail "underflow"
        | some (args, rest) =>
          match lookupFn M name with
          | some f =>
            let r := callImpl name f args
            let st := { st with out := st.out ++ r.out }
            match r.res with
            | .panic => .halt (.error .panic) st
            | .unsupported => .halt (.error .unsupported) st
            | .val .nil => .halt (.error .panic) st
            | .val .void => .cont next rest st
            | .val v => .cont next (v :: rest) st
          | none =>
            match lookupUser M name with
            | none => fail "noSuchFunction"
            | some uf =>
              match invoke runBody uf args st with
              | (.error e, st) => .halt (.error e) st
              | (.ok out, st) =>
                let rest := if out.isType .VOID then rest else out :: rest
                match st.env.removeScope with
                | none => .halt (err "removeScope") st
                | some env => .cont next rest { st with env := env }
      | _ => fail "underflow"
    | .iterationReset =>
      let st := { st with env := st.env.addScope }
      match stack with
      | v :: rest =>
        (match v with
         | .array _ | .str _ | .hash _ => .cont next (.iterating v 0 :: rest) st
         | .iterating inner _ => .cont next (.iterating inner 0 :: rest) st
         | .nil => .halt (.error .panic) st
         | _ => .halt (err "notIterable") st)
      | _ => .halt (err "underflow") st
    | .iterationNext =>
      match stack with
      | varName :: idxName :: it :: rest =>
        -- In the Go code the iteration offset lives inside the iterated object.  OpIterationReset
        -- gives every loop its own copy, modelled as `iterating v off`.  A plain array, string or hash
        -- in this position can only get here when a statement of the loop body left a value on the
        -- stack (known finding KF-7); what happens then depends on the hidden offset of whatever
        -- object that is (a shared constant keeps its offset from one turn to the next), which this
        -- model does not track: it declines to answer.
        let cur : Option (Option (Value × Nat)) :=
          match it with
          | .iterating v off => some (some (v, off))
          | .array _ | .str _ | .hash _ => some none
          | _ => none
        match cur with
        | some none => .halt (.error .unsupported) st
        | none => if it.type?.isNone then .halt (.error .panic) st else fail "notIterable"
        | some (some (v, off)) =>
          match iterNext v off with
          | some (x, idx) =>
            let env := st.env.declare varName.inspect x
            let env := if idxName.inspect.isEmpty then env else env.declare idxName.inspect idx
            .cont next (.bool true :: .iterating v (off + 1) :: rest) { st with env := env }
          | none =>
            match st.env.removeScope with
            | none => fail "removeScope"
            | some env => .cont next (.bool false :: rest) { st with env := env }
      | _ => fail "underflow"
    | .range =>
      match stack with
      | hi :: lo :: rest =>
        match rangeOp lo hi with
        | .error e => .halt (.error e) st
        | .ok v => .cont next (v :: rest) st
      | _ => fail "underflow"
    | .inc | .dec =>
      match M.consts[arg]? with
      | none => fail "badConstant"
      | some c =>
        let name := c.inspect
        match lookup obj st.env name with
        | .error e => .halt (.error e) st
        | .ok v =>
          let nv : Option Value :=
            match v with
            | .int i => some (.int (if op == .inc then i + 1 else i - 1))
            | .float f => some (.float (if op == .inc then f + 1 else f - 1))
            | _ => none
          match nv with
          | none => fail (if op == .inc then "incType" else "decType")
          | some nv =>
            let st := { st with env := st.env.set name nv }
            match stack with
            | _ :: rest => .cont next rest st
            | _ => .halt (err "underflow") st   -- the variable has already been updated
    | _ => fail "unknownOpcode"

/-- the instruction loop of `Run` over `code`, from `ip` with value stack `stack`:
    poll the context, fetch, decode, `step` -/
def loop (M : Machine) (obj : HostVal) (code : Bytes) (fuel : Nat) (ip : Nat) (stack : List Value)
    (st : RunSt) : Res × RunSt :=
  match fuel with
  | 0 => (.error .outOfFuel, st)
  | fuel + 1 =>
    if ip ≥ code.length then (.ok .null, st)
    else if M.done st.polls then (.error .timeout, { st with polls := st.polls + 1 })
    else
    let st := { st with polls := st.polls + 1 }
    let opb := (code.getD ip 0).toNat
    let len := byteLength opb
    if len > 1 && ip + 3 > code.length then (.error .panic, st) else
    let arg := if len > 1 then decode16 (code.getD (ip+1) 0) (code.getD (ip+2) 0) else 0
    match step M obj code.length (fun c s => loop M obj c fuel 0 [] s) opb arg (ip + len) stack st with
    | .cont ip' stack' st' => loop M obj code fuel ip' stack' st'
    | .halt r st' => (r, st')

/-- `vm.Run(obj)` at top level: clear the stack, run the main program, restore -/
def run (M : Machine) (obj : HostVal) (fuel : Nat) (st : RunSt) : Res × RunSt :=
  if M.main.isEmpty then (err "emptyProgram", st)
  else finish st.env.scopes.length (loop M obj M.main fuel 0 [] st)

end EvalFilter.VM
