/-
  Tokens (token/token.go).  `TokType.NONE` is Go's zero value `Type("")`, which
  the lexer produces for a lone `&`, `|` or `~`.
-/
import EvalFilter.Model.Basic

namespace EvalFilter

inductive TokType
  | AND | ASSIGN | ASTERISK | ASTERISKEQUALS | BANG | CASE | COLON | COMMA | CONTAINS
  | DEFAULT | DOTDOT | ELSE | EOF | EQ | FALSE | FLOAT | FOR | FOREACH | FUNCTION | GT
  | GTEQUALS | IDENT | IF | ILLEGAL | IN | INT | LBRACE | LOCAL | LPAREN | LSQUARE | LT
  | LTEQUALS | MINUS | MINUSEQUALS | MINUSMINUS | MISSING | MOD | NOTEQ | OR | PERIOD
  | PLUS | PLUSPLUS | PLUSEQUALS | POW | QUESTION | RBRACE | REGEXP | RETURN | RPAREN
  | RSQUARE | SEMICOLON | SLASH | SLASHEQUALS | SQRT | STRING | SWITCH | TRUE | WHILE
  | NONE
  deriving DecidableEq, Repr, Inhabited

namespace TokType
/-- the Go constant's name (used in the line protocol and in generated tables) -/
def name : TokType → String
  | AND => "AND" | ASSIGN => "ASSIGN" | ASTERISK => "ASTERISK" | ASTERISKEQUALS => "ASTERISKEQUALS"
  | BANG => "BANG" | CASE => "CASE" | COLON => "COLON" | COMMA => "COMMA" | CONTAINS => "CONTAINS"
  | DEFAULT => "DEFAULT" | DOTDOT => "DOTDOT" | ELSE => "ELSE" | EOF => "EOF" | EQ => "EQ"
  | FALSE => "FALSE" | FLOAT => "FLOAT" | FOR => "FOR" | FOREACH => "FOREACH" | FUNCTION => "FUNCTION"
  | GT => "GT" | GTEQUALS => "GTEQUALS" | IDENT => "IDENT" | IF => "IF" | ILLEGAL => "ILLEGAL"
  | IN => "IN" | INT => "INT" | LBRACE => "LBRACE" | LOCAL => "LOCAL" | LPAREN => "LPAREN"
  | LSQUARE => "LSQUARE" | LT => "LT" | LTEQUALS => "LTEQUALS" | MINUS => "MINUS"
  | MINUSEQUALS => "MINUSEQUALS" | MINUSMINUS => "MINUSMINUS" | MISSING => "MISSING" | MOD => "MOD"
  | NOTEQ => "NOTEQ" | OR => "OR" | PERIOD => "PERIOD" | PLUS => "PLUS" | PLUSPLUS => "PLUSPLUS"
  | PLUSEQUALS => "PLUSEQUALS" | POW => "POW" | QUESTION => "QUESTION" | RBRACE => "RBRACE"
  | REGEXP => "REGEXP" | RETURN => "RETURN" | RPAREN => "RPAREN" | RSQUARE => "RSQUARE"
  | SEMICOLON => "SEMICOLON" | SLASH => "SLASH" | SLASHEQUALS => "SLASHEQUALS" | SQRT => "SQRT"
  | STRING => "STRING" | SWITCH => "SWITCH" | TRUE => "TRUE" | WHILE => "WHILE" | NONE => "NONE"

def all : List TokType :=
  [AND, ASSIGN, ASTERISK, ASTERISKEQUALS, BANG, CASE, COLON, COMMA, CONTAINS, DEFAULT, DOTDOT,
   ELSE, EOF, EQ, FALSE, FLOAT, FOR, FOREACH, FUNCTION, GT, GTEQUALS, IDENT, IF, ILLEGAL, IN, INT,
   LBRACE, LOCAL, LPAREN, LSQUARE, LT, LTEQUALS, MINUS, MINUSEQUALS, MINUSMINUS, MISSING, MOD,
   NOTEQ, OR, PERIOD, PLUS, PLUSPLUS, PLUSEQUALS, POW, QUESTION, RBRACE, REGEXP, RETURN, RPAREN,
   RSQUARE, SEMICOLON, SLASH, SLASHEQUALS, SQRT, STRING, SWITCH, TRUE, WHILE, NONE]
end TokType

structure Token where
  ty : TokType
  lit : Str
  deriving DecidableEq, Repr, Inhabited

def Token.eof : Token := ⟨.EOF, []⟩

/-- the `keywords` map of token/token.go -/
def keywords : List (Str × TokType) :=
  [(['c', 'a', 's', 'e'], .CASE),
   (['d', 'e', 'f', 'a', 'u', 'l', 't'], .DEFAULT),
   (['e', 'l', 's', 'e'], .ELSE),
   (['f', 'a', 'l', 's', 'e'], .FALSE),
   (['f', 'o', 'r'], .FOR),
   (['f', 'o', 'r', 'e', 'a', 'c', 'h'], .FOREACH),
   (['f', 'u', 'n', 'c', 't', 'i', 'o', 'n'], .FUNCTION),
   (['i', 'f'], .IF),
   (['i', 'n'], .IN),
   (['l', 'o', 'c', 'a', 'l'], .LOCAL),
   (['r', 'e', 't', 'u', 'r', 'n'], .RETURN),
   (['s', 'w', 'i', 't', 'c', 'h'], .SWITCH),
   (['t', 'r', 'u', 'e'], .TRUE),
   (['w', 'h', 'i', 'l', 'e'], .WHILE)]

/-- `token.LookupIdentifier` -/
def lookupIdentifier (s : Str) : TokType := (keywords.lookup s).getD .IDENT

end EvalFilter
