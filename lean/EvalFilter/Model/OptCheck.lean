/-
  A validator for the rewrites of the byte-code optimizer (property C03).

  `validStep c c'` decides whether `c'` is `c` with exactly one of the windows the maths pass and the jump
  pass rewrite replaced by its replacement, and nothing else changed:

    * `OpTrue; OpJumpIfFalse x`            →  four NOPs
    * `OpFalse; OpJumpIfFalse x` … up to x →  NOPs from the OpFalse up to `x` (a forward jump inside the body)
    * `OpPush b; NOP*; OpPush a; NOP*; op` →  NOPs, `OpPush r` where the second push stood, NOPs
                                              (op one of + - * /, r the value the VM computes)
    * `OpPush b; NOP*; OpPush a; NOP*; ==` →  NOPs and OpTrue / OpFalse where the operator stood (same for !=)

  and whether the rest of the body cannot tell the difference: every instruction outside the window is
  unchanged, and no jump of the body (and no fall-through) lands strictly inside the window.

  The proofs (Proofs/OptSim*.lean) show that a validated step cannot be observed by any run.  The checks
  run the validator on every rewrite the optimizer model performs on every generated program.
-/
import EvalFilter.Model.WF
import EvalFilter.Model.Optimizer

namespace EvalFilter.OptCheck
open EvalFilter

abbrev IL := List (Nat × Instr)

def offs (I : IL) : List Nat := I.map (·.1)

/-- `x` is a place where both programs may stand: an instruction start (or the end) outside the
    interior of the window `[lo, hi)` -/
def safeB (I : IL) (len lo hi x : Nat) : Bool :=
  (x == len || (offs I).contains x) && !(lo < x && x < hi)

/-- every instruction of `I` outside the window is in `I'` too, what follows it is a safe place, and
    so is the target of every jump -/
def outsideB (I I' : IL) (len lo hi : Nat) : Bool :=
  I.all fun p =>
    (lo ≤ p.1 && p.1 < hi) ||
    (I'.contains p &&
     (p.2.op == .return || p.2.op == .jump || safeB I len lo hi (p.1 + p.2.size)) &&
     ((p.2.op != .jump && p.2.op != .jumpIfFalse) || (p.2.arg < len && safeB I len lo hi p.2.arg)))

def nopAt (I : IL) (o : Nat) : Bool := I.contains (o, ⟨.nop, 0⟩)

/-- NOPs at every offset of `[a, b)` -/
def nopsB (I : IL) (a b : Nat) : Bool := (List.range' a (b - a)).all (nopAt I)

/-- offset of the first instruction of `I` that `I'` does not have in the same place -/
def firstDiff : IL → IL → Option Nat
  | p :: r, p' :: r' => if p = p' then firstDiff r r' else some p.1
  | p :: _, [] => some p.1
  | [], _ => none

def instrAt (I : IL) (o : Nat) : Option Instr := (I.find? (fun p => p.1 == o)).map (·.2)

/-- the first instruction at or after offset `x` that is not a NOP -/
def nextReal (I : IL) (x : Nat) : Option (Nat × Instr) := I.find? (fun p => x ≤ p.1 && p.2.op != .nop)

/-- the value the maths pass writes for `b <op> a` (a on top of the stack), where it folds at all -/
def foldResult (o : Op) (a b : Nat) : Option Nat :=
  match o with
  | .add => some (a + b)
  | .mul => some (a * b)
  | .sub => if a ≤ b then some (b - a) else none
  | .div => if a = 0 then none else some (b / a)
  | _ => none

inductive Window
  | trueJif (lo : Nat)
  | falseJif (lo x : Nat)
  | arith (boff aoff ip b a r : Nat) (o : Op)
  | cmp (boff aoff ip b a : Nat) (t : Bool)
  /-- the square-root fold (never validated: it changes the type of the result, known finding KF-12) -/
  | sqrt (lo : Nat)
  deriving Repr

def Window.lo : Window → Nat
  | .trueJif lo => lo
  | .falseJif lo _ => lo
  | .arith boff .. => boff
  | .cmp boff .. => boff
  | .sqrt lo => lo

def Window.hi : Window → Nat
  | .trueJif lo => lo + 4
  | .falseJif _ x => x
  | .arith _ _ ip .. => ip + 1
  | .cmp _ _ ip .. => ip + 1
  | .sqrt lo => lo + 4

def findWindow (I I' : IL) : Option Window :=
  match firstDiff I I' with
  | none => none
  | some lo =>
    match instrAt I lo with
    | some ⟨.true, _⟩ => some (.trueJif lo)
    | some ⟨.squareRoot, _⟩ => some (.sqrt lo)   -- √0, √1: only the operator changes
    | some ⟨.false, _⟩ =>
      (match instrAt I (lo + 1) with
       | some ⟨.jumpIfFalse, x⟩ => some (.falseJif lo x)
       | _ => none)
    | some ⟨.push, b⟩ =>
      (match nextReal I (lo + 3) with
       | some (_, ⟨.squareRoot, _⟩) => some (.sqrt lo)
       | some (aoff, ⟨.push, a⟩) =>
         (match nextReal I (aoff + 3) with
          | some (ip, ⟨o, _⟩) =>
            if o == .equal then some (.cmp lo aoff ip b a (a == b))
            else if o == .notEqual then some (.cmp lo aoff ip b a (a != b))
            else (match foldResult o a b with
                  | some r => some (.arith lo aoff ip b a r o)
                  | none => none)
          | none => none)
       | _ => none)
    | _ => none

/-- the window has the shape it claims, in both programs -/
def windowOk (I I' : IL) (len : Nat) : Window → Bool
  | .trueJif lo =>
      I.contains (lo, ⟨.true, 0⟩) && (I.any fun p => p.1 == lo + 1 && p.2.op == .jumpIfFalse) &&
      nopsB I' lo (lo + 4)
  | .falseJif lo x =>
      I.contains (lo, ⟨.false, 0⟩) && I.contains (lo + 1, ⟨.jumpIfFalse, x⟩) &&
      lo + 4 ≤ x && x < len && nopsB I' lo x
  | .arith boff aoff ip b a r o =>
      I.contains (boff, ⟨.push, b⟩) && nopsB I (boff + 3) aoff && I.contains (aoff, ⟨.push, a⟩) &&
      nopsB I (aoff + 3) ip && I.contains (ip, ⟨o, 0⟩) &&
      boff + 3 ≤ aoff && aoff + 3 ≤ ip && foldResult o a b == some r && r < 65536 && a < 65536 && b < 65536 &&
      nopsB I' boff aoff && I'.contains (aoff, ⟨.push, r⟩) && nopsB I' (aoff + 3) (ip + 1)
  | .cmp boff aoff ip b a t =>
      I.contains (boff, ⟨.push, b⟩) && nopsB I (boff + 3) aoff && I.contains (aoff, ⟨.push, a⟩) &&
      nopsB I (aoff + 3) ip &&
      ((I.contains (ip, ⟨.equal, 0⟩) && t == (a == b)) || (I.contains (ip, ⟨.notEqual, 0⟩) && t == (a != b))) &&
      boff + 3 ≤ aoff && aoff + 3 ≤ ip && a < 65536 && b < 65536 &&
      nopsB I' boff ip && I'.contains (ip, ⟨if t then .true else .false, 0⟩)
  | .sqrt _ => false

/-- a body that decodes, whose fall-throughs and jumps all land on instruction starts -/
def wfB (c : Bytes) : Bool :=
  match WF.decode 0 c with
  | none => false
  | some I => outsideB I I c.length c.length c.length && safeB I c.length c.length c.length 0

/-- **one validated rewrite** of a body -/
def validStep (c c' : Bytes) : Bool :=
  match WF.decode 0 c, WF.decode 0 c' with
  | some I, some I' =>
    c'.length == c.length &&
    (match findWindow I I' with
     | none => false
     | some w =>
       windowOk I I' c.length w && outsideB I I' c.length w.lo w.hi &&
       safeB I c.length w.lo w.hi 0 && safeB I c.length w.lo w.hi w.hi && w.lo < w.hi)
  | _, _ => false

/-! ### the two passes that shorten the program -/

/-- `removeDeadCode`: `c'` is the beginning of `c`, up to the first OpReturn, and there is no jump in it -/
def validDead (c c' : Bytes) : Bool :=
  match WF.decode 0 c, WF.decode 0 c' with
  | some I, some I' =>
    (offs I').contains 0 &&
    I'.all fun p =>
      I.contains p && p.2.op != .jump && p.2.op != .jumpIfFalse &&
      (p.2.op == .return || (offs I').contains (p.1 + p.2.size))
  | _, _ => false

/-- new offset of every instruction start of the program (and of its end), when the NOPs are dropped -/
def stripMap (I : IL) (len : Nat) : List (Nat × Nat) :=
  let rec go : IL → Nat → List (Nat × Nat)
    | [], n => [(len, n)]
    | (o, i) :: r, n => (o, n) :: go r (if i.op == .nop then n else n + i.size)
  go I 0

def remap (rw : List (Nat × Nat)) (i : Instr) : Instr :=
  if i.op == .jump || i.op == .jumpIfFalse then ⟨i.op, (rw.lookup i.arg).getD 0⟩ else i

/-- `removeNOPs`: `c'` is `c` without its NOPs, jump operands moved along - checked instruction by
    instruction against the offset map -/
def validStrip (c c' : Bytes) : Bool :=
  match WF.decode 0 c, WF.decode 0 c' with
  | some I, some I' =>
    let rw := stripMap I c.length
    rw.lookup 0 == some 0 && rw.lookup c.length == some c'.length && c'.isEmpty == c.isEmpty &&
    (c.length == 0 || (offs I).contains 0) &&
    I.all fun p =>
      match rw.lookup p.1 with
      | none => false
      | some n =>
        if p.2.op == .nop then rw.lookup (p.1 + 1) == some n
        else
          I'.contains (n, remap rw p.2) &&
          (p.2.op == .return || p.2.op == .jump || rw.lookup (p.1 + p.2.size) == some (n + p.2.size)) &&
          ((p.2.op != .jump && p.2.op != .jumpIfFalse) ||
            (p.2.arg < c.length && (offs I).contains p.2.arg &&
              (match rw.lookup p.2.arg with | some m => m < c'.length | none => false)))
  | _, _ => false

/-- one validated step of any of the four passes -/
def okStep (c c' : Bytes) : Bool := validStep c c' || validStrip c c' || validDead c c'

/-! ### the optimizer's two rewriting passes, with every step validated -/

/-- the stages `mathsLoop` goes through after `bs`, in order; `none` when a step does not validate -/
def mathsTrace (fuel : Nat) (bs : Bytes) : Option (List Bytes) :=
  match fuel with
  | 0 => some []
  | fuel + 1 =>
    match Optimizer.mathsWalk (bs.length + 1) bs 0 [] with
    | .unchanged => some []
    | .error => some []
    | .changed bs' => if validStep bs bs' then (mathsTrace fuel bs').map (bs' :: ·) else none

def jumpsTrace (fuel : Nat) (bs : Bytes) : Option (List Bytes) :=
  match fuel with
  | 0 => some []
  | fuel + 1 =>
    match Optimizer.jumpsWalk (bs.length + 1) bs 0 Op.nop.toNat with
    | none => some []
    | some bs' => if validStep bs bs' then (jumpsTrace fuel bs').map (bs' :: ·) else none

def lastOf (b : Bytes) (L : List Bytes) : Bytes := (b :: L).getLast (List.cons_ne_nil _ _)

/-- every stage of the rewriting passes of `optimize` (maths, then jumps) after `bs`, each step validated,
    first and last stage well-formed; `none` when something is refused -/
def rewriteTrace (bs : Bytes) : Option (List Bytes) :=
  if wfB bs then
    match mathsTrace (bs.length + 1) bs with
    | none => none
    | some L1 =>
      let b1 := lastOf bs L1
      match jumpsTrace (b1.length + 1) b1 with
      | none => none
      | some L2 => if wfB (lastOf b1 L2) then some (L1 ++ L2) else none
  else none

/-- every stage of `optimize` after `bs` (the rewriting passes, then NOP removal, then dead-code removal),
    each step validated, first and last stage well-formed -/
def fullTrace (bs : Bytes) : Option (List Bytes) :=
  match rewriteTrace bs with
  | none => none
  | some L =>
    let b2 := lastOf bs L
    let b3 := Optimizer.removeNOPs b2
    let b4 := Optimizer.removeDeadCode b3
    let s3 : List Bytes := if b3 = b2 then [] else [b3]
    let s4 : List Bytes := if b4 = b3 then [] else [b4]
    if (b3 = b2 || validStrip b2 b3) && (b4 = b3 || validDead b3 b4) && wfB b4 then some (L ++ s3 ++ s4) else none

/-- why `fullTrace` refuses a body (for the reports of the checks) -/
def whyRefused (bs : Bytes) : String :=
  let kind (b b' : Bytes) : String :=
    match WF.decode 0 b, WF.decode 0 b' with
    | some I, some I' =>
      (match findWindow I I' with
       | some (.sqrt _) => "sqrt-fold"
       | some (.trueJif lo) => s!"true-jif@{lo}"
       | some (.falseJif lo _) => s!"false-jif@{lo}"
       | some (.arith lo ..) => s!"arith@{lo}"
       | some (.cmp lo ..) => s!"cmp@{lo}"
       | none => "no-window")
    | _, _ => "decode"
  let rec maths (fuel : Nat) (b : Bytes) : Option String × Bytes :=
    match fuel with
    | 0 => (none, b)
    | fuel + 1 =>
      match Optimizer.mathsWalk (b.length + 1) b 0 [] with
      | .changed b' => if validStep b b' then maths fuel b' else (some ("maths:" ++ kind b b'), b)
      | _ => (none, b)
  let rec jumps (fuel : Nat) (b : Bytes) : Option String × Bytes :=
    match fuel with
    | 0 => (none, b)
    | fuel + 1 =>
      match Optimizer.jumpsWalk (b.length + 1) b 0 Op.nop.toNat with
      | some b' => if validStep b b' then jumps fuel b' else (some ("jumps:" ++ kind b b'), b)
      | none => (none, b)
  if !wfB bs then "raw-not-well-formed" else
  match maths (bs.length + 1) bs with
  | (some w, _) => w
  | (none, b1) =>
    match jumps (b1.length + 1) b1 with
    | (some w, _) => w
    | (none, b2) =>
      if !wfB b2 then "rewritten-not-well-formed" else
      let b3 := Optimizer.removeNOPs b2
      if !(b3 = b2 || validStrip b2 b3) then "remove-nops" else
      let b4 := Optimizer.removeDeadCode b3
      if !(b4 = b3 || validDead b3 b4) then "remove-dead-code" else
      if !wfB b4 then "optimised-not-well-formed" else "?"

/-- the stage a body is in after `t` steps of the trace `L` (it stays in the last one) -/
def stageAt : List Bytes → Bytes → Nat → Bytes
  | _, cur, 0 => cur
  | [], cur, _ + 1 => cur
  | x :: r, _, t + 1 => stageAt r x t

end EvalFilter.OptCheck
