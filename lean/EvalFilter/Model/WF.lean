/-
  A byte-code verifier for the programs the VM runs (property C18).

  `checkBody` decides, for one body (main program or function), whether
    * the bytes decode completely into known instructions with complete operands,
    * every jump lands on the start of an instruction of the same body,
    * every constant reference names an existing constant, of string kind where the
      instruction uses it as a name (OpLookup, OpInc, OpDec),
    * (function bodies) no path runs off the end: the body ends in a return on every path,
    * a stack-depth certificate exists: a lower bound `cert off` for the number of values on
      the stack whenever the instruction at `off` is about to run, consistent along every
      edge of the control-flow graph, and large enough for what each instruction pops -
      assuming a call pushes one value (the property's "given that called functions
      return a value").

  The certificate is first inferred by one forward pass (`infer`, untrusted) and then
  validated edge by edge (`certOk`); only the validation is used in the proofs.
-/
import EvalFilter.Model.Code

namespace EvalFilter.WF
open EvalFilter

/-- decode a whole body: `(offset, instruction)` in order, or `none` if a byte is not an opcode or
    an operand is cut short -/
def decode (off : Nat) (bs : Bytes) : Option (List (Nat × Instr)) :=
  match bs with
  | [] => some []
  | b :: rest =>
    match Op.ofNat? b.toNat with
    | none => none
    | some op =>
      if op.length == 3 then
        match rest with
        | hi :: lo :: rest' => (decode (off + 3) rest').map (fun l => (off, ⟨op, decode16 hi lo⟩) :: l)
        | _ => none
      else (decode (off + 1) rest).map (fun l => (off, ⟨op, 0⟩) :: l)
termination_by bs.length
decreasing_by all_goals simp_all <;> omega

/-- what an instruction takes from and leaves on the stack (a call is assumed to leave one value;
    OpIterationNext leaves the iterator and a boolean - when the boolean is false the iterator is gone
    too, which `succs` accounts for on the edge of the conditional jump that follows) -/
def pops (i : Instr) : Nat :=
  match i.op with
  | .add | .sub | .mul | .div | .mod | .power | .less | .lessEqual | .greater | .greaterEqual
  | .equal | .notEqual | .matches | .notMatches | .and | .or | .arrayIn => 2
  | .case | .index | .range | .set => 2
  | .local | .bang | .minus | .squareRoot | .return | .jumpIfFalse | .iterationReset => 1
  | .inc | .dec => 1
  | .array => i.arg
  | .hash => 2 * ((i.arg + 1) / 2)
  | .call => i.arg + 1
  | .iterationNext => 3
  | _ => 0

def pushes (i : Instr) : Nat :=
  match i.op with
  | .add | .sub | .mul | .div | .mod | .power | .less | .lessEqual | .greater | .greaterEqual
  | .equal | .notEqual | .matches | .notMatches | .and | .or | .arrayIn => 1
  | .case | .index | .range => 1
  | .bang | .minus | .squareRoot | .iterationReset => 1
  | .push | .constant | .lookup | .true | .false | .void => 1
  | .array | .hash | .call => 1
  | .iterationNext => 2
  | _ => 0

/-- successors of the instruction at `off` (next instruction at `next`) with the stack depth they are
    entered with, `d` being the depth after the instruction's own pops and pushes -/
def succs (i : Instr) (next : Nat) (afterIterNext : Bool) (d : Nat) : List (Nat × Nat) :=
  match i.op with
  | .return => []
  | .jump => [(i.arg, d)]
  | .jumpIfFalse => [(next, d), (i.arg, if afterIterNext then d - 1 else d)]
  | _ => [(next, d)]

abbrev Cert := List (Nat × Nat)

def Cert.get (c : Cert) (off : Nat) : Option Nat := (c.find? (fun p => p.1 == off)).map (·.2)

/-- lower the recorded depth of `off` to `d` (or record it) -/
def Cert.lower (c : Cert) (off d : Nat) : Cert :=
  match c with
  | [] => [(off, d)]
  | (o, x) :: rest => if o == off then (o, min x d) :: rest else (o, x) :: Cert.lower rest off d

inductive Bad
  | decode | jumpTarget (off : Nat) | constIndex (off : Nat) | constKind (off : Nat)
  | underflow (off : Nat) | fallsOff (off : Nat) | edge (off target : Nat) | iterShape (off : Nat)
  deriving Repr, DecidableEq

def Bad.show : Bad → String
  | .decode => "decode"
  | .jumpTarget o => s!"jumpTarget@{o}"
  | .constIndex o => s!"constIndex@{o}"
  | .constKind o => s!"constKind@{o}"
  | .underflow o => s!"underflow@{o}"
  | .fallsOff o => s!"fallsOff@{o}"
  | .edge o t => s!"edge@{o}->{t}"
  | .iterShape o => s!"iterShape@{o}"

/-- the forward pass that proposes a certificate: `cur` is the depth on the fall-through edge into the
    next instruction (none: not reachable that way), `pend` the depths recorded for jump targets -/
def infer (instrs : List (Nat × Instr)) (prevIter : Bool) (cur : Option Nat) (pend : Cert) (acc : Cert) : Cert :=
  match instrs with
  | [] => acc
  | (off, i) :: rest =>
    let din : Option Nat :=
      match cur, pend.get off with
      | some a, some b => some (min a b)
      | some a, none => some a
      | none, b => b
    match din with
    | none => infer rest false none pend acc
    | some d =>
      let acc := acc ++ [(off, d)]
      let dout := d - pops i + pushes i
      let next := off + i.size
      let ss := succs i next prevIter dout
      let pend := ss.foldl (fun p (t, x) => if t == next then p else p.lower t x) pend
      let cur := (ss.find? (fun p => p.1 == next)).map (·.2)
      infer rest (i.op == .iterationNext) cur pend acc

structure Body where
  code : Bytes
  isFunction : Bool

/-- static conditions on one instruction that do not involve the stack -/
def instrStatic (constIsStr : List Bool) (starts : List Nat) (codeLen : Nat) (isFunction : Bool)
    (off : Nat) (i : Instr) : Option Bad :=
  let next := off + i.size
  if (i.op == .jump || i.op == .jumpIfFalse) && !starts.contains i.arg then some (.jumpTarget off)
  else if (i.op == .constant || i.op == .lookup || i.op == .inc || i.op == .dec) && i.arg ≥ constIsStr.length then
    some (.constIndex off)
  else if (i.op == .lookup || i.op == .inc || i.op == .dec) && constIsStr.getD i.arg false == false then
    some (.constKind off)
  else if isFunction && next ≥ codeLen && !(i.op == .return || i.op == .jump) then some (.fallsOff off)
  else none

/-- validation of the certificate at one instruction -/
def instrCert (cert : Cert) (codeLen : Nat) (prevIter : Bool) (off : Nat) (i : Instr) : Option Bad :=
  match cert.get off with
  | none => none          -- not reachable
  | some d =>
    if d < pops i then some (.underflow off)
    else
      let dout := d - pops i + pushes i
      let bad := (succs i (off + i.size) prevIter dout).find? (fun (t, x) =>
        if t ≥ codeLen then false   -- running off the end of the body (static check covers functions)
        else match cert.get t with
          | none => true
          | some c => c > x)
      match bad with
      | some (t, _) => some (.edge off t)
      | none => none

def followedByCondJump : List (Nat × Instr) → Bool
  | (_, j) :: _ => j.op == .jumpIfFalse
  | [] => false

def checkInstrs (constIsStr : List Bool) (starts : List Nat) (codeLen : Nat) (isFunction : Bool) (cert : Cert)
    (instrs : List (Nat × Instr)) (prevIter : Bool) : Option Bad :=
  match instrs with
  | [] => none
  | (off, i) :: rest =>
    match instrStatic constIsStr starts codeLen isFunction off i with
    | some b => some b
    | none =>
      match instrCert cert codeLen prevIter off i with
      | some b => some b
      | none =>
        -- an OpIterationNext must be followed by the conditional jump that consumes its boolean
        if i.op == .iterationNext && !followedByCondJump rest then
          some (.iterShape off)
        else checkInstrs constIsStr starts codeLen isFunction cert rest (i.op == .iterationNext)

/-- the verifier for one body -/
def checkBody (constIsStr : List Bool) (b : Body) : Option Bad :=
  match decode 0 b.code with
  | none => some .decode
  | some instrs =>
    let starts := instrs.map (·.1)
    let cert := infer instrs false (some 0) [] []
    if b.code.isEmpty then none
    else if cert.get 0 != some 0 then some (.edge 0 0)
    else checkInstrs constIsStr starts b.code.length b.isFunction cert instrs false

/-- the verifier for a whole program: main body and every function body -/
def check (constIsStr : List Bool) (main : Bytes) (funcs : List Bytes) : Option (Nat × Bad) :=
  match checkBody constIsStr ⟨main, false⟩ with
  | some b => some (0, b)
  | none =>
    let rec go (k : Nat) (fs : List Bytes) : Option (Nat × Bad) :=
      match fs with
      | [] => none
      | f :: rest =>
        match checkBody constIsStr ⟨f, true⟩ with
        | some b => some (k, b)
        | none => go (k + 1) rest
    go 1 funcs

end EvalFilter.WF
