/-
  Model of code/code.go: the opcodes, their numbering and instruction lengths.
  (Hand-written SPEC-side table; `Props/Tables.lean` checks it equal to the table
  regenerated from the Go source on every run.)
-/
import EvalFilter.Model.Basic

namespace EvalFilter

inductive Op
  | constant
  | jump
  | jumpIfFalse
  | call
  | lookup
  | push
  | array
  | hash
  | nop
  | placeholder
  | set
  | local
  | true
  | false
  | void
  | case
  | add
  | sub
  | mul
  | div
  | mod
  | power
  | inc
  | dec
  | return
  | minus
  | bang
  | squareRoot
  | less
  | lessEqual
  | greater
  | greaterEqual
  | equal
  | notEqual
  | matches
  | notMatches
  | and
  | or
  | index
  | arrayIn
  | iterationReset
  | iterationNext
  | range
  deriving DecidableEq, Repr, Inhabited

namespace Op

/-- the `iota` numbering -/
def toNat : Op → Nat
  | .constant => 0
  | .jump => 1
  | .jumpIfFalse => 2
  | .call => 3
  | .lookup => 4
  | .push => 5
  | .array => 6
  | .hash => 7
  | .nop => 8
  | .placeholder => 9
  | .set => 10
  | .local => 11
  | .true => 12
  | .false => 13
  | .void => 14
  | .case => 15
  | .add => 16
  | .sub => 17
  | .mul => 18
  | .div => 19
  | .mod => 20
  | .power => 21
  | .inc => 22
  | .dec => 23
  | .return => 24
  | .minus => 25
  | .bang => 26
  | .squareRoot => 27
  | .less => 28
  | .lessEqual => 29
  | .greater => 30
  | .greaterEqual => 31
  | .equal => 32
  | .notEqual => 33
  | .matches => 34
  | .notMatches => 35
  | .and => 36
  | .or => 37
  | .index => 38
  | .arrayIn => 39
  | .iterationReset => 40
  | .iterationNext => 41
  | .range => 42

def ofNat? : Nat → Option Op
  | 0 => some .constant
  | 1 => some .jump
  | 2 => some .jumpIfFalse
  | 3 => some .call
  | 4 => some .lookup
  | 5 => some .push
  | 6 => some .array
  | 7 => some .hash
  | 8 => some .nop
  | 9 => some .placeholder
  | 10 => some .set
  | 11 => some .local
  | 12 => some .true
  | 13 => some .false
  | 14 => some .void
  | 15 => some .case
  | 16 => some .add
  | 17 => some .sub
  | 18 => some .mul
  | 19 => some .div
  | 20 => some .mod
  | 21 => some .power
  | 22 => some .inc
  | 23 => some .dec
  | 24 => some .return
  | 25 => some .minus
  | 26 => some .bang
  | 27 => some .squareRoot
  | 28 => some .less
  | 29 => some .lessEqual
  | 30 => some .greater
  | 31 => some .greaterEqual
  | 32 => some .equal
  | 33 => some .notEqual
  | 34 => some .matches
  | 35 => some .notMatches
  | 36 => some .and
  | 37 => some .or
  | 38 => some .index
  | 39 => some .arrayIn
  | 40 => some .iterationReset
  | 41 => some .iterationNext
  | 42 => some .range
  | _ => none

/-- the Go constant's name -/
def name : Op → String
  | .constant => "OpConstant"
  | .jump => "OpJump"
  | .jumpIfFalse => "OpJumpIfFalse"
  | .call => "OpCall"
  | .lookup => "OpLookup"
  | .push => "OpPush"
  | .array => "OpArray"
  | .hash => "OpHash"
  | .nop => "OpNop"
  | .placeholder => "OpPlaceholder"
  | .set => "OpSet"
  | .local => "OpLocal"
  | .true => "OpTrue"
  | .false => "OpFalse"
  | .void => "OpVoid"
  | .case => "OpCase"
  | .add => "OpAdd"
  | .sub => "OpSub"
  | .mul => "OpMul"
  | .div => "OpDiv"
  | .mod => "OpMod"
  | .power => "OpPower"
  | .inc => "OpInc"
  | .dec => "OpDec"
  | .return => "OpReturn"
  | .minus => "OpMinus"
  | .bang => "OpBang"
  | .squareRoot => "OpSquareRoot"
  | .less => "OpLess"
  | .lessEqual => "OpLessEqual"
  | .greater => "OpGreater"
  | .greaterEqual => "OpGreaterEqual"
  | .equal => "OpEqual"
  | .notEqual => "OpNotEqual"
  | .matches => "OpMatches"
  | .notMatches => "OpNotMatches"
  | .and => "OpAnd"
  | .or => "OpOr"
  | .index => "OpIndex"
  | .arrayIn => "OpArrayIn"
  | .iterationReset => "OpIterationReset"
  | .iterationNext => "OpIterationNext"
  | .range => "OpRange"

def all : List Op := [.constant, .jump, .jumpIfFalse, .call, .lookup, .push, .array, .hash, .nop, .placeholder, .set, .local, .true, .false, .void, .case, .add, .sub, .mul, .div, .mod, .power, .inc, .dec, .return, .minus, .bang, .squareRoot, .less, .lessEqual, .greater, .greaterEqual, .equal, .notEqual, .matches, .notMatches, .and, .or, .index, .arrayIn, .iterationReset, .iterationNext, .range]

/-- `code.Length` -/
def length : Op → Nat
  | .array | .hash | .call | .constant | .dec | .jump | .jumpIfFalse | .inc | .lookup | .push => 3
  | _ => 1

def hasOperand (o : Op) : Bool := o.length == 3

end Op

/-- `code.Length(Opcode(b))` for an arbitrary byte: unknown opcodes have length 1 -/
def byteLength (b : Nat) : Nat := match Op.ofNat? b with | some o => o.length | none => 1

abbrev Bytes := List UInt8

/-- big-endian 16-bit operand, truncated like `uint16(x)` -/
def encode16 (n : Nat) : Bytes := [UInt8.ofNat ((n % 65536) / 256), UInt8.ofNat (n % 256)]

def decode16 (hi lo : UInt8) : Nat := hi.toNat * 256 + lo.toNat

/-- a decoded instruction: opcode and operand (0 when it has none) -/
structure Instr where
  op : Op
  arg : Nat := 0
  deriving DecidableEq, Repr, Inhabited

namespace Instr
def size (i : Instr) : Nat := i.op.length
/-- `emit` -/
def encode (i : Instr) : Bytes :=
  if i.op.hasOperand then UInt8.ofNat i.op.toNat :: encode16 i.arg else [UInt8.ofNat i.op.toNat]
end Instr

def codeSize : List Instr → Nat
  | [] => 0
  | i :: is => i.size + codeSize is

def encodeAll : List Instr → Bytes
  | [] => []
  | i :: is => i.encode ++ encodeAll is

end EvalFilter
