/-
  Model of lexer/lexer.go.

  The Go lexer keeps `position`, `readPosition`, `ch` over a rune slice.  Here
  the state is the list of runes from the current one on: `rest.head?` is
  `l.ch` (and `rest = []` means `l.ch = 0` because the input is exhausted),
  `readChar` is `List.tail`.  `prev` is `l.prevToken.Type`, which decides
  whether `/` divides or opens a regexp.
-/
import EvalFilter.Model.Token
import EvalFilter.Model.Unicode

namespace EvalFilter.Lexer
open EvalFilter

def nul : Char := Char.ofNat 0

/-- `isWhitespace` -/
def isWhitespace (c : Char) : Bool := c == ' ' || c == '\t' || c == '\n' || c == '\r'

/-- `isDigit` (ASCII only, unlike `unicode.IsDigit`) -/
def isDigit (c : Char) : Bool := '0' ≤ c && c ≤ '9'

/-- `isIdentifier` -/
def isIdentifier (c : Char) : Bool :=
  Unicode.isLetter c || Unicode.isDigit c || c == '$' || c == '_'

/-- `skipWhitespace` -/
def skipWs : List Char → List Char
  | [] => []
  | c :: cs => if isWhitespace c then skipWs cs else c :: cs

/-- the loop of `skipComment`: advance to the next newline, NUL or end of input -/
def skipLine : List Char → List Char
  | [] => []
  | c :: cs => if c == '\n' || c == nul then c :: cs else skipLine cs

/-- `readNumber` / `readIdentifier`: the longest prefix satisfying `p`, and what follows -/
def spanChars (p : Char → Bool) : List Char → Str × List Char
  | [] => ([], [])
  | c :: cs => if p c then let (a, r) := spanChars p cs; (c :: a, r) else ([], c :: cs)

/-- the escape table of `readString` -/
def unescape (c : Char) : Char :=
  if c == 'n' then '\n' else if c == 'r' then '\r' else if c == 't' then '\t' else c

/-- `readString`, started on the runes that follow the opening quote.  Returns the
    contents (or `none` for "unterminated string") and the state in which `l.ch`
    is the closing quote (resp. the NUL / end of input that ended the scan). -/
def readString (delim : Char) : List Char → Str → Option Str × List Char
  | [], _ => (none, [])
  | c :: cs, acc =>
    if c == nul then (none, c :: cs)
    else if c == delim then (some acc, c :: cs)
    else if c == '\\' then
      match cs with
      | [] => (none, [])
      | d :: cs' =>
        if d == '\n' then readString delim cs' acc
        else if d == nul then (none, d :: cs')
        else readString delim cs' (acc ++ [unescape d])
    else readString delim cs (acc ++ [c])

/-- keep the first occurrence of every flag letter -/
def dedupFlags : List Char → List Char → List Char
  | [], acc => acc
  | c :: cs, acc => if acc.contains c then dedupFlags cs acc else dedupFlags cs (acc ++ [c])

inductive RegexpErr | unterminated | badFlag
  deriving DecidableEq, Repr

/-- `readRegexp`, started on the runes that follow the opening slash.  On success the
    state is positioned on the first rune after the flags. -/
def readRegexp : List Char → Str → Except RegexpErr Str × List Char
  | [], _ => (.error .unterminated, [])
  | c :: cs, acc =>
    if c == nul then (.error .unterminated, c :: cs)
    else if c == '/' then
      let (letters, rest) := spanChars Unicode.isLetter cs
      let flags := dedupFlags letters []
      if flags.all (fun f => f == 'i' || f == 'm') then
        (.ok (if flags.isEmpty then acc else ['(', '?'] ++ flags ++ [')'] ++ acc), rest)
      else (.error .badFlag, rest)
    else if c == '\\' then
      match cs with
      | [] => (.error .unterminated, [])
      | d :: cs' => readRegexp cs' (acc ++ [d])
    else readRegexp cs (acc ++ [c])

/-- token types after which `/` is division (lexer.go, the `||` chain on `prevToken.Type`) -/
def slashDivAfter : List TokType := [.RPAREN, .IDENT, .RSQUARE, .FLOAT, .INT]

structure LexSt where
  rest : List Char
  prev : TokType
  deriving Repr

def tok (ty : TokType) (s : String) : Token := ⟨ty, s.toList⟩

abbrev LexOut := Token × List Char × TokType

/-- a two-rune operator if the next rune is `second`, otherwise the one-rune token `otherwise` -/
def two (cs : List Char) (second : Char) (ty2 : TokType) (lit2 : String) (otherwise : Token) : LexOut :=
  match cs with
  | d :: cs' => if d == second then (tok ty2 lit2, cs', ty2) else (otherwise, cs, otherwise.ty)
  | [] => (otherwise, cs, otherwise.ty)

def one (c : Char) (cs : List Char) (ty : TokType) : LexOut := (⟨ty, [c]⟩, cs, ty)

/-- the `default:` arm of NextToken's switch: numbers, identifiers/keywords, illegal characters -/
def lexWord (prev : TokType) (c : Char) (cs : List Char) : LexOut :=
  if isDigit c then
    let (intPart, r1) := spanChars isDigit (c :: cs)
    match r1 with
    | '.' :: d :: r2 =>
      if isDigit d then
        let (frac, r3) := spanChars isDigit (d :: r2)
        (⟨.FLOAT, intPart ++ ['.'] ++ frac⟩, r3, .FLOAT)
      else (⟨.INT, intPart⟩, r1, .INT)
    | _ => (⟨.INT, intPart⟩, r1, .INT)
  else
    let (ident, r) := spanChars isIdentifier (c :: cs)
    if ident.isEmpty then (⟨.ILLEGAL, []⟩, cs, prev)
    else
      let ty := lookupIdentifier ident
      (⟨ty, ident⟩, r, ty)

/-- strings, the NUL rune, `? : < > ~ !` -/
def lexC (prev : TokType) (c : Char) (cs : List Char) : LexOut :=
  if c == '?' then one c cs .QUESTION
  else if c == ':' then one c cs .COLON
  else if c == '<' then two cs '=' .LTEQUALS "<=" ⟨.LT, [c]⟩
  else if c == '>' then two cs '=' .GTEQUALS ">=" ⟨.GT, [c]⟩
  else if c == '~' then two cs '=' .CONTAINS "~=" ⟨.NONE, []⟩
  else if c == '!' then
    match cs with
    | '=' :: cs' => (tok .NOTEQ "!=", cs', .NOTEQ)
    | '~' :: cs' => (tok .MISSING "!~", cs', .MISSING)
    | _ => one c cs .BANG
  else if c == '"' || c == '\'' then
    match readString c cs [] with
    | (some s, rest) => (⟨.STRING, s⟩, rest.tail, .STRING)
    | (none, rest) => (⟨.ILLEGAL, []⟩, rest.tail, .ILLEGAL)
  else if c == nul then
    -- a NUL inside the input (the end of input is handled by `nextToken`)
    (⟨.ILLEGAL, []⟩, cs, prev)
  else lexWord prev c cs

/-- `% √ { } [ ] - / *` -/
def lexB (prev : TokType) (c : Char) (cs : List Char) : LexOut :=
  if c == '%' then one c cs .MOD
  else if c == '√' then one c cs .SQRT
  else if c == '{' then one c cs .LBRACE
  else if c == '}' then one c cs .RBRACE
  else if c == '[' then one c cs .LSQUARE
  else if c == ']' then one c cs .RSQUARE
  else if c == '-' then
    match cs with
    | '-' :: cs' => (tok .MINUSMINUS "--", cs', .MINUSMINUS)
    | '=' :: cs' => (tok .MINUSEQUALS "-=", cs', .MINUSEQUALS)
    | _ => one c cs .MINUS
  else if c == '/' then
    if slashDivAfter.contains prev then
      two cs '=' .SLASHEQUALS "/=" ⟨.SLASH, [c]⟩
    else
      match readRegexp cs [] with
      | (.ok s, rest) => (⟨.REGEXP, s⟩, rest, prev)
      | (.error _, rest) => (⟨.ILLEGAL, []⟩, rest, prev)
  else if c == '*' then
    match cs with
    | '*' :: cs' => (tok .POW "**", cs', .POW)
    | '=' :: cs' => (tok .ASTERISKEQUALS "*=", cs', .ASTERISKEQUALS)
    | _ => one c cs .ASTERISK
  else lexC prev c cs

/-- One call of `NextToken` once whitespace and comments have been skipped:
    `c` is `l.ch`, `cs` what follows.  Returns the token, the remaining input and
    the new `prevToken.Type`.  (`& | = ; ( ) , . +` here, the rest in `lexB`, `lexC`, `lexWord`.) -/
def lexOne (prev : TokType) (c : Char) (cs : List Char) : LexOut :=
  if c == '&' then two cs '&' .AND "&&" ⟨.NONE, []⟩
  else if c == '|' then two cs '|' .OR "||" ⟨.NONE, []⟩
  else if c == '=' then two cs '=' .EQ "==" ⟨.ASSIGN, [c]⟩
  else if c == ';' then one c cs .SEMICOLON
  else if c == '(' then one c cs .LPAREN
  else if c == ')' then one c cs .RPAREN
  else if c == ',' then one c cs .COMMA
  else if c == '.' then two cs '.' .DOTDOT ".." ⟨.PERIOD, [c]⟩
  else if c == '+' then
    match cs with
    | '+' :: cs' => (tok .PLUSPLUS "++", cs', .PLUSPLUS)
    | '=' :: cs' => (tok .PLUSEQUALS "+=", cs', .PLUSEQUALS)
    | _ => one c cs .PLUS
  else lexB prev c cs

/-- skip whitespace and `//` comments (`NextToken`'s prologue, including its
    recursive call after a comment) -/
def skipBlank (fuel : Nat) (r : List Char) : List Char :=
  match fuel with
  | 0 => r
  | fuel + 1 =>
    match skipWs r with
    | '/' :: '/' :: t => skipBlank fuel (skipWs (skipLine ('/' :: '/' :: t)))
    | r' => r'

/-- `NextToken` -/
def nextToken (s : LexSt) : Token × LexSt :=
  match skipBlank (s.rest.length + 1) s.rest with
  | [] => (Token.eof, ⟨[], .EOF⟩)
  | c :: cs =>
    let (t, rest, prev) := lexOne s.prev c cs
    (t, ⟨rest, prev⟩)

/-- All tokens up to and including the EOF token at the real end of the input.
    After that the Go lexer returns EOF for ever, which the parser model
    represents by padding. The `stuck` branch is dead code: `Proofs/Lexer.lean`
    shows `nextToken` always consumes input (this is C14's termination claim). -/
def lexAll (s : LexSt) : List Token :=
  if s.rest.isEmpty then [Token.eof]
  else
    let (t, s') := nextToken s
    if h : s'.rest.length < s.rest.length then
      if t.ty == .EOF && s'.rest.isEmpty then [t] else t :: lexAll s'
    else [t, ⟨.ILLEGAL, "lexer stuck".toList⟩]
termination_by s.rest.length

/-- `lexer.New(input)` followed by reading every token -/
def lex (input : List Char) : List Token := lexAll ⟨input, .NONE⟩

end EvalFilter.Lexer
