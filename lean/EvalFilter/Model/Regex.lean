/-
  A small backtracking regular-expression engine for the subset of RE2 syntax the
  correspondence generators use: literals, `.`, classes `[a-z]` / `[^…]`,
  `\d \w \s \D \W \S` and escaped punctuation, `* + ?` (greedy), `|`, groups
  `( )` / `(?: )`, anchors `^ $`, and a leading flag group `(?i)`, `(?m)`, `(?s)`.

  Go's `regexp` package is trusted, not verified; this engine exists so that the
  executable model can answer on the same inputs.  Patterns outside the subset make
  `compile` return `unsupported` and the driver reports the case as skipped.
  Leftmost-first (Perl-like) matching, as RE2 guarantees.
-/
import EvalFilter.Model.Unicode

namespace EvalFilter.Regex

inductive Re
  | empty
  | chr (c : Char)
  | any
  | cls (neg : Bool) (ranges : List (Char × Char))
  | seq (a b : Re)
  | alt (a b : Re)
  | star (r : Re)
  | plus (r : Re)
  | opt (r : Re)
  | bol
  | eol
  deriving Repr, Inhabited

structure Flags where
  i : Bool := false
  m : Bool := false
  s : Bool := false
  deriving Repr

inductive Compiled
  | ok (fl : Flags) (re : Re)
  | invalid        -- Go's regexp.Compile would fail
  | unsupported    -- valid or not, outside the modelled subset

/-! ### parser -/

def digitCls : List (Char × Char) := [('0', '9')]
def wordCls : List (Char × Char) := [('0', '9'), ('A', 'Z'), ('a', 'z'), ('_', '_')]
def spaceCls : List (Char × Char) := [('\t', '\n'), ('\x0c', '\r'), (' ', ' ')]

def isMeta (c : Char) : Bool := "\\.+*?()|[]{}^$".toList.contains c

abbrev PR := Except Bool   -- error true = invalid, false = unsupported

def parseEscape (c : Char) : PR Re :=
  if c == 'd' then pure (.cls false digitCls)
  else if c == 'D' then pure (.cls true digitCls)
  else if c == 'w' then pure (.cls false wordCls)
  else if c == 'W' then pure (.cls true wordCls)
  else if c == 's' then pure (.cls false spaceCls)
  else if c == 'S' then pure (.cls true spaceCls)
  else if c == 'n' then pure (.chr '\n')
  else if c == 't' then pure (.chr '\t')
  else if c == 'r' then pure (.chr '\r')
  else if isMeta c || c == '/' || c == '-' || c == '"' || c == '\'' then pure (.chr c)
  else if c.isAlphanum then throw false   -- \b \A \z \pN \x.. etc: not modelled
  else throw true                         -- RE2 rejects escapes of other punctuation? keep conservative

/-- class body after `[`, returns ranges and the rest after `]` -/
def parseClassItems (fuel : Nat) (cs : List Char) (acc : List (Char × Char)) (first : Bool) :
    PR (List (Char × Char) × List Char) :=
  match fuel with
  | 0 => throw false
  | fuel + 1 =>
    match cs with
    | [] => throw true
    | ']' :: rest => if first then throw false else pure (acc, rest)
    | '[' :: _ => throw false          -- [:alpha:] etc.
    | '\\' :: c :: rest =>
      (match c with
       | 'd' => parseClassItems fuel rest (acc ++ digitCls) false
       | 'w' => parseClassItems fuel rest (acc ++ wordCls) false
       | 's' => parseClassItems fuel rest (acc ++ spaceCls) false
       | _ => if c.isAlphanum then throw false else
              match rest with
              | '-' :: d :: rest' => if d == ']' || d == '\\' then throw false else
                                     if c.toNat ≤ d.toNat then parseClassItems fuel rest' (acc ++ [(c, d)]) false else throw true
              | _ => parseClassItems fuel rest (acc ++ [(c, c)]) false)
    | c :: '-' :: d :: rest =>
      if d == ']' then parseClassItems fuel (d :: rest) (acc ++ [(c, c), ('-', '-')]) false
      else if d == '\\' || d == '[' then throw false
      else if c.toNat ≤ d.toNat then parseClassItems fuel rest (acc ++ [(c, d)]) false else throw true
    | c :: rest => parseClassItems fuel rest (acc ++ [(c, c)]) false

mutual
  /-- alternation level; stops at `)` or end -/
  def parseAlt (fuel : Nat) (cs : List Char) : PR (Re × List Char) :=
    match fuel with
    | 0 => throw false
    | fuel + 1 => do
      let (l, rest) ← parseSeq fuel cs .empty
      match rest with
      | '|' :: rest' => do
          let (r, rest'') ← parseAlt fuel rest'
          pure (.alt l r, rest'')
      | _ => pure (l, rest)

  def parseSeq (fuel : Nat) (cs : List Char) (acc : Re) : PR (Re × List Char) :=
    match fuel with
    | 0 => throw false
    | fuel + 1 =>
      match cs with
      | [] => pure (acc, [])
      | '|' :: _ => pure (acc, cs)
      | ')' :: _ => pure (acc, cs)
      | _ => do
        let (a, rest) ← parseAtom fuel cs
        let (a, rest) ← parseQuant a rest
        parseSeq fuel rest (match acc with | .empty => a | _ => .seq acc a)

  def parseAtom (fuel : Nat) (cs : List Char) : PR (Re × List Char) :=
    match fuel with
    | 0 => throw false
    | fuel + 1 =>
      match cs with
      | [] => throw true
      | '(' :: '?' :: ':' :: rest => do
          let (r, rest') ← parseAlt fuel rest
          match rest' with
          | ')' :: rest'' => pure (r, rest'')
          | _ => throw true
      | '(' :: '?' :: _ => throw false
      | '(' :: rest => do
          let (r, rest') ← parseAlt fuel rest
          match rest' with
          | ')' :: rest'' => pure (r, rest'')
          | _ => throw true
      | '[' :: '^' :: rest => do
          let (items, rest') ← parseClassItems (rest.length + 1) rest [] true
          pure (.cls true items, rest')
      | '[' :: rest => do
          let (items, rest') ← parseClassItems (rest.length + 1) rest [] true
          pure (.cls false items, rest')
      | '\\' :: c :: rest => do
          let r ← parseEscape c
          pure (r, rest)
      | '\\' :: [] => throw true
      | '.' :: rest => pure (.any, rest)
      | '^' :: rest => pure (.bol, rest)
      | '$' :: rest => pure (.eol, rest)
      | '*' :: _ => throw true
      | '+' :: _ => throw true
      | '?' :: _ => throw true
      | '{' :: _ => throw false
      | '}' :: _ => throw false
      | ']' :: _ => throw false
      | c :: rest => pure (.chr c, rest)

  def parseQuant (a : Re) (cs : List Char) : PR (Re × List Char) :=
    let bad (rest : List Char) : Bool :=
      match rest with
      | '*' :: _ => true | '+' :: _ => true | '?' :: _ => true | '{' :: _ => true | _ => false
    match cs with
    | '*' :: rest => if bad rest then throw false else pure (.star a, rest)
    | '+' :: rest => if bad rest then throw false else pure (.plus a, rest)
    | '?' :: rest => if bad rest then throw false else pure (.opt a, rest)
    | '{' :: _ => throw false
    | _ => pure (a, cs)
end

def parseFlags (cs : List Char) : Option (Flags × List Char) :=
  match cs with
  | '(' :: '?' :: rest =>
    let fl := rest.takeWhile (fun c => c == 'i' || c == 'm' || c == 's')
    match rest.drop fl.length with
    | ')' :: rest' =>
      if fl.isEmpty then none
      else some ({ i := fl.contains 'i', m := fl.contains 'm', s := fl.contains 's' }, rest')
    | _ => none
  | _ => some ({}, cs)

def compile (pat : List Char) : Compiled :=
  match parseFlags pat with
  | none => .unsupported
  | some (fl, body) =>
    match parseAlt (2 * body.length + 4) body with
    | .ok (re, []) => .ok fl re
    | .ok (_, _) => .invalid      -- unmatched `)`
    | .error true => .invalid
    | .error false => .unsupported

/-! ### matcher -/

def foldc (fl : Flags) (c : Char) : Char := if fl.i then Unicode.toLower c else c

def inCls (fl : Flags) (ranges : List (Char × Char)) (c : Char) : Bool :=
  ranges.any (fun (lo, hi) =>
    (lo.toNat ≤ c.toNat && c.toNat ≤ hi.toNat) ||
    (fl.i && ((lo.toNat ≤ (Unicode.toLower c).toNat && (Unicode.toLower c).toNat ≤ hi.toNat) ||
              (lo.toNat ≤ (Unicode.toUpper c).toNat && (Unicode.toUpper c).toNat ≤ hi.toNat))))

/-- match `re` at the current position; `prev` is the rune before it; on success the
    continuation receives the new `prev` and the remaining input -/
def mtch (fl : Flags) (fuel : Nat) (re : Re) (prev : Option Char) (inp : List Char)
    (k : Option Char → List Char → Option (List Char)) : Option (List Char) :=
  match fuel with
  | 0 => none
  | fuel + 1 =>
    match re with
    | .empty => k prev inp
    | .chr c =>
      match inp with
      | d :: rest => if foldc fl c == foldc fl d then k (some d) rest else none
      | [] => none
    | .any =>
      match inp with
      | d :: rest => if d == '\n' && !fl.s then none else k (some d) rest
      | [] => none
    | .cls neg ranges =>
      match inp with
      | d :: rest => if inCls fl ranges d != neg then k (some d) rest else none
      | [] => none
    | .seq a b => mtch fl fuel a prev inp (fun p r => mtch fl fuel b p r k)
    | .alt a b =>
      match mtch fl fuel a prev inp k with
      | some r => some r
      | none => mtch fl fuel b prev inp k
    | .opt a =>
      match mtch fl fuel a prev inp k with
      | some r => some r
      | none => k prev inp
    | .star a =>
      match mtch fl fuel a prev inp (fun p r => if r.length < inp.length then mtch fl fuel (.star a) p r k else none) with
      | some r => some r
      | none => k prev inp
    | .plus a => mtch fl fuel a prev inp (fun p r => mtch fl fuel (.star a) p r k)
    | .bol =>
      match prev with
      | none => k prev inp
      | some p => if fl.m && p == '\n' then k prev inp else none
    | .eol =>
      match inp with
      | [] => k prev inp
      | d :: _ => if fl.m && d == '\n' then k prev inp else none

def fuelFor (inp : List Char) : Nat := 50 * (inp.length + 2) + 200

/-- leftmost match starting at or after the current position: (skipped prefix, remaining after match) -/
def search (fl : Flags) (re : Re) (total : Nat) : Nat → Option Char → List Char → List Char →
    Option (List Char × List Char × List Char)
  | 0, _, _, _ => none
  | n + 1, prev, skipped, inp =>
    match mtch fl total re prev inp (fun _ r => some r) with
    | some rest => some (skipped, inp.take (inp.length - rest.length), rest)
    | none =>
      match inp with
      | [] => none
      | c :: cs => search fl re total n (some c) (skipped ++ [c]) cs

/-- `r.MatchString(s)` -/
def matchString (fl : Flags) (re : Re) (s : List Char) : Bool :=
  (search fl re (fuelFor s) (s.length + 1) none [] s).isSome

/-- `r.ReplaceAll(src, repl)` for replacement text without `$` -/
def replaceAll (fl : Flags) (re : Re) (src repl : List Char) : List Char :=
  let total := fuelFor src
  let rec go (fuel : Nat) (prev : Option Char) (inp : List Char) (out : List Char)
      (afterMatch : Bool) : List Char :=
    match fuel with
    | 0 => out ++ inp
    | fuel + 1 =>
      match search fl re total (inp.length + 1) prev [] inp with
      | none => out ++ inp
      | some (skipped, matched, rest) =>
        if matched.isEmpty then
          -- an empty match: not allowed directly after the previous match
          let out := out ++ skipped
          let out := if afterMatch && skipped.isEmpty then out else out ++ repl
          match rest with
          | [] => out
          | c :: cs => go fuel (some c) cs (out ++ [c]) false
        else
          go fuel (matched.getLast?) rest (out ++ skipped ++ repl) true
  go (src.length + 2) none src [] false

end EvalFilter.Regex
