/-
  Model of vm/optimizer.go: the four passes over the byte code, in the same order
  and with the same "restart after every change" loops.

  The passes work on raw bytes, exactly like the Go code (they overwrite bytes
  with OpNop in place and only `removeNOPs` re-encodes the program).
-/
import EvalFilter.Model.Code

namespace EvalFilter.Optimizer
open EvalFilter

def nopB : UInt8 := UInt8.ofNat Op.nop.toNat

def getB (bs : Bytes) (i : Nat) : Nat := (bs.getD i 0).toNat

/-- decode the instruction at `ip`: (opcode byte, length, operand); `none` if the operand
    bytes are missing (the Go code would panic with a slice-bounds error) -/
def decodeAt (bs : Bytes) (ip : Nat) : Option (Nat × Nat × Nat) :=
  if ip < bs.length then
    let op := getB bs ip
    let len := byteLength op
    if len > 1 then
      if ip + 3 ≤ bs.length then some (op, len, decode16 (bs.getD (ip+1) 0) (bs.getD (ip+2) 0)) else none
    else some (op, len, 0)
  else none

def setB (bs : Bytes) (i : Nat) (b : UInt8) : Bytes := bs.set i b

def setOperand (bs : Bytes) (ip : Nat) (v : Nat) : Bytes :=
  match encode16 v with
  | [hi, lo] => setB (setB bs (ip+1) hi) (ip+2) lo
  | _ => bs

def nop3 (bs : Bytes) (ip : Nat) : Bytes := setB (setB (setB bs ip nopB) (ip+1) nopB) (ip+2) nopB

/-- overwrite `[from, to)` with NOPs -/
def nopRange (bs : Bytes) (from_ to_ : Nat) : Bytes :=
  bs.mapIdx (fun i b => if from_ ≤ i && i < to_ then nopB else b)

inductive MathsResult
  | unchanged
  | changed (bs : Bytes)
  | error           -- "attempted division by zero": stops the maths optimisation altogether

/-- one walk of `optimizeMaths`; `args` are the (offset, value) of the pushes seen since the
    last instruction that was neither a push, a NOP nor a foldable operator -/
def mathsWalk (fuel : Nat) (bs : Bytes) (ip : Nat) (args : List (Nat × Nat)) : MathsResult :=
  match fuel with
  | 0 => .unchanged
  | fuel + 1 =>
    match decodeAt bs ip with
    | none => .unchanged
    | some (opb, len, arg) =>
      match Op.ofNat? opb with
      | some .push => mathsWalk fuel bs (ip + len) (args ++ [(ip, arg)])
      | some .nop => mathsWalk fuel bs (ip + len) args
      | some .squareRoot =>
        match args.getLast? with
        | some (aoff, aval) =>
          let r := aval.sqrt
          if r * r == aval && r ≤ 65534 then
            .changed (setB (setOperand bs aoff r) ip nopB)
          else mathsWalk fuel bs (ip + len) []
        | none => mathsWalk fuel bs (ip + len) []
      | some o =>
        if o == .equal || o == .notEqual then
          if args.length ≥ 2 then
            let (aoff, aval) := args.getLast!
            let (boff, bval) := args.dropLast.getLast!
            let t : Bool := if o == .equal then aval == bval else aval != bval
            .changed (setB (nop3 (nop3 bs aoff) boff) ip
                        (UInt8.ofNat (if t then Op.true.toNat else Op.false.toNat)))
          else mathsWalk fuel bs (ip + len) []
        else if o == .mul || o == .add || o == .sub || o == .div then
          if args.length ≥ 2 then
            let (aoff, aval) := args.getLast!
            let (boff, bval) := args.dropLast.getLast!
            if o == .div && aval == 0 then .error else
            let result : Int :=
              if o == .mul then (aval * bval : Nat)
              else if o == .add then (aval + bval : Nat)
              else if o == .sub then (bval : Int) - (aval : Int)
              else (bval / aval : Nat)
            if result ≥ 0 && result ≤ 65534 then
              .changed (setB (nop3 (setOperand bs aoff result.toNat) boff) ip nopB)
            else mathsWalk fuel bs (ip + len) []
          else mathsWalk fuel bs (ip + len) []
        else mathsWalk fuel bs (ip + len) []
      | none => mathsWalk fuel bs (ip + len) []

/-- the `for { changed, err := vm.optimizeMaths(); … }` loop -/
def mathsLoop (fuel : Nat) (bs : Bytes) : Bytes :=
  match fuel with
  | 0 => bs
  | fuel + 1 =>
    match mathsWalk (bs.length + 1) bs 0 [] with
    | .unchanged => bs
    | .error => bs
    | .changed bs' => mathsLoop fuel bs'

/-- one walk of `optimizeJumps`; `none` = nothing changed -/
def jumpsWalk (fuel : Nat) (bs : Bytes) (ip : Nat) (prevOp : Nat) : Option Bytes :=
  match fuel with
  | 0 => none
  | fuel + 1 =>
    match decodeAt bs ip with
    | none => none
    | some (opb, len, arg) =>
      if opb == Op.jumpIfFalse.toNat && prevOp == Op.true.toNat then
        some (nopRange bs (ip - 1) (ip + 3))
      else if opb == Op.jumpIfFalse.toNat && prevOp == Op.false.toNat then
        some (nopRange bs (ip - 1) arg)
      else jumpsWalk fuel bs (ip + len) opb

def jumpsLoop (fuel : Nat) (bs : Bytes) : Bytes :=
  match fuel with
  | 0 => bs
  | fuel + 1 =>
    match jumpsWalk (bs.length + 1) bs 0 Op.nop.toNat with
    | none => bs
    | some bs' => jumpsLoop fuel bs'

/-- first walk of `removeNOPs`: the program without NOPs and the old-offset → new-offset map -/
def stripWalk (fuel : Nat) (bs : Bytes) (ip : Nat) (tmp : Bytes) (rw : List (Nat × Nat)) :
    Bytes × List (Nat × Nat) :=
  match fuel with
  | 0 => (tmp, rw)
  | fuel + 1 =>
    match decodeAt bs ip with
    | none => (tmp, rw)
    | some (opb, len, arg) =>
      let rw := rw ++ [(ip, tmp.length)]
      if opb == Op.nop.toNat then stripWalk fuel bs (ip + len) tmp rw
      else
        let tmp := tmp ++ (if len > 1 then UInt8.ofNat opb :: encode16 arg else [UInt8.ofNat opb])
        stripWalk fuel bs (ip + len) tmp rw

/-- second walk of `removeNOPs`: retarget the jumps; `none` if some target has no image -/
def retarget (fuel : Nat) (tmp : Bytes) (ip : Nat) (rw : List (Nat × Nat)) : Option Bytes :=
  match fuel with
  | 0 => some tmp
  | fuel + 1 =>
    if ip < tmp.length then
      let opb := getB tmp ip
      let len := byteLength opb
      let arg := if len > 1 then decode16 (tmp.getD (ip+1) 0) (tmp.getD (ip+2) 0) else 0
      if opb == Op.jump.toNat || opb == Op.jumpIfFalse.toNat then
        match rw.lookup arg with
        | none => none
        | some dst => retarget fuel (setOperand tmp ip dst) (ip + len) rw
      else retarget fuel tmp (ip + len) rw
    else some tmp

/-- `removeNOPs` -/
def removeNOPs (bs : Bytes) : Bytes :=
  let (tmp, rw) := stripWalk (bs.length + 1) bs 0 [] []
  if tmp.length == bs.length then bs
  else
    match retarget (tmp.length + 1) tmp 0 rw with
    | none => bs
    | some t => t

/-- `removeDeadCode`: if a return is met before any jump, cut the program after it -/
def deadWalk (fuel : Nat) (bs : Bytes) (ip : Nat) (tmp : Bytes) : Option Bytes :=
  match fuel with
  | 0 => none
  | fuel + 1 =>
    match decodeAt bs ip with
    | none => none
    | some (opb, len, arg) =>
      if opb == Op.jumpIfFalse.toNat || opb == Op.jump.toNat then none
      else if opb == Op.return.toNat then some (tmp ++ [UInt8.ofNat opb])
      else deadWalk fuel bs (ip + len)
             (tmp ++ (if len > 1 then UInt8.ofNat opb :: encode16 arg else [UInt8.ofNat opb]))

def removeDeadCode (bs : Bytes) : Bytes :=
  match deadWalk (bs.length + 1) bs 0 [] with
  | none => bs
  | some t => t

/-- `optimizeBytecode` -/
def optimize (bs : Bytes) : Bytes :=
  let bs := mathsLoop (bs.length + 1) bs
  let bs := jumpsLoop (bs.length + 1) bs
  let bs := removeNOPs bs
  removeDeadCode bs

end EvalFilter.Optimizer
