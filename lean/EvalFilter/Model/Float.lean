/-
  Exact decimal <-> binary64 conversions, written over `Nat` so that they do not
  depend on the C library:

  * `parseDecimal`  = `strconv.ParseFloat(s, 64)` for the spellings the language
    and the `float()` built-in produce (`digits[.digits][e[+-]digits]`),
    correctly rounded (nearest, ties to even), `none` on overflow;
  * `formatFloat`   = `strconv.FormatFloat(f, 'f', -1, 64)`, the shortest decimal
    that reads back as `f`, in plain (non-exponent) notation.

  Both are validated bit-for-bit against Go by the correspondence harness
  (stream S-float).  The arithmetic on `Float` itself (`+ - * / < sqrt pow`) is
  the hardware's; theorems never unfold it.
-/
import EvalFilter.Model.Basic

namespace EvalFilter.FloatConv

def pow2 (n : Nat) : Nat := 2 ^ n
def pow10 (n : Nat) : Nat := 10 ^ n

/-- number of bits of `n` (0 for 0) -/
def bitLen (n : Nat) : Nat := if n == 0 then 0 else n.log2 + 1

/-- Build a double from sign, 53-bit-or-less mantissa `m` and exponent `e`
    (value `m * 2^e`), assuming `m < 2^53` and `-1074 ≤ e`, and `m ≥ 2^52`
    unless `e = -1074`. -/
def assemble (neg : Bool) (m : Nat) (e : Int) : Float :=
  let signBit : UInt64 := if neg then (1 : UInt64) <<< 63 else 0
  if m < pow2 52 then
    -- subnormal (or zero): biased exponent 0
    Float.ofBits (signBit ||| UInt64.ofNat m)
  else
    let biased : Nat := (e + 1075).toNat
    Float.ofBits (signBit ||| (UInt64.ofNat biased <<< 52) ||| UInt64.ofNat (m - pow2 52))

/-- nearest double to `num / den` (`den > 0`), ties to even; `none` on overflow -/
def ratToFloat (neg : Bool) (num den : Nat) : Option Float :=
  if num == 0 then some (assemble neg 0 (-1074)) else
  -- first guess of e such that 2^52 ≤ num / den / 2^e < 2^53
  let guess : Int := (Int.ofNat (bitLen num) - Int.ofNat (bitLen den)) - 53
  let quo (e : Int) : Nat × Nat × Nat :=
    -- returns (q, r, d) with num * 2^-e / den = q + r / d
    if e ≥ 0 then
      let d := den * pow2 e.toNat
      (num / d, num % d, d)
    else
      let n := num * pow2 (-e).toNat
      (n / den, n % den, den)
  let rec fix (fuel : Nat) (e : Int) : Int :=
    match fuel with
    | 0 => e
    | fuel + 1 =>
      let (q, _, _) := quo e
      if q ≥ pow2 53 then fix fuel (e + 1)
      else if q < pow2 52 then fix fuel (e - 1)
      else e
  let e0 := fix 8 guess
  let e := if e0 < -1074 then -1074 else e0
  let (q, r, d) := quo e
  let q' := if 2 * r > d then q + 1 else if 2 * r == d then (if q % 2 == 1 then q + 1 else q) else q
  let (m, e') := if q' == pow2 53 then (pow2 52, e + 1) else (q', e)
  if e' > 971 then none else some (assemble neg m e')

def digitVal (c : Char) : Nat := c.toNat - '0'.toNat

def digitsToNat (s : Str) : Nat := s.foldl (fun acc c => acc * 10 + digitVal c) 0

def allDigits (s : Str) : Bool := s.all (fun c => '0' ≤ c && c ≤ '9')

/-- value of `intPart.frac * 10^exp10` -/
def parseParts (neg : Bool) (intPart frac : Str) (exp10 : Int) : Option Float :=
  let n := digitsToNat (intPart ++ frac)
  let sc : Int := exp10 - Int.ofNat frac.length
  if sc ≥ 0 then ratToFloat neg (n * pow10 sc.toNat) 1
  else ratToFloat neg n (pow10 (-sc).toNat)

/-- `strconv.ParseFloat` restricted to `[+-]digits[.digits][(e|E)[+-]digits]` (at least one
    digit in the mantissa); `none` for anything else and on overflow.  Exponents are capped so the
    `Nat` arithmetic stays small (beyond ±400 the result is 0 or overflow anyway). -/
def parseDecimal (s : Str) : Option Float :=
  let (neg, s1) := match s with
    | '-' :: r => (true, r)
    | '+' :: r => (false, r)
    | r => (false, r)
  let ip := s1.takeWhile (fun c => '0' ≤ c && c ≤ '9')
  let r1 := s1.drop ip.length
  let (fr, r2) := match r1 with
    | '.' :: r => (r.takeWhile (fun c => '0' ≤ c && c ≤ '9'), r.drop (r.takeWhile (fun c => '0' ≤ c && c ≤ '9')).length)
    | r => ([], r)
  if ip.isEmpty && fr.isEmpty then none else
  match r2 with
  | [] => parseParts neg ip fr 0
  | c :: r3 =>
    if c == 'e' || c == 'E' then
      let (eneg, ed) := match r3 with
        | '-' :: r => (true, r)
        | '+' :: r => (false, r)
        | r => (false, r)
      if ed.isEmpty || !allDigits ed then none else
      let ev := digitsToNat ed
      let ev := if ev > 400 + ip.length + fr.length then 400 + ip.length + fr.length else ev
      parseParts neg ip fr (if eneg then -(Int.ofNat ev) else Int.ofNat ev)
    else none

/-- decompose a finite non-zero double: value = m * 2^e, with the flag "m is the smallest
    normal mantissa" (then the gap below is half the gap above) -/
def decompose (bits : UInt64) : Nat × Int × Bool :=
  let frac := (bits &&& 0xFFFFFFFFFFFFF).toNat
  let ex := ((bits >>> 52) &&& 0x7FF).toNat
  if ex == 0 then (frac, -1074, false)
  else (frac + pow2 52, Int.ofNat ex - 1075, frac == 0 && ex > 1)

/-- The shortest decimal `d * 10^k` (fewest digits in `d`) inside the rounding interval of the
    double `m * 2^e`, closest to it.  All quantities are scaled to the common denominator so that
    everything is exact `Nat` arithmetic. -/
def shortest (m : Nat) (e : Int) (lowHalf : Bool) : Nat × Int :=
  -- value v = m*2^e; upper bound hi = (2m+1)*2^(e-1); lower bound lo = (2m-1)*2^(e-1),
  -- or (4m-1)*2^(e-2) when the lower gap is halved.  Scale by 2^2 to keep integers:
  -- V = 4m, HI = 4m+2, LO = 4m-2 (or 4m-1), all times 2^(e-2).
  let e2 : Int := e - 2
  let V := 4 * m
  let HI := 4 * m + 2
  let LO := if lowHalf then 4 * m - 1 else 4 * m - 2
  let incl := m % 2 == 0
  -- represent x * 2^e2 as a fraction num/den
  let (sN, sD) : Nat × Nat := if e2 ≥ 0 then (pow2 e2.toNat, 1) else (1, pow2 (-e2).toNat)
  let vN := V * sN
  let hiN := HI * sN
  let loN := LO * sN
  -- decimal exponent of v: number of integer digits
  -- find k10 with 10^(k10-1) ≤ v < 10^k10  (k10 may be ≤ 0)
  let rec findK (fuel : Nat) (k : Int) : Int :=
    match fuel with
    | 0 => k
    | fuel + 1 =>
      -- test 10^(k-1) ≤ v < 10^k
      let geLow : Bool := if k - 1 ≥ 0 then vN ≥ pow10 (k - 1).toNat * sD else vN * pow10 (1 - k).toNat ≥ sD
      let ltHigh : Bool := if k ≥ 0 then vN < pow10 k.toNat * sD else vN * pow10 (-k).toNat < sD
      if !geLow then findK fuel (k - 1) else if !ltHigh then findK fuel (k + 1) else k
  let approx : Int := ((Int.ofNat (bitLen vN) - Int.ofNat (bitLen sD)) * 30103) / 100000
  let k10 := findK 8 approx
  let rec tryP (fuel : Nat) (p : Nat) : Nat × Int :=
    match fuel with
    | 0 => (0, 0)
    | fuel + 1 =>
      -- candidates with p digits: d * 10^sc, sc = k10 - p
      let sc : Int := k10 - Int.ofNat p
      -- x / 10^sc as fraction: (xN * a) / (sD * b) where 10^sc = b/a ... handle sign
      let (a, b) : Nat × Nat := if sc ≥ 0 then (1, pow10 sc.toNat) else (pow10 (-sc).toNat, 1)
      -- v / 10^sc = vN * a / (sD * b)
      let den := sD * b
      let fl := (vN * a) / den
      let exact := (vN * a) % den == 0
      let ce := if exact then fl else fl + 1
      let inside (d : Nat) : Bool :=
        -- lo ≤(<) d*10^sc ≤(<) hi  ⇔ loN*a ≤ d*den ≤ hiN*a
        let x := d * den
        if incl then loN * a ≤ x && x ≤ hiN * a else loN * a < x && x < hiN * a
      let okF := fl > 0 && inside fl
      let okC := inside ce
      -- distances (scaled): |v - d|
      let distF := vN * a - fl * den
      let distC := ce * den - vN * a
      if okF && okC then
        if distF < distC then (fl, sc) else if distC < distF then (ce, sc)
        else (if fl % 2 == 0 then fl else ce, sc)
      else if okF then (fl, sc)
      else if okC then (ce, sc)
      else if p ≥ 17 then (fl, sc)
      else tryP fuel (p + 1)
  tryP 18 1

/-- drop trailing zeros of `d`, adjusting the exponent -/
def normalize (fuel : Nat) (d : Nat) (k : Int) : Nat × Int :=
  match fuel with
  | 0 => (d, k)
  | fuel + 1 => if d != 0 && d % 10 == 0 then normalize fuel (d / 10) (k + 1) else (d, k)

/-- `%f`-style rendering of `d * 10^k` without exponent -/
def renderFixed (d : Nat) (k : Int) : Str :=
  let ds := natToStr d
  if k ≥ 0 then ds ++ List.replicate k.toNat '0'
  else
    let fracLen := (-k).toNat
    if ds.length > fracLen then
      ds.take (ds.length - fracLen) ++ ['.'] ++ ds.drop (ds.length - fracLen)
    else
      ['0', '.'] ++ List.replicate (fracLen - ds.length) '0' ++ ds

/-- `strconv.FormatFloat(f, 'f', -1, 64)` -/
def formatFloat (f : Float) : Str :=
  let bits := f.toBits
  let neg := (bits >>> 63) != 0
  let ex := ((bits >>> 52) &&& 0x7FF).toNat
  let frac := (bits &&& 0xFFFFFFFFFFFFF).toNat
  if ex == 0x7FF then
    if frac != 0 then "NaN".toList else if neg then "-Inf".toList else "+Inf".toList
  else
    let sign : Str := if neg then ['-'] else []
    if ex == 0 && frac == 0 then sign ++ ['0']
    else
      let (m, e, lowHalf) := decompose bits
      let (d, k) := shortest m e lowHalf
      let (d, k) := normalize 20 d k
      sign ++ renderFixed d k

end EvalFilter.FloatConv
