/-
  Model of evalfilter.go: `New`, `SetVariable`, `AddFunction`, `Prepare`, `Execute`,
  `Run`, `GetVariable`, and of `vm.New` (which runs the optimizer).
-/
import EvalFilter.Model.Lexer
import EvalFilter.Model.Parser
import EvalFilter.Model.Compiler
import EvalFilter.Model.Optimizer
import EvalFilter.Model.VM

namespace EvalFilter.Api
open EvalFilter

/-- Go's `[]rune(string)`: decode UTF-8, every invalid byte becomes U+FFFD -/
def decodeRunes (fuel : Nat) (bs : List UInt8) (acc : List Char) : List Char :=
  match fuel with
  | 0 => acc
  | fuel + 1 =>
    let bad (rest : List UInt8) := decodeRunes fuel rest (acc ++ [Char.ofNat 0xFFFD])
    let cont (b : UInt8) (lo hi : Nat) : Bool := lo ≤ b.toNat && b.toNat ≤ hi
    match bs with
    | [] => acc
    | b0 :: rest =>
      let n0 := b0.toNat
      if n0 < 0x80 then decodeRunes fuel rest (acc ++ [Char.ofNat n0])
      else if 0xC2 ≤ n0 && n0 ≤ 0xDF then
        match rest with
        | b1 :: r => if cont b1 0x80 0xBF then
            decodeRunes fuel r (acc ++ [Char.ofNat ((n0 - 0xC0) * 64 + (b1.toNat - 0x80))]) else bad rest
        | _ => bad rest
      else if 0xE0 ≤ n0 && n0 ≤ 0xEF then
        let (lo, hi) := if n0 == 0xE0 then (0xA0, 0xBF) else if n0 == 0xED then (0x80, 0x9F) else (0x80, 0xBF)
        match rest with
        | b1 :: b2 :: r => if cont b1 lo hi && cont b2 0x80 0xBF then
            decodeRunes fuel r (acc ++ [Char.ofNat ((n0 - 0xE0) * 4096 + (b1.toNat - 0x80) * 64 + (b2.toNat - 0x80))])
            else bad rest
        | _ => bad rest
      else if 0xF0 ≤ n0 && n0 ≤ 0xF4 then
        let (lo, hi) := if n0 == 0xF0 then (0x90, 0xBF) else if n0 == 0xF4 then (0x80, 0x8F) else (0x80, 0xBF)
        match rest with
        | b1 :: b2 :: b3 :: r => if cont b1 lo hi && cont b2 0x80 0xBF && cont b3 0x80 0xBF then
            decodeRunes fuel r (acc ++ [Char.ofNat ((n0 - 0xF0) * 262144 + (b1.toNat - 0x80) * 4096
                                   + (b2.toNat - 0x80) * 64 + (b3.toNat - 0x80))])
            else bad rest
        | _ => bad rest
      else bad rest

def runesOfBytes (bs : List UInt8) : List Char := decodeRunes (bs.length + 1) bs []

inductive PrepErr
  | parse
  | compile (e : Compiler.CErr)
  deriving Repr

/-- what `Prepare` leaves in the evaluator -/
structure Prepared where
  tokens : List Token
  ast : Program
  /-- the compiler's output, before `vm.New` -/
  raw : Compiler.Compiled
  /-- the machine as `vm.New` built it (optimised when OPTIMIZE is in the environment) -/
  machine : VM.Machine

def defaultFns : List (Str × VM.FnImpl) := Builtins.names.map (fun n => (n.toList, .builtin n))

/-- `vm.New`: optimise main program and every function when the environment has OPTIMIZE, which
    `Prepare` sets (only for the duration of this call) exactly when NoOptimize was not given -/
def newMachine (c : Compiler.Compiled) (optimize : Bool) (fns : List (Str × VM.FnImpl)) (done : Nat → Bool) :
    VM.Machine :=
  let enc (is : List Instr) : Bytes := encodeAll is
  let opt (b : Bytes) : Bytes := if optimize then Optimizer.optimize b else b
  { consts := c.consts
    main := opt (enc c.main)
    funcs := c.funcs.map (fun f => ⟨f.name, f.params, opt (enc f.code)⟩)
    fns := fns
    done := done }

/-- `Prepare(flags)`; the environment is left as it was (the OPTIMIZE signal is removed again) -/
def prepare (script : List Char) (optimize : Bool) (env : VM.Env) (fns : List (Str × VM.FnImpl))
    (done : Nat → Bool) : Except PrepErr (Prepared × VM.Env) :=
  let toks := Lexer.lex script
  match Parser.parse toks with
  | none => .error .parse
  | some ast =>
    match Compiler.compileProgram ast with
    | .error e => .error (.compile e)
    | .ok c => .ok (⟨toks, ast, c, newMachine c optimize fns done⟩, env)

/-- steps a single `Execute` may take in the executable model -/
def defaultFuel : Nat := 200000

/-- `Execute(obj)`: the `recover()` turns a panic into an error; errors yield a null object -/
def execute (M : VM.Machine) (obj : HostVal) (st : VM.RunSt) (fuel : Nat := defaultFuel) :
    VM.Res × VM.RunSt :=
  VM.run M obj fuel st

/-- `Run(obj)`: the truth value of what `Execute` returns, failing exactly when it does -/
def runBool (M : VM.Machine) (obj : HostVal) (st : VM.RunSt) (fuel : Nat := defaultFuel) :
    Except VM.Err Bool × VM.RunSt :=
  let (r, st) := execute M obj st fuel
  (r.map Value.truthy, st)

/-- `GetVariable` -/
def getVariable (env : VM.Env) (name : Str) : Value := (env.get name).getD .null

end EvalFilter.Api
