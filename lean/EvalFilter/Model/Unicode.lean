/-
  Unicode predicates used by the lexer and the built-ins, computed from the
  tables regenerated from Go's `unicode` package (Generated/Unicode.lean).
  Proofs treat these as uninterpreted except for the few ASCII facts stated in
  `Proofs/`.
-/
import EvalFilter.Model.Basic
import EvalFilter.Generated.Unicode

namespace EvalFilter.Unicode
open EvalFilter.Generated.Unicode

/-- membership of `n` in a flat table of (lo, hi, stride) triples -/
def inRanges (tbl : Array Nat) (n : Nat) : Bool := Id.run do
  let cnt := tbl.size / 3
  for i in [0:cnt] do
    let lo := tbl[3*i]!
    let hi := tbl[3*i+1]!
    let st := tbl[3*i+2]!
    if lo ≤ n && n ≤ hi && (st ≤ 1 || (n - lo) % st == 0) then return true
  return false

/-- `unicode.IsLetter` -/
def isLetter (c : Char) : Bool :=
  if c.toNat < 128 then (('a' ≤ c && c ≤ 'z') || ('A' ≤ c && c ≤ 'Z'))
  else inRanges letterRanges c.toNat

/-- `unicode.IsDigit` -/
def isDigit (c : Char) : Bool :=
  if c.toNat < 128 then ('0' ≤ c && c ≤ '9') else inRanges digitRanges c.toNat

/-- `unicode.IsSpace` -/
def isSpace (c : Char) : Bool := spaceRunes.contains c.toNat

def mapCase (tbl : Array Nat) (c : Char) : Char := Id.run do
  let n := c.toNat
  let cnt := tbl.size / 4
  for i in [0:cnt] do
    let lo := tbl[4*i]!
    let hi := tbl[4*i+1]!
    if lo ≤ n && n ≤ hi then
      let d := tbl[4*i+3]!
      let m := if tbl[4*i+2]! == 0 then n + d else n - d
      return Char.ofNat m
  return c

/-- `unicode.ToLower` -/
def toLower (c : Char) : Char := mapCase toLowerRuns c
/-- `unicode.ToUpper` -/
def toUpper (c : Char) : Char := mapCase toUpperRuns c

end EvalFilter.Unicode
