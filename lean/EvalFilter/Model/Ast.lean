/-
  The abstract syntax tree (package ast), with the `String()` and
  `TokenLiteral()` methods the compiler relies on (function names of calls,
  names of assigned variables, the sort key of hash-literal keys and the `.`
  rewrite all go through `String()`).
-/
import EvalFilter.Model.Basic

namespace EvalFilter

mutual
  inductive Expr
    | ident (name : Str)
    | intLit (lit : Str) (v : Int64)
    | floatLit (lit : Str) (v : Float)
    | boolLit (b : Bool)
    | strLit (v : Str)
    /-- `lit` is the token literal, `val`/`flags` what parseRegexpLiteral split it into -/
    | regexpLit (lit val flags : Str)
    | arrayLit (els : List Expr)
    | hashLit (pairs : List Pair)
    | prefix (op : Str) (right : Expr)
    | infix (op : Str) (l r : Expr)
    /-- `name` is the literal of the token *before* the `++`/`--` -/
    | postfix (name : Str) (op : Str)
    | ternary (c t f : Expr)
    | index (l i : Expr)
    | call (fn : Expr) (args : List Expr)
    | assign (name : Str) (value : Expr)
    | ifE (c : Expr) (cons : List Stmt) (alt : Option (List Stmt))
    | whileE (c : Expr) (body : List Stmt)
    | foreachE (index ident : Str) (value : Expr) (body : List Stmt)
    | switchE (value : Expr) (choices : List Case)
    | funcDef (name : Str) (params : List Str) (body : List Stmt)
    | localE (name : Str)
  inductive Stmt
    | expr (e : Expr)
    | ret (e : Expr)
  inductive Case
    | mk (isDefault : Bool) (exprs : List Expr) (block : List Stmt)
  inductive Pair
    | mk (k v : Expr)
end

instance : Inhabited Expr := ⟨.boolLit false⟩
instance : Inhabited Stmt := ⟨.expr default⟩

abbrev Program := List Stmt

def joinStr (sep : Str) : List Str → Str
  | [] => []
  | [x] => x
  | x :: y :: rest => x ++ sep ++ joinStr sep (y :: rest)

/-- escaping done by `StringLiteral.String()` -/
def escapeForString (s : Str) : Str :=
  s.flatMap (fun c => if c == '\n' then ['\\', 'n'] else if c == '\r' then ['\\', 'r']
                      else if c == '\t' then ['\\', 't'] else [c])

/-- `TokenLiteral()` of an expression node (the literal of the token the node was built at) -/
def Expr.tokenLiteral : Expr → Str
  | .ident n => n
  | .intLit l _ => l
  | .floatLit l _ => l
  | .boolLit b => if b then "true".toList else "false".toList
  | .strLit v => v
  | .regexpLit l _ _ => l
  | .arrayLit _ => ['[']
  | .hashLit _ => ['{']
  | .prefix op _ => op
  | .infix op _ _ => op
  | .postfix n _ => n
  | .ternary _ _ _ => ['?']
  | .index _ _ => ['[']
  | .call _ _ => ['(']
  | .assign _ _ => ['=']
  | .ifE _ _ _ => "if".toList
  | .whileE _ _ => "while".toList
  | .foreachE _ _ _ _ => "foreach".toList
  | .switchE _ _ => "switch".toList
  | .funcDef n _ _ => n
  | .localE n => n

/-- the braces `BlockStatement.String()` puts around the lines of a block -/
def blockWrap (lines : Str) : Str := "\n{\n".toList ++ lines ++ "}\n".toList

mutual
  /-- `String()` of an expression node -/
  def Expr.str : Expr → Str
    | .ident n => n
    | .intLit l _ => l
    | .floatLit l _ => l
    | .boolLit b => if b then "true".toList else "false".toList
    | .strLit v => ['"'] ++ escapeForString v ++ ['"']
    | .regexpLit _ val flags => ['/'] ++ val ++ ['/'] ++ flags
    | .arrayLit els => ['['] ++ joinStr [',', ' '] (Expr.strs els) ++ "];\n".toList
    | .hashLit pairs => ['{'] ++ joinStr [',', ' '] ((Pair.strs pairs).mergeSort (fun a b => !(Str.lt b a))) ++ ['}']
    | .prefix op r => ['('] ++ op ++ r.str ++ [')']
    | .infix op l r => ['('] ++ l.str ++ [' '] ++ op ++ [' '] ++ r.str ++ [')']
    | .postfix n op => ['('] ++ n ++ op ++ [')']
    | .ternary c t f => ['('] ++ c.str ++ " ? ".toList ++ t.str ++ " : ".toList ++ f.str ++ [')']
    | .index l i => ['('] ++ l.str ++ ['['] ++ i.str ++ "])".toList
    | .call fn args => fn.str ++ ['('] ++ joinStr [',', ' '] (Expr.strs args) ++ [')']
    | .assign n v => n ++ ['='] ++ v.str
    | .ifE c cons alt =>
        "\nif (".toList ++ c.str ++ ") ".toList ++ blockWrap (Stmt.linesStr cons) ++
          (match alt with
           | none => []
           | some a => "else".toList ++ blockWrap (Stmt.linesStr a))
    | .whileE c body => "while (".toList ++ c.str ++ ") {".toList ++ blockWrap (Stmt.linesStr body) ++ ['}']
    | .foreachE _ ident v body => "foreach ".toList ++ ident ++ [' '] ++ v.str ++ blockWrap (Stmt.linesStr body)
    | .switchE v choices => "\nswitch (".toList ++ v.str ++ ")\n{\n".toList ++ Case.strs choices ++ "}\n".toList
    | .funcDef n params body =>
        "function ".toList ++ n ++ ['('] ++ joinStr [',', ' '] params ++ [')'] ++ blockWrap (Stmt.linesStr body)
    | .localE n => "local ".toList ++ n ++ ";\n".toList
  def Expr.strs : List Expr → List Str
    | [] => []
    | e :: es => e.str :: Expr.strs es
  def Pair.strs : List Pair → List Str
    | [] => []
    | .mk k v :: ps => (k.str ++ [':'] ++ v.str) :: Pair.strs ps
  def Stmt.str : Stmt → Str
    | .expr e => e.str
    | .ret e => "return ".toList ++ e.tokenLiteral ++ [';']
  def Stmt.linesStr : List Stmt → Str
    | [] => []
    | s :: ss => [' '] ++ s.str ++ ['\n'] ++ Stmt.linesStr ss
  def Case.strs : List Case → Str
    | [] => []
    | .mk isDef exprs block :: cs =>
        (if isDef then "default ".toList else "case ".toList ++ joinStr [','] (Expr.strs exprs))
          ++ blockWrap (Stmt.linesStr block) ++ Case.strs cs
end

/-- `BlockStatement.String()` -/
def Stmt.blockStr (ss : List Stmt) : Str := blockWrap (Stmt.linesStr ss)

end EvalFilter
