/-
  Model of package object: the run-time values, `Type()`, `Inspect()`, `True()`,
  `HashKey()` and `Hash.Entries()`.

  Values are immutable here.  That is faithful to the Go code because (after the
  `fix:` commits) no object reachable from two places is ever mutated: `++`/`--`
  copy the number first, and each `foreach` works on its own shallow copy of the
  iterable, whose position is the `off` of the `iterating` wrapper below.
-/
import EvalFilter.Model.Basic
import EvalFilter.Model.Float

namespace EvalFilter

inductive VType
  | ARRAY | BOOLEAN | FLOAT | HASH | INTEGER | NULL | REGEXP | STRING | VOID
  deriving DecidableEq, Repr, Inhabited

namespace VType
def name : VType → Str
  | ARRAY => "ARRAY".toList | BOOLEAN => "BOOLEAN".toList | FLOAT => "FLOAT".toList
  | HASH => "HASH".toList | INTEGER => "INTEGER".toList | NULL => "NULL".toList
  | REGEXP => "REGEXP".toList | STRING => "STRING".toList | VOID => "VOID".toList
/-- order of the type names as Go strings (only used to break ties between hash keys) -/
def rank : VType → Nat
  | ARRAY => 0 | BOOLEAN => 1 | FLOAT => 2 | HASH => 3 | INTEGER => 4 | NULL => 5
  | REGEXP => 6 | STRING => 7 | VOID => 8
end VType

/-- `object.HashKey` -/
structure HashKey where
  ty : VType
  v : UInt64
  deriving DecidableEq, Repr, Inhabited

mutual
  inductive Value
    | int (v : Int64)
    | float (f : Float)
    | str (s : Str)
    | bool (b : Bool)
    | null
    | void
    | regexp (s : Str)
    | array (els : List Value)
    | hash (pairs : List HPair)
    /-- the private copy of an iterable made by OpIterationReset, with its position -/
    | iterating (v : Value) (off : Nat)
    /-- Go's nil `object.Object` (a host function returning nil) -/
    | nil
  inductive HPair
    | mk (hk : HashKey) (k v : Value)
end

instance : Inhabited Value := ⟨.null⟩

namespace HPair
def hk : HPair → HashKey | .mk h _ _ => h
def key : HPair → Value | .mk _ k _ => k
def val : HPair → Value | .mk _ _ v => v
end HPair

/-! ### UTF-8 and FNV-1a (hash/fnv New64a) -/

def utf8Encode (c : Char) : List UInt8 :=
  let n := c.toNat
  if n < 0x80 then [UInt8.ofNat n]
  else if n < 0x800 then [UInt8.ofNat (0xC0 + n / 64), UInt8.ofNat (0x80 + n % 64)]
  else if n < 0x10000 then
    [UInt8.ofNat (0xE0 + n / 4096), UInt8.ofNat (0x80 + (n / 64) % 64), UInt8.ofNat (0x80 + n % 64)]
  else
    [UInt8.ofNat (0xF0 + n / 262144), UInt8.ofNat (0x80 + (n / 4096) % 64),
     UInt8.ofNat (0x80 + (n / 64) % 64), UInt8.ofNat (0x80 + n % 64)]

def utf8Bytes (s : Str) : List UInt8 := s.flatMap utf8Encode

def fnv1a (bs : List UInt8) : UInt64 :=
  bs.foldl (fun h b => (h ^^^ b.toUInt64) * 1099511628211) 14695981039346656037

namespace Value

/-- `Type()`; `none` for Go's nil (calling a method on it panics) -/
def type? : Value → Option VType
  | .int _ => some .INTEGER
  | .float _ => some .FLOAT
  | .str _ => some .STRING
  | .bool _ => some .BOOLEAN
  | .null => some .NULL
  | .void => some .VOID
  | .regexp _ => some .REGEXP
  | .array _ => some .ARRAY
  | .hash _ => some .HASH
  | .iterating v _ => type? v
  | .nil => none

def isType (v : Value) (t : VType) : Bool := v.type? == some t

def int64ToStr (v : Int64) : Str := intToStr v.toInt

/-- `a[i].Key.Inspect() < a[j].Key.Inspect()`, ties broken on the type name (ByName.Less) -/
def entryLe (a b : Str × VType × Str) : Bool :=
  if Str.lt a.1 b.1 then true
  else if Str.lt b.1 a.1 then false
  else a.2.1.rank ≤ b.2.1.rank

mutual
  /-- `Inspect()` -/
  def inspect : Value → Str
    | .int v => int64ToStr v
    | .float f => FloatConv.formatFloat f
    | .str s => s
    | .bool b => if b then "true".toList else "false".toList
    | .null => "null".toList
    | .void => "void".toList
    | .regexp s => s
    | .array els => ['['] ++ joinInspect (inspectList els) ++ [']']
    | .hash pairs =>
        let es := (inspectPairs pairs).mergeSort (fun a b => entryLe a b)
        ['{'] ++ joinInspect (es.map (·.2.2)) ++ ['}']
    | .iterating v _ => inspect v
    | .nil => []
  def inspectList : List Value → List Str
    | [] => []
    | v :: vs => inspect v :: inspectList vs
  /-- (printed key, type of key, "key: value") for every pair -/
  def inspectPairs : List HPair → List (Str × VType × Str)
    | [] => []
    | .mk hk k v :: ps => (inspect k, hk.ty, inspect k ++ [':', ' '] ++ inspect v) :: inspectPairs ps
  def joinInspect : List Str → Str
    | [] => []
    | [x] => x
    | x :: y :: r => x ++ [',', ' '] ++ joinInspect (y :: r)
end

/-- `True()` -/
def truthy : Value → Bool
  | .int v => v > 0
  | .float f => f > 0
  | .str s => !s.isEmpty
  | .bool b => b
  | .null => false
  | .void => false
  | .regexp s => !s.isEmpty
  | .array els => !els.isEmpty
  | .hash ps => !ps.isEmpty
  | .iterating v _ => truthy v
  | .nil => false

/-- `HashKey()` for the types that implement `Hashable` -/
def hashKey? : Value → Option HashKey
  | .int v => some ⟨.INTEGER, v.toUInt64⟩
  | .float f => some ⟨.FLOAT, fnv1a (utf8Bytes (FloatConv.formatFloat f))⟩
  | .str s => some ⟨.STRING, fnv1a (utf8Bytes s)⟩
  | _ => none

end Value

/-! ### hashes as association lists keyed by `HashKey` (Go: `map[HashKey]HashPair`) -/
namespace HashMapModel

/-- `m[hk] = pair` -/
def insert (ps : List HPair) (p : HPair) : List HPair :=
  match ps with
  | [] => [p]
  | q :: qs => if q.hk == p.hk then p :: qs else q :: insert qs p

/-- `m[hk]` -/
def lookup (ps : List HPair) (hk : HashKey) : Option HPair :=
  ps.find? (fun p => p.hk == hk)

/-- `Hash.Entries()`: the pairs sorted by printed key, ties broken by key type -/
def entries (ps : List HPair) : List HPair :=
  ps.mergeSort (fun a b => Value.entryLe (a.key.inspect, a.hk.ty, []) (b.key.inspect, b.hk.ty, []))

end HashMapModel

end EvalFilter
