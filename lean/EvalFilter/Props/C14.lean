/-
  C14 — Literals mean what they spell; layout and comments mean nothing.
-/
import EvalFilter.Proofs.Lexer
import EvalFilter.Props.Tables
import EvalFilter.Model.Parser

namespace EvalFilter.Props.C14
open EvalFilter EvalFilter.Lexer

/-! ### string literals -/

/-- how to write the rune `c` inside a literal delimited by `q` -/
def escapeChar (q c : Char) : Str :=
  if c == q then ['\\', c]
  else if c == '\\' then ['\\', '\\']
  else if c == '\n' then ['\\', 'n']
  else if c == '\r' then ['\\', 'r']
  else if c == '\t' then ['\\', 't']
  else [c]

def escape (q : Char) (s : Str) : Str := s.flatMap (escapeChar q)

/-- an ordinary rune is taken as it is -/
theorem readString_plain (q c : Char) (r : List Char) (acc : Str)
    (hn : c ≠ nul) (hq : c ≠ q) (hb : c ≠ '\\') :
    readString q (c :: r) acc = readString q r (acc ++ [c]) := by
  have e1 : (c == nul) = false := by simpa using hn
  have e2 : (c == q) = false := by simpa using hq
  have e3 : (c == '\\') = false := by simpa using hb
  conv => lhs; unfold readString
  simp only [e1, e2, e3, Bool.false_eq_true, ↓reduceIte]

/-- a backslash takes the next rune through the escape table (unless it is a newline: continuation) -/
theorem readString_escaped (q d : Char) (r : List Char) (acc : Str) (hqb : q ≠ '\\')
    (hd1 : d ≠ '\n') (hd2 : d ≠ nul) :
    readString q ('\\' :: d :: r) acc = readString q r (acc ++ [unescape d]) := by
  have e1 : (('\\' : Char) == nul) = false := by decide
  have e2 : (('\\' : Char) == q) = false := by simpa using Ne.symm hqb
  have e3 : (d == '\n') = false := by simpa using hd1
  have e4 : (d == nul) = false := by simpa using hd2
  conv => lhs; unfold readString
  simp only [e1, e2, e3, e4, beq_self_eq_true, Bool.false_eq_true, ↓reduceIte]

theorem readString_continuation (q : Char) (r : List Char) (acc : Str) (hqb : q ≠ '\\') :
    readString q ('\\' :: '\n' :: r) acc = readString q r acc := by
  have e1 : (('\\' : Char) == nul) = false := by decide
  have e2 : (('\\' : Char) == q) = false := by simpa using Ne.symm hqb
  conv => lhs; unfold readString
  simp only [e1, e2, beq_self_eq_true, Bool.false_eq_true, ↓reduceIte]

theorem readString_close (q : Char) (r : List Char) (acc : Str) (hqn : q ≠ nul) :
    readString q (q :: r) acc = (some acc, q :: r) := by
  have e1 : (q == nul) = false := by simpa using hqn
  conv => lhs; unfold readString
  simp only [e1, beq_self_eq_true, Bool.false_eq_true, ↓reduceIte]

/-- A string literal denotes exactly the characters written between its quotes after the escape
    rules: for every text `s` (any Unicode, no NUL) and either quote style, reading the escaped text
    followed by the closing quote yields `s` and stops at the closing quote. -/
theorem C14_string_roundtrip (q : Char) (hq : q = '"' ∨ q = '\'') (s : Str) (hs : ∀ c ∈ s, c ≠ nul)
    (rest : List Char) (acc : Str) :
    readString q (escape q s ++ q :: rest) acc = (some (acc ++ s), q :: rest) := by
  have hqn : q ≠ nul := by rcases hq with rfl | rfl <;> decide
  have hqb : q ≠ '\\' := by rcases hq with rfl | rfl <;> decide
  have hqnl : q ≠ '\n' := by rcases hq with rfl | rfl <;> decide
  have hunq : unescape q = q := by rcases hq with rfl | rfl <;> decide
  induction s generalizing acc with
  | nil => simp [escape, readString_close q rest acc hqn]
  | cons c cs ih =>
    have hc : c ≠ nul := hs c (by simp)
    have ih' := fun acc => ih (fun d hd => hs d (by simp [hd])) acc
    show readString q (escapeChar q c ++ escape q cs ++ q :: rest) acc = _
    rw [List.append_assoc]
    have finish : readString q (escape q cs ++ q :: rest) (acc ++ [c]) = (some (acc ++ c :: cs), q :: rest) := by
      rw [ih']; simp
    unfold escapeChar
    by_cases h1 : c = q
    · subst h1
      simp only [beq_self_eq_true, ↓reduceIte, List.cons_append, List.nil_append]
      rw [readString_escaped c c _ acc hqb hqnl hqn, hunq]; exact finish
    · have h1' : (c == q) = false := by simpa using h1
      simp only [h1', Bool.false_eq_true, ↓reduceIte]
      by_cases h2 : c = '\\'
      · subst h2
        simp only [beq_self_eq_true, ↓reduceIte, List.cons_append, List.nil_append]
        rw [readString_escaped q '\\' _ acc hqb (by decide) (by decide)]
        exact finish
      · have h2' : (c == '\\') = false := by simpa using h2
        simp only [h2', Bool.false_eq_true, ↓reduceIte]
        by_cases h3 : c = '\n'
        · subst h3
          simp only [beq_self_eq_true, ↓reduceIte, List.cons_append, List.nil_append]
          rw [readString_escaped q 'n' _ acc hqb (by decide) (by decide)]
          exact finish
        · have h3' : (c == '\n') = false := by simpa using h3
          simp only [h3', Bool.false_eq_true, ↓reduceIte]
          by_cases h4 : c = '\r'
          · subst h4
            simp only [beq_self_eq_true, ↓reduceIte, List.cons_append, List.nil_append]
            rw [readString_escaped q 'r' _ acc hqb (by decide) (by decide)]
            exact finish
          · have h4' : (c == '\r') = false := by simpa using h4
            simp only [h4', Bool.false_eq_true, ↓reduceIte]
            by_cases h5 : c = '\t'
            · subst h5
              simp only [beq_self_eq_true, ↓reduceIte, List.cons_append, List.nil_append]
              rw [readString_escaped q 't' _ acc hqb (by decide) (by decide)]
              exact finish
            · have h5' : (c == '\t') = false := by simpa using h5
              simp only [h5', Bool.false_eq_true, ↓reduceIte, List.cons_append, List.nil_append]
              rw [readString_plain q c _ acc hc h1 h2]
              exact finish

/-- the escape rules themselves: `\n \r \t \" \\`, backslash-newline continuation, and any other
    escaped character taken literally -/
theorem C14_escape_table (q : Char) (rest : List Char) (acc : Str) (hq : q = '"' ∨ q = '\'') :
    readString q ('\\' :: 'n' :: rest) acc = readString q rest (acc ++ ['\n']) ∧
    readString q ('\\' :: 'r' :: rest) acc = readString q rest (acc ++ ['\r']) ∧
    readString q ('\\' :: 't' :: rest) acc = readString q rest (acc ++ ['\t']) ∧
    readString q ('\\' :: '"' :: rest) acc = readString q rest (acc ++ ['"']) ∧
    readString q ('\\' :: '\\' :: rest) acc = readString q rest (acc ++ ['\\']) ∧
    readString q ('\\' :: '\n' :: rest) acc = readString q rest acc ∧
    readString q ('\\' :: 'x' :: rest) acc = readString q rest (acc ++ ['x']) := by
  have hqb : q ≠ '\\' := by rcases hq with rfl | rfl <;> decide
  refine ⟨?_, ?_, ?_, ?_, ?_, readString_continuation q rest acc hqb, ?_⟩ <;>
    (rw [readString_escaped q _ _ acc hqb (by decide) (by decide)]; rfl)

/-- an unterminated string is not a string token -/
theorem C14_unterminated (q : Char) (s : Str) (hs : ∀ c ∈ s, c ≠ q ∧ c ≠ '\\' ∧ c ≠ nul) (acc : Str) :
    (readString q s acc).1 = none := by
  induction s generalizing acc with
  | nil => simp [readString]
  | cons c cs ih =>
    have ⟨h1, h2, h3⟩ := hs c (by simp)
    rw [readString_plain q c cs acc h3 h1 h2]
    exact ih (fun d hd => hs d (by simp [hd])) _

/-! ### numbers -/

theorem digitsToNat_snoc (s : Str) (d : Char) :
    FloatConv.digitsToNat (s ++ [d]) = 10 * FloatConv.digitsToNat s + FloatConv.digitVal d := by
  simp [FloatConv.digitsToNat, List.foldl_append, Nat.mul_comm]

/-- an integer literal denotes its decimal value; one that does not fit int64 is rejected -/
theorem C14_int_value (lit : Str) (h : lit ≠ []) :
    Parser.parseIntLit lit =
      if FloatConv.digitsToNat lit < 2 ^ 63 then some (Int64.ofNat (FloatConv.digitsToNat lit)) else none := by
  cases lit with
  | nil => exact absurd rfl h
  | cons _ _ => simp [Parser.parseIntLit]

/-! ### division or regexp: decided by what precedes -/

theorem C14_slash_is_division (prev : TokType) (cs : List Char) (h : slashDivAfter.contains prev = true)
    (hc : cs.head? ≠ some '=') : (lexOne prev '/' cs).1 = ⟨.SLASH, ['/']⟩ := by
  simp only [lexOne, lexB]
  simp (config := { decide := true }) only [h, ↓reduceIte, two]
  cases cs with
  | nil => rfl
  | cons d ds =>
    have : (d == '=') = false := by
      simp at hc
      simpa using hc
    simp [this]

theorem C14_slash_is_regexp (prev : TokType) (cs : List Char) (h : slashDivAfter.contains prev = false) :
    (lexOne prev '/' cs).1.ty = .REGEXP ∨ (lexOne prev '/' cs).1.ty = .ILLEGAL := by
  simp only [lexOne, lexB]
  simp (config := { decide := true }) only [h, ↓reduceIte]
  split <;> simp

/-- the set of "division after these" token types is the one in the Go source -/
theorem C14_slash_table : ∀ t ∈ TokType.all, slashDivAfter.contains t = Spec.Tables.slashDivAfter.contains t.name :=
  Props.Tables.model_slashDivAfter

/-! ### layout: whitespace and comments before a token mean nothing; tokenisation terminates -/

def isBlankRun (ws : List Char) : Prop := ∀ c ∈ ws, isWhitespace c = true

theorem skipWs_append_blank (ws r : List Char) (h : isBlankRun ws) : skipWs (ws ++ r) = skipWs r := by
  induction ws with
  | nil => rfl
  | cons c cs ih =>
    have hc : isWhitespace c = true := h c (by simp)
    simp only [List.cons_append, skipWs, hc, ↓reduceIte]
    exact ih (fun d hd => h d (by simp [hd]))

/-- inserting whitespace in front of a token changes neither the token nor what follows it -/
theorem C14_leading_whitespace (ws r : List Char) (p : TokType) (h : isBlankRun ws) (fuel : Nat) :
    skipBlank (fuel + 1) (ws ++ r) = skipBlank (fuel + 1) r := by
  simp only [skipBlank, skipWs_append_blank ws r h]

/-- a `//` comment up to the end of its line is skipped like whitespace -/
theorem C14_comment_skipped (body r : List Char) (hb : ∀ c ∈ body, c ≠ '\n' ∧ c ≠ nul) (fuel : Nat) :
    skipBlank (fuel + 2) ('/' :: '/' :: body ++ '\n' :: r) = skipBlank (fuel + 1) r := by
  have hline : ∀ (b : List Char), (∀ c ∈ b, c ≠ '\n' ∧ c ≠ nul) → skipLine (b ++ '\n' :: r) = '\n' :: r := by
    intro b
    induction b with
    | nil => intro _; simp [skipLine]
    | cons c cs ih =>
      intro hc
      have ⟨h1, h2⟩ := hc c (by simp)
      have e1 : (c == '\n') = false := by simpa using h1
      have e2 : (c == nul) = false := by simpa using h2
      simp only [List.cons_append, skipLine, e1, e2, Bool.or_self, Bool.false_eq_true, ↓reduceIte]
      exact ih (fun d hd => hc d (by simp [hd]))
  have hsl : skipLine ('/' :: '/' :: (body ++ '\n' :: r)) = '\n' :: r := by
    have e1 : ('/' == '\n') = false := by decide
    have e2 : ('/' == nul) = false := by decide
    simp only [skipLine, e1, e2, Bool.or_self, Bool.false_eq_true, ↓reduceIte]
    exact hline body hb
  have hws : skipWs ('/' :: '/' :: (body ++ '\n' :: r)) = '/' :: '/' :: (body ++ '\n' :: r) := by
    have : isWhitespace '/' = false := by decide
    simp [skipWs, this]
  have hnl : skipWs ('\n' :: r) = skipWs r := by
    have : isWhitespace '\n' = true := by decide
    simp [skipWs, this]
  show skipBlank (fuel + 1 + 1) ('/' :: '/' :: (body ++ '\n' :: r)) = skipBlank (fuel + 1) r
  rw [skipBlank]
  simp only [List.cons_append, hws, hsl, hnl]
  -- skipBlank (fuel+1) (skipWs r) = skipBlank (fuel+1) r : skipWs is idempotent
  have hidem : ∀ (l : List Char), skipWs (skipWs l) = skipWs l := by
    intro l
    induction l with
    | nil => rfl
    | cons c cs ih =>
      simp only [skipWs]
      split
      · exact ih
      · rename_i hc
        simp [skipWs, hc]
  simp only [skipBlank, hidem]

/-- tokenisation terminates for every input: each call of `NextToken` consumes at least one rune
    while there is input, and the token list is never longer than the input plus the final EOF -/
theorem C14_next_token_progress (s : LexSt) (h : s.rest ≠ []) :
    (nextToken s).2.rest.length < s.rest.length := nextToken_progress s h

theorem C14_tokenisation_terminates (input : List Char) : (lex input).length ≤ input.length + 1 :=
  lexAll_length_le ⟨input, .NONE⟩

/-- keywords are exactly the reserved words of token.go -/
theorem C14_keywords : keywords.map (fun (k, t) => (String.ofList k, t.name)) = Spec.Tables.keywords :=
  Props.Tables.model_keywords

example : readString '"' ['a', '\\', '"', 'b', '"', ';'] [] = (some ['a', '"', 'b'], ['"', ';']) := by
  have := C14_string_roundtrip '"' (Or.inl rfl) ['a', '"', 'b'] (by decide) [';'] []
  simpa [escape, escapeChar] using this

end EvalFilter.Props.C14
