/-
  C10 — Scripts are confined: no file, network or process access.

  The property is about every path through the library code a script can drive,
  so it is decided on the code, not on a sample of scripts: the complete table of
  references the library packages make to anything outside the module
  (regenerated from the source on every run with go/types) is checked, entry by
  entry, against a commented allow-list.
-/
import EvalFilter.Spec.Tables
import EvalFilter.Generated.TypeFacts

namespace EvalFilter.Props.C10
open EvalFilter

/-- Every symbol the library uses from outside itself is pure computation, output to stdout,
    `os.Getenv`, the clock, or the time-zone database. -/
theorem C10_confined : ∀ r ∈ Generated.externalRefs, Spec.Tables.refAllowed r = true := by
  decide +kernel

/-- The library imports only its own packages and the allowed standard-library packages
    (in particular nothing from outside the standard library, no `net`, `os/exec`, `syscall`, `io/ioutil`). -/
theorem C10_imports : ∀ r ∈ Generated.libImports, Spec.Tables.importAllowed r = true := by
  decide +kernel

/-- No cgo, no `unsafe`, no `go:linkname`. -/
theorem C10_no_escape_hatches : Generated.specialFeatures = [] := by decide +kernel

/-- The allow-list is tight where it matters: of package `os` only `Getenv` is allowed. -/
theorem C10_os_only_getenv :
    ∀ r ∈ Generated.externalRefs, r.2.1 = "os" → r.2.2 = "Getenv" := by decide +kernel

/-- `os.ReadFile`, `os.Open`, `net.Dial`, `exec.Command` would all be rejected. -/
theorem C10_allowlist_rejects :
    Spec.Tables.refAllowed ("environment", "os", "ReadFile") = false ∧
    Spec.Tables.refAllowed ("environment", "os", "Open") = false ∧
    Spec.Tables.refAllowed ("vm", "net", "Dial") = false ∧
    Spec.Tables.refAllowed ("vm", "os/exec", "Command") = false ∧
    Spec.Tables.refAllowed ("environment", "os", "Setenv") = false ∧
    Spec.Tables.importAllowed ("vm", "net/http") = false := by decide +kernel

/-- non-vacuity: the table is not empty and does contain the outside reads the statement permits -/
example : ("environment", "os", "Getenv") ∈ Generated.externalRefs ∧
          ("environment", "time", "LoadLocation") ∈ Generated.externalRefs ∧
          Generated.externalRefs.length > 100 := by decide +kernel

end EvalFilter.Props.C10
