/-
  C16 — Arrays, hashes, strings and ranges behave as ordered, total containers.
-/
import EvalFilter.Model.VM
import EvalFilter.Props.C01

namespace EvalFilter.Props.C16
open EvalFilter EvalFilter.VM

/-! ### indexing arrays and strings: in range gives the element, anything else gives null -/

theorem C16_index_array_in_range (els : List Value) (i : Int64) (h0 : 0 ≤ i) (h1 : i.toInt < els.length) :
    indexOp (.array els) (.int i) = .ok (els.getD i.toInt.toNat .null) := by
  have : ¬ (i < 0) := Int64.not_lt.mpr h0
  have h2 : ¬ (i.toInt ≥ (els.length : Int)) := by omega
  simp [indexOp, this, h2]

theorem C16_index_array_out_of_range (els : List Value) (i : Int64) (h : i < 0 ∨ i.toInt ≥ els.length) :
    indexOp (.array els) (.int i) = .ok .null := by
  simp [indexOp, h]

/-- the element found is the one at that position of the list (order and length are preserved) -/
theorem C16_index_array_nth (els : List Value) (k : Nat) (hk : k < els.length) (hs : k < 2 ^ 63) :
    indexOp (.array els) (.int (Int64.ofNat k)) = .ok els[k] := by
  have hk' : (Int64.ofNat k).toInt = k := by
    rw [Int64.toInt_ofNat_of_lt hs]
  have h0 : (0 : Int64) ≤ Int64.ofNat k := by
    rw [Int64.le_iff_toInt_le, hk']; simp
  rw [C16_index_array_in_range els _ h0 (by rw [hk']; exact_mod_cast hk)]
  simp [hk', List.getD_eq_getElem?_getD, hk]

theorem C16_index_string_in_range (s : Str) (i : Int64) (h0 : 0 ≤ i) (h1 : i.toInt < s.length) :
    indexOp (.str s) (.int i) = .ok (.str [s.getD i.toInt.toNat ' ']) := by
  have : ¬ (i < 0) := Int64.not_lt.mpr h0
  have h2 : ¬ (i.toInt ≥ (s.length : Int)) := by omega
  simp [indexOp, this, h2]

theorem C16_index_string_out_of_range (s : Str) (i : Int64) (h : i < 0 ∨ i.toInt ≥ s.length) :
    indexOp (.str s) (.int i) = .ok .null := by
  simp [indexOp, h]

/-- a non-integer index into an array or string, and any index into a scalar, is an error -/
theorem C16_index_errors (l i : Value) (v : Value)
    (h : (¬ l.isType .ARRAY ∧ ¬ l.isType .STRING ∧ ¬ l.isType .HASH) ∨
         ((l.isType .ARRAY ∨ l.isType .STRING) ∧ ¬ i.isType .INTEGER))
    (hl : ∀ x off, l ≠ .iterating x off) (hi : ∀ x off, i ≠ .iterating x off) :
    indexOp l i ≠ .ok v := by
  cases l <;> cases i <;> simp_all [indexOp, Value.isType, Value.type?, err]

/-! ### hashes -/

theorem C16_hash_lookup_inserted (ps : List HPair) (p : HPair) :
    HashMapModel.lookup (HashMapModel.insert ps p) p.hk = some p := by
  induction ps with
  | nil => simp [HashMapModel.insert, HashMapModel.lookup]
  | cons q qs ih =>
    simp only [HashMapModel.insert]
    by_cases h : q.hk = p.hk
    · simp [h, HashMapModel.lookup]
    · have hb : (q.hk == p.hk) = false := by simpa using h
      simp only [hb, Bool.false_eq_true, ↓reduceIte]
      simp only [HashMapModel.lookup, List.find?, hb] at ih ⊢
      exact ih

theorem C16_hash_lookup_other (ps : List HPair) (p : HPair) (hk : HashKey) (h : hk ≠ p.hk) :
    HashMapModel.lookup (HashMapModel.insert ps p) hk = HashMapModel.lookup ps hk := by
  have hpk : (p.hk == hk) = false := by simpa using Ne.symm h
  induction ps with
  | nil => simp [HashMapModel.insert, HashMapModel.lookup, List.find?, hpk]
  | cons q qs ih =>
    simp only [HashMapModel.insert]
    by_cases hq : q.hk = p.hk
    · have hqk : (q.hk == hk) = false := by rw [hq]; exact hpk
      simp [hq, HashMapModel.lookup, List.find?, hpk, hqk]
    · have hb : (q.hk == p.hk) = false := by simpa using hq
      simp only [hb, Bool.false_eq_true, ↓reduceIte]
      simp only [HashMapModel.lookup, List.find?] at ih ⊢
      cases hqk : (q.hk == hk) <;> simp [ih]

/-- integer, float and string keys are distinct keys even when they print alike -/
theorem C16_key_types_distinct (i : Int64) (f : Float) (s : Str) :
    (Value.int i).hashKey? ≠ (Value.float f).hashKey? ∧
    (Value.int i).hashKey? ≠ (Value.str s).hashKey? ∧
    (Value.float f).hashKey? ≠ (Value.str s).hashKey? := by
  simp [Value.hashKey?]

theorem C16_int_keys_injective (i j : Int64) (h : (Value.int i).hashKey? = (Value.int j).hashKey?) : i = j := by
  simp [Value.hashKey?] at h
  have := congrArg UInt64.toInt64 h
  simpa using this

/-- indexing a hash gives the stored value, null for absent keys, an error for unhashable keys -/
theorem C16_hash_index (ps : List HPair) (k : Value) :
    indexOp (.hash ps) k =
      (match k.hashKey? with
       | none => .error (.error "hashKey")
       | some hk => .ok (((HashMapModel.lookup ps hk).map HPair.val).getD .null)) := by
  simp only [indexOp]
  cases k.hashKey? <;> simp [err]

/-- `Hash.Entries()` (printing, `keys`, iteration) lists every pair exactly once -/
theorem C16_entries_perm (ps : List HPair) : (HashMapModel.entries ps).Perm ps :=
  List.mergeSort_perm _ _

/-! ### iteration visits every element exactly once, in order -/

theorem C16_iter_array (els : List Value) (k : Nat) :
    iterNext (.array els) k =
      if h : k < els.length then some (els[k], .int (Int64.ofNat k)) else none := by
  by_cases h : k < els.length
  · simp [iterNext, h, List.getD_eq_getElem?_getD]
  · simp [iterNext, h]

theorem C16_iter_string (s : Str) (k : Nat) :
    iterNext (.str s) k =
      if h : k < s.length then some (.str [s[k]], .int (Int64.ofNat k)) else none := by
  by_cases h : k < s.length
  · simp [iterNext, h, List.getD_eq_getElem?_getD]
  · simp [iterNext, h]

theorem C16_iter_hash (ps : List HPair) (k : Nat) :
    iterNext (.hash ps) k =
      if h : k < (HashMapModel.entries ps).length then
        some (((HashMapModel.entries ps)[k]).val, ((HashMapModel.entries ps)[k]).key) else none := by
  by_cases h : k < (HashMapModel.entries ps).length
  · simp [iterNext, h]
  · simp [iterNext, h]

/-- the loop protocol: starting from offset 0 and advancing by one, the values produced are
    exactly the elements, in order, and then the iteration ends -/
theorem C16_iter_all_array (els : List Value) :
    (List.range els.length).map (fun k => (iterNext (.array els) k).map (·.1)) = els.map some ∧
    iterNext (.array els) els.length = none := by
  constructor
  · apply List.ext_getElem
    · simp
    · intro n h1 h2
      simp at h1
      simp [C16_iter_array, h1]
  · simp [iterNext]

/-- `len` counts elements or characters; `in` finds exactly the elements present -/
theorem C16_len (els : List Value) (ps : List HPair) (s : Str) :
    (Builtins.call "len" [.array els]).res matches .val (.int _) ∧
    (match (Builtins.call "len" [.array els]).res with | .val (.int n) => n = Int64.ofNat els.length | _ => False) ∧
    (match (Builtins.call "len" [.hash ps]).res with | .val (.int n) => n = Int64.ofNat ps.length | _ => False) ∧
    (match (Builtins.call "len" [.str s]).res with | .val (.int n) => n = Int64.ofNat s.length | _ => False) := by
  simp [Builtins.call, Builtins.ret, Value.inspect]

example : indexOp (.array [.int 7, .int 8]) (.int 1) = .ok (.int 8) := by
  rw [C16_index_array_in_range _ _ (by decide) (by decide)]; rfl
example : indexOp (.array [.int 7, .int 8]) (.int 2) = .ok .null :=
  C16_index_array_out_of_range _ _ (Or.inr (by decide))

end EvalFilter.Props.C16
