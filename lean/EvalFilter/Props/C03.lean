/-
  C03 — The optimizer never changes what a script does.

  The optimizer is a peephole pass over the byte string.  The property as stated is FALSE of the
  unchanged code in one respect, recorded as known finding KF-12 and proved below
  (`C03_sqrt_fold_changes_type`): folding `√` of a perfect square yields an INTEGER where the
  unoptimised program computes a FLOAT.  What is proved for ALL operands:
    * every arithmetic / comparison fold writes exactly the value the VM would compute for the two
      pushes and the operator (`+ - * /` on the 16-bit push operands, `== !=`), and declines (leaves
      the code alone) exactly where the VM would fail (division by zero) or where the result does not
      fit a push operand;
    * the instruction patterns the jump pass rewrites behave like what they are replaced with:
      `OpTrue; OpJumpIfFalse x` is a no-op pair (falls through, stack unchanged), `OpFalse; OpJumpIfFalse x`
      is a jump to `x` (stack unchanged), OpNop does nothing.
  Whole programs (Proofs/OptSim1…8, Model/OptCheck): a forward-simulation theorem for the VM loop - poll
  counts aside, at any call depth, through nested function runs - under a point-by-point correspondence
  of instruction pointers with "windows" each side crosses in its own number of turns; a validator for
  the steps of all four passes (maths, jumps, NOP removal with jump relocation, dead-code removal), proved
  sound with respect to that theorem; and `C03_optimizer_preserves_finished_runs`: if every step the
  optimizer takes on a program validates, every run of the NoOptimize program that ends is matched by a
  run of the optimised program with the same result, output and variables.  The validator is run on the
  raw and optimised bytes the real evaluator holds, for every generated program (translation validation);
  it refuses exactly the √ fold (KF-12).  The converse direction is proved too
  (`C03_optimizer_adds_no_finished_runs`, via `sim_back`: lexicographic induction on the optimised run's
  fuel and the distance to the end of the body, for the NOPs the raw side executes alone).  Not proved:
  that validation succeeds for every compilable script (it is checked per program).
  The streams S-opt (constant arithmetic / comparisons / conditions placed inside and next to every
  control-flow construct) carry the direct oracle "optimised and NoOptimize evaluators agree on result,
  host-call trace, variables and stack residue for every run", and the optimised real bytes of every
  generated program pass the Lean byte-code verifier (C18).
-/
import EvalFilter.Model.Api
import EvalFilter.Props.Tables
import EvalFilter.Proofs.OptWindows
import EvalFilter.Proofs.OptSim8
import EvalFilter.Proofs.NoOof
import EvalFilter.Proofs.FnDefs3
import EvalFilter.Proofs.FnDefs4

namespace EvalFilter.Props.C03
open EvalFilter EvalFilter.VM

variable (M : Machine)

/-! ### arithmetic folds write the value the VM computes -/

/-- what OpPush leaves on the stack for an operand `n` -/
def pushed (n : Nat) : Value := .int (Int64.ofNat n)

theorem C03_fold_add (a b : Nat) :
    binop M .add (pushed b) (pushed a) = .ok (pushed (a + b), []) := by
  simp [binop, intOp, pushed, Except.map, Int64.ofNat_add, Int64.add_comm]

theorem C03_fold_mul (a b : Nat) :
    binop M .mul (pushed b) (pushed a) = .ok (pushed (a * b), []) := by
  simp [binop, intOp, pushed, Except.map, Int64.ofNat_mul, Int64.mul_comm]

/-- the optimizer folds `b - a` only when the result is not negative -/
theorem C03_fold_sub (a b : Nat) (h : a ≤ b) :
    binop M .sub (pushed b) (pushed a) = .ok (pushed (b - a), []) := by
  simp [binop, intOp, pushed, Except.map, Int64.ofNat_sub b a h]

/-- … and `b / a` only when `a` is not zero -/
theorem C03_fold_div (a b : Nat) (ha : a ≠ 0) (ha' : a < 65536) (hb : b < 65536) :
    binop M .div (pushed b) (pushed a) = .ok (pushed (b / a), []) := by
  have hne : (Int64.ofNat a == 0) = false := by
    have : Int64.ofNat a ≠ 0 := by
      intro h
      have := congrArg Int64.toInt h
      rw [Int64.toInt_ofNat_of_lt (by omega)] at this
      simp at this; omega
    simpa using this
  simp [binop, intOp, pushed, Except.map, hne, Int64.ofNat_div (a := b) (b := a) (by omega) (by omega)]

/-- where the VM would fail - division by zero - the maths pass gives up and leaves the code alone -/
theorem C03_div_zero_left_alone (b : Nat) :
    binop M .div (pushed b) (pushed 0) = .error (.error "div0") := by
  simp [binop, intOp, pushed, Except.map, err]

theorem ofNat_inj_small {a b : Nat} (ha : a < 65536) (hb : b < 65536) (h : Int64.ofNat a = Int64.ofNat b) : a = b := by
  have := congrArg Int64.toInt h
  rw [Int64.toInt_ofNat_of_lt (by omega), Int64.toInt_ofNat_of_lt (by omega)] at this
  omega

/-- comparison folds: `==` / `!=` of two pushes become OpTrue / OpFalse exactly as the VM decides -/
theorem C03_fold_equal (a b : Nat) (ha : a < 65536) (hb : b < 65536) :
    binop M .equal (pushed b) (pushed a) = .ok (.bool (a == b), []) ∧
    binop M .notEqual (pushed b) (pushed a) = .ok (.bool (a != b), []) := by
  by_cases h : a = b
  · subst h; simp [binop, intOp, pushed, Except.map, vbool]
  · have hne : Int64.ofNat b ≠ Int64.ofNat a := fun e => h (ofNat_inj_small hb ha e).symm
    have hne' : (Int64.ofNat b == Int64.ofNat a) = false := by simpa using hne
    simp [binop, intOp, pushed, Except.map, vbool, hne', h, bne]

/-! ### the patterns of the jump pass -/

variable (obj : HostVal) (codeLen : Nat) (runBody : Bytes → RunSt → Res × RunSt)

/-- OpNop does nothing -/
theorem C03_nop (arg next : Nat) (stack : List Value) (st : RunSt) :
    step M obj codeLen runBody Op.nop.toNat arg next stack st = .cont next stack st := by
  have : Op.ofNat? Op.nop.toNat = some .nop := rfl
  simp only [step, this, isBinary]; simp

/-- `OpTrue; OpJumpIfFalse x`: falls through with the stack unchanged - the same as the NOPs it becomes -/
theorem C03_true_then_jumpIfFalse (x n1 n2 : Nat) (stack : List Value) (st : RunSt) :
    step M obj codeLen runBody Op.true.toNat 0 n1 stack st = .cont n1 (.bool true :: stack) st ∧
    step M obj codeLen runBody Op.jumpIfFalse.toNat x n2 (.bool true :: stack) st = .cont n2 stack st := by
  have h1 : Op.ofNat? Op.true.toNat = some .true := rfl
  have h2 : Op.ofNat? Op.jumpIfFalse.toNat = some .jumpIfFalse := rfl
  constructor
  · simp only [step, h1, isBinary]; simp
  · simp only [step, h2, isBinary]; simp [Value.truthy]

/-- `OpFalse; OpJumpIfFalse x`: continues at `x` with the stack unchanged - the same as walking the
    NOPs the range up to `x` becomes -/
theorem C03_false_then_jumpIfFalse (x n1 n2 : Nat) (stack : List Value) (st : RunSt) (hx : x < codeLen) :
    step M obj codeLen runBody Op.false.toNat 0 n1 stack st = .cont n1 (.bool false :: stack) st ∧
    step M obj codeLen runBody Op.jumpIfFalse.toNat x n2 (.bool false :: stack) st = .cont x stack st := by
  have h1 : Op.ofNat? Op.false.toNat = some .false := rfl
  have h2 : Op.ofNat? Op.jumpIfFalse.toNat = some .jumpIfFalse := rfl
  have hn : ¬ x ≥ codeLen := by omega
  constructor
  · simp only [step, h1, isBinary]; simp
  · simp only [step, h2, isBinary]; simp [Value.truthy, hn]

/-! ### the same at the level of programs -/

open EvalFilter.Exec in
/-- wherever `OpPush b; OpPush a; OpAdd` stands in a program, the window and its replacement
    (`OpPush (a+b)` + four NOPs) lead from the same configuration to the same configuration -/
theorem C03_window_add (obj : HostVal) (raw opt : Bytes) (ip a b : Nat)
    (hraw : CodeAt raw ip [⟨.push, b⟩, ⟨.push, a⟩, ⟨.add, 0⟩])
    (hopt : CodeAt opt ip [⟨.push, a + b⟩, ⟨.nop, 0⟩, ⟨.nop, 0⟩, ⟨.nop, 0⟩, ⟨.nop, 0⟩])
    (hM : NeverDone M) (ha : a < 65536) (hb : b < 65536) (hab : a + b < 65536)
    (stack : List Value) (env : Env) (out : Str) (polls depth fuel : Nat) :
    loop M obj raw (fuel + 3) ip stack ⟨env, out, polls, depth⟩ =
      loop M obj raw fuel (ip + 7) (pushed (a + b) :: stack) ⟨env, out, polls + 3, depth⟩ ∧
    loop M obj opt (fuel + 5) ip stack ⟨env, out, polls, depth⟩ =
      loop M obj opt fuel (ip + 7) (pushed (a + b) :: stack) ⟨env, out, polls + 5, depth⟩ :=
  window_arith .add rfl rfl (C03_fold_add M a b) hraw hopt hM ha hb hab stack env out polls depth fuel

open EvalFilter.Exec in
/-- … `OpPush b; OpPush a; OpMul` -/
theorem C03_window_mul (obj : HostVal) (raw opt : Bytes) (ip a b : Nat)
    (hraw : CodeAt raw ip [⟨.push, b⟩, ⟨.push, a⟩, ⟨.mul, 0⟩])
    (hopt : CodeAt opt ip [⟨.push, a * b⟩, ⟨.nop, 0⟩, ⟨.nop, 0⟩, ⟨.nop, 0⟩, ⟨.nop, 0⟩])
    (hM : NeverDone M) (ha : a < 65536) (hb : b < 65536) (hab : a * b < 65536)
    (stack : List Value) (env : Env) (out : Str) (polls depth fuel : Nat) :
    loop M obj raw (fuel + 3) ip stack ⟨env, out, polls, depth⟩ =
      loop M obj raw fuel (ip + 7) (pushed (a * b) :: stack) ⟨env, out, polls + 3, depth⟩ ∧
    loop M obj opt (fuel + 5) ip stack ⟨env, out, polls, depth⟩ =
      loop M obj opt fuel (ip + 7) (pushed (a * b) :: stack) ⟨env, out, polls + 5, depth⟩ :=
  window_arith .mul rfl rfl (C03_fold_mul M a b) hraw hopt hM ha hb hab stack env out polls depth fuel

open EvalFilter.Exec in
/-- … `OpPush b; OpPush a; OpSub` (folded only when `a ≤ b`) -/
theorem C03_window_sub (obj : HostVal) (raw opt : Bytes) (ip a b : Nat) (hle : a ≤ b)
    (hraw : CodeAt raw ip [⟨.push, b⟩, ⟨.push, a⟩, ⟨.sub, 0⟩])
    (hopt : CodeAt opt ip [⟨.push, b - a⟩, ⟨.nop, 0⟩, ⟨.nop, 0⟩, ⟨.nop, 0⟩, ⟨.nop, 0⟩])
    (hM : NeverDone M) (ha : a < 65536) (hb : b < 65536)
    (stack : List Value) (env : Env) (out : Str) (polls depth fuel : Nat) :
    loop M obj raw (fuel + 3) ip stack ⟨env, out, polls, depth⟩ =
      loop M obj raw fuel (ip + 7) (pushed (b - a) :: stack) ⟨env, out, polls + 3, depth⟩ ∧
    loop M obj opt (fuel + 5) ip stack ⟨env, out, polls, depth⟩ =
      loop M obj opt fuel (ip + 7) (pushed (b - a) :: stack) ⟨env, out, polls + 5, depth⟩ :=
  window_arith .sub rfl rfl (C03_fold_sub M a b hle) hraw hopt hM ha hb (by omega) stack env out polls depth fuel

open EvalFilter.Exec in
/-- … `OpPush b; OpPush a; OpDiv` (folded only when `a ≠ 0`) -/
theorem C03_window_div (obj : HostVal) (raw opt : Bytes) (ip a b : Nat) (hne : a ≠ 0)
    (hraw : CodeAt raw ip [⟨.push, b⟩, ⟨.push, a⟩, ⟨.div, 0⟩])
    (hopt : CodeAt opt ip [⟨.push, b / a⟩, ⟨.nop, 0⟩, ⟨.nop, 0⟩, ⟨.nop, 0⟩, ⟨.nop, 0⟩])
    (hM : NeverDone M) (ha : a < 65536) (hb : b < 65536)
    (stack : List Value) (env : Env) (out : Str) (polls depth fuel : Nat) :
    loop M obj raw (fuel + 3) ip stack ⟨env, out, polls, depth⟩ =
      loop M obj raw fuel (ip + 7) (pushed (b / a) :: stack) ⟨env, out, polls + 3, depth⟩ ∧
    loop M obj opt (fuel + 5) ip stack ⟨env, out, polls, depth⟩ =
      loop M obj opt fuel (ip + 7) (pushed (b / a) :: stack) ⟨env, out, polls + 5, depth⟩ :=
  window_arith .div rfl rfl (C03_fold_div M a b hne ha hb) hraw hopt hM ha hb
    (by have := Nat.div_le_self b a; omega) stack env out polls depth fuel

open EvalFilter.Exec in
/-- a constant-true condition and the four NOPs that replace it -/
theorem C03_window_true_jif (obj : HostVal) (raw opt : Bytes) (ip x : Nat)
    (hraw : CodeAt raw ip [⟨.true, 0⟩, ⟨.jumpIfFalse, x⟩])
    (hopt : CodeAt opt ip [⟨.nop, 0⟩, ⟨.nop, 0⟩, ⟨.nop, 0⟩, ⟨.nop, 0⟩])
    (hM : NeverDone M) (hx : x < raw.length) (hx' : x < 65536)
    (stack : List Value) (env : Env) (out : Str) (polls depth fuel : Nat) :
    loop M obj raw (fuel + 2) ip stack ⟨env, out, polls, depth⟩ =
      loop M obj raw fuel (ip + 4) stack ⟨env, out, polls + 2, depth⟩ ∧
    loop M obj opt (fuel + 4) ip stack ⟨env, out, polls, depth⟩ =
      loop M obj opt fuel (ip + 4) stack ⟨env, out, polls + 4, depth⟩ :=
  window_true_jif hraw hopt hM hx hx' stack env out polls depth fuel

/-! ### the square-root fold is not behaviour preserving (known finding KF-12) -/

/-- the optimizer replaces `OpPush (r*r); OpSquareRoot` by `OpPush r`: an INTEGER.  The unoptimised
    program computes a FLOAT.  So `type(√9)`, `[…][√9]` and `switch (√9) { case 3 … }` differ. -/
theorem C03_sqrt_fold_changes_type (r : Nat) :
    (pushed r).isType .INTEGER = true ∧
    ∀ v, sqrtOp (pushed (r * r)) = .ok v → v.isType .FLOAT = true := by
  refine ⟨rfl, ?_⟩
  intro v h
  simp only [sqrtOp, pushed] at h
  cases h; rfl


/-! ### whole programs: the optimizer cannot be observed by a run that ends

`OptCheck.fullTrace` (Model/OptCheck.lean) replays `optimize` on a body step by step - every fold of the
maths pass, every elimination of the jump pass, the NOP removal, the dead-code removal - and accepts a step
only if it is one of the documented window replacements with nothing else changed and no jump or
fall-through landing inside the window (or, for the two shortening passes, the exact relocation /
truncation).  The theorem below says what acceptance buys, for programs of any size, at any call depth.
The checks run `fullTrace` on the raw bytes the real evaluator compiled and compare its result with the
optimised bytes the real evaluator holds, for every generated program. -/

open EvalFilter.Compiler in
/-- every body of the compiled program optimises through validated steps only -/
def validated (c : Compiled) : Bool :=
  (OptCheck.fullTrace (encodeAll c.main)).isSome && c.funcs.all (fun f => (OptCheck.fullTrace (encodeAll f.code)).isSome)

open EvalFilter.Compiler EvalFilter.OptSim in
/-- **The optimizer never changes what a finished run does.**  For every compiled program whose
    optimisation validates, every host-function table, host object, starting variables and step budget: if
    the run of the program prepared with NoOptimize ends - with a value, an error or a panic - then the run
    of the optimised program (the default) ends too, with the same result, the same output (host-call
    markers included, in order) and the same variables.  Poll counts differ (NOPs are polled too), so the
    context is one that does not cancel. -/
theorem C03_optimizer_preserves_finished_runs (c : Compiled) (fns : List (Str × FnImpl)) (obj : HostVal)
    (hv : validated c = true) (f : Nat) (st st' : RunSt) (hst : st.env = st'.env ∧ st.out = st'.out ∧ st.depth = st'.depth)
    (hend : (run (Api.newMachine c false fns (fun _ => false)) obj f st).1 ≠ .error .outOfFuel) :
    ∃ f', (run (Api.newMachine c true fns (fun _ => false)) obj f' st').1 = (run (Api.newMachine c false fns (fun _ => false)) obj f st).1 ∧
      (run (Api.newMachine c true fns (fun _ => false)) obj f' st').2.out = (run (Api.newMachine c false fns (fun _ => false)) obj f st).2.out ∧
      (run (Api.newMachine c true fns (fun _ => false)) obj f' st').2.env = (run (Api.newMachine c false fns (fun _ => false)) obj f st).2.env := by
  have e : Api.newMachine c true fns (fun _ => false) = optMachine (Api.newMachine c false fns (fun _ => false)) := by
    simp [Api.newMachine, optMachine, List.map_map, Function.comp_def]
  unfold validated at hv
  simp only [Bool.and_eq_true, List.all_eq_true] at hv
  have href := optimize_refines (Api.newMachine c false fns (fun _ => false)) obj (fun _ => rfl)
    (by simpa [Api.newMachine] using hv.1)
    (by
      intro u hu
      simp only [Api.newMachine, List.mem_map] at hu
      obtain ⟨g, hg, rfl⟩ := hu
      simpa using hv.2 g hg)
  obtain ⟨f', h1, h2, h3, _⟩ := href f st st' ⟨hst.1, hst.2.1, hst.2.2, fun e => by cases e⟩ hend
  rw [e]
  exact ⟨f', h1.symm, h3.symm, h2.symm⟩

open EvalFilter.Compiler EvalFilter.OptSim in
/-- **… and conversely**: if the run of the optimised program ends, so does the run of the NoOptimize
    program, with the same result, output and variables.  Together with the theorem above: one of the two
    runs ends exactly when the other does (with enough budget), and then they agree - the optimizer can
    neither break a script nor make a looping script terminate. -/
theorem C03_optimizer_adds_no_finished_runs (c : Compiled) (fns : List (Str × FnImpl)) (obj : HostVal)
    (hv : validated c = true) (f' : Nat) (st st' : RunSt) (hst : st.env = st'.env ∧ st.out = st'.out ∧ st.depth = st'.depth)
    (hend : (run (Api.newMachine c true fns (fun _ => false)) obj f' st').1 ≠ .error .outOfFuel) :
    ∃ f, (run (Api.newMachine c false fns (fun _ => false)) obj f st).1 = (run (Api.newMachine c true fns (fun _ => false)) obj f' st').1 ∧
      (run (Api.newMachine c false fns (fun _ => false)) obj f st).2.out = (run (Api.newMachine c true fns (fun _ => false)) obj f' st').2.out ∧
      (run (Api.newMachine c false fns (fun _ => false)) obj f st).2.env = (run (Api.newMachine c true fns (fun _ => false)) obj f' st').2.env := by
  have e : Api.newMachine c true fns (fun _ => false) = optMachine (Api.newMachine c false fns (fun _ => false)) := by
    simp [Api.newMachine, optMachine, List.map_map, Function.comp_def]
  unfold validated at hv
  simp only [Bool.and_eq_true, List.all_eq_true] at hv
  have href := optimize_refinedBy (Api.newMachine c false fns (fun _ => false)) obj (fun _ => rfl)
    (by simpa [Api.newMachine] using hv.1)
    (by
      intro u hu
      simp only [Api.newMachine, List.mem_map] at hu
      obtain ⟨g, hg, rfl⟩ := hu
      simpa using hv.2 g hg)
  rw [e] at hend ⊢
  obtain ⟨f, h1, h2, h3, _⟩ := href f' st st' ⟨hst.1, hst.2.1, hst.2.2, fun e => by cases e⟩ hend
  exact ⟨f, h1, h3, h2⟩

open EvalFilter.Compiler EvalFilter.Exec in
/-- **The optimised program computes the language's semantics too.**  For every script of assignments,
    if / else, while, foreach and return over value-producing expressions (C02's end-to-end theorem) whose
    optimisation validates: the run of the OPTIMISED program ends with the result, the output and the global
    variables the big-step semantics prescribes. -/
theorem C03_optimised_program_correct (F : FnTable) (prog : Program) (hp : pureSs prog = true) (hne : 1 ≤ Stmt.sizes prog) (c : Compiled)
    (hc : compileProgram prog = .ok c) (hv : validated c = true) (fns : List (Str × FnImpl)) (obj : HostVal) (env : Env) (out : Str)
    (f : Nat)
    (hF : FnOK (Api.newMachine c false fns (fun _ => false)) F obj)
    (hnd : execSs (Api.newMachine c false fns (fun _ => false)) F obj 0 f prog env out ≠ .diverged) :
    ∃ f', match programResult 0 0 (execSs (Api.newMachine c false fns (fun _ => false)) F obj 0 f prog env out) with
      | some (r, s) =>
        (run (Api.newMachine c true fns (fun _ => false)) obj f' ⟨env, out, 0, 0⟩).1 = r ∧
        (run (Api.newMachine c true fns (fun _ => false)) obj f' ⟨env, out, 0, 0⟩).2.out = s.out ∧
        (run (Api.newMachine c true fns (fun _ => false)) obj f' ⟨env, out, 0, 0⟩).2.env.globals = s.env.globals
      | none => True := by
  have hclean : ∀ r s, programResult 0 0 (execSs (Api.newMachine c false fns (fun _ => false)) F obj 0 f prog env out) = some (r, s) →
      r ≠ .error .outOfFuel := by
    intro r s hprs
    revert hprs
    cases hx : execSs (Api.newMachine c false fns (fun _ => false)) F obj 0 f prog env out with
    | normal a b => simp only [programResult, Option.some.injEq, Prod.mk.injEq]; intro h; rw [← h.1]; simp
    | returned v a b => simp only [programResult, Option.some.injEq, Prod.mk.injEq]; intro h; rw [← h.1]; simp
    | diverged => simp [programResult]
    | failed e a b =>
      simp only [programResult, Option.some.injEq, Prod.mk.injEq]
      intro h; rw [← h.1]
      have := (exec_noof _ F obj f).Ss _ _ _ _ _ _ _ hx
      simpa [NotOof] using this
  obtain ⟨n, k, h⟩ := program_correct F prog hp hne c hc fns obj env out 0 0 f hF hnd
  obtain ⟨st', hrun, hres⟩ := h 0
  cases hpr : programResult 0 0 (execSs (Api.newMachine c false fns (fun _ => false)) F obj 0 f prog env out) with
  | none => exact ⟨0, trivial⟩
  | some p =>
    obtain ⟨r, s⟩ := p
    have hpr' : programResult (0 + k) 0 (execSs (Api.newMachine c false fns (fun _ => false)) F obj 0 f prog env out) =
        some (r, { s with polls := 0 + k }) := by
      revert hpr
      cases execSs (Api.newMachine c false fns (fun _ => false)) F obj 0 f prog env out <;>
        simp [programResult] <;> intro h1 h2 <;> subst h1 <;> subst h2 <;> simp
    rw [hpr'] at hres
    simp only at hres
    obtain ⟨h1, h2, h3, _⟩ := hres
    have hend : (run (Api.newMachine c false fns (fun _ => false)) obj (0 + n) ⟨env, out, 0, 0⟩).1 ≠ .error .outOfFuel := by
      rw [hrun, h1]; exact hclean r s hpr
    obtain ⟨f', g1, g2, g3⟩ := C03_optimizer_preserves_finished_runs c fns obj hv (0 + n) ⟨env, out, 0, 0⟩ ⟨env, out, 0, 0⟩
      ⟨rfl, rfl, rfl⟩ hend
    refine ⟨f', ?_, ?_, ?_⟩
    · rw [g1, hrun, h1]
    · rw [g2, hrun, h2]
    · rw [g3, hrun, h3]

open EvalFilter.Compiler EvalFilter.Exec in
/-- … scripts with their own functions included (definitions at top level): the OPTIMISED program - main
    body and function bodies optimised - computes the semantics over the script's own function table -/
theorem C03_optimised_program_with_functions_correct (prog : Program) (hp : pureSs prog = true)
    (hne : 1 ≤ Stmt.sizes prog) (c : Compiled)
    (hc : compileProgram prog = .ok c) (hv : validated c = true) (fns : List (Str × FnImpl)) (obj : HostVal) (env : Env) (out : Str)
    (f : Nat)
    (hnd : execSs (Api.newMachine c false fns (fun _ => false)) (allDefs prog) obj 0 f prog env out ≠ .diverged) :
    ∃ f', match programResult 0 0 (execSs (Api.newMachine c false fns (fun _ => false)) (allDefs prog) obj 0 f prog env out) with
      | some (r, s) =>
        (run (Api.newMachine c true fns (fun _ => false)) obj f' ⟨env, out, 0, 0⟩).1 = r ∧
        (run (Api.newMachine c true fns (fun _ => false)) obj f' ⟨env, out, 0, 0⟩).2.out = s.out ∧
        (run (Api.newMachine c true fns (fun _ => false)) obj f' ⟨env, out, 0, 0⟩).2.env.globals = s.env.globals
      | none => True :=
  C03_optimised_program_correct (allDefs prog) prog hp hne c hc hv fns obj env out f
    (fnOK_of_compile_all prog hp c hc fns obj) hnd

/-- the validator accepts real programs: `x = 1 + 2 * 3; if (true) { x = x + 1; } if (1 == 2) { x = 0; } return x;`
    compiled by the model compiler optimises in validated steps -/
example : validated (match Compiler.compileProgram
    [ .expr (.assign ['x'] (.infix ['+'] (.intLit ['1'] 1) (.infix ['*'] (.intLit ['2'] 2) (.intLit ['3'] 3)))),
      .expr (.ifE (.boolLit true) [ .expr (.assign ['x'] (.infix ['+'] (.ident ['x']) (.intLit ['1'] 1))) ] none),
      .expr (.ifE (.infix ['=', '='] (.intLit ['1'] 1) (.intLit ['2'] 2)) [ .expr (.assign ['x'] (.intLit ['0'] 0)) ] none),
      .ret (.ident ['x']) ] with | .ok c => c | .error _ => ⟨[], [], []⟩) = true := by decide +kernel

/-- … and refuses the one fold that does change behaviour (KF-12): `return √9;` -/
example : validated (match Compiler.compileProgram [ .ret (.prefix ['√'] (.intLit ['9'] 9)) ] with
    | .ok c => c | .error _ => ⟨[], [], []⟩) = false := by decide +kernel

/-- the opcode numbering the passes compare bytes with is the one in code/code.go (regenerated) -/
theorem C03_opcodes_are_the_code : Generated.opcodes = Spec.Tables.opcodes := Props.Tables.gen_opcodes

end EvalFilter.Props.C03
