/-
  C04 — Scripts see the host object's fields faithfully.

  Go's `reflect` is trusted; verified is the conversion logic of vm.go over a tree
  (`HostVal`) that describes a Go value the way reflect presents it.
-/
import EvalFilter.Model.VM

namespace EvalFilter.Props.C04
open EvalFilter EvalFilter.Reflect

/-! ### supported kinds are converted without loss -/

theorem C04_int (v : Int64) (ro : Bool) :
    toObject ro (.intV .int v) = .ok (.int v) ∧ toObject ro (.intV .int64 v) = .ok (.int v) := by
  simp [toObject, pure, Except.pure]

theorem C04_float (f : Float) (is32 ro : Bool) : toObject ro (.floatV is32 f) = .ok (.float f) := by
  simp [toObject, pure, Except.pure]

theorem C04_string (s : Str) (ro : Bool) : toObject ro (.strV s) = .ok (.str s) := by simp [toObject, pure, Except.pure]
theorem C04_bool (b ro : Bool) : toObject ro (.boolV b) = .ok (.bool b) := by simp [toObject, pure, Except.pure]

/-- time.Time is seen as its Unix seconds -/
theorem C04_time (u : Int64) : toObject false (.timeV u) = .ok (.int u) := by simp [toObject, pure, Except.pure]

/-- the members of a slice that are of a supported kind -/
def elemValue : HostVal → Option Value
  | .strV s => some (.str s)
  | .boolV b => some (.bool b)
  | .floatV _ f => some (.float f)
  | .intV k v => if k == .int || k == .int32 || k == .int64 then some (.int v) else none
  | .timeV u => some (.int u)
  | _ => none

/-- a slice becomes the array of its convertible members, in the same order … -/
theorem C04_slice (els : List HostVal) : sliceToArray false els = .ok (els.filterMap elemValue) := by
  induction els with
  | nil => rfl
  | cons e es ih =>
    simp only [sliceToArray, ih]
    cases e <;> simp [elemValue, List.filterMap_cons, bind, Except.bind, pure, Except.pure]
    all_goals (rename_i k v; by_cases h : (k == IntKind.int || k == IntKind.int32 || k == IntKind.int64) = true <;> simp_all)

/-- … and when every member is of a supported kind, with the same length -/
theorem C04_slice_same_length (els : List HostVal) (h : ∀ e ∈ els, (elemValue e).isSome) (vs : List Value)
    (hv : sliceToArray false els = .ok vs) : vs.length = els.length := by
  rw [C04_slice] at hv
  cases hv
  induction els with
  | nil => rfl
  | cons e es ih =>
    have he := h e (by simp)
    cases hx : elemValue e with
    | none => simp [hx] at he
    | some x =>
      simp only [List.filterMap_cons, hx, List.length_cons]
      rw [ih (fun e' he' => h e' (by simp [he']))]

/-- a slice field is seen as an array -/
theorem C04_slice_field (els : List HostVal) :
    toObject false (.sliceV els) = .ok (.array (els.filterMap elemValue)) := by
  simp [toObject, C04_slice, bind, Except.bind, pure, Except.pure]

/-! ### unsupported kinds yield null or an error (a recovered panic), never Go's nil and never a crash -/

mutual
  theorem toObject_ne_nil : ∀ (hv : HostVal) (ro : Bool) (v : Value), toObject ro hv = .ok v → v ≠ .nil
    | .nilIface, ro, v, h => by simp [toObject, pure, Except.pure] at h; subst h; simp
    | .intV k x, ro, v, h => by
        simp only [toObject] at h
        split at h
        · cases h; simp
        · split at h <;> cases h; simp
    | .uintV _, ro, v, h => by simp only [toObject] at h; split at h <;> cases h; simp
    | .floatV _ _, ro, v, h => by simp [toObject, pure, Except.pure] at h; subst h; simp
    | .strV _, ro, v, h => by simp [toObject, pure, Except.pure] at h; subst h; simp
    | .boolV _, ro, v, h => by simp [toObject, pure, Except.pure] at h; subst h; simp
    | .timeV _, ro, v, h => by simp only [toObject] at h; split at h <;> cases h; simp
    | .structV _, ro, v, h => by simp only [toObject] at h; split at h <;> cases h; simp
    | .sliceV els, ro, v, h => by
        simp only [toObject, bind, Except.bind] at h
        split at h
        · cases h
        · cases h; simp
    | .mapV ei es, ro, v, h => by
        simp only [toObject, bind, Except.bind] at h
        split at h
        · cases h
        · cases h; simp
    | .nilPtr, ro, v, h => by simp only [toObject] at h; split at h <;> cases h; simp
    | .ptrV _, ro, v, h => by simp only [toObject] at h; split at h <;> cases h; simp
    | .ifaceV _, ro, v, h => by simp only [toObject] at h; split at h <;> cases h; simp
    | .opaqueV, ro, v, h => by simp only [toObject] at h; split at h <;> cases h; simp
end

/-- a field of a kind the engine cannot represent (unsigned and sized integers, pointers, nested
    structs, interfaces, functions, channels …) is null to the script -/
theorem C04_unsupported_is_null :
    toObject false (.uintV 3) = .ok .null ∧ toObject false (.intV .int8 3) = .ok .null ∧
    toObject false (.intV .int16 3) = .ok .null ∧ toObject false (.intV .int32 3) = .ok .null ∧
    toObject false .nilPtr = .ok .null ∧ toObject false (.ptrV (.intV .int 1)) = .ok .null ∧
    toObject false (.structV []) = .ok .null ∧ toObject false (.ifaceV (.intV .int 1)) = .ok .null ∧
    toObject false .opaqueV = .ok .null ∧ toObject false .nilIface = .ok .null := by
  simp [toObject, pure, Except.pure]

/-! ### lookup order: variable, then field, then null; each run sees this run's object -/

theorem C04_variable_first (obj : HostVal) (env : VM.Env) (name : Str) (v : Value)
    (hn : ¬ Str.hasPrefix name ['$']) (h : env.get name = some v) : VM.lookup obj env name = .ok v := by
  have : Str.trimPrefix name ['$'] = name := by simp [Str.trimPrefix, hn]
  simp [VM.lookup, this, h]

theorem C04_then_field (obj : HostVal) (env : VM.Env) (name : Str) (fs : List (Str × Value))
    (hn : ¬ Str.hasPrefix name ['$']) (h : env.get name = none) (hf : fieldsOf obj = .ok fs) :
    VM.lookup obj env name = .ok ((lookupField fs name).getD .null) := by
  have : Str.trimPrefix name ['$'] = name := by simp [Str.trimPrefix, hn]
  simp [VM.lookup, this, h, hf]

/-- a name that is neither a variable nor a field yields null -/
theorem C04_neither_is_null (obj : HostVal) (env : VM.Env) (name : Str) (fs : List (Str × Value))
    (hn : ¬ Str.hasPrefix name ['$']) (h : env.get name = none) (hf : fieldsOf obj = .ok fs)
    (hno : lookupField fs name = none) : VM.lookup obj env name = .ok .null := by
  rw [C04_then_field obj env name fs hn h hf, hno]; rfl

/-- the legacy `$` prefix is dropped: `$Name` reads what `Name` reads -/
theorem C04_dollar (obj : HostVal) (env : VM.Env) (name : Str) (hn : ¬ Str.hasPrefix name ['$']) :
    VM.lookup obj env ('$' :: name) = VM.lookup obj env name := by
  have h1 : Str.trimPrefix ('$' :: name) ['$'] = name := by simp [Str.trimPrefix, Str.hasPrefix]
  have h2 : Str.trimPrefix name ['$'] = name := by simp [Str.trimPrefix, hn]
  simp only [VM.lookup, h1, h2]

/-- a struct (by value or through a pointer) exposes each exported field under its name -/
theorem C04_struct_fields (fs : List HField) :
    fieldsOf (.structV fs) = structFields fs ∧ fieldsOf (.ptrV (.structV fs)) = structFields fs := by
  simp [fieldsOf]

/-- nil as the object: no fields, every name that is not a variable is null -/
theorem C04_nil_object : fieldsOf .nilIface = .ok [] := rfl

example : toObject false (.sliceV [.intV .int 1, .strV ['a'], .uintV 2, .floatV true 1.5]) =
    .ok (.array [.int 1, .str ['a'], .float 1.5]) := by
  rw [C04_slice_field]; rfl

end EvalFilter.Props.C04
