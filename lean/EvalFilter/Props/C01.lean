/-
  C01 — Expressions evaluate to the value the language defines, or to an error.

  The operator semantics is stated outright, as laws of the model's
  `executeBinaryOperation` (`VM.binop`), `executeIndexExpression`, the unary
  operators and the range operator, for ALL operand values (no sampling): each
  sentence of the property statement is a theorem below.  Floating-point
  arithmetic itself (`+ - * / <` on `Float`) is the hardware's and is never
  unfolded, so the theorems hold for any interpretation of those primitives.

  The tie to the Go code: `Props/Tables.lean` (operator → opcode table, opcode
  numbering) and the correspondence streams S-ops (every operator × every ordered
  pair of boundary values × three provenances, exhaustive) and S-expr.
-/
import EvalFilter.Model.VM
import EvalFilter.Props.Tables
import EvalFilter.Proofs.ExprCorrect
import EvalFilter.Proofs.NoOof

namespace EvalFilter.Props.C01
open EvalFilter EvalFilter.VM

variable (M : Machine)

/-! ### dispatch: which table an operand pair reaches -/

theorem C01_dispatch_int_int (op : Op) (a b : Int64) (h1 : op ≠ .and) (h2 : op ≠ .or) :
    binop M op (.int a) (.int b) = (intOp op a b).map (fun v => (v, [])) := by
  cases op <;> simp_all [binop]

/-! ### integer arithmetic stays integer -/

theorem C01_int_add (a b : Int64) : binop M .add (.int a) (.int b) = .ok (.int (a + b), []) := by
  simp [binop, intOp, Except.map]
theorem C01_int_sub (a b : Int64) : binop M .sub (.int a) (.int b) = .ok (.int (a - b), []) := by
  simp [binop, intOp, Except.map]
theorem C01_int_mul (a b : Int64) : binop M .mul (.int a) (.int b) = .ok (.int (a * b), []) := by
  simp [binop, intOp, Except.map]
theorem C01_int_div (a b : Int64) (h : b ≠ 0) : binop M .div (.int a) (.int b) = .ok (.int (a / b), []) := by
  simp [binop, intOp, Except.map, h]
theorem C01_int_mod (a b : Int64) (h : b ≠ 0) : binop M .mod (.int a) (.int b) = .ok (.int (a % b), []) := by
  simp [binop, intOp, Except.map, h]

/-- the result of an arithmetic operator on two integers, when there is one, is an integer -/
theorem C01_int_arith_stays_int (op : Op) (a b : Int64) (v : Value)
    (hop : op = .add ∨ op = .sub ∨ op = .mul ∨ op = .div ∨ op = .mod ∨ op = .power)
    (h : intOp op a b = .ok v) : ∃ i, v = .int i := by
  rcases hop with rfl | rfl | rfl | rfl | rfl | rfl <;> simp only [intOp] at h
  · exact ⟨_, (Except.ok.inj h).symm⟩
  · exact ⟨_, (Except.ok.inj h).symm⟩
  · exact ⟨_, (Except.ok.inj h).symm⟩
  · split at h
    · cases h
    · exact ⟨_, (Except.ok.inj h).symm⟩
  · split at h
    · cases h
    · exact ⟨_, (Except.ok.inj h).symm⟩
  · split at h
    · split at h
      · exact ⟨_, (Except.ok.inj h).symm⟩
      · cases h
    · cases h

/-! ### int mixed with float is computed in float -/

theorem C01_mixed_int_float (op : Op) (a : Int64) (b : Float) :
    binop M op (.int a) (.float b) =
      (if op = .and then .ok (.bool ((Value.int a).truthy && (Value.float b).truthy), [])
       else if op = .or then .ok (.bool ((Value.int a).truthy || (Value.float b).truthy), [])
       else (floatOp op a.toFloat b).map (fun v => (v, []))) := by
  cases op <;> simp [binop, vbool, Except.map]

theorem C01_mixed_float_int (op : Op) (a : Float) (b : Int64) :
    binop M op (.float a) (.int b) =
      (if op = .and then .ok (.bool ((Value.float a).truthy && (Value.int b).truthy), [])
       else if op = .or then .ok (.bool ((Value.float a).truthy || (Value.int b).truthy), [])
       else (floatOp op a b.toFloat).map (fun v => (v, []))) := by
  cases op <;> simp [binop, vbool, Except.map]

theorem C01_float_float (op : Op) (a b : Float) (h1 : op ≠ .and) (h2 : op ≠ .or) :
    binop M op (.float a) (.float b) = (floatOp op a b).map (fun v => (v, [])) := by
  cases op <;> simp_all [binop, Except.map]

/-- arithmetic in float yields a float -/
theorem C01_float_arith_is_float (op : Op) (a b : Float) (v : Value)
    (hop : op = .add ∨ op = .sub ∨ op = .mul ∨ op = .div)
    (h : floatOp op a b = .ok v) : v.isType .FLOAT = true := by
  rcases hop with rfl | rfl | rfl | rfl <;> simp [floatOp, err] at h
  · subst h; rfl
  · subst h; rfl
  · subst h; rfl
  · split at h <;> simp at h
    subst h; rfl

/-- comparisons between numbers are numeric whatever the mix of int and float -/
theorem C01_eq_numeric_cross (a : Int64) (b : Float) :
    binop M .equal (.int a) (.float b) = .ok (.bool (a.toFloat == b), []) ∧
    binop M .equal (.float b) (.int a) = .ok (.bool (b == a.toFloat), []) ∧
    binop M .notEqual (.int a) (.float b) = .ok (.bool (a.toFloat != b), []) ∧
    binop M .less (.int a) (.float b) = .ok (.bool (a.toFloat < b), []) := by
  simp [binop, floatOp, vbool, Except.map]

/-! ### division and modulo by zero never produce a value -/

theorem C01_div_zero_int (a : Int64) : binop M .div (.int a) (.int 0) = .error (.error "div0") := by
  simp [binop, intOp, err, Except.map]

theorem C01_mod_zero_int (a : Int64) : binop M .mod (.int a) (.int 0) = .error .panic := by
  simp [binop, intOp, Except.map]

theorem C01_div_zero_float (a : Float) (b : Float) (hb : (b == 0) = true) :
    floatOp .div a b = .error (.error "div0") := by
  simp [floatOp, err, hb]

/-- `/` and `%` by integer zero are errors, never values -/
theorem C01_div_mod_zero_never_value (op : Op) (hop : op = .div ∨ op = .mod) (a : Int64) (v : Value) (st' : Str) :
    binop M op (.int a) (.int 0) ≠ .ok (v, st') := by
  rcases hop with rfl | rfl <;> simp [binop, intOp, err, Except.map]

/-! ### strings concatenate and order lexically -/

theorem C01_string_concat (a b : Str) : binop M .add (.str a) (.str b) = .ok (.str (a ++ b), []) := by
  simp [binop, strOp, Except.map]

theorem C01_string_order (a b : Str) :
    binop M .less (.str a) (.str b) = .ok (.bool (Str.lt a b), []) ∧
    binop M .lessEqual (.str a) (.str b) = .ok (.bool (Str.le a b), []) ∧
    binop M .greater (.str a) (.str b) = .ok (.bool (Str.lt b a), []) ∧
    binop M .greaterEqual (.str a) (.str b) = .ok (.bool (Str.le b a), []) ∧
    binop M .equal (.str a) (.str b) = .ok (.bool (a == b), []) ∧
    binop M .notEqual (.str a) (.str b) = .ok (.bool (a != b), []) := by
  simp [binop, strOp, vbool, Except.map]

/-- `Str.lt` is the lexicographic order on code points: irreflexive and total -/
theorem Str_lt_irrefl (a : Str) : Str.lt a a = false := by
  induction a with
  | nil => rfl
  | cons c cs ih => simp [Str.lt, ih]

theorem Str_lt_total (a b : Str) : Str.lt a b = true ∨ Str.lt b a = true ∨ a = b := by
  induction a generalizing b with
  | nil => cases b <;> simp [Str.lt]
  | cons c cs ih =>
    cases b with
    | nil => simp [Str.lt]
    | cons d ds =>
      simp only [Str.lt]
      by_cases h1 : c.toNat < d.toNat
      · simp [h1]
      · by_cases h2 : d.toNat < c.toNat
        · simp [h1, h2]
        · have hcd : c = d := Char.toNat_inj.mp (by omega)
          subst hcd
          simp [h1]
          exact ih ds

/-! ### `==` and `!=` compare other types only like-with-like -/

/-- comparing values of different non-numeric types is an error, never a value -/
theorem C01_eq_unlike_is_error (op : Op) (hop : op = .equal ∨ op = .notEqual) (l r : Value)
    (hl : ¬ (l.isType .INTEGER ∨ l.isType .FLOAT)) (hlr : l.type? ≠ r.type?)
    (hlv : l.type?.isSome) (hrv : r.type?.isSome)
    (hsr : ¬ (l.isType .STRING ∧ r.isType .REGEXP)) :
    binop M op l r = .error (.error "typeMismatch") := by
  rcases hop with rfl | rfl <;>
  cases l <;> cases r <;>
    simp_all [binop, Value.isType, Value.type?, err, Except.map]

/-! ### `~=` and `!~` test a string against a regexp; `in` tests membership or substring -/

theorem C01_in_array (l : Value) (els : List Value) (hl : l ≠ .nil) :
    binop M .arrayIn l (.array els) = .ok (.bool (els.any (fun e => sameTypeAndText l e)), []) := by
  cases l <;> simp_all [binop, vbool, Except.map]

/-- `in` with a right operand that is neither an array nor (for a string on the left) a string is an error -/
theorem C01_in_needs_array (l r : Value) (v : Value) (st' : Str)
    (hr : ¬ r.isType .ARRAY) (hs : ¬ (l.isType .STRING ∧ r.isType .STRING)) :
    binop M .arrayIn l r ≠ .ok (v, st') := by
  cases l <;> cases r <;> simp_all [binop, Value.isType, Value.type?, err, Except.map, intOp, floatOp]

theorem C01_in_substring (a b : Str) :
    binop M .arrayIn (.str a) (.str b) = .ok (.bool (Str.contains b a), []) := by
  simp [binop, strOp, vbool, Except.map]

/-- `Str.contains` is the substring relation -/
theorem Str_contains_iff (s sub : Str) :
    Str.contains s sub = true ↔ ∃ pre post, s = pre ++ sub ++ post := by
  have hp : ∀ (s p : Str), Str.hasPrefix s p = true ↔ ∃ post, s = p ++ post := by
    intro s p
    induction p generalizing s with
    | nil => simp [Str.hasPrefix]
    | cons c cs ih =>
      cases s with
      | nil => simp [Str.hasPrefix]
      | cons d ds =>
        simp only [Str.hasPrefix, Bool.and_eq_true, beq_iff_eq, ih, List.cons_append, List.cons.injEq]
        constructor
        · rintro ⟨rfl, post, rfl⟩; exact ⟨post, rfl, rfl⟩
        · rintro ⟨post, rfl, rfl⟩; exact ⟨rfl, post, rfl⟩
  induction s with
  | nil =>
    simp only [Str.contains, List.isEmpty_iff]
    constructor
    · rintro rfl; exact ⟨[], [], rfl⟩
    · rintro ⟨pre, post, h⟩
      have := congrArg List.length h
      simp at this
      exact List.eq_nil_of_length_eq_zero (by omega)
  | cons c cs ih =>
    simp only [Str.contains, Bool.or_eq_true, hp, ih]
    constructor
    · rintro (⟨post, h⟩ | ⟨pre, post, h⟩)
      · exact ⟨[], post, by simpa using h⟩
      · exact ⟨c :: pre, post, by simp [h]⟩
    · rintro ⟨pre, post, h⟩
      cases pre with
      | nil => left; exact ⟨post, by simpa using h⟩
      | cons d pre' =>
        right
        simp only [List.cons_append, List.cons.injEq] at h
        exact ⟨pre', post, h.2⟩

/-- operand types an operator does not accept end the run with an error - they never produce a
    value: every operator other than `&&`, `||` and `in`, applied to a pair of operands that is
    not number×number, string×string, string×regexp or boolean×boolean, is an error. -/
theorem C01_unsupported_types_error (op : Op) (l r : Value)
    (hand : op ≠ .and) (hor : op ≠ .or) (hin : op ≠ .arrayIn)
    (hnum : ¬ ((l.isType .INTEGER ∨ l.isType .FLOAT) ∧ (r.isType .INTEGER ∨ r.isType .FLOAT)))
    (hs : ¬ (l.isType .STRING ∧ (r.isType .STRING ∨ r.isType .REGEXP)))
    (hb : ¬ (l.isType .BOOLEAN ∧ r.isType .BOOLEAN)) :
    ∃ e, binop M op l r = .error e := by
  cases l <;> cases r <;>
    simp_all [binop, Value.isType, Value.type?, err, Except.map] <;>
    (first | exact ⟨_, rfl⟩ | (split <;> exact ⟨_, rfl⟩))

/-! ### unary operators, index and range -/

theorem C01_minus (v : Value) :
    minusOp v = (match v with
      | .int i => .ok (.int (-i)) | .float f => .ok (.float (-f)) | _ => .error (.error "negType")) := by
  cases v <;> rfl

theorem C01_sqrt_is_float (v r : Value) (h : sqrtOp v = .ok r) : r.isType .FLOAT = true := by
  cases v <;> simp [sqrtOp, err] at h <;> subst h <;> rfl

theorem C01_range (a b : Int64) (h : a ≤ b) (hs : (b.toInt - a.toInt + 1).toNat ≤ maxRange) :
    rangeOp (.int a) (.int b) =
      .ok (.array ((List.range (b.toInt - a.toInt + 1).toNat).map (fun k => .int (a + Int64.ofNat k)))) := by
  have : ¬ (a > b) := by
    intro hh; exact absurd h (Int64.not_le.mpr hh)
  simp [rangeOp, this]
  omega

theorem C01_range_errors (lo hi : Value) (v : Value)
    (h : ¬ (lo.isType .INTEGER ∧ hi.isType .INTEGER)) : rangeOp lo hi ≠ .ok v := by
  cases lo <;> cases hi <;> simp_all [rangeOp, Value.isType, Value.type?, err]

/-- non-vacuity: concrete instances of the laws above -/
example : binop M .add (.int 2) (.int 3) = .ok (.int 5, []) := C01_int_add M 2 3
example : binop M .div (.int 7) (.int 0) = .error (.error "div0") := C01_div_zero_int M 7
example : Str.contains "hello".toList "ell".toList = true := by decide

/-! ### whole expressions: the compiled code computes the big-step value -/

open EvalFilter.Exec in
/-- **Compiler + VM correctness for expressions.**  For every expression of the value-producing fragment
    (literals, identifiers/fields, prefix and binary operators incl. `~=` `in` `..` `.`, index, array
    literals, hash literals written in the compiler's key order, the ternary, calls of built-in and host
    functions - any size, any nesting), the code the compiler emits for it, placed anywhere
    in a program that fits the 16-bit operand space, computes exactly `evalE`: operands and arguments left
    to right, then the operator of the laws above or the function (whose marker and output are written);
    the first error ends the run with that error; on success the value is on top of the stack and the VM
    continues right behind the code.  (`Correct` asks that the semantics defines the outcome: a call of a
    user-defined function inside an expression, or of a function that yields no value, is where it does not.) -/
theorem C01_expr_correct (e : Expr) (base : Nat) (cst : Compiler.CState) (r : List Instr × Compiler.CState)
    (hp : pureE e = true) (hc : Compiler.compileExpr e base cst = .ok r) (M : Machine) (obj : HostVal) (code : Bytes)
    (ctx : Ctx M code) (hat : CodeAt code base r.1) (hpool : ∃ ex, M.consts = r.2.consts ++ ex) :
    Correct M obj code e base :=
  expr_ok e base cst r hp hc M obj code ctx hat hpool

open EvalFilter.Exec in
/-- … and with no side condition at all for expressions without calls: the semantics defines an outcome for
    every one of them, in every state -/
theorem C01_expr_correct_callfree (e : Expr) (base : Nat) (cst : Compiler.CState) (r : List Instr × Compiler.CState)
    (hp : pureE e = true) (hcf : callFree e = true) (hc : Compiler.compileExpr e base cst = .ok r) (M : Machine) (obj : HostVal) (code : Bytes)
    (ctx : Ctx M code) (hat : CodeAt code base r.1) (hpool : ∃ ex, M.consts = r.2.consts ++ ex)
    (stack : List Value) (env : Env) (out : Str) (polls depth : Nat) :
    ∃ n k, ∀ fuel,
      loop M obj code (fuel + n) base stack ⟨env, out, polls, depth⟩ =
        after M obj code fuel (base + e.size) stack env (polls + k) depth (evalE M obj env e out) :=
  expr_ok e base cst r hp hc M obj code ctx hat hpool stack env out polls depth (evalE_defined M obj env e out hcf)

open EvalFilter.Exec in
/-- … and for the script `return <expression>;` as `Prepare(NoOptimize)` compiles it: a run ends with
    exactly the value - or exactly the error - of the big-step semantics, having written exactly its
    output, for every host object, environment and host-function table. -/
theorem C01_return_expr_correct (e : Expr) (hp : pureE e = true) (c : Compiler.Compiled)
    (hc : Compiler.compileProgram [.ret e] = .ok c) (fns : List (Str × FnImpl)) (obj : HostVal) (env : Env) (out : Str)
    (polls depth : Nat)
    (hdef : (evalE (Api.newMachine c false fns (fun _ => false)) obj env e out).1 ≠ .error undefErr) :
    ∃ n k, ∀ fuel,
      run (Api.newMachine c false fns (fun _ => false)) obj (fuel + n) ⟨env, out, polls, depth⟩ =
        (match evalE (Api.newMachine c false fns (fun _ => false)) obj env e out with
         | (.ok v, o) => (.ok v, ⟨env, o, polls + k, depth⟩)
         | (.error x, o) => (.error x, ⟨env, o, polls + k, depth⟩)) :=
  return_expr_correct e hp c hc fns obj env out polls depth hdef

open EvalFilter.Exec in
theorem C01_return_expr_correct_callfree (e : Expr) (hp : pureE e = true) (hcf : callFree e = true) (c : Compiler.Compiled)
    (hc : Compiler.compileProgram [.ret e] = .ok c) (fns : List (Str × FnImpl)) (obj : HostVal) (env : Env) (out : Str)
    (polls depth : Nat) :
    ∃ n k, ∀ fuel,
      run (Api.newMachine c false fns (fun _ => false)) obj (fuel + n) ⟨env, out, polls, depth⟩ =
        (match evalE (Api.newMachine c false fns (fun _ => false)) obj env e out with
         | (.ok v, o) => (.ok v, ⟨env, o, polls + k, depth⟩)
         | (.error x, o) => (.error x, ⟨env, o, polls + k, depth⟩)) :=
  return_expr_correct e hp c hc fns obj env out polls depth (evalE_defined _ obj env e out hcf)

end EvalFilter.Props.C01
