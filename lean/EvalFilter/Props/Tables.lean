/-
  Table obligations.  Two kinds, all closed by kernel evaluation (`decide +kernel`):

  * `gen_*`   : the table regenerated from /repo's source on this run equals the SPEC table;
  * `model_*` : the model's function agrees with the SPEC table on every token / opcode.

  Together they tie the hand-written model to the code for everything that is a table.
-/
import EvalFilter.Spec.Tables
import EvalFilter.Generated.Opcodes
import EvalFilter.Generated.Tokens
import EvalFilter.Generated.LexerTables
import EvalFilter.Generated.ParserTables
import EvalFilter.Generated.CompilerTables
import EvalFilter.Generated.Builtins
import EvalFilter.Generated.TypeFacts
import EvalFilter.Model.Api

namespace EvalFilter.Props.Tables
open EvalFilter

/-! ### regenerated = SPEC -/
theorem gen_opcodes : Generated.opcodes = Spec.Tables.opcodes := by decide +kernel
theorem gen_defaultOpLength : Generated.defaultOpLength = Spec.Tables.defaultOpLength := by decide +kernel
theorem gen_tokenTypes : Generated.tokenTypes = Spec.Tables.tokenTypes := by decide +kernel
theorem gen_keywords : Generated.keywords = Spec.Tables.keywords := by decide +kernel
theorem gen_slashDivAfter : Generated.slashDivAfter = Spec.Tables.slashDivAfter := by decide +kernel
theorem gen_precedenceLevels : Generated.precedenceLevels = Spec.Tables.precedenceLevels := by decide +kernel
theorem gen_precedences : Generated.precedences = Spec.Tables.precedences := by decide +kernel
theorem gen_parselets : Generated.parselets = Spec.Tables.parselets := by decide +kernel
theorem gen_parseExpressionCalls :
    Generated.parseExpressionCalls = Spec.Tables.parseExpressionCalls := by decide +kernel
theorem gen_compileInfixOps : Generated.compileInfixOps = Spec.Tables.compileInfixOps := by decide +kernel
theorem gen_compilePrefixOps : Generated.compilePrefixOps = Spec.Tables.compilePrefixOps := by decide +kernel
theorem gen_inlineIntBounds : Generated.inlineIntBounds = Spec.Tables.inlineIntBounds := by decide +kernel
theorem gen_maxProgramSize : Generated.maxProgramSize = Spec.Tables.maxProgramSize := by decide +kernel
theorem gen_builtins : Generated.builtins = Spec.Tables.builtins := by decide +kernel
theorem gen_mutationSites : Generated.mutationSites = Spec.Tables.mutationSites := by decide +kernel
theorem gen_apiShapes : Generated.apiShapes = Spec.Tables.apiShapes := by decide +kernel
theorem gen_packageVars : Generated.packageVars = Spec.Tables.packageVars := by decide +kernel

/-! ### model = SPEC -/

theorem model_opcodes :
    Op.all.map (fun o => (o.name, o.toNat, o.length)) = Spec.Tables.opcodes := by decide +kernel

theorem model_opcode_roundtrip : ∀ o ∈ Op.all, Op.ofNat? o.toNat = some o := by decide +kernel

theorem model_opcode_unknown : ∀ n, n < 256 → (Op.ofNat? n).isSome = decide (n < 43) := by decide +kernel

theorem model_tokenTypes :
    TokType.all.length = Spec.Tables.tokenTypes.length + 1 ∧
    ∀ t ∈ TokType.all, t = .NONE ∨ (Spec.Tables.tokenTypes.lookup t.name).isSome := by decide +kernel

theorem model_keywords :
    keywords.map (fun (k, t) => (String.ofList k, t.name)) = Spec.Tables.keywords := by decide +kernel

theorem model_slashDivAfter :
    ∀ t ∈ TokType.all, Lexer.slashDivAfter.contains t = Spec.Tables.slashDivAfter.contains t.name := by
  decide +kernel

/-- numeric level of a level name: its index in the `iota` block -/
def levelOf (name : String) : Nat := Spec.Tables.precedenceLevels.idxOf name

theorem model_precedence :
    ∀ t ∈ TokType.all,
      Parser.precedence t =
        (match Spec.Tables.precedences.lookup t.name with
         | some l => levelOf l
         | none => levelOf "LOWEST") := by decide +kernel

theorem model_levels :
    [Parser.LOWEST, Parser.TERNARY, Parser.ASSIGN, Parser.COND, Parser.EQUALS, Parser.CMP,
     Parser.LESSGREATER, Parser.SUM, Parser.PRODUCT, Parser.POWER, Parser.MOD, Parser.PREFIX,
     Parser.CALL, Parser.INDEX] =
    ["LOWEST", "TERNARY", "ASSIGN", "COND", "EQUALS", "CMP", "LESSGREATER", "SUM", "PRODUCT", "POWER",
     "MOD", "PREFIX", "CALL", "INDEX"].map levelOf := by decide +kernel

def prefixMethod : Parser.PrefixFn → String
  | .prefixOp => "parsePrefixExpression" | .eof => "parseEOF" | .boolLit => "parseBooleanLiteral"
  | .floatLit => "parseFloatLiteral" | .whileS => "parseWhileStatement" | .foreachS => "parseForEach"
  | .funcDef => "parseFunctionDefinition" | .ident => "parseIdentifier" | .ifE => "parseIfExpression"
  | .illegal => "parseIllegal" | .intLit => "parseIntegerLiteral" | .localV => "parseLocalVariable"
  | .hashLit => "parseHashLiteral" | .grouped => "parseGroupedExpression" | .arrayLit => "parseArrayLiteral"
  | .regexpLit => "parseRegexpLiteral" | .stringLit => "parseStringLiteral" | .switchS => "parseSwitchStatement"

def infixMethod : Parser.InfixFn → String
  | .binary => "parseInfixExpression" | .assign => "parseAssignExpression" | .call => "parseCallExpression"
  | .index => "parseIndexExpression" | .ternary => "parseTernaryExpression"

def parseletOf (kind : String) (t : TokType) : Option String :=
  (Spec.Tables.parselets.find? (fun p => p.1 == kind && p.2.1 == t.name)).map (·.2.2)

theorem model_parselets :
    ∀ t ∈ TokType.all,
      (Parser.prefixFn t).map prefixMethod = parseletOf "Prefix" t ∧
      (Parser.infixFn t).map infixMethod = parseletOf "Infix" t ∧
      Parser.isPostfix t = (parseletOf "Postfix" t).isSome := by decide +kernel

/-- every operator of the compiler's table is compiled by the model to the same opcode(s) -/
theorem model_compileInfixOps :
    ∀ p ∈ Spec.Tables.compileInfixOps,
      (if p.2 == "OpSet" then (Compiler.compoundOp p.1.toList).isSome
       else (Compiler.binaryOp p.1.toList).map Op.name == some p.2 ||
            (Compiler.compoundOp p.1.toList).map Op.name == some p.2) = true := by decide +kernel

theorem model_compilePrefixOps :
    ∀ p ∈ Spec.Tables.compilePrefixOps, (Compiler.prefixOp p.1.toList).map Op.name = some p.2 := by
  decide +kernel

theorem model_limits :
    Spec.Tables.inlineIntBounds = ["0", toString Compiler.inlineLimit] ∧
    Compiler.maxProgramSize = Spec.Tables.maxProgramSize := by decide +kernel

theorem model_builtins : Builtins.names = Spec.Tables.builtins.map (·.1) := by decide +kernel

end EvalFilter.Props.Tables
