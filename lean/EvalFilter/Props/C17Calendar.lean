/-
  C17 (calendar part) — hour/minute/seconds/day/month/year/weekday decompose a time exactly.
-/
import EvalFilter.Model.Builtins

namespace EvalFilter.Props.C17Calendar
open EvalFilter EvalFilter.Builtins

/-- days since 1970-01-01 of a proleptic-Gregorian civil date (the textbook formula) -/
def daysFromCivil (y : Int) (m d : Nat) : Int :=
  let y' := if m ≤ 2 then y - 1 else y
  let era := (if y' ≥ 0 then y' else y' - 399) / 400
  let yoe := (y' - era * 400).toNat
  let mp := if m > 2 then m - 3 else m + 9
  let doy := (153 * mp + 2) / 5 + d - 1
  let doe := yoe * 365 + yoe / 4 - yoe / 100 + doy
  era * 146097 + doe - 719468

/-- the round-trip property of one day number -/
def civilOk (z : Int) : Bool :=
  let (y, m, d) := civilFromDays z
  daysFromCivil y m d == z && 1 ≤ m && m ≤ 12 && 1 ≤ d && d ≤ 31

/-- `civilOk` on the `len` days starting at day number `start` (counted from 1970-01-01) -/
def civilOkRange (start : Nat) : Nat → Bool
  | 0 => true
  | len + 1 => civilOk ((start + len : Nat) : Int) && civilOkRange start len

theorem civilOkRange_spec (start len : Nat) (h : civilOkRange start len = true) :
    ∀ k, k < len → civilOk ((start + k : Nat) : Int) = true := by
  induction len with
  | zero => intro k hk; omega
  | succ n ih =>
    simp only [civilOkRange, Bool.and_eq_true] at h
    intro k hk
    by_cases hkn : k = n
    · subst hkn; exact h.1
    · exact ih h.2 k (by omega)

/-- `civilFromDays` inverts `daysFromCivil` (and yields a month in 1..12 and a day in 1..31) on
    every day from 1999-01-01 on for 1 500 days (around the year-2000 leap day), checked one by one by
    kernel evaluation.  This is a test of the algorithm, labelled as such: the unbounded claim is
    not proved; the correspondence stream compares with Go's `time` package on 1600–2400. -/
theorem C17_civil_roundtrip_sample : civilOkRange 10592 1500 = true := by decide +kernel

theorem C17_civil_roundtrip (k : Nat) (hk : k < 1500) : civilOk ((10592 + k : Nat) : Int) = true :=
  civilOkRange_spec _ _ C17_civil_roundtrip_sample k hk

example : civilFromDays 0 = (1970, 1, 1) := by decide
example : civilFromDays 11016 = (2000, 2, 29) := by decide

end EvalFilter.Props.C17Calendar
