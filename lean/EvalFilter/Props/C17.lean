/-
  C17 — Built-in functions keep their documented contracts.
-/
import EvalFilter.Model.VM
import EvalFilter.Props.Tables

namespace EvalFilter.Props.C17
open EvalFilter EvalFilter.VM EvalFilter.Builtins

variable (M : Machine)

def resVal : BRes → Option Value
  | { res := .val v, .. } => some v
  | _ => none

/-! ### min / max / between agree with the language's own `<=` -/

/-- the comparison used by min, max and between IS the `<=` operator of the language on numbers -/
theorem C17_le_is_the_operator (a b : Value) (ha : isNumber a = true) (hb : isNumber b = true) :
    binop M .lessEqual a b = .ok (.bool (numberLessEqual a b), []) := by
  cases a <;> cases b <;>
    simp_all [isNumber, binop, intOp, floatOp, vbool, numberLessEqual, toFloat, Except.map] <;>
    congr

theorem C17_min (a b : Value) (ha : isNumber a = true) (hb : isNumber b = true) :
    resVal (call "min" [a, b]) = some (if numberLessEqual a b then a else b) := by
  simp [call, ha, hb, ret, resVal]

theorem C17_max (a b : Value) (ha : isNumber a = true) (hb : isNumber b = true) :
    resVal (call "max" [a, b]) = some (if numberLessEqual b a then a else b) := by
  simp [call, ha, hb, ret, resVal]

/-- min and max return one of their two arguments -/
theorem C17_min_max_select (a b : Value) (ha : isNumber a = true) (hb : isNumber b = true) :
    (resVal (call "min" [a, b]) = some a ∨ resVal (call "min" [a, b]) = some b) ∧
    (resVal (call "max" [a, b]) = some a ∨ resVal (call "max" [a, b]) = some b) := by
  rw [C17_min a b ha hb, C17_max a b ha hb]
  constructor <;> split <;> simp

/-- on integers min is the smaller and max the larger -/
theorem C17_min_max_int (a b : Int64) :
    resVal (call "min" [.int a, .int b]) = some (.int (if a ≤ b then a else b)) ∧
    resVal (call "max" [.int a, .int b]) = some (.int (if b ≤ a then a else b)) := by
  simp only [call, isNumber, numberLessEqual, ret, resVal, Bool.and_self, ↓reduceIte]
  constructor
  · by_cases h : a ≤ b <;> simp [h]
  · by_cases h : b ≤ a <;> simp [h]

/-- between(v, lo, hi) is true exactly when lo <= v <= hi -/
theorem C17_between (v lo hi : Value) (h1 : isNumber v = true) (h2 : isNumber lo = true) (h3 : isNumber hi = true) :
    resVal (call "between" [v, lo, hi]) = some (.bool (numberLessEqual lo v && numberLessEqual v hi)) := by
  simp [call, h1, h2, h3, ret, resVal]

theorem C17_between_int (v lo hi : Int64) :
    resVal (call "between" [.int v, .int lo, .int hi]) = some (.bool (decide (lo ≤ v) && decide (v ≤ hi))) := by
  rw [C17_between _ _ _ rfl rfl rfl]; simp [numberLessEqual]

/-- arguments that are not numbers yield null -/
theorem C17_min_max_between_non_numbers (a b c : Value) (h : isNumber a = false ∨ isNumber b = false) :
    resVal (call "min" [a, b]) = some .null ∧ resVal (call "max" [a, b]) = some .null ∧
    resVal (call "between" [a, b, c]) = some .null ∧ resVal (call "between" [c, a, b]) = some .null := by
  rcases h with h | h <;> simp [call, h, null, ret, resVal]

/-! ### sort / reverse -/

/-- sort and reverse return a permutation of their input (which, values being immutable, is unchanged) -/
theorem C17_sort_perm (vs : List Value) (lower rev : Bool) : (sortValues vs lower rev).Perm vs := by
  simp only [sortValues]
  exact ((List.mergeSort_perm _ _).map Prod.snd).trans
    (List.Perm.of_eq (by simp [List.map_map, Function.comp_def]))

theorem C17_sort_length (vs : List Value) (lower rev : Bool) : (sortValues vs lower rev).length = vs.length :=
  (C17_sort_perm vs lower rev).length_eq

/-! ### join(split(s, d), d) = s -/

theorem joinWith_append_singleton (sep : Str) (acc : List Str) (x : Str) (h : acc ≠ []) :
    joinWith sep (acc ++ [x]) = joinWith sep acc ++ sep ++ x := by
  induction acc with
  | nil => exact absurd rfl h
  | cons a as ih =>
    cases as with
    | nil => simp [joinWith]
    | cons b bs =>
      have := ih (by simp)
      simp only [List.cons_append, joinWith] at this ⊢
      rw [this]; simp [List.append_assoc]

theorem hasPrefix_split : ∀ (s p : Str), Str.hasPrefix s p = true → s = p ++ s.drop p.length := by
  intro s p
  induction p generalizing s with
  | nil => simp
  | cons d ds ihp =>
    cases s with
    | nil => simp [Str.hasPrefix]
    | cons e es =>
      simp only [Str.hasPrefix, Bool.and_eq_true, beq_iff_eq]
      rintro ⟨rfl, h⟩
      simp [← ihp es h]

theorem splitGo_join (sep : Str) (hsep : sep ≠ []) (fuel : Nat) (rest cur : Str) (acc : List Str)
    (hf : rest.length < fuel) :
    joinWith sep (splitOn.go sep fuel rest cur acc) =
      (if acc = [] then cur ++ rest else joinWith sep acc ++ sep ++ cur ++ rest) := by
  induction fuel generalizing rest cur acc with
  | zero => omega
  | succ n ih =>
    cases rest with
    | nil =>
      simp only [splitOn.go]
      by_cases ha : acc = []
      · simp [ha, joinWith]
      · simp [ha, joinWith_append_singleton sep acc cur ha]
    | cons c cs =>
      simp only [splitOn.go]
      by_cases hp : Str.hasPrefix (c :: cs) sep = true
      · simp only [hp, ↓reduceIte]
        have hlen : ((c :: cs).drop sep.length).length < n := by
          have : sep.length ≥ 1 := by cases sep <;> simp_all
          simp only [List.length_drop, List.length_cons] at hf ⊢; omega
        rw [ih _ _ _ hlen]
        have hpre := hasPrefix_split _ _ hp
        have hne : acc ++ [cur] ≠ [] := by simp
        simp only [hne, ↓reduceIte, List.nil_append]
        by_cases ha : acc = []
        · subst ha
          simp only [List.nil_append, joinWith, ↓reduceIte, List.append_assoc]
          rw [← hpre]
        · rw [joinWith_append_singleton sep acc cur ha]
          simp only [ha, ↓reduceIte, List.append_assoc, List.append_nil, List.nil_append]
          rw [← hpre]
      · simp only [hp, Bool.false_eq_true, ↓reduceIte]
        have hlen : cs.length < n := by simp only [List.length_cons] at hf; omega
        rw [ih _ _ _ hlen]
        by_cases ha : acc = [] <;> simp [ha, List.append_assoc]

theorem joinWith_singletons (s : Str) : joinWith [] (s.map (fun c => [c])) = s := by
  induction s with
  | nil => rfl
  | cons c cs ih =>
    cases cs with
    | nil => rfl
    | cons d ds => simp only [List.map_cons, joinWith] at ih ⊢; simp [ih]

/-- join(split(s, d), d) is s, for every string and every separator -/
theorem C17_join_split (s d : Str) : joinWith d (splitOn s d) = s := by
  unfold splitOn
  by_cases hd : d = []
  · subst hd; simp [joinWith_singletons]
  · have hd' : d.isEmpty = false := by cases d <;> simp_all
    simp only [hd', Bool.false_eq_true, ↓reduceIte]
    rw [splitGo_join d hd (s.length + 1) s [] [] (by omega)]
    simp

theorem C17_join_split_builtin (s d : Str) :
    (match resVal (call "split" [.str s, .str d]) with
     | some arr => resVal (call "join" [arr, .str d])
     | none => none) = some (.str s) := by
  simp only [call, ret, resVal]
  simp [List.map_map, Function.comp_def, Value.inspect, C17_join_split]

/-! ### string / type conversions -/

theorem C17_string_is_printed_form (v : Value) : resVal (call "string" [v]) = some (.str v.inspect) := by
  simp [call, ret, resVal]

theorem C17_type_names (v : Value) (t : VType) (h : v.type? = some t) :
    resVal (call "type" [v]) = some (.str (toLower t.name)) := by
  simp [call, ret, resVal, h]

theorem C17_len_string (s : Str) : resVal (call "len" [.str s]) = some (.int (Int64.ofNat s.length)) := by
  simp [call, ret, resVal, Value.inspect]

/-! ### wrong argument counts yield null (false for match) -/

def isNull : Option Value → Bool | some .null => true | _ => false
def isFalse : Option Value → Bool | some (.bool false) => true | _ => false

theorem C17_wrong_arity_null :
    ∀ n ∈ ["between", "float", "getenv", "int", "join", "keys", "len", "lower", "max", "min", "replace",
           "reverse", "sort", "split", "sprintf", "string", "trim", "type", "upper", "hour", "minute",
           "seconds", "day", "month", "year", "weekday"],
      isNull (resVal (call n [])) = true := by decide +kernel

theorem C17_wrong_arity_null_too_many :
    ∀ n ∈ ["between", "float", "getenv", "int", "join", "keys", "len", "lower", "max", "min", "replace",
           "reverse", "sort", "split", "string", "trim", "type", "upper", "hour", "minute",
           "seconds", "day", "month", "year", "weekday"],
      isNull (resVal (call n [.int 1, .int 2, .int 3, .int 4])) = true := by decide +kernel

theorem C17_match_wrong_arity_false :
    isFalse (resVal (call "match" [])) = true ∧ isFalse (resVal (call "match" [.str []])) = true ∧
    isFalse (resVal (call "match" [.str [], .str [], .str []])) = true := by decide +kernel

end EvalFilter.Props.C17
