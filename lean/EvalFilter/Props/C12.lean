/-
  C12 — Expressions parse with the documented precedence and grouping.

  Three layers:
  * the precedence table and the parselet registrations of the Go parser are
    regenerated on every run and proved equal to the table the model uses
    (`Props/Tables.lean`); the documented order of the levels is a theorem about it;
  * for EVERY ordered pair of the 18 binary operators, and every ordered triple over a
    set of 11 that has every level (1331 triples), the model parser is evaluated in the kernel: `a o1 b o2 c [o3 d]` parses to the same tree as
    the fully parenthesised text the documented rules prescribe (and to a different
    tree than the other groupings) - the quantifier "all pairs and triples of
    adjacent binary operators" of the property, exhaustively;
  * structural facts for arbitrary input: operands of a binary operator are parsed
    at the operator's own level (hence left-to-right grouping of equal levels), a
    parenthesised expression parses to the tree of its content, and a ternary inside
    a ternary is rejected whatever surrounds it.
-/
import EvalFilter.Model.Parser
import EvalFilter.Props.Tables
import EvalFilter.Proofs.Pratt
import EvalFilter.Proofs.PrattTernary

namespace EvalFilter.Props.C12
open EvalFilter EvalFilter.Parser

/-! ### the documented order of the levels -/

/-- index/call > prefix > % > ** > * / > + - > comparisons, ~= !~ in > == != > && || > range and
    assignment > ternary -/
theorem C12_documented_order :
    precedence .LSQUARE > precedence .LPAREN ∧ precedence .LPAREN > PREFIX ∧ PREFIX > precedence .MOD ∧
    precedence .MOD > precedence .POW ∧ precedence .POW > precedence .ASTERISK ∧
    precedence .ASTERISK = precedence .SLASH ∧ precedence .ASTERISK > precedence .PLUS ∧
    precedence .PLUS = precedence .MINUS ∧ precedence .PLUS > precedence .LT ∧
    precedence .LT = precedence .LTEQUALS ∧ precedence .LT = precedence .GT ∧ precedence .LT = precedence .GTEQUALS ∧
    precedence .LT = precedence .CONTAINS ∧ precedence .LT = precedence .MISSING ∧ precedence .LT = precedence .IN ∧
    precedence .LT > precedence .EQ ∧ precedence .EQ = precedence .NOTEQ ∧ precedence .EQ > precedence .AND ∧
    precedence .AND = precedence .OR ∧ precedence .AND > precedence .DOTDOT ∧
    precedence .DOTDOT = precedence .ASSIGN ∧ precedence .PLUSEQUALS = precedence .ASSIGN ∧
    precedence .MINUSEQUALS = precedence .ASSIGN ∧ precedence .ASTERISKEQUALS = precedence .ASSIGN ∧
    precedence .SLASHEQUALS = precedence .ASSIGN ∧ precedence .ASSIGN > precedence .QUESTION ∧
    precedence .QUESTION > LOWEST ∧ precedence .PERIOD = precedence .LSQUARE := by decide

/-- the table the model uses is the one in the Go source (regenerated on this run) -/
theorem C12_table_is_the_code :
    Generated.precedences = Spec.Tables.precedences ∧ Generated.precedenceLevels = Spec.Tables.precedenceLevels ∧
    Generated.parselets = Spec.Tables.parselets ∧ Generated.parseExpressionCalls = Spec.Tables.parseExpressionCalls :=
  ⟨Props.Tables.gen_precedences, Props.Tables.gen_precedenceLevels, Props.Tables.gen_parselets,
   Props.Tables.gen_parseExpressionCalls⟩

/-! ### every pair and every triple of adjacent binary operators -/

/-- the binary operators of expressions (compound assignments and `=` need a variable on the left
    and are statement forms; they are covered by the correspondence stream) -/
def binOps : List Token :=
  [⟨.PLUS, ['+']⟩, ⟨.MINUS, ['-']⟩, ⟨.ASTERISK, ['*']⟩, ⟨.SLASH, ['/']⟩, ⟨.MOD, ['%']⟩, ⟨.POW, ['*', '*']⟩,
   ⟨.LT, ['<']⟩, ⟨.LTEQUALS, ['<', '=']⟩, ⟨.GT, ['>']⟩, ⟨.GTEQUALS, ['>', '=']⟩, ⟨.EQ, ['=', '=']⟩,
   ⟨.NOTEQ, ['!', '=']⟩, ⟨.AND, ['&', '&']⟩, ⟨.OR, ['|', '|']⟩, ⟨.DOTDOT, ['.', '.']⟩, ⟨.IN, ['i', 'n']⟩,
   ⟨.CONTAINS, ['~', '=']⟩, ⟨.MISSING, ['!', '~']⟩]

def idt (n : Char) : Token := ⟨.IDENT, [n]⟩
def lp : Token := ⟨.LPAREN, ['(']⟩
def rp : Token := ⟨.RPAREN, [')']⟩
def semi : Token := ⟨.SEMICOLON, [';']⟩
def retT : Token := ⟨.RETURN, ['r', 'e', 't', 'u', 'r', 'n']⟩

/-- an injective rendering of operator trees (fully parenthesised) -/
def render : Expr → Str
  | .ident n => n
  | .infix op l r => ['('] ++ render l ++ [' '] ++ op ++ [' '] ++ render r ++ [')']
  | .prefix op r => ['('] ++ op ++ render r ++ [')']
  | .index l i => ['('] ++ render l ++ ['['] ++ render i ++ [']', ')']
  | .ternary c t f => ['('] ++ render c ++ ['?'] ++ render t ++ [':'] ++ render f ++ [')']
  | .call f _ => render f ++ ['(', ')']
  | _ => ['#']

/-- parse `return <toks>;` and render the tree of the returned expression -/
def parseStr (toks : List Token) : Option Str :=
  match parse (retT :: toks ++ [semi, Token.eof]) with
  | some [.ret e] => some (render e)
  | _ => none

/-- the grouping the documented rules give to `a o1 b o2 c`: higher level binds tighter,
    equal levels group left to right -/
def groupPair (o1 o2 : Token) : List Token :=
  if precedence o1.ty ≥ precedence o2.ty then [lp, idt 'a', o1, idt 'b', rp, o2, idt 'c']
  else [idt 'a', o1, lp, idt 'b', o2, idt 'c', rp]

def otherPair (o1 o2 : Token) : List Token :=
  if precedence o1.ty ≥ precedence o2.ty then [idt 'a', o1, lp, idt 'b', o2, idt 'c', rp]
  else [lp, idt 'a', o1, idt 'b', rp, o2, idt 'c']

/-- For every ordered pair of binary operators, `a o1 b o2 c` parses, and parses to the tree of the
    parenthesisation the documented rules prescribe … -/
theorem C12_all_pairs :
    ∀ o1 ∈ binOps, ∀ o2 ∈ binOps,
      (parseStr [idt 'a', o1, idt 'b', o2, idt 'c']).isSome = true ∧
      parseStr [idt 'a', o1, idt 'b', o2, idt 'c'] = parseStr (groupPair o1 o2) := by decide +kernel

/-- … and to a different tree than the other parenthesisation: parentheses that regroup change the meaning -/
theorem C12_regroup_differs :
    ∀ o1 ∈ binOps, ∀ o2 ∈ binOps,
      parseStr [idt 'a', o1, idt 'b', o2, idt 'c'] ≠ parseStr (otherPair o1 o2) := by decide +kernel

/-- the tree of `a o1 b o2 c o3 d` according to the documented rules, obtained by inserting the
    parentheses the rules imply, innermost (tightest, leftmost) first -/
def groupTriple (o1 o2 o3 : Token) : List Token :=
  let p1 := precedence o1.ty; let p2 := precedence o2.ty; let p3 := precedence o3.ty
  let a := idt 'a'; let b := idt 'b'; let c := idt 'c'; let d := idt 'd'
  if p1 ≥ p2 then
    -- (a o1 b) first
    if p2 ≥ p3 then [lp, lp, a, o1, b, rp, o2, c, rp, o3, d]          -- ((a o1 b) o2 c) o3 d
    else if p1 ≥ p3 then [lp, a, o1, b, rp, o2, lp, c, o3, d, rp]     -- (a o1 b) o2 (c o3 d)
    else [lp, a, o1, b, rp, o2, lp, c, o3, d, rp]                      -- (a o1 b) o2 (c o3 d)
  else
    -- b o2 c binds tighter than a o1 b
    if p2 ≥ p3 then
      if p1 ≥ p3 then [lp, a, o1, lp, b, o2, c, rp, rp, o3, d]        -- (a o1 (b o2 c)) o3 d
      else [a, o1, lp, lp, b, o2, c, rp, o3, d, rp]                    -- a o1 ((b o2 c) o3 d)
    else [a, o1, lp, b, o2, lp, c, o3, d, rp, rp]                      -- a o1 (b o2 (c o3 d))

/-- at least one operator of every level, and two of the levels that have several (so that
    "equal level, different operator" is covered); all 18 operators are covered pairwise above -/
def tripleOps : List Token :=
  [⟨.PLUS, ['+']⟩, ⟨.MINUS, ['-']⟩, ⟨.ASTERISK, ['*']⟩, ⟨.SLASH, ['/']⟩, ⟨.MOD, ['%']⟩, ⟨.POW, ['*', '*']⟩,
   ⟨.LT, ['<']⟩, ⟨.EQ, ['=', '=']⟩, ⟨.AND, ['&', '&']⟩, ⟨.OR, ['|', '|']⟩, ⟨.DOTDOT, ['.', '.']⟩]

theorem C12_tripleOps_cover_levels :
    (∀ o ∈ tripleOps, o ∈ binOps) ∧ ∀ o ∈ binOps, ∃ o' ∈ tripleOps, precedence o'.ty = precedence o.ty := by
  decide +kernel

/-- For every ordered triple of these binary operators (1331 triples), `a o1 b o2 c o3 d` parses to
    the tree of the parenthesisation the documented rules prescribe. -/
theorem C12_all_triples :
    ∀ o1 ∈ tripleOps, ∀ o2 ∈ tripleOps, ∀ o3 ∈ tripleOps,
      parseStr [idt 'a', o1, idt 'b', o2, idt 'c', o3, idt 'd'] = parseStr (groupTriple o1 o2 o3) ∧
      (parseStr (groupTriple o1 o2 o3)).isSome = true := by decide +kernel

/-! ### prefix operators bind tighter than every binary operator, looser than index and call -/

def prefixOps : List Token := [⟨.MINUS, ['-']⟩, ⟨.BANG, ['!']⟩, ⟨.SQRT, ['√']⟩]

theorem C12_prefix_vs_infix :
    ∀ p ∈ prefixOps, ∀ o ∈ binOps,
      parseStr [p, idt 'a', o, idt 'b'] = parseStr [lp, p, idt 'a', rp, o, idt 'b'] ∧
      parseStr [idt 'a', o, p, idt 'b'] = parseStr [idt 'a', o, lp, p, idt 'b', rp] ∧
      (parseStr [p, idt 'a', o, idt 'b']).isSome = true := by decide +kernel

theorem C12_prefix_vs_index_call :
    ∀ p ∈ prefixOps,
      parseStr [p, idt 'a', ⟨.LSQUARE, ['[']⟩, idt 'i', ⟨.RSQUARE, [']']⟩] =
        parseStr [p, lp, idt 'a', ⟨.LSQUARE, ['[']⟩, idt 'i', ⟨.RSQUARE, [']']⟩, rp] ∧
      parseStr [p, idt 'f', lp, idt 'x', rp] = parseStr [p, lp, idt 'f', lp, idt 'x', rp, rp] ∧
      (parseStr [p, idt 'f', lp, idt 'x', rp]).isSome = true := by decide +kernel

/-- index and call bind tighter than every binary operator -/
theorem C12_index_vs_infix :
    ∀ o ∈ binOps,
      parseStr [idt 'a', o, idt 'b', ⟨.LSQUARE, ['[']⟩, idt 'i', ⟨.RSQUARE, [']']⟩] =
        parseStr [idt 'a', o, lp, idt 'b', ⟨.LSQUARE, ['[']⟩, idt 'i', ⟨.RSQUARE, [']']⟩, rp] ∧
      parseStr [idt 'a', o, idt 'f', lp, idt 'x', rp] = parseStr [idt 'a', o, lp, idt 'f', lp, idt 'x', rp, rp] := by
  decide +kernel

/-! ### the ternary is the loosest operator; nested ternaries are rejected -/

def q : Token := ⟨.QUESTION, ['?']⟩
def col : Token := ⟨.COLON, [':']⟩

theorem C12_ternary_loosest :
    ∀ o ∈ binOps,
      parseStr [idt 'a', o, idt 'b', q, idt 'c', col, idt 'd'] =
        parseStr [lp, idt 'a', o, idt 'b', rp, q, idt 'c', col, idt 'd'] ∧
      parseStr [idt 'c', q, idt 'a', o, idt 'b', col, idt 'd'] =
        parseStr [idt 'c', q, lp, idt 'a', o, idt 'b', rp, col, idt 'd'] ∧
      parseStr [idt 'c', q, idt 'd', col, idt 'a', o, idt 'b'] =
        parseStr [idt 'c', q, idt 'd', col, lp, idt 'a', o, idt 'b', rp] ∧
      (parseStr [idt 'c', q, idt 'd', col, idt 'a', o, idt 'b']).isSome = true := by decide +kernel

/-- A ternary inside a ternary is rejected, in the condition-free positions (either arm), whatever
    the tokens, the fuel and the rest of the parser state are. -/
theorem C12_nested_ternary_rejected (fuel : Nat) (left : Expr) (s : PState) (h : s.tern = true) :
    parseInfix fuel .ternary left s = none := by
  cases fuel with
  | zero => rfl
  | succ n => simp [parseInfix, h]

theorem C12_nested_ternary_examples :
    parseStr [idt 'a', q, idt 'b', q, idt 'c', col, idt 'd', col, idt 'e'] = none ∧
    parseStr [idt 'a', q, idt 'b', col, idt 'c', q, idt 'd', col, idt 'e'] = none ∧
    parseStr [idt 'a', q, lp, idt 'b', q, idt 'c', col, idt 'd', rp, col, idt 'e'] = none ∧
    (parseStr [lp, idt 'a', q, idt 'b', col, idt 'c', rp, q, idt 'd', col, idt 'e']).isSome = true := by
  decide +kernel

/-! ### structural facts for arbitrary input -/

/-- the right operand of a binary operator is parsed at the operator's own level: that is what makes
    operators of equal level group left to right and lets only tighter operators nest to the right -/
theorem C12_right_operand_level (fuel : Nat) (left : Expr) (s : PState) :
    parseInfix (fuel + 1) .binary left s =
      (match parseExpression fuel (precedence s.cur.ty) s.next with
       | none => none
       | some (r, s') =>
         some (.infix s.cur.lit left (if s.cur.lit == ['.'] && !r.str.isEmpty then .strLit r.str else r), s')) := by
  simp only [parseInfix]
  cases parseExpression fuel (precedence s.cur.ty) s.next with
  | none => rfl
  | some p => cases p; rfl

/-- a parenthesised expression denotes the tree of its content (no node is created for the
    parentheses): parentheses only override grouping -/
theorem C12_parentheses_transparent (fuel : Nat) (s : PState) :
    parsePrefix (fuel + 1) .grouped s =
      (match parseExpression fuel LOWEST s.next with
       | none => none
       | some (e, s') => (s'.expectPeek .RPAREN).map (fun s'' => (e, s''))) := by
  simp only [parsePrefix]
  cases parseExpression fuel LOWEST s.next with
  | none => rfl
  | some p => cases p; rfl

/-! ### the general statement: trees of any size -/

/-- every one of the 18 binary operators is an operator of the round-trip theorem -/
theorem C12_binOps_are_binary : ∀ o ∈ binOps, Bin o := by
  intro o ho
  simp only [binOps, List.mem_cons, List.not_mem_nil, or_false] at ho
  rcases ho with rfl | rfl | rfl | rfl | rfl | rfl | rfl | rfl | rfl | rfl | rfl | rfl | rfl | rfl | rfl | rfl | rfl | rfl <;>
    exact ⟨rfl, by decide⟩

/-- **Round trip.**  For every operator tree `t` over atoms (identifiers, integer, decimal, string,
    boolean and regexp literals), prefix operators (`!`, `-`, `√`), binary operators, index expressions
    `l[i]`, calls `f(a, b, …)` and array literals `[a, b, …]` - of any size and shape (nesting below the parser's guard of 2000) - printed by `T.pr` with a
    pair of parentheses exactly around a left operand of lower level, around a right operand of lower or
    equal level, around a binary operand of a prefix operator, and around an indexed or called operand
    that binds less tightly (arguments and elements never need any; the printer also wraps a call that
    is then indexed, which is not necessary but harmless), `return <that text>;` parses to exactly `t`.  Hence: indexing and calling bind tighter than prefix operators, those tighter than every binary operator, higher level binds
    tighter, equal levels group left to right, parentheses override, for expressions of unbounded size. -/
theorem C12_round_trip (t : T) (hwf : t.wf) (hn : t.nest ≤ maxNesting) :
    parse (retTok :: t.pr ++ [semiTok, Token.eof]) = some [.ret t.toExpr] :=
  pratt_round_trip t hwf hn

/-- so the printed form determines the tree: the documented rules are unambiguous -/
theorem C12_grouping_unambiguous (t1 t2 : T) (h1 : t1.wf) (h2 : t2.wf) (n1 : t1.nest ≤ maxNesting)
    (n2 : t2.nest ≤ maxNesting) (h : t1.pr = t2.pr) : t1.toExpr = t2.toExpr := by
  have a := C12_round_trip t1 h1 n1
  have b := C12_round_trip t2 h2 n2
  rw [h] at a
  rw [a] at b
  simpa using b

/-- the atoms of the round-trip theorem: what the lexer's operand tokens denote -/
theorem C12_atoms (n v l : Str) (i : Int64) (x : Float) (hi : parseIntLit l = some i) (hx : parseFloatLit l = some x) :
    Atom ⟨.IDENT, n⟩ (.ident n) ∧ Atom ⟨.STRING, v⟩ (.strLit v) ∧ Atom ⟨.TRUE, l⟩ (.boolLit true) ∧
    Atom ⟨.FALSE, l⟩ (.boolLit false) ∧ Atom ⟨.INT, l⟩ (.intLit l i) ∧ Atom ⟨.FLOAT, l⟩ (.floatLit l x) ∧
    Atom ⟨.REGEXP, l⟩ (.regexpLit l (splitRegexp l).1 (splitRegexp l).2) :=
  ⟨atom_ident n, atom_string v, atom_true l, atom_false l, atom_int l i hi, atom_float l x hx, atom_regexp l⟩

/-- … and its prefix operators -/
theorem C12_prefix_ops : Pre ⟨.BANG, ['!']⟩ ∧ Pre ⟨.MINUS, ['-']⟩ ∧ Pre ⟨.SQRT, ['√']⟩ := ⟨rfl, rfl, rfl⟩

private def idT (n : Str) : T := .leaf ⟨.IDENT, n⟩ (.ident n)

/-- non-vacuity: a concrete tree, its minimal-parentheses text, and the theorem's hypotheses:
    `(a + b) * -(c - (d - e))` and `!!a` -/
theorem C12_round_trip_example :
    let plus : Token := ⟨.PLUS, ['+']⟩
    let star : Token := ⟨.ASTERISK, ['*']⟩
    let minus : Token := ⟨.MINUS, ['-']⟩
    let bang : Token := ⟨.BANG, ['!']⟩
    let t : T := .node star (.node plus (idT ['a']) (idT ['b'])) (.pre minus (.node minus (idT ['c']) (.node minus (idT ['d']) (idT ['e']))))
    t.pr.map (·.lit) = [['('], ['a'], ['+'], ['b'], [')'], ['*'], ['-'], ['('], ['c'], ['-'], ['('], ['d'], ['-'], ['e'], [')'], [')']] ∧
    t.nest ≤ maxNesting ∧
    (T.pre bang (.pre bang (idT ['a']))).pr.map (·.lit) = [['!'], ['!'], ['a']] ∧
    -- -a[i + 1][0] is -((a[i + 1])[0]);  (-a)[0] needs its parentheses
    (T.pre minus (.idx (.idx (idT ['a']) (.node plus (idT ['i']) (idT ['1']))) (idT ['0']))).pr.map (·.lit) =
      [['-'], ['a'], ['['], ['i'], ['+'], ['1'], [']'], ['['], ['0'], [']']] ∧
    (T.idx (.pre minus (idT ['a'])) (idT ['0'])).pr.map (·.lit) = [['('], ['-'], ['a'], [')'], ['['], ['0'], [']']] ∧
    -- a[0](a + 1, [b, c]) : an indexed operand called with two arguments, the second an array literal
    (T.call (.idx (idT ['a']) (idT ['0'])) (.cons (.node plus (idT ['a']) (idT ['1'])) (.cons (.arr (.cons (idT ['b']) (.cons (idT ['c']) .nil))) .nil))).pr.map (·.lit) =
      [['a'], ['['], ['0'], [']'], ['('], ['a'], ['+'], ['1'], [','], ['['], ['b'], [','], ['c'], [']'], [')']] ∧
    -- the printer puts a (harmless) pair of parentheses around a call that is then indexed
    (T.idx (.call (idT ['f']) .nil) (idT ['0'])).pr.map (·.lit) = [['('], ['f'], ['('], [')'], [')'], ['['], ['0'], [']']] := by
  decide

theorem C12_round_trip_example_wf :
    (T.node ⟨.ASTERISK, ['*']⟩ (.node ⟨.PLUS, ['+']⟩ (idT ['a']) (idT ['b']))
      (.pre ⟨.MINUS, ['-']⟩ (.node ⟨.MINUS, ['-']⟩ (idT ['c']) (idT ['d'])))).wf :=
  ⟨⟨rfl, by decide⟩, ⟨⟨rfl, by decide⟩, atom_ident _, atom_ident _⟩, rfl, ⟨rfl, by decide⟩, atom_ident _, atom_ident _⟩

/-- **Round trip with a ternary on top.**  `return c ? t : f;` - condition and arms any trees of the round-trip
    theorem, printed with their necessary parentheses and NONE around them - parses to the ternary of exactly
    those three trees: the ternary binds looser than every operator, in all three positions, for operands of
    unbounded size.  (A ternary inside a ternary is rejected: `C12_nested_ternary_rejected`.) -/
theorem C12_ternary_round_trip (c t e : T) (hc : c.wf) (ht : t.wf) (he : e.wf)
    (hnc : c.nest ≤ maxNesting) (hnt : t.nest + 1 ≤ maxNesting) (hne : e.nest + 1 ≤ maxNesting) :
    parse (retTok :: (c.pr ++ qT :: (t.pr ++ colT :: (e.pr ++ [semiTok, Token.eof])))) =
      some [.ret (.ternary c.toExpr t.toExpr e.toExpr)] :=
  pratt_round_trip_ternary c t e hc ht he hnc hnt hne

/-- non-vacuity: `a > b ? a + 1 : b * 2` -/
theorem C12_ternary_example :
    let gt : Token := ⟨.GT, ['>']⟩
    let plus : Token := ⟨.PLUS, ['+']⟩
    let star : Token := ⟨.ASTERISK, ['*']⟩
    let one : T := .leaf ⟨.INT, ['1']⟩ (.intLit ['1'] 1)
    let two : T := .leaf ⟨.INT, ['2']⟩ (.intLit ['2'] 2)
    let c : T := .node gt (idT ['a']) (idT ['b'])
    let t : T := .node plus (idT ['a']) one
    let e : T := .node star (idT ['b']) two
    (c.pr ++ qT :: (t.pr ++ colT :: e.pr)).map (·.lit) = [['a'], ['>'], ['b'], ['?'], ['a'], ['+'], ['1'], [':'], ['b'], ['*'], ['2']] ∧
    c.nest ≤ maxNesting ∧ t.nest + 1 ≤ maxNesting ∧ e.nest + 1 ≤ maxNesting := by
  decide

theorem C12_ternary_example_wf :
    (T.node ⟨.GT, ['>']⟩ (idT ['a']) (idT ['b'])).wf ∧
    (T.node ⟨.PLUS, ['+']⟩ (idT ['a']) (.leaf ⟨.INT, ['1']⟩ (.intLit ['1'] 1))).wf :=
  ⟨⟨⟨rfl, by decide⟩, atom_ident _, atom_ident _⟩, ⟨rfl, by decide⟩, atom_ident _, atom_int _ _ (by decide)⟩

end EvalFilter.Props.C12
