/-
  C06 — Functions and scopes: locals stay local, everything else is global.

  The environment is the pair (global map, stack of scopes).  Parameters, `local`
  variables and foreach variables are bound with `declare` in the innermost
  scope; assignments use `set` (update the nearest binding, else the global map);
  `invoke` opens a scope for a call and `finish` closes whatever the callee left open.
-/
import EvalFilter.Proofs.VMFrame
import EvalFilter.Props.Tables
import EvalFilter.Proofs.FnDefs3
import EvalFilter.Proofs.FnDefs4

namespace EvalFilter.Props.C06
open EvalFilter EvalFilter.VM

/-! ### association lists -/
theorem lookup_setAssoc_same (l : Scope) (k : Str) (v : Value) : (setAssoc l k v).lookup k = some v := by
  induction l with
  | nil => simp [setAssoc]
  | cons p ps ih =>
    obtain ⟨k', v'⟩ := p
    simp only [setAssoc]
    by_cases h : k' = k
    · simp [h]
    · have hb : (k' == k) = false := by simpa using h
      have hb2 : (k == k') = false := by simpa using Ne.symm h
      simp [hb, List.lookup, hb2, ih]

theorem lookup_setAssoc_other (l : Scope) (k k2 : Str) (v : Value) (h : k2 ≠ k) :
    (setAssoc l k v).lookup k2 = l.lookup k2 := by
  induction l with
  | nil =>
    have hb : (k2 == k) = false := by simpa using h
    simp [setAssoc, List.lookup, hb]
  | cons p ps ih =>
    obtain ⟨k', v'⟩ := p
    simp only [setAssoc]
    by_cases hk : k' = k
    · subst hk
      have hb : (k2 == k') = false := by simpa using h
      simp [List.lookup, hb]
    · have hb : (k' == k) = false := by simpa using hk
      simp only [hb, Bool.false_eq_true, ↓reduceIte, List.lookup]
      cases hk2 : (k2 == k') <;> simp [ih]

/-! ### parameters, locals and loop variables: `declare` -/

/-- a declaration touches only the innermost scope: the global variables and every enclosing
    scope (the caller's variables) are unchanged -/
theorem C06_declare_isolated (e : Env) (name : Str) (v : Value) :
    (e.declare name v).globals = e.globals ∧ (e.declare name v).scopes.dropLast = e.scopes.dropLast ∧
    (e.declare name v).scopes.length = e.scopes.length := by
  unfold Env.declare
  split
  · exact ⟨rfl, rfl, rfl⟩
  · rename_i s rest heq
    have hrev : e.scopes = rest.reverse ++ [s] := by
      have := congrArg List.reverse heq
      simpa using this
    simp [hrev]

/-- inside the scope the declared name has the declared value -/
theorem C06_declare_visible (e : Env) (name : Str) (v : Value) (h : e.scopes ≠ []) :
    (e.declare name v).get name = some v := by
  unfold Env.declare
  split
  · rename_i heq
    exact absurd (by simpa using heq) h
  · rename_i s rest heq
    simp [Env.get, Env.isLocal, lookup_setAssoc_same]

/-- closing a scope discards exactly what was declared in it -/
theorem C06_remove_after_add (e : Env) : e.addScope.removeScope = some e := by
  cases e with
  | mk g s => simp [Env.addScope, Env.removeScope]

theorem C06_declare_then_remove (e : Env) (name : Str) (v : Value) :
    (e.addScope.declare name v).removeScope = some e := by
  cases e with
  | mk g s =>
    simp [Env.addScope, Env.declare, Env.removeScope]

/-- so after a call the caller's variable of the same name has its old value -/
theorem C06_shadow_restored (e e' : Env) (name : Str) (v : Value)
    (h : (e.addScope.declare name v).removeScope = some e') : e'.get name = e.get name := by
  rw [C06_declare_then_remove] at h
  cases h; rfl

/-! ### everything else is global: `set` -/

/-- an assignment to a name that no open scope binds goes to the global map … -/
theorem C06_set_unbound_is_global (e : Env) (name : Str) (v : Value) (h : e.isLocal name = none) :
    (e.set name v).scopes = e.scopes ∧ (e.set name v).globals.lookup name = some v := by
  have hu : ∀ (ss : List Scope), (ss.reverse.findSome? (fun s => s.lookup name)) = none →
      Env.updateInnermost ss name v = none := by
    intro ss
    induction ss with
    | nil => intro _; rfl
    | cons s rest ih =>
      intro hn
      simp only [List.reverse_cons, List.findSome?_append, List.findSome?_cons, List.findSome?_nil] at hn
      have h1 : rest.reverse.findSome? (fun s => s.lookup name) = none := by
        cases hh : rest.reverse.findSome? (fun s => s.lookup name) with
        | none => rfl
        | some x => simp [hh] at hn
      have h2 : s.lookup name = none := by
        simp [h1] at hn
        cases hs : s.lookup name with
        | none => rfl
        | some x => simp [hs] at hn
      simp [Env.updateInnermost, ih h1, h2]
  unfold Env.isLocal at h
  unfold Env.set
  rw [hu e.scopes h]
  exact ⟨rfl, lookup_setAssoc_same _ _ _⟩

/-- … and is therefore still visible when every scope has been closed -/
theorem C06_globals_persist (e : Env) (name : Str) (v : Value) (h : e.isLocal name = none) :
    ({ (e.set name v) with scopes := [] } : Env).get name = some v := by
  have := (C06_set_unbound_is_global e name v h).2
  simp [Env.get, Env.isLocal, this]

/-! ### the call protocol -/

/-- a call never leaves more scopes open than there were before it, whatever the callee's byte code
    does and however it ends (return from inside loops, error, panic, time-out) -/
theorem C06_call_restores_scope_depth (runBody : Bytes → RunSt → Res × RunSt) (uf : UserFn)
    (args : List Value) (st : RunSt) (r : Res) (st' : RunSt) (env' : Env)
    (h : invoke runBody uf args st = (r, st')) (hr : st'.env.removeScope = some env') :
    env'.scopes.length ≤ st.env.scopes.length := by
  have hle : st'.env.scopes.length ≤ st.env.scopes.length + 1 := by
    have := invoke_scopes_le runBody uf args st
    rw [h] at this; exact this
  unfold Env.removeScope at hr
  split at hr
  · cases hr
  · cases hr
    simp [List.length_dropLast]
    omega

/-- a wrong argument count is a run-time error -/
theorem C06_arg_count_error (runBody : Bytes → RunSt → Res × RunSt) (uf : UserFn) (args : List Value) (st : RunSt)
    (hd : st.depth < maxCallDepth) (h : uf.params.length ≠ args.length) :
    (invoke runBody uf args st).1 = .error (.error "argCount") := by
  have : ¬ (maxCallDepth ≤ st.depth) := by omega
  unfold invoke
  simp [h, err, this]

/-- recursion deeper than the call-depth limit is a run-time error too (not a crash of the host) -/
theorem C06_recursion_limit (runBody : Bytes → RunSt → Res × RunSt) (uf : UserFn) (args : List Value) (st : RunSt)
    (hd : st.depth ≥ maxCallDepth) : invoke runBody uf args st = (.error (.error "callDepth"), st) := by
  unfold invoke
  simp [hd, err]

/-- calling a name that is neither a built-in/host function nor a user-defined function is an error -/
theorem C06_unknown_function_error (M : Machine) (obj : HostVal) (codeLen : Nat)
    (runBody : Bytes → RunSt → Res × RunSt) (n next : Nat) (fname : Value) (rest0 : List Value) (st : RunSt)
    (args rest : List Value) (hpop : popN n rest0 = some (args, rest))
    (h1 : lookupFn M fname.inspect = none) (h2 : lookupUser M fname.inspect = none) :
    step M obj codeLen runBody Op.call.toNat n next (fname :: rest0) st = .halt (.error (.error "noSuchFunction")) st := by
  simp [step, Op.ofNat?, Op.toNat, isBinary, hpop, h1, h2, err]

/-- a built-in wins over a user-defined function of the same name: OpCall consults the table of
    built-in and host functions first -/
theorem C06_builtin_wins (M : Machine) (obj : HostVal) (codeLen : Nat)
    (runBody : Bytes → RunSt → Res × RunSt) (n next : Nat) (fname : Value) (rest0 : List Value) (st : RunSt)
    (args rest : List Value) (hpop : popN n rest0 = some (args, rest)) (f : FnImpl)
    (h1 : lookupFn M fname.inspect = some f) (v : Value) (o : Str)
    (hv : callImpl fname.inspect f args = { out := o, res := .val v }) (hnv : v ≠ .nil) (hvoid : v ≠ .void) :
    step M obj codeLen runBody Op.call.toNat n next (fname :: rest0) st =
      .cont next (v :: rest) { st with out := st.out ++ o } := by
  simp only [step, Op.ofNat?, Op.toNat, isBinary, hpop, h1, hv]
  cases v <;> simp_all

/-! ### user-defined functions, end to end -/
section endToEnd
open EvalFilter.Exec EvalFilter.Compiler

/-- **Scripts that define and call their own functions run as the language defines.**  For every script
    (assignments, compound assignments, `local`, if / else, while, foreach, switch, return over
    value-producing expressions), its function definitions wherever they stand - bodies of any size, calling each other and
    themselves, before or after their definition - with calls of them in the positions `x = f(a, …);`, `f(a, …);`,
    `return f(a, …);`: the compiled program's run ends with exactly the outcome of the big-step semantics
    `execSs` over the script's own function table.  In that semantics (`callWith`) a call evaluates its
    arguments left to right; a built-in or host function of the name wins; otherwise the LAST definition of
    the name in the script is taken, wherever it stands; an unknown name, a wrong argument count and more than
    `maxCallDepth` open calls are errors; the body runs in a fresh scope holding the parameters; `return`
    gives its value, falling off the end gives none; and however the body ends (from inside loops, too) the
    scopes it opened are closed. -/
theorem C06_functions_end_to_end (prog : Program) (hp : pureSs prog = true)
    (hne : 1 ≤ Stmt.sizes prog) (c : Compiled)
    (hc : compileProgram prog = .ok c) (fns : List (Str × FnImpl)) (obj : HostVal) (env : Env) (out : Str)
    (polls depth f : Nat)
    (hnd : execSs (Api.newMachine c false fns (fun _ => false)) (allDefs prog) obj depth f prog env out ≠ .diverged) :
    ∃ n k, ∀ fuel, ∃ st',
      run (Api.newMachine c false fns (fun _ => false)) obj (fuel + n) ⟨env, out, polls, depth⟩ = st' ∧
      (match programResult (polls + k) depth (execSs (Api.newMachine c false fns (fun _ => false)) (allDefs prog) obj depth f prog env out) with
       | some (r, s) => st'.1 = r ∧ st'.2.out = s.out ∧ st'.2.env.globals = s.env.globals ∧ st'.2.polls = s.polls
       | none => True) :=
  program_correct (allDefs prog) prog hp hne c hc fns obj env out polls depth f
    (fnOK_of_compile_all prog hp c hc fns obj) hnd

/-- the machine's function table is the script's: every name the script defines is bound to the code of
    its last definition, no other name is bound -/
theorem C06_function_table (prog : Program) (hp : pureSs prog = true) (c : Compiled)
    (hc : compileProgram prog = .ok c) (fns : List (Str × FnImpl)) (obj : HostVal) :
    FnOK (Api.newMachine c false fns (fun _ => false)) (allDefs prog) obj :=
  fnOK_of_compile_all prog hp c hc fns obj

/-- in the semantics: a built-in or host function wins over a user-defined one of the same name - the
    script's own table is not even consulted -/
theorem C06_sem_builtin_wins (deep : Bool) (run : List Stmt → Env → Str → Outcome) (M : Machine) (F : FnTable) (obj : HostVal)
    (name : Str) (args : List Expr) (env : Env) (out : Str) (impl : FnImpl) (h : lookupFn M name = some impl) :
    callWith deep run M F obj name args env out = callWith deep run M [] obj name args env out := by
  unfold callWith
  cases evalEs M obj env args out with
  | mk res o => cases res <;> simp [h]

/-- in the semantics: calling a name nobody defines is an error -/
theorem C06_sem_unknown_function (deep : Bool) (run : List Stmt → Env → Str → Outcome) (M : Machine) (F : FnTable) (obj : HostVal)
    (name : Str) (args : List Expr) (env : Env) (out : Str) (vs : List Value) (o : Str)
    (ha : evalEs M obj env args out = (.ok vs, o)) (h1 : lookupFn M name = none) (h2 : F.find name = none) :
    callWith deep run M F obj name args env out = .failed (.error "noSuchFunction") env o := by
  simp [callWith, ha, h1, h2]

/-- in the semantics: a wrong argument count is an error, and the body does not run -/
theorem C06_sem_arg_count (run : List Stmt → Env → Str → Outcome) (M : Machine) (F : FnTable) (obj : HostVal)
    (name : Str) (args : List Expr) (env : Env) (out : Str) (vs : List Value) (o : Str) (sf : SFn)
    (ha : evalEs M obj env args out = (.ok vs, o)) (h1 : lookupFn M name = none) (h2 : F.find name = some sf)
    (hl : sf.params.length ≠ vs.length) :
    callWith false run M F obj name args env out = .failed (.error "argCount") env.addScope o := by
  simp [callWith, ha, h1, h2, hl]

/-- in the semantics: however the body ends, a call that comes back leaves no more scopes open than before -/
theorem C06_sem_scopes_closed (deep : Bool) (run : List Stmt → Env → Str → Outcome) (M : Machine) (F : FnTable) (obj : HostVal)
    (name : Str) (args : List Expr) (env : Env) (out : Str) :
    (∀ v env' o', callWith deep run M F obj name args env out = .value v env' o' → env'.scopes.length ≤ env.scopes.length) ∧
    (∀ env' o', callWith deep run M F obj name args env out = .novalue env' o' → env'.scopes.length ≤ env.scopes.length) := by
  have hdecl : ∀ (ps : List (Str × Value)) (e : Env),
      (ps.foldl (fun e (p : Str × Value) => e.declare p.1 p.2) e).scopes.length = e.scopes.length := by
    intro ps
    induction ps with
    | nil => intro e; rfl
    | cons p ps ih =>
      intro e
      simp only [List.foldl_cons, ih]
      unfold Env.declare
      split
      · rfl
      · rename_i s rest hr
        have := congrArg List.length hr
        simp at this ⊢
        omega
  have hend : ∀ (v : Value) (e0 : Env) (o : Str) (n : Nat),
      (∀ v' env' o', callEnd v (e0.truncate (n + 1)) o = .value v' env' o' → env'.scopes.length ≤ n) ∧
      (∀ env' o', callEnd v (e0.truncate (n + 1)) o = .novalue env' o' → env'.scopes.length ≤ n) := by
    intro v e0 o n
    unfold callEnd Env.removeScope Env.truncate
    constructor
    · intro v' env' o' h
      split at h
      · cases h
      · rename_i e hs
        split at hs
        · cases hs
        · cases hs
          split at h <;> cases h
          simp [List.length_dropLast, List.length_take]; omega
    · intro env' o' h
      split at h
      · cases h
      · rename_i e hs
        split at hs
        · cases hs
        · cases hs
          split at h <;> cases h
          simp [List.length_dropLast, List.length_take]; omega
  unfold callWith
  cases evalEs M obj env args out with
  | mk res o =>
    cases res with
    | error x => simp only []; split <;> simp
    | ok vs =>
      cases hl : lookupFn M name with
      | some impl =>
        simp only [hl]
        generalize callImpl name impl vs = cr
        cases hr : cr.res with
        | panic => simp
        | unsupported => simp
        | val v => cases v <;> simp
      | none =>
        simp only [hl]
        cases hf : F.find name with
        | none => simp
        | some sf =>
          simp only [hf]
          split
          · simp
          split
          · simp
          · have hlen : ((sf.params.zip vs).foldl (fun e (p : Str × Value) => e.declare p.1 p.2) env.addScope).scopes.length
                = env.scopes.length + 1 := by rw [hdecl]; simp [Env.addScope]
            rw [hlen]
            cases run sf.body ((sf.params.zip vs).foldl (fun e (p : Str × Value) => e.declare p.1 p.2) env.addScope) o with
            | diverged => simp
            | failed x e2 o2 => simp
            | returned v e2 o2 => exact hend v e2 o2 env.scopes.length
            | normal e2 o2 => exact hend .void e2 o2 env.scopes.length

end endToEnd

/-- the registry consulted first is the regenerated list of built-ins -/
theorem C06_builtin_registry : Builtins.names = Spec.Tables.builtins.map (·.1) := Props.Tables.model_builtins

example : (({} : Env).addScope.declare "x".toList (.int 1)).get "x".toList = some (.int 1) :=
  C06_declare_visible _ _ _ (by simp [Env.addScope])

section nonvacuous
open EvalFilter.Exec EvalFilter.Compiler
/-- `n = 7; m = 3; function f(n) { local m; m = n; n = 1; g = m; return n; } y = f(5); return n * 1000 + m * 100 + g * 10 + y;`:
    after the call the caller's `n` and `m` have their old values (the parameter and the local are gone),
    the assignment to `g` is global: 7351 -/
private def progC : Program :=
  [ .expr (.assign ['n'] (.intLit ['7'] 7)),
    .expr (.assign ['m'] (.intLit ['3'] 3)),
    .expr (.funcDef ['f'] [['n']]
      [ .expr (.localE ['m']),
        .expr (.assign ['m'] (.ident ['n'])),
        .expr (.assign ['n'] (.intLit ['1'] 1)),
        .expr (.assign ['g'] (.ident ['m'])),
        .ret (.ident ['n']) ]),
    .expr (.assign ['y'] (.call (.ident ['f']) [.intLit ['5'] 5])),
    .ret (.infix ['+'] (.infix ['+'] (.infix ['+'] (.infix ['*'] (.ident ['n']) (.intLit ['1','0','0','0'] 1000))
        (.infix ['*'] (.ident ['m']) (.intLit ['1','0','0'] 100)))
        (.infix ['*'] (.ident ['g']) (.intLit ['1','0'] 10))) (.ident ['y'])) ]
private def compC : Compiled := match compileProgram progC with | .ok c => c | .error _ => ⟨[], [], []⟩
example : pureSs progC = true := by decide
example : 1 ≤ Stmt.sizes progC := by decide
example : compileProgram progC = .ok compC := by
  have hok : (match compileProgram progC with | .ok _ => true | .error _ => false) = true := by decide +kernel
  unfold compC
  cases h : compileProgram progC with
  | ok c => rfl
  | error e => rw [h] at hok; cases hok
example : (match execSs (Api.newMachine compC false [] (fun _ => false)) (allDefs progC) .nilIface 0 20 progC {} [] with
    | .returned (.int v) _ _ => v == 7351
    | _ => false) = true := by decide +kernel
/-- definitions inside a function and inside a block:
    `function outer() { function inner(a) { return a * 2; } x = inner(4); return x + 1; }
     if (true) { function late() { return 5; } } y = outer(); z = late(); return y * 10 + z;` yields 95 -/
private def progN : Program :=
  [ .expr (.funcDef ['o','u','t','e','r'] []
      [ .expr (.funcDef ['i','n','n','e','r'] [['a']] [ .ret (.infix ['*'] (.ident ['a']) (.intLit ['2'] 2)) ]),
        .expr (.assign ['x'] (.call (.ident ['i','n','n','e','r']) [.intLit ['4'] 4])),
        .ret (.infix ['+'] (.ident ['x']) (.intLit ['1'] 1)) ]),
    .expr (.ifE (.boolLit true) [ .expr (.funcDef ['l','a','t','e'] [] [ .ret (.intLit ['5'] 5) ]) ] none),
    .expr (.assign ['y'] (.call (.ident ['o','u','t','e','r']) [])),
    .expr (.assign ['z'] (.call (.ident ['l','a','t','e']) [])),
    .ret (.infix ['+'] (.infix ['*'] (.ident ['y']) (.intLit ['1','0'] 10)) (.ident ['z'])) ]
private def compN : Compiled := match compileProgram progN with | .ok c => c | .error _ => ⟨[], [], []⟩
example : pureSs progN = true := by decide
example : (allDefs progN).map (·.name) = [['i','n','n','e','r'], ['o','u','t','e','r'], ['l','a','t','e']] := by decide
example : compileProgram progN = .ok compN := by
  have hok : (match compileProgram progN with | .ok _ => true | .error _ => false) = true := by decide +kernel
  unfold compN
  cases h : compileProgram progN with
  | ok c => rfl
  | error e => rw [h] at hok; cases hok
example : (match execSs (Api.newMachine compN false [] (fun _ => false)) (allDefs progN) .nilIface 0 20 progN {} [] with
    | .returned (.int v) _ _ => v == 95
    | _ => false) = true := by decide +kernel
end nonvacuous

end EvalFilter.Props.C06
