/-
  C06 — Functions and scopes: locals stay local, everything else is global.

  The environment is the pair (global map, stack of scopes).  Parameters, `local`
  variables and foreach variables are bound with `declare` in the innermost
  scope; assignments use `set` (update the nearest binding, else the global map);
  `invoke` opens a scope for a call and `finish` closes whatever the callee left open.
-/
import EvalFilter.Proofs.VMFrame
import EvalFilter.Props.Tables

namespace EvalFilter.Props.C06
open EvalFilter EvalFilter.VM

/-! ### association lists -/
theorem lookup_setAssoc_same (l : Scope) (k : Str) (v : Value) : (setAssoc l k v).lookup k = some v := by
  induction l with
  | nil => simp [setAssoc]
  | cons p ps ih =>
    obtain ⟨k', v'⟩ := p
    simp only [setAssoc]
    by_cases h : k' = k
    · simp [h]
    · have hb : (k' == k) = false := by simpa using h
      have hb2 : (k == k') = false := by simpa using Ne.symm h
      simp [hb, List.lookup, hb2, ih]

theorem lookup_setAssoc_other (l : Scope) (k k2 : Str) (v : Value) (h : k2 ≠ k) :
    (setAssoc l k v).lookup k2 = l.lookup k2 := by
  induction l with
  | nil =>
    have hb : (k2 == k) = false := by simpa using h
    simp [setAssoc, List.lookup, hb]
  | cons p ps ih =>
    obtain ⟨k', v'⟩ := p
    simp only [setAssoc]
    by_cases hk : k' = k
    · subst hk
      have hb : (k2 == k') = false := by simpa using h
      simp [List.lookup, hb]
    · have hb : (k' == k) = false := by simpa using hk
      simp only [hb, Bool.false_eq_true, ↓reduceIte, List.lookup]
      cases hk2 : (k2 == k') <;> simp [ih]

/-! ### parameters, locals and loop variables: `declare` -/

/-- a declaration touches only the innermost scope: the global variables and every enclosing
    scope (the caller's variables) are unchanged -/
theorem C06_declare_isolated (e : Env) (name : Str) (v : Value) :
    (e.declare name v).globals = e.globals ∧ (e.declare name v).scopes.dropLast = e.scopes.dropLast ∧
    (e.declare name v).scopes.length = e.scopes.length := by
  unfold Env.declare
  split
  · exact ⟨rfl, rfl, rfl⟩
  · rename_i s rest heq
    have hrev : e.scopes = rest.reverse ++ [s] := by
      have := congrArg List.reverse heq
      simpa using this
    simp [hrev]

/-- inside the scope the declared name has the declared value -/
theorem C06_declare_visible (e : Env) (name : Str) (v : Value) (h : e.scopes ≠ []) :
    (e.declare name v).get name = some v := by
  unfold Env.declare
  split
  · rename_i heq
    exact absurd (by simpa using heq) h
  · rename_i s rest heq
    simp [Env.get, Env.isLocal, lookup_setAssoc_same]

/-- closing a scope discards exactly what was declared in it -/
theorem C06_remove_after_add (e : Env) : e.addScope.removeScope = some e := by
  cases e with
  | mk g s => simp [Env.addScope, Env.removeScope]

theorem C06_declare_then_remove (e : Env) (name : Str) (v : Value) :
    (e.addScope.declare name v).removeScope = some e := by
  cases e with
  | mk g s =>
    simp [Env.addScope, Env.declare, Env.removeScope]

/-- so after a call the caller's variable of the same name has its old value -/
theorem C06_shadow_restored (e e' : Env) (name : Str) (v : Value)
    (h : (e.addScope.declare name v).removeScope = some e') : e'.get name = e.get name := by
  rw [C06_declare_then_remove] at h
  cases h; rfl

/-! ### everything else is global: `set` -/

/-- an assignment to a name that no open scope binds goes to the global map … -/
theorem C06_set_unbound_is_global (e : Env) (name : Str) (v : Value) (h : e.isLocal name = none) :
    (e.set name v).scopes = e.scopes ∧ (e.set name v).globals.lookup name = some v := by
  have hu : ∀ (ss : List Scope), (ss.reverse.findSome? (fun s => s.lookup name)) = none →
      Env.updateInnermost ss name v = none := by
    intro ss
    induction ss with
    | nil => intro _; rfl
    | cons s rest ih =>
      intro hn
      simp only [List.reverse_cons, List.findSome?_append, List.findSome?_cons, List.findSome?_nil] at hn
      have h1 : rest.reverse.findSome? (fun s => s.lookup name) = none := by
        cases hh : rest.reverse.findSome? (fun s => s.lookup name) with
        | none => rfl
        | some x => simp [hh] at hn
      have h2 : s.lookup name = none := by
        simp [h1] at hn
        cases hs : s.lookup name with
        | none => rfl
        | some x => simp [hs] at hn
      simp [Env.updateInnermost, ih h1, h2]
  unfold Env.isLocal at h
  unfold Env.set
  rw [hu e.scopes h]
  exact ⟨rfl, lookup_setAssoc_same _ _ _⟩

/-- … and is therefore still visible when every scope has been closed -/
theorem C06_globals_persist (e : Env) (name : Str) (v : Value) (h : e.isLocal name = none) :
    ({ (e.set name v) with scopes := [] } : Env).get name = some v := by
  have := (C06_set_unbound_is_global e name v h).2
  simp [Env.get, Env.isLocal, this]

/-! ### the call protocol -/

/-- a call never leaves more scopes open than there were before it, whatever the callee's byte code
    does and however it ends (return from inside loops, error, panic, time-out) -/
theorem C06_call_restores_scope_depth (runBody : Bytes → RunSt → Res × RunSt) (uf : UserFn)
    (args : List Value) (st : RunSt) (r : Res) (st' : RunSt) (env' : Env)
    (h : invoke runBody uf args st = (r, st')) (hr : st'.env.removeScope = some env') :
    env'.scopes.length ≤ st.env.scopes.length := by
  have hle : st'.env.scopes.length ≤ st.env.scopes.length + 1 := by
    have := invoke_scopes_le runBody uf args st
    rw [h] at this; exact this
  unfold Env.removeScope at hr
  split at hr
  · cases hr
  · cases hr
    simp [List.length_dropLast]
    omega

/-- a wrong argument count is a run-time error -/
theorem C06_arg_count_error (runBody : Bytes → RunSt → Res × RunSt) (uf : UserFn) (args : List Value) (st : RunSt)
    (hd : st.depth < maxCallDepth) (h : uf.params.length ≠ args.length) :
    (invoke runBody uf args st).1 = .error (.error "argCount") := by
  have : ¬ (maxCallDepth ≤ st.depth) := by omega
  unfold invoke
  simp [h, err, this]

/-- recursion deeper than the call-depth limit is a run-time error too (not a crash of the host) -/
theorem C06_recursion_limit (runBody : Bytes → RunSt → Res × RunSt) (uf : UserFn) (args : List Value) (st : RunSt)
    (hd : st.depth ≥ maxCallDepth) : invoke runBody uf args st = (.error (.error "callDepth"), st) := by
  unfold invoke
  simp [hd, err]

/-- calling a name that is neither a built-in/host function nor a user-defined function is an error -/
theorem C06_unknown_function_error (M : Machine) (obj : HostVal) (codeLen : Nat)
    (runBody : Bytes → RunSt → Res × RunSt) (n next : Nat) (fname : Value) (rest0 : List Value) (st : RunSt)
    (args rest : List Value) (hpop : popN n rest0 = some (args, rest))
    (h1 : lookupFn M fname.inspect = none) (h2 : lookupUser M fname.inspect = none) :
    step M obj codeLen runBody Op.call.toNat n next (fname :: rest0) st = .halt (.error (.error "noSuchFunction")) st := by
  simp [step, Op.ofNat?, Op.toNat, isBinary, hpop, h1, h2, err]

/-- a built-in wins over a user-defined function of the same name: OpCall consults the table of
    built-in and host functions first -/
theorem C06_builtin_wins (M : Machine) (obj : HostVal) (codeLen : Nat)
    (runBody : Bytes → RunSt → Res × RunSt) (n next : Nat) (fname : Value) (rest0 : List Value) (st : RunSt)
    (args rest : List Value) (hpop : popN n rest0 = some (args, rest)) (f : FnImpl)
    (h1 : lookupFn M fname.inspect = some f) (v : Value) (o : Str)
    (hv : callImpl fname.inspect f args = { out := o, res := .val v }) (hnv : v ≠ .nil) (hvoid : v ≠ .void) :
    step M obj codeLen runBody Op.call.toNat n next (fname :: rest0) st =
      .cont next (v :: rest) { st with out := st.out ++ o } := by
  simp only [step, Op.ofNat?, Op.toNat, isBinary, hpop, h1, hv]
  cases v <;> simp_all

/-- the registry consulted first is the regenerated list of built-ins -/
theorem C06_builtin_registry : Builtins.names = Spec.Tables.builtins.map (·.1) := Props.Tables.model_builtins

example : (({} : Env).addScope.declare "x".toList (.int 1)).get "x".toList = some (.int 1) :=
  C06_declare_visible _ _ _ (by simp [Env.addScope])

end EvalFilter.Props.C06
