/-
  C20 — The embedding API and the command-line driver are faithful front ends.
-/
import EvalFilter.Model.Api
import EvalFilter.Props.C06

namespace EvalFilter.Props.C20
open EvalFilter EvalFilter.VM

/-- `Run` returns exactly the truth value of what `Execute` returns for the same object and fails
    exactly when it does (and leaves the evaluator in the same state) -/
theorem C20_run_is_truth_of_execute (M : Machine) (obj : HostVal) (st : RunSt) (fuel : Nat) :
    Api.runBool M obj st fuel = ((Api.execute M obj st fuel).1.map Value.truthy, (Api.execute M obj st fuel).2) := by
  simp [Api.runBool]

theorem C20_run_fails_iff_execute_fails (M : Machine) (obj : HostVal) (st : RunSt) (fuel : Nat) :
    (∃ e, (Api.runBool M obj st fuel).1 = .error e) ↔ (∃ e, (Api.execute M obj st fuel).1 = .error e) := by
  simp only [Api.runBool]
  cases h : (Api.execute M obj st fuel).1 <;> simp [Except.map]

/-- a variable given with SetVariable is what GetVariable returns (and what the script reads:
    `vm.lookup` consults the same `Env.get` first) -/
theorem C20_set_get_variable (env : Env) (name : Str) (v : Value) (h : env.scopes = []) :
    Api.getVariable (env.set name v) name = v := by
  have hl : env.isLocal name = none := by simp [Env.isLocal, h]
  have := (Props.C06.C06_set_unbound_is_global env name v hl)
  simp [Api.getVariable, Env.get, Env.isLocal, this.1, h, this.2]

/-- GetVariable of a name never assigned is null -/
theorem C20_get_unset_is_null (name : Str) : Api.getVariable {} name = .null := by
  simp [Api.getVariable, Env.get, Env.isLocal]

/-- the script reads the variable first, then the object's field -/
theorem C20_script_reads_variable (obj : HostVal) (env : Env) (name : Str) (v : Value)
    (hn : ¬ Str.hasPrefix name ['$']) (h : env.get name = some v) : VM.lookup obj env name = .ok v := by
  have : Str.trimPrefix name ['$'] = name := by simp [Str.trimPrefix, hn]
  simp [VM.lookup, this, h]

/-- A function given with AddFunction is called once per call with the script's arguments in
    order; its result is the call's value … -/
theorem C20_host_call_protocol (M : Machine) (obj : HostVal) (codeLen : Nat)
    (runBody : Bytes → RunSt → Res × RunSt) (next : Nat) (name : Str) (h : HostFn) (args below : List Value)
    (st : RunSt) (v : Value) (hl : lookupFn M name = some (.host h))
    (hv : (callImpl name (.host h) args).res = .val v) (hnn : v ≠ .nil) (hnv : v ≠ .void) :
    step M obj codeLen runBody Op.call.toNat args.length next (.str name :: (args.reverse ++ below)) st =
      .cont next (v :: below) { st with out := st.out ++ hostMarker name args } := by
  have hpop : popN args.length (args.reverse ++ below) = some (args, below) := by
    simp [popN, List.take_append_of_le_length, List.drop_append_of_le_length]
  have hout : (callImpl name (.host h) args).out = hostMarker name args := by
    cases h <;> rfl
  simp only [step, Op.ofNat?, Op.toNat, isBinary, Value.inspect, hpop, hl, hout]
  cases hr : (callImpl name (.host h) args).res with
  | val w =>
    rw [hr] at hv; cases hv
    cases v <;> simp_all
  | panic => rw [hr] at hv; cases hv
  | unsupported => rw [hr] at hv; cases hv

/-- … or nothing, for the void value -/
theorem C20_host_call_void (M : Machine) (obj : HostVal) (codeLen : Nat)
    (runBody : Bytes → RunSt → Res × RunSt) (next : Nat) (name : Str) (args below : List Value) (st : RunSt)
    (hl : lookupFn M name = some (.host .void)) :
    step M obj codeLen runBody Op.call.toNat args.length next (.str name :: (args.reverse ++ below)) st =
      .cont next below { st with out := st.out ++ hostMarker name args } := by
  have hpop : popN args.length (args.reverse ++ below) = some (args, below) := by
    simp [popN, List.take_append_of_le_length, List.drop_append_of_le_length]
  simp [step, Op.ofNat?, Op.toNat, isBinary, Value.inspect, hpop, hl, callImpl]

/-- NoOptimize disables optimisation and nothing else: both preparations accept the same scripts,
    produce the same tokens, tree, constants and raw program, leave the variables alone, and the
    machines differ only in that one runs `optimize` of the other's byte code. -/
theorem C20_nooptimize_only (script : List Char) (env : Env) (fns : List (Str × FnImpl)) (done : Nat → Bool)
    (p : Api.Prepared) (env' : Env) (h : Api.prepare script false env fns done = .ok (p, env')) :
    ∃ p', Api.prepare script true env fns done = .ok (p', env') ∧ env' = env ∧
      p'.tokens = p.tokens ∧ p'.raw.consts = p.raw.consts ∧ p'.machine.consts = p.machine.consts ∧
      p'.machine.main = Optimizer.optimize p.machine.main ∧ p'.machine.fns = p.machine.fns ∧
      p'.machine.funcs = p.machine.funcs.map (fun f => ⟨f.name, f.params, Optimizer.optimize f.code⟩) := by
  unfold Api.prepare at h ⊢
  simp only [] at h ⊢
  split at h
  · cases h
  · rename_i ast hparse
    split at h
    · cases h
    · rename_i c hc
      simp only [Except.ok.injEq, Prod.mk.injEq] at h
      obtain ⟨rfl, rfl⟩ := h
      exact ⟨_, rfl, rfl, rfl, rfl, rfl, by simp [Api.newMachine], rfl,
        by simp [Api.newMachine, List.map_map, Function.comp_def]⟩

end EvalFilter.Props.C20
